(* C09 / C02 (frame numbering): onFrameDecided, sealing, Reset; the blocks emitted by one call
   have consecutive frames starting at LastDecidedFrame+1, a sealing block is the last one, and
   the sealed state IS the Reset state. *)
From Coq Require Import NArith ZArith List Lia Bool ZifyBool ZifyN ZifyNat.
From LV Require Import model.VecIndex model.Abft proofs.AbftStruct.
Import ListNotations.
Local Open Scope N_scope.

Section Seal.
Variable cap : nat.
Variable end_block : N -> N -> N -> list N -> list N -> option vals.

Lemma apply_atropos_shape es st f atr :
  match apply_atropos end_block es st f atr with
  | (Ok blk, st1) => (exists conf', st1 = set_conf st conf') /\ b_frame blk = f /\ b_atropos blk = atr /\
                     b_seal blk = end_block (l_epoch st) f atr (b_cheaters blk) (b_delivered blk)
  | (Err _, st1) => st1 = st
  end.
Proof.
  unfold apply_atropos. destruct (dfs_confirm _ _ _ _ _ _) as [[dl conf']|x]; [|reflexivity].
  cbn [b_frame b_atropos b_seal b_cheaters b_delivered]. repeat split. eexists; reflexivity.
Qed.

(* the sealing case: epoch+1, exactly the returned validators, no decided frame, empty epoch store,
   empty index and cache, fresh election: literally the state Orderer.Reset produces *)
Theorem seal_state es st f atr blk st' :
  on_frame_decided end_block es st f atr = (Ok (true, blk), st') ->
  exists nv, b_seal blk = Some nv /\ b_frame blk = f /\ b_atropos blk = atr /\
             st' = reset st (l_epoch st + 1) nv.
Proof.
  unfold on_frame_decided. pose proof (apply_atropos_shape es st f atr) as H.
  destruct (apply_atropos end_block es st f atr) as [[b|x] st1]; [|discriminate].
  destruct H as [[conf' ->] [Hf [Ha Hs]]].
  destruct (b_seal b) as [nv|] eqn:S; intros E; inversion E; subst.
  exists nv. repeat split; auto.
Qed.

Theorem reset_fields st ep nv :
  let st' := reset st ep nv in
  l_epoch st' = ep /\ l_vals st' = nv /\ l_ldf st' = 0 /\ l_roots st' = [] /\ l_conf st' = [] /\
  l_idx st' = init (length nv) /\ l_fcc st' = [] /\ l_el st' = el_reset nv 1 /\ l_ctr st' = l_ctr st.
Proof. cbn. repeat split. Qed.

(* two instances reset to the same epoch and validators differ in the build counter only *)
Theorem reset_forgets st1 st2 ep nv : reset st1 ep nv = set_ctr (reset st2 ep nv) (l_ctr st1).
Proof. reflexivity. Qed.

Theorem no_seal_state es st f atr blk st' :
  on_frame_decided end_block es st f atr = (Ok (false, blk), st') ->
  b_seal blk = None /\ b_frame blk = f /\ b_atropos blk = atr /\
  l_ldf st' = f /\ l_el st' = el_reset (l_vals st) (f + 1) /\
  l_epoch st' = l_epoch st /\ l_vals st' = l_vals st /\ l_roots st' = l_roots st /\ l_idx st' = l_idx st /\
  l_fcc st' = l_fcc st /\ l_ctr st' = l_ctr st.
Proof.
  unfold on_frame_decided. pose proof (apply_atropos_shape es st f atr) as H.
  destruct (apply_atropos end_block es st f atr) as [[b|x] st1]; [|discriminate].
  destruct H as [[conf' ->] [Hf [Ha Hs]]].
  destruct (b_seal b) as [nv|] eqn:S; intros E; inversion E; subst. cbn. repeat split; auto.
Qed.

Lemma on_frame_decided_err es st f atr x st' :
  on_frame_decided end_block es st f atr = (Err x, st') -> st' = st.
Proof.
  unfold on_frame_decided. pose proof (apply_atropos_shape es st f atr) as H.
  destruct (apply_atropos end_block es st f atr) as [[b|y] st1].
  - destruct (b_seal b); discriminate.
  - intros E; inversion E; subst; auto.
Qed.

(* ---------- frame numbering of the blocks of one call ---------- *)
Definition elinv (st : lstate) : Prop := el_frame (l_el st) = l_ldf st + 1.
Definition is_sealed (b : block) : bool := match b_seal b with Some _ => true | None => false end.
(* consecutive frames from l+1; a sealing block ends the list *)
Fixpoint frames_ok (l : N) (bl : list block) : Prop :=
  match bl with
  | [] => True
  | b :: t => b_frame b = l + 1 /\ if is_sealed b then t = [] else frames_ok (l + 1) t
  end.
Definition sealed_last (bl : list block) : bool := existsb is_sealed bl.
(* the relation between the state before, the emitted blocks and the state after *)
Definition post (st : lstate) (bl : list block) (st' : lstate) : Prop :=
  frames_ok (l_ldf st) bl /\ elinv st' /\
  if sealed_last bl then l_ldf st' = 0 /\ l_epoch st' = l_epoch st + 1
  else l_ldf st' = l_ldf st + N.of_nat (length bl) /\ l_epoch st' = l_epoch st /\ l_vals st' = l_vals st /\
       l_roots st' = l_roots st /\ l_idx st' = l_idx st /\ l_ctr st' = l_ctr st.

Lemma elinv_core st st' : same_core st st' -> elinv st -> elinv st'.
Proof. unfold elinv. intros (A1&A2&A3&A4&A5&A6&A7&A8&A9) H. congruence. Qed.

Lemma post_nil st st' : same_core st st' -> elinv st -> post st [] st'.
Proof.
  intros SC I. pose proof (elinv_core _ _ SC I). destruct SC as (A1&A2&A3&A4&A5&A6&A7&A8&A9).
  unfold post. cbn. repeat split; auto. lia.
Qed.

Lemma post_cons st b st1 t st' :
  b_frame b = l_ldf st + 1 -> is_sealed b = false ->
  l_ldf st1 = l_ldf st + 1 -> l_epoch st1 = l_epoch st -> l_vals st1 = l_vals st ->
  l_roots st1 = l_roots st -> l_idx st1 = l_idx st -> l_ctr st1 = l_ctr st ->
  post st1 t st' -> post st (b :: t) st'.
Proof.
  intros Hf Hs L E V R X C [F [I P]]. unfold post. cbn [frames_ok sealed_last existsb length]. rewrite Hs. cbn [orb].
  split; [split; [exact Hf | rewrite <- L; exact F]|]. split; [exact I|].
  unfold sealed_last in P. destruct (existsb is_sealed t).
  - destruct P as [P1 P2]. split; [auto | lia].
  - destruct P as (P1&P2&P3&P4&P5&P6). repeat split; try congruence. lia.
Qed.

Lemma post_core st st1 bl st' : same_core st st1 -> post st1 bl st' -> post st bl st'.
Proof.
  intros (A1&A2&A3&A4&A5&A6&A7&A8&A9) [F [I P]]. unfold post. rewrite <- A3, <- A1. split; [exact F|]. split; [exact I|].
  destruct (sealed_last bl); [exact P|]. destruct P as (P1&P2&P3&P4&P5&P6). repeat split; congruence.
Qed.

Lemma bootstrap_election_app es : forall fuel st bl0,
  bootstrap_election cap end_block fuel es st bl0 =
  (let '(r, new, st') := bootstrap_election cap end_block fuel es st [] in (r, bl0 ++ new, st')).
Proof.
  induction fuel as [|fu IH]; intros st bl0; cbn [bootstrap_election].
  - rewrite app_nil_r. reflexivity.
  - destruct (process_known_roots cap (roots_fuel st) st (l_ldf st + 1)) as [[[[df atr]|]|x] st1];
      try (rewrite app_nil_r; reflexivity).
    destruct (on_frame_decided end_block es st1 df atr) as [[[sealed blk]|x] st2];
      try (rewrite app_nil_r; reflexivity).
    destruct sealed; [reflexivity|].
    rewrite (IH st2 (bl0 ++ [blk])), (IH st2 ([] ++ [blk])).
    destruct (bootstrap_election cap end_block fu es st2 []) as [[r new] st']. cbn [app].
    rewrite <- app_assoc. reflexivity.
Qed.

Lemma bootstrap_election_post es : forall fuel st r bl st',
  elinv st -> bootstrap_election cap end_block fuel es st [] = (r, bl, st') ->
  post st bl st' /\ (r = Ok true -> sealed_last bl = true) /\ (r = Ok false -> sealed_last bl = false).
Proof.
  induction fuel as [|fu IH]; intros st r bl st' I E; cbn [bootstrap_election] in E.
  - inversion E; subst. split; [apply post_nil; [apply same_core_refl | exact I]|]. split; discriminate.
  - destruct (process_known_roots_core cap (roots_fuel st) st (l_ldf st + 1)) as [SC DF].
    destruct (process_known_roots cap (roots_fuel st) st (l_ldf st + 1)) as [[[[df atr]|]|x] st1]; cbn [fst snd] in *.
    + specialize (DF _ _ eq_refl). pose proof (elinv_core _ _ SC I) as I1.
      assert (Hdf : df = l_ldf st + 1) by (unfold elinv in I; congruence).
      destruct (on_frame_decided end_block es st1 df atr) as [[[sealed blk]|x] st2] eqn:OF.
      * destruct sealed.
        -- inversion E; subst r bl st'. apply seal_state in OF as [nv [S [Bf [Ba ->]]]].
           destruct SC as (A1&A2&A3&A4&A5&A6&A7&A8&A9).
           split; [|split; [intros _; cbn; unfold is_sealed; rewrite S; reflexivity | discriminate]].
           unfold post. cbn [frames_ok sealed_last existsb]. unfold is_sealed. rewrite S. cbn [orb].
           split; [split; [congruence | reflexivity]|]. split; [unfold elinv; cbn; lia|]. cbn. split; [reflexivity | congruence].
        -- rewrite bootstrap_election_app in E.
           destruct (bootstrap_election cap end_block fu es st2 []) as [[r2 new] st3] eqn:E2.
           inversion E; subst r bl st'. cbn [app].
           apply no_seal_state in OF as (S&Bf&Ba&L&El&Ep&V&R&X&Fc&C).
           assert (I2 : elinv st2) by (unfold elinv; rewrite El, L; cbn; lia).
           destruct (IH _ _ _ _ I2 E2) as [P [Q1 Q2]].
           destruct SC as (A1&A2&A3&A4&A5&A6&A7&A8&A9).
           split; [|split; intros H; cbn [sealed_last existsb]; unfold is_sealed; rewrite S; cbn [orb]; auto].
           eapply post_cons; try exact P; unfold is_sealed; try rewrite S; try congruence.
      * inversion E; subst r bl st'. apply on_frame_decided_err in OF. subst st2.
        split; [apply post_nil; auto|]. split; discriminate.
    + inversion E; subst. split; [apply post_nil; auto|]. split; [discriminate | reflexivity].
    + inversion E; subst. split; [apply post_nil; auto|]. split; discriminate.
Qed.

Lemma handle_election_app es e : forall fuel st f bl0,
  handle_election cap end_block fuel es st e f bl0 =
  (let '(r, new, st') := handle_election cap end_block fuel es st e f [] in (r, bl0 ++ new, st')).
Proof.
  induction fuel as [|fu IH]; intros st f bl0; cbn [handle_election].
  - rewrite app_nil_r. reflexivity.
  - destruct (a_frame e <? f); [rewrite app_nil_r; reflexivity|].
    destruct (process_root cap st (f, a_creator e, a_id e)) as [[[[df atr]|]|x] st1];
      try (rewrite app_nil_r; reflexivity).
    + destruct (on_frame_decided end_block es st1 df atr) as [[[sealed blk]|x] st2];
        try (rewrite app_nil_r; reflexivity).
      destruct sealed; [reflexivity|].
      rewrite (bootstrap_election_app es (roots_fuel st2) st2 (bl0 ++ [blk])).
      rewrite (bootstrap_election_app es (roots_fuel st2) st2 ([] ++ [blk])).
      destruct (bootstrap_election cap end_block (roots_fuel st2) es st2 []) as [[[s2|x] new] st3]; cbn [app].
      * destruct s2; [rewrite <- app_assoc; reflexivity|].
        rewrite (IH st3 (f + 1) ((bl0 ++ [blk]) ++ new)), (IH st3 (f + 1) (blk :: new)).
        destruct (handle_election cap end_block fu es st3 e (f + 1) []) as [[r3 new3] st4].
        rewrite <- !app_assoc. reflexivity.
      * rewrite <- app_assoc. reflexivity.
    + apply IH.
Qed.

Lemma frames_ok_app : forall t1 l t2, frames_ok l t1 -> existsb is_sealed t1 = false ->
  frames_ok (l + N.of_nat (length t1)) t2 -> frames_ok l (t1 ++ t2).
Proof.
  induction t1 as [|x t1 IHt]; intros l t2 F S G; cbn [app length] in *.
  - replace (l + N.of_nat 0) with l in G by lia. exact G.
  - cbn [existsb] in S. apply orb_false_iff in S as [Sx St]. destruct F as [Fx Ft]. rewrite Sx in Ft.
    cbn [frames_ok]. rewrite Sx. split; auto. apply IHt; auto.
    replace (l + 1 + N.of_nat (length t1)) with (l + N.of_nat (S (length t1))) by lia. exact G.
Qed.

Lemma post_trans st bl1 st1 bl2 st2 :
  post st bl1 st1 -> sealed_last bl1 = false -> post st1 bl2 st2 -> post st (bl1 ++ bl2) st2.
Proof.
  intros [F1 [I1 P1]] S1 [F2 [I2 P2]]. rewrite S1 in P1. destruct P1 as (L&E&V&R&X&C).
  unfold post. split; [|split; [exact I2|]].
  - apply frames_ok_app; auto. rewrite <- L. exact F2.
  - unfold sealed_last in *. rewrite existsb_app, S1. cbn [orb].
    destruct (existsb is_sealed bl2).
    + destruct P2 as [Q1 Q2]. split; [auto | congruence].
    + destruct P2 as (Q1&Q2&Q3&Q4&Q5&Q6). rewrite app_length. repeat split; try congruence. lia.
Qed.

Lemma handle_election_post es e : forall fuel st f r bl st',
  elinv st -> handle_election cap end_block fuel es st e f [] = (r, bl, st') -> post st bl st'.
Proof.
  induction fuel as [|fu IH]; intros st f r bl st' I E; cbn [handle_election] in E.
  - inversion E; subst. apply post_nil; [apply same_core_refl | exact I].
  - destruct (a_frame e <? f).
    { inversion E; subst. apply post_nil; [apply same_core_refl | exact I]. }
    destruct (process_root_core cap st (f, a_creator e, a_id e)) as [SC DF].
    destruct (process_root cap st (f, a_creator e, a_id e)) as [[[[df atr]|]|x] st1]; cbn [fst snd] in *.
    + specialize (DF _ _ eq_refl). pose proof (elinv_core _ _ SC I) as I1.
      assert (Hdf : df = l_ldf st + 1) by (unfold elinv in I; congruence).
      destruct (on_frame_decided end_block es st1 df atr) as [[[sealed blk]|x] st2] eqn:OF.
      * destruct sealed.
        -- inversion E; subst r bl st'. apply seal_state in OF as [nv [S [Bf [Ba ->]]]].
           destruct SC as (A1&A2&A3&A4&A5&A6&A7&A8&A9).
           unfold post. cbn [app frames_ok sealed_last existsb]. unfold is_sealed. rewrite S. cbn [orb].
           split; [split; [congruence | reflexivity]|]. split; [unfold elinv; cbn; lia|]. cbn. split; [reflexivity | congruence].
        -- apply no_seal_state in OF as (S&Bf&Ba&L&El&Ep&V&R&X&Fc&C).
           assert (I2 : elinv st2) by (unfold elinv; rewrite El, L; cbn; lia).
           rewrite bootstrap_election_app in E.
           destruct (bootstrap_election cap end_block (roots_fuel st2) es st2 []) as [[r2 new] st3] eqn:E2.
           destruct (bootstrap_election_post es _ _ _ _ _ I2 E2) as [P2 [Q1 Q2]].
           destruct SC as (A1&A2&A3&A4&A5&A6&A7&A8&A9).
           assert (Pb : forall t stx, post st2 t stx -> post st (blk :: t) stx).
           { intros t stx Pt. eapply post_cons; try exact Pt; unfold is_sealed; try rewrite S; try congruence. }
           cbn [app] in E.
           destruct r2 as [s2|x].
           ++ destruct s2.
              ** inversion E; subst. apply Pb. exact P2.
              ** rewrite handle_election_app in E.
                 destruct (handle_election cap end_block fu es st3 e (f + 1) []) as [[r3 new3] st4] eqn:E3.
                 inversion E; subst r bl st'.
                 destruct P2 as [F2 [I3 P2']]. pose proof (Q2 eq_refl) as NS.
                 assert (P3 : post st3 new3 st4) by (eapply IH; eauto).
                 change (blk :: new ++ new3) with ((blk :: new) ++ new3).
                 eapply post_trans; [apply Pb; split; [exact F2 | split; [exact I3 | exact P2']] | | exact P3].
                 cbn [sealed_last existsb]. unfold is_sealed. rewrite S. cbn [orb]. exact NS.
           ++ inversion E; subst. apply Pb. exact P2.
      * inversion E; subst r bl st'. apply on_frame_decided_err in OF. subst st2. apply post_nil; auto.
    + eapply post_core; [exact SC|]. eapply IH; [|exact E]. eapply elinv_core; eauto.
    + inversion E; subst. apply post_nil; auto.
Qed.

End Seal.
