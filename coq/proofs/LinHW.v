(* C28 — proofs, part 2: every trace of the atomic object has a linearizable history in the sense of
   Herlihy & Wing (order of the ALin actions = the linearization). *)
From Coq Require Import List Arith Lia.
From LV Require Import model.Lin.
Import ListNotations.

Section HW.
  Variables state op ret local : Type.
  Variable linit : op -> local.
  Variable mstep : op -> local -> state -> local * state.
  Variable fin : op -> local -> option ret.
  Variable waits : op -> local -> bool.
  Variable wstep : op -> local -> local.
  Variable s0 : state.

  Notation seq_exec := (seq_exec state op ret local linit mstep fin waits wstep).
  Notation seq_legal := (seq_legal state op ret local linit mstep fin waits wstep).
  Notation aconfig := (aconfig state op ret).
  Notation astep := (astep state op ret local linit mstep fin waits wstep).
  Notation aexec := (aexec state op ret local linit mstep fin waits wstep s0).
  Notation hev := (hev op ret).
  Notation ahist := (ahist op ret).
  Notation matching := (matching op ret).
  Notation pending := (pending op ret).
  Notation lin_entry := (lin_entry op ret).
  Notation aupd := (aupd op ret).
  Notation HInv := (HInv op ret).
  Notation HRet := (HRet op ret).

  (* ---------- lists *)
  Lemma nth_error_snoc_old : forall (A : Type) (h : list A) x i y,
    nth_error h i = Some y -> nth_error (h ++ [x]) i = Some y.
  Proof. intros A h x i y H. rewrite nth_error_app1; auto. apply nth_error_Some; congruence. Qed.

  Lemma nth_error_snoc_inv : forall (A : Type) (h : list A) x i y,
    nth_error (h ++ [x]) i = Some y ->
    (i < length h /\ nth_error h i = Some y) \/ (i = length h /\ x = y).
  Proof.
    intros A h x i y H. destruct (lt_dec i (length h)) as [Hlt|Hge].
    - left; split; auto. now rewrite nth_error_app1 in H.
    - right. rewrite nth_error_app2 in H by lia.
      destruct (i - length h) as [|k] eqn:E; simpl in H.
      + split; [lia|congruence].
      + destruct k; discriminate.
  Qed.

  Lemma nth_error_snoc_new : forall (A : Type) (h : list A) x, nth_error (h ++ [x]) (length h) = Some x.
  Proof. intros. rewrite nth_error_app2 by lia. now rewrite Nat.sub_diag. Qed.

  Lemma nth_error_lt : forall (A : Type) (h : list A) i y, nth_error h i = Some y -> i < length h.
  Proof. intros A h i y H. apply nth_error_Some; congruence. Qed.

  Lemma NoDup_app_single : forall (A : Type) (l : list A) x, NoDup l -> ~ In x l -> NoDup (l ++ [x]).
  Proof.
    induction l as [|y l IH]; simpl; intros x Hnd Hni.
    - repeat constructor; auto.
    - inversion Hnd as [|? ? Hy Hl]; subst. constructor.
      + rewrite in_app_iff; simpl. intros [H|[H|[]]]; auto.
      + apply IH; auto.
  Qed.

  (* ---------- matching / pending under extension of the history *)
  Lemma matching_snoc : forall h x i j t o r, matching h i j t o r -> matching (h ++ [x]) i j t o r.
  Proof.
    intros h x i j t o r (Hi & Hj & Hlt & Hno). repeat split; auto using nth_error_snoc_old.
    intros k r' Hik Hkj Hk. apply (Hno k r' Hik Hkj).
    rewrite nth_error_app1 in Hk; auto. apply nth_error_lt in Hj; lia.
  Qed.

  Lemma matching_snoc_inv : forall h x i j t o r, matching (h ++ [x]) i j t o r ->
    (matching h i j t o r) \/ (j = length h /\ x = HRet t r /\ pending h i t o).
  Proof.
    intros h x i j t o r (Hi & Hj & Hlt & Hno).
    destruct (nth_error_snoc_inv _ _ _ _ _ Hj) as [[Hjl Hj']|[Hjl Hx]].
    - left. destruct (nth_error_snoc_inv _ _ _ _ _ Hi) as [[_ Hi']|[Hil _]]; [|lia].
      repeat split; auto. intros k r' Hik Hkj Hk. apply (Hno k r' Hik Hkj). now apply nth_error_snoc_old.
    - right. subst j. destruct (nth_error_snoc_inv _ _ _ _ _ Hi) as [[_ Hi']|[Hil _]]; [|lia].
      repeat split; auto. intros k r' Hik Hk. pose proof (nth_error_lt _ _ _ _ Hk) as Hkl.
      apply (Hno k r' Hik Hkl). now apply nth_error_snoc_old.
  Qed.

  Lemma pending_snoc : forall h x i t o, pending h i t o -> (forall r, x <> HRet t r) -> pending (h ++ [x]) i t o.
  Proof.
    intros h x i t o [Hi Hno] Hx. split; auto using nth_error_snoc_old.
    intros k r' Hik Hk. destruct (nth_error_snoc_inv _ _ _ _ _ Hk) as [[_ Hk']|[_ Hxe]].
    - now apply (Hno k r' Hik).
    - now apply (Hx r').
  Qed.

  Lemma pending_snoc_ret : forall h i t o r, pending h i t o -> matching (h ++ [HRet t r]) i (length h) t o r.
  Proof.
    intros h i t o r [Hi Hno]. pose proof (nth_error_lt _ _ _ _ Hi) as Hl.
    repeat split; auto using nth_error_snoc_old, nth_error_snoc_new.
    intros k r' Hik Hkl Hk. apply (Hno k r' Hik). now rewrite nth_error_app1 in Hk.
  Qed.

  Lemma pending_new : forall h t o, pending (h ++ [HInv t o]) (length h) t o.
  Proof.
    intros h t o. split; [apply nth_error_snoc_new|].
    intros k r' Hk Hn. apply nth_error_lt in Hn. rewrite app_length in Hn; simpl in Hn. lia.
  Qed.

  Lemma matching_not_pending : forall h i j t o r o', matching h i j t o r -> ~ pending h i t o'.
  Proof. intros h i j t o r o' (_ & Hj & Hlt & _) [_ Hno]. exact (Hno j r Hlt Hj). Qed.

  Lemma matching_fun : forall h i j j' t o r t' o' r',
    matching h i j t o r -> matching h i j' t' o' r' -> j = j' /\ r = r' /\ t = t' /\ o = o'.
  Proof.
    intros h i j j' t o r t' o' r' (Hi & Hj & Hlt & Hno) (Hi' & Hj' & Hlt' & Hno').
    rewrite Hi in Hi'; inversion Hi'; subst t' o'.
    destruct (lt_eq_lt_dec j j') as [[Hl|He]|Hg].
    - exfalso; exact (Hno' j r Hlt Hl Hj).
    - subst j'. rewrite Hj in Hj'; inversion Hj'; auto.
    - exfalso; exact (Hno j' r' Hlt' Hg Hj').
  Qed.

  (* ---------- sequential runs *)
  Fixpoint seq_reach (s : state) (ops : list (op * ret)) (s' : state) : Prop :=
    match ops with
    | [] => s = s'
    | (o, r) :: rest => exists s1, seq_exec o s s1 r /\ seq_reach s1 rest s'
    end.

  Lemma seq_reach_snoc : forall ops s s1 o r s2,
    seq_reach s ops s1 -> seq_exec o s1 s2 r -> seq_reach s (ops ++ [(o, r)]) s2.
  Proof.
    induction ops as [|[o' r'] ops IH]; simpl; intros s s1 o r s2 H1 H2.
    - subst. exists s2; auto.
    - destruct H1 as [sm [Hx Hr]]. exists sm; split; auto. eapply IH; eauto.
  Qed.

  Lemma seq_reach_legal : forall ops s s', seq_reach s ops s' -> seq_legal s ops.
  Proof.
    induction ops as [|[o r] ops IH]; simpl; intros s s' H; auto.
    destruct H as [s1 [Hx Hr]]. exists s1; split; eauto.
  Qed.

  (* ---------- sortedness of the linearization points *)
  Definition pts_sorted (S : list lin_entry) : Prop :=
    forall l1 x l2 y l3, S = l1 ++ x :: l2 ++ y :: l3 -> le_pt _ _ x <= le_pt _ _ y.

  Lemma pts_sorted_snoc : forall (S : list lin_entry) (z : lin_entry),
    pts_sorted S -> (forall e, In e S -> le_pt _ _ e <= le_pt _ _ z) -> pts_sorted (S ++ [z]).
  Proof.
    intros S z Hs Hb l1 x l2 y l3 E.
    destruct l3 as [|w l3'] using rev_ind.
    - (* y is the last element = z *)
      assert (E' : S ++ [z] = (l1 ++ x :: l2) ++ [y]) by (rewrite E, <- app_assoc; reflexivity).
      apply app_inj_tail in E'. destruct E' as [ES Ez]. subst y.
      apply Hb. rewrite ES. apply in_or_app; right; left; reflexivity.
    - clear IHl3'.
      assert (E' : S ++ [z] = (l1 ++ x :: l2 ++ y :: l3') ++ [w]).
      { rewrite E. rewrite <- !app_assoc. simpl. rewrite <- !app_assoc. reflexivity. }
      apply app_inj_tail in E'. destruct E' as [ES _].
      eapply Hs; eauto.
  Qed.

  (* ---------- the invariant *)
  Definition invs (S : list lin_entry) : list nat := map (le_inv _ _) S.

  Definition others_matched (h : list hev) (t : tid) (i : nat) : Prop :=
    forall i' o', nth_error h i' = Some (HInv t o') -> i' <> i -> exists j r, matching h i' j t o' r.

  Definition thread_ok (h : list hev) (a : aconfig) (S : list lin_entry) (t : tid) : Prop :=
    match ath _ _ _ a t with
    | AIdle _ _ => forall i o, nth_error h i = Some (HInv t o) -> exists j r, matching h i j t o r
    | APending _ _ o => exists i, pending h i t o /\ ~ In i (invs S) /\ others_matched h t i
    | ADone _ _ o r => exists i pt, pending h i t o /\ In (mkle _ _ i pt t o r) S /\ others_matched h t i
    end.

  Definition entry_ok (h : list hev) (a : aconfig) (e : lin_entry) : Prop :=
    le_inv _ _ e < le_pt _ _ e /\ le_pt _ _ e <= length h /\
    ((exists j, matching h (le_inv _ _ e) j (le_tid _ _ e) (le_op _ _ e) (le_ret _ _ e) /\ le_pt _ _ e <= j) \/
     (pending h (le_inv _ _ e) (le_tid _ _ e) (le_op _ _ e) /\
      ath _ _ _ a (le_tid _ _ e) = ADone _ _ (le_op _ _ e) (le_ret _ _ e))).

  Definition lin_inv (h : list hev) (a : aconfig) (S : list lin_entry) : Prop :=
    seq_reach s0 (map (fun e => (le_op _ _ e, le_ret _ _ e)) S) (ash _ _ _ a) /\
    NoDup (invs S) /\
    (forall e, In e S -> entry_ok h a e) /\
    pts_sorted S /\
    (forall t, thread_ok h a S t) /\
    (forall i j t o r, matching h i j t o r -> exists pt, In (mkle _ _ i pt t o r) S).

  Lemma aupd_same : forall f t v, aupd f t v t = v.
  Proof. intros; unfold Lin.aupd; now rewrite Nat.eqb_refl. Qed.
  Lemma aupd_other : forall f t v t', t' <> t -> aupd f t v t' = f t'.
  Proof. intros f t v t' H; unfold Lin.aupd. apply Nat.eqb_neq in H. now rewrite H. Qed.

  Lemma ahist_snoc : forall tr x, ahist (tr ++ [x]) = ahist tr ++ hist_of_aaction op ret x.
  Proof. intros; unfold Lin.ahist. rewrite flat_map_app; simpl. now rewrite app_nil_r. Qed.

  Lemma others_matched_snoc : forall h x t i, others_matched h t i ->
    (forall o, x <> HInv t o) -> others_matched (h ++ [x]) t i.
  Proof.
    intros h x t i Ho Hx i' o' Hn Hne. destruct (nth_error_snoc_inv _ _ _ _ _ Hn) as [[_ Hn']|[_ Hxe]].
    - destruct (Ho i' o' Hn' Hne) as [j [r Hm]]. exists j, r. now apply matching_snoc.
    - exfalso; eapply Hx; eauto.
  Qed.

  Lemma in_invs : forall (S : list lin_entry) e, In e S -> In (le_inv _ _ e) (invs S).
  Proof. intros S e H. unfold invs. now apply in_map. Qed.

  Lemma NoDup_invs_eq : forall (S : list lin_entry) e e', NoDup (invs S) -> In e S -> In e' S ->
    le_inv _ _ e = le_inv _ _ e' -> e = e'.
  Proof.
    induction S as [|x S IH]; simpl; intros e e' Hnd He He' Heq; [contradiction|].
    inversion Hnd as [|? ? Hnin Hnd']; subst.
    destruct He as [->|He], He' as [->|He']; auto.
    - exfalso; apply Hnin. rewrite Heq. now apply in_invs.
    - exfalso; apply Hnin. rewrite <- Heq. now apply in_invs.
  Qed.

  Theorem atomic_lin_inv : forall atr a, aexec atr a -> exists S, lin_inv (ahist atr) a S.
  Proof.
    intros atr a Hex; induction Hex as [|atr a x a' Hex IH Hstep].
    - exists []. unfold lin_inv; simpl. split; [reflexivity|]. split; [constructor|].
      split; [intros e []|]. split; [intros l1 x l2 y l3 E; destruct l1; discriminate|]. split.
      + intro t; unfold thread_ok; simpl. intros i o Hn; destruct i; discriminate.
      + intros i j t o r (Hi & _); destruct i; discriminate.
    - destruct IH as [S (Hreach & Hnd & Hent & Hsort & Hthr & Hcomp)].
      rewrite ahist_snoc. set (h := ahist atr) in *.
      destruct Hstep as [a t o Hidle | a t o s' r Hpend Hseq | a t o r Hdone]; simpl.
      + (* AInv t o : the history grows by HInv t o *)
        exists S. unfold lin_inv; simpl. split; [exact Hreach|]. split; [exact Hnd|].
        assert (Hxr : forall t' r', HInv t o <> HRet t' r') by (intros; discriminate).
        split; [|split; [exact Hsort|split]].
        * intros e He. destruct (Hent e He) as (H1 & H2 & H3). split; auto. split.
          { rewrite app_length; simpl; lia. }
          destruct H3 as [[j [Hm Hj]]|[Hp Ha]].
          -- left; exists j; split; auto using matching_snoc.
          -- right; split; [apply pending_snoc; auto|].
             simpl. destruct (Nat.eq_dec (le_tid _ _ e) t) as [E|Hne].
             ++ rewrite E in Ha. congruence.
             ++ now rewrite aupd_other.
        * intro t'. unfold thread_ok; simpl. destruct (Nat.eq_dec t' t) as [->|Hne].
          -- rewrite aupd_same. exists (length h). split; [apply pending_new|]. split.
             ++ intro Hin. unfold invs in Hin. apply in_map_iff in Hin. destruct Hin as [e [Ee He]].
                destruct (Hent e He) as (H1 & H2 & _). lia.
             ++ intros i' o' Hn Hne. destruct (nth_error_snoc_inv _ _ _ _ _ Hn) as [[_ Hn']|[Hil _]]; [|lia].
                pose proof (Hthr t) as Ht; unfold thread_ok in Ht; rewrite Hidle in Ht.
                destruct (Ht i' o' Hn') as [j [r Hm]]. exists j, r. now apply matching_snoc.
          -- rewrite aupd_other by assumption.
             pose proof (Hthr t') as Ht; unfold thread_ok in Ht.
             destruct (ath _ _ _ a t') as [|o'|o' r'].
             ++ intros i o2 Hn. destruct (nth_error_snoc_inv _ _ _ _ _ Hn) as [[_ Hn']|[_ Hxe]].
                ** destruct (Ht i o2 Hn') as [j [r Hm]]. exists j, r. now apply matching_snoc.
                ** inversion Hxe; congruence.
             ++ destruct Ht as [i (Hp & Hni & Hom)]. exists i. split; [apply pending_snoc; auto|]. split; auto.
                apply others_matched_snoc; auto. intros o2 E; inversion E; congruence.
             ++ destruct Ht as [i [pt (Hp & Hin & Hom)]]. exists i, pt. split; [apply pending_snoc; auto|]. split; auto.
                apply others_matched_snoc; auto. intros o2 E; inversion E; congruence.
        * intros i j t' o' r' Hm. destruct (matching_snoc_inv _ _ _ _ _ _ _ Hm) as [Hm'|(_ & Hx & _)].
          -- eapply Hcomp; eauto.
          -- discriminate.
      + (* ALin t : the operation takes effect; the history is unchanged *)
        rewrite app_nil_r.
        pose proof (Hthr t) as Ht; unfold thread_ok in Ht; rewrite Hpend in Ht.
        destruct Ht as [i (Hp & Hni & Hom)].
        pose proof (nth_error_lt _ _ _ _ (proj1 Hp)) as Hil.
        exists (S ++ [mkle _ _ i (length h) t o r]). unfold lin_inv; simpl.
        split; [|split; [|split; [|split; [|split]]]].
        * rewrite map_app; simpl. eapply seq_reach_snoc; eauto.
        * unfold invs. rewrite map_app; simpl.
          apply NoDup_app_single. exact Hnd. exact Hni.
        * intros e He. apply in_app_or in He. destruct He as [He|[<-|[]]].
          -- destruct (Hent e He) as (H1 & H2 & H3). split; auto. split; auto.
             destruct H3 as [H3|[Hp' Ha]]; [left; exact H3|].
             right; split; auto. simpl. destruct (Nat.eq_dec (le_tid _ _ e) t) as [E|Hne].
             ++ rewrite E in Ha. congruence.
             ++ now rewrite aupd_other.
          -- unfold entry_ok; simpl. split; auto. split; auto. right. split; auto. now rewrite aupd_same.
        * apply pts_sorted_snoc; auto. intros e He. simpl. destruct (Hent e He) as (_ & H2 & _). exact H2.
        * intro t'. unfold thread_ok; simpl. destruct (Nat.eq_dec t' t) as [->|Hne].
          -- rewrite aupd_same. exists i, (length h). split; auto. split; auto.
             apply in_or_app; right; left; reflexivity.
          -- rewrite aupd_other by assumption.
             pose proof (Hthr t') as Ht; unfold thread_ok in Ht.
             destruct (ath _ _ _ a t') as [|o'|o' r']; auto.
             ++ destruct Ht as [i' (Hp' & Hni' & Hom')]. exists i'. split; auto. split; auto.
                unfold invs. rewrite map_app, in_app_iff; simpl. intros [Hin|[E|[]]]; [now apply Hni'|].
                subst i'. destruct Hp as [Hi _], Hp' as [Hi' _]. rewrite Hi in Hi'. inversion Hi'. congruence.
             ++ destruct Ht as [i' [pt (Hp' & Hin & Hom')]]. exists i', pt. split; auto. split; auto.
                apply in_or_app; now left.
        * intros i' j t' o' r' Hm. destruct (Hcomp _ _ _ _ _ Hm) as [pt Hin]. exists pt. apply in_or_app; now left.
      + (* ARet t r : the history grows by HRet t r *)
        pose proof (Hthr t) as Ht; unfold thread_ok in Ht; rewrite Hdone in Ht.
        destruct Ht as [i [pt (Hp & Hin & Hom)]].
        exists S. unfold lin_inv; simpl. split; [exact Hreach|]. split; [exact Hnd|].
        assert (Hmine : forall e, In e S -> le_tid _ _ e = t ->
                  pending h (le_inv _ _ e) (le_tid _ _ e) (le_op _ _ e) -> e = mkle _ _ i pt t o r).
        { intros e He Et Hpe. eapply NoDup_invs_eq; eauto. simpl.
          destruct (Nat.eq_dec (le_inv _ _ e) i) as [|Hne]; auto.
          exfalso. rewrite Et in Hpe. destruct (Hom _ _ (proj1 Hpe) Hne) as [j [r' Hm]].
          eapply matching_not_pending; eauto. }
        split; [|split; [exact Hsort|split]].
        * intros e He. destruct (Hent e He) as (H1 & H2 & H3). split; auto. split.
          { rewrite app_length; simpl; lia. }
          destruct H3 as [[j [Hm Hj]]|[Hpe Ha]].
          -- left; exists j; split; auto using matching_snoc.
          -- destruct (Nat.eq_dec (le_tid _ _ e) t) as [Et|Hne].
             ++ left. rewrite (Hmine e He Et Hpe) in *; simpl in *. exists (length h). split; auto.
                now apply pending_snoc_ret.
             ++ right. split.
                ** apply pending_snoc; auto. intros r' E; inversion E; congruence.
                ** simpl. now rewrite aupd_other.
        * intro t'. unfold thread_ok; simpl. destruct (Nat.eq_dec t' t) as [->|Hne].
          -- rewrite aupd_same. intros i' o' Hn.
             destruct (nth_error_snoc_inv _ _ _ _ _ Hn) as [[_ Hn']|[_ Hxe]]; [|discriminate].
             destruct (Nat.eq_dec i' i) as [->|Hne].
             ++ destruct Hp as [Hi Hno]. rewrite Hi in Hn'. inversion Hn'; subst o'.
                exists (length h), r. apply pending_snoc_ret. split; auto.
             ++ destruct (Hom i' o' Hn' Hne) as [j [r' Hm]]. exists j, r'. now apply matching_snoc.
          -- rewrite aupd_other by assumption.
             pose proof (Hthr t') as Ht; unfold thread_ok in Ht.
             destruct (ath _ _ _ a t') as [|o'|o' r'].
             ++ intros i2 o2 Hn. destruct (nth_error_snoc_inv _ _ _ _ _ Hn) as [[_ Hn']|[_ Hxe]]; [|discriminate].
                destruct (Ht i2 o2 Hn') as [j [r2 Hm]]. exists j, r2. now apply matching_snoc.
             ++ destruct Ht as [i2 (Hp2 & Hni & Hom2)]. exists i2. split.
                { apply pending_snoc; auto. intros r2 E; inversion E; congruence. }
                split; auto. apply others_matched_snoc; auto. intros; discriminate.
             ++ destruct Ht as [i2 [pt2 (Hp2 & Hin2 & Hom2)]]. exists i2, pt2. split.
                { apply pending_snoc; auto. intros r2 E; inversion E; congruence. }
                split; auto. apply others_matched_snoc; auto. intros; discriminate.
        * intros i' j t' o' r' Hm. destruct (matching_snoc_inv _ _ _ _ _ _ _ Hm) as [Hm'|(Hj & Hx & Hp')].
          -- eapply Hcomp; eauto.
          -- inversion Hx; subst t' r'. exists pt.
             destruct (Nat.eq_dec i' i) as [->|Hne].
             ++ destruct Hp as [Hi _], Hp' as [Hi' _]. rewrite Hi in Hi'. inversion Hi'; subst o'. exact Hin.
             ++ exfalso. destruct (Hom _ _ (proj1 Hp') Hne) as [j2 [r2 Hm2]].
                eapply matching_not_pending; eauto.
  Qed.

  (* the invariant gives a linearization *)
  Theorem atomic_linearizable : forall atr a, aexec atr a ->
    linearizable state op ret local linit mstep fin waits wstep s0 (ahist atr).
  Proof.
    intros atr a Hex. destruct (atomic_lin_inv atr a Hex) as [S (Hreach & Hnd & Hent & Hsort & Hthr & Hcomp)].
    exists S. unfold linearization. split; [exact Hnd|]. split; [|split; [exact Hcomp|split; [|split]]].
    - intros e He. destruct (Hent e He) as (_ & _ & [[j [Hm _]]|[Hp _]]); [left; now exists j|right; exact Hp].
    - intros e He. destruct (Hent e He) as (H1 & _ & H3). split; auto.
      intros j Hm. destruct H3 as [[j' [Hm' Hj]]|[Hp _]].
      + destruct (matching_fun _ _ _ _ _ _ _ _ _ _ Hm Hm') as (-> & _). exact Hj.
      + exfalso; eapply matching_not_pending; eauto.
    - intros e1 e2 j1 [l1 [l2 [l3 E]]] Hm Hlt.
      pose proof (Hsort _ _ _ _ _ E) as Hpts.
      assert (He1 : In e1 S) by (rewrite E; apply in_or_app; right; right; apply in_or_app; right; left; reflexivity).
      assert (He2 : In e2 S) by (rewrite E; apply in_or_app; right; left; reflexivity).
      destruct (Hent e2 He2) as (H2 & _ & _).
      destruct (Hent e1 He1) as (_ & _ & [[j' [Hm' Hj]]|[Hp _]]).
      + destruct (matching_fun _ _ _ _ _ _ _ _ _ _ Hm Hm') as (-> & _). lia.
      + eapply matching_not_pending; eauto.
    - eapply seq_reach_legal; eauto.
  Qed.
End HW.
