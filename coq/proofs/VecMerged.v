(* C06 at the query level: under the index invariant, GetMergedHighestBefore (GatherFrom over the
   branches of each creator) reports a fork iff the event sees a seq-fork of the validator, and
   otherwise the highest sequence number among the validator's ancestors-or-self. *)
From Coq Require Import List Arith NArith ZArith Bool Lia.
From Coq Require Import ZifyBool ZifyNat ZifyN.
From LV Require Import model.VecIndex spec.FcSpec lib.VecListFacts proofs.FcSpecFacts proofs.VecHb proofs.VecInv.
Import ListNotations.
Open Scope N_scope.

(* ---------- the specification's maximum ---------- *)
Definition MaxSeq (E : list (N * event)) (a : N) (v : nat) (M : N) : Prop :=
  (forall x ex, reach E a x -> alookup x E = Some ex -> ecr ex = v -> eseq ex <= M) /\
  (M = 0 \/ exists x ex, reach E a x /\ alookup x E = Some ex /\ ecr ex = v /\ eseq ex = M).
Lemma MaxSeq_unique E a v M M' : MaxSeq E a v M -> MaxSeq E a v M' -> M = M'.
Proof.
  intros [U1 [Z1|(x1 & e1 & R1 & L1 & C1 & S1)]] [U2 [Z2|(x2 & e2 & R2 & L2 & C2 & S2)]].
  - lia.
  - specialize (U1 _ _ R2 L2 C2). lia.
  - specialize (U2 _ _ R1 L1 C1). lia.
  - specialize (U1 _ _ R2 L2 C2). specialize (U2 _ _ R1 L1 C1). lia.
Qed.

Definition maxstep (E : list (N * event)) (v : nat) (m : N) (x : N) : N :=
  match alookup x E with Some ex => if Nat.eqb (ecr ex) v then N.max m (eseq ex) else m | None => m end.
Lemma fold_maxstep E v l m0 : let M := fold_left (maxstep E v) l m0 in
  m0 <= M /\
  (forall x ex, In x l -> alookup x E = Some ex -> ecr ex = v -> eseq ex <= M) /\
  (M = m0 \/ exists x ex, In x l /\ alookup x E = Some ex /\ ecr ex = v /\ eseq ex = M).
Proof.
  revert m0; induction l as [|y l IH]; intros m0; cbn zeta; cbn [fold_left].
  - split; [lia|]. split; [intros x ex []|left; reflexivity].
  - destruct (IH (maxstep E v m0 y)) as (A & B & C). cbn zeta in *.
    assert (Hm : m0 <= maxstep E v m0 y).
    { unfold maxstep. destruct (alookup y E) as [ey|]; [|lia]. destruct (Nat.eqb (ecr ey) v); lia. }
    split; [lia|]. split.
    + intros x ex [<-|Hx] Lx Cx; [|eapply B; eauto].
      assert (eseq ex <= maxstep E v m0 y) by (unfold maxstep; rewrite Lx, Cx, Nat.eqb_refl; lia). lia.
    + destruct C as [C|(x & ex & Hx & Lx & Cx & Sx)].
      * rewrite C. unfold maxstep. destruct (alookup y E) as [ey|] eqn:Ly; [|left; reflexivity].
        destruct (Nat.eqb_spec (ecr ey) v) as [Hc|]; [|left; reflexivity].
        destruct (N.max_spec m0 (eseq ey)) as [[_ ->]|[_ ->]]; [|left; reflexivity].
        right. exists y, ey. repeat split; auto. left. reflexivity.
      * right. exists x, ex. repeat split; auto. right. exact Hx.
Qed.
Lemma merged_spec_max E a v :
  MaxSeq E a v (fold_left (fun m x => match alookup x E with Some ex => if Nat.eqb (ecr ex) v then N.max m (eseq ex) else m | None => m end) (anc E a) 0).
Proof.
  change (MaxSeq E a v (fold_left (maxstep E v) (anc E a) 0)).
  destruct (fold_maxstep E v (anc E a) 0) as (_ & B & C). cbn zeta in *. split.
  - intros x ex Rx Lx Cx. eapply B; eauto. apply anc_iff. exact Rx.
  - destruct C as [C|(x & ex & Hx & Lx & Cx & Sx)]; [left; exact C|].
    right. exists x, ex. repeat split; auto. apply anc_iff. exact Hx.
Qed.

Lemma MaxSeq_submap E1 E2 a v M : submap E1 E2 -> closed E1 -> (exists ea, alookup a E1 = Some ea) ->
  (MaxSeq E2 a v M <-> MaxSeq E1 a v M).
Proof.
  intros Hs Hc Ha. unfold MaxSeq. split; intros [U W]; split.
  - intros x ex Rx Lx Cx. apply (U x ex); [apply (reach_submap E1 E2 a x Hs Hc Ha); exact Rx|apply Hs; exact Lx|exact Cx].
  - destruct W as [Z|(x & ex & Rx & Lx & Cx & Sx)]; [left; exact Z|]. right.
    apply (reach_submap E1 E2 a x Hs Hc Ha) in Rx. destruct (reach_in_r _ _ _ Rx) as [ex1 Ex1].
    pose proof (Hs x ex1 Ex1) as Ex2. rewrite Lx in Ex2. injection Ex2 as ->. exists x, ex1. auto.
  - intros x ex Rx Lx Cx. apply (reach_submap E1 E2 a x Hs Hc Ha) in Rx. destruct (reach_in_r _ _ _ Rx) as [ex1 Ex1].
    pose proof (Hs x ex1 Ex1) as Ex2. rewrite Lx in Ex2. injection Ex2 as ->. apply (U x ex1); auto.
  - destruct W as [Z|(x & ex & Rx & Lx & Cx & Sx)]; [left; exact Z|]. right.
    exists x, ex. split; [apply (reach_submap E1 E2 a x Hs Hc Ha); exact Rx|]. split; [apply Hs; exact Lx|auto].
Qed.
Theorem merged_spec_submap n E1 E2 a : submap E1 E2 -> closed E1 -> (exists ea, alookup a E1 = Some ea) ->
  merged_spec n E2 a = merged_spec n E1 a.
Proof.
  intros Hs Hc Ha. unfold merged_spec. apply map_ext. intros v.
  assert (Hf : sees_fork E2 (anc E2 a) v = sees_fork E1 (anc E1 a) v).
  { apply eq_true_iff_eq. rewrite !sees_fork_anc. apply SeesFork_submap; assumption. }
  rewrite Hf. destruct (sees_fork E1 (anc E1 a) v); [reflexivity|]. f_equal.
  eapply (MaxSeq_unique E1 a v); [apply (MaxSeq_submap E1 E2 a v _ Hs Hc Ha); apply merged_spec_max|apply merged_spec_max].
Qed.

(* ---------- GatherFrom ---------- *)
Definition gather (av : list hbs) (brs : list nat) : hbs :=
  fold_left (fun hi br => if is_fork hi then hi else
               let x := hb_get av br in if is_fork x then x else if fst hi <? fst x then x else hi) brs (0, 0).
Definition gstep (av : list hbs) (hi : hbs) (br : nat) : hbs :=
  if is_fork hi then hi else let x := hb_get av br in if is_fork x then x else if fst hi <? fst x then x else hi.
Lemma gather_fork_stays av brs hi : is_fork hi = true -> fold_left (gstep av) brs hi = hi.
Proof. intros H. induction brs as [|b brs IH]; cbn [fold_left]; [reflexivity|]. unfold gstep at 2. rewrite H. exact IH. Qed.
Lemma gather_gen av brs : forall hi, is_fork hi = false -> let r := fold_left (gstep av) brs hi in
  ((exists br, In br brs /\ is_fork (hb_get av br) = true) -> is_fork r = true) /\
  ((forall br, In br brs -> is_fork (hb_get av br) = false) ->
     is_fork r = false /\ fst hi <= fst r /\ (forall br, In br brs -> fst (hb_get av br) <= fst r) /\
     (r = hi \/ exists br, In br brs /\ r = hb_get av br)).
Proof.
  induction brs as [|b brs IH]; intros hi Hhi; cbn zeta; cbn [fold_left].
  - split; [intros (br & [] & _)|]. intros _. split; [exact Hhi|]. split; [lia|]. split; [intros br []|left; reflexivity].
  - destruct (is_fork (hb_get av b)) eqn:Hb.
    + assert (Hg : gstep av hi b = hb_get av b) by (unfold gstep; rewrite Hhi; cbv zeta; rewrite Hb; reflexivity).
      rewrite Hg. rewrite gather_fork_stays by exact Hb. split; [intros _; exact Hb|].
      intros H. specialize (H b (or_introl eq_refl)). congruence.
    + set (hi' := if fst hi <? fst (hb_get av b) then hb_get av b else hi).
      assert (Hg : gstep av hi b = hi') by (unfold gstep, hi'; rewrite Hhi; cbv zeta; rewrite Hb; reflexivity).
      rewrite Hg.
      assert (Hhi' : is_fork hi' = false) by (unfold hi'; destruct (fst hi <? fst (hb_get av b)); assumption).
      destruct (IH hi' Hhi') as [A B]. cbn zeta in *. split.
      * intros (br & [<-|Hbr] & Hf); [congruence|]. apply A. exists br. auto.
      * intros Hnf. destruct B as (B1 & B2 & B3 & B4); [intros br Hbr; apply Hnf; right; exact Hbr|].
        assert (Hle : fst hi <= fst hi' /\ fst (hb_get av b) <= fst hi').
        { unfold hi'. destruct (N.ltb_spec (fst hi) (fst (hb_get av b))); lia. }
        split; [exact B1|]. split; [lia|]. split.
        -- intros br [<-|Hbr]; [lia|apply B3; exact Hbr].
        -- destruct B4 as [B4|(br & Hbr & B4)].
           ++ rewrite B4. unfold hi'. destruct (fst hi <? fst (hb_get av b)); [right; exists b; split; [left|]; reflexivity|left; reflexivity].
           ++ right. exists br. split; [right; exact Hbr|exact B4].
Qed.

Lemma merged_unfold s a : merged s a =
  match alookup a (hb s) with None => [] | Some av =>
    if at_least_one_fork s then map (gather av) (by_cr s) else map (fun i => hb_get av i) (List.seq 0 (nvals s)) end.
Proof. reflexivity. Qed.

Section Merged.
Variable n : nat.
Variable s : vidx.
Hypothesis I : vinv n s.
Let E := evs s.

(* the merged entry of validator v: fork flag and sequence number *)
Definition proj (x : hbs) : bool * N := (is_fork x, if is_fork x then 0 else fst x).

Lemma seen_marker_iff a ea av v : evt s a ea -> alookup a (hb s) = Some av -> (v < n)%nat ->
  ((exists br, In br (brs_of s v) /\ is_fork (hb_get av br) = true) <-> SeesFork E a v).
Proof.
  intros Ea Ha Hv. split.
  - intros (br & Hbr & Hf). apply (v_bycr n s I) in Hbr; [|exact Hv]. destruct Hbr as [Lbr Cbr].
    destruct (v_hb n s I a ea av br Ea Ha) as [(_ & _ & HS)|[Hnf _]]; [|congruence]. rewrite Cbr in HS. exact HS.
  - intros HS. pose proof HS as (x & y & Rx & Ry & Hf).
    destruct (fork_pair_branches n s (v_g n s I) v x y Hf) as (ex & ey & bx & by_ & Ex & Ey & Bx & By & Hne & Cx & Cy & Hs & Lx & Ly).
    exists bx. split; [apply (v_bycr n s I); auto|].
    destruct (v_hb n s I a ea av bx Ea Ha) as [[Hf' _]|(_ & _ & Hcompl)]; [exact Hf'|].
    exfalso. rewrite Cx in Hcompl. apply (Hcompl HS x). split; assumption.
Qed.

Lemma unmarked_max a ea av v (r : hbs) : evt s a ea -> alookup a (hb s) = Some av -> (v < n)%nat ->
  ~ SeesFork E a v ->
  (forall br, In br (brs_of s v) -> fst (hb_get av br) <= fst r) ->
  (fst r = 0 \/ exists br, In br (brs_of s v) /\ fst (hb_get av br) = fst r) ->
  MaxSeq E a v (fst r).
Proof.
  intros Ea Ha Hv Hns Hub Hat. split.
  - intros x ex Rx Lx Cx.
    destruct (v_keys n s I x ex Lx) as (_ & _ & br & Bx).
    destruct (v_br n s I x ex br Lx Bx) as (Lbr & Cbr & _).
    assert (Hin : In br (brs_of s v)) by (apply (v_bycr n s I); auto; split; auto; congruence).
    specialize (Hub br Hin).
    destruct (v_hb n s I a ea av br Ea Ha) as [(_ & _ & HS)|(_ & Htr & _)].
    + exfalso. apply Hns. rewrite Cbr, Cx in HS. exact HS.
    + destruct Htr as [[Hnone _]|(hi & lo & _ & _ & _ & _ & Hrng)].
      * exfalso. apply (Hnone x). split; assumption.
      * specialize (Hrng x (conj Rx Bx)). rewrite (seqv_evt s x ex Lx) in Hrng. lia.
  - destruct Hat as [Hz|(br & Hbr & Heq)]; [left; exact Hz|].
    apply (v_bycr n s I) in Hbr; [|exact Hv]. destruct Hbr as [Lbr Cbr].
    destruct (v_hb n s I a ea av br Ea Ha) as [(_ & _ & HS)|(_ & Htr & _)].
    + exfalso. apply Hns. rewrite Cbr in HS. exact HS.
    + destruct Htr as [[_ Hz]|(hi & lo & [Rhi Bhi] & _ & Shi & _ & _)]; [left; lia|].
      right. destruct (reach_in_r _ _ _ Rhi) as [ehi Ehi].
      destruct (v_br n s I hi ehi br Ehi Bhi) as (_ & Chi & _).
      exists hi, ehi. repeat split; auto; [congruence|].
      rewrite (seqv_evt s hi ehi Ehi) in Shi. lia.
Qed.

Theorem merged_eq_spec a ea : evt s a ea -> map proj (merged s a) = merged_spec n E a.
Proof.
  intros Ea. destruct (v_keys n s I a ea Ea) as ((av & Ha) & _ & _).
  rewrite merged_unfold, Ha.
  assert (Hone : forall v, (v < n)%nat ->
     forall r, (r = gather av (brs_of s v) \/ (at_least_one_fork s = false /\ r = hb_get av v)) ->
     proj r = nth v (merged_spec n E a) (false, 0)).
  { intros v Hv r Hr. unfold merged_spec. rewrite nth_map_seq_gen by exact Hv.
    assert (Hchar : (SeesFork E a v -> is_fork r = true) /\
                    (~ SeesFork E a v -> is_fork r = false /\ MaxSeq E a v (fst r))).
    { destruct Hr as [->|[Halof ->]].
      - destruct (gather_gen av (brs_of s v) (0, 0) eq_refl) as [A B]. cbn zeta in *. fold (gather av (brs_of s v)) in A, B.
        split.
        + intros HS. apply A. apply (seen_marker_iff a ea av v Ea Ha Hv). exact HS.
        + intros Hns. destruct B as (B1 & _ & B3 & B4).
          { intros br Hbr. destruct (is_fork (hb_get av br)) eqn:Hf; [|reflexivity].
            exfalso. apply Hns. apply (seen_marker_iff a ea av v Ea Ha Hv). exists br. auto. }
          split; [exact B1|]. apply (unmarked_max a ea av v _ Ea Ha Hv Hns B3).
          destruct B4 as [->|(br & Hbr & ->)]; [left; reflexivity|right; exists br; auto].
      - split.
        + intros HS. destruct (SeesFork_two_branches n s (v_g n s I) a v HS) as (_ & _ & H). congruence.
        + intros Hns.
          assert (Hbrs : forall br, In br (brs_of s v) -> br = v).
          { intros br Hbr. apply (v_bycr n s I) in Hbr; [|exact Hv]. destruct Hbr as [Lbr Cbr].
            unfold at_least_one_fork in Halof. rewrite (v_nvals n s I) in Halof. apply Nat.ltb_ge in Halof.
            rewrite (v_brcr_init n s I) in Cbr by lia. exact Cbr. }
          assert (Hvin : In v (brs_of s v)).
          { apply (v_bycr n s I); auto. split; [pose proof (v_nb n s I); lia|apply (v_brcr_init n s I); exact Hv]. }
          assert (Hnf : is_fork (hb_get av v) = false).
          { destruct (is_fork (hb_get av v)) eqn:Hf; [|reflexivity]. exfalso. apply Hns.
            apply (seen_marker_iff a ea av v Ea Ha Hv). exists v. auto. }
          split; [exact Hnf|]. apply (unmarked_max a ea av v _ Ea Ha Hv Hns).
          * intros br Hbr. rewrite (Hbrs br Hbr). lia.
          * right. exists v. auto. }
    destruct Hchar as [C1 C2]. unfold proj.
    destruct (sees_fork E (anc E a) v) eqn:HS.
    - apply sees_fork_anc in HS. rewrite (C1 HS). reflexivity.
    - assert (Hns : ~ SeesFork E a v) by (intros H; apply sees_fork_anc in H; congruence).
      destruct (C2 Hns) as [Hnf HM]. rewrite Hnf. f_equal.
      eapply MaxSeq_unique; [exact HM|apply merged_spec_max]. }
  apply (nth_ext _ _ (false, 0) (false, 0)).
  - unfold merged_spec. rewrite !map_length, seq_length.
    destruct (at_least_one_fork s); rewrite map_length; [apply (v_bycr_len n s I)|rewrite seq_length; apply (v_nvals n s I)].
  - intros v Hv. rewrite map_length in Hv.
    assert (Hvn : (v < n)%nat).
    { destruct (at_least_one_fork s); rewrite map_length in Hv; [rewrite (v_bycr_len n s I) in Hv|rewrite seq_length, (v_nvals n s I) in Hv]; exact Hv. }
    change (false, 0) with (proj (0, 0)) at 1. rewrite map_nth.
    apply (Hone v Hvn).
    destruct (at_least_one_fork s) eqn:Halof.
    + left. rewrite (nth_indep _ (0, 0) (gather av [])) by (rewrite map_length, (v_bycr_len n s I); exact Hvn).
      rewrite map_nth. reflexivity.
    + right. split; [reflexivity|]. rewrite (v_nvals n s I). rewrite nth_map_seq_gen by exact Hvn. reflexivity.
Qed.

End Merged.

(* what an entry of the specification says, in the words of the property *)
Theorem merged_spec_meaning n E a v : (v < n)%nat ->
  (SeesFork E a v /\ nth v (merged_spec n E a) (false, 0) = (true, 0)) \/
  (~ SeesFork E a v /\ exists M, nth v (merged_spec n E a) (false, 0) = (false, M) /\ MaxSeq E a v M).
Proof.
  intros Hv. unfold merged_spec. rewrite nth_map_seq_gen by exact Hv.
  destruct (sees_fork E (anc E a) v) eqn:HS.
  - left. split; [apply sees_fork_anc; exact HS|reflexivity].
  - right. split; [intros H; apply sees_fork_anc in H; congruence|].
    eexists. split; [reflexivity|apply merged_spec_max].
Qed.
