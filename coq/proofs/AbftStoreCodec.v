(* The byte-level store model (model/AbftStore.v [sstep]: 4-byte big-endian frames and root keys)
   answers exactly like the abstract one ([astep]: numbers, no bytes) as long as every frame and
   validator id written fits its declared type (uint32).  This is the statement a narrower codec
   (e.g. a 2-byte confirmed-on frame) falsifies, and what the STORE glue cases of C02 exercise
   on the real abft.Store at the width boundaries. *)
From Coq Require Import NArith List Bool Lia.
From LV Require Import model.Abft model.AbftStore.
Import ListNotations.
Open Scope N_scope.

Lemma list_eqb_eq a : forall b, list_eqb a b = true <-> a = b.
Proof.
  induction a as [|x a IH]; intros [|y b]; cbn; try (split; [discriminate|discriminate]); [tauto|].
  rewrite andb_true_iff, N.eqb_eq, IH. split; [intros [-> ->]; reflexivity|intros H; inversion H; auto].
Qed.

Lemma be4_inj x y : x < 2 ^ 32 -> y < 2 ^ 32 -> be4 x = be4 y -> x = y.
Proof. intros Hx Hy H. rewrite <- (be4_roundtrip x Hx), <- (be4_roundtrip y Hy). now rewrite H. Qed.

Lemma be4_eqb x y : x < 2 ^ 32 -> y < 2 ^ 32 -> list_eqb (be4 x) (be4 y) = (x =? y).
Proof.
  intros Hx Hy. apply eq_true_iff_eq. rewrite list_eqb_eq, N.eqb_eq.
  split; [now apply be4_inj|now intros ->].
Qed.

Lemma be4_app_inj f v f' v' : be4 f ++ be4 v = be4 f' ++ be4 v' -> be4 f = be4 f' /\ be4 v = be4 v'.
Proof.
  intros H. split.
  - change (be4 f) with (firstn 4 (be4 f ++ be4 v)). rewrite H. reflexivity.
  - change (be4 v) with (skipn 4 (be4 f ++ be4 v)). rewrite H. reflexivity.
Qed.

Definition tkey (t : N * N * N) : rkey := rkey_of (fst (fst t)) (snd (fst t)) (snd t).
Definition t_ok (t : N * N * N) : Prop := fst (fst t) < 2 ^ 32 /\ snd (fst t) < 2 ^ 32.

Lemma rkey_eqb_triple t u : t_ok t -> t_ok u -> rkey_eqb (tkey t) (tkey u) = triple_eqb t u.
Proof.
  destruct t as [[f v] id], u as [[f' v'] id']. unfold t_ok, tkey, rkey_eqb, triple_eqb, rkey_of. cbn [fst snd].
  intros [Hf Hv] [Hf' Hv']. apply eq_true_iff_eq.
  rewrite !andb_true_iff, list_eqb_eq, !N.eqb_eq. split.
  - intros [H ->]. apply be4_app_inj in H. destruct H as [H1 H2].
    apply be4_inj in H1; auto. apply be4_inj in H2; auto.
  - intros [[-> ->] ->]. auto.
Qed.

Record R (s : sstore) (a : astore) : Prop := {
  R_conf : ss_conf s = map (fun p => (fst p, be4 (snd p))) (as_conf a);
  R_conf_ok : Forall (fun p => snd p < 2 ^ 32) (as_conf a);
  R_ld : ss_ld s = as_ld a;
  R_es : ss_es s = as_es a;
  R_roots : ss_roots s = map tkey (as_roots a);
  R_roots_ok : Forall t_ok (as_roots a)
}.

Definition op_ok (o : sop) : Prop :=
  match o with
  | SoCF _ f => f < 2 ^ 32
  | SoAR _ f v _ => v < 2 ^ 32
  | SoGR f => f < 2 ^ 32
  | _ => True
  end.

Lemma R_start : R store_start astore_start.
Proof. constructor; cbn; auto. Qed.

Lemma existsb_keys t rs : t_ok t -> Forall t_ok rs ->
  existsb (rkey_eqb (tkey t)) (map tkey rs) = existsb (triple_eqb t) rs.
Proof.
  intros Ht H. induction H as [|u rs Hu _ IH]; cbn; [reflexivity|].
  now rewrite rkey_eqb_triple, IH.
Qed.

Lemma any_key_aany fuel : forall rs top v id f, Forall t_ok rs -> v < 2 ^ 32 -> top < 2 ^ 32 ->
  any_key fuel (map tkey rs) top v id f = aany fuel rs top v id f.
Proof.
  induction fuel as [|fu IH]; intros rs top v id f Hrs Hv Htop; cbn; [reflexivity|].
  destruct (top <? f) eqn:E; [reflexivity|]. apply N.ltb_ge in E.
  change (rkey_of f v id) with (tkey (f, v, id)).
  rewrite existsb_keys; auto; [|split; cbn; lia]. now rewrite IH.
Qed.

Lemma sadd_aadd fuel : forall rs top v id f, Forall t_ok rs -> v < 2 ^ 32 -> top < 2 ^ 32 ->
  sadd_loop fuel (map tkey rs) top v id f = map tkey (aadd_loop fuel rs top v id f)
  /\ Forall t_ok (aadd_loop fuel rs top v id f).
Proof.
  induction fuel as [|fu IH]; intros rs top v id f Hrs Hv Htop; cbn; [auto|].
  destruct (top <? f) eqn:E; [auto|]. apply N.ltb_ge in E.
  change (rkey_of f v id :: map tkey rs) with (map tkey ((f, v, id) :: rs)).
  apply IH; auto. constructor; auto. split; cbn; lia.
Qed.

Lemma conf_get_rel e l : Forall (fun p => snd p < 2 ^ 32) l ->
  match conf_get e (map (fun p => (fst p, be4 (snd p))) l) with Some b => of_be b | None => 0 end
  = match aconf_get e l with Some f => f | None => 0 end.
Proof.
  intros H. induction H as [|[k f] l Hf _ IH]; cbn; [reflexivity|].
  destruct (k =? e); [now apply be4_roundtrip|exact IH].
Qed.

Lemma filter_roots_rel f rs : f < 2 ^ 32 -> Forall t_ok rs ->
  map (fun k => (rkey_val k, snd k)) (filter (fun k => list_eqb (firstn 4 (fst k)) (be4 f)) (map tkey rs))
  = map (fun t => (snd (fst t), snd t)) (filter (fun t => fst (fst t) =? f) rs).
Proof.
  intros Hf H. induction H as [|[[f' v] id] rs [Hf' Hv] _ IH]; cbn [map filter]; [reflexivity|].
  cbn [fst snd] in *.
  assert (E : list_eqb (firstn 4 (fst (tkey (f', v, id)))) (be4 f) = (f' =? f)).
  { unfold tkey, rkey_of. cbn [fst snd]. change (firstn 4 (be4 f' ++ be4 v)) with (be4 f'). now apply be4_eqb. }
  rewrite E. destruct (f' =? f); [|exact IH].
  cbn [map fst snd]. rewrite IH. f_equal. f_equal.
  change (tkey (f', v, id)) with (rkey_of f' v id). now apply rkey_val_of.
Qed.

Lemma guard_rel s a o : R s a -> op_ok o -> sguard s o = aguard a o.
Proof.
  intros HR Ho. destruct o; try reflexivity.
  unfold sguard, aguard.
  destruct (f <=? 2 ^ 32 - 2) eqn:E3.
  - apply N.leb_le in E3. rewrite (R_roots _ _ HR).
    rewrite any_key_aany; [reflexivity|exact (R_roots_ok _ _ HR)|exact Ho|lia].
  - now rewrite !andb_false_r.
Qed.

Theorem step_refines s a o : R s a -> op_ok o ->
  fst (sstep s o) = fst (astep a o) /\ R (snd (sstep s o)) (snd (astep a o)).
Proof.
  intros HR Ho. unfold sstep, astep. rewrite (guard_rel s a o HR Ho).
  destruct (aguard a o) eqn:G; cbn [negb]; [|now split].
  destruct HR as [Hc Hcok Hl He Hr Hrok].
  destruct o; cbn [fst snd].
  - split; [reflexivity|]. constructor; cbn; auto. now rewrite Hc.
  - split; [|constructor; auto]. rewrite Hc. f_equal. now apply conf_get_rel.
  - split; [reflexivity|]. constructor; cbn; auto.
  - split; [now rewrite Hl|constructor; auto].
  - split; [reflexivity|]. constructor; cbn; auto.
  - split; [now rewrite He|constructor; auto].
  - cbn in G. apply andb_true_iff in G. destruct G as [G _]. apply andb_true_iff in G. destruct G as [_ G3].
    apply N.leb_le in G3.
    destruct (sadd_aadd (S (N.to_nat (f - spf))) (as_roots a) f v id (spf + 1) Hrok Ho) as [E1 E2]; [lia|].
    split; [reflexivity|]. constructor; cbn [ss_conf ss_ld ss_es ss_roots as_conf as_ld as_es as_roots]; auto.
    rewrite Hr. exact E1.
  - split; [|constructor; auto]. rewrite Hr. f_equal. f_equal. now apply filter_roots_rel.
Qed.

Fixpoint arun (s : astore) (ops : list sop) : list sobs :=
  match ops with [] => [] | o :: t => let '(ob, s') := astep s o in ob :: arun s' t end.

Theorem run_refines ops : forall s a, R s a -> Forall op_ok ops -> srun s ops = arun a ops.
Proof.
  induction ops as [|o t IH]; intros s a HR Hok; cbn; [reflexivity|].
  inversion Hok as [|? ? Ho Ht]; subst.
  destruct (step_refines s a o HR Ho) as [E HR'].
  destruct (sstep s o) as [ob s'], (astep a o) as [ob' a']. cbn in E, HR'. subst ob'.
  f_equal. now apply IH.
Qed.

(* the model's own answers satisfy the executable specification used on the implementation's trace *)
Lemma pairs_eqb_refl l : pairs_eqb l l = true.
Proof. induction l as [|[x y] l IH]; cbn; [reflexivity|]. now rewrite !N.eqb_refl, IH. Qed.
Lemma sobs_eqb_refl o : sobs_eqb o o = true.
Proof. destruct o; cbn; auto using N.eqb_refl, pairs_eqb_refl. now rewrite N.eqb_refl, pairs_eqb_refl. Qed.

Theorem store_model_meets_spec ops : Forall op_ok ops ->
  store_trace astore_start (combine ops (srun store_start ops)) = true.
Proof.
  intros Hok. rewrite (run_refines ops _ _ R_start Hok).
  generalize astore_start. induction ops as [|o t IH]; intros a; cbn; [reflexivity|].
  inversion Hok; subst.
  destruct (astep a o) as [ob a'] eqn:E. cbn. rewrite E. rewrite sobs_eqb_refl. cbn. now apply IH.
Qed.
