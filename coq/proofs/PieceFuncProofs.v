(* C31: utils/piecefunc.  For every valid dot list and every argument, Get never panics, no
   uint64 operation wraps, and the result satisfies PieceFuncSpec.get_ok (ends, exact at dots,
   between-neighbour bounds); NewFunc accepts exactly the valid lists. *)
From Coq Require Import NArith ZArith PeanoNat List Lia Bool.
From Coq Require Import ZifyBool ZifyNat ZifyN.
From LV Require Import lib.WordArith model.PieceFunc spec.PieceFuncSpec.
Import ListNotations.
Local Open Scope N_scope.

Definition M : N := 18446744073708.
Lemma max_val_eq : max_val = M. Proof. reflexivity. Qed.
Lemma coord_max_eq : coord_max = M. Proof. reflexivity. Qed.

(* ---------- the interpolation inequalities, over abstract quotients ---------- *)
Lemma core_minmax (y0 y1 r s p0 p1 : N) :
  r + s = 1000000 ->
  p0 * 1000000 <= y0 * s -> y0 * s < p0 * 1000000 + 1000000 ->
  p1 * 1000000 <= y1 * r -> y1 * r < p1 * 1000000 + 1000000 ->
  N.min y0 y1 <= p0 + p1 + 1 /\ p0 + p1 <= N.max y0 y1.
Proof.
  intros Hrs H01 H02 H11 H12. split.
  - destruct (N.le_ge_cases y0 y1) as [L|L]; [rewrite N.min_l by exact L|rewrite N.min_r by exact L]; nia.
  - destruct (N.le_ge_cases y0 y1) as [L|L]; [rewrite N.max_r by exact L|rewrite N.max_l by exact L]; nia.
Qed.

Lemma core_third (y0 y1 a b dx r s p0 p1 : N) :
  a + b = dx -> 0 < dx -> r + s = 1000000 ->
  r * dx <= a * 1000000 -> a * 1000000 < r * dx + dx ->
  p0 * 1000000 <= y0 * s -> y0 * s < p0 * 1000000 + 1000000 ->
  p1 * 1000000 <= y1 * r -> y1 * r < p1 * 1000000 + 1000000 ->
  absdiff ((p0 + p1) * dx * 1000000) ((y0 * b + y1 * a) * 1000000) <= (absdiff y1 y0 + 2 * 1000000) * dx.
Proof.
  intros Hab Hdx Hrs Hr1 Hr2 H01 H02 H11 H12.
  assert (Ht : exists t, r * dx + t = a * 1000000 /\ t < dx) by (exists (a * 1000000 - r * dx); lia).
  destruct Ht as [t [Ht1 Ht2]].
  (* dx (y0 s + y1 r) = exact * 10^6 + (y0 - y1) t *)
  assert (K : y0 * s * dx + y1 * r * dx + y1 * t = (y0 * b + y1 * a) * 1000000 + y0 * t).
  { subst dx.
    assert (E1 : y0 * s * (a + b) = y0 * (1000000 * b) + y0 * t).
    { replace (y0 * s * (a + b)) with (y0 * (s * (a + b))) by ring.
      replace (y0 * (1000000 * b) + y0 * t) with (y0 * (1000000 * b + t)) by ring. f_equal. nia. }
    assert (E2 : y1 * r * (a + b) + y1 * t = y1 * (a * 1000000)).
    { replace (y1 * r * (a + b) + y1 * t) with (y1 * (r * (a + b) + t)) by ring. f_equal. lia. }
    rewrite <- N.add_assoc, E2, E1. ring. }
  assert (A0 : p0 * 1000000 * dx <= y0 * s * dx) by (apply N.mul_le_mono_r; exact H01).
  assert (A1 : y0 * s * dx < (p0 * 1000000 + 1000000) * dx) by (apply N.mul_lt_mono_pos_r; assumption).
  assert (B0 : p1 * 1000000 * dx <= y1 * r * dx) by (apply N.mul_le_mono_r; exact H11).
  assert (B1 : y1 * r * dx < (p1 * 1000000 + 1000000) * dx) by (apply N.mul_lt_mono_pos_r; assumption).
  assert (EV : (p0 + p1) * dx * 1000000 = p0 * 1000000 * dx + p1 * 1000000 * dx) by ring.
  rewrite N.mul_add_distr_r in A1, B1.
  rewrite (N.mul_add_distr_r (absdiff y1 y0)).
  set (D := absdiff y1 y0).
  assert (HD : (y0 * t = y1 * t + D * t \/ y1 * t = y0 * t + D * t) /\ D * t <= D * dx).
  { split; [|apply N.mul_le_mono_l; lia]. unfold D, absdiff. destruct (N.ltb_spec y1 y0) as [L|L].
    - left. rewrite <- N.mul_add_distr_r. f_equal. lia.
    - right. rewrite <- N.mul_add_distr_r. f_equal. lia. }
  destruct HD as [HD1 HD2].
  rewrite EV. clear EV.
  set (V0 := p0 * 1000000 * dx) in *. set (V1 := p1 * 1000000 * dx) in *.
  set (S0 := y0 * s * dx) in *. set (S1 := y1 * r * dx) in *.
  set (E := (y0 * b + y1 * a) * 1000000) in *.
  set (T0 := y0 * t) in *. set (T1 := y1 * t) in *. set (DT := D * t) in *. set (DD := D * dx) in *.
  set (MM := 1000000 * dx) in *.
  unfold absdiff. destruct (N.ltb_spec (V0 + V1) E); lia.
Qed.

(* ---------- one piece: the model expression, step by step, without wrap ---------- *)
Definition interp (e0 e1 : dot) (x : N) : option N :=
  match pf_div (sub64 x (fst e0)) (sub64 (fst e1) (fst e0)) with
  | None => None
  | Some ratio => Some (add64 (pf_mul (snd e0) (sub64 decimal_unit ratio)) (pf_mul (snd e1) ratio))
  end.

Lemma sub64_exact a b : b <= a -> a < two64 -> sub64 a b = a - b.
Proof. intros H1 H2. unfold sub64, wrap64, two64 in *. lia. Qed.

Definition ratio_of (x0 x1 x : N) : N := (x - x0) * 1000000 / (x1 - x0).
Definition value_of (x0 y0 x1 y1 x : N) : N :=
  let r := ratio_of x0 x1 x in y0 * (1000000 - r) / 1000000 + y1 * r / 1000000.

Lemma interp_spec x0 y0 x1 y1 x :
  x0 <= x -> x <= x1 -> x0 < x1 -> x1 <= M -> y0 <= M -> y1 <= M ->
  let r := ratio_of x0 x1 x in
  let v := value_of x0 y0 x1 y1 x in
  (* no operation wraps: each wrapped op equals the unbounded one *)
  sub64 x x0 = x - x0 /\ sub64 x1 x0 = x1 - x0 /\ mul64 (x - x0) decimal_unit = (x - x0) * 1000000 /\
  r <= 1000000 /\ sub64 decimal_unit r = 1000000 - r /\
  mul64 y0 (1000000 - r) = y0 * (1000000 - r) /\ mul64 y1 r = y1 * r /\
  interp (x0, y0) (x1, y1) x = Some v /\
  between_ok x0 y0 x1 y1 x v = true /\ v <= M /\ (x = x0 -> v = y0) /\ (x = x1 -> v = y1).
Proof.
  intros H1 H2 H3 H4 H5 H6 r v. unfold M in *.
  set (a := x - x0). set (dx := x1 - x0).
  assert (Ha : a <= dx) by (unfold a, dx; lia).
  assert (Hdx : 0 < dx) by (unfold dx; lia).
  assert (HdM : dx <= 18446744073708) by (unfold dx; lia).
  assert (S1 : sub64 x x0 = a) by (apply sub64_exact; unfold two64; lia).
  assert (S2 : sub64 x1 x0 = dx) by (apply sub64_exact; unfold two64; lia).
  assert (M1 : mul64 a decimal_unit = a * 1000000).
  { unfold mul64, decimal_unit. apply wrap64_small. unfold two64. lia. }
  assert (Er : r = a * 1000000 / dx) by reflexivity.
  assert (Hr : r <= 1000000).
  { rewrite Er. apply N.div_le_upper_bound; lia. }
  assert (Hr1 : r * dx <= a * 1000000).
  { rewrite Er. rewrite N.mul_comm. apply N.mul_div_le. lia. }
  assert (Hr2 : a * 1000000 < r * dx + dx).
  { rewrite Er. pose proof (N.mul_succ_div_gt (a * 1000000) dx ltac:(lia)) as H. lia. }
  set (s := 1000000 - r).
  assert (Hrs : r + s = 1000000) by (unfold s; lia).
  assert (S3 : sub64 decimal_unit r = s).
  { unfold decimal_unit. apply sub64_exact; [exact Hr|reflexivity]. }
  assert (Hy0s : y0 * s <= 18446744073708 * 1000000) by (apply N.mul_le_mono; lia).
  assert (Hy1r : y1 * r <= 18446744073708 * 1000000) by (apply N.mul_le_mono; lia).
  assert (M2 : mul64 y0 s = y0 * s) by (unfold mul64; apply wrap64_small; unfold two64; lia).
  assert (M3 : mul64 y1 r = y1 * r) by (unfold mul64; apply wrap64_small; unfold two64; lia).
  set (p0 := y0 * s / 1000000). set (p1 := y1 * r / 1000000).
  assert (Ev : v = p0 + p1) by reflexivity.
  assert (H01 : p0 * 1000000 <= y0 * s) by (unfold p0; rewrite N.mul_comm; apply N.mul_div_le; lia).
  assert (H02 : y0 * s < p0 * 1000000 + 1000000).
  { unfold p0. pose proof (N.mul_succ_div_gt (y0 * s) 1000000 ltac:(lia)) as H. lia. }
  assert (H11 : p1 * 1000000 <= y1 * r) by (unfold p1; rewrite N.mul_comm; apply N.mul_div_le; lia).
  assert (H12 : y1 * r < p1 * 1000000 + 1000000).
  { unfold p1. pose proof (N.mul_succ_div_gt (y1 * r) 1000000 ltac:(lia)) as H. lia. }
  destruct (core_minmax y0 y1 r s p0 p1 Hrs H01 H02 H11 H12) as [Cmin Cmax].
  assert (HvM : p0 + p1 <= 18446744073708) by lia.
  split; [exact S1|]. split; [exact S2|]. split; [exact M1|]. split; [exact Hr|].
  split; [exact S3|]. split; [exact M2|]. split; [exact M3|].
  split.
  { unfold interp. cbn [fst snd]. rewrite S1, S2. unfold pf_div.
    destruct (N.eqb_spec dx 0) as [E|_]; [lia|]. rewrite M1, <- Er, S3.
    unfold pf_mul. rewrite M2, M3. unfold decimal_unit. fold p0 p1.
    f_equal. unfold add64. rewrite Ev. apply wrap64_small. unfold two64. lia. }
  split.
  { unfold between_ok. fold dx a. rewrite Ev. rewrite !andb_true_iff, !N.leb_le.
    split; [split; [exact Cmin|exact Cmax]|].
    unfold unit6. apply (core_third y0 y1 a (dx - a) dx r s p0 p1); try assumption. lia. }
  split; [rewrite Ev; exact HvM|]. split.
  - intros E. rewrite Ev. assert (Ea : a = 0) by (unfold a; lia).
    assert (Er0 : r = 0) by (rewrite Er, Ea; reflexivity).
    assert (Es : s = 1000000) by lia.
    assert (Ep1 : p1 = 0) by (unfold p1; rewrite Er0, N.mul_0_r; reflexivity).
    assert (Ep0 : p0 = y0) by (unfold p0; rewrite Es; apply N.div_mul; lia). lia.
  - intros E. rewrite Ev. assert (Ea : a = dx) by (unfold a, dx; lia).
    assert (Er1 : r = 1000000) by (rewrite Er, Ea, N.mul_comm; apply N.div_mul; lia).
    assert (Es : s = 0) by lia.
    assert (Ep0 : p0 = 0) by (unfold p0; rewrite Es, N.mul_0_r; reflexivity).
    assert (Ep1 : p1 = y1) by (unfold p1; rewrite Er1; apply N.div_mul; lia). lia.
Qed.

(* ---------- the search loop: index version = structural version ---------- *)
Fixpoint piece_of (prev : dot) (rest : list dot) (x : N) : dot * dot :=
  match rest with
  | [] => (prev, prev)
  | d :: rest' =>
      match rest' with
      | [] => (prev, d)
      | _ :: _ => if x <? fst d then (prev, d) else piece_of d rest' x
      end
  end.

Lemma nth_error_mid {A} (pre : list A) a post : nth_error (pre ++ a :: post) (length pre) = Some a.
Proof. induction pre as [|b pre IH]; cbn [app length nth_error]; [reflexivity|exact IH]. Qed.
Lemma nth_error_mid1 {A} (pre : list A) a b post : nth_error (pre ++ a :: b :: post) (length pre + 1) = Some b.
Proof. induction pre as [|c pre IH]; cbn [app length nth_error Nat.add]; [reflexivity|exact IH]. Qed.

Lemma find_p0_piece x : forall rest pre prev, rest <> [] ->
  let l := pre ++ prev :: rest in
  let k := find_p0 (S (length pre)) (length l) rest x (length l - 2) in
  nth_error l k = Some (fst (piece_of prev rest x)) /\
  nth_error l (k + 1) = Some (snd (piece_of prev rest x)).
Proof.
  induction rest as [|d rest' IH]; intros pre prev Hne l k; [congruence|].
  destruct d as [px py]. destruct rest' as [|e rest''].
  - (* last piece: the loop runs out, p0 = len-2 *)
    subst k l. cbn [find_p0 piece_of fst snd]. rewrite app_length. cbn [length].
    replace (Nat.ltb (S (length pre)) (length pre + 2 - 1)) with false
      by (symmetry; apply Nat.ltb_ge; lia).
    rewrite andb_false_r. cbn [andb find_p0].
    replace (length pre + 2 - 2)%nat with (length pre) by lia.
    split; [apply nth_error_mid|apply nth_error_mid1].
  - assert (Hlt : Nat.ltb (S (length pre)) (length l - 1) = true).
    { apply Nat.ltb_lt. subst l. rewrite app_length. cbn [length]. lia. }
    subst k. cbn [find_p0]. rewrite Hlt. cbn [Nat.leb andb].
    change (piece_of prev ((px, py) :: e :: rest'') x)
      with (if x <? px then (prev, (px, py)) else piece_of (px, py) (e :: rest'') x).
    destruct (x <? px) eqn:E.
    + cbn [fst snd]. replace (S (length pre) - 1)%nat with (length pre) by lia.
      subst l. split; [apply nth_error_mid|apply nth_error_mid1].
    + specialize (IH (pre ++ [prev]) (px, py) ltac:(discriminate)).
      cbn zeta in IH. rewrite <- app_assoc in IH. cbn [app] in IH.
      rewrite app_length in IH. cbn [length] in IH. rewrite Nat.add_1_r in IH.
      subst l. exact IH.
Qed.

(* ---------- list facts for strictly increasing dot lists ---------- *)
Lemma increasing_cons d e l : increasing (d :: e :: l) = (fst d <? fst e) && increasing (e :: l).
Proof. destruct d, e. reflexivity. Qed.

Lemma inc_all_gt d l : increasing (d :: l) = true -> forall e, In e l -> fst d < fst e.
Proof.
  revert d. induction l as [|e l IH]; intros d H e' Hin; [destruct Hin|].
  rewrite increasing_cons in H. apply andb_true_iff in H. destruct H as [H1 H2]. apply N.ltb_lt in H1.
  destruct Hin as [E|Hin]; [subst; exact H1|]. specialize (IH e H2 e' Hin). lia.
Qed.

Lemma inc_tail d l : increasing (d :: l) = true -> increasing l = true.
Proof.
  destruct l as [|e l]; [reflexivity|]. rewrite increasing_cons. intros H. apply andb_true_iff in H. apply H.
Qed.

Lemma last_nonempty {A} (a : A) l p q : last (a :: l) p = last (a :: l) q.
Proof. revert a. induction l as [|b l IH]; intros a; [reflexivity|]. cbn [last] in *. apply IH. Qed.

Lemma inc_all_le_last l : increasing l = true -> forall d e, In e l -> fst e <= fst (last l d).
Proof.
  induction l as [|a l IH]; intros H d e Hin; [destruct Hin|].
  destruct l as [|b l].
  - destruct Hin as [E|[]]. subst. cbn [last]. lia.
  - pose proof (inc_tail _ _ H) as Ht. specialize (IH Ht d).
    change (last (a :: b :: l) d) with (last (b :: l) d).
    destruct Hin as [E|Hin]; [|apply IH; exact Hin]. subst e.
    pose proof (inc_all_gt a (b :: l) H b (or_introl eq_refl)) as Hab.
    specialize (IH b (or_introl eq_refl)). lia.
Qed.

Lemma nth_error_last {A} (l : list A) d : l <> [] -> nth_error l (length l - 1) = Some (last l d).
Proof.
  induction l as [|a l IH]; intros H; [congruence|]. destruct l as [|b l]; [reflexivity|].
  cbn [length] in *. replace (S (S (length l)) - 1)%nat with (S (S (length l) - 1)) by lia.
  cbn [nth_error]. rewrite IH by discriminate. reflexivity.
Qed.

(* vacuity: every dot strictly right of x / strictly left of x *)
Lemma at_dots_vac l x v : (forall e, In e l -> fst e <> x) -> at_dots_ok l x v = true.
Proof.
  intros H. unfold at_dots_ok. apply forallb_forall. intros e He.
  destruct (N.eqb_spec (fst e) x) as [E|E]; [exfalso; exact (H e He E)|reflexivity].
Qed.

Lemma neighbours_vac_right l x v : (forall e, In e l -> x < fst e) -> neighbours_ok l x v = true.
Proof.
  induction l as [|a l IH]; intros H; [reflexivity|]. destruct l as [|b l]; [destruct a; reflexivity|].
  destruct a as [x0 y0], b as [x1 y1].
  change (neighbours_ok ((x0, y0) :: (x1, y1) :: l) x v)
    with ((if (x0 <=? x) && (x <=? x1) then between_ok x0 y0 x1 y1 x v else true) && neighbours_ok ((x1, y1) :: l) x v).
  pose proof (H (x0, y0) (or_introl eq_refl)) as H0. cbn [fst] in H0.
  replace (x0 <=? x) with false by (symmetry; apply N.leb_gt; exact H0). cbn [andb].
  apply IH. intros e He. apply H. right. exact He.
Qed.

Lemma neighbours_vac_left l x v : (forall e, In e l -> fst e < x) -> neighbours_ok l x v = true.
Proof.
  induction l as [|a l IH]; intros H; [reflexivity|]. destruct l as [|b l]; [destruct a; reflexivity|].
  destruct a as [x0 y0], b as [x1 y1].
  change (neighbours_ok ((x0, y0) :: (x1, y1) :: l) x v)
    with ((if (x0 <=? x) && (x <=? x1) then between_ok x0 y0 x1 y1 x v else true) && neighbours_ok ((x1, y1) :: l) x v).
  pose proof (H (x1, y1) (or_intror (or_introl eq_refl))) as H1. cbn [fst] in H1.
  replace (x <=? x1) with false by (symmetry; apply N.leb_gt; exact H1). rewrite andb_false_r. cbn [andb].
  apply IH. intros e He. apply H. right. exact He.
Qed.

Lemma absdiff_same a : absdiff a a = 0.
Proof. unfold absdiff. rewrite N.ltb_irrefl. apply N.sub_diag. Qed.

Lemma between_ok_right x0 y0 x1 y1 : x0 < x1 -> between_ok x0 y0 x1 y1 x1 y1 = true.
Proof.
  intros H. unfold between_ok. rewrite N.sub_diag, N.mul_0_r, N.add_0_l, absdiff_same.
  rewrite !andb_true_iff, !N.leb_le. split; [split; lia|apply N.le_0_l].
Qed.

(* ---------- the master lemma: the structural search + interpolation meets the specification ---------- *)
Lemma coords_ok_cons d l : coords_ok (d :: l) = (fst d <=? coord_max) && (snd d <=? coord_max) && coords_ok l.
Proof. reflexivity. Qed.

Lemma master x : forall rest prev, rest <> [] ->
  increasing (prev :: rest) = true -> coords_ok (prev :: rest) = true ->
  fst prev <= x -> x <= fst (last rest prev) ->
  exists v, interp (fst (piece_of prev rest x)) (snd (piece_of prev rest x)) x = Some v /\ v <= M /\
            at_dots_ok (prev :: rest) x v = true /\ neighbours_ok (prev :: rest) x v = true /\
            (x = fst prev -> v = snd prev).
Proof.
  induction rest as [|d rest' IH]; intros prev Hne Hinc Hco Hlo Hhi; [congruence|].
  destruct prev as [x0 y0], d as [x1 y1]. cbn [fst snd] in *.
  rewrite increasing_cons in Hinc. apply andb_true_iff in Hinc. destruct Hinc as [H01 Hinc'].
  apply N.ltb_lt in H01. cbn [fst] in H01.
  rewrite !coords_ok_cons, coord_max_eq in Hco. cbn [fst snd] in Hco.
  rewrite !andb_true_iff, !N.leb_le in Hco. destruct Hco as [[Hx0 Hy0] [[Hx1 Hy1] Hco']].
  change (neighbours_ok ((x0, y0) :: (x1, y1) :: rest') x)
    with (fun v => (if (x0 <=? x) && (x <=? x1) then between_ok x0 y0 x1 y1 x v else true) && neighbours_ok ((x1, y1) :: rest') x v).
  cbn beta.
  assert (Hat : forall v, at_dots_ok ((x0, y0) :: (x1, y1) :: rest') x v =
                 (if x0 =? x then y0 =? v else true) && at_dots_ok ((x1, y1) :: rest') x v) by reflexivity.
  destruct rest' as [|e rest''].
  - (* two dots left: the last piece *)
    cbn [last] in Hhi. cbn [fst] in Hhi. cbn [piece_of fst snd].
    destruct (interp_spec x0 y0 x1 y1 x Hlo Hhi H01 Hx1 Hy0 Hy1) as [_ [_ [_ [_ [_ [_ [_ [Hi [Hb [Hv [Hl Hr]]]]]]]]]]].
    exists (value_of x0 y0 x1 y1 x). split; [exact Hi|]. split; [exact Hv|]. split; [|split; [|exact Hl]].
    + rewrite Hat. unfold at_dots_ok. cbn [forallb fst snd]. rewrite !andb_true_iff. split; [|split; [|reflexivity]].
      * destruct (N.eqb_spec x0 x) as [E|E]; [apply N.eqb_eq; symmetry; apply Hl; congruence|reflexivity].
      * destruct (N.eqb_spec x1 x) as [E|E]; [apply N.eqb_eq; symmetry; apply Hr; congruence|reflexivity].
    + rewrite Hb. destruct ((x0 <=? x) && (x <=? x1)); reflexivity.
  - change (piece_of (x0, y0) ((x1, y1) :: e :: rest'') x)
      with (if x <? x1 then ((x0, y0), (x1, y1)) else piece_of (x1, y1) (e :: rest'') x).
    destruct (N.ltb_spec x x1) as [L|G].
    + (* x in the first piece *)
      cbn [fst snd].
      destruct (interp_spec x0 y0 x1 y1 x Hlo ltac:(lia) H01 Hx1 Hy0 Hy1) as [_ [_ [_ [_ [_ [_ [_ [Hi [Hb [Hv [Hl Hr]]]]]]]]]]].
      exists (value_of x0 y0 x1 y1 x). split; [exact Hi|]. split; [exact Hv|].
      assert (Hright : forall d, In d ((x1, y1) :: e :: rest'') -> x < fst d).
      { intros d [E|Hin]; [subst; exact L|]. pose proof (inc_all_gt _ _ Hinc' d Hin). cbn [fst] in *. lia. }
      split; [|split; [|exact Hl]].
      * rewrite Hat. rewrite andb_true_iff. split.
        -- destruct (N.eqb_spec x0 x) as [E|E]; [apply N.eqb_eq; symmetry; apply Hl; congruence|reflexivity].
        -- apply at_dots_vac. intros d Hd. specialize (Hright d Hd). lia.
      * rewrite Hb, neighbours_vac_right by exact Hright. destruct ((x0 <=? x) && (x <=? x1)); reflexivity.
    + (* x further right: recurse *)
      assert (Hhi' : x <= fst (last (e :: rest'') (x1, y1))).
      { change (last ((x1, y1) :: e :: rest'') (x0, y0)) with (last (e :: rest'') (x0, y0)) in Hhi.
        rewrite (last_nonempty e rest'' (x1, y1) (x0, y0)). exact Hhi. }
      assert (Hco2 : coords_ok ((x1, y1) :: e :: rest'') = true).
      { rewrite coords_ok_cons, coord_max_eq. cbn [fst snd]. rewrite !andb_true_iff, !N.leb_le. repeat split; assumption. }
      destruct (IH (x1, y1) ltac:(discriminate) Hinc' Hco2 G Hhi') as [v [Hi [Hv [Ha [Hn Hl]]]]].
      cbn [fst snd] in Hl.
      exists v. split; [exact Hi|]. split; [exact Hv|]. split; [|split].
      * rewrite Hat. apply andb_true_iff. split; [|exact Ha]. destruct (N.eqb_spec x0 x) as [E|E]; [lia|reflexivity].
      * apply andb_true_iff. split; [|exact Hn]. destruct (N.leb_spec x x1) as [L2|L2]; [|rewrite andb_false_r; reflexivity].
        assert (x = x1) by lia. subst x. rewrite (Hl eq_refl).
        rewrite between_ok_right by exact H01. destruct ((x0 <=? x1) && true); reflexivity.
      * intros E. lia.
Qed.

(* ---------- Get on a valid dot list ---------- *)
Lemma valid_dots_inv l : valid_dots l = true ->
  exists d0 rest, l = d0 :: rest /\ rest <> [] /\ increasing l = true /\ coords_ok l = true.
Proof.
  unfold valid_dots. rewrite !andb_true_iff. intros [[H1 H2] H3]. apply Nat.leb_le in H1.
  destruct l as [|d0 [|d1 rest]]; cbn [length] in H1; try lia.
  exists d0, (d1 :: rest). repeat split; try assumption. discriminate.
Qed.

Lemma coords_ok_In l d : coords_ok l = true -> In d l -> fst d <= M /\ snd d <= M.
Proof.
  unfold coords_ok. rewrite forallb_forall. intros H Hin. specialize (H d Hin).
  rewrite coord_max_eq in H. apply andb_true_iff in H. rewrite !N.leb_le in H. exact H.
Qed.

Lemma last_In {A} (a : A) l d : In (last (a :: l) d) (a :: l).
Proof.
  revert a. induction l as [|b l IH]; intros a; [left; reflexivity|].
  change (last (a :: b :: l) d) with (last (b :: l) d). right. apply IH.
Qed.

Theorem get_spec dots x : valid_dots dots = true ->
  exists y, get dots x = Some y /\ get_ok dots x y = true.
Proof.
  intros Hv. destruct (valid_dots_inv dots Hv) as [[fx fy] [rest [El [Hne [Hinc Hco]]]]].
  rename dots into l.
  destruct (@last sdot l (fx, fy)) as [lx ly] eqn:Elast.
  assert (Hlne : l <> []) by (rewrite El; discriminate).
  assert (Hfirst : nth_error l 0 = Some (fx, fy)) by (rewrite El; reflexivity).
  assert (Hlast : nth_error l (length l - 1) = Some (lx, ly)).
  { rewrite <- Elast. apply (@nth_error_last sdot). exact Hlne. }
  assert (HfirstIn : In (fx, fy) l) by (rewrite El; left; reflexivity).
  assert (HlastIn : In (lx, ly) l) by (rewrite <- Elast, El; apply (@last_In sdot)).
  assert (Hfl : fx <= lx).
  { pose proof (inc_all_le_last l Hinc (fx, fy) (fx, fy) HfirstIn) as H. rewrite Elast in H. exact H. }
  destruct (coords_ok_In l (fx, fy) Hco HfirstIn) as [Hfx Hfy].
  destruct (coords_ok_In l (lx, ly) Hco HlastIn) as [Hlx Hly]. cbn [fst snd] in *.
  assert (Hends : forall y, ends_ok l x y = (if x <? fx then y =? fy else true) && (if lx <? x then y =? ly else true)).
  { intros y. unfold ends_ok. rewrite El. cbv beta iota. rewrite <- El, Elast. reflexivity. }
  assert (Hgt : forall e, In e l -> e = (fx, fy) \/ fx < fst e).
  { intros e Hin. rewrite El in Hin, Hinc. destruct Hin as [E|Hin]; [left; congruence|right].
    apply (inc_all_gt _ _ Hinc e Hin). }
  unfold get. unfold dot, sdot in *. rewrite Hfirst, Hlast.
  unfold get_ok.
  destruct (N.ltb_spec x fx) as [L1|G1].
  - (* before the first dot *)
    exists fy. split; [reflexivity|].
    assert (Hall : forall e, In e l -> x < fst e).
    { intros e Hin. destruct (Hgt e Hin) as [E|E]; [subst e; exact L1|lia]. }
    rewrite Hends, at_dots_vac, neighbours_vac_right; [|exact Hall|intros e He; specialize (Hall e He); lia].
    replace (x <? fx) with true by (symmetry; apply N.ltb_lt; exact L1).
    replace (lx <? x) with false by (symmetry; apply N.ltb_ge; lia).
    rewrite N.eqb_refl. replace (fy <? two64n) with true by (symmetry; apply N.ltb_lt; unfold two64n, M in *; lia).
    reflexivity.
  - destruct (N.ltb_spec lx x) as [L2|G2].
    + (* after the last dot *)
      exists ly. split; [reflexivity|].
      assert (Hall : forall e, In e l -> fst e < x).
      { intros e Hin. pose proof (inc_all_le_last l Hinc (fx, fy) e Hin) as H. unfold sdot in H. rewrite Elast in H. cbn [fst] in H. lia. }
      rewrite Hends, at_dots_vac, neighbours_vac_left; [|exact Hall|intros e He; specialize (Hall e He); lia].
      replace (x <? fx) with false by (symmetry; apply N.ltb_ge; exact G1).
      replace (lx <? x) with true by (symmetry; apply N.ltb_lt; exact L2).
      rewrite N.eqb_refl. replace (ly <? two64n) with true by (symmetry; apply N.ltb_lt; unfold two64n, M in *; lia).
      reflexivity.
    + (* inside: search + interpolation *)
      assert (Hhi : x <= fst (last rest (fx, fy))).
      { destruct rest as [|r0 rest0]; [congruence|]. rewrite El in Elast.
        change (last ((fx, fy) :: r0 :: rest0) (fx, fy)) with (last (r0 :: rest0) (fx, fy)) in Elast.
        rewrite Elast. exact G2. }
      rewrite El in Hinc, Hco.
      destruct (master x rest (fx, fy) Hne Hinc Hco G1 Hhi) as [v [Hi [HvM [Ha [Hn _]]]]].
      pose proof (find_p0_piece x rest [] (fx, fy) Hne) as Hp. cbn zeta in Hp. cbn [app length] in Hp.
      unfold dot, sdot in Hp, Ha, Hn. rewrite <- El in Hp, Ha, Hn.
      assert (Hlen : length l = S (length rest)) by (rewrite El; reflexivity).
      rewrite Hlen.
      assert (Hstep : find_p0 0 (S (length rest)) l x (S (length rest) - 2)
                      = find_p0 1 (S (length rest)) rest x (S (length rest) - 2)) by (rewrite El; reflexivity).
      rewrite Hstep. destruct Hp as [Hp0 Hp1]. rewrite Hp0, Hp1.
      destruct (piece_of (fx, fy) rest x) as [[x0 y0] [x1 y1]]. cbn [fst snd] in *.
      unfold interp in Hi. cbn [fst snd] in Hi.
      destruct (pf_div (sub64 x x0) (sub64 x1 x0)) as [ratio|]; [|discriminate].
      exists v. split; [exact Hi|].
      rewrite Hends, Ha, Hn.
      replace (x <? fx) with false by (symmetry; apply N.ltb_ge; exact G1).
      replace (lx <? x) with false by (symmetry; apply N.ltb_ge; exact G2).
      replace (v <? two64n) with true by (symmetry; apply N.ltb_lt; unfold two64n, M in *; lia).
      reflexivity.
Qed.

(* ---------- NewFunc accepts exactly the valid lists ---------- *)
Lemma increasing_y_irrel x y y' l : increasing ((x, y) :: l) = increasing ((x, y') :: l).
Proof. destruct l as [|[x1 y1] l]; reflexivity. Qed.

Lemma check_dots_S r : forall i prev,
  check_dots (S i) prev r = None <-> increasing ((prev, 0) :: r) = true /\ coords_ok r = true.
Proof.
  induction r as [|[x y] r IH]; intros i prev; [cbn; tauto|].
  cbn [check_dots]. rewrite increasing_cons, coords_ok_cons. cbn [fst snd Nat.leb andb].
  rewrite max_val_eq, coord_max_eq.
  destruct (N.leb_spec x prev) as [L|L].
  - split; [discriminate|]. intros [H _]. apply andb_true_iff in H. destruct H as [H _]. apply N.ltb_lt in H. lia.
  - destruct (N.ltb_spec M y) as [Ly|Ly].
    + split; [discriminate|]. intros [_ H]. rewrite !andb_true_iff, !N.leb_le in H. lia.
    + destruct (N.ltb_spec M x) as [Lx|Lx].
      * split; [discriminate|]. intros [_ H]. rewrite !andb_true_iff, !N.leb_le in H. lia.
      * rewrite (IH (S i) x). rewrite (increasing_y_irrel x y 0).
        rewrite !andb_true_iff, !N.leb_le, N.ltb_lt. tauto.
Qed.

Theorem new_func_valid dots : new_func dots = None <-> valid_dots dots = true.
Proof.
  unfold new_func, valid_dots. destruct dots as [|[x y] [|d r]].
  - split; intros H; vm_compute in H; discriminate.
  - split; intros H; [vm_compute in H; discriminate|]. cbn [length Nat.leb andb] in H. discriminate.
  - cbn [length Nat.ltb Nat.leb andb]. set (r' := d :: r).
    cbn [check_dots Nat.leb andb]. rewrite coords_ok_cons. cbn [fst snd]. rewrite max_val_eq, coord_max_eq.
    destruct (N.ltb_spec M y) as [Ly|Ly].
    + split; [discriminate|]. intros H. rewrite !andb_true_iff, !N.leb_le in H. lia.
    + destruct (N.ltb_spec M x) as [Lx|Lx].
      * split; [discriminate|]. intros H. rewrite !andb_true_iff, !N.leb_le in H. lia.
      * rewrite (check_dots_S r' 0 x), (increasing_y_irrel x y 0).
        rewrite !andb_true_iff, !N.leb_le. tauto.
Qed.

(* which panic: the model's error is the first failing test in loop order (totality) *)
Lemma new_func_total dots : valid_dots dots = false -> exists e, new_func dots = Some e.
Proof.
  intros H. destruct (new_func dots) as [e|] eqn:E; [exists e; reflexivity|].
  apply new_func_valid in E. congruence.
Qed.

(* ---------- the clauses of get_ok, one by one ---------- *)
Lemma neighbours_ok_adj pre a b post x y : neighbours_ok (pre ++ a :: b :: post) x y = true ->
  fst a <= x -> x <= fst b -> between_ok (fst a) (snd a) (fst b) (snd b) x y = true.
Proof.
  induction pre as [|c pre IH]; intros H Ha Hb.
  - destruct a as [x0 y0], b as [x1 y1]. cbn [app fst snd] in *.
    change (neighbours_ok ((x0, y0) :: (x1, y1) :: post) x y)
      with ((if (x0 <=? x) && (x <=? x1) then between_ok x0 y0 x1 y1 x y else true) && neighbours_ok ((x1, y1) :: post) x y) in H.
    apply andb_true_iff in H. destruct H as [H _].
    replace (x0 <=? x) with true in H by (symmetry; apply N.leb_le; exact Ha).
    replace (x <=? x1) with true in H by (symmetry; apply N.leb_le; exact Hb). exact H.
  - apply IH; [|exact Ha|exact Hb]. destruct c as [cx cy].
    destruct (pre ++ a :: b :: post) as [|[dx dy] tl] eqn:E; [destruct pre; discriminate|].
    cbn [app] in H. rewrite E in H.
    change (neighbours_ok ((cx, cy) :: (dx, dy) :: tl) x y)
      with ((if (cx <=? x) && (x <=? dx) then between_ok cx cy dx dy x y else true) && neighbours_ok ((dx, dy) :: tl) x y) in H.
    apply andb_true_iff in H. apply H.
Qed.

Theorem get_before dots x fx fy rest : valid_dots dots = true -> dots = (fx, fy) :: rest ->
  x < fx -> get dots x = Some fy.
Proof.
  intros Hv E L. destruct (get_spec dots x Hv) as [y [Hg Hok]]. rewrite Hg. f_equal.
  unfold get_ok in Hok. rewrite !andb_true_iff in Hok. destruct Hok as [[[_ He] _] _].
  subst dots. unfold ends_ok in He. revert He. destruct (last _ _) as [lx ly]. intros He.
  apply andb_true_iff in He. destruct He as [He _].
  replace (x <? fx) with true in He by (symmetry; apply N.ltb_lt; exact L). apply N.eqb_eq. exact He.
Qed.

Theorem get_after dots x d lx ly : valid_dots dots = true -> last dots d = (lx, ly) ->
  lx < x -> get dots x = Some ly.
Proof.
  intros Hv E L. destruct (get_spec dots x Hv) as [y [Hg Hok]]. rewrite Hg. f_equal.
  unfold get_ok in Hok. rewrite !andb_true_iff in Hok. destruct Hok as [[[_ He] _] _].
  destruct (valid_dots_inv dots Hv) as [[fx fy] [rest [El _]]]. subst dots.
  unfold ends_ok in He. cbv beta iota in He.
  rewrite (@last_nonempty sdot (fx, fy) rest (fx, fy) d), E in He.
  apply andb_true_iff in He. destruct He as [_ He].
  replace (lx <? x) with true in He by (symmetry; apply N.ltb_lt; exact L). apply N.eqb_eq. exact He.
Qed.

Theorem get_at_dot dots X Y : valid_dots dots = true -> In (X, Y) dots -> get dots X = Some Y.
Proof.
  intros Hv Hin. destruct (get_spec dots X Hv) as [y [Hg Hok]]. rewrite Hg. f_equal.
  unfold get_ok in Hok. rewrite !andb_true_iff in Hok. destruct Hok as [[_ Ha] _].
  unfold at_dots_ok in Ha. rewrite forallb_forall in Ha. specialize (Ha (X, Y) Hin). cbn [fst snd] in Ha.
  rewrite N.eqb_refl in Ha. apply N.eqb_eq in Ha. congruence.
Qed.

Theorem get_between dots pre x0 y0 x1 y1 post x : valid_dots dots = true ->
  dots = pre ++ (x0, y0) :: (x1, y1) :: post -> x0 <= x -> x <= x1 ->
  exists y, get dots x = Some y /\ y < two64n /\
    N.min y0 y1 <= y + 1 /\ y <= N.max y0 y1 /\
    absdiff (y * (x1 - x0) * unit6) ((y0 * ((x1 - x0) - (x - x0)) + y1 * (x - x0)) * unit6)
      <= (absdiff y1 y0 + 2 * unit6) * (x1 - x0).
Proof.
  intros Hv E H0 H1. destruct (get_spec dots x Hv) as [y [Hg Hok]]. exists y. split; [exact Hg|].
  unfold get_ok in Hok. rewrite !andb_true_iff in Hok. destruct Hok as [[[Hy _] _] Hn].
  apply N.ltb_lt in Hy. split; [exact Hy|]. subst dots.
  pose proof (neighbours_ok_adj pre (x0, y0) (x1, y1) post x y Hn H0 H1) as Hb. cbn [fst snd] in Hb.
  unfold between_ok in Hb. rewrite !andb_true_iff, !N.leb_le in Hb. tauto.
Qed.

(* no uint64 operation wraps inside a piece (the values the code computes are the unbounded ones) *)
Theorem piece_no_wrap x0 y0 x1 y1 x :
  x0 <= x -> x <= x1 -> x0 < x1 -> x1 <= max_val -> y0 <= max_val -> y1 <= max_val ->
  let r := ratio_of x0 x1 x in
  sub64 x x0 = x - x0 /\ sub64 x1 x0 = x1 - x0 /\ mul64 (x - x0) decimal_unit = (x - x0) * 1000000 /\
  r <= 1000000 /\ sub64 decimal_unit r = 1000000 - r /\
  mul64 y0 (1000000 - r) = y0 * (1000000 - r) /\ mul64 y1 r = y1 * r /\
  interp (x0, y0) (x1, y1) x = Some (y0 * (1000000 - r) / 1000000 + y1 * r / 1000000).
Proof.
  intros H1 H2 H3 H4 H5 H6 r. rewrite max_val_eq in *.
  destruct (interp_spec x0 y0 x1 y1 x H1 H2 H3 H4 H5 H6) as [A [B [C [D [E [F [G [H _]]]]]]]].
  repeat split; assumption.
Qed.
