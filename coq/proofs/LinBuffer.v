(* C28 — gossip/dagordering.EventsBuffer, the MUTATORS (PushEvent, Clear), over model/Buffer.v (C14).
   The callbacks (Exists/Get/Check/Process/Released) run inside the critical section of the buffer's mutex;
   in model/Buffer.v they are part of the operation's effect: Exists/Get read [connected], a successful Process
   extends it, Check/Process failures are oracles over the callback log, every call is appended to [log].
   Re-entrancy — a callback calling an operation of the same buffer — is excluded by hypothesis (sync.Mutex is not
   re-entrant: it would deadlock); what can be checked of it in the repository is checked by lockscan
   (gen/LockTable.callback_table, props/C28.v).
   Total / IsBuffered are NOT operations of this object: they bypass the mutex (recorded finding). *)
From Coq Require Import String List NArith Bool.
From LV Require Import model.LockDiscipline model.Lin proofs.Lin proofs.LinTable proofs.LinInstances model.Buffer.
Import ListNotations.
Local Open Scope string_scope.

Section BufferInstance.
  Variables fails_check fails_process : list out -> entry -> bool.   (* oracles of the application's callbacks *)
  Variables limN limS : N.

  Inductive bop := BPush (e : N) (parents : list N) (size : N) | BClear.

  (* result = what the call returns and the buffer's totals right after it (the OPushed / OCleared record) *)
  Definition bstep (s : Buffer.st) (o : bop) : Buffer.st * option out :=
    let s' := Buffer.step fails_check fails_process true limN limS s
                (match o with BPush e ps sz => OpPush e ps sz | BClear => OpClear end) in
    (s', hd_error (log s')).

  Definition bkey (o : bop) : mkey :=
    match o with BPush _ _ _ => mkK "EventsBuffer" "PushEvent" "self" "mu" | BClear => mkK "EventsBuffer" "Clear" "self" "mu" end.
  Definition bkeys : list mkey := [mkK "EventsBuffer" "PushEvent" "self" "mu"; mkK "EventsBuffer" "Clear" "self" "mu"].
  Definition bk_readonly (_ : mkey) : bool := false.

  Lemma bkeys_complete : forall o, In (bkey o) bkeys.
  Proof. intros []; simpl; tauto. Qed.
  Lemma b_readonly_sound : forall o s, bk_readonly (bkey o) = true -> fst (bstep s o) = s.
  Proof. intros o s H; discriminate. Qed.

  Variable tbl : list lock_row.
  Hypothesis Hcheck : tk_check bkeys bk_readonly tbl = true.
  Definition bkind : bop -> lkind := tk_kind bop bkey tbl.

  Theorem buffer_mutators_linearizable : forall s0 tr c,
    exec Buffer.st bop (option out) (option (option out)) (os_linit bop (option out)) (os_mstep _ _ _ bstep)
         (os_fin bop (option out)) nowait nowstep bkind s0 tr c ->
    linearizable Buffer.st bop (option out) (option (option out)) (os_linit bop (option out)) (os_mstep _ _ _ bstep)
         (os_fin bop (option out)) nowait nowstep s0 (hist bop (option out) tr).
  Proof.
    exact (os_linearizable _ _ _ bstep bkey bkeys bk_readonly bkeys_complete b_readonly_sound tbl Hcheck).
  Qed.

  Theorem buffer_mutators_race_free : forall s0 tr c,
    exec Buffer.st bop (option out) (option (option out)) (os_linit bop (option out)) (os_mstep _ _ _ bstep)
         (os_fin bop (option out)) nowait nowstep bkind s0 tr c ->
    ~ race Buffer.st bop (option out) (option (option out)) (os_fin bop (option out)) nowait bkind c.
  Proof.
    exact (os_race_free _ _ _ bstep bkey bkeys bk_readonly bkeys_complete b_readonly_sound tbl Hcheck).
  Qed.
End BufferInstance.

(* model/Buffer.v itself shows the intermediate order that MiniBuffer (proofs/LinRefute.v) abstracts: with the
   children 1 and 2 of event 0 buffered, PushEvent(0) processes 0, then 1, then 2 — the callback log (newest first)
   is the witness — and the buffer is empty afterwards; there is a moment with exactly one child left. *)
Definition never_fails (_ : list out) (_ : entry) : bool := false.
Definition st_two_children : Buffer.st :=
  Buffer.run never_fails never_fails true 10 100000 [OpPush 1 [0%N] 84; OpPush 2 [0%N] 84].
Example buffer_v_children_one_by_one :
  map eid (inc st_two_children) = [1%N; 2%N] /\
  inc (Buffer.step never_fails never_fails true 10 100000 st_two_children (OpPush 0 [] 52)) = [] /\
  filter (fun o => match o with OProcess _ _ _ => true | _ => false end)
         (log (Buffer.step never_fails never_fails true 10 100000 st_two_children (OpPush 0 [] 52)))
  = [OProcess 1 2 true; OProcess 0 1 true; OProcess 2 0 true].
Proof. vm_compute. repeat split; reflexivity. Qed.
