(* C11: the weight counter refines the set-of-positions specification on every call sequence;
   the counted weight is a weighted sum over the counted positions (each at most once). *)
From Coq Require Import NArith PeanoNat List Lia Bool Permutation Sorted.
From Coq Require Import ZifyBool ZifyNat ZifyN.
From LV Require Import lib.WordArith lib.WSum model.Pos spec.PosSpec.
From LV Require Import proofs.PosMapProofs proofs.PosSortProofs proofs.PosBuildProofs proofs.PosQuorumProofs.
Import ListNotations.
Local Open Scope N_scope.

Definition wpos (ws : list N) (i : nat) : N := nth i ws 0.
Definition positions (ws : list N) : list nat := seq 0 (length ws).
Definition in_set (c : list nat) (i : nat) : bool := existsb (Nat.eqb i) c.
Definition sumN (ws : list N) : N := fold_right N.add 0 ws.

Lemma in_set_In c i : in_set c i = true <-> In i c.
Proof.
  unfold in_set. rewrite existsb_exists. split.
  - intros [j [Hj E]]. apply Nat.eqb_eq in E. subst j. exact Hj.
  - intros H. exists i. split; [exact H|apply Nat.eqb_refl].
Qed.

Lemma counted_sum_cons ws i c :
  counted_sum ws (i :: c) = if in_set c i then counted_sum ws c else wpos ws i + counted_sum ws c.
Proof.
  unfold counted_sum. cbn [nodup]. destruct (in_dec Nat.eq_dec i c) as [Hin|Hni].
  - apply in_set_In in Hin. rewrite Hin. reflexivity.
  - destruct (in_set c i) eqn:E; [apply in_set_In in E; contradiction|]. reflexivity.
Qed.

(* total over all positions = sum of the weight list *)
Lemma wtotal_positions ws : wtotal (wpos ws) (positions ws) = sumN ws.
Proof.
  unfold wtotal, positions, sumN. induction ws as [|a ws IH]; [reflexivity|].
  cbn [length]. rewrite <- cons_seq, <- seq_shift. cbn [wsum fold_right]. rewrite wsum_map.
  unfold wpos at 1. cbn [nth]. f_equal. rewrite <- IH. apply wsum_ext_w. intros v _. reflexivity.
Qed.

Lemma wsum_one ws i : wsum (wpos ws) (positions ws) (fun j => Nat.eqb j i) = wpos ws i.
Proof.
  unfold positions. destruct (Nat.lt_ge_cases i (length ws)) as [L|G].
  - assert (Hs : seq 0 (length ws) = seq 0 i ++ i :: seq (S i) (length ws - S i)).
    { replace (length ws) with (i + S (length ws - S i))%nat at 1 by lia. rewrite seq_app. reflexivity. }
    rewrite Hs, wsum_app. cbn [wsum]. rewrite Nat.eqb_refl.
    rewrite !wsum_single_notin; [lia| |].
    + intros v Hv. apply in_seq in Hv. apply Nat.eqb_neq. lia.
    + intros v Hv. apply in_seq in Hv. apply Nat.eqb_neq. lia.
  - unfold wpos at 2. rewrite nth_overflow by exact G. apply wsum_single_notin.
    intros v Hv. apply in_seq in Hv. apply Nat.eqb_neq. lia.
Qed.

(* each validator's weight at most once: the counted sum is the weighted sum of the SET of counted positions *)
Lemma counted_sum_wsum ws c : counted_sum ws c = wsum (wpos ws) (positions ws) (in_set c).
Proof.
  induction c as [|i c IH].
  - unfold counted_sum. cbn [nodup fold_right]. symmetry. apply wsum_single_notin. reflexivity.
  - rewrite counted_sum_cons.
    assert (Hx : forall j, in_set (i :: c) j = Nat.eqb j i || in_set c j) by reflexivity.
    rewrite (wsum_ext _ _ _ (fun j => Nat.eqb j i || in_set c j)) by (intros; apply Hx).
    destruct (in_set c i) eqn:E.
    + rewrite IH. apply wsum_ext. intros j _. destruct (Nat.eqb_spec j i) as [Ej|Ej]; [subst j; rewrite E|]; reflexivity.
    + rewrite wsum_disjoint, wsum_one, IH; [reflexivity|].
      intros j _. destruct (Nat.eqb_spec j i) as [Ej|Ej]; [subst j; rewrite E|]; reflexivity.
Qed.

Lemma counted_sum_le ws c : counted_sum ws c <= sumN ws.
Proof. rewrite counted_sum_wsum, <- wtotal_positions. apply wsum_le_total. Qed.

(* ---- state invariant ---- *)
Section Counter.
Variable vs : validators.
Let ws := sorted_weights vs.
Let W := total_weight vs.
Hypothesis Hlen : v_len vs = length ws.
Hypothesis Htot : W = sumN ws.
Hypothesis Hmax : W <= max_total.

Definition cinv (k : counter) (c : list nat) : Prop :=
  k_vals k = vs /\ length (k_already k) = length ws /\
  (forall i, (i < length ws)%nat -> nth_error (k_already k) i = Some (in_set c i)) /\
  k_sum k = counted_sum ws c /\ k_quorum k = quorum_spec W.

Lemma set_true_length i l : length (set_true i l) = length l.
Proof. revert i. induction l as [|b l IH]; intros [|i]; cbn [set_true length]; auto. Qed.

Lemma set_true_nth i l j : (i < length l)%nat ->
  nth_error (set_true i l) j = if Nat.eqb j i then Some true else nth_error l j.
Proof.
  revert i j. induction l as [|b l IH]; intros i j H; cbn [length] in H; [lia|].
  destruct i as [|i]; cbn [set_true].
  - destruct j as [|j]; reflexivity.
  - destruct j as [|j]; cbn [nth_error]; [reflexivity|]. rewrite IH by lia. reflexivity.
Qed.

Lemma cinv_new : cinv (new_counter vs) [].
Proof.
  unfold cinv, new_counter. cbn [k_vals k_already k_sum k_quorum]. rewrite repeat_length, Hlen.
  split; [reflexivity|]. split; [reflexivity|]. split.
  - intros i Hi. rewrite nth_error_repeat by exact Hi. reflexivity.
  - split; [reflexivity|]. unfold quorum. apply quorum_no_wrap. exact Hmax.
Qed.

(* one CountByIdx call *)
Lemma count_by_idx_step k c i : cinv k c ->
  match count_by_idx k i with
  | None => (length ws <= i)%nat
  | Some (k', b) => (i < length ws)%nat /\ b = negb (in_set c i) /\ cinv k' (i :: c)
  end.
Proof.
  intros [Hv [Hl [Ha [Hs Hq]]]]. unfold count_by_idx.
  destruct (Nat.lt_ge_cases i (length ws)) as [L|G].
  - rewrite (Ha i L). destruct (in_set c i) eqn:E.
    + split; [exact L|]. split; [reflexivity|].
      split; [exact Hv|]. split; [exact Hl|]. split; [|split; [|exact Hq]].
      * intros j Hj. rewrite (Ha j Hj). f_equal. unfold in_set at 2. cbn [existsb]. fold (in_set c j).
        destruct (Nat.eqb_spec j i) as [Ej|Ej]; [subst j; rewrite E|]; reflexivity.
      * rewrite counted_sum_cons, E. exact Hs.
    + unfold get_weight_by_idx. rewrite Hv. fold ws.
      destruct (nth_error ws i) as [wt|] eqn:En; [|apply nth_error_None in En; lia].
      split; [exact L|]. split; [reflexivity|].
      unfold cinv. cbn [k_vals k_already k_sum k_quorum].
      split; [reflexivity|]. split; [rewrite set_true_length; exact Hl|]. split; [|split; [|exact Hq]].
      * intros j Hj. rewrite set_true_nth by lia. unfold in_set at 1. cbn [existsb]. fold (in_set c j).
        destruct (Nat.eqb_spec j i) as [Ej|Ej]; [reflexivity|]. apply Ha. exact Hj.
      * rewrite counted_sum_cons, E.
        assert (Ew : wpos ws i = wt) by (unfold wpos; apply nth_error_nth; exact En).
        pose proof (counted_sum_le ws (i :: c)) as Hle. rewrite counted_sum_cons, E, Ew in Hle.
        unfold add32. rewrite wrap32_small; [rewrite Hs, Ew; lia|].
        unfold max_total, two32 in *. lia.
  - destruct (nth_error (k_already k) i) eqn:En; [|exact G].
    assert (i < length (k_already k))%nat by (apply nth_error_Some; congruence). lia.
Qed.

Lemma fst_let {A B} (x : list A * B) (a : A) :
  fst (let (o, f) := x in (a :: o, f)) = a :: fst x.
Proof. destruct x; reflexivity. Qed.

(* every call sequence: the model's answers are the specification's *)
Lemma run_counter_spec cops : forall k c, cinv k c ->
  fst (run_counter k cops) = spec_counter ws W (get_idx vs) c cops.
Proof.
  induction cops as [|op cops IH]; intros k c Hi; [reflexivity|].
  cbn [run_counter spec_counter]. destruct op as [i|id| |].
  - pose proof (count_by_idx_step k c i Hi) as Hs.
    destruct (count_by_idx k i) as [[k' b]|].
    + destruct Hs as [L [Hb Hi']]. apply Nat.ltb_lt in L. rewrite L, fst_let, (IH k' (i :: c) Hi'), Hb. reflexivity.
    + apply Nat.ltb_ge in Hs. rewrite Hs. reflexivity.
  - unfold count. destruct Hi as [Hv Hr]. rewrite Hv.
    pose proof (count_by_idx_step k c (get_idx vs id) (conj Hv Hr)) as Hs.
    destruct (count_by_idx k (get_idx vs id)) as [[k' b]|].
    + destruct Hs as [L [Hb Hi']]. apply Nat.ltb_lt in L. rewrite L, fst_let, (IH k' _ Hi'), Hb. reflexivity.
    + apply Nat.ltb_ge in Hs. rewrite Hs. reflexivity.
  - rewrite fst_let, (IH k c Hi). destruct Hi as [_ [_ [_ [Hs Hq]]]].
    unfold has_quorum. rewrite Hs, Hq. reflexivity.
  - rewrite fst_let, (IH k c Hi). destruct Hi as [_ [_ [_ [Hs _]]]]. rewrite Hs. reflexivity.
Qed.

End Counter.

(* a counter reports a quorum exactly when the counted weight reaches floor(2W/3)+1,
   i.e. exactly when it exceeds two thirds of the total *)
Lemma has_quorum_iff vs k c : cinv vs k c ->
  (has_quorum k = true <->
     quorum_spec (total_weight vs) <= wsum (wpos (sorted_weights vs)) (positions (sorted_weights vs)) (in_set c)) /\
  (has_quorum k = true <->
     3 * wsum (wpos (sorted_weights vs)) (positions (sorted_weights vs)) (in_set c) > 2 * total_weight vs).
Proof.
  intros [_ [_ [_ [Hs Hq]]]]. unfold has_quorum. rewrite Hs, Hq, counted_sum_wsum, N.leb_le.
  split; [reflexivity|]. unfold quorum_spec. lia.
Qed.

Lemma spec_counter_ext ws W f g c cops : (forall id, f id = g id) ->
  spec_counter ws W f c cops = spec_counter ws W g c cops.
Proof.
  intros H. revert c. induction cops as [|op cops IH]; intros c; [reflexivity|].
  cbn [spec_counter]. destruct op; rewrite ?H, ?IH; try reflexivity.
Qed.

Lemma sum_weights_sumN l : sum_weights l = sumN (map snd l).
Proof. unfold sum_weights, sumN. induction l as [|p l IH]; cbn [fold_right map]; [reflexivity|]. rewrite IH. reflexivity. Qed.

(* built sets satisfy the section hypotheses *)
Lemma build_counter_hyps ops vs : weights_fit ops -> build ops = Some vs ->
  sorted_weights vs = map snd (canon ops) /\ total_weight vs = spec_total ops /\
  v_len vs = length (sorted_weights vs) /\ total_weight vs = sumN (sorted_weights vs) /\
  total_weight vs <= max_total.
Proof.
  intros Hf Hb. pose proof (build_spec ops Hf) as H. rewrite Hb in H. destruct H as [H1 [H2 H3]].
  unfold sorted_weights, total_weight, v_len. rewrite H2. unfold cache_of. cbn [c_weights c_total]. fold (canon ops).
  assert (Hsum : sum_weights (canon ops) = spec_total ops) by (apply sum_weights_perm, canon_perm).
  split; [reflexivity|]. split; [exact Hsum|]. split.
  - rewrite map_length, (Permutation_length H3). symmetry. apply Permutation_length. apply canon_perm.
  - split; [apply sum_weights_sumN|]. rewrite Hsum. exact H1.
Qed.

Theorem counter_refines ops vs cops : weights_fit ops -> build ops = Some vs ->
  fst (run_counter (new_counter vs) cops) =
  spec_counter (map snd (canon ops)) (spec_total ops) (spec_idx ops) [] cops.
Proof.
  intros Hf Hb. destruct (build_counter_hyps ops vs Hf Hb) as [H1 [H2 [H3 [H4 H5]]]].
  rewrite (run_counter_spec vs H3 H4 H5 cops (new_counter vs) []) by (apply cinv_new; assumption).
  rewrite H1, H2. apply spec_counter_ext. apply get_idx_spec; assumption.
Qed.

(* quorum intersection on a built validator set: sets of positions P, Q *)
Theorem intersection_built ops vs (P Q : nat -> bool) : weights_fit ops -> build ops = Some vs ->
  let ws := sorted_weights vs in
  quorum vs <= wsum (wpos ws) (positions ws) P ->
  quorum vs <= wsum (wpos ws) (positions ws) Q ->
  3 * wsum (wpos ws) (positions ws) (fun i => P i && Q i) > total_weight vs.
Proof.
  intros Hf Hb ws HP HQ. destruct (build_counter_hyps ops vs Hf Hb) as [_ [_ [_ [H4 H5]]]].
  fold ws in H4. unfold quorum in *. rewrite H4 in *. rewrite <- (wtotal_positions ws) in *.
  apply intersection_gen; assumption.
Qed.

(* the whole set reaches the quorum, a set holding at most two thirds does not *)
Theorem whole_set_built ops vs : weights_fit ops -> build ops = Some vs -> 1 <= total_weight vs ->
  let ws := sorted_weights vs in
  quorum vs <= wsum (wpos ws) (positions ws) (fun _ => true).
Proof.
  intros Hf Hb H1 ws. destruct (build_counter_hyps ops vs Hf Hb) as [_ [_ [_ [H4 H5]]]].
  fold ws in H4. fold (wtotal (wpos ws) (positions ws)). rewrite wtotal_positions, <- H4.
  unfold quorum. apply whole_set; assumption.
Qed.

Theorem two_thirds_built ops vs (P : nat -> bool) : weights_fit ops -> build ops = Some vs ->
  let ws := sorted_weights vs in
  3 * wsum (wpos ws) (positions ws) P <= 2 * total_weight vs ->
  wsum (wpos ws) (positions ws) P < quorum vs.
Proof.
  intros Hf Hb ws H. destruct (build_counter_hyps ops vs Hf Hb) as [_ [_ [_ [H4 H5]]]].
  unfold quorum. apply two_thirds_fail; assumption.
Qed.

Lemma build_total ops vs : weights_fit ops -> build ops = Some vs ->
  total_weight vs = spec_total ops /\ total_weight vs = sumN (sorted_weights vs) /\
  total_weight vs <= max_total /\ v_len vs = length (sorted_weights vs).
Proof.
  intros Hf Hb. destruct (build_counter_hyps ops vs Hf Hb) as [_ [H2 [H3 [H4 H5]]]].
  repeat split; assumption.
Qed.

(* ---- the specification's rank-based array IS the sorted array ---- *)
Lemma at_rank_sorted pairs i p : NoDup pairs ->
  nth_error (vsort pairs) i = Some p -> at_rank pairs i = Some p.
Proof.
  intros HN Hn. set (s := vsort pairs) in *.
  assert (HP : Permutation s pairs) by apply vsort_perm.
  assert (HNs : NoDup s) by (apply (Permutation_NoDup (Permutation_sym HP)); exact HN).
  assert (HSs : StronglySorted vle s) by apply vsort_sorted.
  assert (Hrank : forall q pre post, s = pre ++ q :: post -> rank pairs q = length pre).
  { intros q pre post E. rewrite <- (rank_perm _ _ q HP), E. apply rank_sorted; rewrite <- E; assumption. }
  destruct (List.nth_error_split s i Hn) as [l1 [l2 [E1 E2]]].
  unfold at_rank. destruct (find (fun q => Nat.eqb (rank pairs q) i) pairs) as [q|] eqn:F.
  - apply find_some in F. destruct F as [Hin Hr]. apply Nat.eqb_eq in Hr.
    apply (Permutation_in q (Permutation_sym HP)) in Hin.
    destruct (in_split _ _ Hin) as [pre [post E]].
    pose proof (Hrank q pre post E) as Hq. rewrite Hr in Hq.
    assert (Hn2 : nth_error s i = Some q) by (rewrite E, Hq; apply PosBuildProofs.nth_error_split).
    congruence.
  - exfalso. assert (Hin : In p pairs).
    { apply (Permutation_in p HP). rewrite E1. apply in_or_app. right. left. reflexivity. }
    pose proof (find_none _ _ F p Hin) as Hf. cbn beta in Hf. apply Nat.eqb_neq in Hf. apply Hf.
    rewrite (Hrank p l1 l2 E1). exact E2.
Qed.

Lemma flat_map_singletons {A} (g : nat -> list A) (s : list A) : forall k,
  (forall i p, nth_error s i = Some p -> g (k + i)%nat = [p]) ->
  flat_map g (seq k (length s)) = s.
Proof.
  induction s as [|a s IH]; intros k H; [reflexivity|].
  cbn [length seq flat_map]. rewrite <- (Nat.add_0_r k) at 1. rewrite (H 0%nat a eq_refl). cbn [app]. f_equal.
  apply IH. intros i p Hn. replace (S k + i)%nat with (k + S i)%nat by lia. apply H. exact Hn.
Qed.

Lemma spec_array_sorted pairs : NoDup pairs -> spec_array pairs = vsort pairs.
Proof.
  intros HN. unfold spec_array. rewrite <- (Permutation_length (vsort_perm pairs)).
  apply flat_map_singletons. intros i p Hn. cbn [Nat.add]. rewrite (at_rank_sorted pairs i p HN Hn). reflexivity.
Qed.

Lemma spec_array_canon ops : spec_array (eff_pairs ops) = canon ops.
Proof. apply spec_array_sorted. apply vmap_nodup. apply eff_pairs_ok. Qed.

(* the refinement theorem against the rank-based array (no sort on the right-hand side) *)
Theorem counter_refines_rank ops vs cops : weights_fit ops -> build ops = Some vs ->
  fst (run_counter (new_counter vs) cops) =
  spec_counter (map snd (spec_array (eff_pairs ops))) (spec_total ops) (spec_idx ops) [] cops.
Proof. intros Hf Hb. rewrite spec_array_canon. apply counter_refines; assumption. Qed.

(* ---- every reachable counter state satisfies the invariant ---- *)
Lemma snd_let {A B} (x : list A * B) (a : A) : snd (let (o, f) := x in (a :: o, f)) = snd x.
Proof. destruct x; reflexivity. Qed.

Lemma run_counter_inv vs : v_len vs = length (sorted_weights vs) ->
  total_weight vs = sumN (sorted_weights vs) -> total_weight vs <= max_total ->
  forall cops k c k', cinv vs k c -> snd (run_counter k cops) = Some k' -> exists c', cinv vs k' c'.
Proof.
  intros H3 H4 H5. induction cops as [|op cops IH]; intros k c k' Hi Hr.
  - cbn in Hr. inversion Hr; subst. exists c. exact Hi.
  - cbn [run_counter] in Hr. destruct op as [i|id| |].
    + pose proof (count_by_idx_step vs H3 H4 H5 k c i Hi) as Hs.
      destruct (count_by_idx k i) as [[k1 b]|]; [|discriminate].
      rewrite snd_let in Hr. destruct Hs as [_ [_ Hi1]]. exact (IH k1 _ k' Hi1 Hr).
    + unfold count in Hr. pose proof Hi as [Hv _]. rewrite Hv in Hr.
      pose proof (count_by_idx_step vs H3 H4 H5 k c (get_idx vs id) Hi) as Hs.
      destruct (count_by_idx k (get_idx vs id)) as [[k1 b]|]; [|discriminate].
      rewrite snd_let in Hr. destruct Hs as [_ [_ Hi1]]. exact (IH k1 _ k' Hi1 Hr).
    + rewrite snd_let in Hr. exact (IH k c k' Hi Hr).
    + rewrite snd_let in Hr. exact (IH k c k' Hi Hr).
Qed.

Theorem counter_reachable_inv ops vs cops k : weights_fit ops -> build ops = Some vs ->
  snd (run_counter (new_counter vs) cops) = Some k -> exists c, cinv vs k c.
Proof.
  intros Hf Hb Hr. destruct (build_counter_hyps ops vs Hf Hb) as [_ [_ [H3 [H4 H5]]]].
  apply (run_counter_inv vs H3 H4 H5 cops (new_counter vs) [] k); [|exact Hr].
  apply cinv_new; assumption.
Qed.
