(* C22, snapshot clause: over the mutable-object model (model/FlushableHeap.v), a snapshot made by
   GetSnapshot as coded reads, after ANY later puts, deletes, flushes, drops, parent writes and
   further snapshots, exactly what the store read when the snapshot was taken; the two wrong
   variants (shared tree object, live parent) are refuted by concrete histories. *)
From Coq Require Import NArith List Lia Bool Arith.
From LV Require Import lib.Bytes lib.SortedMap spec.KvSpec spec.KvOps model.PrefixRange model.Flushable
  model.FlushableHeap proofs.FlushableIter.
Import ListNotations.

Lemma nth_set_nth_other {A} (x d : A) : forall j i l, j <> i -> nth i (set_nth j x d l) d = nth i l d.
Proof.
  induction j as [|j IH]; intros [|i] [|y l] H; cbn; auto; try congruence.
  - destruct i; reflexivity.
  - rewrite IH by congruence. destruct i; reflexivity.
Qed.

Lemma set_nth_length {A} (x d : A) : forall j l, (length l <= length (set_nth j x d l))%nat.
Proof.
  induction j as [|j IH]; intros [|y l]; cbn; try lia.
  - specialize (IH l). lia.
Qed.

(* one later operation leaves every OTHER tree object and every engine snapshot alone *)
Lemma hstep_frame t H o : forall i j, i <> t ->
  (i < length (h_trees H))%nat -> (j < length (h_snaps H))%nat ->
  tree_at (hstep t H o) i = tree_at H i /\ nth j (h_snaps (hstep t H o)) [] = nth j (h_snaps H) [] /\
  (length (h_trees H) <= length (h_trees (hstep t H o)))%nat /\
  (length (h_snaps H) <= length (h_snaps (hstep t H o)))%nat.
Proof.
  intros i j Hi Li Lj. unfold tree_at.
  destruct o; cbn; repeat split; auto;
    try (rewrite nth_set_nth_other by congruence; reflexivity);
    try apply set_nth_length; try lia.
  - rewrite app_nth1 by lia. reflexivity.
  - rewrite app_nth1 by lia. reflexivity.
  - rewrite app_length. lia.
  - rewrite app_length. lia.
Qed.

Lemma hrun_frame t ops : forall H i j, i <> t ->
  (i < length (h_trees H))%nat -> (j < length (h_snaps H))%nat ->
  tree_at (hrun t H ops) i = tree_at H i /\ nth j (h_snaps (hrun t H ops)) [] = nth j (h_snaps H) [].
Proof.
  unfold hrun. induction ops as [|o ops IH]; intros H i j Hi Li Lj; [split; reflexivity|].
  cbn [fold_left].
  destruct (hstep_frame t H o i j Hi Li Lj) as (E1 & E2 & L1 & L2).
  destruct (IH (hstep t H o) i j Hi ltac:(lia) ltac:(lia)) as [E3 E4].
  split; congruence.
Qed.

(* what the flushable itself reads at a heap state *)
Definition store_get (t : nat) (H : heap) (k : key) : option val :=
  flu_get (tree_at H t) (sm_get (h_cur H)) k.
Definition store_iter (t : nat) (H : heap) (p s : okey) : list (key * val) :=
  flu_iterate (tree_at H t) (kv_iterate (h_cur H) (ob p) (ob s)) p s.

Theorem snapshot_is_immutable t H ops : (t < length (h_trees H))%nat ->
  let '(H1, sn) := get_snapshot t H in
  forall k p s,
    snap_get (hrun t H1 ops) sn k = store_get t H k /\
    snap_iter (hrun t H1 ops) sn p s = store_iter t H p s.
Proof.
  intros Lt. cbn. intros k p s.
  set (H1 := {| h_trees := h_trees H ++ [tree_at H t]; h_cur := h_cur H; h_snaps := h_snaps H ++ [h_cur H] |}).
  assert (Hi : length (h_trees H) <> t) by lia.
  destruct (hrun_frame t ops H1 (length (h_trees H)) (length (h_snaps H)) Hi) as [E1 E2].
  { cbn. rewrite app_length. cbn. lia. }
  { cbn. rewrite app_length. cbn. lia. }
  assert (T : tree_at H1 (length (h_trees H)) = tree_at H t).
  { unfold tree_at, H1. cbn. rewrite app_nth2 by lia. now rewrite Nat.sub_diag. }
  assert (S : nth (length (h_snaps H)) (h_snaps H1) [] = h_cur H).
  { unfold H1. cbn. rewrite app_nth2 by lia. now rewrite Nat.sub_diag. }
  unfold snap_get, snap_iter, snap_parent, store_get, store_iter. cbn [s_tree s_parent].
  rewrite E1, E2, T, S. split; reflexivity.
Qed.

(* the wrong variants *)
Example snapshot_shared_tree_refuted :
  let H := {| h_trees := [[([97%N], Some [1%N])]]; h_cur := []; h_snaps := [] |} in
  let '(H1, sn) := get_snapshot_shared_tree 0 H in
  snap_get (hrun 0 H1 [HPut [98%N] [2%N]]) sn [98%N] <> store_get 0 H [98%N].
Proof. vm_compute. discriminate. Qed.

Example snapshot_live_parent_refuted :   (* visible only after a Flush *)
  let H := {| h_trees := [[([97%N], Some [1%N])]]; h_cur := []; h_snaps := [] |} in
  let '(H1, sn) := get_snapshot_live_parent 0 H in
  snap_get (hrun 0 H1 [HPut [98%N] [2%N]]) sn [98%N] = store_get 0 H [98%N] /\
  snap_get (hrun 0 H1 [HPut [98%N] [2%N]; HFlush]) sn [98%N] <> store_get 0 H [98%N].
Proof. vm_compute. split; [reflexivity|discriminate]. Qed.

(* ---------- the mutable-object model and the run model agree ---------- *)
From LV Require Import model.Table model.KvStack proofs.KvStackReads proofs.KvStackWrites.

Definition heap_abs (e : eng) (t : nat) (H : heap) : st := Flu (tree_at H t) (Eng e (h_cur H)).

Lemma nth_set_nth_same {A} (x d : A) : forall i l, nth i (set_nth i x d l) d = x.
Proof. induction i as [|i IH]; intros [|y l]; cbn; auto. Qed.

Lemma store_get_abs e t H k : store_get t H k = st_get (heap_abs e t H) k.
Proof. reflexivity. Qed.

Lemma heap_abs_step e ideal t H o : (t < length (h_trees H))%nat ->
  heap_abs e t (hstep t H o) =
  match o with
  | HPut k v => st_put (heap_abs e t H) k v
  | HDel k => st_del (heap_abs e t H) k
  | HFlush => st_flush ideal (heap_abs e t H)
  | HDrop => st_drop (heap_abs e t H)
  | HParentPut k v => st_upd 1 (fun u => st_put u k v) (heap_abs e t H)
  | HParentDel k => st_upd 1 (fun u => st_del u k) (heap_abs e t H)
  | HSnapshot => heap_abs e t H
  end.
Proof.
  intros L. unfold heap_abs, tree_at. destruct o; cbn [hstep set_tree h_trees h_cur st_put st_del st_drop st_upd st_flush].
  - now rewrite nth_set_nth_same.
  - now rewrite nth_set_nth_same.
  - rewrite nth_set_nth_same, st_flush_into_write. unfold st_write.
    rewrite map_st_bop_id by reflexivity. reflexivity.
  - now rewrite nth_set_nth_same.
  - reflexivity.
  - reflexivity.
  - cbn. now rewrite app_nth1 by lia.
Qed.

(* the snapshot object reads what the run model's snapshot VALUE (a copy of the state) reads *)
Corollary snapshot_matches_run_model e t H ops k : (t < length (h_trees H))%nat ->
  snap_get (hrun t (fst (get_snapshot t H)) ops) (snd (get_snapshot t H)) k = st_get (heap_abs e t H) k.
Proof.
  intros L. pose proof (snapshot_is_immutable t H ops L) as S. cbn in S.
  destruct (S k None None) as [E _]. exact E.
Qed.
