(* C28 — ordered acquisition excludes deadlock. *)
From Coq Require Import List Arith Lia.
From LV Require Import model.Lin model.LinMulti.
Import ListNotations.

Section Locks.
  Variable lock : Type.
  Variable rank : lock -> nat.
  Notation lconfig := (lconfig lock).
  Notation ordered := (ordered lock rank).
  Notation deadlocked := (deadlocked lock).

  Lemma list_max : forall (f : tid -> nat) (D : list tid), D <> [] ->
    exists t0, In t0 D /\ forall t, In t D -> f t <= f t0.
  Proof.
    intros f D; induction D as [|x D IH]; intro Hne; [congruence|].
    destruct D as [|y D'].
    - exists x; split; [now left|]. intros t [->|[]]; lia.
    - destruct IH as [t0 [Hin Hmax]]; [discriminate|].
      destruct (le_lt_dec (f x) (f t0)) as [Hle|Hgt].
      + exists t0; split; [now right|]. intros t [->|Ht]; auto.
      + exists x; split; [now left|]. intros t [->|Ht]; [lia|]. specialize (Hmax t Ht). lia.
  Qed.

  (* the combinatorial core: with ordered acquisition there is no cycle of waiting threads *)
  Theorem ordered_not_deadlocked : forall c : lconfig, ordered c -> ~ deadlocked c.
  Proof.
    intros c Hord [D [Hne Hall]].
    set (f := fun t => match lwants lock c t with Some (m, _) => rank m | None => 0 end).
    destruct (list_max f D Hne) as [t0 [Hin Hmax]].
    destruct (Hall t0 Hin) as [m [md [t' [Hw [Hin' [Hneq [md' [Hheld _]]]]]]]].
    destruct (Hall t' Hin') as [m2 [md2 [_ [Hw2 _]]]].
    pose proof (Hord t' m2 md2 Hw2 m md' Hheld) as Hlt.
    pose proof (Hmax t' Hin') as Hle. unfold f in Hle. rewrite Hw, Hw2 in Hle. lia.
  Qed.

  Lemma fupd_same : forall A (g : tid -> A) t v, fupd g t v t = v.
  Proof. intros; unfold fupd; now rewrite Nat.eqb_refl. Qed.
  Lemma fupd_other : forall A (g : tid -> A) t v t', t' <> t -> fupd g t v t' = g t'.
  Proof. intros A g t v t' H; unfold fupd. apply Nat.eqb_neq in H. now rewrite H. Qed.

  (* the discipline is an invariant of the machine *)
  Lemma reach_ordered : forall c, lreach lock rank c -> ordered c.
  Proof.
    intros c H; induction H as [|c a c' Hr IH Hs].
    - intros t m md Hw; discriminate.
    - destruct Hs as [c t m md Hnone Hrank | c t m md Hw Hfree | c t h' Hnone Hincl];
        intros t1 m1 md1 Hw1 m' md' Hin; simpl in *.
      + destruct (Nat.eq_dec t1 t) as [->|Hne].
        * rewrite fupd_same in Hw1. inversion Hw1; subst. eauto.
        * rewrite fupd_other in Hw1 by assumption. eapply IH; eauto.
      + destruct (Nat.eq_dec t1 t) as [->|Hne].
        * rewrite fupd_same in Hw1. discriminate.
        * rewrite fupd_other in Hw1, Hin by assumption. eapply IH; eauto.
      + destruct (Nat.eq_dec t1 t) as [->|Hne].
        * congruence.
        * rewrite fupd_other in Hin by assumption. eapply IH; eauto.
  Qed.

  Theorem ordered_locks_no_deadlock : forall c, lreach lock rank c -> ~ deadlocked c.
  Proof. intros c H. apply ordered_not_deadlocked. now apply reach_ordered. Qed.
End Locks.

(* ---- lock INSTANCES: class and wrapping depth.
   Objects of one class can be stacked (a Flushable whose parent is a Flushable: memorydb over devnull, vecengine
   over that, the stores of a SyncedPool): the wrapper's lock is taken first, the parent's inside it.  With the
   ASSUMPTION that wrapping is acyclic and at most D deep, rank = class * D + depth increases along both kinds of
   pairs lockscan reports: (class a, class b) with a < b, and (class c, the same class one level deeper). *)
Definition inst_rank (D class_rank depth : nat) : nat := class_rank * D + depth.

Lemma inst_rank_class : forall D ca cb da db, ca < cb -> da < D -> inst_rank D ca da < inst_rank D cb db.
Proof. intros D ca cb da db Hc Hd. unfold inst_rank. nia. Qed.
Lemma inst_rank_depth : forall D c d, inst_rank D c d < inst_rank D c (S d).
Proof. intros; unfold inst_rank; lia. Qed.

(* non-vacuity with contention: thread 1 holds the parent store's lock; thread 0 holds the wrapper's lock and
   waits for the parent's.  Reachable, ordered, hence not deadlocked. *)
Definition sf_rank (m : nat * nat) : nat := inst_rank 10 (fst m) (snd m).
Definition sf_c1 : lconfig (nat * nat) := mklc _ (fun _ => []) (fupd (fun _ => None) 1 (Some ((4, 1), MExcl))).
Definition sf_c2 : lconfig (nat * nat) := mklc _ (fupd (lheld _ sf_c1) 1 [((4, 1), MExcl)]) (fupd (lwants _ sf_c1) 1 None).
Definition sf_c3 : lconfig (nat * nat) := mklc _ (lheld _ sf_c2) (fupd (lwants _ sf_c2) 0 (Some ((4, 0), MExcl))).
Definition sf_c4 : lconfig (nat * nat) := mklc _ (fupd (lheld _ sf_c3) 0 [((4, 0), MExcl)]) (fupd (lwants _ sf_c3) 0 None).
Definition sf_c5 : lconfig (nat * nat) := mklc _ (lheld _ sf_c4) (fupd (lwants _ sf_c4) 0 (Some ((4, 1), MExcl))).

Lemma sf_reach : lreach (nat * nat) sf_rank sf_c5.
Proof.
  assert (R1 : lreach _ sf_rank sf_c1).
  { apply lr_step with (c := (linit _)) (a := LWant _ 1 (4, 1) MExcl); [apply lr_init|].
    apply (ls_want _ sf_rank (linit _) 1 (4, 1) MExcl); [reflexivity|intros m' md' []]. }
  assert (R2 : lreach _ sf_rank sf_c2).
  { apply lr_step with (c := sf_c1) (a := LGrant _ 1); [exact R1|].
    apply (ls_grant _ sf_rank sf_c1 1 (4, 1) MExcl); [reflexivity|].
    intros t' Hne [md' [H _]]. simpl in H. contradiction. }
  assert (R3 : lreach _ sf_rank sf_c3).
  { apply lr_step with (c := sf_c2) (a := LWant _ 0 (4, 0) MExcl); [exact R2|].
    apply (ls_want _ sf_rank sf_c2 0 (4, 0) MExcl); [reflexivity|intros m' md' []]. }
  assert (R4 : lreach _ sf_rank sf_c4).
  { apply lr_step with (c := sf_c3) (a := LGrant _ 0); [exact R3|].
    apply (ls_grant _ sf_rank sf_c3 0 (4, 0) MExcl); [reflexivity|].
    intros t' Hne [md' [H _]]. simpl in H. unfold fupd in H.
    destruct t' as [|[|t']]; simpl in H; try contradiction.
    destruct H as [H|[]]. inversion H. }
  apply lr_step with (c := sf_c4) (a := LWant _ 0 (4, 1) MExcl); [exact R4|].
  apply (ls_want _ sf_rank sf_c4 0 (4, 1) MExcl); [reflexivity|].
  intros m' md' H. simpl in H. unfold fupd in H. simpl in H. destruct H as [H|[]]. inversion H; subst.
  unfold sf_rank, inst_rank; simpl; lia.
Qed.

Example stacked_flushables_contention :
  lreach (nat * nat) sf_rank sf_c5 /\
  lwants _ sf_c5 0 = Some ((4, 1), MExcl) /\ In ((4, 1), MExcl) (lheld _ sf_c5 1) /\
  In ((4, 0), MExcl) (lheld _ sf_c5 0) /\ ~ deadlocked (nat * nat) sf_c5.
Proof.
  split; [exact sf_reach|]. split; [reflexivity|]. split; [now left|]. split; [now left|].
  exact (ordered_locks_no_deadlock _ sf_rank sf_c5 sf_reach).
Qed.
