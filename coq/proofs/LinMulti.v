(* C28 — ordered acquisition excludes deadlock. *)
From Coq Require Import List Arith Lia.
From LV Require Import model.Lin model.LinMulti.
Import ListNotations.

Section Locks.
  Variable lock : Type.
  Variable rank : lock -> nat.
  Notation lconfig := (lconfig lock).
  Notation ordered := (ordered lock rank).
  Notation deadlocked := (deadlocked lock).

  Lemma list_max : forall (f : tid -> nat) (D : list tid), D <> [] ->
    exists t0, In t0 D /\ forall t, In t D -> f t <= f t0.
  Proof.
    intros f D; induction D as [|x D IH]; intro Hne; [congruence|].
    destruct D as [|y D'].
    - exists x; split; [now left|]. intros t [->|[]]; lia.
    - destruct IH as [t0 [Hin Hmax]]; [discriminate|].
      destruct (le_lt_dec (f x) (f t0)) as [Hle|Hgt].
      + exists t0; split; [now right|]. intros t [->|Ht]; auto.
      + exists x; split; [now left|]. intros t [->|Ht]; [lia|]. specialize (Hmax t Ht). lia.
  Qed.

  (* the combinatorial core: with ordered acquisition there is no cycle of waiting threads *)
  Theorem ordered_not_deadlocked : forall c : lconfig, ordered c -> ~ deadlocked c.
  Proof.
    intros c Hord [D [Hne Hall]].
    set (f := fun t => match lwants lock c t with Some (m, _) => rank m | None => 0 end).
    destruct (list_max f D Hne) as [t0 [Hin Hmax]].
    destruct (Hall t0 Hin) as [m [md [t' [Hw [Hin' [Hneq [md' [Hheld _]]]]]]]].
    destruct (Hall t' Hin') as [m2 [md2 [_ [Hw2 _]]]].
    pose proof (Hord t' m2 md2 Hw2 m md' Hheld) as Hlt.
    pose proof (Hmax t' Hin') as Hle. unfold f in Hle. rewrite Hw, Hw2 in Hle. lia.
  Qed.

  Lemma fupd_same : forall A (g : tid -> A) t v, fupd g t v t = v.
  Proof. intros; unfold fupd; now rewrite Nat.eqb_refl. Qed.
  Lemma fupd_other : forall A (g : tid -> A) t v t', t' <> t -> fupd g t v t' = g t'.
  Proof. intros A g t v t' H; unfold fupd. apply Nat.eqb_neq in H. now rewrite H. Qed.

  (* the discipline is an invariant of the machine *)
  Lemma reach_ordered : forall c, lreach lock rank c -> ordered c.
  Proof.
    intros c H; induction H as [|c a c' Hr IH Hs].
    - intros t m md Hw; discriminate.
    - destruct Hs as [c t m md Hnone Hrank | c t m md Hw Hfree | c t h' Hnone Hincl];
        intros t1 m1 md1 Hw1 m' md' Hin; simpl in *.
      + destruct (Nat.eq_dec t1 t) as [->|Hne].
        * rewrite fupd_same in Hw1. inversion Hw1; subst. eauto.
        * rewrite fupd_other in Hw1 by assumption. eapply IH; eauto.
      + destruct (Nat.eq_dec t1 t) as [->|Hne].
        * rewrite fupd_same in Hw1. discriminate.
        * rewrite fupd_other in Hw1, Hin by assumption. eapply IH; eauto.
      + destruct (Nat.eq_dec t1 t) as [->|Hne].
        * congruence.
        * rewrite fupd_other in Hin by assumption. eapply IH; eauto.
  Qed.

  Theorem ordered_locks_no_deadlock : forall c, lreach lock rank c -> ~ deadlocked c.
  Proof. intros c H. apply ordered_not_deadlocked. now apply reach_ordered. Qed.
End Locks.
