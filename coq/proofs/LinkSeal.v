(* The reference's treatment of one epoch with a sealing frame (spec/ElectionSpec.v: reference_epochs =
   reference on the whole epoch, seal_cut, seal_point by bisection), characterised through the tables of
   the prefixes of the event sequence: either no prefix decides the sealing frame, or there is a least
   prefix length m that does — then the blocks are those of that prefix up to the sealing frame and the
   events after position m are "not fed" (code 7). *)
From Coq Require Import NArith ZArith List Lia Bool ZifyBool ZifyN ZifyNat.
From LV Require Import model.VecIndex spec.ElectionSpec lib.WSumBft
  proofs.BftCore proofs.BftElection proofs.BftMono proofs.BftGraph proofs.BftMain proofs.BftRun proofs.BftAccept proofs.BftProps.
Import ListNotations.
Local Open Scope N_scope.

(* one element of reference_epochs *)
Definition ref_epoch (seal : N) (vals : list (N * N)) (D : list fev) : list (N * N) * list (N * N * list N) * bool :=
  let '(rs, bs) := reference vals D in
  let '(bs', sealed) := seal_cut seal bs in
  let rs' := if sealed then let m := seal_point (length D) vals seal D 0 (length D) in
                            firstn m rs ++ repeat (7, 0) (length D - m)
             else rs in
  (rs', bs', sealed).

Lemma reference_epochs_cons seal pol vals epoch D rest :
  reference_epochs seal pol vals epoch (D :: rest) =
  ref_epoch seal vals D :: (if snd (ref_epoch seal vals D) then reference_epochs seal pol (next_vals pol vals epoch) (epoch + 1) rest else []).
Proof.
  cbn [reference_epochs]. unfold ref_epoch. destruct (reference vals D) as [rs bs]. destruct (seal_cut seal bs) as [bs' sealed].
  cbn [snd]. reflexivity.
Qed.

Lemma in_firstn {A} (l : list A) : forall n x, In x (firstn n l) -> In x l.
Proof.
  induction l as [|a t IH]; intros n x H; [destruct n; destruct H|]. destruct n as [|n]; [destruct H|].
  cbn [firstn] in H. destruct H as [H|H]; [left; exact H | right; eapply IH; exact H].
Qed.
Lemma firstn_incl_le {A} (l : list A) : forall m j, (m <= j)%nat -> incl (firstn m l) (firstn j l).
Proof.
  induction l as [|a t IH]; intros m j H x Hx; [destruct m; destruct Hx|].
  destruct m as [|m]; [destruct Hx|]. destruct j as [|j]; [lia|]. cbn [firstn] in *.
  destruct Hx as [Hx|Hx]; [left; exact Hx | right; eapply IH; [|exact Hx]; lia].
Qed.

Definition sealb (seal f : N) : bool := (f =? seal) && negb (seal =? 0).

Lemma seal_cut_miss {A} seal (bs : list (N * N * A)) : (forall b, In b bs -> sealb seal (fst (fst b)) = false) ->
  seal_cut seal bs = (bs, false).
Proof.
  induction bs as [|b t IH]; intros H; cbn [seal_cut]; [reflexivity|].
  pose proof (H b (or_introl eq_refl)) as Hb. unfold sealb in Hb. rewrite Hb.
  rewrite IH by (intros x Hx; apply H; right; exact Hx). reflexivity.
Qed.
Lemma seal_cut_hit {A} seal (B0 : list (N * N * A)) b rest : (forall x, In x B0 -> sealb seal (fst (fst x)) = false) ->
  sealb seal (fst (fst b)) = true -> seal_cut seal (B0 ++ b :: rest) = (B0 ++ [b], true).
Proof.
  intros H0 Hb. induction B0 as [|x t IH]; cbn [app seal_cut].
  - unfold sealb in Hb. rewrite Hb. reflexivity.
  - pose proof (H0 x (or_introl eq_refl)) as Hx. unfold sealb in Hx. rewrite Hx.
    rewrite IH by (intros y Hy; apply H0; right; exact Hy). reflexivity.
Qed.

Section Seal.
Variable vals : list (N * N).
Variable seal : N.

Lemma add_events_app D1 : forall T D2,
  add_events vals T (D1 ++ D2) =
  (fst (add_events vals (fst (add_events vals T D1)) D2), snd (add_events vals T D1) ++ snd (add_events vals (fst (add_events vals T D1)) D2)).
Proof.
  induction D1 as [|e D1 IH]; intros T D2; cbn [app add_events fst snd].
  - destruct (add_events vals T D2); reflexivity.
  - destruct (add_event vals T e) as [T1 r]. rewrite IH.
    destruct (add_events vals T1 D1) as [T2 rs]. cbn [fst snd].
    destruct (add_events vals T2 D2) as [T3 rs2]. reflexivity.
Qed.
Lemma add_event_incl T e : incl T (fst (add_event vals T e)).
Proof.
  unfold add_event. destruct (_ || _ || _); [apply incl_refl|].
  destruct (negb (ev_wf_b T e)); [apply incl_refl|].
  destruct (r_frame_ok vals T (mk_node (length vals) T e)); cbn [fst]; [intros x Hx; right; exact Hx | apply incl_refl].
Qed.
Lemma add_events_incl D : forall T, incl T (fst (add_events vals T D)).
Proof.
  induction D as [|e D IH]; intros T; cbn [add_events]; [apply incl_refl|].
  pose proof (add_event_incl T e) as H1. destruct (add_event vals T e) as [T1 r]. cbn [fst] in H1.
  pose proof (IH T1) as H2. destruct (add_events vals T1 D) as [T2 rs]. cbn [fst] in *.
  intros x Hx. apply H2, H1, Hx.
Qed.

Lemma firstn_facts D j : (j <= length D)%nat -> all_accepted vals D ->
  all_accepted vals (firstn j D) /\ incl (table vals (firstn j D)) (table vals D) /\
  snd (add_events vals [] (firstn j D)) = firstn j (snd (add_events vals [] D)) /\ incl (firstn j D) D.
Proof.
  intros Hj Hacc. unfold all_accepted, table in *.
  rewrite <- (firstn_skipn j D) in Hacc at 1. rewrite add_events_app in Hacc. cbn [snd] in Hacc.
  assert (E : snd (add_events vals [] D) = snd (add_events vals [] (firstn j D)) ++ snd (add_events vals (fst (add_events vals [] (firstn j D))) (skipn j D))).
  { rewrite <- (firstn_skipn j D) at 1. rewrite add_events_app. reflexivity. }
  assert (Len : forall D0 T, length (snd (add_events vals T D0)) = length D0).
  { induction D0 as [|e D0 IH]; intros T; cbn [add_events]; [reflexivity|].
    destruct (add_event vals T e) as [T1 r]. specialize (IH T1). destruct (add_events vals T1 D0). cbn [snd length] in *. lia. }
  split; [intros r Hr; apply Hacc; apply in_or_app; left; exact Hr|].
  split.
  - rewrite <- (firstn_skipn j D) at 2. rewrite add_events_app. cbn [fst]. apply add_events_incl.
  - split; [|intros x Hx; eapply in_firstn; exact Hx].
    rewrite E. rewrite firstn_app. rewrite Len, firstn_length_le by exact Hj. rewrite Nat.sub_diag. cbn [firstn].
    rewrite app_nil_r. symmetry. apply firstn_all2. rewrite Len, firstn_length_le by exact Hj. lia.
Qed.

(* ---------- the bisection ---------- *)
Lemma seal_point_spec D m : (forall j, (j < m)%nat -> reaches vals seal (firstn j D) = false) ->
  (forall j, (m <= j <= length D)%nat -> reaches vals seal (firstn j D) = true) ->
  forall fuel lo hi, (lo < m <= hi)%nat -> (hi <= length D)%nat -> (hi - lo <= fuel + 1)%nat ->
  seal_point fuel vals seal D lo hi = m.
Proof.
  intros Hlo Hhi. induction fuel as [|fu IH]; intros lo hi Hm Hh Hf; cbn [seal_point]; [lia|].
  destruct (Nat.leb hi (S lo)) eqn:E; [apply Nat.leb_le in E; lia|]. apply Nat.leb_gt in E.
  assert (Hmid : (lo < Nat.div2 (lo + hi) < hi)%nat).
  { pose proof (Nat.div2_odd (lo + hi)) as Ho. destruct (Nat.odd (lo + hi)); cbn [Nat.b2n] in Ho; lia. }
  destruct (reaches vals seal (firstn (Nat.div2 (lo + hi)) D)) eqn:R.
  - apply IH; [|lia|lia]. split; [lia|]. destruct (Nat.le_gt_cases m (Nat.div2 (lo + hi))) as [L|L]; [exact L|].
    rewrite (Hlo _ L) in R. discriminate.
  - apply IH; [|lia|lia]. split; [|lia]. destruct (Nat.le_gt_cases m (Nat.div2 (lo + hi))) as [L|L]; [|exact L].
    rewrite (Hhi (Nat.div2 (lo + hi)) ltac:(lia)) in R. discriminate.
Qed.

Lemma reference_blocks' D : snd (reference vals D) =
  map (fun b => (fst b, snd b, cheaters_of vals (table vals D) (snd b))) (r_blocks vals (table vals D)).
Proof. apply reference_blocks. Qed.

(* ---------- the epoch does not reach the sealing frame ---------- *)
Lemma ref_epoch_unsealed D : (forall b, In b (r_blocks vals (table vals D)) -> sealb seal (fst b) = false) ->
  ref_epoch seal vals D = (fst (reference vals D), snd (reference vals D), false).
Proof.
  intros H. unfold ref_epoch. destruct (reference vals D) as [rs bs] eqn:ER.
  assert (Eb : bs = snd (reference vals D)) by (rewrite ER; reflexivity). rewrite reference_blocks' in Eb.
  rewrite (seal_cut_miss seal bs); [reflexivity|].
  intros b Hb. rewrite Eb in Hb. apply in_map_iff in Hb as [b0 [<- Hb0]]. cbn [fst]. apply H. exact Hb0.
Qed.

(* ---------- the prefix of length m is the first one that decides the sealing frame ---------- *)
Lemma ref_epoch_sealed D m B0 b rest : all_accepted vals D -> few_forkers vals (table vals D) -> (1 <= m <= length D)%nat ->
  (forall j, (j < m)%nat -> forall x, In x (r_blocks vals (table vals (firstn j D))) -> sealb seal (fst x) = false) ->
  snd (reference vals (firstn m D)) = B0 ++ b :: rest ->
  (forall x, In x B0 -> sealb seal (fst (fst x)) = false) -> sealb seal (fst (fst b)) = true ->
  ref_epoch seal vals D = (firstn m (fst (reference vals D)) ++ repeat (7, 0) (length D - m), B0 ++ [b], true).
Proof.
  intros Hacc Hff Hm Hun Em H0 Hb.
  assert (Cm : seal_cut seal (snd (reference vals (firstn m D))) = (B0 ++ [b], true)) by (rewrite Em; apply seal_cut_hit; assumption).
  (* monotonicity: every longer prefix reaches the sealing frame with the same cut *)
  assert (Mono : forall j, (m <= j <= length D)%nat -> seal_cut seal (snd (reference vals (firstn j D))) = (B0 ++ [b], true)).
  { intros j Hj. rewrite <- Cm.
    destruct (firstn_facts D j ltac:(lia) Hacc) as [Aj [Ij [_ Sj]]]. destruct (firstn_facts D m ltac:(lia) Hacc) as [Am _].
    apply seal_cut_prefix; [|rewrite Cm; reflexivity].
    apply (reference_prefix vals (firstn m D) (firstn j D) Am Aj).
    - apply firstn_incl_le. lia.
    - eapply few_forkers_sub; [exact Ij | exact Hff]. }
  assert (Rlo : forall j, (j < m)%nat -> reaches vals seal (firstn j D) = false).
  { intros j Hj. unfold reaches. rewrite reference_blocks'. rewrite seal_cut_miss; [reflexivity|].
    intros x Hx. apply in_map_iff in Hx as [x0 [<- Hx0]]. cbn [fst]. apply (Hun j Hj). exact Hx0. }
  assert (Rhi : forall j, (m <= j <= length D)%nat -> reaches vals seal (firstn j D) = true).
  { intros j Hj. unfold reaches. rewrite (Mono j Hj). reflexivity. }
  unfold ref_epoch. destruct (reference vals D) as [rs bs] eqn:ER. cbn [fst].
  pose proof (Mono (length D) ltac:(lia)) as CD. rewrite firstn_all, ER in CD. cbn [snd] in CD. rewrite CD.
  rewrite (seal_point_spec D m Rlo Rhi (length D) 0 (length D)) by lia. reflexivity.
Qed.
End Seal.
