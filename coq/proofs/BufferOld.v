(* C14: the code as found on the pinned tree (stale snapshot, released children re-pushed)
   violates T2.  Witness of DESIGN §6 #2: e = 1, c2 = 2 {1}, c = 3 {1,2}; push c2, c, e with
   Process(c) failing.  Copy 1 (event 3) is processed, released with error 3, and processed
   again.  With the repair the second Process disappears. *)
From Coq Require Import NArith List Bool.
From LV Require Import model.Buffer spec.BufferSpec.
Import ListNotations.
Local Open Scope N_scope.

Definition c14_witness : list op :=
  [OpPush 2 [1] 1; OpPush 3 [1; 2] 1; OpPush 1 [] 1; OpClear].
Definition big : N := 4000000000.

Example C14_T2_old_refuted :
  rev (log (run_tbl false [] [(3, 0)] big big c14_witness)) =
  [ OPushed 0 false 1 1; OPushed 1 false 2 2;
    OCheck 2 1 true; OProcess 2 1 true; OReleased 2 1 0;
    OCheck 0 2 true; OProcess 0 2 true; OReleased 0 2 0;
    OCheck 1 3 true; OProcess 1 3 false; OReleased 1 3 3;
    OCheck 1 3 true; OProcess 1 3 false;          (* <- second Process of copy 1, after its Released *)
    OPushed 2 true 0 0; OCleared 0 0 ]
  /\ t2_walk [] [] (rev (log (run_tbl false [] [(3, 0)] big big c14_witness))) = false.
Proof. split; vm_compute; reflexivity. Qed.

(* worse: if the second call succeeds, the event is connected although Released reported an error *)
Example C14_T2_old_refuted_connects :
  existsb (fun o => match o with OProcess 1 3 true => true | _ => false end)
          (log (run_tbl false [] [(3, 1)] big big c14_witness)) = true
  /\ existsb (fun o => match o with OReleased 1 3 3 => true | _ => false end)
          (log (run_tbl false [] [(3, 1)] big big c14_witness)) = true.
Proof. split; vm_compute; reflexivity. Qed.

Example C14_witness_fixed_ok :
  c14_check big big c14_witness (rev (log (run_tbl true [] [(3, 0)] big big c14_witness))) = true.
Proof. vm_compute; reflexivity. Qed.
