(* Towards removing the side condition "the validator list is in canonical form" of L1.
   Part 1: a permutation [ord] of 0..n-1 (the reference's canon_order), its inverse [pos], and the
           invariance of the reference's weighted sums under it.
   Part 2: sorting.  For a validator list without duplicate ids and without zero weights,
           mk_vals vals (ValidatorsBuilder.Set ...; Build: the code's canonical order) is the list
           re-arranged by the reference's canon_order, and it is in canonical form. *)
From Coq Require Import NArith ZArith List Lia Bool ZifyBool ZifyN ZifyNat Permutation.
From LV Require Import model.VecIndex model.Abft spec.ElectionSpec lib.WSumBft
  proofs.AbftInvLemmas proofs.BftElection proofs.BftMain proofs.LinkVals.
Import ListNotations.
Local Open Scope N_scope.

(* ================= Part 1 ================= *)
Fixpoint index_of (v : nat) (l : list nat) : nat :=
  match l with [] => 0%nat | x :: t => if Nat.eqb x v then 0%nat else S (index_of v t) end.

Lemma index_of_lt v l : In v l -> (index_of v l < length l)%nat.
Proof.
  induction l as [|x t IH]; intros H; [destruct H|]. cbn [index_of length].
  destruct (Nat.eqb_spec x v); [lia|]. destruct H as [H|H]; [contradiction|]. specialize (IH H). lia.
Qed.
Lemma index_of_absent v l : ~ In v l -> index_of v l = length l.
Proof.
  induction l as [|x t IH]; intros H; [reflexivity|]. cbn [index_of length].
  destruct (Nat.eqb_spec x v) as [->|NE]; [exfalso; apply H; left; reflexivity|].
  rewrite IH; [reflexivity|]. intros Hin. apply H. right. exact Hin.
Qed.
Lemma nth_index_of v l : In v l -> nth (index_of v l) l 0%nat = v.
Proof.
  induction l as [|x t IH]; intros H; [destruct H|]. cbn [index_of].
  destruct (Nat.eqb_spec x v) as [->|NE]; [reflexivity|]. cbn [nth]. destruct H as [H|H]; [contradiction|]. auto.
Qed.
Lemma index_of_nth j l : NoDup l -> (j < length l)%nat -> index_of (nth j l 0%nat) l = j.
Proof.
  revert j. induction l as [|x t IH]; intros j ND Hj; cbn [length] in Hj; [lia|].
  apply NoDup_cons_iff in ND as [Hn ND]. destruct j as [|j]; cbn [nth index_of].
  - rewrite Nat.eqb_refl. reflexivity.
  - destruct (Nat.eqb_spec x (nth j t 0%nat)) as [E|NE].
    + exfalso. apply Hn. rewrite E. apply nth_In. lia.
    + rewrite IH; [reflexivity | exact ND | lia].
Qed.

Definition sumf (f : nat -> N) (l : list nat) : N := fold_right (fun i acc => f i + acc) 0 l.
Lemma sumf_perm f l1 l2 : Permutation l1 l2 -> sumf f l1 = sumf f l2.
Proof.
  induction 1 as [|x l l' _ IH|x y l|l l' l'' _ IH1 _ IH2]; unfold sumf in *; cbn [fold_right] in *;
    [reflexivity | rewrite IH; reflexivity | lia | congruence].
Qed.
Lemma sumf_map f (g : nat -> nat) l : sumf f (map g l) = sumf (fun i => f (g i)) l.
Proof. induction l as [|x t IH]; unfold sumf in *; cbn [map fold_right] in *; [reflexivity|]. rewrite IH. reflexivity. Qed.
Lemma sumf_ext f g l : (forall i, In i l -> f i = g i) -> sumf f l = sumf g l.
Proof.
  induction l as [|x t IH]; intros H; unfold sumf in *; cbn [fold_right] in *; [reflexivity|].
  rewrite (H x (or_introl eq_refl)), IH; [reflexivity|]. intros i Hi. apply H. right. exact Hi.
Qed.
Lemma wsl_sumf ws : forall i P, wsl i ws P = sumf (fun j => if P j then nth (j - i) ws 0 else 0) (seq i (length ws)).
Proof.
  induction ws as [|w t IH]; intros i P; unfold sumf; cbn [wsl length seq fold_right]; [reflexivity|].
  rewrite Nat.sub_diag. cbn [nth]. f_equal. rewrite IH. apply sumf_ext. intros j Hj. apply in_seq in Hj.
  replace (j - i)%nat with (S (j - S i)) by lia. reflexivity.
Qed.
Lemma wsP_sumf ws P : wsP ws P = sumf (fun j => if P j then nth j ws 0 else 0) (seq 0 (length ws)).
Proof. rewrite wsP_wsl, wsl_sumf. apply sumf_ext. intros j _. rewrite Nat.sub_0_r. reflexivity. Qed.

Section Perm.
Variable n : nat.
Variable ord : list nat.
Hypothesis Hperm : Permutation ord (seq 0 n).

Definition pos (v : nat) : nat := index_of v ord.
Definition unpos (j : nat) : nat := nth j ord 0%nat.

Lemma ord_len : length ord = n.
Proof. rewrite (Permutation_length Hperm). apply seq_length. Qed.
Lemma ord_nodup : NoDup ord.
Proof. eapply Permutation_NoDup; [symmetry; exact Hperm | apply seq_NoDup]. Qed.
Lemma ord_in v : In v ord <-> (v < n)%nat.
Proof.
  split; intros H.
  - apply (Permutation_in _ Hperm) in H. apply in_seq in H. lia.
  - apply (Permutation_in _ (Permutation_sym Hperm)). apply in_seq. lia.
Qed.
Lemma unpos_lt j : (j < n)%nat -> (unpos j < n)%nat.
Proof. intros H. apply ord_in. apply nth_In. rewrite ord_len. exact H. Qed.
Lemma pos_lt v : (v < n)%nat -> (pos v < n)%nat.
Proof. intros H. unfold pos. rewrite <- ord_len. apply index_of_lt. apply ord_in. exact H. Qed.
Lemma pos_ge v : (n <= v)%nat -> pos v = n.
Proof. intros H. unfold pos. rewrite index_of_absent; [apply ord_len|]. rewrite ord_in. lia. Qed.
Lemma pos_lt_iff v : (pos v < n)%nat <-> (v < n)%nat.
Proof. split; [|apply pos_lt]. intros H. destruct (Nat.lt_ge_cases v n) as [L|L]; [exact L|]. rewrite (pos_ge v L) in H. lia. Qed.
Lemma unpos_pos v : (v < n)%nat -> unpos (pos v) = v.
Proof. intros H. apply nth_index_of. apply ord_in. exact H. Qed.
Lemma pos_unpos j : (j < n)%nat -> pos (unpos j) = j.
Proof. intros H. apply index_of_nth; [apply ord_nodup | rewrite ord_len; exact H]. Qed.
Lemma pos_inj u v : (u < n)%nat -> (v < n)%nat -> pos u = pos v -> u = v.
Proof. intros Hu Hv E. rewrite <- (unpos_pos u Hu), <- (unpos_pos v Hv), E. reflexivity. Qed.
Lemma pos_eq_iff u j : (u < n)%nat -> (j < n)%nat -> (pos u = j <-> u = unpos j).
Proof. intros Hu Hj. split; [intros <-; symmetry; apply unpos_pos; exact Hu | intros ->; apply pos_unpos; exact Hj]. Qed.
Lemma map_unpos_seq : map unpos (seq 0 n) = ord.
Proof.
  apply nth_ext with (d := 0%nat) (d' := 0%nat); [rewrite map_length, seq_length, ord_len; reflexivity|].
  intros j Hj. rewrite map_length, seq_length in Hj.
  rewrite (nth_indep _ 0%nat (unpos 0)) by (rewrite map_length, seq_length; exact Hj).
  rewrite map_nth, seq_nth by exact Hj. reflexivity.
Qed.

(* the weights re-arranged by ord *)
Definition perm_ws (ws : list N) : list N := map (fun j => nth (unpos j) ws 0) (seq 0 n).
Lemma perm_ws_len ws : length (perm_ws ws) = n.
Proof. unfold perm_ws. rewrite map_length, seq_length. reflexivity. Qed.
Lemma perm_ws_nth ws j : (j < n)%nat -> nth j (perm_ws ws) 0 = nth (unpos j) ws 0.
Proof. intros H. unfold perm_ws. apply (nth_map_seq (fun j0 => nth (unpos j0) ws 0) n j 0 H). Qed.

Lemma wsP_perm ws (P Q : nat -> bool) : length ws = n -> (forall j, (j < n)%nat -> Q j = P (unpos j)) ->
  wsP (perm_ws ws) Q = wsP ws P.
Proof.
  intros L HQ. rewrite !wsP_sumf, perm_ws_len, L.
  rewrite (sumf_ext _ (fun j => (fun v => if P v then nth v ws 0 else 0) (unpos j))).
  2:{ intros j Hj. apply in_seq in Hj. rewrite HQ, perm_ws_nth by lia. reflexivity. }
  rewrite <- (sumf_map (fun v => if P v then nth v ws 0 else 0) unpos), map_unpos_seq.
  apply sumf_perm. exact Hperm.
Qed.
Lemma total_perm ws : length ws = n -> total_weight (perm_ws ws) = total_weight ws.
Proof.
  intros L. pose proof (wsP_perm ws (fun _ => true) (fun _ => true) L (fun _ _ => eq_refl)) as H.
  change (wsP ?w (fun _ => true)) with (totalW w) in H. rewrite !totalW_fold in H. exact H.
Qed.
End Perm.

(* ================= Part 2 ================= *)
Lemma vinsert_perm x l : Permutation (vinsert x l) (x :: l).
Proof.
  induction l as [|y t IH]; cbn [vinsert]; [reflexivity|].
  destruct (vbefore x y); [reflexivity|]. rewrite IH. apply perm_swap.
Qed.
Lemma canon_order_perm vals : Permutation (canon_order vals) (seq 0 (length vals)).
Proof.
  unfold canon_order.
  assert (P : forall l : list (nat * (N * N)), Permutation (fold_right vinsert [] l) l).
  { induction l as [|z l IHl]; cbn [fold_right]; [reflexivity|]. rewrite vinsert_perm. constructor. exact IHl. }
  rewrite (Permutation_map fst (P _)).
  assert (G : forall (l : list (N * N)) s, map fst (combine (seq s (length l)) l) = seq s (length l)).
  { induction l as [|a t IH]; intros s; cbn [length seq combine map fst]; [reflexivity|]. f_equal. apply IH. }
  rewrite G. reflexivity.
Qed.

Definition vsort (l : vals) : vals := fold_right v_insert [] l.

Lemma map_snd_vinsert x l : map snd (vinsert x l) = v_insert (snd x) (map snd l).
Proof.
  induction l as [|y t IH]; cbn [vinsert map v_insert]; [reflexivity|].
  unfold vbefore, val_lt. destruct (snd (snd x) =? snd (snd y)); (destruct (_ <? _); cbn [map]; [reflexivity | rewrite IH; reflexivity]).
Qed.
(* the list re-arranged by canon_order is the insertion sort of the list *)
Lemma canon_arrange vals : map (fun i => nth i vals (0, 0)) (canon_order vals) = vsort vals.
Proof.
  unfold canon_order, vsort.
  assert (G : forall (l : list (nat * (N * N))), (forall p, In p l -> snd p = nth (fst p) vals (0, 0)) ->
            map (fun i => nth i vals (0, 0)) (map fst (fold_right vinsert [] l)) = fold_right v_insert [] (map snd l)).
  { intros l Hl. rewrite map_map.
    assert (S : forall p, In p (fold_right vinsert [] l) -> snd p = nth (fst p) vals (0, 0)).
    { intros p Hp. apply Hl. clear Hl. revert Hp. induction l as [|z l IH]; cbn [fold_right]; [auto|].
      intros Hp. apply vinsert_in in Hp as [->|Hp]; [left; reflexivity | right; auto]. }
    rewrite (map_ext_in _ snd) by (intros p Hp; symmetry; apply S; exact Hp).
    clear. induction l as [|z l IH]; cbn [fold_right map]; [reflexivity|]. rewrite map_snd_vinsert, IH. reflexivity. }
  rewrite G.
  - f_equal. clear. generalize 0%nat. induction vals as [|a t IH]; intros s; cbn [length seq combine map snd]; [reflexivity|]. f_equal. apply IH.
  - intros [i p] Hp. cbn [fst snd].
    assert (Gn : forall (l : list (N * N)) s i p, In (i, p) (combine (seq s (length l)) l) -> p = nth (i - s) l (0, 0) /\ (s <= i)%nat).
    { induction l as [|a t IH]; intros s i0 p0 H; cbn [length seq combine] in H; [destruct H|].
      destruct H as [H|H]; [inversion H; subst; rewrite Nat.sub_diag; split; [reflexivity | lia]|].
      destruct (IH _ _ _ H) as [E L]. split; [|lia]. replace (i0 - s)%nat with (S (i0 - S s)) by lia. exact E. }
    destruct (Gn vals 0%nat i p Hp) as [E _]. rewrite Nat.sub_0_r in E. exact E.
Qed.

(* strict total order *)
Lemma val_lt_irrefl a : val_lt a a = false.
Proof. unfold val_lt. rewrite N.eqb_refl. apply N.ltb_irrefl. Qed.
Lemma val_lt_trans a b c : val_lt a b = true -> val_lt b c = true -> val_lt a c = true.
Proof.
  unfold val_lt. destruct (snd a =? snd b) eqn:E1, (snd b =? snd c) eqn:E2, (snd a =? snd c) eqn:E3; lia.
Qed.
Lemma asorted_head_lt a t : asorted (a :: t) -> forall x, In x t -> val_lt a x = true.
Proof.
  revert a. induction t as [|b t IH]; intros a S x Hx; [destruct Hx|].
  cbn [asorted] in S. destruct S as [L S]. destruct Hx as [<-|Hx]; [exact L|].
  eapply val_lt_trans; [exact L | apply IH; assumption].
Qed.
Lemma asorted_tail a t : asorted (a :: t) -> asorted t.
Proof. destruct t; [intros _; exact I | intros [_ S]; exact S]. Qed.
Lemma sorted_perm_unique : forall l1 l2 : vals, asorted l1 -> asorted l2 -> Permutation l1 l2 -> l1 = l2.
Proof.
  induction l1 as [|a t1 IH]; intros l2 S1 S2 P.
  - apply Permutation_nil in P. subst. reflexivity.
  - destruct l2 as [|b t2]; [apply Permutation_sym, Permutation_nil in P; discriminate|].
    assert (a = b).
    { assert (Ha : In a (b :: t2)) by (apply (Permutation_in _ P); left; reflexivity).
      assert (Hb : In b (a :: t1)) by (apply (Permutation_in _ (Permutation_sym P)); left; reflexivity).
      destruct Ha as [Ha|Ha]; [auto|]. destruct Hb as [Hb|Hb]; [auto|].
      pose proof (asorted_head_lt b t2 S2 a Ha) as L1. pose proof (asorted_head_lt a t1 S1 b Hb) as L2.
      pose proof (val_lt_trans _ _ _ L1 L2) as L3. rewrite val_lt_irrefl in L3. discriminate. }
    subst b. f_equal. apply IH; [eapply asorted_tail; exact S1 | eapply asorted_tail; exact S2|].
    eapply Permutation_cons_inv. exact P.
Qed.

Definition raw_ok (vals : list (N * N)) : Prop := NoDup (map fst vals) /\ forall p, In p vals -> snd p <> 0.

Lemma filter_id {A} (f : A -> bool) l : (forall x, In x l -> f x = true) -> filter f l = l.
Proof.
  induction l as [|a t IH]; intros H; cbn [filter]; [reflexivity|].
  rewrite (H a (or_introl eq_refl)). f_equal. apply IH. intros x Hx. apply H. right. exact Hx.
Qed.
Lemma builder_rev : forall (l acc : list (N * N)), NoDup (map fst (rev acc ++ l)) -> (forall p, In p l -> snd p <> 0) ->
  fold_left (fun b p => builder_set b (fst p) (snd p)) l acc = rev l ++ acc.
Proof.
  induction l as [|[x w] t IH]; intros acc ND NZ; cbn [fold_left rev app]; [reflexivity|].
  assert (Hx : ~ In x (map fst acc)).
  { rewrite map_app in ND. cbn [map fst] in ND. apply NoDup_remove_2 in ND. intros H. apply ND. apply in_or_app. left.
    rewrite map_rev. apply -> in_rev. exact H. }
  assert (Hfilter : filter (fun p : N * N => negb (fst p =? x)) acc = acc).
  { apply filter_id. intros p Hp. apply negb_true_iff. apply N.eqb_neq. intros E. apply Hx. rewrite <- E. apply in_map. exact Hp. }
  unfold builder_set at 2. cbn [fst snd]. rewrite Hfilter.
  replace (w =? 0) with false by (symmetry; apply N.eqb_neq; apply (NZ (x, w)); left; reflexivity).
  rewrite IH.
  - rewrite <- app_assoc. reflexivity.
  - cbn [rev]. rewrite <- app_assoc. exact ND.
  - intros p Hp. apply NZ. right. exact Hp.
Qed.

Lemma vsort_perm l : Permutation (vsort l) l.
Proof. induction l as [|z l IHl]; cbn [vsort fold_right]; [reflexivity|]. rewrite v_insert_perm. constructor. exact IHl. Qed.

Lemma mk_vals_vsort vals : raw_ok vals -> mk_vals vals = vsort vals.
Proof.
  intros [ND NZ]. unfold mk_vals. rewrite (builder_rev vals [] ND NZ), app_nil_r. fold (vsort (rev vals)).
  apply sorted_perm_unique.
  - apply sort_sorted. rewrite map_rev. apply NoDup_rev. exact ND.
  - apply sort_sorted. exact ND.
  - rewrite !vsort_perm. symmetry. apply Permutation_rev.
Qed.

(* the code's validator list = the reference's list re-arranged by canon_order; it is canonical *)
Theorem mk_vals_canon vals : raw_ok vals -> mk_vals vals = map (fun i => nth i vals (0, 0)) (canon_order vals).
Proof. intros H. rewrite canon_arrange. apply mk_vals_vsort. exact H. Qed.

Lemma raw_ok_perm l1 l2 : Permutation l1 l2 -> raw_ok l1 -> raw_ok l2.
Proof.
  intros P [ND NZ]. split.
  - eapply Permutation_NoDup; [apply Permutation_map; exact P | exact ND].
  - intros p Hp. apply NZ. apply (Permutation_in _ (Permutation_sym P)). exact Hp.
Qed.
Theorem mk_vals_canonical vals : raw_ok vals -> canonical (mk_vals vals).
Proof.
  intros H. unfold canonical.
  assert (H' : raw_ok (mk_vals vals)).
  { rewrite (mk_vals_vsort vals H). eapply raw_ok_perm; [symmetry; apply vsort_perm | exact H]. }
  rewrite (mk_vals_vsort _ H'). apply sorted_perm_unique.
  - apply sort_sorted. apply H'.
  - apply mk_vals_sorted.
  - apply vsort_perm.
Qed.
