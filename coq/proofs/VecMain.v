(* C05/C06: Engine.Add preserves the index invariant; the invariant holds after indexing any
   well-formed parents-first stream; hence forklessCause = fc_spec and the merged clock =
   merged_spec for every stream, every indexing order, every earlier query and every cache size. *)
From Coq Require Import List Arith NArith ZArith Bool Lia Permutation.
From Coq Require Import ZifyBool ZifyNat ZifyN.
From LV Require Import model.VecIndex spec.FcSpec lib.VecListFacts proofs.FcSpecFacts proofs.VecHb proofs.VecDfs
  proofs.VecInv proofs.VecMerged proofs.VecStep proofs.VecStepHb.
Import ListNotations.
Open Scope N_scope.

(* ---------- one Add ---------- *)
Theorem add_preserves n s e : vinv n s -> wf_new n s e ->
  exists s', add s e = Some s' /\ vinv n s' /\ evs s' = (eid e, e) :: evs s.
Proof.
  intros I W. set (G := v_g n s I).
  pose proof (fill_branch_ok n s e G W) as F.
  set (me := fst (fill_branch s e)) in *. set (s1 := snd (fill_branch s e)) in *.
  exists (mk_add s1 e me (nbr s)).
  assert (Hpar : forall p, In p (epar e) -> alookup p (hb s1) <> None).
  { intros p Hp. rewrite (fb_hb _ _ _ _ _ F). destruct W as (_ & _ & _ & Hpar & _).
    destruct (Hpar p Hp) as [ep Ep]. destruct (v_keys n s I p ep Ep) as ((hv & Hhv) & _). congruence. }
  split; [apply add_eq; exact Hpar|]. split; [|apply (evs_new n s e me s1 (nbr s) F)].
  destruct (dfs_facts n s e me s1 I W F) as (Hk & _).
  assert (Hevs1 : evs s1 = evs s) by apply (fb_evs _ _ _ _ _ F).
  constructor.
  - apply (ginv_new n s e me s1 (nbr s) G W F).
  - intros x ex Hx. apply (evt_new n s e me s1 (nbr s) F) in Hx. cbn [mk_add hb la].
    destruct Hx as [[-> ->]|[Hne Hx]].
    + rewrite !alookup_aput_eq. eauto.
    + rewrite !alookup_aput_neq by exact Hne. rewrite (fb_hb _ _ _ _ _ F). split; [apply (v_keys n s I x ex Hx)|].
      destruct (alookup x (new_lam s1 e me)) as [lv|] eqn:Hl; [eauto|].
      apply Hk in Hl. rewrite Hevs1 in Hl. unfold evt in Hx. congruence.
  - intros x. cbn [mk_add la evs]. rewrite !alookup_aput. destruct (x =? eid e); [split; discriminate|].
    apply Hk.
  - intros A eA av b HA Hav. apply (evt_new n s e me s1 (nbr s) F) in HA. cbn [mk_add hb] in Hav.
    destruct HA as [[-> ->]|[Hne HA]].
    + rewrite alookup_aput_eq in Hav. injection Hav as <-. apply (HBok_self n s e me s1 (nbr s) I W F).
    + rewrite alookup_aput_neq in Hav by exact Hne. rewrite (fb_hb _ _ _ _ _ F) in Hav.
      apply (HBok_old n s e me s1 (nbr s) I W F A eA b _ HA). apply (v_hb n s I A eA av b HA Hav).
  - intros B eB bv b HB Hbv. apply (evt_new n s e me s1 (nbr s) F) in HB. cbn [mk_add la] in Hbv.
    destruct HB as [[-> ->]|[Hne HB]].
    + rewrite alookup_aput_eq in Hbv. injection Hbv as <-. apply (LAok_self n s e me s1 (nbr s) I W F).
    + rewrite alookup_aput_neq in Hbv by exact Hne. apply (LAok_old n s e me s1 (nbr s) I W F B eB bv b HB Hbv).
Qed.

(* ---------- the empty index ---------- *)
Lemma vinv_init n : vinv n (init n).
Proof.
  assert (Hcrb : forall c, (c < n)%nat -> crb (init n) c = c).
  { intros c Hc. unfold crb. cbn [init br_cr]. rewrite seq_nth by exact Hc. reflexivity. }
  assert (Hnbr : nbr (init n) = n) by (unfold nbr; cbn [init br_cr]; apply seq_length).
  assert (Hbrs : forall c, (c < n)%nat -> brs_of (init n) c = [c]).
  { intros c Hc. unfold brs_of. cbn [init by_cr]. exact (nth_map_seq_gen (fun i : nat => [i]) n c [] Hc). }
  constructor; [constructor|..]; try (intros x ex Hx; discriminate Hx); try (intros ? ? ? ? Hx; discriminate Hx).
  - reflexivity.
  - cbn [init br_last br_cr]. rewrite repeat_length, seq_length. reflexivity.
  - rewrite Hnbr. lia.
  - exact Hcrb.
  - intros b Hb. rewrite Hnbr in Hb. rewrite Hcrb by exact Hb. exact Hb.
  - cbn [init by_cr]. rewrite map_length, seq_length. reflexivity.
  - intros c b Hc. rewrite (Hbrs c Hc), Hnbr. cbn [In]. split.
    + intros [<-|[]]. split; [exact Hc|apply Hcrb; exact Hc].
    + intros [Hb Hcb]. rewrite Hcrb in Hcb by exact Hb. left. congruence.
  - intros c. destruct (Nat.lt_ge_cases c n) as [Hc|Hc].
    + rewrite (Hbrs c Hc). constructor; [intros []|constructor].
    + unfold brs_of. cbn [init by_cr]. rewrite nth_overflow by (rewrite map_length, seq_length; exact Hc). constructor.
  - intros x ex p Hx. discriminate Hx.
  - intros x y ex ey b Hx. discriminate Hx.
  - intros x. split; reflexivity.
Qed.

(* ---------- well-formed parents-first streams ---------- *)
Definition wf_ev (n : nat) (E : list (N * event)) (e : event) : Prop :=
  alookup (eid e) E = None /\
  (ecr e < n)%nat /\ 1 <= eseq e /\
  (forall p, In p (epar e) -> exists ep, alookup p E = Some ep) /\
  match self_parent e with
  | Some sp => exists esp, alookup sp E = Some esp /\ ecr esp = ecr e /\ eseq e = eseq esp + 1
  | None => eseq e = 1 end.
Fixpoint wf_from (n : nat) (E : list (N * event)) (o : list event) : Prop :=
  match o with [] => True | e :: o' => wf_ev n E e /\ wf_from n ((eid e, e) :: E) o' end.
Definition dag_from (E : list (N * event)) (o : list event) : list (N * event) :=
  fold_left (fun E e => (eid e, e) :: E) o E.
(* unique ids, creators are validators, parents delivered first, seq = self-parent's + 1 (else 1),
   self-parent (first parent when seq > 1) by the same creator *)
Definition wf_stream (n : nat) (o : list event) : Prop := wf_from n [] o.
Definition dag_of (o : list event) : list (N * event) := dag_from [] o.

Lemma add_or_drop_some s e s1 : add s e = Some s1 -> add_or_drop s e = (true, s1).
Proof. intros H. unfold add_or_drop. rewrite H. reflexivity. Qed.

Lemma index_from_inv n : forall o s, vinv n s -> wf_from n (evs s) o ->
  let s' := fold_left (fun s e => snd (add_or_drop s e)) o s in
  vinv n s' /\ evs s' = dag_from (evs s) o.
Proof.
  induction o as [|e o IH]; intros s I W; cbn zeta; cbn [fold_left dag_from]; [auto|].
  destruct W as [We Wo].
  destruct (add_preserves n s e I We) as (s1 & Hadd & I1 & Hevs).
  rewrite (add_or_drop_some s e s1 Hadd). cbn [snd].
  rewrite <- Hevs in Wo. destruct (IH s1 I1 Wo) as [I' E']. cbn zeta in *.
  split; [exact I'|]. rewrite E', Hevs. reflexivity.
Qed.

Theorem index_all_inv n o : wf_stream n o -> vinv n (index_all n o) /\ evs (index_all n o) = dag_of o.
Proof. intros W. apply (index_from_inv n o (init n) (vinv_init n) W). Qed.

(* every Add of a well-formed stream succeeds (no error, nothing dropped) *)
Lemma index_from_ok n : forall o s, vinv n s -> wf_from n (evs s) o ->
  forall pre e post, o = pre ++ e :: post ->
    fst (add_or_drop (fold_left (fun s e => snd (add_or_drop s e)) pre s) e) = true.
Proof.
  induction o as [|e0 o IH]; intros s I W pre e post Heq; [destruct pre; discriminate|].
  destruct W as [We Wo]. destruct (add_preserves n s e0 I We) as (s1 & Hadd & I1 & Hevs).
  destruct pre as [|p pre]; cbn [app fold_left] in *.
  - injection Heq as <- <-. rewrite (add_or_drop_some s e0 s1 Hadd). reflexivity.
  - injection Heq as <- Heq. rewrite (add_or_drop_some s e0 s1 Hadd). cbn [snd].
    rewrite <- Hevs in Wo. eapply IH; eauto.
Qed.

(* ---------- C05 / C06 for every well-formed stream ---------- *)
Definition indexed (o : list event) (a : N) : Prop := exists ea, alookup a (dag_of o) = Some ea.

Theorem fc_index_all ws q n o a b : wf_stream n o -> 0 < q -> indexed o a -> indexed o b ->
  fc ws q (index_all n o) a b = fc_spec ws q n (dag_of o) a b.
Proof.
  intros W Hq [ea Ha] [eb Hb]. destruct (index_all_inv n o W) as [I HE].
  rewrite <- HE in *. apply (fc_eq_spec n (index_all n o) I ws q a b ea eb Hq Ha Hb).
Qed.
Theorem merged_index_all n o a : wf_stream n o -> indexed o a ->
  map proj (merged (index_all n o) a) = merged_spec n (dag_of o) a.
Proof.
  intros W [ea Ha]. destruct (index_all_inv n o W) as [I HE].
  rewrite <- HE in *. apply (merged_eq_spec n (index_all n o) I a ea Ha).
Qed.

(* the DAG of a stream as a finite map *)
Lemma alookup_dag_from n : forall o E x ex, wf_from n E o ->
  (alookup x (dag_from E o) = Some ex <-> (In ex o /\ eid ex = x) \/ alookup x E = Some ex).
Proof.
  induction o as [|e o IH]; intros E x ex W; cbn [dag_from fold_left In].
  - split; [auto|intros [[[] _]|H]; exact H].
  - destruct W as [We Wo]. fold (dag_from ((eid e, e) :: E) o). rewrite (IH _ x ex Wo). cbn [alookup].
    destruct We as (Hfresh & _). split.
    + intros [[Hin Hid]|H]; [left; auto|].
      destruct (N.eqb_spec x (eid e)) as [->|Hne]; [injection H as <-; left; auto|right; exact H].
    + intros [[[<-|Hin] Hid]|H].
      * right. rewrite <- Hid, N.eqb_refl. reflexivity.
      * left. auto.
      * right. destruct (N.eqb_spec x (eid e)) as [->|Hne]; [congruence|exact H].
Qed.
Lemma alookup_dag_of n o x ex : wf_stream n o -> (alookup x (dag_of o) = Some ex <-> In ex o /\ eid ex = x).
Proof.
  intros W. unfold dag_of. rewrite (alookup_dag_from n o [] x ex W). cbn [alookup]. split; [intros [H|H]; [exact H|discriminate]|auto].
Qed.

(* order independence: two parents-first orders of the same event set give the same answers *)
Theorem fc_order_independent ws q n o1 o2 a b : wf_stream n o1 -> wf_stream n o2 -> Permutation o1 o2 ->
  0 < q -> indexed o1 a -> indexed o1 b ->
  fc ws q (index_all n o1) a b = fc ws q (index_all n o2) a b.
Proof.
  intros W1 W2 P Hq Ha Hb.
  assert (Hs : submap (dag_of o1) (dag_of o2)).
  { intros x ex Hx. apply (alookup_dag_of n o1 x ex W1) in Hx. apply (alookup_dag_of n o2 x ex W2).
    destruct Hx as [Hin Hid]. split; [eapply Permutation_in; eauto|exact Hid]. }
  assert (Hc : closed (dag_of o1)).
  { destruct (index_all_inv n o1 W1) as [I HE]. rewrite <- HE. apply (v_closed n _ I). }
  assert (Ha2 : indexed o2 a) by (destruct Ha as [ea Ha]; exists ea; apply Hs; exact Ha).
  assert (Hb2 : indexed o2 b) by (destruct Hb as [eb Hb]; exists eb; apply Hs; exact Hb).
  rewrite (fc_index_all ws q n o1 a b W1 Hq Ha Hb), (fc_index_all ws q n o2 a b W2 Hq Ha2 Hb2).
  symmetry. apply fc_spec_submap; assumption.
Qed.
Theorem merged_order_independent n o1 o2 a : wf_stream n o1 -> wf_stream n o2 -> Permutation o1 o2 ->
  indexed o1 a -> map proj (merged (index_all n o1) a) = map proj (merged (index_all n o2) a).
Proof.
  intros W1 W2 P Ha.
  assert (Hs : submap (dag_of o1) (dag_of o2)).
  { intros x ex Hx. apply (alookup_dag_of n o1 x ex W1) in Hx. apply (alookup_dag_of n o2 x ex W2).
    destruct Hx as [Hin Hid]. split; [eapply Permutation_in; eauto|exact Hid]. }
  assert (Hc : closed (dag_of o1)).
  { destruct (index_all_inv n o1 W1) as [I HE]. rewrite <- HE. apply (v_closed n _ I). }
  assert (Ha2 : indexed o2 a) by (destruct Ha as [ea Ha]; exists ea; apply Hs; exact Ha).
  rewrite (merged_index_all n o1 a W1 Ha), (merged_index_all n o2 a W2 Ha2).
  symmetry. apply merged_spec_submap; assumption.
Qed.

(* ---------- histories of Adds and cached queries (Index.ForklessCause with its LRU) ---------- *)
Inductive iop := OAdd (e : event) | OQuery (a b : N).
Definition istate := (vidx * fcache * list (N * N * bool))%type.
Definition istep (ws : list N) (q : N) (st : istate) (op : iop) : istate :=
  let '(s, c, out) := st in
  match op with
  | OAdd e => (snd (add_or_drop s e), c, out)
  | OQuery a b => let '(r, c') := fc_query ws q s c a b in (s, c', (a, b, r) :: out) end.
Fixpoint wf_ops (n : nat) (E : list (N * event)) (ops : list iop) : Prop :=
  match ops with
  | [] => True
  | OAdd e :: r => wf_ev n E e /\ wf_ops n ((eid e, e) :: E) r
  | OQuery a b :: r => (exists ea, alookup a E = Some ea) /\ (exists eb, alookup b E = Some eb) /\ wf_ops n E r end.

Definition ans_ok ws q n (E : list (N * event)) (k : N * N) (r : bool) : Prop :=
  (exists ea, alookup (fst k) E = Some ea) /\ (exists eb, alookup (snd k) E = Some eb) /\
  r = fc_spec ws q n E (fst k) (snd k).
Definition ist_ok ws q n (st : istate) : Prop :=
  let '(s, c, out) := st in
  vinv n s /\ (forall k r, In (k, r) (fc_items c) -> ans_ok ws q n (evs s) k r) /\
  (forall a b r, In (a, b, r) out -> ans_ok ws q n (evs s) (a, b) r).

Lemma ans_ok_ext ws q n E e k r : closed E -> alookup (eid e) E = None ->
  ans_ok ws q n E k r -> ans_ok ws q n ((eid e, e) :: E) k r.
Proof.
  intros Hc Hf ([ea Ha] & [eb Hb] & ->).
  assert (Hs : submap E ((eid e, e) :: E)).
  { intros x ex Hx. cbn [alookup]. destruct (N.eqb_spec x (eid e)) as [->|]; [congruence|exact Hx]. }
  split; [exists ea; apply Hs; exact Ha|]. split; [exists eb; apply Hs; exact Hb|].
  symmetry. apply fc_spec_submap; eauto.
Qed.
Lemma fcache_find_in k l r : fcache_find k l = Some r -> exists k', In (k', r) l /\ fckey_eqb k k' = true.
Proof.
  induction l as [|[k' v] l IH]; cbn [fcache_find]; [discriminate|].
  destruct (fckey_eqb k k') eqn:Hk.
  - intros [= ->]. exists k'. split; [left; reflexivity|exact Hk].
  - intros H. destruct (IH H) as (k'' & Hin & He). exists k''. split; [right; exact Hin|exact He].
Qed.
Lemma fckey_eqb_eq k k' : fckey_eqb k k' = true -> k = k'.
Proof.
  destruct k, k'. unfold fckey_eqb. cbn [fst snd]. intros H. apply andb_true_iff in H. destruct H as [H1 H2].
  apply N.eqb_eq in H1, H2. congruence.
Qed.
Lemma fcache_remove_incl k l x : In x (fcache_remove k l) -> In x l.
Proof.
  induction l as [|[k' v] l IH]; cbn [fcache_remove]; [auto|].
  destruct (fckey_eqb k k'); [intros H; right; exact H|]. intros [H|H]; [left; exact H|right; apply IH; exact H].
Qed.
Lemma firstn_incl {A} m (l : list A) x : In x (firstn m l) -> In x l.
Proof.
  revert l; induction m as [|m IH]; intros l; destruct l as [|y l]; cbn [firstn]; intros H; try (destruct H; fail).
  destruct H as [H|H]; [left; exact H|right; apply IH; exact H].
Qed.

Lemma istep_ok ws q n st op : 0 < q -> ist_ok ws q n st ->
  (let '(s, _, _) := st in wf_ops n (evs s) [op]) -> ist_ok ws q n (istep ws q st op).
Proof.
  intros Hq. destruct st as [[s c] out]. intros (I & Hc & Ho) W. destruct op as [e|a b]; cbn [istep].
  - destruct W as [We _]. destruct (add_preserves n s e I We) as (s1 & Hadd & I1 & Hevs).
    rewrite (add_or_drop_some s e s1 Hadd). cbn [snd]. unfold ist_ok. rewrite Hevs.
    destruct We as (Hfresh & _).
    split; [exact I1|]. split.
    + intros k r Hin. apply ans_ok_ext; [apply (v_closed n s I)|exact Hfresh|apply Hc; exact Hin].
    + intros a b r Hin. apply ans_ok_ext; [apply (v_closed n s I)|exact Hfresh|apply Ho; exact Hin].
  - destruct W as ([ea Ha] & [eb Hb] & _). unfold fc_query, fcache_get.
    destruct (fcache_find (a, b) (fc_items c)) as [r|] eqn:Hfind.
    + (* hit *)
      destruct (fcache_find_in _ _ _ Hfind) as (k' & Hin & Hk). apply fckey_eqb_eq in Hk. subst k'.
      pose proof (Hc (a, b) r Hin) as Hr.
      unfold ist_ok. cbn [fc_items]. split; [exact I|]. split.
      * intros k r' [[= <- <-]|Hin']; [exact Hr|]. apply Hc. eapply fcache_remove_incl; eauto.
      * intros a' b' r' [[= <- <- <-]|Hin']; [exact Hr|apply Ho; exact Hin'].
    + (* miss: computed from the vectors *)
      assert (Hr : ans_ok ws q n (evs s) (a, b) (fc ws q s a b)).
      { split; [exists ea; exact Ha|]. split; [exists eb; exact Hb|]. cbn [fst snd].
        apply (fc_eq_spec n s I ws q a b ea eb Hq Ha Hb). }
      unfold ist_ok, fcache_add. cbn [fc_items]. split; [exact I|]. split.
      * intros k r' Hin'. apply firstn_incl in Hin'. destruct Hin' as [[= <- <-]|Hin']; [exact Hr|].
        apply Hc. eapply fcache_remove_incl; eauto.
      * intros a' b' r' [[= <- <- <-]|Hin']; [exact Hr|apply Ho; exact Hin'].
Qed.

Lemma wf_ops_app n : forall ops E op, wf_ops n E (op :: ops) ->
  wf_ops n E [op] /\ wf_ops n (match op with OAdd e => (eid e, e) :: E | _ => E end) ops.
Proof. intros ops E [e|a b]; cbn [wf_ops]; tauto. Qed.

Theorem iops_ok ws q n : 0 < q -> forall ops st, ist_ok ws q n st ->
  (let '(s, _, _) := st in wf_ops n (evs s) ops) -> ist_ok ws q n (fold_left (istep ws q) ops st).
Proof.
  intros Hq. induction ops as [|op ops IH]; intros st Hok W; cbn [fold_left]; [exact Hok|].
  destruct st as [[s c] out].
  destruct (wf_ops_app n ops (evs s) op W) as [W1 W2].
  pose proof (istep_ok ws q n (s, c, out) op Hq Hok W1) as Hok'.
  apply IH; [exact Hok'|].
  destruct op as [e|a b]; cbn [istep].
  - destruct W1 as [We _]. destruct Hok as (I & _). destruct (add_preserves n s e I We) as (s1 & Hadd & _ & Hevs).
    rewrite (add_or_drop_some s e s1 Hadd). cbn [snd]. rewrite Hevs. exact W2.
  - destruct (fc_query ws q s c a b). exact W2.
Qed.

(* C05 with caches and histories: every answer ever given equals the specification on the final
   DAG, whatever the interleaving of Adds and queries and whatever the LRU capacity *)
Theorem queries_equal_spec ws q n cap ops : 0 < q -> wf_ops n [] ops ->
  let '(s, _, out) := fold_left (istep ws q) ops (init n, fcache_new cap, []) in
  forall a b r, In (a, b, r) out -> r = fc_spec ws q n (evs s) a b.
Proof.
  intros Hq W.
  pose proof (iops_ok ws q n Hq ops (init n, fcache_new cap, [])) as H.
  destruct (fold_left (istep ws q) ops (init n, fcache_new cap, [])) as [[s c] out].
  destruct H as (_ & _ & Ho).
  - split; [apply vinv_init|]. split; [intros k r []|intros a b r []].
  - exact W.
  - intros a b r Hin. destruct (Ho a b r Hin) as (_ & _ & Hr). exact Hr.
Qed.

(* ---------- executable form of the stream hypothesis (spec/StreamSpec.v) ---------- *)
From LV Require Import spec.StreamSpec.
Lemma knownb_iff E x : knownb E x = true <-> exists ex, alookup x E = Some ex.
Proof. unfold knownb. destruct (alookup x E) as [ex|]; split; eauto; try discriminate. intros [ex H]. discriminate H. Qed.
Theorem wf_evb_iff n E e : wf_evb n E e = true <-> wf_ev n E e.
Proof.
  unfold wf_evb, wf_ev. rewrite !andb_true_iff, negb_true_iff, Nat.ltb_lt, N.leb_le, forallb_forall.
  assert (H1 : knownb E (eid e) = false <-> alookup (eid e) E = None).
  { unfold knownb. destruct (alookup (eid e) E); split; congruence. }
  assert (H2 : (forall x, In x (epar e) -> knownb E x = true) <-> (forall p, In p (epar e) -> exists ep, alookup p E = Some ep)).
  { split; intros H p Hp; apply knownb_iff; apply H; exact Hp. }
  assert (H3 : (match self_parent e with
     | Some sp => match alookup sp E with Some esp => Nat.eqb (ecr esp) (ecr e) && (eseq e =? eseq esp + 1) | None => false end
     | None => eseq e =? 1 end) = true <->
     match self_parent e with
     | Some sp => exists esp, alookup sp E = Some esp /\ ecr esp = ecr e /\ eseq e = eseq esp + 1
     | None => eseq e = 1 end).
  { destruct (self_parent e) as [sp|]; [|apply N.eqb_eq].
    destruct (alookup sp E) as [esp|]; split.
    - intros H. apply andb_true_iff in H. destruct H as [A B]. apply Nat.eqb_eq in A. apply N.eqb_eq in B. exists esp. auto.
    - intros (esp' & [= <-] & A & B). rewrite A, B, Nat.eqb_refl, N.eqb_refl. reflexivity.
    - discriminate.
    - intros (esp' & H & _). discriminate H. }
  rewrite H1, H2, H3. tauto.
Qed.

(* ---------- Flush / DropNotFlushed histories ---------- *)
Inductive vop := VAdd (e : event) | VFlush | VDrop.
Definition vs_step (st : vstore) (op : vop) : vstore :=
  match op with VAdd e => snd (vs_add st e) | VFlush => vs_flush st | VDrop => vs_drop st end.
Fixpoint wf_vops (n : nat) (Ef Ec : list (N * event)) (ops : list vop) : Prop :=
  match ops with
  | [] => True
  | VAdd e :: r => wf_ev n Ec e /\ wf_vops n Ef ((eid e, e) :: Ec) r
  | VFlush :: r => wf_vops n Ec Ec r
  | VDrop :: r => wf_vops n Ef Ef r end.
Theorem vstore_inv n : forall ops st, vinv n (vs_flushed st) -> vinv n (vs_cur st) ->
  wf_vops n (evs (vs_flushed st)) (evs (vs_cur st)) ops ->
  let st' := fold_left vs_step ops st in vinv n (vs_flushed st') /\ vinv n (vs_cur st').
Proof.
  induction ops as [|op ops IH]; intros st If Ic W; cbn zeta; cbn [fold_left]; [auto|].
  destruct op as [e| |]; cbn [wf_vops vs_step] in *.
  - destruct W as [We Wo]. destruct (add_preserves n (vs_cur st) e Ic We) as (s1 & Hadd & I1 & Hevs).
    unfold vs_add. rewrite Hadd. cbn [snd]. apply IH; cbn [vs_flushed vs_cur]; auto. rewrite Hevs. exact Wo.
  - apply IH; cbn [vs_flush vs_flushed vs_cur]; auto.
  - apply IH; cbn [vs_drop vs_flushed vs_cur]; auto.
Qed.

(* ---------- Round 2: one history type with Add, Query (through the LRU), Flush and Drop ----------
   The real onDropNotFlushed purges the HB/LA caches but NOT cache.ForklessCause, so an answer cached for
   events that are dropped afterwards survives the drop and is served again when the events are re-added.
   This is harmless because (i) an answer depends only on the sub-DAG below A (fc_spec_submap) and
   (ii) ids determine events (an id is the hash of the event): every event ever added is drawn from one
   consistent id -> event assignment U.  Both facts are hypotheses/lemmas of the theorem below. *)
Inductive hop := HAdd (e : event) | HQuery (a b : N) | HFlush | HDrop.
Definition hout := (N * N * bool * list (N * event))%type.   (* a, b, answer, view current at query time *)
Definition hstate := (vstore * fcache * list hout)%type.
Definition hstep (ws : list N) (q : N) (st : hstate) (op : hop) : hstate :=
  let '(vs, c, out) := st in
  match op with
  | HAdd e => (snd (vs_add vs e), c, out)
  | HQuery a b => let '(r, c') := fc_query ws q (vs_cur vs) c a b in (vs, c', (a, b, r, evs (vs_cur vs)) :: out)
  | HFlush => (vs_flush vs, c, out)
  | HDrop => (vs_drop vs, c, out) end.
Fixpoint wf_hops (n : nat) (U Ef Ec : list (N * event)) (ops : list hop) : Prop :=
  match ops with
  | [] => True
  | HAdd e :: r => wf_ev n Ec e /\ alookup (eid e) U = Some e /\ wf_hops n U Ef ((eid e, e) :: Ec) r
  | HQuery a b :: r => (exists ea, alookup a Ec = Some ea) /\ (exists eb, alookup b Ec = Some eb) /\ wf_hops n U Ef Ec r
  | HFlush :: r => wf_hops n U Ec Ec r
  | HDrop :: r => wf_hops n U Ef Ef r end.

(* a cached answer was right on SOME closed view consistent with U that contained both events *)
Definition cached_ok ws q n (U : list (N * event)) (k : N * N) (r : bool) : Prop :=
  exists E0, closed E0 /\ submap E0 U /\ (exists ea, alookup (fst k) E0 = Some ea) /\
             (exists eb, alookup (snd k) E0 = Some eb) /\ r = fc_spec ws q n E0 (fst k) (snd k).
Definition hst_ok ws q n U (st : hstate) : Prop :=
  let '(vs, c, out) := st in
  vinv n (vs_flushed vs) /\ vinv n (vs_cur vs) /\ submap (evs (vs_flushed vs)) U /\ submap (evs (vs_cur vs)) U /\
  (forall k r, In (k, r) (fc_items c) -> cached_ok ws q n U k r) /\
  (forall a b r E, In (a, b, r, E) out -> r = fc_spec ws q n E a b).

(* an answer right on one closed view is right on every closed view with the same events *)
Lemma cached_ok_view ws q n U a b r E : cached_ok ws q n U (a, b) r -> closed E -> submap E U ->
  (exists ea, alookup a E = Some ea) -> (exists eb, alookup b E = Some eb) -> r = fc_spec ws q n E a b.
Proof.
  intros (E0 & Hc0 & Hs0 & Ha0 & Hb0 & ->) Hc Hs Ha Hb. cbn [fst snd] in *.
  rewrite <- (fc_spec_submap ws q n E0 U a b Hs0 Hc0 Ha0 Hb0).
  apply (fc_spec_submap ws q n E U a b Hs Hc Ha Hb).
Qed.

Lemma hstep_ok ws q n U st op : 0 < q -> hst_ok ws q n U st ->
  (let '(vs, _, _) := st in wf_hops n U (evs (vs_flushed vs)) (evs (vs_cur vs)) [op]) ->
  hst_ok ws q n U (hstep ws q st op).
Proof.
  intros Hq. destruct st as [[vs c] out]. intros (If & Ic & Sf & Sc & Hc & Ho) W.
  destruct op as [e|a b| |]; cbn [hstep wf_hops] in *.
  - destruct W as (We & HU & _). destruct (add_preserves n (vs_cur vs) e Ic We) as (s1 & Hadd & I1 & Hevs).
    unfold vs_add. rewrite Hadd. cbn [snd]. unfold hst_ok. cbn [vs_flushed vs_cur]. rewrite Hevs.
    repeat (split; [assumption|]). split; [|auto].
    intros x ex Hx. cbn [alookup] in Hx. destruct (N.eqb_spec x (eid e)) as [->|]; [congruence|apply Sc; exact Hx].
  - destruct W as ([ea Ha] & [eb Hb] & _). unfold fc_query, fcache_get.
    destruct (fcache_find (a, b) (fc_items c)) as [r|] eqn:Hfind.
    + destruct (fcache_find_in _ _ _ Hfind) as (k' & Hin & Hk). apply fckey_eqb_eq in Hk. subst k'.
      pose proof (Hc (a, b) r Hin) as Hr. unfold hst_ok. cbn [fc_items].
      repeat (split; [assumption|]). split.
      * intros k r' [[= <- <-]|Hin']; [exact Hr|]. apply Hc. eapply fcache_remove_incl; eauto.
      * intros a' b' r' E' [[= <- <- <- <-]|Hin']; [|eapply Ho; eauto].
        apply (cached_ok_view ws q n U a b r _ Hr (v_closed n _ Ic) Sc); eauto.
    + assert (Hr : fc ws q (vs_cur vs) a b = fc_spec ws q n (evs (vs_cur vs)) a b)
        by (apply (fc_eq_spec n (vs_cur vs) Ic ws q a b ea eb Hq Ha Hb)).
      unfold hst_ok, fcache_add. cbn [fc_items]. repeat (split; [assumption|]). split.
      * intros k r' Hin'. apply firstn_incl in Hin'. destruct Hin' as [[= <- <-]|Hin'].
        -- exists (evs (vs_cur vs)). cbn [fst snd]. split; [apply (v_closed n _ Ic)|]. split; [exact Sc|]. eauto.
        -- apply Hc. eapply fcache_remove_incl; eauto.
      * intros a' b' r' E' [[= <- <- <- <-]|Hin']; [exact Hr|eapply Ho; eauto].
  - unfold hst_ok. cbn [vs_flush vs_flushed vs_cur]. auto 10.
  - unfold hst_ok. cbn [vs_drop vs_flushed vs_cur]. auto 10.
Qed.

Lemma wf_hops_cons n U Ef Ec op ops : wf_hops n U Ef Ec (op :: ops) ->
  wf_hops n U Ef Ec [op] /\
  wf_hops n U (match op with HFlush => Ec | _ => Ef end)
              (match op with HAdd e => (eid e, e) :: Ec | HDrop => Ef | _ => Ec end) ops.
Proof. destruct op as [e|a b| |]; cbn [wf_hops]; tauto. Qed.

Theorem hops_ok ws q n U : 0 < q -> forall ops st, hst_ok ws q n U st ->
  (let '(vs, _, _) := st in wf_hops n U (evs (vs_flushed vs)) (evs (vs_cur vs)) ops) ->
  hst_ok ws q n U (fold_left (hstep ws q) ops st).
Proof.
  intros Hq. induction ops as [|op ops IH]; intros st Hok W; cbn [fold_left]; [exact Hok|].
  destruct st as [[vs c] out].
  destruct (wf_hops_cons n U _ _ op ops W) as [W1 W2].
  pose proof (hstep_ok ws q n U (vs, c, out) op Hq Hok W1) as Hok'.
  apply IH; [exact Hok'|].
  destruct op as [e|a b| |]; cbn [hstep].
  - destruct W1 as (We & _). destruct Hok as (_ & Ic & _).
    destruct (add_preserves n (vs_cur vs) e Ic We) as (s1 & Hadd & _ & Hevs).
    unfold vs_add. rewrite Hadd. cbn [snd vs_flushed vs_cur]. rewrite Hevs. exact W2.
  - destruct (fc_query ws q (vs_cur vs) c a b). exact W2.
  - exact W2.
  - exact W2.
Qed.

(* every answer of every history of Adds, cached queries, Flushes and Drops (any LRU capacity; the
   LRU is never purged) equals the specification on the view that was current when it was asked *)
Theorem history_answers_equal_spec ws q n cap U ops : 0 < q -> wf_hops n U [] [] ops ->
  let '(_, _, out) := fold_left (hstep ws q) ops (vs_init n, fcache_new cap, []) in
  forall a b r E, In (a, b, r, E) out -> r = fc_spec ws q n E a b.
Proof.
  intros Hq W.
  pose proof (hops_ok ws q n U Hq ops (vs_init n, fcache_new cap, [])) as H.
  destruct (fold_left (hstep ws q) ops (vs_init n, fcache_new cap, [])) as [[vs c] out].
  destruct H as (_ & _ & _ & _ & _ & Ho).
  - unfold hst_ok. cbn [vs_init vs_flushed vs_cur fcache_new fc_items].
    split; [apply vinv_init|]. split; [apply vinv_init|]. split; [intros x ex Hx; discriminate Hx|].
    split; [intros x ex Hx; discriminate Hx|]. split; [intros k r []|intros a b r E []].
  - exact W.
  - exact Ho.
Qed.

(* crit-freedom: under the invariant the query never takes a crit path *)
Theorem fc_res_spec n s ws q a b ea eb : vinv n s -> 0 < q -> evt s a ea -> evt s b eb ->
  fc_res ws q s a b = Some (fc_spec ws q n (evs s) a b).
Proof.
  intros I Hq Ea Eb. unfold fc_res.
  destruct (v_keys n s I a ea Ea) as ((av & Ha) & _ & _).
  destruct (v_keys n s I b eb Eb) as (_ & (bv & Hb) & (bbr & Hbb)). unfold onbr in Hbb.
  rewrite Ha, Hb, Hbb. f_equal. apply (fc_eq_spec n s I ws q a b ea eb Hq Ea Eb).
Qed.

(* C06 analogue for Flush / Drop histories *)
Theorem vstore_merged n ops st a ea : vinv n (vs_flushed st) -> vinv n (vs_cur st) ->
  wf_vops n (evs (vs_flushed st)) (evs (vs_cur st)) ops ->
  let st' := fold_left vs_step ops st in
  evt (vs_cur st') a ea -> map proj (merged (vs_cur st') a) = merged_spec n (evs (vs_cur st')) a.
Proof.
  intros If Ic W. destruct (vstore_inv n ops st If Ic W) as [_ Ic']. cbn zeta in *.
  intros Ha. apply (merged_eq_spec n _ Ic' a ea Ha).
Qed.
