(* link_noise for validator lists in any order, and its relation to the noise-free run. *)
From Coq Require Import NArith ZArith List Lia Bool ZifyBool ZifyN ZifyNat Permutation.
From LV Require Import model.VecIndex model.Abft model.AbftRun spec.ElectionSpec lib.WSumBft
  proofs.AbftBuild proofs.BftGraph proofs.BftMain proofs.BftRun proofs.BftAccept proofs.BftProps
  proofs.LinkVals proofs.LinkPerm proofs.LinkDefs proofs.LinkEquiv proofs.LinkRun proofs.LinkRaw proofs.LinkNoise.
Import ListNotations.
Local Open Scope N_scope.

Lemma count_builds_sched ep lam vals sc tl : (length sc <= count_builds (sched_ops_ep ep lam vals sc tl))%nat.
Proof.
  unfold sched_ops_ep. rewrite count_builds_app. induction sc as [|s sc IH]; cbn [flat_map length]; [lia|].
  rewrite count_builds_app.
  change (OpB (to_aevent ep lam vals (s_ev s)) :: s_mid s ++ [OpP (to_aevent ep lam vals (s_ev s))])
    with ([OpB (to_aevent ep lam vals (s_ev s))] ++ s_mid s ++ [OpP (to_aevent ep lam vals (s_ev s))]).
  rewrite !count_builds_app. change (count_builds [OpB (to_aevent ep lam vals (s_ev s))]) with 1%nat. lia.
Qed.

Theorem link_noise_raw (cap : nat) lam vals (sc : list slot) (tl : list op) J K :
  let D := map s_ev sc in let ops := sched_ops lam vals sc tl in let mask := sched_mask sc tl in
  raw_ok vals -> v_total vals < 2 ^ 31 -> noise_side D J K ops -> valid_run vals D ->
  ok_from cap J (start 1 vals) ops mask ->
  render (pick mask (run cap [] sample (start 1 vals) ops)) = reference vals D /\
  render (pick mask (run cap [] sample (start 1 vals) ops)) = abft_run cap lam vals D.
Proof.
  intros D ops mask Raw Tot Side Valid OK.
  assert (E1 : render (pick mask (run cap [] sample (start 1 vals) ops)) = reference vals D).
  { pose proof (canon_order_perm vals) as Hperm.
    assert (EV : mk_vals vals = vals' vals) by (apply mk_vals_canon; exact Raw).
    assert (Can : canonical (vals' vals)) by (rewrite <- EV; apply mk_vals_canonical; exact Raw).
    assert (Hcanon : canon_order (vals' vals) = seq 0 (length vals)).
    { rewrite (canon_order_canonical _ Can), (vals'_len vals). reflexivity. }
    assert (Vok : vals_ok (vals' vals)).
    { split; [exact Can|]. rewrite v_total_total. change VecIndex.total_weight with ElectionSpec.total_weight.
      rewrite (total_same vals). exact Tot. }
    destruct (reference_pn vals Hcanon D Valid) as [Valid' ER].
    set (sc' := map (fun s => {| s_pre := s_pre s; s_ev := pe vals (s_ev s); s_mid := s_mid s |}) sc).
    assert (ED' : map s_ev sc' = map (pe vals) D) by (unfold sc', D; rewrite !map_map; reflexivity).
    assert (Hcr : forall e, In e D -> (ecr (fe e) < length vals)%nat).
    { intros e He. destruct Valid as [Hacc _]. apply (accepted_cr vals _ _ (table_wfTD vals D Hacc) e). apply -> in_rev. exact He. }
    assert (Estart : start 1 vals = start 1 (vals' vals)) by (unfold start; rewrite EV, Can; reflexivity).
    assert (Eops : sched_ops (fun e' => lam (upe vals e')) (vals' vals) sc' tl = ops).
    { unfold ops, sched_ops, sched_ops_ep, sc'. f_equal. rewrite !flat_map_concat_map, map_map. f_equal. apply map_ext_in. intros s Hs.
      cbn [s_pre s_ev s_mid].
      assert (He : In (s_ev s) D) by (unfold D; apply in_map; exact Hs).
      assert (Eae : to_aevent 1 (fun e' => lam (upe vals e')) (vals' vals) (pe vals (s_ev s)) = to_aevent 1 lam vals (s_ev s)).
      { unfold to_aevent. cbn [pe fe ffr eid ecr eseq epar]. fold (pe vals (s_ev s)). rewrite (upe_pe vals _ (Hcr _ He)). f_equal. unfold vid.
        rewrite (vid_vals' vals _ (pos_lt _ _ Hperm _ (Hcr _ He))), (unpos_pos _ _ Hperm _ (Hcr _ He)). reflexivity. }
      rewrite Eae. reflexivity. }
    assert (Emask : sched_mask sc' tl = mask).
    { unfold mask, sched_mask, sc'. f_equal. rewrite !flat_map_concat_map, map_map. reflexivity. }
    pose proof (link_noise cap (fun e' => lam (upe vals e')) (vals' vals) sc' tl J K) as LN. cbn zeta in LN.
    rewrite Eops, Emask, ED', <- Estart in LN. rewrite <- ER. apply LN; auto.
    destruct Side as (Hf & HJ & HB & HK). split; [|split; [exact HJ | split; [exact HB | exact HK]]].
    intros e' He'. apply in_map_iff in He' as [e [<- He]]. apply (Hf e He). }
  split; [exact E1|]. rewrite E1. symmetry. apply link_full_raw; [|exact Valid].
  destruct Side as (Hf & HJ & HB & HK).
  assert (HL : N.of_nat (length D) <= K).
  { pose proof (count_builds_sched 1 lam vals sc tl) as H. unfold D. rewrite map_length. change (sched_ops_ep 1 lam vals sc tl) with ops in H. lia. }
  split; [exact Raw|]. split; [exact Tot|]. split; [|lia].
  intros e He (ep0 & lm & c & t & Bc & S & E). apply (proj1 (Hf e He)). exists ep0, lm, c, t. split; [lia | auto].
Qed.
