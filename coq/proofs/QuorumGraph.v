(* C20 on top of C06: the observation the quorum indexer reads from the vector index is the graph
   specification's (fork -> 2^31-2, else highest seq of the validator among the ancestors-or-self). *)
From Coq Require Import List Arith NArith Bool Lia.
From LV Require Import model.VecIndex spec.FcSpec model.QuorumIdx spec.QuorumSpec lib.VecListFacts
  proofs.VecMerged proofs.VecMain proofs.QuorumProofs.
Import ListNotations.
Open Scope N_scope.

Lemma seq_of_proj x : seq_of x = obs_of_spec (proj x).
Proof. unfold seq_of, obs_of_spec, proj. cbn [fst snd]. destruct (is_fork x); reflexivity. Qed.

Lemma map_nth_seq {A B} (f : A -> B) (l : list A) d :
  map (fun v => f (nth v l d)) (List.seq 0 (length l)) = map f l.
Proof.
  apply (nth_ext _ _ (f d) (f d)).
  - rewrite !map_length, seq_length. reflexivity.
  - intros i Hi. rewrite map_length, seq_length in Hi.
    rewrite (nth_map_seq_gen (fun v => f (nth v l d))) by exact Hi. rewrite map_nth. reflexivity.
Qed.

Theorem obs_clock_graph n o a : wf_stream n o -> indexed o a ->
  obs_clock n (merged (index_all n o) a) = map obs_of_spec (merged_spec n (dag_of o) a).
Proof.
  intros W Ha. pose proof (merged_index_all n o a W Ha) as H.
  assert (Hlen : length (merged (index_all n o) a) = n).
  { apply (f_equal (@length _)) in H. rewrite map_length in H. rewrite H. unfold merged_spec. rewrite map_length, seq_length. reflexivity. }
  unfold obs_clock. rewrite <- H, map_map. rewrite <- Hlen at 1.
  unfold hb_get. rewrite (map_nth_seq seq_of (merged (index_all n o) a) (0, 0)).
  apply map_ext. intros x. apply seq_of_proj.
Qed.

(* ---------- Round 2: end to end over an event stream ---------- *)
From LV Require Import proofs.FcSpecFacts proofs.VecInv.

Lemma wf_from_firstn n : forall o E k, wf_from n E o -> wf_from n E (firstn k o).
Proof.
  induction o as [|e o IH]; intros E k W; destruct k; cbn [firstn wf_from]; auto.
  destruct W as [We Wo]. split; [exact We|apply IH; exact Wo].
Qed.
Lemma wf_stream_firstn n o k : wf_stream n o -> wf_stream n (firstn k o).
Proof. apply wf_from_firstn. Qed.
Lemma dag_prefix_submap n o k : wf_stream n o -> submap (dag_of (firstn k o)) (dag_of o).
Proof.
  intros W x ex Hx. apply (alookup_dag_of n _ x ex (wf_stream_firstn n o k W)) in Hx.
  apply (alookup_dag_of n o x ex W). destruct Hx as [Hin Hid]. split; [eapply firstn_incl; eauto|exact Hid].
Qed.
Lemma dag_closed n o : wf_stream n o -> closed (dag_of o).
Proof. intros W. destruct (index_all_inv n o W) as [I HE]. rewrite <- HE. apply (v_closed n _ I). Qed.

(* a processed item: ProcessEvent(event id, self flag) was called when the first k events were indexed *)
Definition pitem := (nat * N * bool)%type.
Definition cr_of (o : list event) (id : N) : nat := match alookup id (dag_of o) with Some e => ecr e | None => 0%nat end.
Definition h_of (n : nat) (o : list event) (ps : list pitem) : list qop :=
  map (fun p : pitem => let '(k, id, self) := p in QP (merged (index_all n (firstn k o)) id) (cr_of o id) self) ps.
Definition pitems_ok (o : list event) (ps : list pitem) : Prop :=
  forall k id self, In (k, id, self) ps -> indexed (firstn k o) id.
(* the observation of the property text, from the graph only *)
Definition gobs (n : nat) (o : list event) (id : N) : list N := map obs_of_spec (merged_spec n (dag_of o) id).
Fixpoint glast (n : nat) (o : list event) (psrev : list pitem) (c : nat) : list N :=
  match psrev with [] => repeat 0 n
  | (_, id, _) :: t => if Nat.eqb c (cr_of o id) then gobs n o id else glast n o t c end.
Definition grow (n : nat) (o : list event) (ps : list pitem) (v : nat) : list N :=
  map (fun c => nth v (glast n o (rev ps) c) 0) (List.seq 0 n).

Lemma obs_clock_prefix n o k id : wf_stream n o -> indexed (firstn k o) id ->
  obs_clock n (merged (index_all n (firstn k o)) id) = gobs n o id.
Proof.
  intros W Hi. rewrite (obs_clock_graph n (firstn k o) id (wf_stream_firstn n o k W) Hi). unfold gobs. f_equal.
  symmetry. apply merged_spec_submap; [apply (dag_prefix_submap n o k W)|apply (dag_closed n _ (wf_stream_firstn n o k W))|exact Hi].
Qed.

Lemma last_obs_graph n o : wf_stream n o -> forall L c, pitems_ok o L ->
  last_obs n (h_of n o L) c = glast n o L c.
Proof.
  intros W. induction L as [|[[k id] self] L IH]; intros c Hok; cbn [h_of map last_obs glast]; [reflexivity|].
  fold (h_of n o L). destruct (Nat.eqb c (cr_of o id)).
  - apply obs_clock_prefix; [exact W|]. apply (Hok k id self). left. reflexivity.
  - apply IH. intros k' id' s' Hin. apply (Hok k' id' s'). right. exact Hin.
Qed.

Theorem medians_from_graph diff ws n o ps : wf_stream n o -> length ws = n -> 0 < total_weight ws -> pitems_ok o ps ->
  exists st meds st', qrun diff ws (quorum_of ws) n (h_of n o ps) = Some st /\
    qi_medians ws (quorum_of ws) st = Some (meds, st') /\ length meds = n /\
    forall v, (v < n)%nat ->
      nth v meds 0 = median_spec ws (quorum_of ws) (grow n o ps v) /\
      is_quorum_median ws (quorum_of ws) (grow n o ps v) (nth v meds 0).
Proof.
  intros W Hl Ht Hok.
  assert (Hc : creators_ok n (h_of n o ps)).
  { intros clock c self Hin. unfold h_of in Hin. apply in_map_iff in Hin. destruct Hin as ([[k id] s0] & Heq & Hin).
    injection Heq as _ <- _. destruct (Hok k id s0 Hin) as [ea Ha].
    apply (dag_prefix_submap n o k W) in Ha. unfold cr_of. rewrite Ha.
    destruct (index_all_inv n o W) as [I HE]. rewrite <- HE in Ha. apply (v_ev n _ I id ea Ha). }
  destruct (medians_after_history diff ws n (h_of n o ps) Hl Ht Hc) as (st & meds & st' & E1 & E2 & E3 & E4).
  exists st, meds, st'. split; [exact E1|]. split; [exact E2|]. split; [exact E3|].
  intros v Hv. destruct (E4 v Hv) as [A B].
  assert (Hrow : obs_row n (rev (h_of n o ps)) v = grow n o ps v).
  { unfold obs_row, grow. apply map_ext. intros c. f_equal.
    unfold h_of. rewrite <- map_rev. fold (h_of n o (rev ps)). apply (last_obs_graph n o W).
    intros k id s0 Hin. apply (Hok k id s0). apply in_rev. exact Hin. }
  rewrite Hrow in A, B. split; [exact B|exact A].
Qed.

(* "a detected fork counts as the maximal observation": true as long as sequence numbers stay below
   2^31-2 (FORKSEQ), which is an explicit hypothesis here *)
Theorem fork_obs_is_maximal n o a v : wf_stream n o -> (forall e, In e o -> eseq e < FORKSEQ) -> (v < n)%nat ->
  nth v (gobs n o a) 0 <= FORKSEQ /\
  (nth v (gobs n o a) 0 = FORKSEQ <-> SeesFork (dag_of o) a v).
Proof.
  intros W Hb Hv. unfold gobs.
  assert (Hn : nth v (map obs_of_spec (merged_spec n (dag_of o) a)) 0 = obs_of_spec (nth v (merged_spec n (dag_of o) a) (false, 0)))
    by (change 0 with (obs_of_spec (false, 0)) at 1; apply map_nth).
  rewrite Hn. clear Hn.
  destruct (merged_spec_meaning n (dag_of o) a v Hv) as [(HS & ->)|(Hns & M & -> & HM)]; cbn [obs_of_spec fst snd].
  - split; [unfold FORKSEQ; lia|]. split; [intros _; exact HS|reflexivity].
  - assert (HMb : M < FORKSEQ).
    { destruct HM as [_ [->|(x & ex & _ & Lx & _ & <-)]]; [unfold FORKSEQ; lia|].
      apply Hb. apply (alookup_dag_of n o x ex W). exact Lx. }
    split; [lia|]. split; [intros H; lia|intros H; contradiction].
Qed.
