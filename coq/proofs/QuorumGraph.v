(* C20 on top of C06: the observation the quorum indexer reads from the vector index is the graph
   specification's (fork -> 2^31-2, else highest seq of the validator among the ancestors-or-self). *)
From Coq Require Import List Arith NArith Bool Lia.
From LV Require Import model.VecIndex spec.FcSpec model.QuorumIdx spec.QuorumSpec lib.VecListFacts
  proofs.VecMerged proofs.VecMain proofs.QuorumProofs.
Import ListNotations.
Open Scope N_scope.

Lemma seq_of_proj x : seq_of x = obs_of_spec (proj x).
Proof. unfold seq_of, obs_of_spec, proj. cbn [fst snd]. destruct (is_fork x); reflexivity. Qed.

Lemma map_nth_seq {A B} (f : A -> B) (l : list A) d :
  map (fun v => f (nth v l d)) (List.seq 0 (length l)) = map f l.
Proof.
  apply (nth_ext _ _ (f d) (f d)).
  - rewrite !map_length, seq_length. reflexivity.
  - intros i Hi. rewrite map_length, seq_length in Hi.
    rewrite (nth_map_seq_gen (fun v => f (nth v l d))) by exact Hi. rewrite map_nth. reflexivity.
Qed.

Theorem obs_clock_graph n o a : wf_stream n o -> indexed o a ->
  obs_clock n (merged (index_all n o) a) = map obs_of_spec (merged_spec n (dag_of o) a).
Proof.
  intros W Ha. pose proof (merged_index_all n o a W Ha) as H.
  assert (Hlen : length (merged (index_all n o) a) = n).
  { apply (f_equal (@length _)) in H. rewrite map_length in H. rewrite H. unfold merged_spec. rewrite map_length, seq_length. reflexivity. }
  unfold obs_clock. rewrite <- H, map_map. rewrite <- Hlen at 1.
  unfold hb_get. rewrite (map_nth_seq seq_of (merged (index_all n o) a) (0, 0)).
  apply map_ext. intros x. apply seq_of_proj.
Qed.
