(* C05/C06: Engine.Add, the HighestBefore vector of the new event: CollectFrom over the parents
   computes the true ranges of the seen branch events (or inherits a fork marker); the two detection
   passes mark exactly the creators of which the new event sees a seq-fork. *)
From Coq Require Import List Arith NArith ZArith Bool Lia.
From Coq Require Import ZifyBool ZifyNat ZifyN.
From LV Require Import model.VecIndex spec.FcSpec lib.VecListFacts proofs.FcSpecFacts proofs.VecHb proofs.VecDfs proofs.VecInv proofs.VecStep.
Import ListNotations.
Open Scope N_scope.

Lemma is_fork_nonzero (x : hbs) : fst x <> 0 -> is_fork x = false.
Proof. intros H. unfold is_fork. destruct (N.eqb_spec (fst x) 0); [contradiction|reflexivity]. Qed.

Section StepHb.
Variable n : nat.
Variable s : vidx.
Variable e : event.
Variable me : nat.
Variable s1 : vidx.
Variable nb0 : nat.
Hypothesis I : vinv n s.
Hypothesis W : wf_new n s e.
Hypothesis F : fb_ok n s e me s1.
Let G := v_g n s I.
Local Notation s' := (mk_add s1 e me nb0).
Local Notation E := (evs s).
Local Notation E' := (evs (mk_add s1 e me nb0)).
Let G' : ginv n s' := ginv_new n s e me s1 nb0 G W F.

(* ranges over an arbitrary set of events of the new state *)
Definition TRs (S : N -> Prop) (v : hbs) : Prop :=
  ((forall x, ~ S x) /\ fst v = 0) \/
  (exists hi lo, S hi /\ S lo /\ seqv s' hi = fst v /\ seqv s' lo = snd v /\
                 forall z, S z -> snd v <= seqv s' z <= fst v).
Lemma TRs_ext (S S' : N -> Prop) v : (forall x, S x <-> S' x) -> TRs S v -> TRs S' v.
Proof.
  intros H [[Hn Hz]|(hi & lo & A & B & C & D & R)].
  - left. split; [|exact Hz]. intros x Hx. apply H in Hx. exact (Hn x Hx).
  - right. exists hi, lo. split; [apply H; exact A|]. split; [apply H; exact B|]. split; [exact C|]. split; [exact D|].
    intros z Hz. apply R. apply H. exact Hz.
Qed.

Lemma TRs_merge (S1 S2 : N -> Prop) m h :
  (forall z, S1 z -> 1 <= seqv s' z) -> (forall z, S2 z -> 1 <= seqv s' z) ->
  is_fork m = false -> is_fork h = false -> TRs S1 m -> TRs S2 h ->
  TRs (fun x => S1 x \/ S2 x) (merge1 m h) /\ is_fork (merge1 m h) = false.
Proof.
  intros P1 P2 Fm Fh T1 T2. unfold merge1. rewrite Fh, Fm. cbn [negb]. rewrite andb_true_r.
  destruct (N.eqb_spec (fst h) 0) as [Hh0|Hh0].
  - (* parent sees nothing of the branch *)
    split; [|exact Fm]. destruct T2 as [[Hn2 _]|(hi & lo & A & _ & C & _)].
    + eapply TRs_ext; [|exact T1]. intros x. split; [auto|intros [H|H]; [exact H|exfalso; exact (Hn2 x H)]].
    + specialize (P2 hi A). lia.
  - destruct T2 as [[_ Hz]|(hi2 & lo2 & A2 & B2 & C2 & D2 & R2)]; [contradiction|].
    destruct (N.eqb_spec (fst m) 0) as [Hm0|Hm0]; cbn [orb].
    + (* nothing seen so far: take the parent's range *)
      cbn [fst snd]. destruct (N.ltb_spec 0 (fst h)) as [_|]; [|lia]. rewrite Hm0.
      destruct (N.ltb_spec 0 (fst h)) as [_|]; [|lia]. cbn [fst snd].
      split; [|apply is_fork_nonzero; cbn [fst]; exact Hh0].
      destruct T1 as [[Hn1 _]|(hi & lo & A & _ & C & _)]; [|specialize (P1 hi A); lia].
      right. exists hi2, lo2. cbn [fst snd]. split; [right; exact A2|]. split; [right; exact B2|].
      split; [exact C2|]. split; [exact D2|]. intros z [Hz|Hz]; [exfalso; exact (Hn1 z Hz)|apply R2; exact Hz].
    + destruct T1 as [[_ Hz]|(hi1 & lo1 & A1 & B1 & C1 & D1 & R1)]; [contradiction|].
      pose proof (R1 hi1 A1) as Q1. pose proof (R1 lo1 B1) as Q1'. pose proof (R2 hi2 A2) as Q2. pose proof (R2 lo2 B2) as Q2'.
      destruct (N.ltb_spec (snd h) (snd m)) as [Hmin|Hmin]; cbn [fst snd];
      destruct (N.ltb_spec (fst m) (fst h)) as [Hmax|Hmax]; cbn [fst snd].
      * split; [|apply is_fork_nonzero; cbn [fst]; lia]. right. exists hi2, lo2. cbn [fst snd].
        split; [right; exact A2|]. split; [right; exact B2|]. split; [exact C2|]. split; [exact D2|].
        intros z [Hz|Hz]; [specialize (R1 z Hz)|specialize (R2 z Hz)]; lia.
      * split; [|apply is_fork_nonzero; cbn [fst]; lia]. right. exists hi1, lo2. cbn [fst snd].
        split; [left; exact A1|]. split; [right; exact B2|]. split; [exact C1|]. split; [exact D2|].
        intros z [Hz|Hz]; [specialize (R1 z Hz)|specialize (R2 z Hz)]; lia.
      * split; [|apply is_fork_nonzero; cbn [fst]; lia]. right. exists hi2, lo1.
        destruct m as [m1 m2]. cbn [fst snd] in *.
        split; [right; exact A2|]. split; [left; exact B1|]. split; [exact C2|]. split; [exact D1|].
        intros z [Hz|Hz]; [specialize (R1 z Hz)|specialize (R2 z Hz)]; lia.
      * split; [|exact Fm]. right. exists hi1, lo1.
        split; [left; exact A1|]. split; [left; exact B1|]. split; [exact C1|]. split; [exact D1|].
        intros z [Hz|Hz]; [specialize (R1 z Hz)|specialize (R2 z Hz)]; lia.
Qed.

(* events seen through a list of parents (plus the event itself) *)
Definition Sof (b : nat) (L : list N) (x : N) : Prop :=
  onbr s' x b /\ (x = eid e \/ exists p, In p L /\ reach E p x).
Lemma Sof_evt b L x : Sof b L x -> exists ex, evt s' x ex.
Proof.
  intros [_ [->|(p & _ & R)]]; [exists e; apply (evt_new_self n s e me s1 nb0 F)|].
  destruct (reach_in_r _ _ _ R) as [ex Ex]. exists ex. apply (evt_old_new n s e me s1 nb0 W F). exact Ex.
Qed.
Lemma Sof_pos b L x : Sof b L x -> 1 <= seqv s' x.
Proof. intros H. destruct (Sof_evt b L x H) as [ex Ex]. rewrite (seqv_evt s' x ex Ex). apply (g_ev n s' G' x ex Ex). Qed.

Definition pvec (p : N) : list hbs := hbv s p.
Definition Jinv (L : list N) (acc : list hbs) (b : nat) : Prop :=
  (is_fork (hb_get acc b) = true /\ exists p, In p L /\ is_fork (hb_get (pvec p) b) = true) \/
  (is_fork (hb_get acc b) = false /\ (forall p, In p L -> is_fork (hb_get (pvec p) b) = false) /\
   TRs (Sof b L) (hb_get acc b)).

Lemma pvec_ok p ep b : evt s p ep -> HBok s p b (hb_get (pvec p) b).
Proof.
  intros Hp. destruct (v_keys n s I p ep Hp) as ((pv & Hpv) & _). unfold pvec, hbv. rewrite Hpv.
  apply (v_hb n s I p ep pv b Hp Hpv).
Qed.

Lemma J_step L acc b p ep : (b < nbr s1)%nat -> evt s p ep -> Jinv L acc b ->
  Jinv (L ++ [p]) (collect_from (nbr s1) acc (pvec p)) b.
Proof.
  intros Hb Hp HJ. unfold Jinv in *. rewrite collect_from_get.
  destruct (Nat.ltb_spec b (nbr s1)) as [_|]; [|lia].
  set (m := hb_get acc b) in *. set (h := hb_get (pvec p) b).
  pose proof (pvec_ok p ep b Hp) as HB. fold h in HB.
  destruct HJ as [(Fm & q & Hq & Fq)|(Fm & Hall & Tm)].
  - left. split.
    + unfold merge1. destruct ((fst h =? 0) && negb (is_fork h)); [exact Fm|]. rewrite Fm. exact Fm.
    + exists q. split; [apply in_or_app; left; exact Hq|exact Fq].
  - destruct HB as [(Fh & _ & _)|(Fh & Th & _)].
    + left. split.
      * unfold merge1. rewrite Fh, Fm. cbn [negb]. rewrite andb_false_r. reflexivity.
      * exists p. split; [apply in_or_app; right; left; reflexivity|exact Fh].
    + right.
      assert (Th' : TRs (seenb s p b) h).
      { destruct Th as [[Hn Hz]|(hi & lo & A & B & C & D & R)]; [left; auto|].
        right. exists hi, lo.
        destruct (seenb_evt s p b hi A) as [ehi Ehi]. destruct (seenb_evt s p b lo B) as [elo Elo].
        split; [exact A|]. split; [exact B|].
        split; [rewrite (seqv_old n s e me s1 nb0 W F hi ehi Ehi); exact C|].
        split; [rewrite (seqv_old n s e me s1 nb0 W F lo elo Elo); exact D|].
        intros z Hz. destruct (seenb_evt s p b z Hz) as [ez Ez]. rewrite (seqv_old n s e me s1 nb0 W F z ez Ez). apply R. exact Hz. }
      destruct (TRs_merge (Sof b L) (seenb s p b) m h) as [TR' Fr]; auto.
      { intros z Hz. eapply Sof_pos; eauto. }
      { intros z Hz. destruct (seenb_evt s p b z Hz) as [ez Ez]. rewrite (seqv_old n s e me s1 nb0 W F z ez Ez).
        rewrite (seqv_evt s z ez Ez). apply (g_ev n s G z ez Ez). }
      split; [exact Fr|]. split.
      * intros q Hq. apply in_app_or in Hq. destruct Hq as [Hq|[<-|[]]]; [apply Hall; exact Hq|exact Fh].
      * eapply TRs_ext; [|exact TR']. intros x. unfold Sof, seenb. split.
        -- intros [[Bx [->|(q & Hq & R)]]|[R Bx]].
           ++ split; [exact Bx|left; reflexivity].
           ++ split; [exact Bx|right; exists q; split; [apply in_or_app; left; exact Hq|exact R]].
           ++ split; [apply (onbr_new n s e me s1 nb0 F); right; split; [eapply reach_old_in; eauto|exact Bx]|].
              right. exists p. split; [apply in_or_app; right; left; reflexivity|exact R].
        -- intros [Bx [->|(q & Hq & R)]]; [left; split; [exact Bx|left; reflexivity]|].
           apply in_app_or in Hq. destruct Hq as [Hq|[<-|[]]].
           ++ left. split; [exact Bx|right; exists q; auto].
           ++ right. split; [exact R|]. apply (onbr_new n s e me s1 nb0 F) in Bx.
              destruct Bx as [[Hx _]|[_ Bx]]; [exfalso; eapply reach_old_in; eauto|exact Bx].
Qed.

Lemma J_fold : forall rest L acc, (forall p, In p rest -> exists ep, evt s p ep) ->
  (forall b, (b < nbr s1)%nat -> Jinv L acc b) ->
  forall b, (b < nbr s1)%nat ->
    Jinv (L ++ rest) (fold_left (fun a pv => collect_from (nbr s1) a pv) (map pvec rest) acc) b.
Proof.
  induction rest as [|p rest IH]; intros L acc Hev HJ b Hb; cbn [map fold_left].
  - rewrite app_nil_r. apply HJ. exact Hb.
  - destruct (Hev p (or_introl eq_refl)) as [ep Hp].
    replace (L ++ p :: rest) with ((L ++ [p]) ++ rest) by (rewrite <- app_assoc; reflexivity).
    apply IH; [intros q Hq; apply Hev; right; exact Hq| |exact Hb].
    intros b' Hb'. eapply J_step; eauto.
Qed.

Definition before0 : list hbs := hb_set (repeat (0, 0) nb0) me (eseq e, eseq e).
Lemma J_init b : Jinv [] before0 b.
Proof.
  right. unfold before0. rewrite hb_get_set, hb_get_repeat. pose proof W as (_ & _ & Hseq & _).
  destruct (Nat.eqb_spec b me) as [->|Hne].
  - split; [apply is_fork_nonzero; cbn [fst]; lia|]. split; [intros p []|].
    right. exists (eid e), (eid e).
    assert (Hs : Sof me [] (eid e)) by (split; [apply (onbr_new_self n s e me s1 nb0 F)|left; reflexivity]).
    assert (Hq : seqv s' (eid e) = eseq e) by (apply (seqv_evt s'); apply (evt_new_self n s e me s1 nb0 F)).
    split; [exact Hs|]. split; [exact Hs|]. split; [exact Hq|]. split; [exact Hq|].
    intros z [_ [->|(p & [] & _)]]. cbn [fst snd]. lia.
  - split; [reflexivity|]. split; [intros p []|]. left. split; [|reflexivity].
    intros x [Bx [->|(p & [] & _)]]. apply (onbr_new n s e me s1 nb0 F) in Bx.
    destruct Bx as [[_ Hb]|[Hx _]]; [contradiction|apply Hx; reflexivity].
Qed.

Lemma Sof_seen b x : Sof b (epar e) x <-> seenb s' (eid e) b x.
Proof.
  unfold Sof, seenb. rewrite (reach_self n s e me s1 nb0 G W F). tauto.
Qed.

(* ---------- after CollectFrom over all parents ---------- *)
Let v0 := new_before1 s1 e me nb0.
Lemma v0_eq : v0 = fold_left (fun a pv => collect_from (nbr s1) a pv) (map pvec (epar e)) before0.
Proof.
  unfold v0, new_before1, before0. f_equal. apply map_ext. intros p. unfold pvec, hbv. rewrite (fb_hb _ _ _ _ _ F). reflexivity.
Qed.
Lemma v0_J b : (b < nbr s1)%nat -> Jinv (epar e) v0 b.
Proof.
  intros Hb. rewrite v0_eq. apply (J_fold (epar e) [] before0); [|intros; apply J_init|exact Hb].
  pose proof W as (_ & _ & _ & Hpar & _). exact Hpar.
Qed.
Lemma v0_out b : (nbr s1 <= b)%nat -> hb_get v0 b = (0, 0).
Proof.
  intros Hb. rewrite v0_eq. generalize (map pvec (epar e)). intros l.
  assert (H0 : hb_get before0 b = (0, 0)).
  { unfold before0. rewrite hb_get_set, hb_get_repeat. pose proof (fb_me _ _ _ _ _ F).
    destruct (Nat.eqb_spec b me); [lia|reflexivity]. }
  revert H0. generalize before0. induction l as [|pv l IH]; intros acc H0; cbn [fold_left]; [exact H0|].
  apply IH. rewrite collect_from_get. destruct (Nat.ltb_spec b (nbr s1)); [lia|exact H0].
Qed.

Lemma seesfork_via_parent p ep v : In p (epar e) -> evt s p ep -> SeesFork E p v -> SeesFork E' (eid e) v.
Proof.
  intros Hin Hp (x & y & Rx & Ry & Hf). exists x, y.
  split; [apply (reach_self n s e me s1 nb0 G W F); right; exists p; auto|].
  split; [apply (reach_self n s e me s1 nb0 G W F); right; exists p; auto|].
  apply (fork_pair_old n s e me s1 nb0 F); eauto using (reach_old_in n s e W).
Qed.

Lemma v0_marker_fk b : (b < nbr s1)%nat -> is_fork (hb_get v0 b) = true -> SeesFork E' (eid e) (crb s1 b).
Proof.
  intros Hb Hf. destruct (v0_J b Hb) as [(_ & p & Hp & Fp)|(Hnf & _)]; [|congruence].
  pose proof W as (_ & _ & _ & Hpar & _). destruct (Hpar p Hp) as [ep Ep].
  destruct (pvec_ok p ep b Ep) as [(_ & Hbs & HS)|(Hnf & _)]; [|congruence].
  rewrite (fb_crb_old _ _ _ _ _ F) by exact Hbs. eapply seesfork_via_parent; eauto.
Qed.
Lemma v0_unmarked_TR b : (b < nbr s1)%nat -> is_fork (hb_get v0 b) = false -> TR s' (eid e) b (hb_get v0 b).
Proof.
  intros Hb Hf. destruct (v0_J b Hb) as [(Hm & _)|(_ & _ & T)]; [congruence|].
  apply (TRs_ext (Sof b (epar e))); [apply Sof_seen|exact T].
Qed.

(* ---------- block structure of s1 ---------- *)
Lemma s1_nvals : nvals s1 = n. Proof. apply (fb_sinv _ _ _ _ _ F). Qed.
Lemma s1_brcr_init c : (c < nvals s1)%nat -> nth c (br_cr s1) 0%nat = c.
Proof. intros H. rewrite s1_nvals in H. destruct (fb_sinv _ _ _ _ _ F) as (_ & _ & _ & A4 & _). apply A4. exact H. Qed.
Lemma s1_in_brs c b : (c < n)%nat -> (In b (brs_of s1 c) <-> (b < nbr s1)%nat /\ crb s1 b = c).
Proof. destruct (fb_sinv _ _ _ _ _ F) as (_ & _ & _ & _ & _ & _ & A7 & _). apply A7. Qed.
Lemma s1_disj c c' i : (c < nvals s1)%nat -> (c' < nvals s1)%nat -> In i (brs_of s1 c) -> In i (brs_of s1 c') -> c = c'.
Proof.
  rewrite s1_nvals. intros Hc Hc' H H'. apply (s1_in_brs c i Hc) in H. apply (s1_in_brs c' i Hc') in H'.
  destruct H as [_ <-]. destruct H' as [_ <-]. reflexivity.
Qed.
Lemma s1_self c : (c < nvals s1)%nat -> In c (brs_of s1 c).
Proof.
  rewrite s1_nvals. intros Hc. apply (s1_in_brs c c Hc).
  destruct (fb_sinv _ _ _ _ _ F) as (_ & _ & A3 & A4 & _). split; [lia|apply A4; exact Hc].
Qed.
Lemma s1_crb_lt b : (b < nbr s1)%nat -> (crb s1 b < n)%nat.
Proof. destruct (fb_sinv _ _ _ _ _ F) as (_ & _ & _ & _ & A5 & _). apply A5. Qed.

(* two different branches of c with a common sequence number in their seen ranges: a visible fork *)
Lemma overlap_fk c a b : (c < n)%nat -> In a (brs_of s1 c) -> In b (brs_of s1 c) ->
  is_fork (hb_get v0 a) = false -> is_fork (hb_get v0 b) = false -> overlap v0 a b = true ->
  SeesFork E' (eid e) c.
Proof.
  intros Hc Ha Hb Fa Fb Ho.
  apply (s1_in_brs c a Hc) in Ha. apply (s1_in_brs c b Hc) in Hb. destruct Ha as [La Ca]. destruct Hb as [Lb Cb].
  unfold overlap, is_empty in Ho. rewrite Fa, Fb in Ho. cbn [negb andb] in Ho.
  apply andb_true_iff in Ho. destruct Ho as [Ho O2]. apply andb_true_iff in Ho. destruct Ho as [Ho O1].
  apply andb_true_iff in Ho. destruct Ho as [Ho Nb]. apply andb_true_iff in Ho. destruct Ho as [Hab Na].
  apply negb_true_iff, Nat.eqb_neq in Hab. apply negb_true_iff, N.eqb_neq in Na, Nb. apply N.leb_le in O1, O2.
  destruct (v0_unmarked_TR a La Fa) as [[_ Hz]|(hia & loa & [Rhia Bhia] & [Rloa Bloa] & Chia & Cloa & Ra)]; [contradiction|].
  destruct (v0_unmarked_TR b Lb Fb) as [[_ Hz]|(hib & lob & [Rhib Bhib] & [Rlob Blob] & Chib & Clob & Rb)]; [contradiction|].
  destruct (reach_in_r _ _ _ Rhia) as [ehia Ehia]. destruct (reach_in_r _ _ _ Rloa) as [eloa Eloa].
  destruct (reach_in_r _ _ _ Rhib) as [ehib Ehib]. destruct (reach_in_r _ _ _ Rlob) as [elob Elob].
  rewrite (seqv_evt s' hia ehia Ehia) in Chia. rewrite (seqv_evt s' loa eloa Eloa) in Cloa.
  rewrite (seqv_evt s' hib ehib Ehib) in Chib. rewrite (seqv_evt s' lob elob Elob) in Clob.
  pose proof (Ra loa (conj Rloa Bloa)) as Qa. rewrite (seqv_evt s' loa eloa Eloa) in Qa.
  pose proof (Rb lob (conj Rlob Blob)) as Qb. rewrite (seqv_evt s' lob elob Elob) in Qb.
  set (sq := N.max (snd (hb_get v0 a)) (snd (hb_get v0 b))).
  destruct (branch_contig n s' G' (N.to_nat (eseq ehia - sq)) hia ehia loa eloa a sq Ehia Eloa Bhia Bloa ltac:(lia) ltac:(lia))
    as (za & eza & Eza & Bza & Sza & Rza).
  destruct (branch_contig n s' G' (N.to_nat (eseq ehib - sq)) hib ehib lob elob b sq Ehib Elob Bhib Blob ltac:(lia) ltac:(lia))
    as (zb & ezb & Ezb & Bzb & Szb & Rzb).
  exists za, zb. split; [exact (reach_trans _ _ _ _ Rhia Rza)|]. split; [exact (reach_trans _ _ _ _ Rhib Rzb)|].
  split.
  - intros ->. unfold onbr in Bza, Bzb. congruence.
  - exists eza, ezb. split; [exact Eza|]. split; [exact Ezb|].
    destruct (g_br n s' G' za eza a Eza Bza) as (_ & Cza & _). destruct (g_br n s' G' zb ezb b Ezb Bzb) as (_ & Czb & _).
    change (crb s' a) with (crb s1 a) in Cza. change (crb s' b) with (crb s1 b) in Czb.
    split; [congruence|]. split; [congruence|lia].
Qed.

(* ---------- the detected vector ---------- *)
Let v2 := new_before s1 e me nb0.
Let v1 := fold_left (step1 s1) (List.seq 0 (nvals s1)) v0.

Lemma v2_get c b : (c < n)%nat -> In b (brs_of s1 c) ->
  hb_get v2 b = if negb (at_least_one_fork s1) then hb_get v0 b else
                if pass2_cond s1 v1 c then FORK else if pass1_cond s1 v0 c then FORK else hb_get v0 b.
Proof.
  intros Hc Hb. unfold v2, new_before. fold v0.
  rewrite (detect_forks_get s1 s1_brcr_init s1_disj s1_self v0 c b) by (try rewrite s1_nvals; assumption).
  reflexivity.
Qed.
Lemma v1_get c b : (c < n)%nat -> In b (brs_of s1 c) ->
  hb_get v1 b = if pass1_cond s1 v0 c then FORK else hb_get v0 b.
Proof.
  intros Hc Hb. unfold v1. apply (pass1_vec_get s1 s1_brcr_init s1_disj); [rewrite s1_nvals|]; assumption.
Qed.

Lemma pass1_true c : pass1_cond s1 v0 c = true ->
  exists b, In b (brs_of s1 c) /\ is_fork (hb_get v0 b) = true.
Proof.
  unfold pass1_cond. intros H. apply andb_true_iff in H. destruct H as [_ H].
  apply existsb_exists in H. exact H.
Qed.

Lemma marked_fk c b : (c < n)%nat -> In b (brs_of s1 c) -> is_fork (hb_get v2 b) = true -> SeesFork E' (eid e) c.
Proof.
  intros Hc Hb Hf.
  assert (Hmk : forall b', In b' (brs_of s1 c) -> is_fork (hb_get v0 b') = true -> SeesFork E' (eid e) c).
  { intros b' Hb' Hf'. apply (s1_in_brs c b' Hc) in Hb'. destruct Hb' as [Lb' <-]. apply v0_marker_fk; assumption. }
  rewrite (v2_get c b Hc Hb) in Hf.
  destruct (negb (at_least_one_fork s1)); [exact (Hmk b Hb Hf)|].
  destruct (pass2_cond s1 v1 c) eqn:P2.
  - unfold pass2_cond in P2. apply andb_true_iff in P2. destruct P2 as [Hnc Hex].
    apply negb_true_iff in Hnc.
    assert (Hcs : In c (brs_of s1 c)) by (apply s1_self; rewrite s1_nvals; exact Hc).
    destruct (pass1_cond s1 v0 c) eqn:P1.
    + rewrite (v1_get c c Hc Hcs), P1 in Hnc. discriminate.
    + apply existsb_exists in Hex. destruct Hex as (a & Ha & Hex). apply existsb_exists in Hex. destruct Hex as (b' & Hb' & Ho).
      assert (Hov : overlap v0 a b' = true).
      { rewrite <- Ho. apply overlap_local; symmetry.
        - rewrite (v1_get c a Hc Ha), P1. reflexivity.
        - rewrite (v1_get c b' Hc Hb'), P1. reflexivity. }
      destruct (is_fork (hb_get v0 a)) eqn:Fa; [exact (Hmk a Ha Fa)|].
      destruct (is_fork (hb_get v0 b')) eqn:Fb; [exact (Hmk b' Hb' Fb)|].
      exact (overlap_fk c a b' Hc Ha Hb' Fa Fb Hov).
  - destruct (pass1_cond s1 v0 c) eqn:P1.
    + destruct (pass1_true c P1) as (b' & Hb' & Hf'). exact (Hmk b' Hb' Hf').
    + exact (Hmk b Hb Hf).
Qed.

Lemma fk_marked c b : (c < n)%nat -> In b (brs_of s1 c) -> SeesFork E' (eid e) c -> is_fork (hb_get v2 b) = true.
Proof.
  intros Hc Hb HS.
  destruct (SeesFork_two_branches n s' G' (eid e) c HS) as (_ & Hlen & Halof).
  change (at_least_one_fork s') with (at_least_one_fork s1) in Halof.
  change (brs_of s' c) with (brs_of s1 c) in Hlen.
  rewrite (v2_get c b Hc Hb), Halof. cbn [negb].
  destruct (pass2_cond s1 v1 c) eqn:P2; [reflexivity|].
  destruct (pass1_cond s1 v0 c) eqn:P1; [reflexivity|exfalso].
  (* no branch of c is marked after CollectFrom *)
  assert (Hnm : forall b', In b' (brs_of s1 c) -> is_fork (hb_get v0 b') = false).
  { intros b' Hb'. destruct (is_fork (hb_get v0 b')) eqn:Hf; [|reflexivity].
    unfold pass1_cond in P1. apply andb_false_iff in P1. destruct P1 as [P1|P1].
    - apply negb_false_iff, Nat.leb_le in P1. lia.
    - assert (existsb (fun b0 => is_fork (hb_get v0 b0)) (brs_of s1 c) = true) by (apply existsb_exists; eauto). congruence. }
  destruct HS as (x & y & Rx & Ry & Hf).
  destruct (fork_pair_branches n s' G' c x y Hf) as (ex & ey & bx & by_ & Ex & Ey & Bx & By & Hne & Cx & Cy & Hs & Lx & Ly).
  change (crb s' bx) with (crb s1 bx) in Cx. change (crb s' by_) with (crb s1 by_) in Cy.
  change (nbr s') with (nbr s1) in Lx, Ly.
  assert (Hbx : In bx (brs_of s1 c)) by (apply (s1_in_brs c bx Hc); auto).
  assert (Hby : In by_ (brs_of s1 c)) by (apply (s1_in_brs c by_ Hc); auto).
  assert (Hcs : In c (brs_of s1 c)) by (apply s1_self; rewrite s1_nvals; exact Hc).
  assert (Hrange : forall z ez bz, reach E' (eid e) z -> evt s' z ez -> onbr s' z bz -> In bz (brs_of s1 c) ->
             fst (hb_get v0 bz) <> 0 /\ snd (hb_get v0 bz) <= eseq ez <= fst (hb_get v0 bz)).
  { intros z ez bz Rz Ez Bz Hbz. pose proof (Hnm bz Hbz) as Fz. apply (s1_in_brs c bz Hc) in Hbz. destruct Hbz as [Lz _].
    destruct (v0_unmarked_TR bz Lz Fz) as [[Hnone _]|(hi & lo & _ & _ & _ & _ & R)]; [exfalso; apply (Hnone z); split; assumption|].
    specialize (R z (conj Rz Bz)). rewrite (seqv_evt s' z ez Ez) in R.
    pose proof (g_ev n s' G' z ez Ez) as (_ & H1 & _). lia. }
  destruct (Hrange x ex bx Rx Ex Bx Hbx) as [Nx Qx]. destruct (Hrange y ey by_ Ry Ey By Hby) as [Ny Qy].
  assert (Hov : overlap v0 bx by_ = true).
  { unfold overlap, is_empty. rewrite (Hnm bx Hbx), (Hnm by_ Hby). cbn [negb andb].
    destruct (Nat.eqb_spec bx by_); [contradiction|]. cbn [negb andb].
    destruct (N.eqb_spec (fst (hb_get v0 bx)) 0); [contradiction|]. destruct (N.eqb_spec (fst (hb_get v0 by_)) 0); [contradiction|].
    cbn [negb andb]. apply andb_true_iff. split; apply N.leb_le; lia. }
  assert (P2' : pass2_cond s1 v1 c = true).
  { unfold pass2_cond. apply andb_true_iff. split.
    - rewrite (v1_get c c Hc Hcs), P1, (Hnm c Hcs). reflexivity.
    - apply existsb_exists. exists bx. split; [exact Hbx|]. apply existsb_exists. exists by_. split; [exact Hby|].
      rewrite <- Hov. apply overlap_local.
      + rewrite (v1_get c bx Hc Hbx), P1. reflexivity.
      + rewrite (v1_get c by_ Hc Hby), P1. reflexivity. }
  congruence.
Qed.

Lemma unmarked_same c b : (c < n)%nat -> In b (brs_of s1 c) -> is_fork (hb_get v2 b) = false -> hb_get v2 b = hb_get v0 b.
Proof.
  intros Hc Hb Hf. rewrite (v2_get c b Hc Hb) in *.
  destruct (negb (at_least_one_fork s1)); [reflexivity|].
  destruct (pass2_cond s1 v1 c); [discriminate|]. destruct (pass1_cond s1 v0 c); [discriminate|reflexivity].
Qed.

Theorem HBok_self b : HBok s' (eid e) b (hb_get v2 b).
Proof.
  destruct (Nat.lt_ge_cases b (nbr s1)) as [Hb|Hb].
  - pose proof (s1_crb_lt b Hb) as Hc.
    assert (Hin : In b (brs_of s1 (crb s1 b))) by (apply (s1_in_brs _ b Hc); auto).
    destruct (is_fork (hb_get v2 b)) eqn:Hf.
    + left. split; [exact Hf|]. split; [exact Hb|]. change (crb s' b) with (crb s1 b). exact (marked_fk _ b Hc Hin Hf).
    + right. split; [exact Hf|].
      assert (Hns : ~ SeesFork E' (eid e) (crb s1 b)).
      { intros HS. rewrite (fk_marked _ b Hc Hin HS) in Hf. discriminate. }
      split.
      * rewrite (unmarked_same _ b Hc Hin Hf). apply v0_unmarked_TR; [exact Hb|].
        rewrite <- (unmarked_same _ b Hc Hin Hf). exact Hf.
      * change (crb s' b) with (crb s1 b). intros HS. contradiction.
  - (* a branch that does not exist (yet) *)
    assert (Hv : hb_get v2 b = (0, 0)).
    { unfold v2, new_before. fold v0. rewrite (detect_forks_out s1 s1_brcr_init).
      - apply v0_out. exact Hb.
      - intros c Hc Hin. rewrite s1_nvals in Hc. apply (s1_in_brs c b Hc) in Hin. lia. }
    rewrite Hv. right. split; [reflexivity|].
    assert (Hnone : forall x, ~ seenb s' (eid e) b x).
    { intros x [Rx Bx]. destruct (reach_in_r _ _ _ Rx) as [ex Ex].
      destruct (g_br n s' G' x ex b Ex Bx) as (Hlt & _). change (nbr s') with (nbr s1) in Hlt. lia. }
    split; [left; split; [exact Hnone|reflexivity]|intros _; exact Hnone].
Qed.

End StepHb.
