(* Non-vacuity of link_codes: the 48-event run with a wrong-frame event (twice, under two ids), a duplicate
   and an event with an unknown parent inside the stream; validators in non-canonical order. *)
From Coq Require Import NArith List Bool Lia.
From LV Require Import model.VecIndex model.Abft model.AbftRun spec.ElectionSpec
  proofs.BftGraph proofs.BftRun proofs.BftMain proofs.BftAccept proofs.BftProps
  proofs.LinkVals proofs.LinkPerm proofs.LinkDefs proofs.LinkFresh proofs.LinkExample proofs.LinkX proofs.LinkEpochsX proofs.LinkXCheck proofs.LinkCodes.
Import ListNotations.
Local Open Scope N_scope.

Definition cx_D : list fev :=
  flat_map (fun e => (if eid (fe e) =? 1010 then [mkev 6010 3 1 4 [1007; 1009; 1004]; mkev 6011 3 1 4 [1007; 1009; 1004];
                                                   mkev 1005 0 1 1 [1004; 1001]; mkev 7000 0 9 1 [9999]] else []) ++ [e]) ex3_D.

Lemma link_side_codes_b vals D :
  raw_ok_b vals = true -> (v_total vals <? 2 ^ 31) = true -> stream_ok_b vals D = true ->
  ids_ok_b vals (N.of_nat (length D)) [] [] D = true -> (N.of_nat (length D) <? 2 ^ 192) = true -> link_side_codes vals D.
Proof.
  intros H1 H2 H3 H4 H5. split; [apply raw_ok_b_ok; exact H1|]. split; [apply N.ltb_lt; exact H2|].
  split; [apply stream_ok_b_ok; exact H3|]. split; [apply ids_ok_b_ok; exact H4 | apply N.ltb_lt; exact H5].
Qed.
Example cx_side : link_side_codes ex_vals cx_D.
Proof. apply link_side_codes_b; vm_compute; reflexivity. Qed.
Example cx_codes : map fst (fst (reference ex_vals cx_D)) =
  [0; 0; 0; 0; 0; 0; 0; 0; 0; 0; 1; 1; 2; 2; 0; 0; 0; 0; 0; 0; 0; 0; 0; 0; 0; 0; 0; 0; 0; 0; 0; 0; 0; 0; 0; 0; 0; 0; 0; 0; 0; 0; 0; 0; 0; 0; 0; 0; 0; 0; 0; 0].
Proof. vm_compute. reflexivity. Qed.
Example cx_refines : abft_run 3 (fun _ => 0) ex_vals cx_D = reference ex_vals cx_D.
Proof. apply link_codes. exact cx_side. Qed.
Example cx_refines_by_evaluation : abft_run 3 (fun _ => 0) ex_vals cx_D = reference ex_vals cx_D.
Proof. vm_compute. reflexivity. Qed.
Example cx_blocks : snd (abft_run 3 (fun _ => 0) ex_vals cx_D) = [(1, 1000, []); (2, 1015, [37094])].
Proof. vm_compute. reflexivity. Qed.

(* the hypotheses of LinkReject.reject_step at genesis: a first event (no parents) that claims frame 2 *)
From LV Require Import proofs.LinkStep proofs.LinkRun proofs.LinkReject proofs.LinkEpochsX.
Definition rj_e : fev := mkev 9000 0 1 2 [].
Example rj_hyps :
  Sim 1 (fun _ => 0) ex2_vals (fun _ => False) 48 (start 1 ex2_vals) [] [] [] /\ few_forkers ex2_vals [] /\
  parents_known [] rj_e /\ nlookup (eid (fe rj_e)) [] = None /\ (ecr (fe rj_e) < length ex2_vals)%nat /\ ev_wf [] rj_e /\
  r_frame_ok ex2_vals [] (mk_node (length ex2_vals) [] rj_e) = false /\ id_fresh 48 (eid (fe rj_e)).
Proof.
  split; [apply (Sim_start 1 (fun _ => 0) ex2_vals ex2_vals_ok (fun _ => False) 48 (fun a (F : False) => match F with end)); vm_compute; lia|].
  split; [unfold few_forkers; vm_compute; reflexivity|]. split; [intros p []|]. split; [reflexivity|]. split; [vm_compute; lia|].
  split; [apply ev_wf_b_ok; vm_compute; reflexivity|]. split; [vm_compute; reflexivity | apply fresh_b_ok; vm_compute; reflexivity].
Qed.
Example rj_rejected :
  fst (fst (step 3 [] sample (start 1 ex2_vals) (OpP (to_aevent 1 (fun _ => 0) ex2_vals rj_e)))) = ObsP (Some EWrongFrame) [] 0 1.
Proof. vm_compute. reflexivity. Qed.
(* the reference walk without a policy on the stream cx_D: its projection is the reference *)
Example cx_walk :
  map pj_ev (fst (fst (ref_x 1 ex_vals (fun _ => None) [] (map slot0 cx_D) []))) = fst (reference ex_vals cx_D) /\
  map pj_blk (snd (fst (ref_x 1 ex_vals (fun _ => None) [] (map slot0 cx_D) []))) = snd (reference ex_vals cx_D).
Proof. vm_compute. split; reflexivity. Qed.
