(* Statements of C01 / C10 at full strength relative to impl_refines_spec, and concrete
   non-vacuity witnesses (a generated 4-validator DAG of 48 events with a forking validator,
   the same events in another parents-first order, and an ancestor-closed subset). *)
From Coq Require Import List Arith NArith Bool Lia ZArith.
From LV Require Import model.VecIndex lib.WSumBft spec.ElectionSpec proofs.BftCore proofs.BftElection
  proofs.BftMono proofs.BftGraph proofs.BftMain proofs.BftRun proofs.BftFcSpec proofs.BftAccept.
Import ListNotations.
Open Scope N_scope.

(* what a consensus instance shows when fed a parents-first event sequence:
   per event (result code, highest allowed frame), and the blocks (frame, Atropos, cheaters) *)
Definition obs_t : Type := list (N * N) * list (N * N * list N).
Definition impl_model : Type := list (N * N) -> list fev -> obs_t.

(* the inputs the two properties quantify over: every event is valid (accepted under the rules:
   known parents, well-formed, allowed claimed frame) and forkers hold < 1/3 of the weight *)
Definition valid_run (vals : list (N * N)) (D : list fev) : Prop :=
  all_accepted vals D /\ few_forkers vals (table vals D).

(* the L1 invariant of DESIGN 5 C10, to be proved for the line-by-line model of abft:
   the model run equals the reference on every valid input *)
Definition impl_refines_spec (run : impl_model) : Prop :=
  forall vals D, valid_run vals D -> run vals D = reference vals D.

(* C10 at full strength IS that equality (accepted frames and emitted blocks = reference) *)
Definition C10_full (run : impl_model) : Prop :=
  forall vals D, valid_run vals D -> run vals D = reference vals D.

(* C01 at full strength (per epoch).  The DAG of the epoch is given by D2, a sequence in which every
   event is valid (accepted by the rules when taken in that order, e.g. the order of creation) and
   whose forkers hold < 1/3.  An instance is fed ANY parents-first arrangement D1 of ANY subset of
   these events (parents-first forces the subset to be ancestor-closed; ids are not repeated).
   Then: the instance accepts every event; its blocks are an initial segment of the blocks of an
   instance that has processed all of D2; if it has processed all events, the blocks are equal. *)
Definition C01_full (run : impl_model) : Prop :=
  forall vals D1 D2, valid_run vals D2 -> incl D1 D2 -> NoDup (ids_of D1) -> parents_first D1 ->
    codes_ok (fst (run vals D1)) /\
    prefix (snd (run vals D1)) (snd (run vals D2)) /\
    (incl D2 D1 -> snd (run vals D1) = snd (run vals D2)).

Lemma valid_run_sub vals D1 D2 : valid_run vals D2 -> all_accepted vals D1 -> incl D1 D2 -> valid_run vals D1.
Proof.
  intros [A2 Hff] A1 Hincl. split; [exact A1|].
  eapply few_forkers_sub; [|exact Hff].
  apply (node_indep vals _ _ (table_wfTD vals D1 A1) _ _ (table_wfTD vals D2 A2)).
  intros x Hx. apply in_rev in Hx. apply in_rev. rewrite rev_involutive. apply Hincl. exact Hx.
Qed.

Theorem C01_from_refinement run : impl_refines_spec run -> C01_full run.
Proof.
  intros Href vals D1 D2 V2 Hincl Hnd Hpf.
  pose proof V2 as [A2 Hff].
  pose proof (acceptance_order_independent vals D2 D1 A2 Hincl Hnd Hpf) as A1.
  pose proof (valid_run_sub vals D1 D2 V2 A1 Hincl) as V1.
  rewrite (Href vals D1 V1), (Href vals D2 V2).
  split; [rewrite reference_codes; exact A1|].
  split; [apply reference_prefix; assumption|].
  intros Hincl2. apply reference_same_set; assumption.
Qed.

(* several epochs: two instances that are fed, in every epoch, the same event set (each in its own
   order) go through the same epochs: same blocks, same sealing decisions, same validator sets *)
Fixpoint epochs_valid (pol : N) (vals : list (N * N)) (ep : N) (Ds Ds' : list (list fev)) : Prop :=
  match Ds, Ds' with
  | [], [] => True
  | D :: r, D' :: r' => all_accepted vals D /\ all_accepted vals D' /\ incl D D' /\ incl D' D /\
                        few_forkers vals (table vals D') /\ epochs_valid pol (next_vals pol vals ep) (ep + 1) r r'
  | _, _ => False
  end.
Definition epoch_blocks (r : list (N * N) * list (N * N * list N) * bool) := (snd (fst r), snd r).

Theorem reference_epochs_same_sets seal pol : forall Ds Ds' vals ep, epochs_valid pol vals ep Ds Ds' ->
  map epoch_blocks (reference_epochs seal pol vals ep Ds) = map epoch_blocks (reference_epochs seal pol vals ep Ds').
Proof.
  induction Ds as [|D r IH]; intros [|D' r'] vals ep H; cbn [epochs_valid] in H; try contradiction; [reflexivity|].
  destruct H as [A [A' [I [I' [Hff Hr]]]]]. cbn [reference_epochs].
  pose proof (reference_same_set vals D D' A A' I I' Hff) as E.
  destruct (reference vals D) as [rs bs]. destruct (reference vals D') as [rs' bs']. cbn [snd] in E. subst bs'.
  destruct (seal_cut seal bs) as [cut sealed]. destruct sealed; cbn [map epoch_blocks fst snd]; f_equal.
  apply IH; exact Hr.
Qed.

(* the reference refines itself: C10_full / C01_full are satisfiable *)
Lemma reference_refines : impl_refines_spec reference.
Proof. intros vals D _. reflexivity. Qed.

(* ---------- non-vacuity witnesses ---------- *)
Definition mkev (id : N) (cr : nat) (sq fr : N) (ps : list N) : fev :=
  {| fe := {| eid := id; ecr := cr; eseq := sq; epar := ps |}; ffr := fr |}.
Definition ex_vals : list (N * N) := [(9, 4); (2805340295, 4); (5, 4); (37094, 4)].
Definition ex_D : list fev :=
  [mkev 0 2 1 1 [];
   mkev 1 2 2 1 [0];
   mkev 2 1 1 1 [1];
   mkev 3 1 2 1 [2; 1];
   mkev 4 1 3 1 [3; 1];
   mkev 5 0 1 1 [4; 1];
   mkev 6 3 1 1 [5; 1; 4];
   mkev 7 2 3 1 [1; 5; 4];
   mkev 8 0 2 1 [5; 4; 7];
   mkev 9 0 3 2 [8; 6; 7; 4];
   mkev 10 3 1 1 [7; 9; 4];
   mkev 11 1 4 2 [4; 10];
   mkev 12 1 5 2 [11; 9];
   mkev 13 1 6 2 [12; 7];
   mkev 14 1 7 2 [13];
   mkev 15 2 4 2 [7; 14];
   mkev 16 0 4 2 [9; 15];
   mkev 17 0 5 2 [16; 10; 14];
   mkev 18 3 2 2 [6; 17];
   mkev 19 2 5 2 [15; 17; 18; 14];
   mkev 20 3 2 2 [6; 17; 14];
   mkev 21 2 6 2 [19; 14; 18; 17];
   mkev 22 1 8 3 [14; 17];
   mkev 23 1 9 3 [22; 18; 21];
   mkev 24 3 3 3 [20; 21; 17; 23];
   mkev 25 1 10 3 [23; 24; 21; 17];
   mkev 26 2 7 2 [21; 10; 17];
   mkev 27 1 11 3 [25; 26; 24];
   mkev 28 1 12 3 [27; 17; 24; 26];
   mkev 29 1 13 3 [28; 24; 17; 26];
   mkev 30 0 6 3 [17; 26; 10; 29];
   mkev 31 2 8 3 [26; 30; 29];
   mkev 32 1 14 3 [29; 31];
   mkev 33 1 15 3 [32; 30; 18];
   mkev 34 3 2 1 [10; 31; 30; 33];
   mkev 35 2 9 3 [31; 33; 24; 30];
   mkev 36 0 7 4 [30; 35; 34; 33];
   mkev 37 0 8 4 [36; 34; 33];
   mkev 38 1 16 3 [33; 35];
   mkev 39 0 9 4 [37; 35; 34; 38];
   mkev 40 0 10 4 [39; 35; 38];
   mkev 41 3 3 4 [18; 40; 38; 35];
   mkev 42 1 17 3 [38; 24; 35];
   mkev 43 0 11 4 [40; 35; 42];
   mkev 44 0 12 4 [43; 35];
   mkev 45 1 18 4 [42; 35; 44];
   mkev 46 1 19 4 [45; 35; 44];
   mkev 47 3 3 4 [34; 35; 46]].
(* the same events in another parents-first order *)
Definition ex_D' : list fev :=
  [mkev 0 2 1 1 [];
   mkev 1 2 2 1 [0];
   mkev 2 1 1 1 [1];
   mkev 3 1 2 1 [2; 1];
   mkev 4 1 3 1 [3; 1];
   mkev 5 0 1 1 [4; 1];
   mkev 6 3 1 1 [5; 1; 4];
   mkev 7 2 3 1 [1; 5; 4];
   mkev 8 0 2 1 [5; 4; 7];
   mkev 9 0 3 2 [8; 6; 7; 4];
   mkev 10 3 1 1 [7; 9; 4];
   mkev 11 1 4 2 [4; 10];
   mkev 12 1 5 2 [11; 9];
   mkev 13 1 6 2 [12; 7];
   mkev 14 1 7 2 [13];
   mkev 15 2 4 2 [7; 14];
   mkev 16 0 4 2 [9; 15];
   mkev 17 0 5 2 [16; 10; 14];
   mkev 18 3 2 2 [6; 17];
   mkev 20 3 2 2 [6; 17; 14];
   mkev 19 2 5 2 [15; 17; 18; 14];
   mkev 21 2 6 2 [19; 14; 18; 17];
   mkev 26 2 7 2 [21; 10; 17];
   mkev 22 1 8 3 [14; 17];
   mkev 23 1 9 3 [22; 18; 21];
   mkev 24 3 3 3 [20; 21; 17; 23];
   mkev 25 1 10 3 [23; 24; 21; 17];
   mkev 27 1 11 3 [25; 26; 24];
   mkev 28 1 12 3 [27; 17; 24; 26];
   mkev 29 1 13 3 [28; 24; 17; 26];
   mkev 30 0 6 3 [17; 26; 10; 29];
   mkev 31 2 8 3 [26; 30; 29];
   mkev 32 1 14 3 [29; 31];
   mkev 33 1 15 3 [32; 30; 18];
   mkev 34 3 2 1 [10; 31; 30; 33];
   mkev 35 2 9 3 [31; 33; 24; 30];
   mkev 38 1 16 3 [33; 35];
   mkev 42 1 17 3 [38; 24; 35];
   mkev 36 0 7 4 [30; 35; 34; 33];
   mkev 37 0 8 4 [36; 34; 33];
   mkev 39 0 9 4 [37; 35; 34; 38];
   mkev 40 0 10 4 [39; 35; 38];
   mkev 41 3 3 4 [18; 40; 38; 35];
   mkev 43 0 11 4 [40; 35; 42];
   mkev 44 0 12 4 [43; 35];
   mkev 45 1 18 4 [42; 35; 44];
   mkev 46 1 19 4 [45; 35; 44];
   mkev 47 3 3 4 [34; 35; 46]].
(* an ancestor-closed subset (30 of the 48 events), in yet another order *)
Definition ex_Dsub : list fev :=
  [mkev 0 2 1 1 [];
   mkev 1 2 2 1 [0];
   mkev 2 1 1 1 [1];
   mkev 3 1 2 1 [2; 1];
   mkev 4 1 3 1 [3; 1];
   mkev 5 0 1 1 [4; 1];
   mkev 7 2 3 1 [1; 5; 4];
   mkev 8 0 2 1 [5; 4; 7];
   mkev 6 3 1 1 [5; 1; 4];
   mkev 9 0 3 2 [8; 6; 7; 4];
   mkev 10 3 1 1 [7; 9; 4];
   mkev 11 1 4 2 [4; 10];
   mkev 12 1 5 2 [11; 9];
   mkev 13 1 6 2 [12; 7];
   mkev 14 1 7 2 [13];
   mkev 15 2 4 2 [7; 14];
   mkev 16 0 4 2 [9; 15];
   mkev 17 0 5 2 [16; 10; 14];
   mkev 22 1 8 3 [14; 17];
   mkev 18 3 2 2 [6; 17];
   mkev 19 2 5 2 [15; 17; 18; 14];
   mkev 21 2 6 2 [19; 14; 18; 17];
   mkev 23 1 9 3 [22; 18; 21];
   mkev 26 2 7 2 [21; 10; 17];
   mkev 20 3 2 2 [6; 17; 14];
   mkev 24 3 3 3 [20; 21; 17; 23];
   mkev 25 1 10 3 [23; 24; 21; 17];
   mkev 27 1 11 3 [25; 26; 24];
   mkev 28 1 12 3 [27; 17; 24; 26];
   mkev 29 1 13 3 [28; 24; 17; 26]].

Lemma codes_ok_dec rs : forallb (fun r : N * N => fst r =? 0) rs = true -> codes_ok rs.
Proof. intros H r Hr. rewrite forallb_forall in H. apply N.eqb_eq. apply H. exact Hr. Qed.
Lemma incl_dec (eqb : fev -> fev -> bool) (Heq : forall a b, eqb a b = true -> a = b) (l1 l2 : list fev) :
  forallb (fun x => existsb (eqb x) l2) l1 = true -> incl l1 l2.
Proof.
  intros H x Hx. rewrite forallb_forall in H. specialize (H x Hx). apply existsb_exists in H as [y [Hy E]].
  rewrite (Heq x y E). exact Hy.
Qed.
Definition fev_eqb (a b : fev) : bool :=
  (eid (fe a) =? eid (fe b)) && Nat.eqb (ecr (fe a)) (ecr (fe b)) && (eseq (fe a) =? eseq (fe b)) &&
  (ffr a =? ffr b) && (if list_eq_dec N.eq_dec (epar (fe a)) (epar (fe b)) then true else false).
Lemma fev_eqb_eq a b : fev_eqb a b = true -> a = b.
Proof.
  destruct a as [[i c s p] f], b as [[i' c' s' p'] f']. unfold fev_eqb. cbn [fe ffr eid ecr eseq epar].
  intros H. repeat (apply andb_prop in H as [H ?]).
  apply N.eqb_eq in H. apply Nat.eqb_eq in H3. apply N.eqb_eq in H2, H1.
  destruct (list_eq_dec N.eq_dec p p'); [|discriminate]. subst. reflexivity.
Qed.

Example ex_valid : valid_run ex_vals ex_D.
Proof. split; [apply codes_ok_dec; vm_compute; reflexivity|unfold few_forkers; vm_compute; reflexivity]. Qed.
Example ex_accepted' : all_accepted ex_vals ex_D'.
Proof. apply codes_ok_dec. vm_compute. reflexivity. Qed.
Example ex_accepted_sub : all_accepted ex_vals ex_Dsub.
Proof. apply codes_ok_dec. vm_compute. reflexivity. Qed.
Example ex_incl' : incl ex_D' ex_D /\ incl ex_D ex_D'.
Proof. split; apply (incl_dec fev_eqb fev_eqb_eq); vm_compute; reflexivity. Qed.
Example ex_incl_sub : incl ex_Dsub ex_D.
Proof. apply (incl_dec fev_eqb fev_eqb_eq); vm_compute; reflexivity. Qed.
Lemma parents_first_dec (D : list fev) :
  (fix go (P : list N) (l : list fev) : bool :=
     match l with [] => true | e :: r => forallb (fun p => existsb (N.eqb p) P) (epar (fe e)) && go (eid (fe e) :: P) r end) [] D = true ->
  parents_first D.
Proof.
  intros H P e R ED p Hp. subst D.
  assert (G : forall (l : list fev) (Q : list N) (P : list fev),
     (fix go (P : list N) (l : list fev) : bool :=
        match l with [] => true | e :: r => forallb (fun p => existsb (N.eqb p) P) (epar (fe e)) && go (eid (fe e) :: P) r end) Q (P ++ e :: R) = true ->
     In p Q \/ In p (ids_of P)).
  { clear H. intros _ Q P0. revert Q. induction P0 as [|x P0 IH]; intros Q H.
    - cbn [app] in H. apply andb_prop in H as [H _]. rewrite forallb_forall in H. specialize (H p Hp).
      apply existsb_exists in H as [y [Hy E]]. apply N.eqb_eq in E. subst y. left. exact Hy.
    - cbn [app] in H. apply andb_prop in H as [_ H]. destruct (IH _ H) as [[E|H1]|H1].
      + right. left. exact E.
      + left. exact H1.
      + right. right. exact H1. }
  destruct (G [] [] P H) as [[]|H1]. exact H1.
Qed.
Lemma nodup_dec (l : list N) : (fix go (l : list N) : bool := match l with [] => true | x :: r => negb (existsb (N.eqb x) r) && go r end) l = true -> NoDup l.
Proof.
  induction l as [|x r IH]; intros H; [constructor|]. apply andb_prop in H as [H1 H2]. constructor; [|apply IH; exact H2].
  intros Hin. apply negb_true_iff in H1. assert (existsb (N.eqb x) r = true); [|congruence].
  apply existsb_exists. exists x. split; [exact Hin|apply N.eqb_refl].
Qed.
Example ex_arrangement' : NoDup (ids_of ex_D') /\ parents_first ex_D'.
Proof. split; [apply nodup_dec; vm_compute; reflexivity|apply parents_first_dec; vm_compute; reflexivity]. Qed.
Example ex_arrangement_sub : NoDup (ids_of ex_Dsub) /\ parents_first ex_Dsub.
Proof. split; [apply nodup_dec; vm_compute; reflexivity|apply parents_first_dec; vm_compute; reflexivity]. Qed.
(* two blocks are decided, the second one reports the forking validator (id 37094) *)
Example ex_blocks : snd (reference ex_vals ex_D) = [(1, 0, []); (2, 15, [37094])].
Proof. vm_compute. reflexivity. Qed.
Example ex_blocks_sub : snd (reference ex_vals ex_Dsub) = [(1, 0, [])].
Proof. vm_compute. reflexivity. Qed.
(* some validator forks in the example: the fork-related hypotheses are exercised *)
Example ex_has_forker : existsb (forker (table ex_vals ex_D)) (seq 0 4) = true.
Proof. vm_compute. reflexivity. Qed.
