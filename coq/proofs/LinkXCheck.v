(* A decision procedure for the hypothesis of link_x: epochs_ok_x is a property of the INPUT (validator
   lists, policy, schedules) that can be checked by running the reference; epochs_ok_xb is that check as a
   boolean function, with its soundness proof. *)
From Coq Require Import NArith ZArith List Lia Bool ZifyBool ZifyN ZifyNat.
From LV Require Import lib.Bytes lib.WSumBft model.Codec model.VecIndex model.Abft model.AbftRun spec.ElectionSpec
  proofs.BftGraph proofs.BftRun proofs.BftMain proofs.BftAccept proofs.BftProps
  proofs.LinkVals proofs.LinkPerm proofs.LinkDefs proofs.LinkFresh proofs.LinkNoise proofs.LinkReject proofs.LinkX proofs.LinkEpochsX.
Import ListNotations.
Local Open Scope N_scope.

Fixpoint nodup_b (l : list N) : bool :=
  match l with [] => true | x :: t => negb (AbftRun.mem x t) && nodup_b t end.
Lemma nodup_b_ok l : nodup_b l = true -> NoDup l.
Proof.
  induction l as [|x t IH]; intros H; [constructor|]. cbn [nodup_b] in H. apply andb_prop in H as [H1 H2].
  constructor; [|apply IH; exact H2]. intros Hin. apply LinkStep.mem_true in Hin. rewrite Hin in H1. discriminate.
Qed.

Definition raw_ok_b (vals : list (N * N)) : bool :=
  nodup_b (map fst vals) && forallb (fun p => negb (snd p =? 0)) vals.
Lemma raw_ok_b_ok vals : raw_ok_b vals = true -> raw_ok vals.
Proof.
  intros H. apply andb_prop in H as [H1 H2]. split; [apply nodup_b_ok; exact H1|].
  intros p Hp. rewrite forallb_forall in H2. specialize (H2 p Hp). apply negb_true_iff, N.eqb_neq in H2. exact H2.
Qed.
Definition vals_b (vals : list (N * N)) : bool :=
  raw_ok_b vals && (v_total vals <? 2 ^ 31) && match vals with [] => false | _ => true end.
Lemma vals_b_ok vals : vals_b vals = true -> raw_ok vals /\ v_total vals < 2 ^ 31 /\ vals <> [].
Proof.
  intros H. apply andb_prop in H as [H H3]. apply andb_prop in H as [H1 H2].
  split; [apply raw_ok_b_ok; exact H1|]. split; [apply N.ltb_lt; exact H2|]. destruct vals; [discriminate | discriminate].
Qed.

Definition few_forkers_b (vals : list (N * N)) (T : list node) : bool :=
  3 * wsP (map snd vals) (forker T) <? totalW (map snd vals).
Lemma few_forkers_b_ok vals T : few_forkers_b vals T = true -> few_forkers vals T.
Proof. intros H. apply N.ltb_lt in H. exact H. Qed.

Definition stream_ok_b (vals : list (N * N)) (D : list fev) : bool :=
  forallb (fun e => Nat.ltb (ecr (fe e)) (length vals)) D &&
  forallb (fun r : N * N => fst r <? 3) (snd (add_events vals [] D)) &&
  few_forkers_b vals (table vals D).
Lemma stream_ok_b_ok vals D : stream_ok_b vals D = true -> stream_ok vals D.
Proof.
  intros H. apply andb_prop in H as [H H3]. apply andb_prop in H as [H1 H2]. rewrite forallb_forall in H1, H2.
  split; [intros e He; apply Nat.ltb_lt; apply H1; exact He|].
  split; [intros r Hr; apply N.ltb_lt; apply H2; exact Hr | apply few_forkers_b_ok; exact H3].
Qed.

Fixpoint ids_ok_b (vals : list (N * N)) (K : N) (T : list node) (Jl : list N) (D : list fev) : bool :=
  match D with
  | [] => true
  | e :: D' =>
    let '(T1, (c, _)) := add_event vals T e in
    (if c <? 2 then fresh_b K (eid (fe e)) && negb (AbftRun.mem (eid (fe e)) Jl) else true) &&
    ids_ok_b vals K T1 (if c =? 1 then eid (fe e) :: Jl else Jl) D'
  end.
Lemma ids_ok_b_ok vals K : forall D T Jl, ids_ok_b vals K T Jl D = true -> ids_ok vals K T Jl D.
Proof.
  induction D as [|e D IH]; intros T Jl H; cbn [ids_ok ids_ok_b] in *; [exact I|].
  destruct (add_event vals T e) as [T1 [c h]]. apply andb_prop in H as [H1 H2]. split; [|apply IH; exact H2].
  intros Hc. replace (c <? 2) with true in H1 by (symmetry; apply N.ltb_lt; exact Hc).
  apply andb_prop in H1 as [F M]. split; [apply fresh_b_ok; exact F|].
  intros Hin. apply LinkStep.mem_true in Hin. rewrite Hin in M. discriminate.
Qed.

Definition noise_in_b (ep : N) (vals : list (N * N)) (ids : list N) (o : op) : bool :=
  match o with
  | OpP x => match guard_in ep vals ids x true with Some _ => true | None => false end
  | OpReset _ _ => false
  | _ => true
  end.
Lemma noise_in_b_ok ep vals ids o : noise_in_b ep vals ids o = true -> noise_in ep vals ids o.
Proof.
  destruct o as [x|x| |ep1 raw|id|f|a b|]; cbn [noise_in_b noise_in]; intros H; try exact I; try discriminate.
  destruct (guard_in ep vals ids x true); [discriminate | discriminate].
Qed.
Lemma noise_all_ok ep vals ids ns : forallb (noise_in_b ep vals ids) ns = true -> Forall (noise_in ep vals ids) ns.
Proof. intros H. rewrite forallb_forall in H. apply Forall_forall. intros o Ho. apply noise_in_b_ok. apply H. exact Ho. Qed.

Fixpoint post_in_b (ep : N) (nvals : list (N * N)) (sc : list xslot) (tn : list op) : bool :=
  match sc with
  | [] => forallb (noise_in_b (ep + 1) nvals []) tn
  | s :: sc' => forallb (noise_in_b (ep + 1) nvals []) (x_pre s) && forallb (noise_in_b (ep + 1) nvals []) (x_mid s) && post_in_b ep nvals sc' tn
  end.
Lemma post_in_b_ok ep nvals : forall sc tn, post_in_b ep nvals sc tn = true -> post_in ep nvals sc tn.
Proof.
  induction sc as [|s sc IH]; intros tn H; cbn [post_in post_in_b] in *; [apply noise_all_ok; exact H|].
  apply andb_prop in H as [H H3]. apply andb_prop in H as [H1 H2].
  split; [apply noise_all_ok; exact H1|]. split; [apply noise_all_ok; exact H2 | apply IH; exact H3].
Qed.
Fixpoint sched_in_b (ep : N) (vals : list (N * N)) (sfr : N -> option (list (N * N))) (T : list node) (ids : list N)
  (sc : list xslot) (tn : list op) : bool :=
  match sc with
  | [] => forallb (noise_in_b ep vals ids) tn
  | s :: sc' =>
    forallb (noise_in_b ep vals ids) (x_pre s) && forallb (noise_in_b ep vals ids) (x_mid s) &&
    let '(T1, (c, _)) := add_event vals T (x_ev s) in
    match seal_of vals sfr T1 with
    | Some nvals => post_in_b ep nvals sc' tn
    | None => sched_in_b ep vals sfr T1 (if c =? 0 then eid (fe (x_ev s)) :: ids else ids) sc' tn
    end
  end.
Lemma sched_in_b_ok ep vals sfr : forall sc T ids tn, sched_in_b ep vals sfr T ids sc tn = true -> sched_in ep vals sfr T ids sc tn.
Proof.
  induction sc as [|s sc IH]; intros T ids tn H; cbn [sched_in sched_in_b] in *; [apply noise_all_ok; exact H|].
  apply andb_prop in H as [H H3]. apply andb_prop in H as [H1 H2].
  split; [apply noise_all_ok; exact H1|]. split; [apply noise_all_ok; exact H2|].
  destruct (add_event vals T (x_ev s)) as [T1 [c h]]. destruct (seal_of vals sfr T1); [apply post_in_b_ok; exact H3 | apply IH; exact H3].
Qed.

Definition policy_b (pol : policy) : bool := forallb (fun x : N * N * list (N * N) => vals_b (snd x)) pol.
Lemma policy_b_ok pol ep : policy_b pol = true -> forall f x, praw pol ep f = Some x -> raw_ok x /\ v_total x < 2 ^ 31 /\ x <> [].
Proof.
  intros H f x Hx. unfold praw in Hx.
  destruct (find (fun x0 : N * N * list (N * N) => (fst (fst x0) =? ep) && (snd (fst x0) =? f)) pol) as [y|] eqn:F; [|discriminate].
  inversion Hx; subst x. apply find_some in F as [Hin _]. unfold policy_b in H. rewrite forallb_forall in H. apply vals_b_ok. apply H. exact Hin.
Qed.

Fixpoint epochs_ok_xb (pol : policy) (K : N) (vals : list (N * N)) (ep : N) (Ss : list (list xslot * list op)) : bool :=
  match Ss with
  | [] => true
  | Sx :: rest =>
    vals_b vals && stream_ok_b vals (map x_ev (fst Sx)) && ids_ok_b vals K [] [] (map x_ev (fst Sx)) &&
    sched_in_b ep vals (praw pol ep) [] [] (fst Sx) (snd Sx) &&
    match snd (ref_x ep vals (praw pol ep) [] (fst Sx) (snd Sx)) with
    | Some nvals => epochs_ok_xb pol K nvals (ep + 1) rest
    | None => true
    end
  end.
Theorem epochs_ok_xb_ok pol K : policy_b pol = true -> forall Ss vals ep, epochs_ok_xb pol K vals ep Ss = true -> epochs_ok_x pol K vals ep Ss.
Proof.
  intros HP. induction Ss as [|Sx rest IH]; intros vals ep H; cbn [epochs_ok_x epochs_ok_xb] in *; [exact I|].
  apply andb_prop in H as [H H5]. apply andb_prop in H as [H H4]. apply andb_prop in H as [H H3]. apply andb_prop in H as [H1 H2].
  destruct (vals_b_ok vals H1) as (R & Tt & _).
  split; [exact R|]. split; [exact Tt|]. split; [apply stream_ok_b_ok; exact H2|]. split; [apply ids_ok_b_ok; exact H3|].
  split; [apply sched_in_b_ok; exact H4|]. split; [apply policy_b_ok; exact HP|].
  destruct (snd (ref_x ep vals (praw pol ep) [] (fst Sx) (snd Sx))); [apply IH; exact H5 | exact I].
Qed.

(* link_x with the checkable hypothesis *)
Theorem link_x_checked cap lam pol vals Ss K :
  policy_b pol = true -> vals_b vals = true -> epochs_ok_xb pol K vals 1 Ss = true ->
  N.of_nat (total_builds Ss) <= K -> K < 2 ^ 192 ->
  model_epochs_x cap lam pol (start 1 vals) vals 1 Ss =
  map (fun r => (fst (fst r), snd (fst r), option_map mk_vals (snd r))) (ref_epochs_x pol vals 1 Ss).
Proof.
  intros HP HV HE Hb HK. apply (link_x cap lam pol vals Ss K); [apply (vals_b_ok vals HV) | apply epochs_ok_xb_ok; assumption | exact Hb | exact HK].
Qed.
