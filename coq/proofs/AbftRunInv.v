(* Run level: the hypotheses [elinv] (the election decides frame LastDecidedFrame+1) and [V] (yes-votes
   name stored roots of that frame) of the per-call theorems hold in every state an instance can reach
   by any sequence of operations (Process, Build, restart, Reset, probes). *)
From Coq Require Import NArith ZArith List Lia Bool ZifyBool ZifyN ZifyNat.
From LV Require Import model.VecIndex model.Abft model.AbftRun proofs.AbftStruct proofs.AbftSeal proofs.AbftRoots
  proofs.AbftBuild proofs.AbftProcess proofs.AbftChain proofs.AbftRooted.
Import ListNotations.
Local Open Scope N_scope.

Definition good (st : lstate) : Prop := elinv st /\ V st.

Section RunInv.
Variable cap : nat.
Variable pol : policy.
Variable smp : N -> option (list N).

Lemma chain_sealed_reset eb es st bl st' :
  chain eb es st bl st' -> existsb is_sealed bl = true -> exists st1 ep nv, st' = reset st1 ep nv.
Proof.
  intros C. induction C as [st st' S | st st1 f a b st2 S Hf OF | st st1 f a b st2 t st' S Hf OF C IH]; intros Hs.
  - discriminate.
  - apply seal_state in OF as [nv [_ [_ [_ ->]]]]. eauto.
  - cbn [existsb] in Hs. apply no_seal_state in OF as (Sb&_). unfold is_sealed in Hs at 1. rewrite Sb in Hs. cbn [orb] in Hs. auto.
Qed.

Lemma process_good eb es st e r bl st' : good st -> process cap eb es st e = (r, bl, st') -> good st'.
Proof.
  intros [I HV] E. split.
  - destruct (process_frames cap eb es st e r bl st' I E) as [_ [I' _]]. exact I'.
  - destruct (process_atropos_rooted cap eb es st e r bl st' HV I E) as [Rr [_ [_ VV]]].
    destruct (sealed_last bl) eqn:Hsl; [|apply VV; reflexivity].
    (* sealed: the final state is a Reset state *)
    assert (exists st1 ep nv, st' = reset st1 ep nv) as [st1 [ep [nv ->]]]; [|apply V_reset_state].
    clear VV Rr. unfold process in E.
    destruct (add (l_idx st) (vev (l_vals st) e)) as [s'|]; [|inversion E; subst; discriminate].
    destruct (calc_frame_keys cap es (set_idx st s') e true) as [c1 [Hs1 _]].
    destruct (calc_frame cap es (set_idx st s') e true) as [[[spf fr]|x] stx]; cbn [snd] in Hs1; subst stx;
      [|inversion E; subst; discriminate].
    destruct (negb (a_frame e =? fr)); [inversion E; subst; discriminate|].
    set (st2 := if spf =? fr then set_fcc (set_idx st s') c1 else add_roots (set_fcc (set_idx st s') c1) spf e) in *.
    assert (I2 : elinv st2).
    { unfold elinv in *. unfold st2. destruct (spf =? fr); cbn; exact I. }
    destruct (handle_election cap eb (S (S (N.to_nat (a_frame e - spf)))) es st2 e (spf + 1) []) as [[r2 bl2] st3] eqn:HE.
    pose proof (handle_election_chain cap eb es e _ _ _ _ _ _ I2 HE) as CH.
    assert (bl = bl2 /\ st' = st3) as [-> ->] by (destruct r2; inversion E; auto).
    eapply chain_sealed_reset; eauto.
Qed.

Lemma bootstrap_good eb es st r bl st' : bootstrap cap eb es (persist st) = (r, bl, st') -> good st'.
Proof.
  intros E. split.
  - destruct (bootstrap_frames cap eb es _ _ _ _ E) as [_ [I' _]]. exact I'.
  - unfold bootstrap in E.
    match type of E with bootstrap_election _ _ _ _ ?x _ = _ => set (st0 := x) in * end.
    assert (I0 : elinv st0) by (unfold elinv, st0; cbn; reflexivity).
    assert (V0 : V st0) by (unfold V, st0; cbn; apply (V_reset (p_vals (persist st)) (p_ldf (persist st) + 1))).
    destruct (bootstrap_election_rooted cap eb es _ _ _ _ _ V0 I0 E) as [_ VV].
    destruct (sealed_last bl) eqn:Hsl; [|apply VV; reflexivity].
    pose proof (bootstrap_election_chain cap eb es _ _ _ _ _ I0 E) as CH.
    destruct (chain_sealed_reset _ _ _ _ _ CH Hsl) as [st1 [ep [nv ->]]]. apply V_reset_state.
Qed.

Lemma good_shape st c n : good st -> good (set_fcc (set_ctr st n) c).
Proof. intros [I HV]. split; [exact I | exact HV]. Qed.

Theorem step_good i o : good (i_st i) -> good (i_st (snd (fst (step cap pol smp i o)))).
Proof.
  intros G. destruct o as [e|e| |ep raw|id|f|a b|]; cbn [step].
  - destruct (guard i e true); cbn [fst snd]; auto.
    destruct (process cap (policy_fn pol) (aput (a_id e) e (i_es i)) (i_st i) e) as [[r bl] st'] eqn:E.
    pose proof (process_good _ _ _ _ _ _ _ G E) as G'. destruct r; cbn [fst snd i_st]; exact G'.
  - destruct (guard i e false); cbn [fst snd]; auto.
    destruct (build_with_shape cap smp (i_es i) (i_st i) e) as [c' Hsh].
    destruct (build_with cap smp (i_es i) (i_st i) e) as [r st']. cbn [snd] in Hsh. subst st'.
    cbn [fst snd i_st]. apply good_shape. exact G.
  - destruct (bootstrap cap (policy_fn pol) (i_es i) (persist (i_st i))) as [[r bl] st'] eqn:E.
    pose proof (bootstrap_good _ _ _ _ _ _ E) as G'. destruct r; cbn [fst snd i_st]; exact G'.
  - cbn [fst snd i_st]. split; [reflexivity | apply V_reset_state].
  - destruct (mem id (i_proc i)); cbn [fst snd]; exact G.
  - cbn [fst snd]. exact G.
  - destruct (mem a (i_proc i) && mem b (i_proc i)); cbn [fst snd]; [|exact G].
    pose proof (fc_cached_core cap (i_st i) a b) as SC.
    unfold fc_cached in *. destruct (cache_get (a, b) (l_fcc (i_st i))); cbn [fst snd i_st]; destruct G as [I HV]; split; auto.
  - cbn [fst snd]. exact G.
Qed.

Theorem run_good : forall ops i, good (i_st i) -> good (i_st (run_inst cap pol smp i ops)).
Proof.
  induction ops as [|o t IH]; intros i G; cbn [run_inst]; auto.
  pose proof (step_good i o G) as G'.
  destruct (step cap pol smp i o) as [[ob i'] dead]. cbn [fst snd] in G'.
  destruct dead; auto.
Qed.

Theorem start_good epoch raw : good (i_st (start epoch raw)).
Proof. split; [reflexivity | apply V_genesis]. Qed.

End RunInv.
