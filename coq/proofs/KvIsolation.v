(* C24 (round 2): isolation of tables at the level of whole histories, on the specification side.
   Inserting, anywhere in a history, writes addressed to handles inside the key space of a prefix Q
   changes no observation of reads made through handles whose full prefix is incomparable with Q
   (same level of the stack; the other writes of the history may go anywhere on that level).
   With run_refines the same holds for the model run. *)
From Coq Require Import NArith List Lia Bool Arith.
From LV Require Import lib.Bytes lib.BytesFacts lib.Lex lib.SortedMap spec.KvSpec spec.KvOps spec.KvStackSpec
  proofs.TableView proofs.KvStackReads.
Import ListNotations.

(* ---------- well-formed specification states ---------- *)

Fixpoint swf (s : sst) : Prop :=
  match s with
  | SEng m => sm_sorted m
  | SFlu _ u => swf u
  | STab _ u => swf u
  | SSyn u => swf u
  | SLzy _ _ u => swf u
  end.

Lemma sview_sorted s : swf s -> sm_sorted (sview s).
Proof.
  induction s as [m|log u IH|p u IH|u IH|log i u IH]; cbn; intros W; auto.
  - apply kv_write_sorted; auto.
  - apply tv_sorted; auto.
  - apply kv_write_sorted. destruct i; [auto|exact I].
Qed.

Lemma swf_swrite s : forall ops, swf s -> swf (swrite s ops).
Proof.
  induction s as [m|log u IH|p u IH|u IH|log i u IH]; cbn; intros ops W; auto.
  now apply kv_write_sorted.
Qed.

Lemma tv_kv_write_pre p ops : forall m, sm_sorted m ->
  kv_table_view p (kv_write m (map (wop_pre p) ops)) = kv_write (kv_table_view p m) ops.
Proof.
  unfold kv_write. induction ops as [|w ops IH]; intros m S; [reflexivity|].
  cbn [map fold_left]. rewrite IH.
  - f_equal. destruct w; cbn; [apply tv_put | apply tv_del]; auto.
  - destruct w; cbn; auto using sm_put_sorted, sm_del_sorted.
Qed.

Lemma sview_swrite_s s : forall ops, swf s -> sview (swrite s ops) = kv_write (sview s) ops.
Proof.
  induction s as [m|log u IH|p u IH|u IH|log i u IH]; cbn; intros ops W; auto.
  - unfold kv_overlay_view, kv_write. now rewrite fold_left_app.
  - rewrite IH by auto. apply tv_kv_write_pre. now apply sview_sorted.
  - unfold kv_overlay_view, kv_write. now rewrite fold_left_app.
Qed.

(* ---------- handles ---------- *)

Definition hpre (h : handle) : key := concat (h_path h).

Lemma wop_pre_pre p q w : wop_pre p (wop_pre q w) = wop_pre (p ++ q) w.
Proof. destruct w; cbn; now rewrite app_assoc. Qed.

Lemma wop_pre_nil ops : map (wop_pre []) ops = ops.
Proof. induction ops as [|w ops IH]; cbn; [auto|]. rewrite IH. now destruct w. Qed.

Lemma swrite_swrap path : forall u ops,
  swrite (swrap path u) ops = swrap path (swrite u (map (wop_pre (concat path)) ops)).
Proof.
  unfold swrap. induction path as [|p path IH]; intros u ops; cbn [fold_left concat].
  - now rewrite wop_pre_nil.
  - rewrite IH. cbn [swrite]. f_equal. f_equal. rewrite map_map. f_equal. apply map_ext.
    intros w. apply wop_pre_pre.
Qed.

Lemma sunwrap_swrap path : forall u, sunwrap (length path) (swrap path u) = u.
Proof.
  unfold swrap. induction path as [|p path IH] using rev_ind; intros u; [reflexivity|].
  rewrite fold_left_app, app_length. cbn [fold_left length]. rewrite Nat.add_1_r. cbn [sunwrap]. apply IH.
Qed.

Lemma swf_swrap path : forall u, swf (swrap path u) <-> swf u.
Proof.
  unfold swrap. induction path as [|p path IH]; intros u; cbn [fold_left]; [tauto|].
  rewrite IH. cbn. tauto.
Qed.

Lemma sview_swrap path : forall u, swf u -> sview (swrap path u) = kv_table_view (concat path) (sview u).
Proof.
  unfold swrap. induction path as [|p path IH]; intros u W; cbn [fold_left concat].
  - apply sm_ext; auto using tv_sorted, sview_sorted.
    intros k. now rewrite tv_get by auto using sview_sorted.
  - rewrite IH by (cbn; auto). cbn [sview]. apply tv_nested. now apply sview_sorted.
Qed.

(* (a depth beyond the bottom of the stack addresses the base store) *)
Lemma ssub_supd d f : (forall m, exists m', f (SEng m) = SEng m') ->
  forall s, ssub d (supd d f s) = f (ssub d s).
Proof.
  intros Hf. induction d as [|d IH]; intros s; [reflexivity|].
  destruct s; cbn; auto. destruct (Hf m) as [m' ->]. reflexivity.
Qed.

Lemma swf_ssub d : forall s, swf s -> swf (ssub d s).
Proof. induction d as [|d IH]; intros s W; [exact W|]. destruct s; cbn in *; auto. Qed.

Lemma swf_supd d f : forall s, swf s -> (swf (ssub d s) -> swf (f (ssub d s))) -> swf (supd d f s).
Proof.
  induction d as [|d IH]; intros s W Hf; [now apply Hf|].
  destruct s; cbn in *; auto.
Qed.

(* a write through a handle, seen at the handle's level of the stack *)
Lemma level_view_write h s ops : swf s ->
  sview (ssub (h_d h) (sh_upd h (fun x => swrite x ops) s)) =
    kv_write (sview (ssub (h_d h) s)) (map (wop_pre (hpre h)) ops) /\
  swf (sh_upd h (fun x => swrite x ops) s).
Proof.
  intros W. unfold sh_upd. split.
  - rewrite ssub_supd.
    + rewrite swrite_swrap, sunwrap_swrap. apply sview_swrite_s. now apply swf_ssub.
    + intros m. rewrite swrite_swrap, sunwrap_swrap. cbn. eauto.
  - apply swf_supd; auto. intros Ws. rewrite swrite_swrap, sunwrap_swrap. now apply swf_swrite.
Qed.

Lemma handle_view h s : swf s ->
  sview (sh_view h s) = kv_table_view (hpre h) (sview (ssub (h_d h) s)).
Proof. intros W. unfold sh_view. apply sview_swrap. now apply swf_ssub. Qed.

(* ---------- agreement outside a prefix ---------- *)

Definition agree_outside (Q : key) (m1 m2 : kvmap) : Prop :=
  forall k, has_prefix Q k = false -> sm_get m1 k = sm_get m2 k.

Lemma agree_tv P Q m1 m2 : sm_sorted m1 -> sm_sorted m2 ->
  has_prefix P Q = false -> has_prefix Q P = false -> agree_outside Q m1 m2 ->
  kv_table_view P m1 = kv_table_view P m2.
Proof.
  intros S1 S2 H1 H2 A. apply sm_ext; auto using tv_sorted.
  intros k. rewrite !tv_get by auto. apply A. now apply incomparable_other.
Qed.

Lemma agree_write Q m1 m2 ops : sm_sorted m1 -> sm_sorted m2 -> agree_outside Q m1 m2 ->
  agree_outside Q (kv_write m1 ops) (kv_write m2 ops).
Proof.
  intros S1 S2 A k Hk. rewrite !kv_write_get by auto. destruct (lastw ops k) as [[v|]|]; auto.
Qed.

Lemma lastw_outside Q ops k : Forall (fun w => has_prefix Q (wop_key w) = true) ops ->
  has_prefix Q k = false -> lastw ops k = None.
Proof.
  induction ops as [|w ops IH]; intros F Hk; [reflexivity|].
  inversion F; subst. cbn. rewrite IH by auto.
  rewrite bytes_eqb_neq; auto. intros ->. congruence.
Qed.

Lemma agree_write_inside Q m ops : sm_sorted m ->
  Forall (fun w => has_prefix Q (wop_key w) = true) ops -> agree_outside Q m (kv_write m ops).
Proof.
  intros S F k Hk. rewrite kv_write_get by auto. now rewrite (lastw_outside Q ops k F Hk).
Qed.

Lemma pre_inside Q p ops : has_prefix Q p = true ->
  Forall (fun w => has_prefix Q (wop_key w) = true) (map (wop_pre p) ops).
Proof.
  intros H. rewrite Forall_forall. intros w Hin. apply in_map_iff in Hin as [w0 [<- _]].
  assert (K : wop_key (wop_pre p w0) = p ++ wop_key w0) by (destruct w0; reflexivity).
  rewrite K. eapply has_prefix_trans; [exact H|apply has_prefix_app].
Qed.

(* ---------- histories ---------- *)

Lemma nth_set_nth_same' {A} (x d : A) : forall i l, nth i (set_nth i x d l) d = x.
Proof. induction i as [|i IH]; intros [|y l]; cbn; auto. Qed.
Lemma nth_set_nth_other' {A} (x d : A) : forall j i l, j <> i -> nth i (set_nth j x d l) d = nth i l d.
Proof.
  induction j as [|j IH]; intros [|i] [|y l] H; cbn; auto; try congruence.
  - destruct i; reflexivity.
  - rewrite IH by congruence. destruct i; reflexivity.
Qed.

Section Histories.
Variable d : nat.          (* the level of the stack the tables sit on *)
Variable Q : key.          (* the key space whose writes are inserted *)

(* inserted operations: direct writes through handles inside Q's key space *)
Definition q_write (o : op) : Prop :=
  match o with
  | OPut h _ _ => h_d h = d /\ has_prefix Q (hpre h) = true
  | ODel h _ => h_d h = d /\ has_prefix Q (hpre h) = true
  | _ => False
  end.

Definition incomparable_h (h : handle) : Prop :=
  h_d h = d /\ has_prefix (hpre h) Q = false /\ has_prefix Q (hpre h) = false.

(* the observed history.  Reads, iterations and snapshots only through handles incomparable with Q
   (and later reads of those snapshots); direct writes and batches (bound by an OBNew of this
   history; building, write, reset, replay) anywhere on level d.  NOT covered: flush, drop, init,
   NotFlushedPairs, Compact, Stat, live iterators, handles on other levels. *)
Fixpoint p_hist (bound : list nat) (l : list op) : Prop :=
  match l with
  | [] => True
  | o :: r =>
      match o with
      | OGet h _ | OHas h _ | OIter h _ _ | OSnap h => incomparable_h h /\ p_hist bound r
      | OPut h _ _ | ODel h _ => h_d h = d /\ p_hist bound r
      | OBNew b h => h_d h = d /\ p_hist (b :: bound) r
      | OBPut b _ _ | OBDel b _ | OBWrite b | OBReset b | OBReplay b => In b bound /\ p_hist bound r
      | OSGet _ _ | OSHas _ _ | OSIter _ _ _ => p_hist bound r
      | _ => False
      end
  end.

Inductive inserted : list op -> list op -> Prop :=
| ins_nil : inserted [] []
| ins_same o l1 l2 : inserted l1 l2 -> inserted (o :: l1) (o :: l2)
| ins_extra w l1 l2 : q_write w -> inserted l1 l2 -> inserted l1 (w :: l2).

Record sim (bound : list nat) (a b : sstate) : Prop := {
  sim_wf1 : swf (ss_store a);
  sim_wf2 : swf (ss_store b);
  sim_agree : agree_outside Q (sview (ssub d (ss_store a))) (sview (ssub d (ss_store b)));
  sim_b : ss_batches a = ss_batches b;
  sim_bd : forall x, In x bound -> h_d (fst (sget_batch a x)) = d;
  sim_s : ss_snaps a = ss_snaps b;
  sim_l1 : ss_lives a = [];
  sim_l2 : ss_lives b = []
}.

Definition bound_after (bound : list nat) (o : op) : list nat :=
  match o with OBNew b _ => b :: bound | _ => bound end.

Lemma sim_p_op lsafe bound a b o r : sim bound a b -> p_hist bound (o :: r) ->
  sim (bound_after bound o) (fst (spec_run_op lsafe a o)) (fst (spec_run_op lsafe b o)) /\
  snd (spec_run_op lsafe a o) = snd (spec_run_op lsafe b o) /\ p_hist (bound_after bound o) r.
Proof.
  intros [W1 W2 A Eb Bd Es L1 L2] P.
  assert (RD : forall h, incomparable_h h ->
             sview (sh_view h (ss_store a)) = sview (sh_view h (ss_store b))).
  { intros h (Hd & H1 & H2). rewrite !handle_view by auto. rewrite Hd.
    apply (agree_tv (hpre h) Q); auto using sview_sorted, swf_ssub. }
  assert (WR : forall h ops, h_d h = d ->
             swf (sh_upd h (fun x => swrite x ops) (ss_store a)) /\
             swf (sh_upd h (fun x => swrite x ops) (ss_store b)) /\
             agree_outside Q (sview (ssub d (sh_upd h (fun x => swrite x ops) (ss_store a))))
                             (sview (ssub d (sh_upd h (fun x => swrite x ops) (ss_store b))))).
  { intros h ops Hd.
    destruct (level_view_write h (ss_store a) ops W1) as [E1 W1'].
    destruct (level_view_write h (ss_store b) ops W2) as [E2 W2'].
    repeat split; auto. rewrite <- Hd, E1, E2. rewrite Hd.
    apply agree_write; auto using sview_sorted, swf_ssub. }
  unfold spec_run_op.
  destruct o; cbn [p_hist] in P; try contradiction; cbn [spec_run_op1 bound_after];
    unfold lives_after; cbn [op_kills_lives].
  - (* put *) destruct P as [Hd P]. destruct (WR h [WPut k v] Hd) as (X1 & X2 & X3).
    cbn. rewrite L1, L2. cbn. (split; [|split; auto]). constructor; cbn; auto.
  - (* del *) destruct P as [Hd P]. destruct (WR h [WDel k] Hd) as (X1 & X2 & X3).
    cbn. rewrite L1, L2. cbn. (split; [|split; auto]). constructor; cbn; auto.
  - (* get *) destruct P as [Hh P]. cbn. rewrite (RD h Hh). (split; [|split; auto]). constructor; cbn; auto.
  - (* has *) destruct P as [Hh P]. cbn. rewrite (RD h Hh). (split; [|split; auto]). constructor; cbn; auto.
  - (* iter *) destruct P as [Hh P]. cbn. rewrite (RD h Hh). (split; [|split; auto]). constructor; cbn; auto.
  - (* bnew *) destruct P as [Hd P]. cbn. (split; [|split; auto]). constructor; cbn; auto.
    + now rewrite Eb.
    + intros x [<-|Hx]; unfold sget_batch; cbn.
      * now rewrite nth_set_nth_same'.
      * destruct (Nat.eq_dec b0 x) as [->|N]; [now rewrite nth_set_nth_same'|].
        rewrite nth_set_nth_other' by auto. now apply Bd.
  - (* bput *) destruct P as [Hb P]. cbn. unfold sget_batch. rewrite <- Eb.
    destruct (nth b0 (ss_batches a) (h0, [])) as [h l] eqn:Eq. cbn. (split; [|split; auto]).
    constructor; cbn; auto.
    + now rewrite Eb.
    + intros x Hx. unfold sget_batch; cbn. destruct (Nat.eq_dec b0 x) as [->|N].
      * rewrite nth_set_nth_same'. cbn. specialize (Bd x Hx). unfold sget_batch in Bd. now rewrite Eq in Bd.
      * rewrite nth_set_nth_other' by auto. now apply Bd.
  - (* bdel *) destruct P as [Hb P]. cbn. unfold sget_batch. rewrite <- Eb.
    destruct (nth b0 (ss_batches a) (h0, [])) as [h l] eqn:Eq. cbn. (split; [|split; auto]).
    constructor; cbn; auto.
    + now rewrite Eb.
    + intros x Hx. unfold sget_batch; cbn. destruct (Nat.eq_dec b0 x) as [->|N].
      * rewrite nth_set_nth_same'. cbn. specialize (Bd x Hx). unfold sget_batch in Bd. now rewrite Eq in Bd.
      * rewrite nth_set_nth_other' by auto. now apply Bd.
  - (* bwrite *) destruct P as [Hb P]. cbn. unfold sget_batch. rewrite <- Eb.
    pose proof (Bd b0 Hb) as Hd. unfold sget_batch in Hd.
    destruct (nth b0 (ss_batches a) (h0, [])) as [h l] eqn:Eq. cbn in Hd.
    destruct (WR h l Hd) as (X1 & X2 & X3).
    cbn. rewrite L1, L2. cbn. (split; [|split; auto]). constructor; cbn; auto.
  - (* breset *) destruct P as [Hb P]. cbn. unfold sget_batch. rewrite <- Eb.
    destruct (nth b0 (ss_batches a) (h0, [])) as [h l] eqn:Eq. cbn. (split; [|split; auto]).
    constructor; cbn; auto.
    + now rewrite Eb.
    + intros x Hx. unfold sget_batch; cbn. destruct (Nat.eq_dec b0 x) as [->|N].
      * rewrite nth_set_nth_same'. cbn. specialize (Bd x Hx). unfold sget_batch in Bd. now rewrite Eq in Bd.
      * rewrite nth_set_nth_other' by auto. now apply Bd.
  - (* breplay *) destruct P as [Hb P]. cbn. unfold sget_batch. rewrite <- Eb.
    destruct (nth b0 (ss_batches a) (h0, [])) as [h l] eqn:Eq. cbn. (split; [|split; auto]).
    constructor; cbn; auto.
  - (* snap *) destruct P as [Hh P]. cbn. rewrite (RD h Hh). (split; [|split; auto]).
    constructor; cbn; auto. now rewrite Es.
  - (* sget *) cbn. rewrite Es. (split; [|split; auto]). constructor; cbn; auto.
  - (* shas *) cbn. rewrite Es. (split; [|split; auto]). constructor; cbn; auto.
  - (* siter *) cbn. rewrite Es. (split; [|split; auto]). constructor; cbn; auto.
Qed.

Lemma sim_q_write lsafe bound a b w : sim bound a b -> q_write w ->
  sim bound a (fst (spec_run_op lsafe b w)) /\ snd (spec_run_op lsafe b w) = [].
Proof.
  intros [W1 W2 A Eb Bd Es L1 L2] P.
  assert (WR : forall h ops, h_d h = d -> has_prefix Q (hpre h) = true ->
             sim bound a {| ss_store := sh_upd h (fun x => swrite x ops) (ss_store b); ss_batches := ss_batches b;
                            ss_snaps := ss_snaps b; ss_lives := [] |}).
  { intros h ops Hd HQ.
    destruct (level_view_write h (ss_store b) ops W2) as [E2 W2'].
    constructor; cbn; auto. rewrite <- Hd, E2. rewrite Hd.
    intros k Hk. rewrite (A k Hk).
    apply (agree_write_inside Q (sview (ssub d (ss_store b))) (map (wop_pre (hpre h)) ops));
      auto using sview_sorted, swf_ssub.
    now apply pre_inside. }
  destruct w; cbn in P; try contradiction; destruct P as [Hd HQ]; unfold spec_run_op; cbn;
    unfold lives_after; cbn; rewrite L2; cbn; (split; [|reflexivity]); now apply WR.
Qed.

Theorem spec_isolation_ops lsafe l1 l2 : inserted l1 l2 ->
  forall bound a b, p_hist bound l1 -> sim bound a b -> spec_run_ops lsafe b l2 = spec_run_ops lsafe a l1.
Proof.
  induction 1 as [|o l1 l2 H IH|w l1 l2 Hw H IH]; intros bound a b F S; [reflexivity| |].
  - cbn [spec_run_ops].
    destruct (sim_p_op lsafe bound a b o l1 S F) as (S' & E & F').
    destruct (spec_run_op lsafe a o) as [a' oa]. destruct (spec_run_op lsafe b o) as [b' ob'].
    cbn in S', E. subst. f_equal. eapply IH; eauto.
  - cbn [spec_run_ops].
    destruct (sim_q_write lsafe bound a b w S Hw) as [S' E].
    destruct (spec_run_op lsafe b w) as [b' ob']. cbn in S', E. subst. cbn. eapply IH; eauto.
Qed.

Theorem spec_isolation lsafe ss0 l1 l2 : swf ss0 -> inserted l1 l2 -> p_hist [] l1 ->
  spec_run lsafe ss0 l2 = spec_run lsafe ss0 l1.
Proof.
  intros W I F. unfold spec_run. eapply spec_isolation_ops; eauto.
  constructor; cbn; auto; [intros k _; reflexivity | intros x []].
Qed.

End Histories.

(* ---------- the same for the model run ---------- *)
From LV Require Import model.PrefixRange model.Table model.Flushable model.KvStack
  proofs.KvStackWrites proofs.KvStackRefine.

Lemma R_swf s : forall ss, R s ss -> swf ss.
Proof.
  induction s as [e m|o|o u IH|p u IH|u IH|o i u IH]; intros [m'|log su|p' su|su|log i' su]; cbn; try tauto.
  - intros (<- & S & _). exact S.
  - intros (-> & So). apply merge_overlay_sorted. exact I.
  - intros (_ & _ & _ & Ru). eauto.
  - intros (_ & _ & Ru). eauto.
  - eauto.
  - intros (_ & _ & _ & _ & Ru). eauto.
Qed.

Theorem model_isolation d Q lsafe ideal s0 ss0 l1 l2 : R s0 ss0 ->
  inserted d Q l1 l2 -> p_hist d Q [] l1 -> Forall op_wf l1 -> Forall op_wf l2 ->
  map erase (run lsafe ideal s0 l2) = map erase (run lsafe ideal s0 l1).
Proof.
  intros HR I F W1 W2.
  rewrite (run_refines lsafe ideal s0 ss0 l2 HR W2), (run_refines lsafe ideal s0 ss0 l1 HR W1).
  apply (spec_isolation d Q); auto. eapply R_swf; eauto.
Qed.

Example isolation_nonvacuous :
  let hp := {| h_d := 0; h_path := [[97%N]] |} in
  let hq := {| h_d := 0; h_path := [[98%N]; [0%N]] |} in
  let l1 := [OPut hp [1%N] []; OBNew 0 hp; OBPut 0 [2%N] [3%N]; OSnap hp; OBWrite 0; OGet hp [1%N]; OSIter 0 None None] in
  inserted 0 [98%N] l1 (OPut hq [1%N] [2%N] :: OPut hp [1%N] [] :: OBNew 0 hp :: ODel hq [] :: skipn 2 l1)
  /\ p_hist 0 [98%N] [] l1.
Proof.
  split.
  - apply ins_extra; [cbn; auto|]. apply ins_same. apply ins_same. apply ins_extra; [cbn; auto|].
    repeat apply ins_same. constructor.
  - cbn. unfold incomparable_h. cbn. tauto.
Qed.
