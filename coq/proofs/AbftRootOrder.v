(* The frame decision does not depend on the ORDER in which Store.GetFrameRoots returns the roots of a frame
   (cache arrival order in a running instance, key order (validator, event id) after a restart): the quorum test
   of forklessCausedByQuorumOn counts a validator iff ANY of its roots of the frame forkless-causes the event
   (proofs/AbftCount.v qp_is_weight), which is a property of the set of roots.  A variant that asks the index only
   for the first root of each validator (seeded change C08-e) loses exactly this. *)
From Coq Require Import NArith List Bool Lia Permutation.
From LV Require Import model.VecIndex model.Abft proofs.AbftFrame proofs.AbftCount.
Import ListNotations.
Local Open Scope N_scope.

Section RootOrder.
Variable v : vals.
Hypothesis ids_nodup : NoDup (v_ids v).

Lemma vsum_ext l : forall P Q, (forall id, P id = Q id) -> vsum l P = vsum l Q.
Proof. induction l as [|[x w] t IH]; intros P Q H; cbn; auto. rewrite H, (IH P Q H). reflexivity. Qed.

Theorem qp_same_roots s roots roots' a g :
  (forall r, In r roots -> v_exists v (r_val r) = true) ->
  (forall r, In r roots <-> In r roots') ->
  qp v s roots a g = qp v s roots' a g.
Proof.
  intros Hex Hiff.
  rewrite (qp_is_weight v ids_nodup s roots a g Hex).
  rewrite (qp_is_weight v ids_nodup s roots' a g) by (intros r Hr; apply Hex, Hiff, Hr).
  f_equal. apply vsum_ext. intros id.
  apply eq_true_iff_eq. rewrite !existsb_exists.
  split; intros [r [Hin Hp]]; exists r; (split; [|exact Hp]);
    unfold roots_of in *; apply filter_In in Hin as [Hin Hf]; apply filter_In; split; auto; apply Hiff; exact Hin.
Qed.

Lemma calc_pure_same_roots s roots roots' a maxf :
  (forall r, In r roots -> v_exists v (r_val r) = true) ->
  (forall r, In r roots <-> In r roots') ->
  forall fuel f, calc_pure fuel v s roots a f maxf = calc_pure fuel v s roots' a f maxf.
Proof.
  intros Hex Hiff. induction fuel as [|fu IH]; intros f; cbn [calc_pure]; auto.
  destruct (negb (f <? maxf)); auto.
  rewrite (qp_same_roots s roots roots' a f Hex Hiff). destruct (qp v s roots' a f); auto.
Qed.

(* calcFrameIdx (Build and the frame check of Process) is invariant under permutation of the root table *)
Theorem frame_pure_perm es s roots roots' e co :
  (forall r, In r roots -> v_exists v (r_val r) = true) ->
  Permutation roots roots' ->
  frame_pure es v s roots e co = frame_pure es v s roots' e co.
Proof.
  intros Hex P. unfold frame_pure. destruct (spf_of es e) as [spf|x]; auto.
  rewrite (Permutation_length P).
  rewrite (calc_pure_same_roots s roots roots' (a_id e) (if co then a_frame e else spf + 100) Hex
             (fun r => conj (Permutation_in r P) (Permutation_in r (Permutation_sym P)))).
  reflexivity.
Qed.
End RootOrder.
