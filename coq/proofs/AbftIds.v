(* Temporary ids of IndexedLachesis.Build: the repaired sampler is injective, the event id
   determines the 24-byte tail, hence temporary ids of different builds differ. *)
From Coq Require Import NArith ZArith List Lia Bool ZifyN ZifyNat.
From LV Require Import lib.Bytes lib.BytesFacts model.Codec proofs.CodecProofs model.VecIndex model.Abft.
Import ListNotations.
Local Open Scope N_scope.
Ltac Zify.zify_post_hook ::= Z.div_mod_to_equations.

Lemma unle_inj a : forall b, length a = length b -> wf_bytes a = true -> wf_bytes b = true ->
  unle a = unle b -> a = b.
Proof.
  induction a as [|x a IH]; intros [|y b] Hl Ha Hb Hu; cbn in Hl; try discriminate; auto.
  cbn [wf_bytes forallb] in Ha, Hb. apply andb_prop in Ha as [Hx Ha]. apply andb_prop in Hb as [Hy Hb].
  unfold byte_ok in Hx, Hy. apply N.ltb_lt in Hx. apply N.ltb_lt in Hy.
  cbn [unle] in Hu.
  assert (x = y /\ unle a = unle b) as [-> Hu'] by lia.
  f_equal. apply IH; auto.
Qed.

Lemma unbe_inj a b : length a = length b -> wf_bytes a = true -> wf_bytes b = true ->
  unbe a = unbe b -> a = b.
Proof.
  intros Hl Ha Hb Hu. unfold unbe in Hu.
  apply unle_inj in Hu; try (rewrite !rev_length; auto); try (rewrite wf_bytes_rev; auto).
  rewrite <- (rev_involutive a), <- (rev_involutive b), Hu. reflexivity.
Qed.

Lemma app_eq_len {A} (a : list A) : forall a' b b', length a = length a' -> a ++ b = a' ++ b' -> b = b'.
Proof.
  induction a as [|x a IH]; intros [|y a'] b b' Hl H; cbn in *; try discriminate; auto.
  inversion H; subst. inversion Hl. eapply IH; eauto.
Qed.

Lemma wf_bytes_app a b : wf_bytes (a ++ b) = wf_bytes a && wf_bytes b.
Proof. unfold wf_bytes. apply forallb_app. Qed.

(* the id fixes the tail (tails are 24 well-formed bytes) *)
Lemma mk_id_bytes_tail_inj e1 l1 t1 e2 l2 t2 :
  length t1 = 24%nat -> length t2 = 24%nat -> wf_bytes t1 = true -> wf_bytes t2 = true ->
  mk_id_bytes e1 l1 t1 = mk_id_bytes e2 l2 t2 -> t1 = t2.
Proof.
  intros L1 L2 W1 W2 H. unfold mk_id_bytes, event_id in H.
  apply unbe_inj in H.
  - apply app_eq_len in H; [|rewrite !be_length; reflexivity].
    apply app_eq_len in H; [|rewrite !be_length; reflexivity]. exact H.
  - rewrite !app_length, !be_length, L1, L2. reflexivity.
  - rewrite !wf_bytes_app, !be_wf, W1. reflexivity.
  - rewrite !wf_bytes_app, !be_wf, W2. reflexivity.
Qed.

Lemma sample_some c t : sample c = Some t -> c < 2 ^ 192 /\ t = be 24 c.
Proof.
  unfold sample. destruct (2 ^ 192 <=? c) eqn:E; [discriminate|].
  intros H; inversion H; subst. apply N.leb_gt in E. split; auto.
Qed.

Lemma pow256_24 : pow256 24 = 2 ^ 192. Proof. vm_compute. reflexivity. Qed.

Lemma sample_inj c1 c2 t : sample c1 = Some t -> sample c2 = Some t -> c1 = c2.
Proof.
  intros H1 H2. apply sample_some in H1 as [B1 E1]. apply sample_some in H2 as [B2 E2].
  subst t. apply (be_inj 24); rewrite ?pow256_24; auto.
Qed.

Lemma sample_shape c t : sample c = Some t -> length t = 24%nat /\ wf_bytes t = true.
Proof. intros H. apply sample_some in H as [_ ->]. split; [apply be_length | apply be_wf]. Qed.

(* two builds with different counters get different ids, whatever their epochs and Lamport times *)
Lemma temp_id_inj e1 l1 c1 t1 e2 l2 c2 t2 :
  sample c1 = Some t1 -> sample c2 = Some t2 ->
  mk_id_bytes e1 l1 t1 = mk_id_bytes e2 l2 t2 -> c1 = c2.
Proof.
  intros S1 S2 H.
  destruct (sample_shape _ _ S1) as [L1 W1]. destruct (sample_shape _ _ S2) as [L2 W2].
  apply mk_id_bytes_tail_inj in H; auto. subst t2. eapply sample_inj; eauto.
Qed.

(* the pinned sampler: build #1 and build #256 (and #65536) share the tail *)
Example sample_old_collides : sample_old 1 = sample_old 256 /\ sample_old 1 = sample_old 65536 /\
                               sample_old 2 = sample_old 512 /\ 1 <> 256.
Proof. repeat split; try (vm_compute; reflexivity). discriminate. Qed.
