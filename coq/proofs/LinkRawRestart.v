(* link_restart (restarts at event boundaries are invisible) for validator lists in any order. *)
From Coq Require Import NArith ZArith List Lia Bool ZifyBool ZifyN ZifyNat Permutation.
From LV Require Import model.VecIndex model.Abft model.AbftRun spec.ElectionSpec lib.WSumBft
  proofs.BftGraph proofs.BftMain proofs.BftRun proofs.BftAccept proofs.BftProps
  proofs.LinkVals proofs.LinkPerm proofs.LinkDefs proofs.LinkEquiv proofs.LinkRun proofs.LinkRestart proofs.LinkRaw.
Import ListNotations.
Local Open Scope N_scope.

Theorem link_restart_raw cap lam (rs : list bool) : forall vals D, length rs = length D ->
  link_side_raw vals D -> valid_run vals D ->
  abft_run_r cap lam rs vals D = reference vals D /\
  abft_run_r cap lam rs vals D = abft_run cap lam vals D /\
  Forall clean_restart (run cap [] sample (start 1 vals) (abft_ops_r lam vals rs D)).
Proof.
  intros vals D Hlen Side Valid.
  pose proof (link_full_raw cap lam vals D Side Valid) as LFR.
  destruct Side as (Raw & Tot & Fresh & Len).
  pose proof (canon_order_perm vals) as Hperm.
  assert (EV : mk_vals vals = vals' vals) by (apply mk_vals_canon; exact Raw).
  assert (Can : canonical (vals' vals)) by (rewrite <- EV; apply mk_vals_canonical; exact Raw).
  assert (Hcanon : canon_order (vals' vals) = seq 0 (length vals)).
  { rewrite (canon_order_canonical _ Can), (vals'_len vals). reflexivity. }
  assert (Vok : vals_ok (vals' vals)).
  { split; [exact Can|]. rewrite v_total_total. change VecIndex.total_weight with ElectionSpec.total_weight.
    rewrite (total_same vals). exact Tot. }
  destruct (reference_pn vals Hcanon D Valid) as [Valid' ER].
  set (D' := map (pe vals) D) in *.
  assert (Side' : link_side (vals' vals) D').
  { split; [exact Vok|]. split.
    - intros e' He'. unfold D' in He'. apply in_map_iff in He' as [e [<- He]]. unfold D'. rewrite map_length. apply (Fresh e He).
    - unfold D'. rewrite map_length. exact Len. }
  assert (Hlen' : length rs = length D') by (unfold D'; rewrite map_length; exact Hlen).
  destruct (link_restart cap (fun e' => lam (upe vals e')) rs (vals' vals) D' Hlen' Side' Valid') as [R1 [R2 R3]].
  assert (Hcr : forall e, In e D -> (ecr (fe e) < length vals)%nat).
  { intros e He. destruct Valid as [Hacc _]. apply (accepted_cr vals _ _ (table_wfTD vals D Hacc) e). apply -> in_rev. exact He. }
  assert (Estart : start 1 vals = start 1 (vals' vals)) by (unfold start; rewrite EV, Can; reflexivity).
  assert (Eops : abft_ops_r lam vals rs D = abft_ops_r (fun e' => lam (upe vals e')) (vals' vals) rs D').
  { unfold abft_ops_r, abft_ops_r_ep, D'. clear - Hcr Hperm Hlen. revert rs Hlen. induction D as [|e D IH]; intros [|r rs] Hlen; try reflexivity; try discriminate.
    cbn [map combine flat_map fst snd].
    assert (Eae : to_aevent 1 (fun e' => lam (upe vals e')) (vals' vals) (pe vals e) = to_aevent 1 lam vals e).
    { unfold to_aevent. cbn [pe fe ffr eid ecr eseq epar]. fold (pe vals e). rewrite (upe_pe vals e (Hcr e (or_introl eq_refl))). f_equal. unfold vid.
      rewrite (vid_vals' vals _ (pos_lt _ _ Hperm _ (Hcr e (or_introl eq_refl)))), (unpos_pos _ _ Hperm _ (Hcr e (or_introl eq_refl))). reflexivity. }
    rewrite Eae. f_equal. apply IH; [intros e0 He0; apply Hcr; right; exact He0 | cbn [length] in Hlen; lia]. }
  unfold abft_run_r in *. rewrite Estart, Eops. split; [rewrite R1; exact ER|]. split; [|exact R3].
  rewrite R1, ER. symmetry. exact LFR.
Qed.
