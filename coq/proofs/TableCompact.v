(* C24: incPrefix (through math/big, as coded) and the Compact range of a whole table.
   inc_prefix p = prefix_succ p padded with zeros to the length of p (nil exactly when p is
   empty or all 0xff), hence [p, incPrefix p) covers every key with prefix p; the same through
   any nesting of tables (st_compact). *)
From Coq Require Import NArith List Lia Bool Arith.
From LV Require Import lib.Bytes lib.BytesFacts lib.Lex lib.SortedMap spec.KvSpec spec.KvOps spec.KvStackSpec
  model.PrefixRange model.Table model.Flushable model.KvStack proofs.TableView.
Import ListNotations.
Local Open Scope N_scope.

Definition p256 (n : nat) : N := 256 ^ N.of_nat n.

Lemma p256_0 : p256 0 = 1. Proof. reflexivity. Qed.
Lemma p256_S n : p256 (S n) = 256 * p256 n.
Proof. unfold p256. rewrite Nat2N.inj_succ, N.pow_succ_r'. reflexivity. Qed.
Lemma p256_pos n : 0 < p256 n.
Proof. unfold p256. pose proof (N.pow_nonzero 256 (N.of_nat n)). lia. Qed.
Lemma p256_add a b : p256 (a + b) = p256 a * p256 b.
Proof. unfold p256. rewrite Nat2N.inj_add, N.pow_add_r. reflexivity. Qed.

Definition bstep (acc b : N) : N := acc * 256 + b.
Lemma be_val_unfold p : be_val p = fold_left bstep p 0.
Proof. reflexivity. Qed.

Lemma fold_bstep l : forall acc, fold_left bstep l acc = acc * p256 (length l) + fold_left bstep l 0.
Proof.
  induction l as [|b l IH]; intros acc; cbn [fold_left length].
  - rewrite p256_0. lia.
  - rewrite IH, (IH (bstep 0 b)), p256_S. unfold bstep. lia.
Qed.

Lemma be_val_cons c l : be_val (c :: l) = c * p256 (length l) + be_val l.
Proof. rewrite !be_val_unfold. cbn [fold_left]. rewrite fold_bstep. unfold bstep. lia. Qed.

Lemma be_val_snoc l x : be_val (l ++ [x]) = be_val l * 256 + x.
Proof. rewrite !be_val_unfold, fold_left_app. reflexivity. Qed.

Lemma be_val_lt l : wf_bytes l = true -> be_val l < p256 (length l).
Proof.
  induction l as [|c l IH]; intros W.
  - cbn. lia.
  - apply wf_bytes_cons in W as [Wc W]. specialize (IH W).
    rewrite be_val_cons. cbn [length]. rewrite p256_S. nia.
Qed.

Lemma be_val_zeros n : be_val (repeat 0 n) = 0.
Proof. induction n as [|n IH]; [reflexivity|]. cbn [repeat]. rewrite be_val_cons, IH. lia. Qed.

Lemma wf_zeros n : wf_bytes (repeat 0 n) = true.
Proof. induction n; cbn; auto. Qed.

(* ---------- big.Int.Bytes ---------- *)

Definition normalized (d : key) : Prop := match d with [] => True | h :: _ => h <> 0 end.

Lemma normalized_snoc d x : normalized d -> d <> [] -> normalized (d ++ [x]).
Proof. destruct d; cbn; auto; congruence. Qed.

Lemma be_val_pos d : normalized d -> d <> [] -> wf_bytes d = true -> 0 < be_val d.
Proof.
  destruct d as [|h d]; [congruence|]. cbn [normalized]. intros Hn _ W.
  rewrite be_val_cons. pose proof (p256_pos (length d)). nia.
Qed.

Lemma be_min_normalized d : forall fuel, normalized d -> wf_bytes d = true -> (length d <= fuel)%nat ->
  be_min fuel (be_val d) = Some d.
Proof.
  induction d as [|x d IH] using rev_ind; intros fuel Hn W L.
  - destruct fuel; reflexivity.
  - rewrite wf_bytes_app in W. apply andb_true_iff in W as [Wd Wx].
    apply wf_bytes_cons in Wx as [Wx _].
    rewrite app_length in L. cbn in L.
    destruct fuel as [|fuel]; [lia|].
    assert (Hnd : normalized d) by (destruct d; cbn in *; auto).
    rewrite be_val_snoc.
    assert (NZ : be_val d * 256 + x <> 0).
    { destruct d as [|h d'].
      - cbn in Hn. cbn. lia.
      - pose proof (be_val_pos (h :: d') Hnd ltac:(discriminate) Wd). lia. }
    cbn [be_min]. apply N.eqb_neq in NZ. rewrite NZ.
    assert (D : (be_val d * 256 + x) / 256 = be_val d).
    { symmetry. apply (N.div_unique _ 256 _ x); lia. }
    assert (M : (be_val d * 256 + x) mod 256 = x).
    { symmetry. apply (N.mod_unique _ 256 (be_val d) x); lia. }
    rewrite D, M, IH; auto. lia.
Qed.

(* strip leading zeros *)
Fixpoint lz (l : key) : key :=
  match l with
  | b :: l' => if b =? 0 then lz l' else l
  | [] => []
  end.

Lemma lz_spec l : normalized (lz l) /\ be_val (lz l) = be_val l /\ (length (lz l) <= length l)%nat /\
  l = repeat 0 (length l - length (lz l)) ++ lz l /\ (wf_bytes l = true -> wf_bytes (lz l) = true).
Proof.
  induction l as [|b l (Hn & Hv & Hl & Hd & Hw)]; cbn [lz].
  - repeat split; auto.
  - destruct (N.eqb_spec b 0) as [->|NZ].
    + repeat split; auto.
      * cbn. lia.
      * cbn [length]. replace (S (length l) - length (lz l))%nat with (S (length l - length (lz l))) by lia.
        cbn [repeat app]. f_equal. exact Hd.
    + repeat split; auto. rewrite Nat.sub_diag. reflexivity.
Qed.

(* ---------- the carry ---------- *)

Definition pad_succ (p u0 : key) : key := u0 ++ repeat 0 (length p - length u0).

Lemma prefix_succ_length p u0 : prefix_succ p = Some u0 -> (length u0 <= length p)%nat.
Proof.
  revert u0. induction p as [|c p IH]; intros u0; cbn; [discriminate|].
  destruct (prefix_succ p) as [w|].
  - intros E; inversion E; subst. cbn. specialize (IH w eq_refl). lia.
  - destruct (c <? 255); intros E; inversion E; subst. cbn. lia.
Qed.

Lemma all_ff_val p : wf_bytes p = true -> prefix_succ p = None -> be_val p + 1 = p256 (length p).
Proof.
  induction p as [|c p IH]; intros W E; [reflexivity|].
  apply wf_bytes_cons in W as [Wc W]. cbn in E.
  destruct (prefix_succ p); [discriminate|].
  destruct (N.ltb_spec c 255); [discriminate|].
  rewrite be_val_cons. cbn [length]. rewrite p256_S. specialize (IH W eq_refl). nia.
Qed.

Lemma pad_succ_val p u0 : wf_bytes p = true -> prefix_succ p = Some u0 ->
  be_val (pad_succ p u0) = be_val p + 1 /\ length (pad_succ p u0) = length p /\
  wf_bytes (pad_succ p u0) = true.
Proof.
  revert u0. induction p as [|c p IH]; intros u0 W E; [discriminate|].
  apply wf_bytes_cons in W as [Wc W]. cbn in E.
  destruct (prefix_succ p) as [w|] eqn:Ep.
  - inversion E; subst. destruct (IH w W eq_refl) as (Hv & Hl & Hw).
    unfold pad_succ in *. cbn [length app Nat.sub].
    change ((c :: w) ++ repeat 0 (length p - length w)) with (c :: (w ++ repeat 0 (length p - length w))).
    rewrite !be_val_cons, Hv, Hl. repeat split; try lia.
    + apply wf_bytes_cons. split; auto.
  - destruct (N.ltb_spec c 255); [|discriminate]. inversion E; subst.
    unfold pad_succ. cbn [length app Nat.sub]. rewrite Nat.sub_0_r.
    rewrite !be_val_cons, be_val_zeros, repeat_length.
    pose proof (all_ff_val p W Ep). repeat split.
    + lia.
    + apply wf_bytes_cons. split; [lia|apply wf_zeros].
Qed.

(* ---------- incPrefix ---------- *)

Theorem inc_prefix_spec p : wf_bytes p = true ->
  match inc_prefix p with
  | IncNil => prefix_succ p = None
  | IncSome u => exists u0, prefix_succ p = Some u0 /\ u = pad_succ p u0
  | IncOutOfFuel => False
  end.
Proof.
  intros W. unfold inc_prefix, inc_prefix_fuel.
  destruct p as [|c0 p0] eqn:EP; [reflexivity|]. rewrite <- EP in *.
  assert (NE : p <> []) by (subst; discriminate). clear EP.
  destruct (prefix_succ p) as [u0|] eqn:E.
  - destruct (pad_succ_val p u0 W E) as (Hv & Hl & Hw).
    destruct (lz_spec (pad_succ p u0)) as (Hn & Hzv & Hzl & Hzd & Hzw).
    rewrite <- Hv, <- Hzv.
    rewrite be_min_normalized; auto; [|lia].
    destruct (Nat.ltb_spec (length p) (length (lz (pad_succ p u0)))); [lia|].
    exists u0. split; auto. rewrite <- Hl. now rewrite <- Hzd.
  - pose proof (all_ff_val p W E) as Hv. rewrite Hv.
    assert (Ev : p256 (length p) = be_val (1 :: repeat 0 (length p))).
    { rewrite be_val_cons, be_val_zeros, repeat_length. lia. }
    rewrite Ev, be_min_normalized.
    + cbn [length]. rewrite repeat_length.
      destruct (Nat.ltb_spec (length p) (S (length p))); [reflexivity|lia].
    + cbn. lia.
    + apply wf_bytes_cons. split; [lia|apply wf_zeros].
    + cbn [length]. rewrite repeat_length. lia.
Qed.

Corollary inc_prefix_nil_iff p : wf_bytes p = true ->
  (inc_prefix_okey p = None <-> Forall (fun b => b = 255) p).
Proof.
  intros W. rewrite <- (prefix_succ_None p W). unfold inc_prefix_okey.
  pose proof (inc_prefix_spec p W) as H. destruct (inc_prefix p) as [|u|].
  - tauto.
  - destruct H as (u0 & E & _). rewrite E. split; discriminate.
  - contradiction.
Qed.

Lemma lex_le_app_r u z : lex_le u (u ++ z).
Proof. apply lex_le_app. Qed.

(* compact_covers : [p, incPrefix p) contains every key with prefix p *)
Theorem inc_prefix_covers p k : wf_bytes p = true -> wf_bytes k = true -> has_prefix p k = true ->
  lex_le p k /\ (forall u, inc_prefix_okey p = Some u -> lex_lt k u).
Proof.
  intros Wp Wk HP. split; [now apply has_prefix_le|].
  intros u E. unfold inc_prefix_okey in E.
  pose proof (inc_prefix_spec p Wp) as H. destruct (inc_prefix p) as [|u'|]; try discriminate.
  inversion E; subst u'. destruct H as (u0 & E0 & Eu). subst u.
  pose proof (proj1 (prefix_succ_Some_iff p u0 k Wp Wk E0) HP) as [_ Lk].
  eapply lex_lt_le_trans; [exact Lk|apply lex_le_app].
Qed.

(* ---------- nesting ---------- *)

Lemma prefix_succ_app q T :
  prefix_succ (q ++ T) = match prefix_succ T with Some u => Some (q ++ u) | None => prefix_succ q end.
Proof.
  induction q as [|c q IH]; cbn [app prefix_succ].
  - now destruct (prefix_succ T).
  - rewrite IH. destruct (prefix_succ T); reflexivity.
Qed.

(* the full prefix a handle's keys carry at the base *)
Fixpoint bpre (s : st) : key :=
  match s with
  | Tab p u => bpre u ++ p
  | Flu _ u => bpre u
  | Syn u => bpre u
  | Lzy _ _ u => bpre u
  | _ => []
  end.

Fixpoint prefixes_wf (s : st) : Prop :=
  match s with
  | Tab p u => wf_bytes p = true /\ prefixes_wf u
  | Flu _ u => prefixes_wf u
  | Syn u => prefixes_wf u
  | Lzy _ _ u => prefixes_wf u
  | _ => True
  end.

Lemma table_compact_covers q T lo hi : wf_bytes q = true -> wf_bytes T = true ->
  compact_covers T lo hi = true ->
  compact_covers (q ++ T) (fst (table_compact q lo hi)) (snd (table_compact q lo hi)) = true.
Proof.
  intros Wq WT H. unfold compact_covers in *. apply andb_true_iff in H as [Hlo Hhi].
  unfold table_compact, prefixed. cbn [fst snd ob]. apply andb_true_iff. split.
  - rewrite lex_leb_app_l. exact Hlo.
  - rewrite prefix_succ_app. destruct hi as [h|].
    + destruct (prefix_succ T) as [u|]; [|discriminate]. now rewrite lex_leb_app_l.
    + unfold inc_prefix_okey. pose proof (inc_prefix_spec q Wq) as HI.
      destruct (inc_prefix q) as [|e|]; auto.
      destruct HI as (u0 & E0 & ->).
      destruct (prefix_succ T) as [u|] eqn:ET.
      * apply lex_leb_le. apply lex_lt_le.
        assert (Wu : wf_bytes u = true) by (eapply prefix_succ_wf; eauto).
        assert (L : lex_lt (q ++ u) u0).
        { apply (prefix_succ_Some_iff q u0 (q ++ u) Wq); auto.
          - rewrite wf_bytes_app, Wq, Wu. reflexivity.
          - apply has_prefix_app. }
        eapply lex_lt_le_trans; [exact L|apply lex_le_app].
      * rewrite E0. apply lex_leb_le. apply lex_le_app.
Qed.

Definition covers_opt (P : key) (r : option (okey * okey)) : bool :=
  match r with Some (lo, hi) => compact_covers P lo hi | None => true end.

Theorem st_compact_covers s : forall T lo hi, prefixes_wf s -> wf_bytes T = true ->
  compact_covers T lo hi = true ->
  covers_opt (bpre s ++ T) (st_compact s lo hi) = true.
Proof.
  induction s as [e m|o|o u IH|p u IH|u IH|o i u IH]; intros T lo hi W WT H; cbn [st_compact bpre app covers_opt]; auto.
  - destruct W as [Wp Wu]. rewrite <- app_assoc. apply IH; auto.
    + rewrite wf_bytes_app, Wp, WT. reflexivity.
    + now apply table_compact_covers.
  - destruct i; auto.
Qed.

Corollary st_compact_whole s : prefixes_wf s ->
  covers_opt (bpre s) (st_compact s None None) = true.
Proof.
  intros W. rewrite <- (app_nil_r (bpre s)) at 1. apply st_compact_covers; auto.
Qed.

(* what the boolean judgement means *)
Theorem compact_covers_sound P lo hi k : wf_bytes P = true -> wf_bytes k = true ->
  compact_covers P lo hi = true -> has_prefix P k = true ->
  lex_le (ob lo) k /\ (forall h, hi = Some h -> lex_lt k h).
Proof.
  intros WP Wk H HP. unfold compact_covers in H. apply andb_true_iff in H as [Hlo Hhi]. split.
  - apply lex_leb_le in Hlo. eapply lex_le_trans; [exact Hlo|now apply has_prefix_le].
  - intros h ->. destruct (prefix_succ P) as [u|] eqn:E; [|discriminate].
    apply (prefix_succ_Some_iff P u k WP Wk E) in HP as [_ L].
    apply lex_leb_le in Hhi. eapply lex_lt_le_trans; eauto.
Qed.
