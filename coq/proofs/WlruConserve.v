(* C29, "reports each removed entry to the eviction callback exactly once", for whole histories:
   everything ever inserted is, as a multiset, what the callback was told + what is still cached
   + the values silently overwritten by an Add on a key that was present (Add replaces the value
   in place without a callback). *)
From Coq Require Import NArith ZArith List Bool Lia Permutation.
From LV Require Import model.Wlru spec.LruSpec proofs.WlruProofs.
Import ListNotations.

Section Conserve.
  Context {K V : Type}.
  Variable keqb : K -> K -> bool.
  Hypothesis keqb_spec : forall a b, keqb a b = true <-> a = b.
  Notation cache := (cache K V).

  (* the pair an operation puts into the cache, read off the operation and its visible result *)
  Definition ins_of (o : op K V) (r : res K V) : list (K * V) :=
    match o, r with
    | OAdd k v _, _ => [(k, v)]
    | OContainsOrAdd k v _, RFoundCount false _ => [(k, v)]
    | OPeekOrAdd k v _, RPrevCount None _ => [(k, v)]
    | _, _ => []
    end.
  (* the pair an Add replaces in place (no callback) *)
  Definition ow_of (c : cache) (o : op K V) : list (K * V) :=
    match o with
    | OAdd k _ _ => match find_entry keqb k (c_entries c) with Some e => [kv e] | None => [] end
    | _ => []
    end.

  Fixpoint inserted (ops : list (op K V)) (tr : list (res K V * list (K * V))) : list (K * V) :=
    match ops, tr with
    | o :: ops', (r, _) :: tr' => ins_of o r ++ inserted ops' tr'
    | _, _ => []
    end.
  Fixpoint overwritten (c : cache) (ops : list (op K V)) : list (K * V) :=
    match ops with
    | [] => []
    | o :: ops' => ow_of c o ++ overwritten (fst (fst (step keqb c o))) ops'
    end.
  Definition reported (tr : list (res K V * list (K * V))) : list (K * V) := concat (map snd tr).

  Lemma perm_rearrange {A} (a b c d e : list A) :
    Permutation ((a ++ b) ++ c ++ d ++ e) ((a ++ d) ++ (b ++ c ++ e)).
  Proof.
    rewrite <- !app_assoc. apply Permutation_app_head.
    rewrite (app_assoc b c (d ++ e)), (app_assoc b c e). apply Permutation_app_swap_app.
  Qed.

  Lemma perm_assemble {A} (a d j q i p : list A) :
    Permutation (a ++ q ++ d) (i ++ p) -> Permutation ((a ++ d) ++ (j ++ q)) ((i ++ j) ++ p).
  Proof.
    intros H. rewrite Permutation_app_comm. rewrite <- app_assoc.
    rewrite (Permutation_app_swap_app q a d). rewrite H.
    rewrite app_assoc. apply Permutation_app_tail. apply Permutation_app_comm.
  Qed.

  Lemma pairs_overwrite k (c : cache) :
    Permutation (pairs c)
      (match find_entry keqb k (c_entries c) with Some e => [kv e] | None => [] end
       ++ map kv (remove_key keqb k (c_entries c))).
  Proof.
    unfold pairs. destruct (find_entry keqb k (c_entries c)) as [e|] eqn:F.
    - destruct (find_split keqb keqb_spec _ _ _ F) as (a & b & -> & -> & _).
      rewrite !map_app. cbn [map app]. symmetry. apply Permutation_middle.
    - apply (find_entry_none keqb keqb_spec) in F. rewrite (remove_key_notin keqb keqb_spec) by exact F. reflexivity.
  Qed.

  Lemma add_conserves k v w (c c' : cache) lg n :
    inv c -> small w -> add keqb k v w c = (c', lg, n) ->
    Permutation (lg ++ pairs c' ++ ow_of c (OAdd k v w)) ((k, v) :: pairs c).
  Proof.
    intros I Hw A. destruct (add_lru keqb keqb_spec _ _ _ _ _ _ _ I Hw A) as (_ & P & _).
    rewrite app_assoc. rewrite P. cbn [app ow_of]. constructor.
    rewrite Permutation_app_comm. symmetry. apply pairs_overwrite.
  Qed.

  Lemma step_conserves (c : cache) o c' r lg :
    inv c -> op_small o -> step keqb c o = (c', r, lg) ->
    Permutation (lg ++ pairs c' ++ ow_of c o) (ins_of o r ++ pairs c).
  Proof.
    intros I Hs. destruct o; cbn [step op_small] in *.
    - destruct (add keqb k v w c) as [[c1 l1] n1] eqn:A. intros [= <- <- <-].
      exact (add_conserves _ _ _ _ _ _ _ I Hs A).
    - destruct (get keqb k c) as [c1 r1] eqn:G. intros [= <- <- <-]. cbn [ins_of ow_of app]. rewrite app_nil_r.
      pose proof (get_lru keqb keqb_spec _ _ _ _ I G) as L. destruct r1; [exact (proj2 (proj2 L)) | destruct L as [-> _]; reflexivity].
    - intros [= <- <- <-]. cbn [ins_of ow_of app]. rewrite app_nil_r. reflexivity.
    - intros [= <- <- <-]. cbn [ins_of ow_of app]. rewrite app_nil_r. reflexivity.
    - destruct (remove keqb k c) as [[c1 l1] b1] eqn:G. intros [= <- <- <-]. cbn [ins_of ow_of app]. rewrite app_nil_r.
      exact (proj1 (remove_reports keqb keqb_spec _ _ _ _ _ I G)).
    - destruct (remove_oldest c) as [[c1 l1] r1] eqn:G. intros [= <- <- <-]. cbn [ins_of ow_of app]. rewrite app_nil_r.
      pose proof (remove_oldest_reports _ _ _ _ G) as L. destruct r1; [exact (proj2 (proj2 L)) | destruct L as (-> & -> & _); reflexivity].
    - intros [= <- <- <-]. cbn [ins_of ow_of app]. rewrite app_nil_r. reflexivity.
    - intros [= <- <- <-]. cbn [ins_of ow_of app]. rewrite app_nil_r. reflexivity.
    - intros [= <- <- <-]. cbn [ins_of ow_of app]. rewrite app_nil_r. reflexivity.
    - intros [= <- <- <-]. cbn [ins_of ow_of app]. rewrite app_nil_r. reflexivity.
    - destruct (resize mw ms c) as [[c1 l1] n1] eqn:G. intros [= <- <- <-]. cbn [ins_of ow_of app]. rewrite app_nil_r.
      exact (proj1 (proj2 (resize_lru _ _ _ _ _ _ I Hs G))).
    - destruct (purge c) as [c1 l1] eqn:G. intros [= <- <- <-]. cbn [ins_of ow_of app]. rewrite app_nil_r.
      destruct (purge_reports _ _ _ G) as [E ->]. unfold pairs at 2. rewrite E. cbn [map]. rewrite app_nil_r. reflexivity.
    - unfold contains_or_add, contains. destruct (find_entry keqb k (c_entries c)) eqn:F.
      + intros [= <- <- <-]. cbn [ins_of ow_of app]. rewrite app_nil_r. reflexivity.
      + destruct (add keqb k v w c) as [[c1 l1] n1] eqn:A. intros [= <- <- <-]. cbn [ins_of ow_of]. rewrite app_nil_r.
        pose proof (add_conserves _ _ _ _ _ _ _ I Hs A) as P. cbn [ow_of] in P. rewrite F, app_nil_r in P. exact P.
    - unfold peek_or_add, peek. destruct (find_entry keqb k (c_entries c)) eqn:F.
      + intros [= <- <- <-]. cbn [ins_of ow_of app]. rewrite app_nil_r. reflexivity.
      + destruct (add keqb k v w c) as [[c1 l1] n1] eqn:A. intros [= <- <- <-]. cbn [ins_of ow_of]. rewrite app_nil_r.
        pose proof (add_conserves _ _ _ _ _ _ _ I Hs A) as P. cbn [ow_of] in P. rewrite F, app_nil_r in P. exact P.
  Qed.

  Theorem run_conserves ops : forall (c c' : cache) tr,
    inv c -> Forall op_small ops -> run keqb c ops = (c', tr) ->
    Permutation (reported tr ++ pairs c' ++ overwritten c ops) (inserted ops tr ++ pairs c).
  Proof.
    induction ops as [|o ops IH]; intros c c' tr I Hs; cbn [run].
    - intros [= <- <-]. cbn [reported map concat inserted overwritten app]. rewrite app_nil_r. reflexivity.
    - destruct (step keqb c o) as [[c1 r1] l1] eqn:Hst. destruct (run keqb c1 ops) as [c2 tr2] eqn:R.
      intros [= <- <-]. inversion Hs as [|? ? H1 H2]; subst.
      pose proof (step_conserves _ _ _ _ _ I H1 Hst) as P1.
      pose proof (IH _ _ _ (step_inv keqb keqb_spec _ _ _ _ _ I H1 Hst) H2 R) as P2.
      cbn [reported map concat snd inserted overwritten]. rewrite Hst. cbn [fst]. fold (reported tr2).
      rewrite perm_rearrange. rewrite P2.
      exact (perm_assemble _ _ _ _ _ _ P1).
  Qed.

  (* from the constructor: inserted = reported + still cached + overwritten in place *)
  Theorem history_conserves mw ms ops (c0 c : cache) tr :
    small mw -> Forall op_small ops -> new mw ms = Some c0 -> run keqb c0 ops = (c, tr) ->
    Permutation (reported tr ++ pairs c ++ overwritten c0 ops) (inserted ops tr).
  Proof.
    intros Hm Hs Hn Hr. pose proof (run_conserves ops _ _ _ (new_inv _ _ _ Hm Hn) Hs Hr) as P.
    assert (E : pairs c0 = []) by (unfold new in Hn; destruct (z_neg ms); [discriminate|]; injection Hn as <-; reflexivity).
    rewrite E, app_nil_r in P. exact P.
  Qed.
End Conserve.
