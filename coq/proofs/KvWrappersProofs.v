(* C23x — the wrapper stacks refine the ordered map modulo their stated deviations. *)
From Coq Require Import NArith ZArith List Bool Lia.
From LV Require Import lib.Bytes lib.BytesFacts lib.SortedMap spec.KvSpec model.KvWrappers spec.KvWrappersSpec.
Import ListNotations.
Local Open Scope N_scope.

(* ------------------------------------------------------------------ ordered-map facts *)
Lemma kvw_apply_sorted m o : sm_sorted m -> sm_sorted (kv_apply m o).
Proof. destruct o; cbn; [apply sm_put_sorted|apply sm_del_sorted]. Qed.
Lemma kvw_write_sorted ops : forall m, sm_sorted m -> sm_sorted (kv_write m ops).
Proof.
  unfold kv_write. induction ops as [|o t IH]; intros m S; cbn; auto. apply IH. apply kvw_apply_sorted; auto.
Qed.
Lemma kvw_write_app m a b : kv_write m (a ++ b) = kv_write (kv_write m a) b.
Proof. unfold kv_write. apply fold_left_app. Qed.
Lemma kvw_write_snoc m a o : kv_write m (a ++ [o]) = kv_apply (kv_write m a) o.
Proof. rewrite kvw_write_app. reflexivity. Qed.

Lemma filter_comm {A} (f g : A -> bool) l : filter f (filter g l) = filter g (filter f l).
Proof.
  induction l as [|x t IH]; cbn; auto.
  destruct (g x) eqn:G, (f x) eqn:F; cbn; rewrite ?G, ?F, IH; auto.
Qed.

(* ------------------------------------------------------------------ reads *)
Lemma wview_sorted s : sm_sorted (wbase s) -> sm_sorted (wview s).
Proof.
  induction s; cbn; intros S; auto. apply sm_filter_sorted; auto.
Qed.
Lemma filter_true_id (m : kvmap) : sm_filter (fun _ => negb false) m = m.
Proof. unfold sm_filter. induction m as [|[k v] t IH]; cbn; auto. f_equal; auto. Qed.

Theorem stack_reads s : no_err s = true -> sm_sorted (wbase s) -> forall k,
  whas s k = ROk (kv_has (wview s) k) /\
  (forall p st, witer s p st = kv_iterate (wview s) p st) /\
  wget s k = match kv_get (wview s) k with Some v => ROk (Some v) | None => absent_res s k end.
Proof.
  induction s as [m|m c| |bad e u IH|pend u IH|q u IH|u IH|u IH|l u IH|n u IH|rf dd u IH]; cbn [no_err wbase]; intros NE S k;
    try discriminate; try (specialize (IH NE S k); destruct IH as [IH1 [IH2 IH3]]).
  - cbn [whas witer wget wview absent_res]. repeat split; auto. destruct (kv_get m k); auto.
  - destruct c; [discriminate|]. cbn [whas witer wget wview absent_res]. repeat split; auto. destruct (kv_get m k); auto.
  - cbn [whas witer wget wview absent_res]. repeat split; auto.
  - cbn [whas witer wget wview absent_res]. auto.
  - (* skipkeys *)
    pose proof (wview_sorted u S) as Sv. cbn [whas witer wget wview absent_res].
    assert (G : kv_get (sm_filter (fun k0 => negb (has_prefix q k0)) (wview u)) k
                = if negb (has_prefix q k) then kv_get (wview u) k else None).
    { unfold kv_get. apply sm_get_filter; auto. }
    split; [|split].
    + unfold kv_has. fold (kv_get (sm_filter (fun k0 => negb (has_prefix q k0)) (wview u)) k). rewrite G.
      destruct (has_prefix q k); cbn; auto.
    + intros p st. rewrite IH2. unfold kv_iterate, sm_filter. apply filter_comm.
    + rewrite G. destruct (has_prefix q k); cbn; auto.
  - (* nokeyiserr *)
    cbn [whas witer wget wview absent_res]. repeat split; auto.
    rewrite IH3. destruct (kv_get (wview u) k); auto.
  - cbn [whas witer wget wview absent_res]. auto.
  - (* skiperrors *)
    cbn [whas witer wget wview absent_res]. rewrite IH1, IH3. repeat split; auto.
    destruct (kv_get (wview u) k); auto.
  - cbn [whas witer wget wview absent_res]. auto.
  - cbn [whas witer wget wview absent_res]. auto.
Qed.

(* snapshots are taken below skipkeys, batched, readonly, fallible and cached layers *)
Lemma wsnap_facts s : no_err s = true ->
  wview (wsnap s) = wbase s /\ wbase (wsnap s) = wbase s /\ no_err (wsnap s) = true.
Proof.
  induction s; cbn; intros NE; try discriminate; try (destruct (IHs NE) as [A [B C]]); repeat split; auto;
    destruct closed; auto; discriminate.
Qed.

Theorem snapshot_reads s : no_err s = true -> sm_sorted (wbase s) -> forall k,
  whas (wsnap s) k = ROk (kv_has (wbase s) k) /\
  (forall p st, witer (wsnap s) p st = kv_iterate (wbase s) p st) /\
  wget (wsnap s) k = match kv_get (wbase s) k with
                     | Some v => ROk (Some v)
                     | None => absent_res (wsnap s) k
                     end.
Proof.
  intros NE S k. destruct (wsnap_facts s NE) as [V [B N]].
  destruct (stack_reads (wsnap s)) with (k := k) as [H1 [H2 H3]]; try congruence.
  rewrite V in *. auto.
Qed.

(* devnulldb shows nothing *)
Lemma wview_null s : is_null s = true -> wview s = [].
Proof. induction s; cbn; intros H; auto; try discriminate. rewrite IHs; auto. Qed.

(* ------------------------------------------------------------------ single-layer deviations *)
Lemma nokey_never_nil u k : wget (WNoKey u) k <> ROk None.
Proof. cbn. destruct (wget u k) as [[v|]|e|]; discriminate. Qed.

Lemma skiperrors_get_never_listed l u k e : wget (WSkipErr l u) k = RErr e -> nmemb e l = false.
Proof.
  cbn. destruct (wget u k) as [a|e'|]; try discriminate.
  destruct (nmemb e' l) eqn:E; [discriminate|]. intros H; inversion H; subst; auto.
Qed.
Lemma skiperrors_has_never_listed l u k e : whas (WSkipErr l u) k = RErr e -> nmemb e l = false.
Proof.
  cbn. destruct (whas u k) as [a|e'|]; try discriminate.
  destruct (nmemb e' l) eqn:E; [discriminate|]. intros H; inversion H; subst; auto.
Qed.
Lemma skiperrors_write_never_listed scale l u o e :
  snd (wwrite scale (WSkipErr l u) o) = RErr e -> nmemb e l = false.
Proof.
  cbn. destruct (wwrite scale u o) as [u' r]. cbn. destruct r as [a|e'|]; try discriminate.
  destruct (nmemb e' l) eqn:E; [discriminate|]. intros H; inversion H; subst; auto.
Qed.

(* fallible: a Put is forwarded iff the counter is still positive, and always decrements it;
   a Delete is never counted *)
Lemma fallible_put scale n u k v :
  wwrite scale (WFall n u) (WPut k v) =
  if (n <=? 0)%Z then (WFall (n - 1) u, RPanic)
  else (WFall (n - 1) (fst (wwrite scale u (WPut k v))), snd (wwrite scale u (WPut k v))).
Proof.
  cbn. destruct (n - 1 <? 0)%Z eqn:E, (n <=? 0)%Z eqn:E'; try lia; auto.
  destruct (wwrite scale u (WPut k v)); auto.
Qed.
Lemma fallible_delete scale n u k :
  wwrite scale (WFall n u) (WDel k) = (WFall n (fst (wwrite scale u (WDel k))), snd (wwrite scale u (WDel k))).
Proof. cbn. destruct (wwrite scale u (WDel k)); auto. Qed.

(* ------------------------------------------------------------------ writes, buffers, Close *)
Lemma wbw_pending s ops : wpending (wbase_write s ops) = wpending s.
Proof. induction s; cbn; auto; try congruence. destruct closed; auto. Qed.
Lemma wbw_quiet s ops : quiet (wbase_write s ops) = quiet s.
Proof. induction s; cbn; auto; try congruence. destruct closed; auto. Qed.
Lemma wbw_ro s ops : has_ro (wbase_write s ops) = has_ro s.
Proof. induction s; cbn; auto. destruct closed; auto. Qed.
Lemma wbw_null s ops : is_null (wbase_write s ops) = is_null s.
Proof. induction s; cbn; auto. destruct closed; auto. Qed.
Lemma wbw_closed s ops : base_closed (wbase_write s ops) = base_closed s.
Proof. induction s; cbn; auto. destruct closed; auto. Qed.
Lemma wbw_all_empty s ops : all_empty (wbase_write s ops) = all_empty s.
Proof. induction s; cbn; auto. destruct closed; auto. destruct pend; auto. Qed.
Lemma wbw_inner_empty s ops : inner_empty (wbase_write s ops) = inner_empty s.
Proof. induction s; cbn; auto. destruct closed; auto. apply wbw_all_empty. Qed.
Lemma wbw_base s ops : is_null s = false -> base_closed s = false ->
  wbase (wbase_write s ops) = kv_write (wbase s) ops.
Proof. induction s; cbn; auto; try discriminate. intros _ ->. reflexivity. Qed.
Lemma quiet_open s : quiet s = true -> base_closed s = false.
Proof.
  induction s; cbn; auto; try discriminate. intros H. apply andb_true_iff in H. destruct H; auto.
Qed.
Lemma wbase_write_facts s ops :
  wpending (wbase_write s ops) = wpending s /\ quiet (wbase_write s ops) = quiet s /\
  has_ro (wbase_write s ops) = has_ro s /\ is_null (wbase_write s ops) = is_null s /\
  all_empty (wbase_write s ops) = all_empty s /\ inner_empty (wbase_write s ops) = inner_empty s /\
  (is_null s = false -> base_closed s = false -> wbase (wbase_write s ops) = kv_write (wbase s) ops).
Proof.
  repeat split; [apply wbw_pending|apply wbw_quiet|apply wbw_ro|apply wbw_null|apply wbw_all_empty|
                 apply wbw_inner_empty|apply wbw_base].
Qed.

Lemma all_empty_pending s : all_empty s = true -> wpending s = [].
Proof.
  induction s; cbn; intros H; auto. destruct pend; [auto|discriminate].
Qed.

Section Writes.
  Variable scale : N.

  (* one Put/Delete through a quiet stack: rejected by a readonly layer anywhere in the stack, else
     accepted; in both cases the settled map says what happened *)
  Lemma mayflush_facts pend u : is_null u = false -> base_closed u = false -> all_empty u = true ->
    exists pend1 u1, b_mayflush scale pend u = (pend1, u1) /\
      quiet u1 = quiet u /\ is_null u1 = false /\ all_empty u1 = true /\ has_ro u1 = has_ro u /\
      wpending u1 = [] /\ kv_write (wbase u1) pend1 = kv_write (wbase u) pend.
  Proof.
    intros NN BC AE. pose proof (all_empty_pending u AE) as PE. unfold b_mayflush.
    destruct (over_threshold scale pend u).
    - exists [], (wbase_write u pend). split; auto.
      rewrite wbw_quiet, wbw_null, wbw_all_empty, wbw_ro, wbw_pending, wbw_base; auto.
      repeat split; auto.
    - exists pend, u. repeat split; auto.
  Qed.

  (* one Put/Delete through a quiet stack: rejected by a readonly layer anywhere in the stack, else
     accepted; in both cases the settled map says what happened *)
  Lemma wwrite_settled s o :
    quiet s = true -> is_null s = false -> inner_empty s = true ->
    quiet (fst (wwrite scale s o)) = true /\ is_null (fst (wwrite scale s o)) = false /\
    inner_empty (fst (wwrite scale s o)) = true /\ has_ro (fst (wwrite scale s o)) = has_ro s /\
    (has_ro s = true -> snd (wwrite scale s o) = RErr E_UNSUPPORTED /\
                        wsettled (fst (wwrite scale s o)) = wsettled s) /\
    (has_ro s = false -> snd (wwrite scale s o) = ROk tt /\
                         wsettled (fst (wwrite scale s o)) = kv_apply (wsettled s) o).
  Proof.
    induction s as [m|m c| |bad e u IH|pend u IH|q u IH|u IH|u IH|l u IH|n u IH|rf dd u IH];
      cbn [quiet is_null inner_empty]; intros Q NN IE; try discriminate.
    - cbn. repeat split; auto; discriminate.
    - (* batched *)
      pose proof (quiet_open u Q) as BC.
      destruct (mayflush_facts pend u NN BC IE) as [pend1 [u1 [E [Q1 [N1 [A1 [R1 [P1 W1]]]]]]]].
      cbn [wwrite]. rewrite BC, andb_false_r, E, R1, N1.
      assert (PE : wpending u = []) by (apply all_empty_pending; auto).
      destruct (has_ro u) eqn:RO; cbn [fst snd quiet is_null inner_empty has_ro]; rewrite ?Q1, ?N1, ?A1, ?R1.
      + repeat split; auto; try discriminate; try congruence.
        all: unfold wsettled; cbn [wbase wpending]; rewrite P1, PE, !app_nil_r; exact W1.
      + repeat split; auto; try discriminate; try congruence.
        all: unfold wsettled; cbn [wbase wpending]; rewrite P1, PE, !app_nil_r;
          rewrite !kvw_write_snoc, W1; reflexivity.
    - specialize (IH Q NN IE). cbn [wwrite]. destruct (wwrite scale u o) as [u' r]. cbn [fst snd] in *.
      cbn [quiet is_null inner_empty has_ro]. exact IH.
    - specialize (IH Q NN IE). cbn [wwrite]. destruct (wwrite scale u o) as [u' r]. cbn [fst snd] in *.
      cbn [quiet is_null inner_empty has_ro]. exact IH.
    - cbn [wwrite fst snd quiet is_null inner_empty has_ro]. repeat split; auto; try discriminate; try congruence.
    - apply andb_true_iff in Q. destruct Q as [Q0 Q].
      specialize (IH Q NN IE). cbn [wwrite]. destruct (wwrite scale u o) as [u' r]. cbn [fst snd] in *.
      cbn [quiet is_null inner_empty has_ro]. rewrite Q0. exact IH.
  Qed.

  Lemma wclose_c_quiet s : quiet s = true ->
    snd (fst (wclose_c s)) = ROk tt /\ snd (wclose_c s) = wpending s /\
    wbase (fst (fst (wclose_c s))) = wbase s /\ is_null (fst (fst (wclose_c s))) = is_null s /\
    base_closed (fst (fst (wclose_c s))) = false.
  Proof.
    induction s as [m|m c| |bad e u IH|pend u IH|q u IH|u IH|u IH|l u IH|n u IH|rf dd u IH];
      cbn [quiet]; intros Q; try discriminate; cbn [wclose_c]; auto.
    - pose proof (quiet_open u Q) as BC. rewrite BC.
      specialize (IH Q). destruct (wclose_c u) as [[u' r] ws]. cbn [fst snd wbase is_null wpending base_closed] in *.
      destruct IH as [A [B [C [D E]]]]. repeat split; auto. congruence.
    - specialize (IH Q). destruct (wclose_c u) as [[u' r] ws]. cbn [fst snd wbase is_null wpending base_closed] in *. exact IH.
    - specialize (IH Q). destruct (wclose_c u) as [[u' r] ws]. cbn [fst snd wbase is_null wpending base_closed] in *. exact IH.
    - specialize (IH Q). destruct (wclose_c u) as [[u' r] ws]. cbn [fst snd wbase is_null wpending base_closed] in *. exact IH.
    - apply andb_true_iff in Q. destruct Q as [Q0 Q]. apply N.eqb_eq in Q0. subst rf. cbn.
      specialize (IH Q). destruct (wclose_c u) as [[u' r] ws]. cbn [fst snd wbase is_null wpending base_closed] in *. exact IH.
  Qed.

  (* Close writes every buffer: afterwards the base IS the settled map *)
  Theorem close_settles s : quiet s = true -> is_null s = false ->
    snd (wclose s) = ROk tt /\ wbase (fst (wclose s)) = wsettled s.
  Proof.
    intros Q NN. unfold wclose. destruct (wclose_c_quiet s Q) as [A [B [C [D E]]]].
    destruct (wclose_c s) as [[s' r] ws]. cbn [fst snd] in *. split; auto.
    rewrite wbw_base; [|congruence|auto]. unfold wsettled. congruence.
  Qed.

  Definition wwrites (s : wst) (ops : list wop) : wst := fold_left (fun st o => fst (wwrite scale st o)) ops s.

  (* a stack of batched / skipkeys / nokeyiserr / cached layers over memorydb is the ordered map of
     its writes, once closed: buffering delays them, nothing is lost or reordered *)
  Theorem batched_stack_refines ops : forall s,
    quiet s = true -> is_null s = false -> inner_empty s = true -> has_ro s = false ->
    wsettled (wwrites s ops) = kv_write (wsettled s) ops /\
    wbase (fst (wclose (wwrites s ops))) = kv_write (wsettled s) ops.
  Proof.
    assert (P : forall s, quiet s = true -> is_null s = false -> inner_empty s = true -> has_ro s = false ->
              quiet (wwrites s ops) = true /\ is_null (wwrites s ops) = false /\
              wsettled (wwrites s ops) = kv_write (wsettled s) ops).
    { unfold wwrites. induction ops as [|o t IH]; intros s Q NN IE RO; cbn [fold_left]; [auto|].
      destruct (wwrite_settled s o Q NN IE) as [Q' [NN' [IE' [RO' [_ Hn]]]]].
      destruct (Hn RO) as [_ Hs]. rewrite RO in RO'.
      destruct (IH _ Q' NN' IE' RO') as [A [B C]]. repeat split; auto. rewrite C, Hs. reflexivity. }
    intros s Q NN IE RO. destruct (P s Q NN IE RO) as [A [B C]]. split; auto.
    destruct (close_settles _ A B) as [_ D]. congruence.
  Qed.

  (* with a readonly layer anywhere in the stack nothing is ever written and every write is refused *)
  Theorem readonly_stack_rejects ops : forall s,
    quiet s = true -> is_null s = false -> inner_empty s = true -> has_ro s = true ->
    wsettled (wwrites s ops) = wsettled s /\
    forall o, snd (wwrite scale (wwrites s ops) o) = RErr E_UNSUPPORTED.
  Proof.
    unfold wwrites. induction ops as [|o t IH]; intros s Q NN IE RO; cbn [fold_left].
    - split; auto. intros o. destruct (wwrite_settled s o Q NN IE) as [_ [_ [_ [_ [Hr _]]]]]. apply Hr; auto.
    - destruct (wwrite_settled s o Q NN IE) as [Q' [NN' [IE' [RO' [Hr _]]]]].
      destruct (Hr RO) as [_ Hs]. rewrite RO in RO'.
      destruct (IH _ Q' NN' IE' RO') as [A B]. split; auto. congruence.
  Qed.
End Writes.

(* ------------------------------------------------------------------ the skipkeys snapshot shows the hidden prefix *)
Example skipkeys_snapshot_shows_hidden :
  let s := WSkip [107] (WBase [([107; 1], [9])]) in
  wget s [107; 1] = ROk None /\ witer s [] [] = [] /\
  wget (wsnap s) [107; 1] = ROk (Some [9]) /\ witer (wsnap s) [] [] = [([107; 1], [9])].
Proof. vm_compute. repeat split. Qed.

(* ------------------------------------------------------------------ the view is the base minus the hidden keys;
   after Flush the buffered writes are in it *)
Lemma wview_hidden s : wview s = sm_filter (fun k => negb (hidden s k)) (wbase s).
Proof.
  induction s as [m|m c| |bad e u IH|pend u IH|q u IH|u IH|u IH|l u IH|n u IH|rf dd u IH];
    cbn [wview wbase hidden]; auto.
  - symmetry. apply filter_true_id.
  - symmetry. apply filter_true_id.
  - rewrite IH, sm_filter_filter. apply sm_filter_ext. intros k. rewrite negb_orb. apply andb_comm.
Qed.

Lemma wbw_hidden s ops k : hidden (wbase_write s ops) k = hidden s k.
Proof. induction s; cbn; auto. destruct closed; auto. rewrite IHs; auto. Qed.

Theorem flush_shows_writes pend u :
  is_null u = false -> base_closed u = false -> all_empty u = true ->
  wbase (l_flush (WBatched pend u)) = wsettled (WBatched pend u) /\
  wpending (l_flush (WBatched pend u)) = [] /\
  wview (l_flush (WBatched pend u)) =
    sm_filter (fun k => negb (hidden u k)) (wsettled (WBatched pend u)).
Proof.
  intros NN BC AE. pose proof (all_empty_pending u AE) as PE.
  assert (B : wbase (l_flush (WBatched pend u)) = wsettled (WBatched pend u)).
  { cbn [l_flush]. rewrite BC. cbn [wbase]. unfold wsettled. cbn [wbase wpending]. rewrite PE, app_nil_r. apply wbw_base; auto. }
  split; [exact B|]. split.
  - cbn [l_flush]. rewrite BC. cbn [wpending]. rewrite wbw_pending. exact PE.
  - rewrite wview_hidden, B. apply sm_filter_ext. intros k. cbn [l_flush]. rewrite BC. cbn [hidden].
    rewrite wbw_hidden. reflexivity.
Qed.
