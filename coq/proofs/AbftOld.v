(* The pinned (unrepaired) temporary-id sampler, kept as [sample_old] / [build_old]: the C04/C07
   statements are FALSE for it.  Witness (DESIGN 6 #1): 4 equal validators; a1 b1 c1; a2 b2 c2
   each on top of a1 b1 c1; build #1 = next event of validator 1 with parents {a2,b2} (frame 1);
   254 parentless builds; build #256 = the same event with parents {a2,b2,c2}: the old code
   answers from the cache entries of build #1 and returns frame 1, the graph rule allows 2. *)
From Coq Require Import NArith List Bool.
From LV Require Import model.VecIndex model.Abft model.AbftRun spec.AbftSpec.
Import ListNotations.
Local Open Scope N_scope.

Definition w_vals : list (N * N) := [(1, 1); (2, 1); (3, 1); (4, 1)].
Definition w_id (lam i : N) : N := mk_id 1 lam (2 ^ 191 + i).
Definition w_ev (i cr seq lam fr : N) (ps : list N) : aevent :=
  {| a_id := w_id lam i; a_epoch := 1; a_creator := cr; a_seq := seq; a_lamport := lam; a_frame := fr; a_parents := ps |}.
Definition a1 := w_ev 0 1 1 1 1 [].
Definition b1 := w_ev 1 2 1 1 1 [].
Definition c1 := w_ev 2 3 1 1 1 [].
Definition a2 := w_ev 3 1 2 2 1 [a_id a1; a_id b1; a_id c1].
Definition b2 := w_ev 4 2 2 2 1 [a_id b1; a_id a1; a_id c1].
Definition c2 := w_ev 5 3 2 2 1 [a_id c1; a_id a1; a_id b1].
Definition x12 := w_ev 0 1 3 3 0 [a_id a2; a_id b2].                 (* candidate with two parents *)
Definition x123 := w_ev 0 1 3 3 0 [a_id a2; a_id b2; a_id c2].        (* the same event with all parents *)
Definition cheap := w_ev 0 1 1 1 0 [].
Definition w_base : list op := map OpP [a1; b1; c1; a2; b2; c2].
Definition w_hist : list op := OpB x12 :: repeat (OpB cheap) 254.
Definition w_ops : list op := w_base ++ w_hist ++ [OpB x123].
Definition w_clean : list op := w_base ++ [OpB x123].

Definition last_obs (l : list obs) : obs := last l (ObsSkip 0).
Definition run_w (smp : N -> option (list N)) (ops : list op) : list obs := run 200 [] smp (start 1 w_vals) ops.

(* repaired sampler: the history is invisible *)
Example C04_build_new_witness :
  last_obs (run_w sample w_ops) = ObsB (Ok 2) /\ last_obs (run_w sample w_clean) = ObsB (Ok 2) /\
  c04_trace (chk_start 1 w_vals) (combine w_ops (run_w sample w_ops)) = true.
Proof. vm_compute. repeat split. Qed.

(* pinned sampler: Build #256 returns frame 1, the clean instance returns 2, and the frame-rule
   specification evaluated on the trace is violated *)
Example C04_build_old_refuted :
  last_obs (run_w sample_old w_ops) = ObsB (Ok 1) /\ last_obs (run_w sample_old w_clean) = ObsB (Ok 2) /\
  c04_trace (chk_start 1 w_vals) (combine w_ops (run_w sample_old w_ops)) = false.
Proof. vm_compute. repeat split. Qed.

(* C07 reading of the same witness: the instance that merely built 255 events answers the probe
   differently from the instance that never saw them *)
Example C07_build_trace_old_refuted :
  last_obs (run_w sample_old (w_base ++ w_hist ++ [OpB x123])) <> last_obs (run_w sample_old (w_base ++ [OpB x123])).
Proof. vm_compute. discriminate. Qed.
