(* Proofs for C18: the leecher models (model/Leecher.v) satisfy the independent log monitors
   (spec/LeecherSpec.v) on every history; the unrepaired UnregisterPeer does not. *)
From Coq Require Import NArith List Bool Lia Arith.
From Coq Require Import ZifyBool ZifyNat ZifyN.
From LV Require Import model.Leecher spec.LeecherSpec.
Import ListNotations.

(* ---------------------------------------------------------------------------------- *)
(* sets as lists                                                                       *)
(* ---------------------------------------------------------------------------------- *)
Lemma mem_In : forall p l, mem p l = true <-> In p l.
Proof.
  intros p l. unfold mem. rewrite existsb_exists. split.
  - intros [x [Hin Heq]]. apply N.eqb_eq in Heq. subst. exact Hin.
  - intros Hin. exists p. split; [exact Hin | apply N.eqb_refl].
Qed.

Lemma In_set_ins : forall p q l, In q (set_ins p l) <-> q = p \/ In q l.
Proof.
  intros p q l. induction l as [|a l IH]; simpl.
  - intuition.
  - destruct (N.ltb p a); simpl; rewrite ?IH; intuition.
Qed.

Lemma In_set_add : forall p q l, In q (set_add p l) <-> q = p \/ In q l.
Proof.
  intros p q l. unfold set_add. destruct (mem p l) eqn:Hm.
  - apply mem_In in Hm. split; [intuition | intros [->|H]; assumption].
  - apply In_set_ins.
Qed.

Lemma In_set_del : forall p q l, In q (set_del p l) <-> q <> p /\ In q l.
Proof.
  intros p q l. unfold set_del. rewrite filter_In. split.
  - intros [Hin Hne]. split; [|exact Hin]. intros ->. rewrite N.eqb_refl in Hne. discriminate.
  - intros [Hne Hin]. split; [exact Hin|]. destruct (N.eqb p q) eqn:E; [|reflexivity].
    apply N.eqb_eq in E. congruence.
Qed.

Lemma nth_mod_In : forall (c : nat) (a : N) (l : list N),
  In (nth (Nat.modulo c (length (a :: l))) (a :: l) 0%N) (a :: l).
Proof.
  intros c a l. apply nth_In. apply Nat.mod_upper_bound. simpl. discriminate.
Qed.

(* ---------------------------------------------------------------------------------- *)
(* base leecher: simulation with the monitor                                           *)
(* ---------------------------------------------------------------------------------- *)
Record brel (s : bstate) (m : bmon) : Prop := mkBrel {
  r_sess : b_sess s = m_running m;
  r_term : b_term s = m_term m;
  r_peers : forall q, In q (b_peers s) -> In q (m_reg m);
  r_dead : b_term s = true -> b_sess s = None
}.

(* Routine(): monitor accepts its callbacks; peers unchanged; the session afterwards is the old
   one, none, or one with a registered peer *)
Lemma routine_sim : forall s m t c s' evs,
  brel s m -> routine s t c = (s', evs) ->
  exists m', bmon_evs m evs = Some m' /\ brel s' m' /\
             m_reg m' = m_reg m /\ m_term m' = m_term m /\ b_peers s' = b_peers s /\
             (b_sess s' = b_sess s \/ b_sess s' = None \/
              exists p, b_sess s' = Some p /\ In p (b_peers s)).
Proof.
  intros s m t c s' evs [Hs Ht Hp Hd] H.
  destruct s as [peers term quit sess]. destruct m as [reg run mt]. simpl in *. subst run mt.
  unfold routine, ongoing in H; simpl in H.
  destruct term.
  - inversion H; subst. eexists. simpl. split; [reflexivity|]. split; [constructor; simpl; auto|].
    repeat split; auto.
  - assert (Hstart : forall a l, exists p,
              p = nth (Nat.modulo c (length (a :: l))) (a :: l) 0%N /\ In p (a :: l)).
    { intros a l. eexists. split; [reflexivity|apply nth_mod_In]. }
    destruct sess as [cur|]; [destruct t|]; simpl in H.
    + (* session running, ShouldTerminateSession: terminated, then possibly restarted *)
      destruct peers as [|a l].
      * inversion H; subst. simpl. eexists. split; [reflexivity|].
        split; [constructor; simpl; auto; discriminate|]. repeat split; auto.
      * unfold app_start in H. simpl in H.
        match type of H with context [EStart ?x _] => set (p := x) in * end.
        assert (Hp2 : In p (a :: l)) by (apply (nth_mod_In c a l)).
        clearbody p. inversion H; subst s' evs. simpl.
        assert (Hreg : mem p reg = true) by (apply mem_In; apply Hp; exact Hp2).
        rewrite Hreg. eexists. split; [reflexivity|].
        split; [constructor; simpl; auto; discriminate|]. repeat split; auto.
        right. right. exists p. auto.
    + inversion H; subst. simpl. eexists. split; [reflexivity|].
      split; [constructor; simpl; auto|]. repeat split; auto.
    + (* no session *)
      destruct peers as [|a l].
      * inversion H; subst. simpl. eexists. split; [reflexivity|].
        split; [constructor; simpl; auto|]. repeat split; auto.
      * unfold app_start in H. simpl in H.
        match type of H with context [EStart ?x _] => set (p := x) in * end.
        assert (Hp2 : In p (a :: l)) by (apply (nth_mod_In c a l)).
        clearbody p. inversion H; subst s' evs. simpl.
        assert (Hreg : mem p reg = true) by (apply mem_In; apply Hp; exact Hp2).
        rewrite Hreg. eexists. split; [reflexivity|].
        split; [constructor; simpl; auto; discriminate|]. repeat split; auto.
        right. right. exists p. auto.
Qed.

(* the relation must also say that a closed quit channel means Terminated *)
Record brel' (s : bstate) (m : bmon) : Prop := mkBrel' {
  r_rel : brel s m;
  r_quit : b_quit_closed s = true -> b_term s = true
}.

Lemma routine_quit : forall s t c, b_quit_closed (fst (routine s t c)) = b_quit_closed s /\
                                   b_term (fst (routine s t c)) = b_term s.
Proof.
  intros s t c. unfold routine.
  destruct (b_term s) eqn:E; simpl; [rewrite E; auto|].
  destruct (ongoing s && t); simpl.
  - destruct (b_peers s); simpl; auto.
  - destruct (negb (ongoing s)); simpl; [destruct (b_peers s); simpl; auto | auto].
Qed.

Lemma bstep_sim : forall s m o s' evs,
  brel' s m -> bstep s o = (s', evs) ->
  exists m', bmon_evs (bmon_call m o) evs = Some m' /\ bmon_ret m' o = true /\ brel' s' m'.
Proof.
  intros s m o s' evs [R Hq] H. pose proof R as [Hs Ht Hp Hd].
  destruct o as [p|p c|t c|]; unfold bstep, bstep_gen in H.
  - (* RegisterPeer *)
    destruct s as [peers term quit sess]. simpl in *.
    destruct term; inversion H; subst; simpl.
    + eexists. split; [reflexivity|]. split; [reflexivity|].
      split; [constructor; simpl; auto|simpl; auto].
    + eexists. split; [reflexivity|]. split; [reflexivity|].
      split; [constructor; simpl; auto|simpl; auto].
      intros q Hq'. apply In_set_add in Hq'. destruct Hq' as [->|Hq']; [left; reflexivity|right; auto].
  - (* UnregisterPeer, repaired *)
    unfold unregister in H.
    set (s0 := with_peers s (set_del p (b_peers s))) in *.
    set (m0 := bmon_call m (BUnreg p c)).
    assert (R0 : brel s0 m0).
    { unfold s0, m0. constructor; simpl; auto.
      intros q Hq'. apply In_set_del in Hq'. destruct Hq' as [Hne Hq'].
      apply filter_In. split; [auto|]. destruct (N.eqb p q) eqn:E; [|reflexivity].
      apply N.eqb_eq in E. congruence. }
    destruct (N.eqb (ongoing_peer s0) p) eqn:Epeer.
    + pose proof (routine_quit (fst (app_terminate s0)) false c) as [Hq1 Ht1].
      simpl in H. simpl in Hq1, Ht1.
      destruct (routine _ false c) as [s2 e2] eqn:Er in H, Hq1, Ht1.
      inversion H; subst s' evs. clear H.
      set (s1 := fst (app_terminate s0)) in *.
      set (m1 := mkBM (m_reg m0) None (m_term m0)).
      assert (R1 : brel s1 m1).
      { destruct R0 as [Hs0 Ht0 Hp0 Hd0]. unfold s1, m1. constructor; simpl; auto. }
      destruct (routine_sim _ _ _ _ _ _ R1 Er) as [m' [Hev [R' [Hreg [Htm [Hpe Hse]]]]]].
      exists m'. split; [|split; [|split; [exact R'|]]].
      * simpl. exact Hev.
      * simpl. destruct R' as [Hs' _ _ _]. rewrite <- Hs'.
        destruct Hse as [Hse|[Hse|[q [Hse Hq']]]]; rewrite Hse; simpl; auto.
        unfold s1, s0 in Hq'. simpl in Hq'. apply In_set_del in Hq'. destruct Hq' as [Hne _].
        destruct (N.eqb p q) eqn:E; [|reflexivity]. apply N.eqb_eq in E. congruence.
      * simpl in Hq1, Ht1. rewrite Hq1, Ht1. exact Hq.
    + inversion H; subst s' evs. exists m0. split; [reflexivity|]. split; [|split; [exact R0|exact Hq]].
      simpl. destruct R0 as [Hs0 _ _ _]. simpl in Hs0. rewrite <- Hs0. unfold ongoing_peer in Epeer.
      simpl in Epeer.
      destruct (b_sess s) as [q|]; [|reflexivity].
      rewrite N.eqb_sym. rewrite Epeer. reflexivity.
  - (* ticker *)
    destruct (routine_sim _ _ _ _ _ _ R H) as [m' [Hev [R' _]]].
    exists m'. simpl. split; [exact Hev|]. split; [reflexivity|]. split; [exact R'|].
    pose proof (routine_quit s t c) as [Hq1 Ht1]. rewrite H in Hq1, Ht1. simpl in Hq1, Ht1.
    rewrite Hq1, Ht1. exact Hq.
  - (* Terminate *)
    destruct s as [peers term quit sess]. destruct m as [reg run mt]. simpl in *. subst run mt.
    destruct quit.
    + inversion H; subst. simpl.
      assert (Eterm : term = true) by (apply Hq; reflexivity). subst term.
      rewrite (Hd eq_refl). eexists. split; [reflexivity|]. split; [reflexivity|].
      split; [constructor; simpl; auto|simpl; auto].
    + inversion H; subst. simpl.
      eexists. split; [reflexivity|]. split; [reflexivity|].
      split; [constructor; simpl; auto|simpl; auto].
Qed.

Lemma brun_sim : forall ops s m, brel' s m -> bmon_run m (brun_gen bstep s ops) = true.
Proof.
  induction ops as [|o ops IH]; intros s m R; simpl; [reflexivity|].
  destruct (bstep s o) as [s' evs] eqn:E. simpl.
  destruct (bstep_sim _ _ _ _ _ R E) as [m' [Hev [Hret R']]].
  rewrite Hev, Hret. simpl. apply IH. exact R'.
Qed.

Lemma brel_init : brel' b_init bmon_init.
Proof.
  constructor; [constructor|]; simpl; auto; try discriminate.
Qed.

(* main statement, base leecher: every history's log is accepted by the monitor *)
Lemma base_monitor_ok : forall ops, base_spec_ok (brun b_init ops) = true.
Proof. intros ops. apply brun_sim. apply brel_init. Qed.

(* the pinned tree's UnregisterPeer: register 1; Routine; unregister 1 starts a session with
   peer 1 inside UnregisterPeer(1) *)
Definition c18_witness : list bop := [BReg 1; BTick false 0; BUnreg 1 0].

Example base_monitor_old_refuted : base_spec_ok (brun_old b_init c18_witness) = false.
Proof. vm_compute. reflexivity. Qed.

Example base_old_witness_log :
  brun_old b_init c18_witness =
  [(BReg 1%N, []); (BTick false 0, [EStart 1%N [1%N]]);
   (BUnreg 1%N 0, [ETerm (Some 1%N); EStart 1%N [1%N]])].
Proof. vm_compute. reflexivity. Qed.

(* the repaired code on the same history *)
Example base_witness_repaired :
  brun b_init c18_witness =
  [(BReg 1%N, []); (BTick false 0, [EStart 1%N [1%N]]); (BUnreg 1%N 0, [ETerm (Some 1%N)])].
Proof. vm_compute. reflexivity. Qed.

(* ---------------------------------------------------------------------------------- *)
(* declarative reading of the monitor (what acceptance means)                          *)
(* ---------------------------------------------------------------------------------- *)

(* flatten a log to a sequence of marks: API call, callbacks, API return *)
Inductive mark := MCall (o : bop) | MEv (e : bev) | MRet (o : bop).

Fixpoint flat (log : list (bop * list bev)) : list mark :=
  match log with
  | [] => []
  | (o, evs) :: r => MCall o :: map MEv evs ++ MRet o :: flat r
  end.

(* the session running after a sequence of marks, as an observer of the callbacks sees it *)
Fixpoint running_after (cur : option N) (l : list mark) : option N :=
  match l with
  | [] => cur
  | MEv (EStart p _) :: r => running_after (Some p) r
  | MEv (ETerm _) :: r => running_after None r
  | _ :: r => running_after cur r
  end.

Fixpoint registered_after (cur : list N) (l : list mark) : list N :=
  match l with
  | [] => cur
  | MCall (BReg p) :: r => registered_after (p :: cur) r
  | MCall (BUnreg p _) :: r => registered_after (filter (fun q => negb (N.eqb p q)) cur) r
  | _ :: r => registered_after cur r
  end.

Fixpoint terminated_after (cur : bool) (l : list mark) : bool :=
  match l with
  | [] => cur
  | MCall BTerminate :: r => terminated_after true r
  | _ :: r => terminated_after cur r
  end.

Lemma running_after_app : forall l1 l2 c, running_after c (l1 ++ l2) = running_after (running_after c l1) l2.
Proof.
  induction l1 as [|x l1 IH]; intros l2 c; simpl; [reflexivity|].
  destruct x as [o|e|o]; try apply IH. destruct e; apply IH.
Qed.
Lemma registered_after_app : forall l1 l2 c, registered_after c (l1 ++ l2) = registered_after (registered_after c l1) l2.
Proof.
  induction l1 as [|x l1 IH]; intros l2 c; simpl; [reflexivity|].
  destruct x as [o|e|o]; try apply IH. destruct o; apply IH.
Qed.
Lemma terminated_after_app : forall l1 l2 c, terminated_after c (l1 ++ l2) = terminated_after (terminated_after c l1) l2.
Proof.
  induction l1 as [|x l1 IH]; intros l2 c; simpl; [reflexivity|].
  destruct x as [o|e|o]; try apply IH. destruct o; apply IH.
Qed.

(* what the monitor's acceptance means, for every prefix of the flattened log *)
Definition base_safe (log : list (bop * list bev)) : Prop :=
  forall pre post,
    flat log = pre ++ post ->
    let run := running_after None pre in
    let reg := registered_after [] pre in
    let term := terminated_after false pre in
    match post with
    | MEv (EStart p _) :: _ =>
        run = None            (* at most one session at a time *)
        /\ In p reg           (* only with a registered peer (unregistration effective at its call) *)
        /\ term = false       (* none after termination *)
    | MRet (BUnreg p _) :: _ => run <> Some p   (* no session with p when UnregisterPeer(p) returns *)
    | _ => True
    end.

(* monitor state after a prefix of marks = the three observer functions *)
Lemma bmon_evs_marks : forall evs m m',
  bmon_evs m evs = Some m' ->
  m_running m' = running_after (m_running m) (map MEv evs) /\
  m_reg m' = m_reg m /\ m_term m' = m_term m.
Proof.
  induction evs as [|e evs IH]; intros m m' H; simpl in *.
  - inversion H; subst. auto.
  - destruct (bmon_ev m e) as [m1|] eqn:E; [|discriminate].
    destruct (IH _ _ H) as [H1 [H2 H3]].
    destruct e as [p cs|w|]; simpl in E.
    + destruct (m_running m); [discriminate|]. destruct (m_term m) eqn:Et; [discriminate|].
      destruct (mem p (m_reg m)); [|discriminate]. inversion E; subst. simpl in *. auto.
    + inversion E; subst. simpl in *. auto.
    + inversion E; subst. auto.
Qed.

Lemma bmon_evs_safe : forall evs m m',
  bmon_evs m evs = Some m' ->
  forall pre e post, evs = pre ++ e :: post ->
    match e with
    | EStart p _ => running_after (m_running m) (map MEv pre) = None /\ In p (m_reg m) /\ m_term m = false
    | _ => True
    end.
Proof.
  induction evs as [|e0 evs IH]; intros m m' H pre e post Heq.
  - destruct pre; discriminate.
  - simpl in H. destruct (bmon_ev m e0) as [m1|] eqn:E; [|discriminate].
    destruct pre as [|x pre]; simpl in Heq; inversion Heq; subst.
    + destruct e as [p cs|w|]; auto. simpl in E.
      destruct (m_running m); [discriminate|]. destruct (m_term m) eqn:Et; [discriminate|].
      destruct (mem p (m_reg m)) eqn:Em; [|discriminate]. apply mem_In in Em. simpl. auto.
    + specialize (IH _ _ H pre e post eq_refl).
      assert (Hm1 : m_reg m1 = m_reg m /\ m_term m1 = m_term m /\
                    running_after (m_running m) (MEv x :: map MEv pre) = running_after (m_running m1) (map MEv pre)).
      { destruct x as [p cs|w|]; simpl in E.
        - destruct (m_running m); [discriminate|]. destruct (m_term m); [discriminate|].
          destruct (mem p (m_reg m)); [|discriminate]. inversion E; subst. simpl. auto.
        - inversion E; subst. simpl. auto.
        - inversion E; subst. simpl. auto. }
      destruct Hm1 as [Hr [Ht Hrun]].
      destruct e as [p cs|w|]; auto. simpl map. rewrite Hrun, <- Hr, <- Ht. exact IH.
Qed.

Lemma app_eq_cases : forall (A : Type) (a b c d : list A),
  a ++ b = c ++ d ->
  (exists k, c = a ++ k /\ b = k ++ d) \/ (exists k, a = c ++ k /\ d = k ++ b).
Proof.
  intros A a. induction a as [|x a IH]; intros b c d H; simpl in *.
  - left. exists c. auto.
  - destruct c as [|y c]; simpl in *.
    + right. exists (x :: a). auto.
    + inversion H; subst. destruct (IH _ _ _ H2) as [[k [H3 H4]]|[k [H3 H4]]].
      * left. exists k. subst. auto.
      * right. exists k. subst. auto.
Qed.

Lemma bmon_run_safe_gen : forall log m,
  bmon_run m log = true ->
  forall pre post, flat log = pre ++ post ->
    let run := running_after (m_running m) pre in
    let reg := registered_after (m_reg m) pre in
    let term := terminated_after (m_term m) pre in
    match post with
    | MEv (EStart p _) :: _ => run = None /\ In p reg /\ term = false
    | MRet (BUnreg p _) :: _ => run <> Some p
    | _ => True
    end.
Proof.
  induction log as [|[o evs] log IH]; intros m H pre post Heq; simpl in *.
  - destruct pre; [|discriminate]. simpl in Heq. subst. exact I.
  - destruct (bmon_evs (bmon_call m o) evs) as [m'|] eqn:Eev; [|discriminate].
    apply andb_prop in H. destruct H as [Hret Hrest].
    destruct (bmon_evs_marks _ _ _ Eev) as [Hrun' [Hreg' Hterm']].
    (* where does the split point fall? *)
    destruct pre as [|x pre].
    { simpl in Heq. subst post. exact I. }
    simpl in Heq. inversion Heq as [[Hx Hrest']]. subst x.
    assert (Hcall_run : forall l, running_after (m_running m) (MCall o :: l) = running_after (m_running (bmon_call m o)) l).
    { intros l. simpl. destruct o; reflexivity. }
    assert (Hcall_reg : forall l, registered_after (m_reg m) (MCall o :: l) = registered_after (m_reg (bmon_call m o)) l).
    { intros l. destruct o; reflexivity. }
    assert (Hcall_term : forall l, terminated_after (m_term m) (MCall o :: l) = terminated_after (m_term (bmon_call m o)) l).
    { intros l. destruct o; reflexivity. }
    rewrite Hcall_run, Hcall_reg, Hcall_term.
    set (m0 := bmon_call m o) in *.
    assert (Hev_reg : forall l, registered_after (m_reg m0) (map MEv l) = m_reg m0).
    { induction l; simpl; auto. }
    assert (Hev_term : forall l, terminated_after (m_term m0) (map MEv l) = m_term m0).
    { induction l; simpl; auto. }
    change (map MEv evs ++ MRet o :: flat log) with (map MEv evs ++ (MRet o :: flat log)) in Hrest'.
    destruct (app_eq_cases _ _ _ _ _ Hrest') as [[k [Hpre Hk]]|[k [Hevs Hpost]]].
    + (* the prefix covers all callbacks of this op *)
      destruct k as [|y k]; simpl in Hk.
      * (* post starts at the return mark *)
        subst post pre. rewrite app_nil_r. rewrite <- Hrun'.
        destruct o as [p|p c|t c|]; auto. simpl in Hret.
        destruct (m_running m') as [q|]; [|discriminate].
        intros E. inversion E; subst. rewrite N.eqb_refl in Hret. discriminate.
      * inversion Hk as [[Hy Hk']]. subst y pre.
        rewrite running_after_app, registered_after_app, terminated_after_app.
        rewrite <- Hrun', Hev_reg, Hev_term.
        simpl running_after. simpl registered_after. simpl terminated_after.
        rewrite <- Hreg', <- Hterm'. apply (IH m' Hrest k post). exact Hk'.
    + (* the split point is inside the callbacks of this op *)
      subst post.
      destruct k as [|y k].
      * simpl. rewrite app_nil_r in Hevs. subst pre. rewrite <- Hrun'.
        destruct o as [p|p c|t c|]; auto. simpl in Hret.
        destruct (m_running m') as [q|]; [|discriminate].
        intros E. inversion E; subst. rewrite N.eqb_refl in Hret. discriminate.
      * simpl.
        (* evs = pre' ++ e :: k' with map MEv *)
        assert (Hsplit : exists pre' e k', evs = pre' ++ e :: k' /\ pre = map MEv pre' /\ y = MEv e).
        { clear - Hevs. revert pre y k Hevs. induction evs as [|e evs IHe]; intros pre y k Hevs.
          - destruct pre; discriminate.
          - destruct pre as [|x pre]; simpl in Hevs; inversion Hevs; subst.
            + exists [], e, evs. auto.
            + destruct (IHe _ _ _ H1) as [pre' [e' [k' [H2 [H3 H4]]]]].
              exists (e :: pre'), e', k'. subst. auto. }
        destruct Hsplit as [pre' [e [k' [Hevs' [Hpre' Hy]]]]]. subst y pre.
        pose proof (bmon_evs_safe _ _ _ Eev pre' e k' Hevs') as Hs.
        destruct e as [p cs|w|]; auto.
        rewrite Hev_reg, Hev_term. exact Hs.
Qed.

Lemma base_spec_ok_safe : forall log, base_spec_ok log = true -> base_safe log.
Proof.
  intros log H pre post Heq. exact (bmon_run_safe_gen log bmon_init H pre post Heq).
Qed.

Lemma base_safe_all : forall ops, base_safe (brun b_init ops).
Proof. intros ops. apply base_spec_ok_safe. apply base_monitor_ok. Qed.

(* ---------------------------------------------------------------------------------- *)
(* peer leecher (repaired routine(): fixes/C18b.patch)                                  *)
(* ---------------------------------------------------------------------------------- *)
Local Open Scope N_scope.

(* relation between the leecher's counters and what the monitor has seen *)
Record prel (par : N) (s : pstate) (m : pmon) : Prop := mkPrel {
  q_req : p_req s = w_req m;
  q_proc : p_proc s = w_proc m;
  q_win : p_req s <= p_proc s + par;
  q_fin : p_done s = w_fin m
}.

Lemma sweep_mon : forall par f l keep n ev m,
  sweep f l = (keep, n, ev) -> w_fin m = false ->
  pmon_final par m ev = Some (mkPM (w_req m) (w_proc m + n) (w_susp m) false).
Proof.
  intros par f l. induction l as [|c l IH]; intros keep n ev m H Hf; simpl in H.
  - inversion H; subst. simpl. rewrite N.add_0_r. destruct m; simpl in *; subst; reflexivity.
  - destruct (sweep f l) as [[keep' n'] ev'] eqn:E.
    destruct (f c); inversion H; subst; simpl; unfold pmon_ev; rewrite Hf.
    + rewrite (IH _ _ _ _ eq_refl) by reflexivity. simpl. f_equal. f_equal. lia.
    + rewrite (IH _ _ _ _ eq_refl) by reflexivity. simpl. reflexivity.
Qed.

Lemma pmon_final_app : forall par l1 l2 m m1,
  pmon_final par m l1 = Some m1 -> pmon_final par m (l1 ++ l2) = pmon_final par m1 l2.
Proof.
  intros par l1. induction l1 as [|e l1 IH]; intros l2 m m1 H; simpl in *.
  - inversion H; subst. reflexivity.
  - destruct (pmon_ev par m e); [|discriminate]. apply IH. exact H.
Qed.

Lemma pmon_run_final : forall par l m, pmon_run par m l = true <-> exists m', pmon_final par m l = Some m'.
Proof.
  intros par l. induction l as [|e l IH]; intros m; simpl.
  - split; eauto.
  - destruct (pmon_ev par m e); [apply IH|]. split; [discriminate|intros [m' H]; discriminate].
Qed.

Lemma proutine_sim : forall par oracle s m s' ev,
  prel par s m -> proutine par oracle s = (s', ev) ->
  exists m', pmon_final par m ev = Some m' /\ prel par s' m' /\
    (p_done s = false -> a_done (oracle (p_run s)) = false -> a_susp (oracle (p_run s)) = false ->
     p_req s' = p_proc s' + par).
Proof.
  intros par oracle s m s' ev [Hr Hp Hw Hf] H. unfold proutine in H.
  destruct (p_done s) eqn:Hnd.
  - (* the guard: a terminated leecher does nothing *)
    inversion H; subst. exists m. simpl. split; [reflexivity|]. split; [constructor; auto; congruence|discriminate].
  - unfold proutine_old in H. symmetry in Hf.
    destruct (a_done (oracle (p_run s))) eqn:Edone.
    + inversion H; subst. cbn [pmon_final pmon_ev]. rewrite Hf.
      eexists. split; [reflexivity|]. split; [constructor; simpl; auto|intros; discriminate].
    + destruct (sweep (a_proc (oracle (p_run s))) (p_chunks s)) as [[keep n] sev] eqn:Esw.
      set (m1 := mkPM (w_req m) (w_proc m) true false).
      assert (Hsw : pmon_final par m1 sev = Some (mkPM (w_req m) (w_proc m + n) true false)).
      { apply (sweep_mon par _ _ _ _ _ m1 Esw). reflexivity. }
      rewrite Hnd in H.
      destruct (a_susp (oracle (p_run s))) eqn:Esusp.
      * inversion H; subst. cbn [pmon_final pmon_ev]. rewrite Hf.
        fold m1. rewrite (pmon_final_app _ _ _ _ _ Hsw). simpl. unfold pmon_ev. simpl.
        eexists. split; [reflexivity|]. split; [constructor; simpl; auto; lia|intros; discriminate].
      * destruct (p_req s <? p_proc s + n + par) eqn:Elt.
        -- inversion H; subst. cbn [pmon_final pmon_ev]. rewrite Hf.
           fold m1. rewrite (pmon_final_app _ _ _ _ _ Hsw). simpl. unfold pmon_ev. simpl.
           assert (Hle : (w_req m + (p_proc s + n + par - p_req s) <=? w_proc m + n + par) = true) by lia.
           rewrite Hle. eexists. split; [reflexivity|].
           split; [constructor; simpl; auto; lia|]. intros _ _ _. simpl. lia.
        -- inversion H; subst. cbn [pmon_final pmon_ev]. rewrite Hf.
           fold m1. rewrite (pmon_final_app _ _ _ _ _ Hsw). simpl. unfold pmon_ev. simpl.
           eexists. split; [reflexivity|].
           split; [constructor; simpl; auto; lia|]. intros _ _ _. simpl. lia.
Qed.

Lemma pstep_sim : forall par oracle s m o s' ev,
  prel par s m -> pstep par oracle s o = (s', ev) ->
  exists m', pmon_final par m ev = Some m' /\ prel par s' m'.
Proof.
  intros par oracle s m o s' ev R H. unfold pstep, pstep_gen in H.
  destruct o as [id| |].
  - destruct (p_done s) eqn:Ed.
    + inversion H; subst. exists m. simpl. auto.
    + destruct (N.of_nat (length (p_chunks s)) <? par * 2).
      * set (s1 := mkP (p_req s) (p_proc s) (p_chunks s ++ [id]) false (p_run s)) in *.
        assert (R1 : prel par s1 m) by (destruct R; constructor; simpl; auto; congruence).
        destruct (proutine_sim par oracle s1 m s' ev R1 H) as [m' [H1 [H2 _]]]. eauto.
      * inversion H; subst. exists m. simpl. auto.
  - destruct (proutine_sim par oracle s m s' ev R H) as [m' [H1 [H2 _]]]. eauto.
  - inversion H; subst. simpl. eexists. split; [reflexivity|]. destruct R. constructor; simpl; auto.
Qed.

Lemma prun_sim : forall par oracle ops s m s' ev,
  prel par s m -> prun par oracle s ops = (s', ev) ->
  exists m', pmon_final par m ev = Some m' /\ prel par s' m'.
Proof.
  intros par oracle ops. induction ops as [|o ops IH]; intros s m s' ev R H; unfold prun in H; simpl in H.
  - inversion H; subst. exists m. simpl. auto.
  - destruct (pstep par oracle s o) as [s1 e1] eqn:E1.
    destruct (prun_gen (pstep par oracle) s1 ops) as [s2 e2] eqn:E2. inversion H; subst.
    destruct (pstep_sim _ _ _ _ _ _ _ R E1) as [m1 [H1 R1]].
    destruct (IH _ _ _ _ R1 E2) as [m2 [H2 R2]].
    exists m2. split; [|exact R2]. rewrite (pmon_final_app _ _ _ _ _ H1). exact H2.
Qed.

Lemma prel_init : forall par, prel par p_init pmon_init.
Proof. intros par. constructor; simpl; auto; lia. Qed.

(* main statement, peer leecher: for every parallelism, EVERY oracle (Done() need not be
   monotone) and every sequence of chunk arrivals, ticks and external Terminate() calls the
   callback log is accepted by the monitor *)
Lemma peer_monitor_ok : forall par oracle ops,
  peer_spec_ok par (snd (prun par oracle p_init ops)) = true.
Proof.
  intros par oracle ops. destruct (prun par oracle p_init ops) as [s' ev] eqn:E. simpl.
  destruct (prun_sim _ _ _ _ _ _ _ (prel_init par) E) as [m' [H _]].
  apply pmon_run_final. eauto.
Qed.

(* state invariant: requested - processed never exceeds the limit *)
Lemma peer_window_inv : forall par oracle ops,
  let s := fst (prun par oracle p_init ops) in p_req s <= p_proc s + par.
Proof.
  intros par oracle ops. destruct (prun par oracle p_init ops) as [s' ev] eqn:E. simpl.
  destruct (prun_sim _ _ _ _ _ _ _ (prel_init par) E) as [m' [_ [_ _ Hw _]]]. exact Hw.
Qed.

(* the window is kept full: a routine run that is neither done nor suspended leaves exactly
   [par] chunks requested-but-unprocessed *)
Lemma peer_window_full : forall par oracle ops o,
  let s := fst (prun par oracle p_init ops) in
  p_done s = false ->
  a_done (oracle (p_run s)) = false -> a_susp (oracle (p_run s)) = false ->
  (o = PTick \/ exists id, o = PChunk id /\ N.of_nat (length (p_chunks s)) < par * 2) ->
  let s' := fst (pstep par oracle s o) in p_req s' = p_proc s' + par.
Proof.
  intros par oracle ops o. destruct (prun par oracle p_init ops) as [s ev] eqn:E. simpl.
  destruct (prun_sim _ _ _ _ _ _ _ (prel_init par) E) as [m [_ R]].
  intros Hd Hdone Hsusp Ho. unfold pstep, pstep_gen.
  destruct Ho as [->|[id [-> Hlen]]].
  - destruct (proutine par oracle s) as [s' ev'] eqn:Er.
    destruct (proutine_sim _ _ _ _ _ _ R Er) as [_ [_ [_ Hfull]]]. simpl. auto.
  - rewrite Hd. assert (Hl : (N.of_nat (length (p_chunks s)) <? par * 2) = true) by lia. rewrite Hl.
    match goal with |- context [proutine par oracle ?x] => set (s1 := x) end.
    assert (R1 : prel par s1 m) by (destruct R; constructor; simpl; auto; congruence).
    destruct (proutine par oracle s1) as [s' ev'] eqn:Er.
    destruct (proutine_sim _ _ _ _ _ _ R1 Er) as [_ [_ [_ Hfull]]]. simpl. apply Hfull; simpl; auto.
Qed.

(* what acceptance by the peer monitor means *)
Fixpoint count_req (l : list pev) : N :=
  match l with [] => 0 | PReq k :: r => k + count_req r | _ :: r => count_req r end.
Fixpoint count_proc (l : list pev) : N :=
  match l with [] => 0 | PIsProc _ true :: r => 1 + count_proc r | _ :: r => count_proc r end.
(* true until Suspend() has answered false since the last Done() call *)
Fixpoint susp_now (cur : bool) (l : list pev) : bool :=
  match l with [] => cur | PDone _ :: r => susp_now true r | PSusp b :: r => susp_now b r
             | PReq _ :: r => susp_now false r | _ :: r => susp_now cur r end.

Definition stopped (l : list pev) : Prop := In (PDone true) l \/ In PTerminated l.

Definition peer_safe (par : N) (log : list pev) : Prop :=
  forall pre e post, log = pre ++ e :: post ->
    (* once Done() has answered true, or an external Terminate() has returned, no callback is
       made any more: no Done, IsProcessed, Suspend, RequestChunks *)
    (stopped pre -> e = PTerminated) /\
    match e with
    | PReq k => count_req pre + k <= count_proc pre + par     (* window *)
                /\ susp_now true pre = false     (* Suspend() was asked in this run and answered false *)
    | _ => True
    end.

Lemma pmon_final_safe : forall par log m m',
  pmon_final par m log = Some m' ->
  forall pre e post, log = pre ++ e :: post ->
    ((w_fin m = true \/ stopped pre) -> e = PTerminated) /\
    match e with
    | PReq k => w_req m + count_req pre + k <= w_proc m + count_proc pre + par
                /\ susp_now (w_susp m) pre = false
    | _ => True
    end.
Proof.
  intros par log. induction log as [|x log IH]; intros m m' H pre e post Heq.
  - destruct pre; discriminate.
  - simpl in H. destruct (pmon_ev par m x) as [m1|] eqn:E; [|discriminate].
    unfold pmon_ev in E.
    destruct pre as [|y pre]; simpl in Heq; inversion Heq; subst.
    + (* e is the first event *)
      split.
      * intros [Hfin|[Hx|Hx]]; [|destruct Hx|destruct Hx].
        destruct e as [b|id b|b|k|]; try reflexivity; try rewrite Hfin in E; discriminate.
      * destruct e as [b|id b|b|k|]; auto. simpl.
        destruct (w_fin m); [discriminate|].
        destruct (w_susp m) eqn:Es; [discriminate|].
        destruct (w_req m + k <=? w_proc m + par) eqn:El; [|discriminate]. split; [lia|reflexivity].
    + destruct (IH _ _ H pre e post eq_refl) as [Hafter Hm].
      assert (Hfin1 : w_fin m = true \/ y = PDone true \/ y = PTerminated -> w_fin m1 = true).
      { intros [Hf|[Hy|Hy]]; [|subst y|subst y].
        - destruct y as [b'|id' b'|b'|k'|]; try rewrite Hf in E; try discriminate. inversion E; subst. reflexivity.
        - destruct (w_fin m); [discriminate|]. inversion E; subst. reflexivity.
        - inversion E; subst. reflexivity. }
      split.
      * intros Hst. apply Hafter.
        destruct Hst as [Hf|[[Hy|Hin]|[Hy|Hin]]].
        -- left. apply Hfin1. left. exact Hf.
        -- left. apply Hfin1. right. left. exact Hy.
        -- right. left. exact Hin.
        -- left. apply Hfin1. right. right. exact Hy.
        -- right. right. exact Hin.
      * destruct e as [b|id b|b|k|]; auto.
        destruct y as [b'|id' b'|b'|k'|]; cbn [count_req count_proc susp_now].
        -- destruct (w_fin m); [discriminate|]. inversion E; subst. simpl in Hm. exact Hm.
        -- destruct (w_fin m); [discriminate|]. inversion E; subst. cbn [w_req w_proc w_susp] in Hm.
           destruct Hm as [H1 H2]. destruct b'; cbn [count_req count_proc susp_now]; split; auto; lia.
        -- destruct (w_fin m); [discriminate|]. inversion E; subst. simpl in Hm. exact Hm.
        -- destruct (w_fin m); [discriminate|]. destruct (w_susp m); [discriminate|].
           destruct (w_req m + k' <=? w_proc m + par); [|discriminate].
           inversion E; subst. simpl in Hm. destruct Hm as [H1 H2]. split; [lia|exact H2].
        -- (* after an external Terminate no request can follow *)
           assert (Habs : PReq k = PTerminated).
           { apply Hafter. left. apply Hfin1. right. right. reflexivity. }
           discriminate.
Qed.

Lemma peer_spec_ok_safe : forall par log, peer_spec_ok par log = true -> peer_safe par log.
Proof.
  intros par log H pre e post Heq. apply pmon_run_final in H. destruct H as [m' H].
  destruct (pmon_final_safe par log pmon_init m' H pre e post Heq) as [Hafter Hm].
  split; [intros Hin; apply Hafter; right; exact Hin|]. destruct e; auto.
Qed.

Lemma peer_safe_all : forall par oracle ops, peer_safe par (snd (prun par oracle p_init ops)).
Proof. intros. apply peer_spec_ok_safe. apply peer_monitor_ok. Qed.

(* the pinned tree's routine() (no d.done guard; the ticker branch of loop() does not check it
   either): after Done() = true a tick polls Done() again, and when the application's Done()
   goes back to false the terminated leecher requests chunks *)
Example peer_monitor_old_refuted :
  peer_spec_ok 1 (snd (prun_old 1 (script_oracle [(true, false, [])]) p_init [PTick; PTick])) = false /\
  snd (prun_old 1 (script_oracle [(true, false, []); (false, false, [])]) p_init [PTick; PTick]) =
  [PDone true; PDone false; PSusp false; PReq 1].
Proof. vm_compute. auto. Qed.

Example peer_witness_repaired :
  snd (prun 1 (script_oracle [(true, false, []); (false, false, [])]) p_init [PTick; PTick]) = [PDone true] /\
  snd (prun 1 (script_oracle [(false, false, [])]) p_init [PTerminate; PTick; PChunk 3]) = [PTerminated].
Proof. vm_compute. auto. Qed.
