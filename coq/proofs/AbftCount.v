(* The weight counter of forklessCausedByQuorumOn: counting validators once, with the early break,
   is "quorum <= total weight of the validators that own a forkless-causing root of the frame". *)
From Coq Require Import NArith ZArith List Lia Bool ZifyBool ZifyN ZifyNat.
From LV Require Import model.VecIndex model.Abft proofs.AbftFrame.
Import ListNotations.
Local Open Scope N_scope.

Fixpoint bsum (ws : list N) (al : list bool) : N :=
  match ws, al with w :: ws', b :: al' => (if b then w else 0) + bsum ws' al' | _, _ => 0 end.
(* total weight of the validators satisfying P *)
Fixpoint vsum (v : vals) (P : N -> bool) : N :=
  match v with [] => 0 | (id, w) :: t => (if P id then w else 0) + vsum t P end.

Lemma bsum_set : forall ws al i, length al = length ws -> (i < length al)%nat -> nth i al false = false ->
  bsum ws (set_nth false al i true) = bsum ws al + nth i ws 0.
Proof.
  induction ws as [|w ws IH]; intros al i L Hi Hn; destruct al as [|b al]; cbn [length] in *; try lia.
  destruct i as [|i]; cbn [set_nth bsum nth] in *.
  - subst b. lia.
  - rewrite IH; try lia; auto.
Qed.
Lemma set_nth_length_in {A} (d : A) : forall l i x, (i < length l)%nat -> length (set_nth d l i x) = length l.
Proof. induction l as [|y l IH]; intros [|i] x H; cbn in *; try lia. rewrite IH; lia. Qed.
Lemma nth_set_nth_same : forall l i, (i < length l)%nat -> nth i (set_nth false l i true) false = true.
Proof. induction l as [|y l IH]; intros [|i] H; cbn in *; try lia; auto. apply IH. lia. Qed.
Lemma nth_set_nth_other : forall i l j, i <> j -> nth j (set_nth false l i true) false = nth j l false.
Proof.
  induction i as [|i IH]; intros l j H; destruct l as [|y t]; destruct j as [|j]; cbn [set_nth nth]; try congruence; auto;
    try (destruct j; reflexivity); try (rewrite IH by congruence; destruct j; reflexivity); try (apply IH; congruence).
Qed.

Section Count.
Variable v : vals.
Hypothesis ids_nodup : NoDup (v_ids v).

Definition cwf (c : counter) : Prop :=
  length (c_already c) = length v /\ c_sum c = bsum (v_weights v) (c_already c).

Lemma bsum_repeat_false : forall ws n, bsum ws (repeat false n) = 0.
Proof. induction ws as [|w ws IH]; intros [|n]; cbn [repeat bsum]; auto. rewrite IH. reflexivity. Qed.
Lemma new_counter_wf : cwf (new_counter v).
Proof.
  unfold cwf, new_counter. cbn [c_already c_sum]. rewrite repeat_length, bsum_repeat_false. split; reflexivity.
Qed.

Lemma v_find_lt : forall l id k i, v_find l id k = Some i -> (k <= i < k + length l)%nat.
Proof.
  induction l as [|[x w] t IH]; intros id k i H; cbn in *; [discriminate|].
  destruct (x =? id); [inversion H; lia|]. apply IH in H. lia.
Qed.
Lemma v_idx_lt id : v_exists v id = true -> (v_idx v id < length v)%nat.
Proof.
  unfold v_exists, v_idx. destruct (v_find v id 0) eqn:E; [|discriminate]. intros _. apply v_find_lt in E. lia.
Qed.

Lemma count_idx_wf c i : cwf c -> (i < length v)%nat ->
  cwf (snd (count_idx v c i)) /\ c_sum c <= c_sum (snd (count_idx v c i)) /\
  (forall j, nth j (c_already (snd (count_idx v c i))) false = if Nat.eqb i j then true else nth j (c_already c) false).
Proof.
  intros [L S] Hi. unfold count_idx, cwf. destruct (nth i (c_already c) false) eqn:N; cbn [snd].
  - split; [split; auto|]. split; [lia|]. intros j. destruct (Nat.eqb_spec i j); subst; auto.
  - cbn [c_already c_sum]. split; [split|].
    + rewrite set_nth_length_in; lia.
    + rewrite bsum_set; try lia; auto. unfold v_weights. rewrite map_length. lia.
    + split; [lia|]. intros j. destruct (Nat.eqb_spec i j); subst.
      * apply nth_set_nth_same. lia.
      * apply nth_set_nth_other. auto.
Qed.

(* fold count_id over a list of (existing) validator ids *)
Fixpoint count_all (c : counter) (L : list N) : counter :=
  match L with [] => c | id :: t => count_all (snd (count_id v c id)) t end.

Lemma count_all_wf : forall L c, cwf c -> (forall id, In id L -> v_exists v id = true) ->
  cwf (count_all c L) /\ c_sum c <= c_sum (count_all c L) /\
  (forall j, nth j (c_already (count_all c L)) false =
             nth j (c_already c) false || existsb (fun id => Nat.eqb (v_idx v id) j) L).
Proof.
  induction L as [|id t IH]; intros c W Hex; cbn [count_all existsb].
  - split; auto. split; [lia|]. intros j. rewrite orb_false_r. reflexivity.
  - destruct (count_idx_wf c (v_idx v id) W (v_idx_lt id (Hex id (or_introl eq_refl)))) as [W1 [M1 N1]].
    unfold count_id. destruct (IH _ W1 (fun x H => Hex x (or_intror H))) as [W2 [M2 N2]].
    split; auto. split; [unfold count_id in *; lia|]. intros j. rewrite N2, N1.
    destruct (Nat.eqb (v_idx v id) j); cbn; [rewrite orb_true_r; reflexivity | reflexivity].
Qed.

(* bsum over the "already" flags = vsum over the validators whose index is flagged *)
Lemma v_find_nth : forall l k id i, NoDup (map fst l) -> (i < length l)%nat -> fst (nth i l (0, 0)) = id ->
  v_find l id k = Some (k + i)%nat.
Proof.
  induction l as [|[x w] t IH]; intros k id i ND Hi Hx; cbn [length] in *; [lia|].
  cbn [v_find]. destruct i as [|i]; cbn [nth fst] in Hx.
  - subst. rewrite N.eqb_refl. f_equal. lia.
  - cbn [map fst] in ND. apply NoDup_cons_iff in ND as [Hnin ND'].
    destruct (x =? id) eqn:E.
    + apply N.eqb_eq in E. exfalso. apply Hnin. apply in_map_iff. exists (nth i t (0,0)). split; [congruence|]. apply nth_In. lia.
    + rewrite (IH (S k) id i ND') by (auto; lia). f_equal. lia.
Qed.

Lemma bsum_vsum_gen : forall (l : vals) (al : list bool) (P : N -> bool) (k : nat), length al = length l ->
  (forall i, (i < length l)%nat -> nth i al false = P (fst (nth i l (0, 0)))) ->
  bsum (map snd l) al = vsum l P.
Proof.
  induction l as [|[x w] t IH]; intros al P k L H; destruct al as [|b al]; cbn [length] in *; try lia; cbn [map bsum vsum snd]; auto.
  rewrite (IH al P k); try lia.
  - pose proof (H 0%nat ltac:(lia)) as H0. cbn in H0. rewrite H0. reflexivity.
  - intros i Hi. apply (H (S i)). lia.
Qed.

Theorem count_all_sum L : (forall id, In id L -> v_exists v id = true) ->
  c_sum (count_all (new_counter v) L) = vsum v (fun id => existsb (N.eqb id) L).
Proof.
  intros Hex. destruct (count_all_wf L _ new_counter_wf Hex) as [[Wl Ws] [_ N]].
  rewrite Ws. unfold v_weights. apply (bsum_vsum_gen v _ _ 0%nat Wl).
  intros i Hi. rewrite N. unfold new_counter. cbn [c_already].
  replace (nth i (repeat false (length v)) false) with false by (symmetry; apply nth_repeat). cbn [orb].
  set (idi := fst (nth i v (0, 0))).
  assert (Hfi : forall id, v_exists v id = true -> (Nat.eqb (v_idx v id) i = (id =? idi))).
  { intros id He. unfold v_exists, v_idx in *. destruct (v_find v id 0) as [k|] eqn:F; [|discriminate].
    destruct (N.eqb_spec id idi) as [->|Hne].
    - rewrite (v_find_nth v 0 idi i ids_nodup Hi eq_refl) in F. inversion F. apply Nat.eqb_refl.
    - apply Nat.eqb_neq. intros ->.
      (* position i holds idi; v_find returned i for id: the entry at i has key id *)
      assert (G : forall l k0 j, v_find l id k0 = Some j -> fst (nth (j - k0) l (0, 0)) = id).
      { clear. induction l as [|[x w] t IH]; intros k0 j H; cbn in *; [discriminate|].
        destruct (x =? id) eqn:E; [inversion H; subst; rewrite Nat.sub_diag; cbn; apply N.eqb_eq; auto|].
        pose proof (v_find_lt _ _ _ _ H). replace (j - k0)%nat with (S (j - S k0)) by lia. cbn. apply IH. exact H. }
      apply G in F. rewrite Nat.sub_0_r in F. apply Hne. symmetry. exact F. }
  clear N Wl Ws. revert Hex. induction L as [|id t IHL]; intros Hex; cbn [existsb]; auto.
  rewrite IHL by (intros x Hx; apply Hex; right; exact Hx).
  rewrite (Hfi id (Hex id (or_introl eq_refl))). rewrite (N.eqb_sym id idi). reflexivity.
Qed.

(* the early break does not change the verdict *)
Lemma fcq_pure_count s a : forall frs c, cwf c ->
  (forall r, In r frs -> v_exists v (r_val r) = true) ->
  fcq_pure v s a frs c =
  has_quorum v (count_all c (map r_val (filter (fun r => fcp v s a (r_id r)) frs))).
Proof.
  induction frs as [|r t IH]; intros c W Hex; cbn [fcq_pure filter map count_all]; auto.
  destruct (fcp v s a (r_id r)) eqn:F; cbn [map count_all].
  - unfold count_id at 1 2.
    destruct (count_idx_wf c (v_idx v (r_val r)) W (v_idx_lt _ (Hex r (or_introl eq_refl)))) as [W1 [M1 _]].
    destruct (has_quorum v (snd (count_idx v c (v_idx v (r_val r))))) eqn:Q.
    + symmetry. unfold has_quorum in *.
      destruct (count_all_wf (map r_val (filter (fun r0 => fcp v s a (r_id r0)) t)) _ W1) as [_ [M2 _]].
      { intros id Hin. apply in_map_iff in Hin as [r0 [<- Hr0]]. apply filter_In in Hr0 as [Hr0 _]. apply Hex. right. exact Hr0. }
      unfold count_id in *. lia.
    + apply IH; auto. intros r0 Hr0. apply Hex. right. exact Hr0.
  - destruct (has_quorum v c) eqn:Q.
    + symmetry. unfold has_quorum in *.
      destruct (count_all_wf (map r_val (filter (fun r0 => fcp v s a (r_id r0)) t)) _ W) as [_ [M2 _]].
      { intros id Hin. apply in_map_iff in Hin as [r0 [<- Hr0]]. apply filter_In in Hr0 as [Hr0 _]. apply Hex. right. exact Hr0. }
      lia.
    + apply IH; auto. intros r0 Hr0. apply Hex. right. exact Hr0.
Qed.

(* forklessCausedByQuorumOn = quorum <= weight of the validators owning a forkless-causing root of the frame *)
Theorem qp_is_weight s roots a g : (forall r, In r roots -> v_exists v (r_val r) = true) ->
  qp v s roots a g =
  (v_quorum v <=? vsum v (fun id => existsb (fun r => (r_val r =? id) && fcp v s a (r_id r)) (roots_of roots g))).
Proof.
  intros Hex. unfold qp. rewrite fcq_pure_count; [|apply new_counter_wf|].
  2:{ intros r Hr. apply Hex. unfold roots_of in Hr. apply filter_In in Hr as [Hr _]. exact Hr. }
  unfold has_quorum. rewrite count_all_sum.
  2:{ intros id Hin. apply in_map_iff in Hin as [r0 [<- Hr0]]. apply filter_In in Hr0 as [Hr0 _].
      apply Hex. unfold roots_of in Hr0. apply filter_In in Hr0 as [Hr0 _]. exact Hr0. }
  f_equal.
  assert (X : forall l P Q, (forall id, P id = Q id) -> vsum l P = vsum l Q).
  { induction l as [|[x w] t IH]; intros P Q H; cbn; auto. rewrite H, (IH P Q H). reflexivity. }
  apply X. intros id. induction (roots_of roots g) as [|r t IH]; cbn [filter map existsb]; auto.
  destruct (fcp v s a (r_id r)); cbn [map existsb].
  - rewrite IH, andb_true_r, (N.eqb_sym id (r_val r)). reflexivity.
  - rewrite IH, andb_false_r. reflexivity.
Qed.

End Count.
