(* audit-F (C09): when a call seals, the validator set of the resulting state is exactly the set the
   application's EndBlock returned for the sealing (= last) block, and the epoch is the old one plus 1. *)
From Coq Require Import NArith ZArith List Lia Bool ZifyBool ZifyN ZifyNat.
From LV Require Import model.VecIndex model.Abft proofs.AbftStruct proofs.AbftSeal proofs.AbftBuild proofs.AbftProcess proofs.AbftChain.
Import ListNotations.
Local Open Scope N_scope.

Section SealVals.
Variable cap : nat.
Variable eb : N -> N -> N -> list N -> list N -> option vals.
Variable es : estore.

Lemma chain_sealed_vals st bl st' : chain eb es st bl st' -> existsb is_sealed bl = true ->
  exists pre b nv, bl = pre ++ [b] /\ b_seal b = Some nv /\ l_vals st' = nv /\ l_ldf st' = 0 /\
                   l_roots st' = [] /\ l_conf st' = [] /\ l_fcc st' = [] /\ l_idx st' = init (length nv).
Proof.
  intros C. induction C as [st st' S | st st1 f a b st2 S Hf OF | st st1 f a b st2 t st' S Hf OF C IH]; intros Hs.
  - discriminate.
  - apply seal_state in OF as [nv [Sb [_ [_ ->]]]]. exists [], b, nv. cbn. repeat split; auto.
  - cbn [existsb] in Hs. apply no_seal_state in OF as (Sb&_). unfold is_sealed in Hs at 1. rewrite Sb in Hs. cbn [orb] in Hs.
    destruct (IH Hs) as (pre & b0 & nv & -> & R). exists (b :: pre), b0, nv. split; [reflexivity | exact R].
Qed.

Theorem process_seal_vals st e r bl st' : elinv st -> process cap eb es st e = (r, bl, st') ->
  sealed_last bl = true ->
  exists pre b nv, bl = pre ++ [b] /\ b_seal b = Some nv /\ l_vals st' = nv /\ l_epoch st' = l_epoch st + 1 /\
                   l_ldf st' = 0 /\ l_roots st' = [] /\ l_conf st' = [] /\ l_fcc st' = [] /\ l_idx st' = init (length nv).
Proof.
  intros I E SL. destruct (process_frames cap eb es st e r bl st' I E) as [_ [_ P]]. rewrite SL in P. destruct P as [_ Pe].
  unfold process in E.
  destruct (add (l_idx st) (vev (l_vals st) e)) as [s'|]; [|inversion E; subst; discriminate].
  destruct (calc_frame_keys cap es (set_idx st s') e true) as [c1 [S1 _]].
  destruct (calc_frame cap es (set_idx st s') e true) as [[[spf fr]|x] stx]; cbn [snd] in S1; subst stx;
    [|inversion E; subst; discriminate].
  destruct (negb (a_frame e =? fr)); [inversion E; subst; discriminate|].
  set (st2 := if spf =? fr then set_fcc (set_idx st s') c1 else add_roots (set_fcc (set_idx st s') c1) spf e) in *.
  assert (I2 : elinv st2) by (unfold elinv in *; unfold st2; destruct (spf =? fr); cbn; exact I).
  destruct (handle_election cap eb (S (S (N.to_nat (a_frame e - spf)))) es st2 e (spf + 1) []) as [[r2 bl2] st3] eqn:HE.
  pose proof (handle_election_chain cap eb es e _ _ _ _ _ _ I2 HE) as CH.
  assert (bl = bl2 /\ st' = st3) as [-> ->] by (destruct r2; inversion E; auto).
  destruct (chain_sealed_vals _ _ _ CH SL) as (pre & b & nv & Hb & Hs & Hv & R).
  exists pre, b, nv. repeat split; auto; apply R.
Qed.

End SealVals.
