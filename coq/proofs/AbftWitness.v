(* Non-vacuity of the hypotheses of the Build theorems on the concrete witness state of
   proofs/AbftOld.v: six processed events, a non-empty forkless-cause cache. *)
From Coq Require Import NArith ZArith List Lia Bool ZifyBool ZifyN ZifyNat.
From LV Require Import lib.Bytes model.Codec model.VecIndex model.Abft model.AbftRun
  proofs.AbftIds proofs.AbftFrame proofs.AbftBuild proofs.AbftOld.
Import ListNotations.
Local Open Scope N_scope.

Definition w_inst : inst := run_inst 200 [] sample (start 1 w_vals) w_base.
Definition w_state : lstate := i_st w_inst.
Definition w_ids : list N := map a_id [a1; b1; c1; a2; b2; c2].
Definition w_real (a : N) : Prop := In a w_ids.
Definition w_bound : N := 2 ^ 191 - 1.

Lemma mem_In x l : mem x l = true -> In x l.
Proof.
  unfold mem. intros H. apply existsb_exists in H as [y [Hy E]]. apply N.eqb_eq in E. subst. exact Hy.
Qed.

Lemma keys_inv_check real_l st :
  forallb (fun k => mem (fst (fst k)) real_l) (l_fcc st) = true ->
  keys_inv (fun a => In a real_l) st.
Proof.
  intros H a b r G. left.
  induction (l_fcc st) as [|[k v] l IH]; cbn in *; [discriminate|].
  apply andb_prop in H as [H1 H2].
  destruct (pair_eqb (a, b) k) eqn:E.
  - apply pair_eqb_eq in E. subst k. cbn in H1. apply mem_In. exact H1.
  - apply IH; auto.
Qed.

Lemma w_keys_inv : keys_inv w_real w_state.
Proof. apply (keys_inv_check w_ids). vm_compute. reflexivity. Qed.

Lemma w_state_shape : l_ctr w_state = 0 /\ length (l_roots w_state) = 3%nat /\ length (i_proc w_inst) = 6%nat.
Proof. vm_compute. repeat split. Qed.

Lemma w_real_not_temp : forall a, w_real a -> ~ is_temp w_bound a.
Proof.
  intros a Hin [ep [lam [c [t [B [S E]]]]]].
  assert (Hx : exists lam0 i, i < 6 /\ a = mk_id_bytes 1 lam0 (be 24 (2 ^ 191 + i))).
  { unfold w_real, w_ids in Hin. cbn [map In] in Hin.
    destruct Hin as [<-|[<-|[<-|[<-|[<-|[<-|[]]]]]]];
      [exists 1, 0 | exists 1, 1 | exists 1, 2 | exists 2, 3 | exists 2, 4 | exists 2, 5]; split; try lia; reflexivity. }
  destruct Hx as [lam0 [i [Hi Ha]]].
  assert (S0 : sample (2 ^ 191 + i) = Some (be 24 (2 ^ 191 + i))).
  { unfold sample. replace (2 ^ 192 <=? 2 ^ 191 + i) with false; auto.
    symmetry. apply N.leb_gt. change (2 ^ 192) with (2 * 2 ^ 191). lia. }
  rewrite Ha in E. apply (temp_id_inj _ _ _ _ _ _ _ _ S0 S) in E.
  unfold w_bound in B. lia.
Qed.

(* the conclusion of build_any_history on the witness: frame 2 after 255 earlier builds *)
Example w_build_after_history :
  fst (build 200 (i_es w_inst) (builds 200 (i_es w_inst) w_state (x12 :: repeat cheap 254)) x123) = Ok 2.
Proof. vm_compute. reflexivity. Qed.
