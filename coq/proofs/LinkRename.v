(* L1, brick 8: renaming the new event.  IndexedLachesis.Build indexes the speculative event under a
   temporary id.  For the reference, the node of an event whose id does not occur in the table
   forkless-causes the same nodes of the table whatever that id is; hence frame_ok / frame_high of the
   event do not depend on its id. *)
From Coq Require Import NArith ZArith List Lia Bool ZifyBool ZifyN ZifyNat.
From LV Require Import model.VecIndex spec.ElectionSpec lib.WSumBft
  proofs.BftCore proofs.BftElection proofs.BftGraph proofs.BftMain proofs.BftRun proofs.BftAccept.
Import ListNotations.
Local Open Scope N_scope.

Section Rename.
Variable vals : list (N * N).
Notation ws := (map snd vals).
Notation nv := (length vals).
Notation q := (ElectionSpec.quorum_of ws).
Notation fcn := (fc_n ws q).
Notation qon := (quorum_on node nd_cr nd_fr nd_spf fcn ws q).

Variable T : list node.
Hypothesis HwfT : wfT vals T.
Variables e e' : fev.
Hypothesis Hcr : ecr (fe e') = ecr (fe e).
Hypothesis Hseq : eseq (fe e') = eseq (fe e).
Hypothesis Hpar : epar (fe e') = epar (fe e).
Hypothesis Hfr : ffr e' = ffr e.
Hypothesis Hfresh : nlookup (eid (fe e)) T = None.
Hypothesis Hfresh' : nlookup (eid (fe e')) T = None.

Let n := mk_node nv T e.
Let n' := mk_node nv T e'.

Lemma sp_same : self_parent (fe e') = self_parent (fe e).
Proof. unfold self_parent. rewrite Hseq, Hpar. reflexivity. Qed.

Lemma fields_same : nd_cr n' = nd_cr n /\ nd_seq n' = nd_seq n /\ nd_fr n' = nd_fr n /\ nd_spf n' = nd_spf n /\ nd_hassp n' = nd_hassp n.
Proof.
  unfold n, n'. cbn [mk_node nd_cr nd_seq nd_fr nd_spf nd_hassp]. rewrite sp_same, Hcr, Hseq, Hfr. repeat split.
Qed.

(* ancestors among the table's ids do not depend on the own id *)
Lemma anc_old m : In m T -> (In (nd_id m) (nd_anc n') <-> In (nd_id m) (nd_anc n)).
Proof.
  intros Hm. unfold n, n'. rewrite !mk_anc_in, Hpar.
  assert (N1 : nd_id m <> eid (fe e)) by (intros E; exact (nlookup_none _ _ Hfresh m Hm E)).
  assert (N2 : nd_id m <> eid (fe e')) by (intros E; exact (nlookup_none _ _ Hfresh' m Hm E)).
  split; (intros [E|H]; [contradiction | right; exact H]).
Qed.
Lemma below_same m : In m (below_of T (nd_anc n')) <-> In m (below_of T (nd_anc n)).
Proof.
  rewrite !(below_in vals T _ m HwfT). split; intros [Hm H]; (split; [exact Hm|]); apply (anc_old m Hm); exact H.
Qed.
Lemma below_fresh m : In m (below_of T (nd_anc n)) -> nd_id m <> eid (fe e) /\ nd_id m <> eid (fe e').
Proof.
  intros H. apply (below_in vals T _ m HwfT) in H as [Hm _]. split; intros E.
  - exact (nlookup_none _ _ Hfresh m Hm E).
  - exact (nlookup_none _ _ Hfresh' m Hm E).
Qed.

Lemma forks_same v : sees_fork_n n' v = sees_fork_n n v.
Proof.
  unfold sees_fork_n, n, n'. rewrite !mk_forks. fold n n'.
  destruct (Nat.lt_ge_cases v nv) as [Hv|Hv].
  2:{ rewrite !nth_map_seq_none by exact Hv. reflexivity. }
  rewrite !nth_map_seq by exact Hv. apply eq_true_iff_eq. rewrite !forks_bit_char.
  destruct fields_same as (Ec & Es & _).
  assert (G : forall (a a' : node) (Ba Ba' : list node), nd_cr a' = nd_cr a -> nd_seq a' = nd_seq a ->
            (forall m, In m Ba <-> In m Ba') ->
            (forall m, In m Ba -> nd_id m <> nd_id a /\ nd_id m <> nd_id a') ->
            (exists x y, In x (a :: Ba) /\ In y (a :: Ba) /\ nd_cr x = v /\ nd_cr y = v /\ nd_id x <> nd_id y /\ nd_seq x = nd_seq y) ->
            (exists x y, In x (a' :: Ba') /\ In y (a' :: Ba') /\ nd_cr x = v /\ nd_cr y = v /\ nd_id x <> nd_id y /\ nd_seq x = nd_seq y)).
  { intros a a' Ba Ba' Ec' Es' HB HF (x & y & Hx & Hy & Cx & Cy & Ne & Sq).
    destruct Hx as [<-|Hx], Hy as [<-|Hy].
    - congruence.
    - exists a', y. split; [left; reflexivity|]. split; [right; apply HB; exact Hy|].
      repeat split; try congruence. intros E. apply (proj2 (HF y Hy)). symmetry. exact E.
    - exists x, a'. split; [right; apply HB; exact Hx|]. split; [left; reflexivity|].
      repeat split; try congruence. intros E. apply (proj2 (HF x Hx)). exact E.
    - exists x, y. split; [right; apply HB; exact Hx|]. split; [right; apply HB; exact Hy|]. auto. }
  split.
  - apply (G n' n); [symmetry; exact Ec | symmetry; exact Es | exact below_same|].
    intros m Hm. apply below_same in Hm. destruct (below_fresh m Hm). split; assumption.
  - apply (G n n'); [exact Ec | exact Es | intros m; symmetry; apply below_same|].
    intros m Hm. destruct (below_fresh m Hm). split; assumption.
Qed.

Lemma reach_same v b : In b T -> (v < nv)%nat ->
  ElectionSpec.mem (nd_id b) (nth v (nd_reach n') []) = ElectionSpec.mem (nd_id b) (nth v (nd_reach n) []).
Proof.
  intros Hb Hv. unfold n, n'. rewrite !mk_reach. fold n n'. rewrite !nth_map_seq by exact Hv.
  apply eq_true_iff_eq. rewrite !mem_In, !fold_reach_in. rewrite Hcr.
  assert (A0 : In (nd_id b) (if Nat.eqb (ecr (fe e)) v then nd_anc n' else []) <->
               In (nd_id b) (if Nat.eqb (ecr (fe e)) v then nd_anc n else [])).
  { destruct (Nat.eqb (ecr (fe e)) v); [apply anc_old; exact Hb | reflexivity]. }
  rewrite A0. split; (intros [H|[m [Hm R]]]; [left; exact H | right; exists m; split; [apply below_same; exact Hm | exact R]]).
Qed.

(* the node forkless-causes the same nodes of the table *)
Lemma fcn_rename b : In b T -> fcn n' b = fcn n b.
Proof.
  intros Hb. unfold fc_n. rewrite forks_same. f_equal. f_equal. f_equal. apply map_ext_in. intros v Hv.
  apply in_seq in Hv. rewrite map_length in Hv. rewrite forks_same, (reach_same v b Hb) by lia. reflexivity.
Qed.

Lemma qon_rename g : qon T n' g = qon T n g.
Proof.
  unfold quorum_on, wsumP. f_equal. f_equal. apply map_ext. intros u. unfold ElectionSpec.by_cr, obs.
  assert (F : filter (fcn n') (roots_at node nd_fr nd_spf T g) = filter (fcn n) (roots_at node nd_fr nd_spf T g)).
  { apply filter_ext_in. intros b Hb. apply fcn_rename. eapply roots_in. exact Hb. }
  rewrite F. reflexivity.
Qed.

Lemma climb_rename : forall fuel g, climb node nd_cr nd_fr nd_spf fcn ws q T fuel n' g = climb node nd_cr nd_fr nd_spf fcn ws q T fuel n g.
Proof. induction fuel as [|fu IH]; intros g; cbn [climb]; [reflexivity|]. rewrite qon_rename, IH. reflexivity. Qed.

Lemma frame_ok_rename : r_frame_ok vals T n' = r_frame_ok vals T n.
Proof.
  unfold r_frame_ok, frame_ok. destruct fields_same as (_ & _ & Ef & Esp & Eh). rewrite Eh, Esp, Ef, climb_rename. reflexivity.
Qed.
Lemma frame_high_rename : r_frame_high vals T n' = r_frame_high vals T n.
Proof.
  unfold r_frame_high, frame_high. destruct fields_same as (_ & _ & Ef & Esp & Eh). rewrite Eh, Esp, climb_rename. reflexivity.
Qed.
End Rename.

(* ---------- the claimed frame of the new event ---------- *)
(* the node of a new event forkless-causes the same nodes whatever frame the event claims; hence
   quorum_on / climb / frame_high of the event do not depend on the claimed frame *)
Section FrIndep.
Variable vals : list (N * N).
Notation ws := (map snd vals).
Notation nv := (length vals).
Notation q := (ElectionSpec.quorum_of ws).
Notation fcn := (fc_n ws q).
Notation qon := (quorum_on node nd_cr nd_fr nd_spf fcn ws q).
Variable T : list node.
Variables e e' : fev.
Hypothesis Hfe : fe e' = fe e.

Lemma fields_fr : nd_id (mk_node nv T e') = nd_id (mk_node nv T e) /\ nd_cr (mk_node nv T e') = nd_cr (mk_node nv T e) /\
  nd_spf (mk_node nv T e') = nd_spf (mk_node nv T e) /\ nd_hassp (mk_node nv T e') = nd_hassp (mk_node nv T e) /\
  nd_fr (mk_node nv T e') = ffr e'.
Proof. unfold mk_node. cbn [nd_id nd_cr nd_spf nd_hassp nd_fr]. rewrite Hfe. repeat split. Qed.
Lemma fcn_fr b : fcn (mk_node nv T e') b = fcn (mk_node nv T e) b.
Proof. unfold fc_n, sees_fork_n, mk_node. cbn [nd_forks nd_reach]. rewrite Hfe. reflexivity. Qed.
Lemma qon_fr Tr g : qon Tr (mk_node nv T e') g = qon Tr (mk_node nv T e) g.
Proof.
  unfold quorum_on, wsumP. f_equal. f_equal. apply map_ext. intros u. unfold ElectionSpec.by_cr, obs.
  rewrite (filter_ext _ _ fcn_fr). reflexivity.
Qed.
Lemma climb_fr Tr : forall fuel g, climb node nd_cr nd_fr nd_spf fcn ws q Tr fuel (mk_node nv T e') g = climb node nd_cr nd_fr nd_spf fcn ws q Tr fuel (mk_node nv T e) g.
Proof. induction fuel as [|fu IH]; intros g; cbn [climb]; [reflexivity|]. rewrite qon_fr, IH. reflexivity. Qed.
Lemma frame_high_fr : r_frame_high vals T (mk_node nv T e') = r_frame_high vals T (mk_node nv T e).
Proof.
  unfold r_frame_high, frame_high. destruct fields_fr as (_ & _ & Esp & Eh & _). rewrite Eh, Esp, climb_fr. reflexivity.
Qed.
End FrIndep.
