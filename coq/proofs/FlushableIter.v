(* C22: the merged iterator of kvdb/flushable (model/Flushable.v: fit_next / fit_collect /
   flu_iterate) yields exactly the ascending (prefix, start)-filter of the parent's map
   overlaid with the tree.  Induction on |tree| + |parent| with the invariant
   "prevKey < every pending tree key, prevKey <= every pending parent key". *)
From Coq Require Import NArith List Lia Bool.
From LV Require Import lib.Bytes lib.BytesFacts lib.Lex lib.SortedMap spec.KvSpec spec.KvOps
  model.PrefixRange model.Flushable.
Import ListNotations.

(* ---------- small facts about sorted maps ---------- *)

Definition all_ge {V} (k : key) (m : smap V) : Prop := Forall (fun kv => lex_le k (fst kv)) m.

Lemma sm_get_none_lt {V} k0 (m : smap V) k : all_ge k0 m -> lex_lt k k0 -> sm_get m k = None.
Proof.
  intros H L. destruct m as [|[k' v'] m']; cbn; auto.
  inversion H as [|x l Hk Hr]; subst. cbn in Hk.
  assert (Hlt : lex_lt k k') by (eapply lex_lt_le_trans; eauto).
  unfold lex_lt in Hlt. now rewrite Hlt.
Qed.

Lemma all_gt_ge {V} k (m : smap V) : all_gt k m -> all_ge k m.
Proof. unfold all_gt, all_ge. apply Forall_impl. intros a. apply lex_lt_le. Qed.

Lemma all_ge_weaken {V} k k' (m : smap V) : lex_le k' k -> all_ge k m -> all_ge k' m.
Proof.
  intros L. unfold all_ge. apply Forall_impl. intros a H. eapply lex_le_trans; eauto.
Qed.

Lemma all_ge_filter {V} f k (m : smap V) : all_ge k m -> all_ge k (sm_filter f m).
Proof.
  unfold all_ge, sm_filter. rewrite !Forall_forall. intros H kv Hin.
  apply filter_In in Hin as [Hin _]. auto.
Qed.

Lemma sm_filter_true {V} f (m : smap V) : Forall (fun kv => f (fst kv) = true) m -> sm_filter f m = m.
Proof.
  unfold sm_filter. induction m as [|kv m IH]; cbn; intros H; auto.
  inversion H; subst. rewrite H2. f_equal. auto.
Qed.

Lemma sm_filter_false {V} f (m : smap V) : Forall (fun kv => f (fst kv) = false) m -> sm_filter f m = [].
Proof.
  unfold sm_filter. induction m as [|kv m IH]; cbn; intros H; auto.
  inversion H; subst. rewrite H2. auto.
Qed.

Lemma sm_filter_cons {V} f k (v : V) m :
  sm_filter f ((k, v) :: m) = if f k then (k, v) :: sm_filter f m else sm_filter f m.
Proof. reflexivity. Qed.

Lemma sm_get_cons {V} k' (v' : V) m k :
  sm_get ((k', v') :: m) k =
  match lex_compare k k' with Eq => Some v' | Lt => None | Gt => sm_get m k end.
Proof. reflexivity. Qed.

Lemma merge_overlay_In {V} (o : smap (option V)) m k v : sm_sorted o -> sm_sorted m ->
  In (k, v) (merge_overlay o m) -> In (k, Some v) o \/ In (k, v) m.
Proof.
  intros So Sm H.
  apply sm_get_In in H; [|now apply merge_overlay_sorted].
  rewrite sm_get_merge_overlay in H by auto. unfold ov_lookup in H.
  destruct (sm_get o k) as [[v'|]|] eqn:E.
  - inversion H; subst. left. now apply sm_get_In_key.
  - discriminate.
  - right. now apply sm_get_In_key.
Qed.

Lemma all_gt_merge_overlay {V} k (o : smap (option V)) m : sm_sorted o -> sm_sorted m ->
  all_gt k o -> all_gt k m -> all_gt k (merge_overlay o m).
Proof.
  intros So Sm Go Gm. unfold all_gt. rewrite Forall_forall. intros [k' v'] H. cbn.
  apply merge_overlay_In in H as [H|H]; auto.
  - apply (all_gt_In _ k o _ Go H).
  - apply (all_gt_In _ k m _ Gm H).
Qed.

(* ---------- the two head lemmas of the merge ---------- *)

Definition emit (tk : key) (tv : option val) : list (key * val) :=
  match tv with Some v => [(tk, v)] | None => [] end.

(* a tree node that is <= every pending parent key: emitted (unless a tombstone) and it hides
   an equal parent key *)
Lemma merge_tree_head tk tv (t' : tree) (u : kvmap) :
  sm_sorted ((tk, tv) :: t') -> sm_sorted u -> all_ge tk u ->
  merge_overlay ((tk, tv) :: t') u = emit tk tv ++ merge_overlay t' (sm_filter (lex_ltb tk) u).
Proof.
  intros St Su Ge. destruct St as [Gt St].
  assert (Sf : sm_sorted (sm_filter (lex_ltb tk) u)) by now apply sm_filter_sorted.
  assert (SM : sm_sorted (merge_overlay t' (sm_filter (lex_ltb tk) u))) by now apply merge_overlay_sorted.
  assert (GM : all_gt tk (merge_overlay t' (sm_filter (lex_ltb tk) u))).
  { apply all_gt_merge_overlay; auto.
    unfold all_gt, sm_filter. rewrite Forall_forall. intros kv H. apply filter_In in H as [_ H].
    now apply lex_ltb_lt. }
  apply sm_ext.
  - apply merge_overlay_sorted; auto.
  - destruct tv; cbn; auto.
  - intros k. rewrite sm_get_merge_overlay by (cbn; auto). unfold ov_lookup.
    rewrite sm_get_cons.
    assert (RHS : sm_get (merge_overlay t' (sm_filter (lex_ltb tk) u)) k =
                  match sm_get t' k with Some (Some v) => Some v | Some None => None
                  | None => if lex_ltb tk k then sm_get u k else None end).
    { rewrite sm_get_merge_overlay by auto. unfold ov_lookup. now rewrite sm_get_filter. }
    destruct (lex_compare k tk) eqn:E.
    + apply lex_compare_eq in E. subst k.
      destruct tv as [v|]; cbn.
      * now rewrite lex_compare_refl.
      * rewrite RHS. rewrite (sm_get_none_le _ tk t' tk) by auto using lex_le_refl.
        assert (F : lex_ltb tk tk = false) by (apply lex_ltb_false, lex_le_refl). now rewrite F.
    + assert (L : lex_lt k tk) by exact E.
      rewrite (sm_get_none_lt tk u k) by auto.
      destruct tv as [v|]; cbn.
      * now rewrite E.
      * rewrite RHS. rewrite (sm_get_none_le _ tk t' k) by auto using lex_lt_le.
        assert (F : lex_ltb tk k = false) by (apply lex_ltb_false, lex_lt_le, L). now rewrite F.
    + assert (L : lex_lt tk k) by (now apply lex_compare_gt_lt).
      assert (T : lex_ltb tk k = true) by now apply lex_ltb_lt.
      destruct tv as [v|]; cbn.
      * rewrite E, RHS, T. reflexivity.
      * rewrite RHS, T. reflexivity.
Qed.

(* a parent entry smaller than every pending tree key comes first *)
Lemma merge_parent_head pk pv (t : tree) (u' : kvmap) :
  sm_sorted t -> sm_sorted ((pk, pv) :: u') -> all_gt pk t ->
  merge_overlay t ((pk, pv) :: u') = (pk, pv) :: merge_overlay t u'.
Proof.
  intros St Su Gt. destruct Su as [Gu Su].
  apply sm_ext.
  - apply merge_overlay_sorted. cbn; auto.
  - cbn. split; [|now apply merge_overlay_sorted]. now apply all_gt_merge_overlay.
  - intros k. rewrite sm_get_merge_overlay by (cbn; auto). unfold ov_lookup.
    rewrite !sm_get_cons. rewrite sm_get_merge_overlay by auto. unfold ov_lookup.
    destruct (lex_compare k pk) eqn:E.
    + apply lex_compare_eq in E. subst k.
      now rewrite (sm_get_none_le _ pk t pk) by auto using lex_le_refl.
    + now rewrite (sm_get_none_le _ pk t k) by (auto; apply lex_lt_le; exact E).
    + reflexivity.
Qed.

(* ---------- prefixes are intervals ---------- *)

Lemma between_prefix p k1 k2 : lex_le p k1 -> lex_le k1 k2 -> has_prefix p k2 = true -> has_prefix p k1 = true.
Proof.
  revert k1 k2. induction p as [|c p IH]; intros k1 k2 H1 H2 H3; auto.
  destruct k2 as [|z k2]; [discriminate|]. cbn in H3. apply andb_true_iff in H3 as [Ez H3].
  apply N.eqb_eq in Ez. subst z.
  destruct k1 as [|y k1].
  - exfalso. apply H1. reflexivity.
  - unfold lex_le in *. cbn in *.
    destruct (N.compare_spec c y) as [E|L|G].
    + subst y. rewrite N.eqb_refl. cbn. rewrite N.compare_refl in H2. eapply IH; eauto.
    + exfalso. assert (Hyc : (y ?= c)%N = Gt) by (apply N.compare_gt_iff; lia).
      rewrite Hyc in H2. now apply H2.
    + exfalso. now apply H1.
Qed.

(* ---------- the iterator ---------- *)

Definition gt_prev (prev : okey) (k : key) : bool :=
  match prev with None => true | Some pk => lex_ltb pk k end.
Definition pfx (prefix : okey) (k : key) : bool :=
  match prefix with Some p => has_prefix p k | None => true end.

Definition spec_rest (prefix : okey) (s : fit) : list (key * val) :=
  sm_filter (pfx prefix) (merge_overlay (f_tree s) (sm_filter (gt_prev (f_prev s)) (f_par s))).

Record Inv (prefix : okey) (s : fit) : Prop := {
  inv_ts : sm_sorted (f_tree s);
  inv_us : sm_sorted (f_par s);
  inv_up : Forall (fun kv => pfx prefix (fst kv) = true) (f_par s);
  inv_tp : all_ge (ob prefix) (f_tree s);
  inv_pt : match f_prev s with Some pk => all_gt pk (f_tree s) | None => True end;
  inv_pu : match f_prev s with Some pk => all_ge pk (f_par s) | None => True end
}.

Lemma suitable_ok prefix k prev :
  suitable prefix k prev = if pfx prefix k then (gt_prev prev k, true) else (false, false).
Proof.
  unfold suitable, pfx, gt_prev. destruct prefix as [p|]; cbn; auto.
  destruct (has_prefix p k); cbn; auto.
Qed.

Lemma pfx_ob prefix k : pfx prefix k = has_prefix (ob prefix) k.
Proof. destruct prefix; reflexivity. Qed.

(* filtering by "> tk" after filtering by "> prev" when prev < tk *)
Lemma filter_gt_prev_step prev tk (u : kvmap) :
  match prev with Some pk => lex_lt pk tk | None => True end ->
  sm_filter (lex_ltb tk) (sm_filter (gt_prev prev) u) = sm_filter (gt_prev (Some tk)) u.
Proof.
  intros H. rewrite sm_filter_filter. apply sm_filter_ext. intros k. cbn.
  destruct prev as [pk|]; cbn; auto.
  destruct (lex_ltb tk k) eqn:E; [|now rewrite andb_false_r].
  rewrite andb_true_r. apply lex_ltb_lt. apply lex_ltb_lt in E. eapply lex_lt_trans; eauto.
Qed.

Lemma all_gt_head_of_inv prev tk tv (t' : tree) :
  match prev with Some pk => all_gt pk ((tk, tv) :: t') | None => True end ->
  match prev with Some pk => lex_lt pk tk | None => True end.
Proof. destruct prev; auto. intros H. inversion H; subst. auto. Qed.

(* tree step: the head of the tree is <= every pending parent key *)
Lemma tree_step prefix tk tv t' u prev :
  Inv prefix {| f_tree := (tk, tv) :: t'; f_par := u; f_prev := prev |} ->
  all_ge tk u ->
  spec_rest prefix {| f_tree := (tk, tv) :: t'; f_par := u; f_prev := prev |} =
    sm_filter (pfx prefix) (emit tk tv) ++ spec_rest prefix {| f_tree := t'; f_par := u; f_prev := Some tk |}
  /\ Inv prefix {| f_tree := t'; f_par := u; f_prev := Some tk |}.
Proof.
  intros [Ts Us Up Tp Pt Pu] Ge. cbn in Ts, Us, Up, Tp, Pt, Pu.
  pose proof (all_gt_head_of_inv _ _ _ _ Pt) as Hlt.
  split.
  - unfold spec_rest. cbn [f_tree f_par f_prev].
    rewrite merge_tree_head; auto.
    + unfold sm_filter at 1. rewrite filter_app. f_equal.
      fold (sm_filter (pfx prefix) (merge_overlay t' (sm_filter (lex_ltb tk) (sm_filter (gt_prev prev) u)))).
      now rewrite filter_gt_prev_step.
    + now apply sm_filter_sorted.
    + now apply all_ge_filter.
  - destruct Ts as [Gt Ts]. constructor; cbn; auto.
    inversion Tp; auto.
Qed.

Lemma pfx_above prefix tk k : lex_le (ob prefix) tk -> lex_le tk k -> pfx prefix tk = false -> pfx prefix k = false.
Proof.
  rewrite !pfx_ob. intros H1 H2 H3. destruct (has_prefix (ob prefix) k) eqn:E; auto.
  rewrite (between_prefix _ _ _ H1 H2 E) in H3. discriminate.
Qed.

(* cut-off: a non-prefixed tree value that is <= every pending parent key ends everything *)
Lemma tree_cut prefix tk v t' u prev :
  Inv prefix {| f_tree := (tk, Some v) :: t'; f_par := u; f_prev := prev |} ->
  all_ge tk u -> pfx prefix tk = false ->
  spec_rest prefix {| f_tree := (tk, Some v) :: t'; f_par := u; f_prev := prev |} = [] /\
  spec_rest prefix {| f_tree := []; f_par := u; f_prev := prev |} = [] /\
  Inv prefix {| f_tree := []; f_par := u; f_prev := prev |}.
Proof.
  intros I Ge NP. pose proof I as [Ts Us Up Tp Pt Pu]. cbn in Ts, Us, Up, Tp, Pt, Pu.
  assert (U0 : sm_filter (gt_prev prev) u = []).
  { destruct (sm_filter (gt_prev prev) u) as [|[pk pv] r] eqn:E; auto. exfalso.
    assert (Hin : In (pk, pv) (sm_filter (gt_prev prev) u)) by (rewrite E; left; auto).
    apply filter_In in Hin as [Hin _].
    unfold all_ge in Ge. rewrite Forall_forall in Ge. specialize (Ge _ Hin). cbn in Ge.
    rewrite Forall_forall in Up. specialize (Up _ Hin). cbn in Up.
    inversion Tp; subst. cbn in H1.
    rewrite (pfx_above prefix tk pk H1 Ge NP) in Up. discriminate. }
  split; [|split].
  - unfold spec_rest. cbn [f_tree f_par f_prev]. rewrite U0.
    apply sm_filter_false. rewrite Forall_forall. intros [k x] H. cbn.
    apply merge_overlay_In in H; [|exact Ts|exact Logic.I].
    destruct H as [H|[]].
    inversion Tp; subst. cbn in H2.
    destruct H as [H|H].
    + inversion H; subst. auto.
    + destruct Ts as [Gt _]. pose proof (all_gt_In _ _ _ _ Gt H) as L. cbn in L.
      eapply pfx_above; eauto using lex_lt_le.
  - unfold spec_rest. cbn [f_tree f_par f_prev]. now rewrite U0.
  - constructor; cbn [f_tree f_par f_prev]; auto.
    + exact Logic.I.
    + constructor.
    + destruct prev; [constructor | exact Logic.I].
Qed.

(* parent step *)
Lemma parent_emit prefix t pk pv u' prev :
  Inv prefix {| f_tree := t; f_par := (pk, pv) :: u'; f_prev := prev |} ->
  all_gt pk t -> gt_prev prev pk = true ->
  spec_rest prefix {| f_tree := t; f_par := (pk, pv) :: u'; f_prev := prev |} =
    (pk, pv) :: spec_rest prefix {| f_tree := t; f_par := u'; f_prev := Some pk |} /\
  Inv prefix {| f_tree := t; f_par := u'; f_prev := Some pk |}.
Proof.
  intros [Ts Us Up Tp Pt Pu] Gt Gp. cbn in Ts, Us, Up, Tp, Pt, Pu. destruct Us as [Gu Us].
  assert (F1 : sm_filter (gt_prev prev) u' = u').
  { apply sm_filter_true. unfold all_gt in Gu. rewrite Forall_forall in *. intros kv H.
    specialize (Gu _ H). destruct prev as [pk0|]; cbn in *; auto.
    apply lex_ltb_lt. apply lex_ltb_lt in Gp. eapply lex_lt_trans; eauto. }
  assert (F2 : sm_filter (gt_prev (Some pk)) u' = u').
  { apply sm_filter_true. unfold all_gt in Gu. rewrite Forall_forall in *. intros kv H.
    cbn. apply lex_ltb_lt. auto. }
  split.
  - unfold spec_rest. cbn [f_tree f_par f_prev].
    rewrite (sm_filter_cons (gt_prev prev)), Gp, F1, F2.
    rewrite merge_parent_head; [|auto|cbn; auto|auto].
    rewrite (sm_filter_cons (pfx prefix)).
    inversion Up; subst. cbn in H1. rewrite H1. reflexivity.
  - constructor; cbn; auto.
    + now inversion Up.
    + now apply all_gt_ge.
Qed.

Lemma parent_skip prefix t pk pv u' prev :
  Inv prefix {| f_tree := t; f_par := (pk, pv) :: u'; f_prev := prev |} ->
  gt_prev prev pk = false ->
  spec_rest prefix {| f_tree := t; f_par := (pk, pv) :: u'; f_prev := prev |} =
    spec_rest prefix {| f_tree := t; f_par := u'; f_prev := prev |} /\
  Inv prefix {| f_tree := t; f_par := u'; f_prev := prev |}.
Proof.
  intros [Ts Us Up Tp Pt Pu] Gp. cbn in Ts, Us, Up, Tp, Pt, Pu. destruct Us as [Gu Us].
  split.
  - unfold spec_rest. cbn [f_tree f_par f_prev].
    rewrite (sm_filter_cons (gt_prev prev)), Gp. reflexivity.
  - constructor; cbn; auto.
    + now inversion Up.
    + destruct prev; auto. now inversion Pu.
Qed.

Lemma all_ge_of_head tk pk (pv : val) (u' : kvmap) :
  sm_sorted ((pk, pv) :: u') -> lex_le tk pk -> all_ge tk ((pk, pv) :: u').
Proof.
  intros [G _] L. constructor; auto. apply all_gt_ge in G. eapply all_ge_weaken; eauto.
Qed.

Lemma all_gt_of_head pk tk (tv : option val) (t' : tree) :
  sm_sorted ((tk, tv) :: t') -> lex_lt pk tk -> all_gt pk ((tk, tv) :: t').
Proof.
  intros [G _] L. constructor; auto. eapply all_gt_weaken; [|exact G]. now apply lex_lt_le.
Qed.

Definition next_ok (prefix : okey) (s : fit) (r : fnext) : Prop :=
  match r with
  | FOut => False
  | FEnd => spec_rest prefix s = []
  | FItem kv s' => spec_rest prefix s = kv :: spec_rest prefix s' /\ Inv prefix s' /\ (fit_size s' < fit_size s)%nat
  end.

Lemma next_ok_shift prefix s s1 r :
  spec_rest prefix s = spec_rest prefix s1 -> (fit_size s1 <= fit_size s)%nat ->
  next_ok prefix s1 r -> next_ok prefix s r.
Proof.
  intros E L. destruct r; cbn [next_ok]; auto.
  - now rewrite E.
  - intros (H1 & H2 & H3). rewrite E. split; [auto|split; [auto|lia]].
Qed.

Lemma fit_next_spec prefix fuel : forall s,
  (fit_size s < fuel)%nat -> Inv prefix s -> next_ok prefix s (fit_next fuel prefix s).
Proof.
  induction fuel as [|fuel IH]; intros s Hf I; [lia|].
  destruct s as [t u prev]. unfold fit_size in Hf. cbn [f_tree f_par] in Hf.
  (* the parent step, shared by two branches *)
  assert (PS : forall pk pv u', u = (pk, pv) :: u' -> all_gt pk t ->
     next_ok prefix {| f_tree := t; f_par := u; f_prev := prev |}
       (let '(ok, pcont) := suitable prefix pk prev in
        let u2 := if pcont then u' else [] in
        if ok then FItem (pk, pv) {| f_tree := t; f_par := u2; f_prev := Some pk |}
        else fit_next fuel prefix {| f_tree := t; f_par := u2; f_prev := prev |})).
  { intros pk pv u' -> Gt. rewrite suitable_ok.
    assert (Pk : pfx prefix pk = true) by (destruct I as [_ _ Up _ _ _]; cbn in Up; now inversion Up).
    rewrite Pk. destruct (gt_prev prev pk) eqn:Gp.
    - destruct (parent_emit _ _ _ _ _ _ I Gt Gp) as [E I']. cbn [next_ok].
      split; [exact E|split; [exact I'|unfold fit_size; cbn; lia]].
    - destruct (parent_skip _ _ _ _ _ _ I Gp) as [E I'].
      eapply next_ok_shift; [exact E | unfold fit_size; cbn; lia |].
      apply IH; auto. unfold fit_size; cbn in *; lia. }
  destruct t as [|[tk tv] t'].
  - destruct u as [|[pk pv] u'].
    + cbn. reflexivity.
    + cbn [fit_next f_tree f_par f_prev]. apply (PS pk pv u' eq_refl). constructor.
  - cbn [fit_next f_tree f_par f_prev].
    set (cond := match u with [] => true | (pk, _) :: _ => lex_leb tk pk end).
    destruct cond eqn:C; subst cond.
    + (* tree first *)
      assert (Ge : all_ge tk u).
      { destruct u as [|[pk pv] u']; [constructor|].
        apply lex_leb_le in C. destruct I as [_ Us _ _ _ _]. cbn in Us. now apply all_ge_of_head. }
      destruct tv as [v|].
      * rewrite suitable_ok. destruct (pfx prefix tk) eqn:Pk.
        -- destruct (tree_step _ _ _ _ _ _ I Ge) as [E I']. cbn [emit] in E.
           unfold sm_filter at 1 in E. cbn [filter fst] in E. rewrite Pk in E. cbn [app] in E.
           assert (Gp : gt_prev prev tk = true).
           { destruct I as [_ _ _ _ Pt _]. cbn in Pt. destruct prev as [pk0|]; cbn; auto.
             inversion Pt; subst. now apply lex_ltb_lt. }
           rewrite Gp. cbn [next_ok].
           split; [exact E|split; [exact I'|unfold fit_size; cbn; lia]].
        -- destruct (tree_cut _ _ _ _ _ _ I Ge Pk) as (E1 & E2 & I').
           eapply next_ok_shift; [rewrite E1, E2; reflexivity | unfold fit_size; cbn; lia |].
           apply IH; auto. unfold fit_size; cbn in *; lia.
      * destruct (tree_step _ _ _ _ _ _ I Ge) as [E I']. cbn [emit] in E.
        unfold sm_filter at 1 in E. cbn [filter app] in E.
        eapply next_ok_shift; [exact E | unfold fit_size; cbn; lia |].
        apply IH; auto. unfold fit_size; cbn in *; lia.
    + (* parent first *)
      destruct u as [|[pk pv] u']; [discriminate|].
      apply (PS pk pv u' eq_refl).
      apply lex_leb_false in C. destruct I as [Ts _ _ _ _ _]. cbn in Ts.
      now apply all_gt_of_head.
Qed.

Lemma fit_collect_spec prefix n : forall s,
  (fit_size s < n)%nat -> Inv prefix s -> fit_collect n prefix s = Some (spec_rest prefix s).
Proof.
  induction n as [|n IH]; intros s Hn I; [lia|].
  cbn [fit_collect].
  pose proof (fit_next_spec prefix (S (fit_size s)) s ltac:(lia) I) as H.
  destruct (fit_next (S (fit_size s)) prefix s) as [| |kv s']; cbn in H.
  - contradiction.
  - now rewrite H.
  - destruct H as (E & I' & L). rewrite E. rewrite IH; auto. lia.
Qed.

(* ---------- init ---------- *)

Lemma tree_ceiling_filter start (o : tree) : sm_sorted o ->
  tree_ceiling start o = sm_filter (lex_leb start) o.
Proof.
  induction o as [|[k e] o IH]; cbn; intros S; auto.
  destruct S as [G S]. destruct (lex_leb start k) eqn:E.
  - f_equal. symmetry. apply sm_filter_true.
    unfold all_gt in G. rewrite Forall_forall in *. intros kv H. specialize (G _ H).
    apply lex_leb_le. apply lex_leb_le in E. apply lex_lt_le. eapply lex_le_lt_trans; eauto.
  - auto.
Qed.

Lemma tree_init_filter start (o : tree) : sm_sorted o ->
  tree_init start o = sm_filter (lex_leb start) o.
Proof.
  intros S. destruct start as [|c start].
  - cbn. symmetry. apply sm_filter_true. rewrite Forall_forall. intros kv _. apply lex_leb_nil.
  - cbn [tree_init]. now apply tree_ceiling_filter.
Qed.

(* ---------- the iteration theorem ---------- *)

Theorem flu_iterate_spec (o : tree) (mu : kvmap) (prefix start : okey) :
  sm_sorted o -> sm_sorted mu ->
  flu_iterate o (kv_iterate mu (ob prefix) (ob start)) prefix start =
  kv_iterate (merge_overlay o mu) (ob prefix) (ob start).
Proof.
  intros So Su. unfold flu_iterate, flu_iterate_opt.
  set (p := ob prefix). set (s := ob start).
  rewrite tree_init_filter by auto.
  set (s0 := {| f_tree := sm_filter (lex_leb (p ++ s)) o; f_par := kv_iterate mu p s; f_prev := None |}).
  assert (I0 : Inv prefix s0).
  { constructor; cbn.
    - now apply sm_filter_sorted.
    - unfold kv_iterate. now apply sm_filter_sorted.
    - unfold kv_iterate, sm_filter. rewrite Forall_forall. intros kv H. apply filter_In in H as [_ H].
      unfold in_iter in H. apply andb_true_iff in H as [H _]. rewrite pfx_ob. exact H.
    - unfold all_ge, sm_filter. rewrite Forall_forall. intros kv H. apply filter_In in H as [_ H].
      apply lex_leb_le in H. eapply lex_le_trans; [apply (lex_le_app p s)|exact H].
    - exact I.
    - exact I. }
  rewrite fit_collect_spec; auto.
  unfold spec_rest, s0. cbn [f_tree f_par f_prev gt_prev].
  rewrite (sm_filter_true (fun _ => true)) by (rewrite Forall_forall; auto).
  unfold kv_iterate.
  assert (Epfx : forall k, pfx prefix k = has_prefix p k) by (intros; apply pfx_ob).
  rewrite (sm_filter_ext _ (pfx prefix) (has_prefix p)) by exact Epfx.
  (* both sides are merge (filter pfx (filter ge o)) (filter pfx (filter ge mu)) *)
  assert (R : forall X : kvmap, sm_filter (in_iter p s) X =
                 sm_filter (has_prefix p) (sm_filter (lex_leb (p ++ s)) X)).
  { intros X. rewrite sm_filter_filter. apply sm_filter_ext. intros k. unfold in_iter. apply andb_comm. }
  rewrite (R (merge_overlay o mu)).
  rewrite (sm_filter_merge_overlay _ (lex_leb (p ++ s)) o mu) by auto.
  rewrite !(sm_filter_merge_overlay _ (has_prefix p)) by (try apply sm_filter_sorted; auto).
  f_equal.
  rewrite (R mu). rewrite !sm_filter_filter. apply sm_filter_ext. intros k.
  destruct (has_prefix p k), (lex_leb (p ++ s) k); reflexivity.
Qed.
