(* Acceptance is independent of the processing order:
     acceptance_order_independent :
       all_accepted D1 -> incl D2 D1 -> NoDup (ids D2) -> parents_first D2 -> all_accepted D2
   i.e. if the events of a DAG are accepted by the rules in ONE parents-first order, then every
   parents-first arrangement of every (necessarily ancestor-closed) subset is accepted too.
   This gives content to the "accept every event" clause of C01. *)
From Coq Require Import List Arith NArith Bool Lia ZArith.
From Coq Require Import ZifyBool ZifyNat ZifyN.
From LV Require Import model.VecIndex spec.FcSpec lib.WSumBft spec.ElectionSpec proofs.FcSpecFacts
  proofs.BftCore proofs.BftElection proofs.BftMono proofs.BftGraph proofs.BftMain proofs.BftRun proofs.BftFcSpec.
Import ListNotations.
Open Scope N_scope.

Definition ids_of (D : list fev) : list N := map (fun e => eid (fe e)) D.
(* every parent of an event occurs (by id) earlier in the sequence *)
Definition parents_first (D : list fev) : Prop :=
  forall P e R, D = P ++ e :: R -> forall p, In p (epar (fe e)) -> In p (ids_of P).

Section Accept.
Variable vals : list (N * N).
Notation ws := (map snd vals).
Notation nv := (length vals).
Notation q := (quorum_of ws).
Notation fcn := (fc_n ws q).
Notation qon := (quorum_on node nd_cr nd_fr nd_spf fcn ws q).

Lemma in_ids_lookup T Dr x : wfTD vals T Dr -> In x (ids_of Dr) -> exists n, nlookup x T = Some n.
Proof.
  intros Hwf Hx. pose proof (link_lookup vals T Dr Hwf x) as H.
  assert (Hs : exists ev, alookup x (E_of Dr) = Some ev).
  { clear H Hwf. induction Dr as [|e Dr IH]; [destruct Hx|]. cbn [E_of map alookup]. fold (E_of Dr).
    destruct (x =? eid (fe e)) eqn:Ex; [eauto|]. destruct Hx as [Hx|Hx]; [|auto].
    exfalso. apply N.eqb_neq in Ex. apply Ex. symmetry. exact Hx. }
  destruct Hs as [ev Hev]. rewrite Hev in H. destruct (nlookup x T) as [n|]; [eauto|contradiction].
Qed.

Lemma not_in_ids_lookup T Dr x : wfTD vals T Dr -> ~ In x (ids_of Dr) -> nlookup x T = None.
Proof.
  intros Hwf Hx. destruct (nlookup x T) as [n|] eqn:E; [|reflexivity]. exfalso. apply Hx.
  pose proof (link_lookup vals T Dr Hwf x) as H. rewrite E in H.
  destruct (alookup x (E_of Dr)) as [ev|] eqn:Ea; [|contradiction].
  clear -Ea. induction Dr as [|e Dr IH]; [discriminate|]. cbn [E_of map alookup] in Ea. fold (E_of Dr) in Ea.
  destruct (x =? eid (fe e)) eqn:Ex; [left; apply N.eqb_eq in Ex; cbn; auto|right; auto].
Qed.

Lemma wfTD_origin_full T Dr : wfTD vals T Dr -> forall e, In e Dr ->
  exists T' pre, T = pre ++ mk_node nv T' e :: T' /\ wfT vals T' /\ parents_known T' e /\
    nlookup (eid (fe e)) T' = None /\ (ecr (fe e) < nv)%nat /\ ev_wf T' e /\ r_frame_ok vals T' (mk_node nv T' e) = true.
Proof.
  induction 1 as [|T Dr e0 Hwf IH Hpk Hfresh Hcr Hev Hfr]; intros e He; [destruct He|].
  destruct He as [<-|He].
  - exists T, []. split; [reflexivity|]. split; [eapply wfTD_wfT; eauto|]. auto 10.
  - destruct (IH e He) as [T' [pre [-> H]]]. exists T', (mk_node nv (pre ++ mk_node nv T' e :: T') e0 :: pre).
    split; [reflexivity|exact H].
Qed.

(* two sub-tables of one well-formed table in which e's parents are known build the same node for e *)
Lemma mk_node_same Ta Tb Tbig e : wfT vals Ta -> wfT vals Tb -> wfT vals Tbig -> incl Ta Tbig -> incl Tb Tbig ->
  parents_known Ta e -> parents_known Tb e -> nlookup (eid (fe e)) Ta = None -> nlookup (eid (fe e)) Tb = None ->
  (forall p, In p (epar (fe e)) -> nlookup p Ta = nlookup p Tb) /\ mk_node nv Ta e = mk_node nv Tb e.
Proof.
  intros Wa Wb W Ia Ib Pa Pb Fa Fb.
  assert (Hpar : forall p, In p (epar (fe e)) -> nlookup p Ta = nlookup p Tb).
  { intros p Hp. destruct (Pa p Hp) as [n Hn]. destruct (Pb p Hp) as [n' Hn']. rewrite Hn, Hn'. f_equal.
    apply nlookup_some in Hn as [Hn1 Hn2]. apply nlookup_some in Hn' as [Hn1' Hn2'].
    apply (wf_inj vals Tbig W); auto. congruence. }
  split; [exact Hpar|].
  apply mk_node_ext; [exact Hpar|]. intros x Hx. apply mk_anc_in in Hx as [->|[p [n [Hp [Hl Hx]]]]].
  - rewrite Fa, Fb. reflexivity.
  - pose proof Hl as Hl2. rewrite (Hpar p Hp) in Hl2.
    apply nlookup_some in Hl as [Hn _]. apply nlookup_some in Hl2 as [Hn2 _].
    destruct (wf_anc vals Ta Wa) as [_ [K1 _]]. destruct (wf_anc vals Tb Wb) as [_ [K2 _]].
    destruct (K1 n x Hn Hx) as [m [Hm Em]]. destruct (K2 n x Hn2 Hx) as [m' [Hm' Em']].
    assert (m = m') by (apply (wf_inj vals Tbig W); auto; congruence). subst m'.
    rewrite <- Em. rewrite (wf_lookup vals Ta Wa m Hm), (wf_lookup vals Tb Wb m Hm'). reflexivity.
Qed.

Lemma climb_ext (Ta Tb : list node) n : (forall g, qon Ta n g = qon Tb n g) ->
  forall fuel g, climb node nd_cr nd_fr nd_spf fcn ws q Ta fuel n g = climb node nd_cr nd_fr nd_spf fcn ws q Tb fuel n g.
Proof. intros H. induction fuel as [|k IH]; intros g; cbn [climb]; [reflexivity|]. rewrite H. destruct (qon Tb n g); auto. Qed.

Lemma frame_ok_ext (Ta Tb : list node) n : (forall g, qon Ta n g = qon Tb n g) ->
  r_frame_ok vals Ta n = r_frame_ok vals Tb n.
Proof. intros H. unfold r_frame_ok, frame_ok. rewrite (climb_ext Ta Tb n H). reflexivity. Qed.

(* the roots a node forkless-causes are the same in two sub-tables that both contain its parents *)
Lemma qon_same Ta Tb Tbig e : wfT vals Ta -> wfT vals Tb -> wfT vals Tbig -> incl Ta Tbig -> incl Tb Tbig ->
  parents_known Ta e -> parents_known Tb e -> nlookup (eid (fe e)) Ta = None -> nlookup (eid (fe e)) Tb = None ->
  In (mk_node nv Tb e) Tbig -> forall g, qon Ta (mk_node nv Ta e) g = qon Tb (mk_node nv Tb e) g.
Proof.
  intros Wa Wb W Ia Ib Pa Pb Fa Fb Hbig g.
  destruct (mk_node_same Ta Tb Tbig e Wa Wb W Ia Ib Pa Pb Fa Fb) as [Hpar Heq].
  rewrite Heq. set (n := mk_node nv Tb e) in *.
  (* membership transfer: x in T, fc n x  =>  x in T' , for (T, T') = (Ta, Tb) and (Tb, Ta) *)
  assert (Htr : forall T T', wfT vals T -> wfT vals T' -> incl T Tbig -> incl T' Tbig -> parents_known T' e ->
            n = mk_node nv T' e -> nlookup (eid (fe e)) T = None ->
            forall x, In x T -> fcn n x = true -> In x T').
  { intros T T' WT WT' IT IT' PT' En FT x Hx Hfc.
    pose proof (fcn_anc vals Tbig W n x Hbig (IT x Hx) Hfc) as Hin.
    rewrite En in Hin. apply mk_anc_in in Hin as [E|[p [np [Hp [Hl Hin]]]]].
    - exfalso. eapply nlookup_none; eauto.
    - apply nlookup_some in Hl as [Hnp _]. destruct (wf_anc vals T' WT') as [_ [K _]].
      destruct (K np _ Hnp Hin) as [m [Hm Em]].
      assert (m = x) by (apply (wf_inj vals Tbig W); auto). subst m. exact Hm. }
  unfold quorum_on. f_equal. rewrite !wsumP_wsP. apply wsP_ext. intros u _. apply by_cr_set_ext; [|reflexivity].
  intros x. unfold obs, roots_at. rewrite !filter_In. split; intros [[Hx Hr] Hfc]; (split; [split; [|exact Hr]|exact Hfc]).
  - apply (Htr Ta Tb Wa Wb Ia Ib Pb eq_refl Fa x Hx Hfc).
  - apply (Htr Tb Ta Wb Wa Ib Ia Pa (eq_sym Heq) Fb x Hx Hfc).
Qed.

Lemma ev_wf_to_b T e : ev_wf T e -> ev_wf_b T e = true.
Proof.
  intros [H1 H2]. unfold ev_wf_b. apply andb_true_intro. split; [apply N.leb_le; exact H1|].
  destruct (1 <? eseq (fe e)) eqn:E; [|reflexivity]. apply N.ltb_lt in E.
  destruct (H2 E) as [sp [n [Hsp [Hl [Hc Hq]]]]]. rewrite Hsp, Hl. rewrite Hc, Nat.eqb_refl, Hq, N.eqb_refl. reflexivity.
Qed.

Lemma add_event_accept_rev T e : parents_known T e -> nlookup (eid (fe e)) T = None -> (ecr (fe e) < nv)%nat ->
  ev_wf_b T e = true -> r_frame_ok vals T (mk_node nv T e) = true ->
  exists h, add_event vals T e = (mk_node nv T e :: T, (0, h)).
Proof.
  intros Hpk Hfresh Hcr Hev Hfr. unfold add_event.
  assert (E1 : existsb (fun p => match nlookup p T with None => true | Some _ => false end) (epar (fe e)) = false).
  { destruct (existsb _ (epar (fe e))) eqn:E; [|reflexivity]. apply existsb_exists in E as [p [Hp H]].
    destruct (Hpk p Hp) as [n Hn]. rewrite Hn in H. discriminate. }
  rewrite E1, Hfresh. apply Nat.ltb_lt in Hcr. rewrite Hcr. cbn [orb negb]. rewrite Hev. cbn [negb]. rewrite Hfr. eauto.
Qed.

Lemma accept_rest T1 Dr1 : wfTD vals T1 Dr1 -> forall D T2 Dr2, wfTD vals T2 Dr2 ->
  incl Dr2 Dr1 -> incl D Dr1 -> NoDup (ids_of D) -> (forall e, In e D -> ~ In (eid (fe e)) (ids_of Dr2)) ->
  (forall P e R, D = P ++ e :: R -> forall p, In p (epar (fe e)) -> In p (ids_of P) \/ In p (ids_of Dr2)) ->
  codes_ok (snd (add_events vals T2 D)).
Proof.
  intros Hwf1. pose proof (wfTD_wfT vals T1 Dr1 Hwf1) as W1.
  induction D as [|e D IH]; intros T2 Dr2 Hwf2 I2 ID Hnd Hdis Hpf; [intros r []|].
  pose proof (wfTD_wfT vals T2 Dr2 Hwf2) as W2.
  pose proof (node_indep vals T2 Dr2 Hwf2 T1 Dr1 Hwf1 I2) as IT2.
  destruct (wfTD_origin_full T1 Dr1 Hwf1 e (ID e (or_introl eq_refl))) as [T1' [pre [ET1 [W1' [Pk1 [Fr1 [Hcr [Hev Hfr]]]]]]]].
  assert (IT1' : incl T1' T1) by (rewrite ET1; apply incl_suffix).
  assert (Pk2 : parents_known T2 e).
  { intros p Hp. destruct (Hpf [] e D eq_refl p Hp) as [[]|H]. apply (in_ids_lookup T2 Dr2 p Hwf2 H). }
  assert (Fr2 : nlookup (eid (fe e)) T2 = None).
  { apply (not_in_ids_lookup T2 Dr2 _ Hwf2). apply Hdis. left. reflexivity. }
  assert (Hbig : In (mk_node nv T1' e) T1) by (rewrite ET1; apply in_or_app; right; left; reflexivity).
  destruct (mk_node_same T2 T1' T1 e W2 W1' W1 IT2 IT1' Pk2 Pk1 Fr2 Fr1) as [Hpar Heq].
  assert (Hevb : ev_wf_b T2 e = true).
  { apply ev_wf_to_b. destruct Hev as [H1 H2]. split; [exact H1|]. intros Hs.
    destruct (H2 Hs) as [sp [n [Hsp [Hl H]]]]. exists sp, n. split; [exact Hsp|]. split; [|exact H].
    rewrite (Hpar sp (self_parent_in _ _ Hsp)). exact Hl. }
  assert (Hfr2 : r_frame_ok vals T2 (mk_node nv T2 e) = true).
  { rewrite Heq. rewrite <- Hfr. apply frame_ok_ext. intros g.
    rewrite <- (qon_same T2 T1' T1 e W2 W1' W1 IT2 IT1' Pk2 Pk1 Fr2 Fr1 Hbig g). rewrite Heq. reflexivity. }
  destruct (add_event_accept_rev T2 e Pk2 Fr2 Hcr Hevb Hfr2) as [h Ha].
  cbn [add_events]. rewrite Ha. destruct (add_events vals (mk_node nv T2 e :: T2) D) as [T3 rs] eqn:E3. cbn [snd].
  intros r [<-|Hr]; [reflexivity|].
  assert (Hrest : codes_ok (snd (add_events vals (mk_node nv T2 e :: T2) D))).
  { apply (IH (mk_node nv T2 e :: T2) (e :: Dr2)).
    - apply wfTD_cons; auto. apply ev_wf_b_ok. exact Hevb.
    - intros x [<-|Hx]; [apply ID; left; reflexivity|apply I2; exact Hx].
    - intros x Hx. apply ID. right. exact Hx.
    - cbn [ids_of map] in Hnd. inversion Hnd. assumption.
    - intros e' He' [Hin|Hin].
      + cbn [ids_of map] in Hnd. inversion Hnd as [|? ? Hn _]. apply Hn. rewrite Hin.
        apply (in_map (fun e0 : fev => eid (fe e0))). exact He'.
      + apply (Hdis e' (or_intror He')). exact Hin.
    - intros P e' R ED p Hp. destruct (Hpf (e :: P) e' R ltac:(rewrite ED; reflexivity) p Hp) as [[H|H]|H].
      + right. left. exact H.
      + left. exact H.
      + right. right. exact H. }
  rewrite E3 in Hrest. apply Hrest. exact Hr.
Qed.

Theorem acceptance_order_independent D1 D2 : all_accepted vals D1 -> incl D2 D1 -> NoDup (ids_of D2) ->
  parents_first D2 -> all_accepted vals D2.
Proof.
  intros A1 Hincl Hnd Hpf. unfold all_accepted.
  apply (accept_rest (table vals D1) (rev D1) (table_wfTD vals D1 A1) D2 [] [] (wfTD_nil vals)).
  - intros x [].
  - intros x Hx. apply in_rev. rewrite rev_involutive. apply Hincl. exact Hx.
  - exact Hnd.
  - intros e _ [].
  - intros P e R ED p Hp. left. apply (Hpf P e R ED p Hp).
Qed.
End Accept.
