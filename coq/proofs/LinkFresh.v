(* The side condition "the id of an input event is not a temporary id of one of the run's Builds",
   made checkable: a temporary id has a number between 1 and the number of Builds in its low 192 bits
   (the 24 tail bytes hold the counter).  Real ids carry a hash there. *)
From Coq Require Import NArith ZArith List Lia Bool ZifyBool ZifyN ZifyNat.
From LV Require Import lib.Bytes model.Codec proofs.CodecProofs model.VecIndex model.Abft spec.ElectionSpec
  proofs.AbftIds proofs.AbftBuild proofs.LinkDefs.
Import ListNotations.
Local Open Scope N_scope.

Lemma unle_app x y : unle (x ++ y) = unle x + pow256 (length x) * unle y.
Proof.
  induction x as [|b x IH]; cbn [app unle length]; [rewrite pow256_0; lia|].
  rewrite IH, pow256_S. lia.
Qed.
Lemma unle_lt l : wf_bytes l = true -> unle l < pow256 (length l).
Proof.
  induction l as [|b l IH]; intros W; cbn [unle length]; [rewrite pow256_0; lia|].
  cbn [wf_bytes forallb] in W. apply andb_prop in W as [Hb W]. unfold byte_ok in Hb. apply N.ltb_lt in Hb.
  specialize (IH W). rewrite pow256_S. lia.
Qed.

Lemma mk_id_bytes_low ep lm c : c < 2 ^ 192 -> mk_id_bytes ep lm (be 24 c) mod 2 ^ 192 = c.
Proof.
  intros Hc. unfold mk_id_bytes, event_id, unbe. rewrite app_assoc, rev_app_distr, unle_app.
  rewrite rev_length, be_length, pow256_24.
  fold (unbe (be 24 c)). rewrite unbe_be by (rewrite pow256_24; exact Hc).
  rewrite N.mul_comm, N.mod_add by (vm_compute; discriminate). apply N.mod_small. exact Hc.
Qed.

Lemma is_temp_low K x : is_temp K x -> 1 <= x mod 2 ^ 192 <= K.
Proof.
  intros (ep0 & lm & c & t & Bc & S & ->). apply sample_some in S as [Hc ->]. rewrite mk_id_bytes_low by exact Hc. exact Bc.
Qed.

(* executable sufficient condition *)
Definition fresh_b (K x : N) : bool := (x mod 2 ^ 192 =? 0) || (K <? x mod 2 ^ 192).
Lemma fresh_b_ok K x : fresh_b K x = true -> id_fresh K x.
Proof.
  unfold fresh_b. intros H Tm. apply is_temp_low in Tm. apply orb_prop in H as [H|H]; lia.
Qed.
Lemma ids_fresh_b (D : list fev) :
  forallb (fun e => fresh_b (N.of_nat (length D)) (eid (fe e))) D = true -> ids_fresh D.
Proof. intros H e He. apply fresh_b_ok. rewrite forallb_forall in H. apply H. exact He. Qed.
