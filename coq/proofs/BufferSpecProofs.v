(* C14: the boolean checkers T1/T2 of spec/BufferSpec.v (what the driver evaluates on the
   implementation's log) accept every history of the model: they follow from [log_wf]. *)
From Coq Require Import NArith List Bool Lia Arith.
From LV Require Import model.Buffer spec.BufferSpec proofs.BufferInv proofs.BufferPush proofs.BufferRun
  proofs.BufferTheorems.
Import ListNotations.
Local Open Scope N_scope.

Lemma rev_cons_app : forall {A} (o : A) l r, rev (o :: l) ++ r = rev l ++ o :: r.
Proof. intros. simpl. rewrite <- app_assoc. reflexivity. Qed.

Lemma t1_walk_ok : forall cs l r conn, log_wf cs (rev l ++ r) ->
  (forall p, In p conn <-> In p (conn_of r)) -> t1_walk cs conn l = true.
Proof.
  intros cs l; induction l as [|o l IH]; intros r conn W H; [reflexivity|].
  rewrite rev_cons_app in W. pose proof (log_wf_app _ _ _ W) as W1. simpl in W1. destruct W1 as [S _].
  destruct o as [c e ok | c e ok | c e err | e | c ok n z | n z]; simpl.
  - apply (IH (OCheck c e ok :: r)); auto.
  - simpl in S. destruct S as [[x [L [E P]]] _]. rewrite L, E, N.eqb_refl. simpl.
    assert (F : forallb (fun p => memN p conn) (pars x) = true).
    { apply forallb_forall. intros p Hp. apply memN_In. apply H. apply P; exact Hp. }
    rewrite F. simpl. apply (IH (OProcess c e ok :: r)); auto.
    intros p. simpl. destruct ok; simpl; [|apply H]. rewrite (H p). tauto.
  - apply (IH (OReleased c e err :: r)); auto.
  - apply (IH (OConnect e :: r)); auto. intros p. simpl. rewrite (H p). tauto.
  - apply (IH (OPushed c ok n z :: r)); auto.
  - apply (IH (OCleared n z :: r)); auto.
Qed.

Lemma t2_walk_ok : forall cs l r processed released, log_wf cs (rev l ++ r) ->
  (forall c, In c processed <-> In c (proc_cids r)) -> (forall c, In c released <-> In c (rel_cids r)) ->
  t2_walk processed released l = true.
Proof.
  intros cs l; induction l as [|o l IH]; intros r pr rl W Hp Hr; [reflexivity|].
  rewrite rev_cons_app in W. pose proof (log_wf_app _ _ _ W) as W1. simpl in W1. destruct W1 as [S _].
  destruct o as [c e ok | c e ok | c e err | e | c ok n z | n z]; simpl.
  - apply (IH (OCheck c e ok :: r)); auto.
  - simpl in S. destruct S as [_ [N1 N2]].
    assert (M1 : memN c pr = false) by (apply memN_false; intros Hc; apply N2; apply Hp; exact Hc).
    assert (M2 : memN c rl = false) by (apply memN_false; intros Hc; apply N1; apply Hr; exact Hc).
    rewrite M1, M2. simpl. apply (IH (OProcess c e ok :: r)); auto.
    intros c'. simpl. rewrite (Hp c'). tauto.
  - apply (IH (OReleased c e err :: r)); auto. intros c'. simpl. rewrite (Hr c'). tauto.
  - apply (IH (OConnect e :: r)); auto.
  - apply (IH (OPushed c ok n z :: r)); auto.
  - apply (IH (OCleared n z :: r)); auto.
Qed.

Theorem model_passes_t1_t2 : forall fc fp limN limS ops,
  t1_walk (copies_of ops) [] (hist fc fp limN limS ops) = true
  /\ t2_walk [] [] (hist fc fp limN limS ops) = true.
Proof.
  intros fc fp limN limS ops. destruct (run_inv fc fp limN limS ops) as [_ [I _]].
  pose proof (inv_log _ _ _ I) as W.
  assert (E : rev (hist fc fp limN limS ops) ++ [] = log (run fc fp true limN limS ops)).
  { unfold hist, final. rewrite rev_involutive, app_nil_r. reflexivity. }
  rewrite <- E in W. split.
  - eapply t1_walk_ok; [exact W | intros p; simpl; tauto].
  - eapply t2_walk_ok; [exact W | intros c; simpl; tauto | intros c; simpl; tauto].
Qed.
