(* A concrete fork run (non-vacuity for C03; taken from the generator, seed 11 case 265): validators
   2 (w3), 11 (w4), 20 (w5); validator 2 creates two first events (E1, E4); the second block's Atropos
   has both among its ancestors and the block names validator 2 as cheater. *)
From Coq Require Import NArith List Bool.
From LV Require Import model.VecIndex model.Abft model.AbftRun spec.AbftSpec.
Import ListNotations.
Local Open Scope N_scope.

Definition f_vals : list (N * N) := [(2, 3); (11, 4); (20, 5)].
Definition f_id (ep lam i : N) : N := mk_id ep lam (2 ^ 191 + i).
Definition fe0 : aevent := {| a_id := f_id 2 1 0; a_epoch := 2; a_creator := 20; a_seq := 1; a_lamport := 1; a_frame := 1; a_parents := [] |}.
Definition fe1 : aevent := {| a_id := f_id 2 1 1; a_epoch := 2; a_creator := 2; a_seq := 1; a_lamport := 1; a_frame := 1; a_parents := [] |}.
Definition fe2 : aevent := {| a_id := f_id 2 2 2; a_epoch := 2; a_creator := 20; a_seq := 2; a_lamport := 2; a_frame := 1; a_parents := [(f_id 2 1 0); (f_id 2 1 1)] |}.
Definition fe3 : aevent := {| a_id := f_id 2 2 3; a_epoch := 2; a_creator := 11; a_seq := 1; a_lamport := 2; a_frame := 1; a_parents := [(f_id 2 1 0)] |}.
Definition fe4 : aevent := {| a_id := f_id 2 1 4; a_epoch := 2; a_creator := 2; a_seq := 1; a_lamport := 1; a_frame := 1; a_parents := [] |}.
Definition fe5 : aevent := {| a_id := f_id 2 3 5; a_epoch := 2; a_creator := 20; a_seq := 3; a_lamport := 3; a_frame := 2; a_parents := [(f_id 2 2 2); (f_id 2 1 4); (f_id 2 2 3)] |}.
Definition fe6 : aevent := {| a_id := f_id 2 3 6; a_epoch := 2; a_creator := 11; a_seq := 2; a_lamport := 3; a_frame := 1; a_parents := [(f_id 2 2 3); (f_id 2 1 4)] |}.
Definition fe7 : aevent := {| a_id := f_id 2 4 7; a_epoch := 2; a_creator := 20; a_seq := 4; a_lamport := 4; a_frame := 2; a_parents := [(f_id 2 3 5); (f_id 2 1 4); (f_id 2 2 3)] |}.
Definition fe8 : aevent := {| a_id := f_id 2 4 8; a_epoch := 2; a_creator := 2; a_seq := 2; a_lamport := 4; a_frame := 1; a_parents := [(f_id 2 1 4); (f_id 2 3 6)] |}.
Definition fe9 : aevent := {| a_id := f_id 2 5 9; a_epoch := 2; a_creator := 11; a_seq := 3; a_lamport := 5; a_frame := 2; a_parents := [(f_id 2 3 6); (f_id 2 4 8); (f_id 2 4 7)] |}.
Definition fe10 : aevent := {| a_id := f_id 2 6 10; a_epoch := 2; a_creator := 11; a_seq := 4; a_lamport := 6; a_frame := 2; a_parents := [(f_id 2 5 9)] |}.
Definition fe11 : aevent := {| a_id := f_id 2 7 11; a_epoch := 2; a_creator := 20; a_seq := 5; a_lamport := 7; a_frame := 3; a_parents := [(f_id 2 4 7); (f_id 2 4 8); (f_id 2 6 10)] |}.
Definition fe12 : aevent := {| a_id := f_id 2 8 12; a_epoch := 2; a_creator := 11; a_seq := 5; a_lamport := 8; a_frame := 3; a_parents := [(f_id 2 6 10); (f_id 2 7 11)] |}.
Definition fe13 : aevent := {| a_id := f_id 2 9 13; a_epoch := 2; a_creator := 11; a_seq := 6; a_lamport := 9; a_frame := 3; a_parents := [(f_id 2 8 12)] |}.
Definition fe15 : aevent := {| a_id := f_id 2 10 15; a_epoch := 2; a_creator := 2; a_seq := 2; a_lamport := 10; a_frame := 3; a_parents := [(f_id 2 1 1); (f_id 2 7 11); (f_id 2 9 13)] |}.
Definition fe16 : aevent := {| a_id := f_id 2 11 16; a_epoch := 2; a_creator := 20; a_seq := 6; a_lamport := 11; a_frame := 4; a_parents := [(f_id 2 7 11); (f_id 2 9 13); (f_id 2 10 15)] |}.
Definition f_ops : list op := map OpP [fe4; fe1; fe0; fe2; fe3; fe5; fe6; fe8; fe7; fe9; fe10; fe11; fe12; fe13; fe15; fe16].
Definition f_run : list obs := run 200 [] sample (start 2 f_vals) f_ops.

Definition blocks_of (o : obs) : list block := match o with ObsP _ bl _ _ => bl | _ => [] end.
Example fork_witness :
  map b_cheaters (concat (map blocks_of f_run)) = [[]; [2]] /\
  c03_trace (chk_start 2 f_vals) (combine f_ops f_run) = true /\
  c02_trace (chk_start 2 f_vals) (combine f_ops f_run) = true.
Proof. vm_compute. repeat split. Qed.
