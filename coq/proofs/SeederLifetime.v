(* C17: session lifetime (repaired code).  The per-peer session list holds exactly the peer's
   live sessions; a live session is removed only by the peer's unregistration or by the creation
   of a new session of the same peer while three are held. *)
From Coq Require Import NArith List Bool Lia Arith.
From Coq Require Import ZifyBool ZifyNat ZifyN.
From LV Require Import model.Seeder spec.SeederSpec proofs.SeederProofs proofs.SeederQueues proofs.SeederSessions.
Import ListNotations.
Local Open Scope N_scope.

(* ---------- the peer -> session ids map ---------- *)
Lemma ps_get_del_same : forall p m, ps_get p (ps_del p m) = [].
Proof.
  intros p m. induction m as [|[q l] m IH]; simpl; [reflexivity|].
  destruct (p =? q) eqn:E; simpl; [exact IH|]. rewrite E. exact IH.
Qed.

Lemma ps_get_del_other : forall p q m, p <> q -> ps_get q (ps_del p m) = ps_get q m.
Proof.
  intros p q m H. induction m as [|[q' l] m IH]; simpl; [reflexivity|].
  destruct (p =? q') eqn:E; simpl.
  - apply N.eqb_eq in E. subst q'. assert (E' : (q =? p) = false) by lia. rewrite E'. exact IH.
  - destruct (q =? q'); [reflexivity|exact IH].
Qed.

Lemma ps_get_app : forall p m1 m2,
  ps_get p (m1 ++ m2) = match ps_get p m1 with [] => if existsb (fun kv => p =? fst kv) m1 then [] else ps_get p m2 | l => l end.
Proof.
  intros p m1 m2. induction m1 as [|[q l] m1 IH]; simpl; [reflexivity|].
  destruct (p =? q) eqn:E; simpl.
  - destruct l; reflexivity.
  - exact IH.
Qed.

Lemma ps_del_no_key : forall p m, existsb (fun kv => p =? fst kv) (ps_del p m) = false.
Proof.
  intros p m. induction m as [|[q l] m IH]; simpl; [reflexivity|].
  destruct (p =? q) eqn:E; simpl; [exact IH|]. rewrite E. exact IH.
Qed.

Lemma ps_get_put_same : forall p l m, ps_get p (ps_put p l m) = l.
Proof.
  intros p l m. unfold ps_put. rewrite ps_get_app, ps_get_del_same, ps_del_no_key. simpl.
  rewrite N.eqb_refl. reflexivity.
Qed.

Lemma ps_get_put_other : forall p q l m, p <> q -> ps_get q (ps_put p l m) = ps_get q m.
Proof.
  intros p q l m H. unfold ps_put. rewrite ps_get_app, (ps_get_del_other _ _ _ H).
  destruct (ps_get q m) eqn:E; [|reflexivity].
  assert (E' : (q =? p) = false) by lia.
  destruct (existsb (fun kv => q =? fst kv) (ps_del p m)); simpl; rewrite ?E'; reflexivity.
Qed.

(* ---------- deletions in the session table ---------- *)
Lemma get_del_all_other : forall p sids k m, fst k <> p -> sess_get k (del_all p sids m) = sess_get k m.
Proof.
  intros p sids. induction sids as [|s sids IH]; intros k m H; simpl; [reflexivity|].
  rewrite IH by exact H. apply get_del_other. intros E. subst k. simpl in H. congruence.
Qed.

Lemma get_del_all_none : forall p sids sid m, In sid sids -> sess_get (p, sid) (del_all p sids m) = None.
Proof.
  intros p sids. induction sids as [|s sids IH]; intros sid m H; simpl; [destruct H|].
  destruct (N.eq_dec s sid) as [E|E].
  - subst s. destruct (sess_get (p, sid) (del_all p sids (sess_del (p, sid) m))) eqn:Eg; [|reflexivity].
    apply get_del_all_some in Eg. rewrite get_del_same in Eg. discriminate.
  - destruct H as [H|H]; [congruence|]. apply IH. exact H.
Qed.

Lemma NoDup_app_snoc : forall (l : list N) x, NoDup l -> ~ In x l -> NoDup (l ++ [x]).
Proof.
  intros l x. induction l as [|y l IH]; intros Hn Hx; simpl.
  - constructor; [intros []|constructor].
  - inversion Hn; subst. constructor.
    + rewrite in_app_iff. simpl. intros [H|[H|[]]]; [contradiction|]. subst. apply Hx. left. reflexivity.
    + apply IH; [assumption|]. intros H. apply Hx. right. exact H.
Qed.

(* ---------- the invariant ---------- *)
Definition live (st : state) (p sid : N) : Prop := sess_get (p, sid) (st_sessions st) <> None.

Record psinv (st : state) : Prop := mkPs {
  ps_exact : forall p sid, In sid (ps_get p (st_peersess st)) <-> live st p sid;
  ps_nodup : forall p, NoDup (ps_get p (st_peersess st))
}.

Lemma psinv_same : forall st st',
  psinv st -> st_peersess st' = st_peersess st ->
  (forall k, sess_get k (st_sessions st') = None <-> sess_get k (st_sessions st) = None) -> psinv st'.
Proof.
  intros st st' [He Hn] Hps Ht. constructor.
  - intros p sid. rewrite Hps, He. unfold live. rewrite Ht. tauto.
  - intros p. rewrite Hps. apply Hn.
Qed.

Lemma step_psinv : forall cfg db st tr o st' evs,
  sinv db st tr -> psinv st -> step v_fixed cfg db st o = Some (st', evs) -> psinv st'.
Proof.
  intros cfg db st tr o st' evs HI HP H. pose proof HP as [He Hn].
  destruct o as [rq|p| | | |i]; simpl in H.
  - destruct (c_maxchunks cfg <? r_chunks rq).
    + inversion H; subst. apply (psinv_same st); simpl; auto; tauto.
    + destruct (16 <=? N.of_nat (length (st_chreq st))); [discriminate|].
      inversion H; subst. apply (psinv_same st); simpl; auto; tauto.
  - destruct (128 <=? N.of_nat (length (st_chunreg st))); [discriminate|].
    inversion H; subst. apply (psinv_same st); simpl; auto; tauto.
  - destruct (st_reader st) eqn:Epc; try discriminate. destruct (st_chreq st) as [|rq0 rest0]; [discriminate|].
    inversion H; subst. apply (psinv_same st); simpl; auto; tauto.
  - (* unregistration *)
    destruct (st_reader st) eqn:Epc; try discriminate. destruct (st_chunreg st) as [|p0 rest0]; [discriminate|].
    inversion H; subst. constructor; simpl.
    + intros p sid. unfold live. simpl. destruct (N.eq_dec p0 p) as [E|E].
      * subst p0. rewrite ps_get_del_same. split; [intros []|]. intros Hl. exfalso. apply Hl.
        destruct (sess_get (p, sid) (st_sessions st)) eqn:Eg.
        -- apply get_del_all_none. apply He. unfold live. congruence.
        -- destruct (sess_get (p, sid) (del_all p (ps_get p (st_peersess st)) (st_sessions st))) eqn:Eg'; [|reflexivity].
           apply get_del_all_some in Eg'. congruence.
      * rewrite (ps_get_del_other _ _ _ E). rewrite get_del_all_other by (simpl; congruence). apply He.
    + intros p. destruct (N.eq_dec p0 p) as [E|E].
      * subst p0. rewrite ps_get_del_same. constructor.
      * rewrite (ps_get_del_other _ _ _ E). apply Hn.
  - destruct (st_reader st) as [|rq|rq i ss|rq i ss r0|rq i ss r0] eqn:Epc; try discriminate.
    + destruct (st_pending st <? c_limit cfg); [|discriminate].
      unfold reader_top in H. simpl in H.
      set (p := r_peer rq) in *. set (sid := r_sid rq) in *.
      destruct (sess_get (p, sid) (st_sessions st)) as [ss|] eqn:Eg.
      * destruct (s_orig ss =? r_start rq); inversion H; subst; apply (psinv_same st); simpl; auto; tauto.
      * (* creation *)
        assert (Hnotin : ~ In sid (ps_get p (st_peersess st))).
        { intros Hin. apply He in Hin. unfold live in Hin. congruence. }
        unfold prune in H.
        destruct (ps_get p (st_peersess st)) as [|o rest] eqn:El.
        -- (* no session yet *)
           inversion H; subst st' evs. clear H. constructor; simpl.
           ++ intros q x. unfold live. simpl. destruct (N.eq_dec p q) as [E|E].
              ** subst q. rewrite ps_get_put_same. simpl. destruct (N.eq_dec sid x) as [E2|E2].
                 --- subst x. rewrite get_put_same. split; [discriminate|auto].
                 --- rewrite get_put_other by congruence. split; [intros [E3|[]]; congruence|].
                     intros Hl. exfalso. assert (Hin : In x (ps_get p (st_peersess st))) by (apply He; exact Hl).
                     rewrite El in Hin. destruct Hin.
              ** rewrite (ps_get_put_other _ _ _ _ E). rewrite get_put_other by congruence. apply He.
           ++ intros q. destruct (N.eq_dec p q) as [E|E].
              ** subst q. rewrite ps_get_put_same. simpl. constructor; [intros []|constructor].
              ** rewrite (ps_get_put_other _ _ _ _ E). apply Hn.
        -- pose proof (Hn p) as Hnd. rewrite El in Hnd.
           assert (Hex : forall x, In x (o :: rest) <-> live st p x) by (intros x; rewrite <- El; apply He).
           destruct (2 <? N.of_nat (length (o :: rest))) eqn:Elen.
           ++ (* the oldest is pruned *)
              inversion H; subst st' evs. clear H. inversion Hnd as [|? ? Ho Hrest]; subst.
              constructor; simpl.
              ** intros q x. unfold live. simpl. destruct (N.eq_dec p q) as [E|E].
                 --- subst q. rewrite ps_get_put_same. rewrite in_app_iff. simpl.
                     destruct (N.eq_dec sid x) as [E2|E2].
                     +++ subst x. rewrite get_put_same. split; [discriminate|auto].
                     +++ rewrite get_put_other by congruence.
                         destruct (N.eq_dec o x) as [E3|E3].
                         *** subst x. rewrite get_del_same. split; [|congruence].
                             intros [Hin|[E4|[]]]; [contradiction|congruence].
                         *** rewrite get_del_other by congruence.
                             specialize (Hex x). unfold live in Hex. rewrite <- Hex. simpl.
                             split; [intros [Hin|[E4|[]]]; [auto|congruence]|intros [E4|Hin]; [congruence|auto]].
                 --- rewrite (ps_get_put_other _ _ _ _ E). rewrite get_put_other by congruence.
                     rewrite get_del_other by congruence. apply He.
              ** intros q. destruct (N.eq_dec p q) as [E|E].
                 --- subst q. rewrite ps_get_put_same. apply NoDup_app_snoc; [exact Hrest|].
                     intros Hin. apply Hnotin. right. exact Hin.
                 --- rewrite (ps_get_put_other _ _ _ _ E). apply Hn.
           ++ inversion H; subst st' evs. clear H. constructor; simpl.
              ** intros q x. unfold live. simpl. destruct (N.eq_dec p q) as [E|E].
                 --- subst q. rewrite ps_get_put_same.
                     change (o :: rest ++ [sid]) with ((o :: rest) ++ [sid]). rewrite in_app_iff.
                     destruct (N.eq_dec sid x) as [E2|E2].
                     +++ subst x. rewrite get_put_same. split; [discriminate|simpl; auto].
                     +++ rewrite get_put_other by congruence. specialize (Hex x). unfold live in Hex.
                         rewrite <- Hex. simpl. split; [intros [Hin|[E4|[]]]; [auto|congruence]|auto].
                 --- rewrite (ps_get_put_other _ _ _ _ E). rewrite get_put_other by congruence. apply He.
              ** intros q. destruct (N.eq_dec p q) as [E|E].
                 --- subst q. rewrite ps_get_put_same.
                     change (o :: rest ++ [sid]) with ((o :: rest) ++ [sid]).
                     apply NoDup_app_snoc; [exact Hnd|exact Hnotin].
                 --- rewrite (ps_get_put_other _ _ _ _ E). apply Hn.
    + inversion H; subst st' evs. clear H.
      pose proof (si_pc _ _ _ HI) as Hpc. unfold pc_ok in Hpc. rewrite Epc in Hpc.
      unfold reader_chunk. destruct ((i <? r_chunks rq) && negb (s_done ss)).
      * destruct (foreach db (s_next ss) (s_stop ss) (r_num rq) (r_size rq) [] (s_next ss)) as [[items last] c].
        apply (psinv_same st); simpl; auto. intros k.
        destruct (key_eqb (r_peer rq, r_sid rq) k) eqn:E.
        -- apply key_eqb_eq in E. subst k. rewrite get_put_same, Hpc. split; discriminate.
        -- rewrite get_put_other; [tauto|]. intros E'. subst k. rewrite key_eqb_refl in E. discriminate.
      * apply (psinv_same st); simpl; auto; tauto.
    + unfold reader_add in H. destruct (st_pending st <? c_limit cfg); [|discriminate].
      inversion H; subst. apply (psinv_same st); simpl; auto; tauto.
    + unfold reader_send in H.
      destruct ((N.of_nat (length (nth (s_sender ss) (st_senders st) [])) <=? c_maxtasks cfg) &&
                (Nat.ltb (s_sender ss) (length (st_senders st)))); [|discriminate].
      inversion H; subst. apply (psinv_same st); simpl; auto; tauto.
  - destruct (nth i (st_senders st) []) as [|r0 q] eqn:En; [discriminate|].
    inversion H; subst. apply (psinv_same st); simpl; auto; tauto.
Qed.

Lemma psinv_init : forall cfg, psinv (init cfg).
Proof.
  intros cfg. constructor; simpl.
  - intros p sid. unfold live. simpl. split; [intros []|intros H; exfalso; apply H; reflexivity].
  - intros p. constructor.
Qed.

Lemma run_both : forall cfg db ops st tr st' evs,
  sorted_keys db -> sinv db st tr -> psinv st -> run v_fixed cfg db st ops = (st', evs) ->
  sinv db st' (tr ++ evs) /\ psinv st'.
Proof.
  intros cfg db ops. induction ops as [|o ops IH]; intros st tr st' evs Hs HI HP H; simpl in H.
  - inversion H; subst. rewrite app_nil_r. auto.
  - destruct (step v_fixed cfg db st o) as [[st1 e1]|] eqn:Es.
    + destruct (run v_fixed cfg db st1 ops) as [st2 e2] eqn:Er. inversion H; subst.
      rewrite app_assoc. apply (IH st1 (tr ++ e1) st' e2 Hs);
        [exact (step_sinv _ _ _ _ _ _ _ Hs HI Es)|exact (step_psinv _ _ _ _ _ _ _ HI HP Es)|exact Er].
    + eapply IH; eauto.
Qed.

(* in every reachable state the peer's session list is exactly the set of its live sessions,
   without repetitions (so its length is the number of sessions the peer holds) *)
Lemma peer_sessions_exact : forall cfg db ops,
  sorted_keys db ->
  let st := fst (run v_fixed cfg db (init cfg) ops) in
  forall p, NoDup (ps_get p (st_peersess st)) /\
            forall sid, In sid (ps_get p (st_peersess st)) <-> sess_get (p, sid) (st_sessions st) <> None.
Proof.
  intros cfg db ops Hs. destruct (run v_fixed cfg db (init cfg) ops) as [st' evs] eqn:Er. simpl.
  destruct (run_both _ _ _ _ _ _ _ Hs (sinv_init cfg db) (psinv_init cfg) Er) as [_ [He Hn]].
  intros p. split; [apply Hn|]. intros sid. apply He.
Qed.

(* a live session survives every step with its incarnation, except the reader's processing of
   its peer's unregistration, and the creation of a new session of its peer while the peer's
   session list has three entries *)
Lemma session_survives : forall cfg db ops,
  sorted_keys db ->
  let st := fst (run v_fixed cfg db (init cfg) ops) in
  forall o st' evs key ss,
    step v_fixed cfg db st o = Some (st', evs) ->
    sess_get key (st_sessions st) = Some ss ->
    (exists ss', sess_get key (st_sessions st') = Some ss' /\ s_inc ss' = s_inc ss /\
                 s_orig ss' = s_orig ss /\ s_stop ss' = s_stop ss) \/
    In (EUnreg (fst key)) evs \/
    (exists k sid a b c, In (ECreated k (fst key) sid a b c) evs /\ sid <> snd key /\
                         (3 <= length (ps_get (fst key) (st_peersess st)))%nat).
Proof.
  intros cfg db ops Hs. destruct (run v_fixed cfg db (init cfg) ops) as [st tr] eqn:Er. simpl.
  destruct (run_both _ _ _ _ _ _ _ Hs (sinv_init cfg db) (psinv_init cfg) Er) as [HI HP]. simpl in HI.
  intros o st' evs key ss H Hg.
  assert (Hkeep : st_sessions st' = st_sessions st ->
                  exists ss', sess_get key (st_sessions st') = Some ss' /\ s_inc ss' = s_inc ss /\
                              s_orig ss' = s_orig ss /\ s_stop ss' = s_stop ss).
  { intros E. exists ss. rewrite E. auto. }
  destruct o as [rq|p| | | |i]; simpl in H.
  - destruct (c_maxchunks cfg <? r_chunks rq).
    + inversion H; subst. left. apply Hkeep. reflexivity.
    + destruct (16 <=? N.of_nat (length (st_chreq st))); [discriminate|].
      inversion H; subst. left. apply Hkeep. reflexivity.
  - destruct (128 <=? N.of_nat (length (st_chunreg st))); [discriminate|].
    inversion H; subst. left. apply Hkeep. reflexivity.
  - destruct (st_reader st) eqn:Epc; try discriminate. destruct (st_chreq st) as [|rq0 rest0]; [discriminate|].
    inversion H; subst. left. apply Hkeep. reflexivity.
  - destruct (st_reader st) eqn:Epc; try discriminate. destruct (st_chunreg st) as [|p0 rest0]; [discriminate|].
    inversion H; subst. destruct (N.eq_dec (fst key) p0) as [E|E].
    + right. left. subst p0. left. reflexivity.
    + left. exists ss. simpl. rewrite get_del_all_other by exact E. auto.
  - destruct (st_reader st) as [|rq|rq i s0|rq i s0 r0|rq i s0 r0] eqn:Epc; try discriminate.
    + destruct (st_pending st <? c_limit cfg); [|discriminate].
      unfold reader_top in H. simpl in H.
      set (p := r_peer rq) in *. set (sid := r_sid rq) in *.
      destruct (sess_get (p, sid) (st_sessions st)) as [s1|] eqn:Eg.
      * destruct (s_orig s1 =? r_start rq); inversion H; subst; left; apply Hkeep; reflexivity.
      * assert (Hne : (p, sid) <> key) by (intros E; subst key; congruence).
        unfold prune in H.
        destruct (ps_get p (st_peersess st)) as [|o rest] eqn:El.
        -- inversion H; subst st' evs. left. exists ss. simpl. rewrite get_put_other by exact Hne. auto.
        -- destruct (2 <? N.of_nat (length (o :: rest))) eqn:Elen.
           ++ inversion H; subst st' evs. clear H.
              destruct (key_eqb (p, o) key) eqn:Eo.
              ** apply key_eqb_eq in Eo. subst key. right. right.
                 exists (st_counter st), sid, (r_start rq), (r_stop rq), (r_serial rq).
                 split; [left; reflexivity|]. simpl. split.
                 --- intros E. apply Hne. simpl in E. rewrite E. reflexivity.
                 --- rewrite El. simpl in *. lia.
              ** left. exists ss. simpl. rewrite get_put_other by exact Hne.
                 rewrite get_del_other; [auto|]. intros E. subst key. rewrite key_eqb_refl in Eo. discriminate.
           ++ inversion H; subst st' evs. left. exists ss. simpl. rewrite get_put_other by exact Hne. auto.
    + inversion H; subst st' evs. clear H.
      pose proof (si_pc _ _ _ HI) as Hpc. unfold pc_ok in Hpc. rewrite Epc in Hpc.
      unfold reader_chunk. destruct ((i <? r_chunks rq) && negb (s_done s0)).
      * destruct (foreach db (s_next s0) (s_stop s0) (r_num rq) (r_size rq) [] (s_next s0)) as [[items last] c].
        left. simpl. destruct (key_eqb (r_peer rq, r_sid rq) key) eqn:E.
        -- apply key_eqb_eq in E. subst key. rewrite get_put_same. eexists. split; [reflexivity|].
           simpl. rewrite Hpc in Hg. inversion Hg; subst. auto.
        -- exists ss. rewrite get_put_other; [auto|]. intros E'. subst key. rewrite key_eqb_refl in E. discriminate.
      * left. exists ss. simpl. auto.
    + unfold reader_add in H. destruct (st_pending st <? c_limit cfg); [|discriminate].
      inversion H; subst. left. apply Hkeep. reflexivity.
    + unfold reader_send in H.
      destruct ((N.of_nat (length (nth (s_sender s0) (st_senders st) [])) <=? c_maxtasks cfg) &&
                (Nat.ltb (s_sender s0) (length (st_senders st)))); [|discriminate].
      inversion H; subst. left. apply Hkeep. reflexivity.
  - destruct (nth i (st_senders st) []) as [|r0 q] eqn:En; [discriminate|].
    inversion H; subst. left. apply Hkeep. reflexivity.
Qed.

(* a request for a live session whose selector matches is served by that session's
   incarnation: no session is created *)
Lemma resume_no_creation : forall cfg st rq ss,
  sess_get (r_peer rq, r_sid rq) (st_sessions st) = Some ss ->
  snd (reader_top v_fixed cfg st rq) = [] /\ s_orig ss = r_start rq /\
    st_reader (fst (reader_top v_fixed cfg st rq)) = RChunk rq 0 ss
  \/ snd (reader_top v_fixed cfg st rq) = [EMisb (r_peer rq) (r_serial rq)] /\ s_orig ss <> r_start rq.
Proof.
  intros cfg st rq ss Hg. unfold reader_top. simpl. rewrite Hg.
  destruct (s_orig ss =? r_start rq) eqn:E; simpl; [left|right].
  - apply N.eqb_eq in E. auto.
  - apply N.eqb_neq in E. auto.
Qed.

(* ---------------------------------------------------------------------------------- *)
(* Round 2: the lifetime rule of the specification (SeederSpec.life_step: resume / new     *)
(* session / drop the OLDEST of three / unregister) and the model's session handling move   *)
(* in lockstep.                                                                            *)
(* ---------------------------------------------------------------------------------- *)
Definition life_rel (m : list (N * list slive)) (st : state) : Prop :=
  forall p,
    map l_sid (peer_live p m) = ps_get p (st_peersess st) /\
    forall x, In x (peer_live p m) ->
      exists ss, sess_get (p, l_sid x) (st_sessions st) = Some ss /\
                 s_creator ss = l_creator x /\ s_orig ss = l_orig x.

Lemma peer_live_set_same : forall p l m, peer_live p (set_peer_live p l m) = l.
Proof. intros. unfold set_peer_live. simpl. rewrite N.eqb_refl. reflexivity. Qed.

Lemma peer_live_filter_other : forall p q m, p <> q ->
  peer_live q (filter (fun kv : N * list slive => negb (p =? fst kv)) m) = peer_live q m.
Proof.
  intros p q m H. induction m as [|[q' l] m IH]; simpl; [reflexivity|].
  destruct (p =? q') eqn:E; simpl.
  - apply N.eqb_eq in E. subst q'. assert (E' : (q =? p) = false) by lia. rewrite E'. exact IH.
  - destruct (q =? q'); [reflexivity|exact IH].
Qed.

Lemma peer_live_set_other : forall p q l m, p <> q -> peer_live q (set_peer_live p l m) = peer_live q m.
Proof.
  intros p q l m H. unfold set_peer_live. simpl. assert (E : (q =? p) = false) by lia. rewrite E.
  apply peer_live_filter_other. exact H.
Qed.

Lemma find_live_in : forall sid l, In sid (map l_sid l) ->
  exists x, find_live sid l = Some x /\ l_sid x = sid /\ In x l.
Proof.
  intros sid l. induction l as [|y l IH]; intros H; simpl in *; [destruct H|].
  destruct (l_sid y =? sid) eqn:E.
  - apply N.eqb_eq in E. exists y. auto.
  - destruct H as [H|H]; [lia|]. destruct (IH H) as [x [H1 [H2 H3]]]. exists x. auto.
Qed.

Lemma find_live_none : forall sid l, ~ In sid (map l_sid l) -> find_live sid l = None.
Proof.
  intros sid l. induction l as [|y l IH]; intros H; simpl in *; [reflexivity|].
  destruct (l_sid y =? sid) eqn:E.
  - apply N.eqb_eq in E. exfalso. apply H. left. exact E.
  - apply IH. intros Hin. apply H. right. exact Hin.
Qed.

(* the outcome the lifetime rule predicts for a request, read off the model's next state *)
Definition outcome_agrees (e : list (N * expect)) (rq : request) (st' : state) (evs : list event) : Prop :=
  match e with
  | [(t, XMisb)] => t = r_serial rq /\ st_reader st' = RIdle /\ evs = [EMisb (r_peer rq) (r_serial rq)]
  | [(t, XServe c)] => t = r_serial rq /\ exists ss, st_reader st' = RChunk rq 0 ss /\ s_creator ss = c
  | _ => False
  end.

Lemma reader_top_refines : forall cfg m st rq,
  life_rel m st -> psinv st -> r_chunks rq <= c_maxchunks cfg ->
  let '(st', evs) := reader_top v_fixed cfg st rq in
  let '(m', e) := life_step (c_maxchunks cfg) m (SReq rq) in
  life_rel m' st' /\ outcome_agrees e rq st' evs.
Proof.
  intros cfg m st rq HR [He Hn] Hch. unfold reader_top, life_step. simpl.
  assert (Emax : (c_maxchunks cfg <? r_chunks rq) = false) by lia. rewrite Emax.
  set (p := r_peer rq). set (sid := r_sid rq).
  destruct (HR p) as [Hmap Hall].
  destruct (sess_get (p, sid) (st_sessions st)) as [ss|] eqn:Eg.
  - (* the session is live *)
    assert (Hin : In sid (map l_sid (peer_live p m))).
    { rewrite Hmap. apply He. unfold live. congruence. }
    destruct (find_live_in _ _ Hin) as [x [Hf [Hx Hxin]]]. rewrite Hf.
    destruct (Hall x Hxin) as [ss' [Hg' [Hc Ho]]]. rewrite Hx, Eg in Hg'. inversion Hg'; subst ss'.
    rewrite <- Ho.
    destruct (s_orig ss =? r_start rq) eqn:Eo; simpl.
    + split; [exact HR|]. split; [reflexivity|]. exists ss. split; [reflexivity|exact Hc].
    + split; [exact HR|]. auto.
  - (* a new session *)
    assert (Hnotin : ~ In sid (map l_sid (peer_live p m))).
    { rewrite Hmap. intros Hin. apply He in Hin. unfold live in Hin. congruence. }
    rewrite (find_live_none _ _ Hnotin).
    set (l := peer_live p m) in *.
    set (new := SeederSpec.mkLive sid (r_serial rq) (r_start rq)).
    assert (Hlen : length (ps_get p (st_peersess st)) = length l) by (rewrite <- Hmap; apply map_length).
    unfold prune.
    destruct (ps_get p (st_peersess st)) as [|o rest] eqn:Eps.
    + (* no session yet *)
      destruct l as [|y l0] eqn:El; [|simpl in Hlen; discriminate]. simpl.
      split.
      * intros q. destruct (N.eq_dec p q) as [E|E].
        -- subst q. rewrite peer_live_set_same. simpl. rewrite ps_get_put_same. split; [reflexivity|].
           intros x [<-|[]]. simpl. rewrite get_put_same. eexists. split; [reflexivity|]. auto.
        -- rewrite (peer_live_set_other _ _ _ _ E). simpl. rewrite (ps_get_put_other _ _ _ _ E).
           destruct (HR q) as [Hm Ha]. split; [exact Hm|]. intros x Hx. destruct (Ha x Hx) as [s0 [H1 H2]].
           exists s0. split; [|exact H2]. rewrite get_put_other by congruence. exact H1.
      * split; [reflexivity|]. eexists. split; reflexivity.
    + pose proof (Hn p) as Hnd. rewrite Eps in Hnd.
      destruct l as [|y l0] eqn:El; [simpl in Hlen; discriminate|].
      simpl in Hmap. inversion Hmap as [[Hy Hrest]]. subst o rest.
      assert (E3 : (3 <=? N.of_nat (length (y :: l0))) = (2 <? N.of_nat (length (l_sid y :: map l_sid l0)))) by (rewrite Hlen; lia).
      rewrite E3.
      destruct (2 <? N.of_nat (length (l_sid y :: map l_sid l0))) eqn:Eprune; simpl; cbv beta iota zeta.
      * (* the oldest is dropped *)
        inversion Hnd as [|? ? Ho Hndr]; subst.
        split.
        -- intros q. destruct (N.eq_dec p q) as [E|E].
           ++ subst q. rewrite peer_live_set_same. simpl. rewrite ps_get_put_same. rewrite map_app. simpl.
              split; [reflexivity|].
              intros x Hx. apply in_app_or in Hx. destruct Hx as [Hx|[<-|[]]].
              ** assert (Hxs : In (l_sid x) (map l_sid l0)) by (apply in_map; exact Hx).
                 assert (Hne1 : l_sid x <> sid) by (intros E; apply Hnotin; right; rewrite <- E; exact Hxs).
                 assert (Hne2 : l_sid x <> l_sid y) by (intros E; apply Ho; rewrite <- E; exact Hxs).
                 destruct (Hall x (or_intror Hx)) as [s0 [H1 H2]]. exists s0. split; [|exact H2].
                 rewrite get_put_other by congruence. rewrite get_del_other by congruence. exact H1.
              ** simpl. rewrite get_put_same. eexists. split; [reflexivity|]. auto.
           ++ rewrite (peer_live_set_other _ _ _ _ E). simpl. rewrite (ps_get_put_other _ _ _ _ E).
              destruct (HR q) as [Hm Ha]. split; [exact Hm|]. intros x Hx. destruct (Ha x Hx) as [s0 [H1 H2]].
              exists s0. split; [|exact H2]. rewrite get_put_other by congruence.
              rewrite get_del_other by congruence. exact H1.
        -- split; [reflexivity|]. eexists. split; reflexivity.
      * split.
        -- intros q. destruct (N.eq_dec p q) as [E|E].
           ++ subst q. rewrite peer_live_set_same. simpl. rewrite ps_get_put_same.
              change (l_sid y :: map l_sid (l0 ++ [new])) with (map l_sid ((y :: l0) ++ [new])).
              rewrite map_app. simpl. split; [reflexivity|].
              intros x Hx.
              assert (Hx' : In x (y :: l0) \/ x = new).
              { destruct Hx as [Hx|Hx]; [left; left; exact Hx|]. apply in_app_or in Hx.
                destruct Hx as [Hx|[Hx|[]]]; [left; right; exact Hx|right; symmetry; exact Hx]. }
              destruct Hx' as [Hx'|Hx']; [|subst x].
              ** assert (Hxs : In (l_sid x) (map l_sid (y :: l0))) by (apply in_map; exact Hx').
                 assert (Hne1 : l_sid x <> sid) by (intros E; apply Hnotin; rewrite <- E; exact Hxs).
                 destruct (Hall x Hx') as [s0 [H1 H2]]. exists s0. split; [|exact H2].
                 rewrite get_put_other by congruence. exact H1.
              ** simpl. rewrite get_put_same. eexists. split; [reflexivity|]. auto.
           ++ rewrite (peer_live_set_other _ _ _ _ E). simpl. rewrite (ps_get_put_other _ _ _ _ E).
              destruct (HR q) as [Hm Ha]. split; [exact Hm|]. intros x Hx. destruct (Ha x Hx) as [s0 [H1 H2]].
              exists s0. split; [|exact H2]. rewrite get_put_other by congruence. exact H1.
        -- split; [reflexivity|]. eexists. split; reflexivity.
Qed.
