(* Non-vacuity of link_x: three epochs (validators in non-canonical order; epoch 1 seals at frame 2 -- a
   non-sealing block before the sealing block, whose cheater list is not empty -- and switches to a
   re-weighted, re-ordered validator list; epoch 2 is fed by Process only and seals at frame 1; epoch 3 is
   not sealed), with: events rejected for their frame inside the stream (with and without a Build), a
   duplicate and an event with an unknown parent, speculative Builds, Process calls that the guard stops,
   probes, restarts (before a Build, between a Build and its Process, in the middle of epochs 2 and 3,
   after the sealing block), forkless-cause cache capacity 3. *)
From Coq Require Import NArith List Bool Lia.
From LV Require Import model.VecIndex model.Abft model.AbftRun spec.ElectionSpec
  proofs.BftGraph proofs.BftRun proofs.BftMain proofs.BftAccept proofs.BftProps
  proofs.LinkVals proofs.LinkPerm proofs.LinkDefs proofs.LinkFresh proofs.LinkRun proofs.LinkRaw
  proofs.LinkExample proofs.LinkNoise proofs.LinkReject proofs.LinkX proofs.LinkEpochsX proofs.LinkXCheck.
Import ListNotations.
Local Open Scope N_scope.

Definition xx_sh (k : N) (D : list fev) : list fev :=
  map (fun e => mkev (eid (fe e) + k) (ecr (fe e)) (eseq (fe e)) (ffr e) (map (N.add k) (epar (fe e)))) D.
Definition xx_vals2 : list (N * N) := [(5, 4); (9, 5); (37094, 4); (2805340295, 4)].
Definition xx_pol : policy := [((1, 2), xx_vals2); ((2, 1), ex_vals)].
Definition xx_lam : fev -> N := fun _ => 0.

Definition xx_ae (ep : N) (vals : list (N * N)) (e : fev) : aevent := to_aevent ep xx_lam vals e.
(* event 1010 with the claimed frame 4 instead of 1, under other ids *)
Definition xx_wrong (id : N) : fev := mkev id 3 1 4 [1007; 1009; 1004].
(* a speculative event of validator 0 on top of its event 1005 *)
Definition xx_spec : aevent := xx_ae 1 ex_vals (mkev 0 0 2 0 [1005; 1004]).
(* events that the guard stops: unknown parent; wrong epoch *)
Definition xx_orphan : fev := mkev 7000 0 9 1 [9999].
Definition xx_other_epoch : aevent := xx_ae 5 ex_vals (mkev 8000 1 1 1 []).
Definition slot0 (e : fev) : xslot := {| x_pre := []; x_ev := e; x_build := true; x_mid := [] |}.

Definition xx_sc1 : list xslot :=
  flat_map (fun e =>
    let id := eid (fe e) in
    (if id =? 1010 then [ {| x_pre := [OpB xx_spec; OpR]; x_ev := xx_wrong 6010; x_build := true; x_mid := [OpR] |};
                          {| x_pre := []; x_ev := xx_wrong 6011; x_build := false; x_mid := [] |};
                          slot0 (mkev 1005 0 1 1 [1004; 1001]); slot0 xx_orphan ] else []) ++
    [ {| x_pre := if id =? 1010 then [OpQ 1005 1001; OpV; OpP (xx_ae 1 ex_vals xx_orphan); OpP xx_other_epoch]
                  else if id =? 1030 then [OpR; OpM 1004; OpB xx_spec]
                  else if id =? 1045 then [OpR; OpB xx_spec; OpP xx_other_epoch; OpV] else [];
         x_ev := e;
         x_build := negb (id mod 3 =? 0);
         x_mid := if id =? 1020 then [OpR; OpG 1] else if id =? 1046 then [OpR] else [] |} ]) ex3_D.
Definition xx_sc2 : list xslot :=
  map (fun e => {| x_pre := if eid (fe e) =? 3010 then [OpR; OpV] else []; x_ev := e; x_build := false; x_mid := [] |}) (xx_sh 3000 ex_D).
Definition xx_sc3 : list xslot :=
  map (fun e => {| x_pre := []; x_ev := e; x_build := true; x_mid := if eid (fe e) =? 5020 then [OpR; OpB xx_spec] else [] |}) (xx_sh 5000 ex_D').
Definition xx_Ss : list (list xslot * list op) := [(xx_sc1, [OpR; OpV]); (xx_sc2, [OpR]); (xx_sc3, [OpR; OpG 2])].

Example xx_pol_ok : policy_b xx_pol = true. Proof. vm_compute. reflexivity. Qed.
Example xx_vals_ok : vals_b ex_vals = true. Proof. vm_compute. reflexivity. Qed.
Example xx_input_ok : epochs_ok_xb xx_pol 400 ex_vals 1 xx_Ss = true. Proof. vm_compute. reflexivity. Qed.
Example xx_builds : total_builds xx_Ss = 87%nat. Proof. vm_compute. reflexivity. Qed.

Example xx_refines :
  model_epochs_x 3 xx_lam xx_pol (start 1 ex_vals) ex_vals 1 xx_Ss =
  map (fun r => (fst (fst r), snd (fst r), option_map mk_vals (snd r))) (ref_epochs_x xx_pol ex_vals 1 xx_Ss).
Proof. apply (link_x_checked 3 xx_lam xx_pol ex_vals xx_Ss 400 xx_pol_ok xx_vals_ok xx_input_ok); vm_compute; [discriminate | reflexivity]. Qed.
Example xx_refines_by_evaluation :
  model_epochs_x 3 xx_lam xx_pol (start 1 ex_vals) ex_vals 1 xx_Ss =
  map (fun r => (fst (fst r), snd (fst r), option_map mk_vals (snd r))) (ref_epochs_x xx_pol ex_vals 1 xx_Ss).
Proof. vm_compute. reflexivity. Qed.

(* what the reference says about this run *)
Definition count_code (c : N) (evs : list ev_x) : nat := length (filter (fun e : ev_x => fst (fst e) =? c) evs).
Example xx_reference :
  map (fun r => (snd (fst r), snd r,
                 [count_code 0 (fst (fst r)); count_code 1 (fst (fst r)); count_code 2 (fst (fst r)); count_code 7 (fst (fst r)); count_code 8 (fst (fst r))]))
      (ref_epochs_x xx_pol ex_vals 1 xx_Ss) =
  [ ([(1, 1000, [], None); (2, 1015, [37094], Some (mk_vals xx_vals2))], Some xx_vals2, [37; 2; 2; 11; 7]%nat);
    ([(1, 3002, [], Some (mk_vals ex_vals))], Some ex_vals, [23; 0; 0; 25; 2]%nat);
    ([(1, 5000, [], None); (2, 5015, [37094], None)], None, [48; 0; 0; 0; 2]%nat) ].
Proof. vm_compute. reflexivity. Qed.
(* no error marker, and every rendered restart reports the decided frame / epoch of the reference *)
Example xx_no_error : forallb (fun r => forallb (fun e : ev_x => fst (fst e) <? 97) (fst (fst r))) (ref_epochs_x xx_pol ex_vals 1 xx_Ss) = true.
Proof. vm_compute. reflexivity. Qed.
Example xx_restarts_epoch1 :
  map (fun e : ev_x => snd e) (filter (fun e : ev_x => fst (fst e) =? 8) (fst (fst (nth 0 (ref_epochs_x xx_pol ex_vals 1 xx_Ss) ([], [], None))))) =
  [Some (0, 1); Some (0, 1); Some (0, 1); Some (1, 1); Some (0, 2); Some (0, 2); Some (0, 2)].
Proof. vm_compute. reflexivity. Qed.
