(* Round 2: every operation of model/AbftRun.v preserves the instance invariant J. *)
From Coq Require Import NArith ZArith List Lia Bool ZifyBool ZifyN ZifyNat.
From LV Require Import model.VecIndex spec.FcSpec model.Abft model.AbftRun
  proofs.FcSpecFacts proofs.VecInv proofs.VecStep proofs.VecMain
  proofs.AbftStruct proofs.AbftFrame proofs.AbftBuild proofs.AbftSeal proofs.AbftProcess proofs.AbftChain
  proofs.AbftInvLemmas proofs.AbftInv.
Import ListNotations.
Local Open Scope N_scope.

Definition mk_inst (st : lstate) (es : estore) (proc : list N) : inst := {| i_st := st; i_es := es; i_proc := proc |}.

Lemma mem_true_iff x l : mem x l = true <-> In x l.
Proof.
  unfold mem. rewrite existsb_exists. split.
  - intros [y [Hy E]]. apply N.eqb_eq in E. subst. exact Hy.
  - intros H. exists x. split; auto. apply N.eqb_refl.
Qed.
Lemma mem_false_iff x l : mem x l = false <-> ~ In x l.
Proof. rewrite <- mem_true_iff. destruct (mem x l); split; congruence. Qed.

Lemma self_parent_in_parents e sp : a_self_parent e = Some sp -> In sp (a_parents e).
Proof.
  unfold a_self_parent. destruct (a_seq e <=? 1); [discriminate|]. destruct (a_parents e); [discriminate|].
  intros H; inversion H; subst. left. reflexivity.
Qed.

Lemma J_reset st1 ep nv es : NoDup (v_ids nv) -> J (mk_inst (reset st1 ep nv) es []).
Proof.
  intros ND. constructor; cbn [i_st i_es i_proc mk_inst reset l_vals l_idx l_roots].
  - apply vinv_init.
  - exact ND.
  - intros id. split; [intros [] | intros [ev H]; unfold evt in H; cbn in H; discriminate].
  - intros id [].
  - intros r. split; [intros [] | intros [e [[] _]]].
Qed.

(* the invariant only looks at the stored events of accepted ids *)
Lemma J_es_ext st es es' proc : (forall x, In x proc -> get_event es' x = get_event es x) ->
  J (mk_inst st es proc) -> J (mk_inst st es' proc).
Proof.
  intros Hext [A B C D E]. cbn [i_st i_es i_proc mk_inst] in *.
  assert (Hspf : forall e, In (a_id e) proc -> get_event es (a_id e) = Some e -> spf_in es' e = spf_in es e).
  { intros e Hin Hg. unfold spf_in. destruct (a_self_parent e) as [sp|] eqn:SP; auto.
    destruct (D _ Hin) as [e' [G' [_ [_ [_ Hp]]]]]. rewrite Hg in G'. inversion G'; subst e'.
    rewrite Hext; auto. apply Hp. apply self_parent_in_parents. exact SP. }
  constructor; cbn [i_st i_es i_proc mk_inst]; auto.
  - intros id Hin. destruct (D id Hin) as [e [G R]]. exists e. rewrite Hext; auto.
  - intros r. rewrite E. split; intros [e [Hin [Hg Hs]]]; exists e; (split; [exact Hin|]).
    + split; [rewrite Hext; auto|]. unfold slot_of in *. rewrite Hspf; auto.
    + rewrite Hext in Hg by exact Hin. split; [exact Hg|]. unfold slot_of in *. rewrite <- Hspf; auto.
Qed.

Lemma J_fields st st' es proc :
  l_vals st' = l_vals st -> l_idx st' = l_idx st -> l_roots st' = l_roots st ->
  J (mk_inst st es proc) -> J (mk_inst st' es proc).
Proof.
  intros V X R [A B C D E]. cbn [i_st i_es i_proc mk_inst] in *.
  constructor; cbn [i_st i_es i_proc mk_inst]; rewrite ?V, ?X, ?R; auto.
Qed.

Lemma es_remove_other id es x : x <> id -> get_event (es_remove id es) x = get_event es x.
Proof.
  intros H. unfold get_event, es_remove. induction es as [|[k e] t IH]; cbn [filter alookup fst]; auto.
  destruct (k =? id) eqn:E; cbn [negb alookup].
  - apply N.eqb_eq in E. subst. replace (x =? id) with false by lia. exact IH.
  - destruct (x =? k); auto.
Qed.

Section InvStep.
Variable cap : nat.
Variable pol : policy.
Variable smp : N -> option (list N).

Lemma policy_nodup a1 a2 a3 a4 a5 nv : policy_fn pol a1 a2 a3 a4 a5 = Some nv -> NoDup (v_ids nv).
Proof. unfold policy_fn. destruct (find _ pol); intros H; inversion H; subst. apply mk_vals_nodup. Qed.

(* eventcheck / parents-first: the event is well-formed for the index (hypothesis of C05) *)
Definition op_wf (i : inst) (o : op) : Prop :=
  match o with
  | OpP e => guard i e true = None ->
             wf_new (length (l_vals (i_st i))) (l_idx (i_st i)) (vev (l_vals (i_st i)) e)
  | _ => True end.

Lemma guard_none i e : guard i e true = None ->
  ~ In (a_id e) (i_proc i) /\ a_epoch e = l_epoch (i_st i) /\
  (forall p, In p (a_parents e) -> In p (i_proc i)) /\ v_exists (l_vals (i_st i)) (a_creator e) = true.
Proof.
  unfold guard. cbn [andb].
  destruct (mem (a_id e) (i_proc i)) eqn:M; [discriminate|].
  destruct (a_epoch e =? l_epoch (i_st i)) eqn:Ep; cbn [negb]; [|discriminate].
  destruct (forallb (fun p => mem p (i_proc i)) (a_parents e)) eqn:F; cbn [negb]; [|discriminate].
  destruct (v_exists (l_vals (i_st i)) (a_creator e)) eqn:X; cbn [negb]; [|discriminate].
  intros _. split; [apply mem_false_iff; exact M|]. split; [apply N.eqb_eq; exact Ep|]. split; auto.
  intros p Hp. rewrite forallb_forall in F. apply mem_true_iff. apply F. exact Hp.
Qed.

(* an accepted event (with or without a seal) *)
Lemma J_accept i e s' spf c1 bl st' r2 :
  J i -> elinv (i_st i) -> guard i e true = None ->
  wf_new (length (l_vals (i_st i))) (l_idx (i_st i)) (vev (l_vals (i_st i)) e) ->
  add (l_idx (i_st i)) (vev (l_vals (i_st i)) e) = Some s' ->
  spf_of (aput (a_id e) e (i_es i)) e = Ok spf -> spf <= a_frame e -> 1 <= a_frame e ->
  handle_election cap (policy_fn pol) (S (S (N.to_nat (a_frame e - spf)))) (aput (a_id e) e (i_es i))
    (if spf =? a_frame e then set_fcc (set_idx (i_st i) s') c1 else add_roots (set_fcc (set_idx (i_st i) s') c1) spf e)
    e (spf + 1) [] = (r2, bl, st') ->
  J (mk_inst st' (aput (a_id e) e (i_es i)) (if sealed_in bl then [] else a_id e :: i_proc i)).
Proof.
  intros HJ HI Hg Hwf Hadd Hspf Hle Hpos HE.
  set (es1 := aput (a_id e) e (i_es i)) in *.
  set (st2 := if spf =? a_frame e then set_fcc (set_idx (i_st i) s') c1 else add_roots (set_fcc (set_idx (i_st i) s') c1) spf e) in *.
  destruct (guard_none i e Hg) as (Gn & Gep & Gp & Gc).
  pose proof HJ as [A B C D E].
  destruct (add_preserves _ _ _ A Hwf) as (s'' & Hadd' & I' & Hevs). rewrite Hadd in Hadd'. inversion Hadd'; subst s''. clear Hadd'.
  assert (F2 : l_ldf st2 = l_ldf (i_st i) /\ l_el st2 = l_el (i_st i) /\ l_vals st2 = l_vals (i_st i) /\ l_idx st2 = s').
  { unfold st2. destruct (spf =? a_frame e); cbn; auto. }
  destruct F2 as (L2 & El2 & V2 & X2).
  assert (I2 : elinv st2) by (unfold elinv in *; congruence).
  pose proof (handle_election_post cap (policy_fn pol) es1 e _ _ _ _ _ _ I2 HE) as [Fr [I3 P]].
  change (sealed_in bl) with (sealed_last bl).
  destruct (sealed_last bl) eqn:SL.
  - pose proof (handle_election_chain cap (policy_fn pol) es1 e _ _ _ _ _ _ I2 HE) as CH.
    destruct (chain_sealed_reset_eb _ _ _ _ _ CH SL) as (st1 & ep & nv & a1 & a2 & a3 & a4 & a5 & -> & Hnv).
    apply J_reset. eapply policy_nodup; eauto.
  - destruct P as (P1 & P2 & P3 & P4 & P5 & P6).
    assert (Hget_old : forall x, In x (i_proc i) -> get_event es1 x = get_event (i_es i) x).
    { intros x Hx. unfold es1, get_event, aput. cbn [alookup]. destruct (x =? a_id e) eqn:Ex; auto.
      apply N.eqb_eq in Ex. rewrite Ex in Hx. elim (Gn Hx). }
    assert (Hget_new : get_event es1 (a_id e) = Some e).
    { unfold es1, get_event, aput. cbn [alookup]. rewrite N.eqb_refl. reflexivity. }
    assert (Hspf_old : forall e0, In (a_id e0) (i_proc i) -> get_event (i_es i) (a_id e0) = Some e0 -> spf_in es1 e0 = spf_in (i_es i) e0).
    { intros e0 Hin Hg0. unfold spf_in. destruct (a_self_parent e0) as [sp|] eqn:SP; auto.
      destruct (D _ Hin) as [e' [G' [_ [_ [_ Hp]]]]]. rewrite Hg0 in G'. inversion G'; subst e'.
      rewrite Hget_old; auto. apply Hp. apply self_parent_in_parents. exact SP. }
    constructor; cbn [i_st i_es i_proc mk_inst].
    + rewrite P3, V2, P5, X2. exact I'.
    + rewrite P3, V2. exact B.
    + intros id. rewrite P5, X2. unfold evt. rewrite Hevs. cbn [alookup eid vev].
      destruct (id =? a_id e) eqn:Ex.
      * apply N.eqb_eq in Ex. rewrite Ex. split; [eauto | left; reflexivity].
      * rewrite <- (C id : In id (i_proc i) <-> exists ev, evt _ id ev). unfold evt. split; [intros [H|H]; [lia | exact H] | right; exact H].
    + intros id [<-|Hin].
      * exists e. rewrite P3, V2. repeat split; auto. intros p Hp. right. apply Gp. exact Hp.
      * destruct (D id Hin) as [e0 (G0 & G1 & G2 & G3 & G4)]. exists e0. rewrite Hget_old, P3, V2; auto.
        repeat split; auto. intros p Hp. right. apply G4. exact Hp.
    + intros r. rewrite P4.
      assert (Hnew : spf_in es1 e = spf) by (apply spf_of_in; exact Hspf).
      assert (R2 : In r (l_roots st2) <-> In r (l_roots (i_st i)) \/ exists g, spf < g <= a_frame e /\ r = (g, a_creator e, a_id e)).
      { unfold st2. destruct (spf =? a_frame e) eqn:Q.
        - apply N.eqb_eq in Q. cbn [l_roots set_fcc set_idx]. split; [auto | intros [H|[g [H _]]]; [auto | lia]].
        - rewrite add_roots_iff by exact Hle. cbn [l_roots set_fcc set_idx]. reflexivity. }
      rewrite R2, E. split.
      * intros [[e0 (Hin & Hg0 & Hs)]|[g [Hg1 ->]]].
        -- exists e0. split; [right; exact Hin|]. split; [rewrite Hget_old; auto|]. unfold slot_of in *. rewrite Hspf_old; auto.
        -- exists e. split; [left; reflexivity|]. split; [exact Hget_new|]. unfold slot_of, r_frame, r_val, r_id. cbn. rewrite Hnew. auto.
      * intros [e0 (Hin & Hg0 & Hs)]. destruct Hin as [Heq|Hin].
        -- rewrite <- Heq in Hg0. rewrite Hget_new in Hg0. inversion Hg0; subst e0. right.
           unfold slot_of in Hs. rewrite Hnew in Hs. destruct Hs as (S1 & S2 & S3). exists (r_frame r). split; auto.
           destruct r as [[g vv] ii]. unfold r_frame, r_val, r_id in *. cbn [fst snd] in *. rewrite S2, S3. reflexivity.
        -- left. rewrite Hget_old in Hg0 by exact Hin. exists e0. split; auto. split; auto. unfold slot_of in *. rewrite <- Hspf_old; auto.
Qed.

Theorem step_J i o : J i -> elinv (i_st i) -> op_wf i o ->
  snd (step cap pol smp i o) = false -> J (snd (fst (step cap pol smp i o))).
Proof.
  intros HJ HI Hwf. destruct o as [e|e| |ep raw|id|f|a b|]; cbn [step op_wf] in *.
  - destruct (guard i e true) as [w|] eqn:G; cbn [fst snd]; [auto|].
    specialize (Hwf eq_refl).
    destruct (process cap (policy_fn pol) (aput (a_id e) e (i_es i)) (i_st i) e) as [[r bl] st'] eqn:E.
    destruct r as [u|x]; cbn [fst snd].
    + intros _. destruct (process_ok_shape cap _ _ _ _ _ _ _ E) as (s' & spf & c1 & Hadd & Hspf & Hle & Hpos & r2 & HE).
      cbn zeta in HE. eapply (J_accept i e s' spf c1 bl st' r2); eauto.
    + intros Hd. destruct x; cbn in Hd; try discriminate.
      destruct (process_early_exit cap _ _ _ _ _ _ _ E eq_refl) as [-> [c' ->]].
      destruct (guard_none i e G) as (Gn & _).
      apply (J_es_ext (set_fcc (i_st i) c') (i_es i)).
      * intros x Hx. apply es_remove_other. intros ->. exact (Gn Hx).
      * apply (J_fields (i_st i)); auto. destruct i; exact HJ.
  - destruct (guard i e false); cbn [fst snd]; [auto|].
    destruct (build_with_shape cap smp (i_es i) (i_st i) e) as [c' Hsh].
    destruct (build_with cap smp (i_es i) (i_st i) e) as [r st']. cbn [snd] in Hsh. subst st'. cbn [fst snd].
    intros _. apply (J_fields (i_st i)); auto. destruct i; exact HJ.
  - destruct (bootstrap cap (policy_fn pol) (i_es i) (persist (i_st i))) as [[r bl] st'] eqn:E.
    destruct r as [u|x]; cbn [fst snd]; [|discriminate]. intros _.
    unfold bootstrap in E.
    match type of E with bootstrap_election _ _ _ _ ?x0 _ = _ => set (st0 := x0) in * end.
    assert (I0 : elinv st0) by (unfold elinv, st0; cbn; reflexivity).
    destruct (bootstrap_election_post cap (policy_fn pol) (i_es i) _ _ _ _ _ I0 E) as [[Fr [I3 P]] _].
    change (sealed_in bl) with (sealed_last bl).
    destruct (sealed_last bl) eqn:SL.
    + pose proof (bootstrap_election_chain cap (policy_fn pol) (i_es i) _ _ _ _ _ I0 E) as CH.
      destruct (chain_sealed_reset_eb _ _ _ _ _ CH SL) as (st1 & ep & nv & a1 & a2 & a3 & a4 & a5 & -> & Hnv).
      apply J_reset. eapply policy_nodup; eauto.
    + destruct P as (P1 & P2 & P3 & P4 & P5 & P6). cbn [l_vals l_idx l_roots st0 persist p_vals p_idx p_roots] in *.
      apply (J_fields (i_st i)); auto. destruct i; exact HJ.
  - cbn [fst snd]. intros _. apply J_reset. apply mk_vals_nodup.
  - destruct (mem id (i_proc i)); cbn [fst snd]; auto.
  - cbn [fst snd]. auto.
  - destruct (mem a (i_proc i) && mem b (i_proc i)); cbn [fst snd]; [|auto].
    unfold fc_cached. destruct (cache_get (a, b) (l_fcc (i_st i))); cbn [fst snd]; intros _;
      (apply (J_fields (i_st i)); auto; destruct i; exact HJ).
  - cbn [fst snd]. auto.
Qed.

End InvStep.
