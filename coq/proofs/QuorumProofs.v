(* C20: the weighted median computed by QuorumIndexer.recacheState / wmedian.Of is the quorum
   median of the property text, for EVERY descending arrangement of the row (sort.Slice is not
   stable); it never panics for a non-empty validator set; the metric is the wrapped sum; the
   matrix after any history holds the last processed observation per creator. *)
From Coq Require Import List Arith NArith ZArith Bool Lia Permutation Sorted.
From Coq Require Import ZifyBool ZifyNat ZifyN.
From LV Require Import model.VecIndex model.QuorumIdx spec.QuorumSpec.
Import ListNotations.
Open Scope N_scope.
Ltac Zify.zify_post_hook ::= Z.div_mod_to_equations.

(* ---------- sums ---------- *)
Definition sumN (l : list N) : N := fold_right N.add 0 l.
Lemma fold_left_add_sumN l a : fold_left N.add l a = a + sumN l.
Proof. revert a; induction l as [|x l IH]; intros a; cbn [fold_left sumN fold_right]; [lia|]. rewrite IH. unfold sumN. lia. Qed.

(* weight of the pairs (seq, weight) whose seq is at least s *)
Definition wge (l : list wseq) (s : N) : N := sumN (map (fun p => if s <=? fst p then snd p else 0) l).
Definition wtotal (l : list wseq) : N := sumN (map snd l).

Lemma weight_ge_wge ws obs s : weight_ge ws obs s = wge (combine obs ws) s.
Proof.
  unfold weight_ge, wsum, wge. rewrite fold_left_add_sumN. rewrite N.add_0_l.
  revert obs; induction ws as [|w ws IH]; intros [|o obs]; cbn [map combine sumN fold_right fst snd]; try reflexivity.
  f_equal. apply IH.
Qed.

Lemma wge_perm l l' s : Permutation l l' -> wge l s = wge l' s.
Proof.
  intros H; induction H; unfold wge in *; cbn [map sumN fold_right] in *; try lia.
  unfold sumN in *. lia.
Qed.
Lemma wtotal_perm l l' : Permutation l l' -> wtotal l = wtotal l'.
Proof.
  intros H; induction H; unfold wtotal in *; cbn [map sumN fold_right] in *; try lia.
  unfold sumN in *. lia.
Qed.
Lemma wge_le_total l s : wge l s <= wtotal l.
Proof.
  induction l as [|p l IH]; unfold wge, wtotal in *; cbn [map sumN fold_right]; [lia|].
  unfold sumN in *. destruct (s <=? fst p); lia.
Qed.
Lemma wge_0 l : wge l 0 = wtotal l.
Proof.
  induction l as [|p l IH]; unfold wge, wtotal in *; cbn [map sumN fold_right]; [reflexivity|].
  unfold sumN in *. rewrite IH. destruct (N.leb_spec 0 (fst p)); [reflexivity|lia].
Qed.
Lemma wge_antitone l s t : s <= t -> wge l t <= wge l s.
Proof.
  intros H. induction l as [|p l IH]; unfold wge in *; cbn [map sumN fold_right]; [lia|].
  unfold sumN in *. destruct (N.leb_spec t (fst p)), (N.leb_spec s (fst p)); lia.
Qed.

(* ---------- descending arrangements ---------- *)
Definition desc (l : list wseq) : Prop := StronglySorted (fun a b => fst b <= fst a) l.

Lemma insert_desc_perm p l : Permutation (p :: l) (insert_desc p l).
Proof.
  induction l as [|h t IH]; cbn [insert_desc]; [apply Permutation_refl|].
  destruct (fst h <? fst p); [apply Permutation_refl|].
  eapply Permutation_trans; [apply perm_swap|]. apply perm_skip, IH.
Qed.
Lemma sort_desc_perm l : Permutation l (sort_desc l).
Proof.
  induction l as [|p l IH]; cbn [sort_desc fold_right]; [apply Permutation_refl|].
  eapply Permutation_trans; [apply perm_skip, IH|]. apply insert_desc_perm.
Qed.
Lemma insert_desc_sorted p l : desc l -> desc (insert_desc p l).
Proof.
  intros H; induction H as [|h t Ht IH Hall]; cbn [insert_desc].
  - constructor; [constructor|constructor].
  - destruct (N.ltb_spec (fst h) (fst p)) as [Hlt|Hge].
    + constructor; [constructor; assumption|].
      constructor; [lia|]. rewrite Forall_forall in *. intros x Hx. specialize (Hall x Hx). lia.
    + constructor; [exact IH|].
      rewrite Forall_forall in *. intros x Hx.
      apply (Permutation_in _ (Permutation_sym (insert_desc_perm p t))) in Hx.
      destruct Hx as [<-|Hx]; [lia|apply Hall, Hx].
Qed.
Lemma sort_desc_sorted l : desc (sort_desc l).
Proof.
  induction l as [|p l IH]; cbn [sort_desc fold_right]; [constructor|]. apply insert_desc_sorted, IH.
Qed.

(* ---------- wmedian.Of on a descending list ---------- *)
Lemma wge_below_head l s : desc l -> (forall p, In p l -> fst p < s) -> wge l s = 0.
Proof.
  intros _ H. induction l as [|p l IH]; unfold wge in *; cbn [map sumN fold_right]; [reflexivity|].
  unfold sumN in *. rewrite IH by (intros; apply H; right; assumption).
  specialize (H p (or_introl eq_refl)). destruct (N.leb_spec s (fst p)); lia.
Qed.

Lemma wmedian_from_spec l : desc l -> forall cur stop p,
  cur < stop -> wmedian_from cur l stop = Some p ->
  In p l /\ stop <= cur + wge l (fst p) /\ (forall s, fst p < s -> cur + wge l s < stop).
Proof.
  intros Hd; induction Hd as [|h t Ht IH Hall]; intros cur stop p Hcur Hm; cbn [wmedian_from] in Hm; [discriminate|].
  rewrite Forall_forall in Hall.
  destruct (N.leb_spec stop (cur + snd h)) as [Hreach|Hnot].
  - injection Hm as <-. split; [left; reflexivity|]. split.
    + unfold wge; cbn [map sumN fold_right]. rewrite N.leb_refl. lia.
    + intros s Hs. unfold wge; cbn [map sumN fold_right].
      destruct (N.leb_spec s (fst h)); [lia|].
      fold (sumN (map (fun p => if s <=? fst p then snd p else 0) t)). fold (wge t s).
      rewrite wge_below_head; [lia|exact Ht|]. intros x Hx. specialize (Hall x Hx). lia.
  - destruct (IH _ _ _ Hnot Hm) as (Hin & Hge & Hlt).
    split; [right; exact Hin|]. split.
    + unfold wge in *; cbn [map sumN fold_right].
      specialize (Hall p Hin). destruct (N.leb_spec (fst p) (fst h)); [|lia]. unfold sumN in *. lia.
    + intros s Hs. specialize (Hlt s Hs). unfold wge in *; cbn [map sumN fold_right].
      unfold sumN in *. destruct (N.leb_spec s (fst h)); lia.
Qed.

Lemma wmedian_from_total l cur stop : stop <= cur + wtotal l -> cur < stop -> exists p, wmedian_from cur l stop = Some p.
Proof.
  revert cur; induction l as [|h t IH]; intros cur Hs Hc; unfold wtotal in *; cbn [map sumN fold_right wmedian_from] in *; [lia|].
  destruct (N.leb_spec stop (cur + snd h)); [eexists; reflexivity|].
  apply IH; unfold sumN in *; lia.
Qed.

(* the property's predicate over pairs *)
Definition is_qmedian (l : list wseq) (q m : N) : Prop := q <= wge l m /\ forall s, q <= wge l s -> s <= m.
Lemma is_qmedian_unique l q m m' : is_qmedian l q m -> is_qmedian l q m' -> m = m'.
Proof. intros [A B] [A' B']. specialize (B _ A'). specialize (B' _ A). lia. Qed.

Theorem wmedian_of_desc l q : desc l -> 0 < q -> q <= wtotal l ->
  exists p, wmedian_of l q = Some p /\ In p l /\ is_qmedian l q (fst p).
Proof.
  intros Hd Hq Ht. unfold wmedian_of.
  destruct (wmedian_from_total l 0 q) as [p Hp]; [lia|lia|].
  exists p. split; [exact Hp|].
  destruct (wmedian_from_spec l Hd 0 q p Hq Hp) as (Hin & Hge & Hlt).
  split; [exact Hin|]. split; [lia|].
  intros s Hs. destruct (N.le_gt_cases s (fst p)) as [|Hgt]; [assumption|].
  specialize (Hlt s Hgt). lia.
Qed.

(* independence of the arrangement: any two descending permutations give the same median seq *)
Theorem wmedian_arrangement_independent l1 l2 q : Permutation l1 l2 -> desc l1 -> desc l2 ->
  0 < q -> q <= wtotal l1 ->
  exists p1 p2, wmedian_of l1 q = Some p1 /\ wmedian_of l2 q = Some p2 /\ fst p1 = fst p2.
Proof.
  intros Hp H1 H2 Hq Ht.
  destruct (wmedian_of_desc l1 q H1 Hq Ht) as (p1 & E1 & _ & M1).
  destruct (wmedian_of_desc l2 q H2 Hq) as (p2 & E2 & _ & M2); [rewrite <- (wtotal_perm _ _ Hp); exact Ht|].
  exists p1, p2. split; [exact E1|]. split; [exact E2|].
  apply (is_qmedian_unique l1 q); [exact M1|].
  destruct M2 as [A B]. split.
  - rewrite (wge_perm _ _ _ Hp). exact A.
  - intros s Hs. apply B. rewrite <- (wge_perm _ _ _ Hp). exact Hs.
Qed.

(* ---------- the model's row median ---------- *)
Lemma is_quorum_median_pairs ws q obs m : is_quorum_median ws q obs m <-> is_qmedian (combine obs ws) q m.
Proof.
  unfold is_quorum_median, is_qmedian. rewrite weight_ge_wge.
  split; intros [A B]; (split; [exact A|]); intros s Hs; apply B; [rewrite weight_ge_wge|rewrite <- weight_ge_wge]; exact Hs.
Qed.

Theorem row_median_correct ws q row : 0 < q -> q <= wtotal (combine row ws) ->
  exists m, row_median ws q row = Some m /\ In m row /\ is_quorum_median ws q row m.
Proof.
  intros Hq Ht. unfold row_median.
  pose proof (sort_desc_perm (combine row ws)) as Hp.
  destruct (wmedian_of_desc (sort_desc (combine row ws)) q (sort_desc_sorted _) Hq) as (p & E & Hin & M).
  { rewrite <- (wtotal_perm _ _ Hp). exact Ht. }
  rewrite E. exists (fst p). split; [reflexivity|]. split.
  - apply (Permutation_in _ (Permutation_sym Hp)) in Hin. destruct p as [a b]. apply in_combine_l in Hin. exact Hin.
  - apply is_quorum_median_pairs. destruct M as [A B]. split.
    + rewrite (wge_perm _ _ _ Hp). exact A.
    + intros s Hs. apply B. rewrite <- (wge_perm _ _ _ Hp). exact Hs.
Qed.

(* any other descending arrangement the real sort.Slice may produce yields the same value *)
Theorem row_median_any_sort ws q row l : 0 < q -> q <= wtotal (combine row ws) ->
  Permutation l (combine row ws) -> desc l ->
  exists p, wmedian_of l q = Some p /\ row_median ws q row = Some (fst p).
Proof.
  intros Hq Ht Hp Hd.
  destruct (wmedian_arrangement_independent l (sort_desc (combine row ws)) q) as (p1 & p2 & E1 & E2 & Hf).
  - eapply Permutation_trans; [exact Hp|apply sort_desc_perm].
  - exact Hd.
  - apply sort_desc_sorted.
  - exact Hq.
  - rewrite (wtotal_perm _ _ Hp). exact Ht.
  - exists p1. split; [exact E1|]. unfold row_median. rewrite E2, Hf. reflexivity.
Qed.

(* the executable specification computes the same number *)
Lemma fold_max_ge l a x : In x l -> x <= fold_left N.max l a.
Proof.
  assert (Hmono : forall l' b, b <= fold_left N.max l' b).
  { intros l'; induction l' as [|z l' IH]; intros b; cbn [fold_left]; [lia|]. specialize (IH (N.max b z)). lia. }
  revert a; induction l as [|y l IH]; intros a Hin; [destruct Hin|].
  destruct Hin as [->|H]; cbn [fold_left].
  - specialize (Hmono l (N.max a x)). lia.
  - apply IH, H.
Qed.
Lemma fold_max_in l a : fold_left N.max l a = a \/ In (fold_left N.max l a) l.
Proof.
  revert a; induction l as [|y l IH]; intros a; cbn [fold_left]; [left; reflexivity|].
  destruct (IH (N.max a y)) as [E|H]; [|right; right; exact H].
  rewrite E. destruct (N.max_spec a y) as [[_ ->]|[_ ->]]; [right; left; reflexivity|left; reflexivity].
Qed.

Theorem median_spec_correct ws q obs m : is_quorum_median ws q obs m -> In m obs -> median_spec ws q obs = m.
Proof.
  intros [A B] Hin. unfold median_spec.
  set (fl := filter (fun s => q <=? weight_ge ws obs s) obs).
  assert (Hm : In m fl) by (apply filter_In; split; [exact Hin|apply N.leb_le; exact A]).
  pose proof (fold_max_ge fl 0 m Hm) as Hge.
  destruct (fold_max_in fl 0) as [E|H].
  - lia.
  - apply filter_In in H. destruct H as [_ H]. apply N.leb_le in H. specialize (B _ H). lia.
Qed.

(* ---------- quorum ---------- *)
Lemma total_weight_sumN ws : total_weight ws = sumN ws.
Proof. unfold total_weight. rewrite fold_left_add_sumN. lia. Qed.
Lemma quorum_pos ws : 0 < quorum_of ws.
Proof. unfold quorum_of. lia. Qed.
Lemma quorum_le_total ws : 0 < total_weight ws -> quorum_of ws <= total_weight ws.
Proof. unfold quorum_of. intros H. lia. Qed.
Lemma wtotal_combine_full row ws : length row = length ws -> wtotal (combine row ws) = sumN ws.
Proof.
  revert ws; induction row as [|r row IH]; intros [|w ws] H; cbn in H; try discriminate; unfold wtotal in *; cbn [combine map sumN fold_right snd]; [reflexivity|].
  unfold sumN in *. rewrite IH by lia. reflexivity.
Qed.

(* ---------- the metric ---------- *)
Lemma fold_mod_sum (f : nat -> N) l a :
  fold_left (fun acc v => (acc + f v) mod W64) l (a mod W64) = (a + sumN (map f l)) mod W64.
Proof.
  revert a; induction l as [|x l IH]; intros a; cbn [fold_left map sumN fold_right].
  - f_equal. lia.
  - replace ((a mod W64 + f x) mod W64) with ((a + f x) mod W64).
    + rewrite IH. f_equal. unfold sumN. lia.
    + rewrite N.add_mod_idemp_l by (unfold W64; lia). reflexivity.
Qed.

Lemma nth_map_seq0 {B} (f : nat -> B) n v d : (v < n)%nat -> nth v (map f (List.seq 0 n)) d = f v.
Proof.
  intros H. rewrite (nth_indep _ d (f 0%nat)) by (rewrite map_length, seq_length; exact H).
  rewrite map_nth. rewrite seq_nth by exact H. reflexivity.
Qed.

Theorem metric_sum_is_spec diff med self clock n :
  metric_sum diff med self clock n =
  metric_spec diff med self (map (fun v => seq_of (hb_get clock v)) (List.seq 0 n)) n.
Proof.
  unfold metric_sum, metric_spec. fold W64.
  pose proof (fold_mod_sum (fun v => diff (nth v med 0) (nth v self 0) (seq_of (hb_get clock v)) v) (List.seq 0 n) 0) as H.
  rewrite N.mod_0_l in H by (unfold W64; lia). rewrite H. clear H.
  rewrite fold_left_add_sumN. f_equal. rewrite !N.add_0_l. f_equal.
  apply map_ext_in. intros v Hv. apply in_seq in Hv.
  rewrite nth_map_seq0 by lia. reflexivity.
Qed.

(* ---------- histories ---------- *)
Inductive qop := QP (clock : list hbs) (creator : nat) (self : bool) | QG | QT (clock : list hbs).
Definition qstep diff ws q (st : option qidx) (o : qop) : option qidx :=
  match st with None => None | Some st =>
    match o with
    | QP clock c self => qi_process st clock c self
    | QG => match qi_medians ws q st with Some (_, st') => Some st' | None => None end
    | QT clock => match qi_metric diff ws q st clock with Some (_, st') => Some st' | None => None end
    end end.
Definition qrun diff ws q n (h : list qop) : option qidx := fold_left (qstep diff ws q) h (Some (qi_new n)).

(* what the property text calls "their latest processed events' observation" *)
Definition obs_clock (n : nat) (clock : list hbs) : list N := map (fun v => seq_of (hb_get clock v)) (List.seq 0 n).
Fixpoint last_obs (n : nat) (h : list qop) (c : nat) : list N :=   (* h newest first *)
  match h with [] => repeat 0 n
  | QP clock c' _ :: t => if Nat.eqb c c' then obs_clock n clock else last_obs n t c
  | _ :: t => last_obs n t c end.
Fixpoint last_self (n : nat) (h : list qop) : list N :=
  match h with [] => repeat 0 n
  | QP clock _ true :: _ => obs_clock n clock
  | _ :: t => last_self n t end.
Definition obs_row (n : nat) (h : list qop) (v : nat) : list N := map (fun c => nth v (last_obs n h c) 0) (List.seq 0 n).
Definition creators_ok (n : nat) (h : list qop) : Prop :=
  forall clock c self, In (QP clock c self) h -> (c < n)%nat.

(* ---------- helper lemmas on seq-indexed lists ---------- *)
Lemma upd_nth_map_seq (f : nat -> N) s n c x : (c < n)%nat ->
  upd_nth (map f (List.seq s n)) c x = map (fun i => if Nat.eqb i (s + c) then x else f i) (List.seq s n).
Proof.
  revert s c; induction n as [|n IH]; intros s c H; [lia|].
  cbn [List.seq map]. destruct c as [|c]; cbn [upd_nth].
  - rewrite Nat.add_0_r, Nat.eqb_refl. f_equal.
    apply map_ext_in. intros i Hi. apply in_seq in Hi.
    destruct (Nat.eqb_spec i s); [lia|reflexivity].
  - destruct (Nat.eqb_spec s (s + S c)); [lia|]. f_equal.
    rewrite IH by lia. apply map_ext. intros i.
    replace (S s + c)%nat with (s + S c)%nat by lia. reflexivity.
Qed.
Lemma map_const_seq {A} (a : A) s n : map (fun _ => a) (List.seq s n) = repeat a n.
Proof. revert s; induction n as [|n IH]; intros s; cbn [List.seq map repeat]; [reflexivity|]. f_equal. apply IH. Qed.
Lemma combine_map_seq {A B} (f : nat -> A) (g : nat -> B) s n :
  combine (map f (List.seq s n)) (map g (List.seq s n)) = map (fun v => (f v, g v)) (List.seq s n).
Proof. revert s; induction n as [|n IH]; intros s; cbn [List.seq map combine]; [reflexivity|]. f_equal. apply IH. Qed.
Lemma all_some_map {A B} (f : A -> option B) (g : A -> B) l :
  (forall x, In x l -> f x = Some (g x)) -> all_some (map f l) = Some (map g l).
Proof.
  induction l as [|a l IH]; intros H; cbn [map all_some]; [reflexivity|].
  rewrite (H a (or_introl eq_refl)). rewrite IH by (intros; apply H; right; assumption). reflexivity.
Qed.
Lemma obs_clock_length n clock : length (obs_clock n clock) = n.
Proof. unfold obs_clock. rewrite map_length, seq_length. reflexivity. Qed.
Lemma last_obs_length n h c : length (last_obs n h c) = n.
Proof.
  induction h as [|o h IH]; cbn [last_obs]; [apply repeat_length|].
  destruct o as [clock c' self| |]; try exact IH. destruct (Nat.eqb c c'); [apply obs_clock_length|exact IH].
Qed.
Lemma obs_row_length n h v : length (obs_row n h v) = n.
Proof. unfold obs_row. rewrite map_length, seq_length. reflexivity. Qed.

(* ---------- one row: the model's median is the specification's ---------- *)
Theorem row_median_is_spec ws row : length row = length ws -> 0 < total_weight ws ->
  row_median ws (quorum_of ws) row = Some (median_spec ws (quorum_of ws) row) /\
  is_quorum_median ws (quorum_of ws) row (median_spec ws (quorum_of ws) row).
Proof.
  intros Hl Ht.
  destruct (row_median_correct ws (quorum_of ws) row (quorum_pos ws)) as (m & E & Hin & M).
  { rewrite wtotal_combine_full by exact Hl. rewrite <- total_weight_sumN. apply quorum_le_total, Ht. }
  rewrite (median_spec_correct ws _ row m M Hin). split; [exact E|exact M].
Qed.

(* ---------- invariant of the indexer over histories (hrev: newest operation first) ---------- *)
Definition spec_medians ws n hrev : list N :=
  map (fun v => median_spec ws (quorum_of ws) (obs_row n hrev v)) (List.seq 0 n).
Record qinv (ws : list N) (n : nat) (hrev : list qop) (st : qidx) : Prop := {
  qi_n : qn st = n;
  qi_mat : qmat st = map (obs_row n hrev) (List.seq 0 n);
  qi_self : qself st = last_self n hrev;
  qi_med : qdirty st = false -> qmed st = spec_medians ws n hrev }.

Lemma qinv_init ws n : qinv ws n [] (qi_new n).
Proof.
  constructor; cbn [qi_new qn qmat qself qdirty qmed last_self]; try reflexivity; [|discriminate].
  unfold obs_row. cbn [last_obs]. symmetry.
  erewrite map_ext; [apply map_const_seq|]. intros v. cbn beta.
  erewrite map_ext; [apply map_const_seq|]. intros c. cbn beta.
  destruct (Nat.lt_ge_cases v n); [apply nth_repeat|]. apply nth_overflow. rewrite repeat_length. lia.
Qed.

Lemma obs_row_ignores n o hrev v : (forall cl c s, o <> QP cl c s) -> obs_row n (o :: hrev) v = obs_row n hrev v.
Proof. intros H. unfold obs_row. apply map_ext. intros c. destruct o; cbn [last_obs]; try reflexivity. exfalso; eapply H; reflexivity. Qed.
Lemma last_self_ignores n o hrev : (forall cl c s, o <> QP cl c s) -> last_self n (o :: hrev) = last_self n hrev.
Proof. intros H. destruct o; cbn [last_self]; try reflexivity. exfalso; eapply H; reflexivity. Qed.

Lemma qi_fresh_inv ws n hrev st o : length ws = n -> 0 < total_weight ws ->
  (forall cl c s, o <> QP cl c s) -> qinv ws n hrev st ->
  exists st', qi_fresh ws (quorum_of ws) st = Some st' /\ qinv ws n (o :: hrev) st' /\
              qmed st' = spec_medians ws n hrev /\ qself st' = qself st /\ qn st' = n.
Proof.
  intros Hl Ht Ho [Hn Hm Hs Hd].
  assert (Hrow : forall v, obs_row n (o :: hrev) v = obs_row n hrev v) by (intros; apply obs_row_ignores, Ho).
  assert (Hmed : spec_medians ws n (o :: hrev) = spec_medians ws n hrev).
  { unfold spec_medians. apply map_ext. intros v. rewrite Hrow. reflexivity. }
  unfold qi_fresh. destruct (qdirty st) eqn:Hdirty.
  - unfold qi_recache. rewrite Hm, map_map.
    rewrite (all_some_map _ (fun v => median_spec ws (quorum_of ws) (obs_row n hrev v))).
    + eexists. split; [reflexivity|]. cbn [qmed qself qn]. split; [|auto].
      constructor; cbn [qn qmat qself qdirty qmed]; auto.
      * apply map_ext. intros v. symmetry. apply Hrow.
      * rewrite last_self_ignores by exact Ho. exact Hs.
    + intros v _. apply row_median_is_spec; [rewrite obs_row_length; lia|exact Ht].
  - exists st. split; [reflexivity|]. split; [|auto].
    constructor; auto.
    + rewrite Hm. apply map_ext. intros v. symmetry. apply Hrow.
    + rewrite last_self_ignores by exact Ho. exact Hs.
    + intros _. rewrite Hmed. apply Hd. reflexivity.
Qed.

Lemma qi_process_inv ws n hrev st clock c self : (c < n)%nat -> qinv ws n hrev st ->
  exists st', qi_process st clock c self = Some st' /\ qinv ws n (QP clock c self :: hrev) st'.
Proof.
  intros Hc [Hn Hm Hs Hd]. unfold qi_process. rewrite Hn.
  destruct (Nat.leb_spec n c); [lia|]. cbn [andb].
  eexists. split; [reflexivity|].
  constructor; cbn [qn qmat qself qdirty qmed]; try reflexivity; [| |discriminate].
  - rewrite Hm. fold (obs_clock n clock). unfold obs_clock at 1.
    rewrite combine_map_seq, map_map. apply map_ext_in. intros v Hv. apply in_seq in Hv. cbn [fst snd].
    unfold obs_row. rewrite upd_nth_map_seq by exact Hc. apply map_ext. intros c'. cbn [last_obs Nat.add].
    destruct (Nat.eqb c' c); [|reflexivity].
    unfold obs_clock. rewrite nth_map_seq0 by lia. reflexivity.
  - cbn [last_self]. destruct self; [reflexivity|exact Hs].
Qed.

Theorem qrun_inv diff ws n : length ws = n -> 0 < total_weight ws -> forall h hrev st,
  creators_ok n h -> qinv ws n hrev st ->
  exists st', fold_left (qstep diff ws (quorum_of ws)) h (Some st) = Some st' /\ qinv ws n (rev h ++ hrev) st'.
Proof.
  intros Hl Ht. induction h as [|o h IH]; intros hrev st Hc Hi; cbn [fold_left rev app].
  - exists st. split; [reflexivity|exact Hi].
  - assert (Hc' : creators_ok n h) by (intros cl c s Hin; eapply Hc; right; exact Hin).
    assert (Hstep : exists st1, qstep diff ws (quorum_of ws) (Some st) o = Some st1 /\ qinv ws n (o :: hrev) st1).
    { destruct o as [clock c self| |clock]; cbn [qstep].
      - apply qi_process_inv; [eapply Hc; left; reflexivity|exact Hi].
      - destruct (qi_fresh_inv ws n hrev st QG Hl Ht) as (st1 & E & I1 & _); [discriminate|exact Hi|].
        unfold qi_medians. rewrite E. exists st1. split; [reflexivity|exact I1].
      - destruct (qi_fresh_inv ws n hrev st (QT clock) Hl Ht) as (st1 & E & I1 & _); [discriminate|exact Hi|].
        unfold qi_metric. rewrite E. exists st1. split; [reflexivity|exact I1]. }
    destruct Hstep as (st1 & E1 & I1). rewrite E1.
    destruct (IH (o :: hrev) st1 Hc' I1) as (st' & E' & I'). exists st'. split; [exact E'|].
    rewrite <- app_assoc. exact I'.
Qed.

(* ---------- the C20 statements over all histories ---------- *)
Theorem medians_after_history diff ws n h : length ws = n -> 0 < total_weight ws -> creators_ok n h ->
  exists st meds st', qrun diff ws (quorum_of ws) n h = Some st /\
    qi_medians ws (quorum_of ws) st = Some (meds, st') /\ length meds = n /\
    forall v, (v < n)%nat ->
      is_quorum_median ws (quorum_of ws) (obs_row n (rev h) v) (nth v meds 0) /\
      nth v meds 0 = median_spec ws (quorum_of ws) (obs_row n (rev h) v).
Proof.
  intros Hl Ht Hc. unfold qrun.
  destruct (qrun_inv diff ws n Hl Ht h [] (qi_new n) Hc (qinv_init ws n)) as (st & E & I).
  rewrite app_nil_r in I.
  destruct (qi_fresh_inv ws n (rev h) st QG Hl Ht) as (st' & E' & _ & Hmed & _); [discriminate|exact I|].
  exists st, (qmed st'), st'. split; [exact E|]. unfold qi_medians. rewrite E'. split; [reflexivity|].
  rewrite Hmed. unfold spec_medians. split; [rewrite map_length, seq_length; reflexivity|].
  intros v Hv. rewrite nth_map_seq0 by exact Hv. split; [|reflexivity].
  apply row_median_is_spec; [rewrite obs_row_length; lia|exact Ht].
Qed.

Theorem metric_after_history diff ws n h clock : length ws = n -> 0 < total_weight ws -> creators_ok n h ->
  exists st m st', qrun diff ws (quorum_of ws) n h = Some st /\
    qi_metric diff ws (quorum_of ws) st clock = Some (m, st') /\
    m = metric_spec diff (spec_medians ws n (rev h)) (last_self n (rev h)) (obs_clock n clock) n.
Proof.
  intros Hl Ht Hc. unfold qrun.
  destruct (qrun_inv diff ws n Hl Ht h [] (qi_new n) Hc (qinv_init ws n)) as (st & E & I).
  rewrite app_nil_r in I.
  destruct (qi_fresh_inv ws n (rev h) st QG Hl Ht) as (st' & E' & _ & Hmed & Hself & Hn); [discriminate|exact I|].
  eexists st, _, st'. split; [exact E|]. unfold qi_metric. rewrite E'. split; [reflexivity|].
  rewrite metric_sum_is_spec, Hmed, Hself, Hn. destruct I as [_ _ Hs _]. rewrite Hs. reflexivity.
Qed.

(* the matrix itself: ProcessEvent writes exactly column creator (and self when flagged) *)
Theorem matrix_after_history diff ws n h : length ws = n -> 0 < total_weight ws -> creators_ok n h ->
  exists st, qrun diff ws (quorum_of ws) n h = Some st /\
    qmat st = map (obs_row n (rev h)) (List.seq 0 n) /\ qself st = last_self n (rev h).
Proof.
  intros Hl Ht Hc. unfold qrun.
  destruct (qrun_inv diff ws n Hl Ht h [] (qi_new n) Hc (qinv_init ws n)) as (st & E & I).
  rewrite app_nil_r in I. exists st. destruct I as [_ Hm Hs _]. auto.
Qed.
