(* C15: frame lemmas for the processor model (which fields each function may change), the
   capacity bound of the semaphore, and what `process` adds to the callback log. *)
From Coq Require Import NArith List Bool Lia Arith.
From LV Require Import model.Buffer model.Processor spec.ProcessorSpec.
Import ListNotations.
Local Open Scope N_scope.

(* what the inserter's inner functions leave alone *)
Definition frame (s s' : pst) : Prop :=
  tab s' = tab s /\ queue s' = queue s /\ stopped s' = stopped s
  /\ held_n s' <= held_n s /\ held_s s' <= held_s s.
Lemma frame_refl : forall s, frame s s.
Proof. intros s; unfold frame; repeat split; auto; lia. Qed.
Lemma frame_trans : forall a b c, frame a b -> frame b c -> frame a c.
Proof.
  intros a b c [A1 [A2 [A3 [A4 A5]]]] [B1 [B2 [B3 [B4 B5]]]]. unfold frame.
  repeat split; try congruence; lia.
Qed.

Lemma frame_pemit : forall s o, frame s (pemit s o).
Proof. intros; unfold frame; simpl; repeat split; auto; lia. Qed.
Lemma frame_sem_release : forall s n z, frame s (sem_release s n z).
Proof.
  intros s n z. unfold sem_release, frame.
  destruct ((held_n s <? n) || (held_s s <? z)) eqn:E; simpl; repeat split; auto; try lia.
Qed.
Lemma frame_released_cb : forall s g e err, frame s (released_cb s g e err).
Proof.
  intros. unfold released_cb. eapply frame_trans; [apply frame_sem_release | apply frame_pemit].
Qed.
Lemma frame_set_highest : forall s h, frame s (set_highest s h).
Proof. intros; unfold frame; simpl; repeat split; auto; lia. Qed.
Lemma frame_set_buf : forall s b pu, frame s (set_buf s b pu).
Proof. intros; unfold frame; simpl; repeat split; auto; lia. Qed.
Lemma frame_set_poof : forall s, frame s (set_poof s).
Proof. intros; unfold frame; simpl; repeat split; auto; lia. Qed.
Lemma frame_apply_out : forall s o, frame s (apply_out s o).
Proof.
  intros s o. destruct o; simpl; try apply frame_refl.
  - apply frame_pemit.
  - destruct ok; [eapply frame_trans; [apply frame_pemit | apply frame_set_highest] | apply frame_pemit].
  - apply frame_released_cb.
Qed.
Lemma frame_fold_apply : forall l s, frame s (fold_left apply_out l s).
Proof.
  induction l as [|o l IH]; intros s; simpl; [apply frame_refl|].
  eapply frame_trans; [apply frame_apply_out | apply IH].
Qed.

(* handles: which PHandle entries a log carries, in the log's order *)
Lemma handles_app : forall a b, handles (a ++ b) = handles a ++ handles b.
Proof. intros; unfold handles; apply flat_map_app. Qed.

(* buffer callbacks never produce a PHandle, PDone, ... : only C / P / R *)
Definition inner_out (o : pout) : Prop :=
  match o with PCheck _ _ _ | PProcess _ _ _ | PReleased _ _ _ => True | _ => False end.

Lemma apply_out_log : forall s o, exists new, plog (apply_out s o) = new ++ plog s /\ Forall inner_out new.
Proof.
  intros s o. destruct o; simpl; try (exists []; split; [reflexivity | constructor]).
  - eexists [_]; split; [reflexivity | repeat constructor].
  - destruct ok; simpl; eexists [_]; split; try reflexivity; repeat constructor.
  - unfold released_cb. simpl. exists [PReleased (g_of_cid s c) e err]; split; [|repeat constructor].
    unfold sem_release. destruct ((held_n s <? 1) || (held_s s <? size_of_g s (g_of_cid s c))); reflexivity.
Qed.
Lemma fold_apply_log : forall l s, exists new,
  plog (fold_left apply_out l s) = new ++ plog s /\ Forall inner_out new.
Proof.
  induction l as [|o l IH]; intros s; simpl.
  - exists []; split; [reflexivity | constructor].
  - destruct (apply_out_log s o) as [n1 [E1 F1]]. destruct (IH (apply_out s o)) as [n2 [E2 F2]].
    exists (n2 ++ n1). split; [rewrite E2, E1, app_assoc; reflexivity | apply Forall_app; auto].
Qed.
Lemma handles_inner : forall l, Forall inner_out l -> handles l = [].
Proof.
  induction l as [|o l IH]; intros H; [reflexivity|]. inversion H; subst.
  unfold handles in *. simpl. rewrite IH; auto. destruct o; simpl in *; try contradiction; reflexivity.
Qed.

Section Proc.
  Variable fc fp : list out -> entry -> bool.
  Variable cap_n cap_s lim_n lim_s : N.

  Notation process := (process fc fp lim_n lim_s).
  Notation flush := (flush fc fp lim_n lim_s).
  Notation consume := (consume fc fp lim_n lim_s).
  Notation stop := (stop fc fp).
  Notation enqueue := (enqueue cap_n cap_s).
  Notation pstep_run := (pstep_run fc fp cap_n cap_s lim_n lim_s).
  Notation prun := (prun fc fp cap_n cap_s lim_n lim_s).

  Lemma released_cb_log : forall s g e err,
    plog (released_cb s g e err) = PReleased g e err :: plog s.
  Proof.
    intros. unfold released_cb, sem_release.
    destruct ((held_n s <? 1) || (held_s s <? size_of_g s g)); reflexivity.
  Qed.

  (* process: frame, and its log = inner entries on top of [PHandle g] (+ PHighest) *)
  Lemma process_frame : forall s ev, frame s (fst (process s ev)).
  Proof.
    intros s ev. unfold Processor.process.
    destruct (p_bad ev).
    - cbn [fst]. eapply frame_trans; [apply frame_pemit | apply frame_released_cb].
    - match goal with |- context [if ?c then _ else _] => destruct c end.
      + cbn [fst]. eapply frame_trans; [apply frame_pemit|].
        eapply frame_trans; [apply frame_pemit | apply frame_released_cb].
      + match goal with |- context [if ?c then _ else _] => destruct c end; cbn [fst];
          (eapply frame_trans; [apply frame_pemit|]; eapply frame_trans; [apply frame_pemit|];
           eapply frame_trans; [apply frame_set_buf | apply frame_fold_apply]).
  Qed.

  Lemma process_log : forall s ev, exists new,
    plog (fst (process s ev)) = new ++ plog s /\ handles new = [pg ev]
    /\ Forall (fun o => inner_out o \/ o = PHandle (pg ev) \/ o = PHighest) new.
  Proof.
    intros s ev. unfold Processor.process.
    destruct (p_bad ev).
    - cbn [fst]. rewrite released_cb_log. simpl.
      eexists [_; _]. split; [reflexivity|]. split; [reflexivity|].
      constructor; [left; exact I|]. constructor; [right; left; reflexivity|]. constructor.
    - match goal with |- context [if ?c then _ else _] => destruct c end.
      + cbn [fst]. rewrite released_cb_log. simpl.
        eexists [_; _; _]. split; [reflexivity|]. split; [reflexivity|].
        constructor; [left; exact I|]. constructor; [right; left; reflexivity|].
        constructor; [right; right; reflexivity|]. constructor.
      + set (s0 := pemit (pemit s PHighest) (PHandle (pg ev))).
        set (b1 := push_event fc fp true lim_n lim_s (buf s0) (p_eid ev) (p_pars ev) (p_size ev)).
        destruct (fold_apply_log (delta (log (buf s0)) (log b1)) (set_buf s0 b1 (pushed s0 ++ [pg ev])))
          as [new [E F]].
        assert (R : exists new', plog (fold_left apply_out (delta (log (buf s0)) (log b1))
                                                (set_buf s0 b1 (pushed s0 ++ [pg ev]))) = new' ++ plog s
                                 /\ handles new' = [pg ev]
                                 /\ Forall (fun o => inner_out o \/ o = PHandle (pg ev) \/ o = PHighest) new').
        { exists (new ++ [PHandle (pg ev); PHighest]). split; [rewrite E; simpl; rewrite <- app_assoc; reflexivity|].
          split; [rewrite handles_app, (handles_inner _ F); reflexivity|].
          apply Forall_app; split; [eapply Forall_impl; [|exact F]; intros; auto |].
          constructor; [right; left; reflexivity|]. constructor; [right; right; reflexivity|]. constructor. }
        match goal with |- context [if ?c then _ else _] => destruct c end; cbn [fst]; exact R.
  Qed.

  (* flush: frame, batch unchanged, processed only grows, and it processes exactly the events at
     indices processed .. processed' - 1, in that order *)
  Lemma flush_spec : forall fuel s bs i, i = bs_processed bs ->
    let '(s', bs') := flush fuel s bs i in
    frame s s' /\ bs_batch bs' = bs_batch bs /\ bs_chan bs' = bs_chan bs /\ bs_arrived bs' = bs_arrived bs
    /\ (bs_processed bs <= bs_processed bs')%nat
    /\ (bs_processed bs' <= max (bs_processed bs) (length (bs_results bs)))%nat
    /\ length (bs_results bs') = length (bs_results bs)
    /\ exists new, plog s' = new ++ plog s
         /\ handles new = rev (map pg (firstn (bs_processed bs' - bs_processed bs)
                                              (skipn (bs_processed bs) (b_events (bs_batch bs)))))
         /\ Forall (fun o => inner_out o \/ (exists g, o = PHandle g) \/ o = PHighest) new.
  Proof.
    induction fuel as [|f IH]; intros s bs i Hi; simpl.
    - destruct (Nat.ltb (bs_processed bs) (length (bs_results bs)) && nth i (bs_results bs) false); simpl;
        (split; [first [apply frame_set_poof | apply frame_refl]|]; repeat split; auto; try lia;
         exists []; rewrite Nat.sub_diag; simpl; auto).
    - destruct (Nat.ltb (bs_processed bs) (length (bs_results bs)) && nth i (bs_results bs) false) eqn:C.
      2:{ repeat split; auto using frame_refl; try lia. exists []. rewrite Nat.sub_diag. simpl. auto. }
      destruct (nth_error (b_events (bs_batch bs)) i) as [ev|] eqn:En.
      2:{ repeat split; auto using frame_refl; try lia. exists []. rewrite Nat.sub_diag. simpl. auto. }
      apply andb_true_iff in C. destruct C as [C1 C2]. apply Nat.ltb_lt in C1.
      destruct (Processor.process fc fp lim_n lim_s s ev) as [s1 rq] eqn:Ep.
      assert (F1 : frame s s1) by (pose proof (process_frame s ev) as F; rewrite Ep in F; exact F).
      destruct (process_log s ev) as [n1 [L1 [H1 A1]]]. rewrite Ep in L1. cbn [fst] in L1.
      set (bs1 := mkBs (bs_batch bs) (bs_chan bs) (bs_arrived bs) (set_nth i (bs_results bs) false)
                       (S (bs_processed bs)) (bs_request bs ++ rq)).
      specialize (IH s1 bs1 (S i)). 
      destruct (Processor.flush fc fp lim_n lim_s f s1 bs1 (S i)) as [s' bs'] eqn:Ef.
      assert (Hi' : S i = bs_processed bs1) by (simpl; lia).
      specialize (IH Hi'). destruct IH as [F2 [B2 [Ch2 [Ar2 [P2 [P3 [Ln2 [n2 [L2 [H2 A2]]]]]]]]]].
      assert (Ls : length (bs_results bs1) = length (bs_results bs)).
      { simpl. clear. generalize (bs_results bs) i. induction l as [|a l IHl]; intros [|j]; simpl; auto. }
      simpl bs_processed in *. simpl bs_batch in *. simpl bs_chan in *. simpl bs_arrived in *.
      split; [eapply frame_trans; eauto|]. split; auto. split; auto. split; auto.
      split; [lia|]. split; [rewrite Ls in P3; lia|]. split; [congruence|].
      exists (n2 ++ n1). split; [rewrite L2, L1, app_assoc; reflexivity|]. split.
      + rewrite handles_app, H2, H1. subst i.
        replace (bs_processed bs' - bs_processed bs)%nat with (S (bs_processed bs' - S (bs_processed bs)))%nat by lia.
        assert (Sk : skipn (bs_processed bs) (b_events (bs_batch bs)) =
                     ev :: skipn (S (bs_processed bs)) (b_events (bs_batch bs))).
        { clear -En. revert En. generalize (b_events (bs_batch bs)) (bs_processed bs).
          induction l as [|a l IHl]; intros [|k] H; simpl in *; try discriminate.
          - inversion H; reflexivity.
          - apply IHl; auto. }
        rewrite Sk. simpl. reflexivity.
      + apply Forall_app; split; auto.
        eapply Forall_impl; [|exact A1]. intros o [Ho|[Ho|Ho]]; auto. right; left; eauto.
  Qed.
End Proc.
