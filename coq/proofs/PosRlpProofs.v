(* C12: the wire format.  The model's RLP reader inverts the model's RLP writer on every array
   of (id, weight) pairs with 64-bit values; hence DecodeRLP (EncodeRLP vs) rebuilds vs through
   the bytes. *)
From Coq Require Import NArith PeanoNat List Lia Bool Permutation.
From Coq Require Import ZifyBool ZifyNat ZifyN.
From LV Require Import lib.WordArith model.Pos model.PosRlp spec.PosSpec.
From LV Require Import proofs.PosMapProofs proofs.PosSortProofs proofs.PosBuildProofs.
Import ListNotations.
Local Open Scope N_scope.

Lemma un_be_app l b : un_be (l ++ [b]) = un_be l * 256 + b.
Proof. unfold un_be. rewrite fold_left_app. reflexivity. Qed.

Lemma be_min_aux_inv f : forall n, n < 2 ^ N.of_nat f -> un_be (be_min_aux f n) = n.
Proof.
  induction f as [|f IH]; intros n H.
  - cbn in H. assert (n = 0) by lia. subst. reflexivity.
  - cbn [be_min_aux]. destruct (N.eqb_spec n 0) as [E|E]; [subst; reflexivity|].
    rewrite un_be_app, IH; [pose proof (N.div_mod n 256); lia|].
    rewrite Nat2N.inj_succ, N.pow_succ_r' in H.
    apply N.div_lt_upper_bound; [lia|]. lia.
Qed.

Lemma un_be_be_min n : un_be (be_min n) = n.
Proof. unfold be_min. apply be_min_aux_inv. rewrite N2Nat.id. apply N.size_gt. Qed.

Lemma be_min_aux_len f : forall n k, n < 256 ^ N.of_nat k -> (length (be_min_aux f n) <= k)%nat.
Proof.
  induction f as [|f IH]; intros n k H; [cbn; lia|].
  cbn [be_min_aux]. destruct (N.eqb_spec n 0) as [E|E]; [cbn; lia|].
  destruct k as [|k]; [cbn in H; lia|].
  rewrite app_length. cbn [length]. rewrite Nat2N.inj_succ, N.pow_succ_r' in H.
  specialize (IH (n / 256) k). assert (n / 256 < 256 ^ N.of_nat k) by (apply N.div_lt_upper_bound; lia).
  specialize (IH H0). lia.
Qed.

Lemma be_min_len8 n : n < two64 -> (length (be_min n) <= 8)%nat.
Proof. intros H. unfold be_min. apply be_min_aux_len. unfold two64 in H. exact H. Qed.

Lemma be_min_aux_pos f n : n <> 0 -> n < 2 ^ N.of_nat f -> (1 <= length (be_min_aux f n))%nat.
Proof.
  intros Hn H. destruct f as [|f]; [cbn in H; lia|]. cbn [be_min_aux].
  destruct (N.eqb_spec n 0); [contradiction|]. rewrite app_length. cbn [length]. lia.
Qed.

Lemma take_app p r : take (length p) (p ++ r) = Some (p, r).
Proof.
  unfold take. rewrite app_length.
  replace (Nat.ltb (length p + length r) (length p)) with false by (symmetry; apply Nat.ltb_ge; lia).
  rewrite firstn_app, Nat.sub_diag, firstn_all, skipn_app, Nat.sub_diag, skipn_all. cbn [firstn skipn app].
  rewrite app_nil_r. reflexivity.
Qed.

Lemma nlen_nat l : N.to_nat (nlen l) = length l.
Proof. unfold nlen. apply Nat2N.id. Qed.

Lemma parse_uint_inv n rest : n < two64 -> parse_uint (rlp_uint n ++ rest) = Some (n, rest).
Proof.
  intros H. unfold rlp_uint. destruct (N.eqb_spec n 0) as [E|E].
  - subst. reflexivity.
  - destruct (N.ltb_spec n 128) as [L|G].
    + cbn [app parse_uint]. replace (n <? 128) with true by (symmetry; apply N.ltb_lt; exact L). reflexivity.
    + cbn [app parse_uint]. pose proof (be_min_len8 n H) as Hl.
      assert (Hn : nlen (be_min n) <= 8) by (unfold nlen; lia).
      replace (128 + nlen (be_min n) <? 128) with false by (symmetry; apply N.ltb_ge; lia).
      replace (128 + nlen (be_min n) <? 184) with true by (symmetry; apply N.ltb_lt; lia).
      replace (128 + nlen (be_min n) - 128) with (nlen (be_min n)) by lia.
      rewrite nlen_nat, take_app, un_be_be_min. reflexivity.
Qed.

Lemma parse_list_inv p rest : parse_list (rlp_list p ++ rest) = Some (p, rest).
Proof.
  unfold rlp_list. destruct (N.leb_spec (nlen p) 55) as [L|G].
  - cbn [app parse_list].
    replace (192 + nlen p <? 192) with false by (symmetry; apply N.ltb_ge; lia).
    replace (192 + nlen p <? 248) with true by (symmetry; apply N.ltb_lt; lia).
    replace (192 + nlen p - 192) with (nlen p) by lia. rewrite nlen_nat. apply take_app.
  - cbn [app parse_list]. set (lb := be_min (nlen p)).
    assert (Hpos : (1 <= length lb)%nat).
    { unfold lb, be_min. apply be_min_aux_pos; [lia|]. rewrite N2Nat.id. apply N.size_gt. }
    assert (Hk : 1 <= nlen lb) by (unfold nlen; lia).
    replace (247 + nlen lb <? 192) with false by (symmetry; apply N.ltb_ge; lia).
    replace (247 + nlen lb <? 248) with false by (symmetry; apply N.ltb_ge; lia).
    replace (247 + nlen lb - 247) with (nlen lb) by lia.
    rewrite nlen_nat, <- app_assoc, take_app. unfold lb. rewrite un_be_be_min, nlen_nat. apply take_app.
Qed.

Definition vals_fit64 (arr : list (N * N)) : Prop := Forall (fun p => fst p < two64 /\ snd p < two64) arr.

Lemma parse_validator_inv id w rest : id < two64 -> w < two64 ->
  parse_validator (rlp_validator (id, w) ++ rest) = Some ((id, w), rest).
Proof.
  intros Hi Hw. unfold parse_validator, rlp_validator. cbn [fst snd]. rewrite parse_list_inv.
  rewrite parse_uint_inv by exact Hi.
  rewrite <- (app_nil_r (rlp_uint w)), parse_uint_inv by exact Hw. reflexivity.
Qed.

Lemma rlp_validator_nonempty p : rlp_validator p <> [].
Proof. unfold rlp_validator, rlp_list. destruct (_ <=? 55); discriminate. Qed.

Lemma parse_validators_inv arr : vals_fit64 arr -> forall fuel,
  (length (flat_map rlp_validator arr) <= fuel)%nat ->
  parse_validators fuel (flat_map rlp_validator arr) = ROk arr.
Proof.
  induction 1 as [|[id w] arr [Hi Hw] Hf IH]; intros fuel Hfuel; [destruct fuel; reflexivity|].
  cbn [flat_map] in *. rewrite app_length in Hfuel.
  destruct (rlp_validator (id, w) ++ flat_map rlp_validator arr) as [|b tl] eqn:E.
  - apply app_eq_nil in E. destruct E as [E _]. exfalso. exact (rlp_validator_nonempty _ E).
  - assert (Hl : (1 <= length (rlp_validator (id, w)))%nat).
    { pose proof (rlp_validator_nonempty (id, w)). destruct (rlp_validator (id, w)); [congruence|cbn; lia]. }
    destruct fuel as [|fuel]; [lia|]. cbn [parse_validators]. rewrite <- E.
    cbn [fst snd] in Hi, Hw. rewrite parse_validator_inv by assumption.
    rewrite IH by lia. reflexivity.
Qed.

Theorem decode_rlp_array_inv arr : vals_fit64 arr -> decode_rlp_array (rlp_array arr) = ROk arr.
Proof.
  intros H. unfold decode_rlp_array, rlp_array.
  rewrite <- (app_nil_r (rlp_list _)), parse_list_inv. apply parse_validators_inv; [exact H|lia].
Qed.

(* through the bytes: DecodeRLP (EncodeRLP vs) = decode (encode vs), which rebuilds vs *)
Theorem roundtrip_bytes ops vs : weights_fit ops -> Forall (fun p => fst p < two64) ops ->
  build ops = Some vs ->
  decode_rlp (encode_rlp vs) = decode (encode vs) /\
  exists vs', decode_rlp (encode_rlp vs) = Some vs' /\ v_cache vs' = v_cache vs /\
              Permutation (v_values vs') (v_values vs) /\ encode_rlp vs' = encode_rlp vs.
Proof.
  intros Hf Hid Hb.
  assert (Hfit : vals_fit64 (encode vs)).
  { unfold vals_fit64, encode, sorted_array. rewrite Forall_forall. intros [id w] Hin.
    apply (Permutation_in _ (vsort_perm _)) in Hin.
    apply (Permutation_in _ (build_values_perm ops vs Hb)) in Hin.
    apply eff_pairs_In in Hin. destruct Hin as [He Hw]. cbn [fst snd].
    destruct (eff_cases ops id 0) as [E|Hin]; cbn zeta in *; fold (eff ops id) in *; [congruence|].
    rewrite He in Hin. unfold weights_fit in Hf. rewrite Forall_forall in Hf, Hid.
    specialize (Hf _ Hin). specialize (Hid _ Hin). cbn [fst snd] in *. unfold two32, two64 in *. lia. }
  assert (E1 : decode_rlp (encode_rlp vs) = decode (encode vs)).
  { unfold decode_rlp, encode_rlp. rewrite decode_rlp_array_inv by exact Hfit. reflexivity. }
  split; [exact E1|]. rewrite E1.
  destruct (roundtrip ops vs Hb) as [vs' [H1 [H2 [H3 H4]]]].
  exists vs'. split; [exact H1|]. split; [exact H2|]. split; [exact H3|].
  unfold encode_rlp. rewrite H4. reflexivity.
Qed.

(* ---------- decode into a reused target: the result is a function of the bytes only ---------- *)
Lemma decode_step_target_irrelevant t1 t2 bs : snd (decode_step t1 bs) = snd (decode_step t2 bs).
Proof.
  unfold decode_step. destruct (decode_rlp_array bs) as [arr| |]; try reflexivity.
  destruct (build arr); reflexivity.
Qed.

Theorem decode_run_history_independent bss : forall t, decode_run t bss = map decode_fresh bss.
Proof.
  induction bss as [|bs r IH]; intros t; [reflexivity|]. cbn [decode_run map].
  destruct (decode_step t bs) as [t' o] eqn:E. rewrite IH. f_equal.
  unfold decode_fresh. rewrite <- (decode_step_target_irrelevant t empty_validators bs), E. reflexivity.
Qed.

Lemma decode_step_ok_target t bs v : snd (decode_step t bs) = DOk v -> fst (decode_step t bs) = v.
Proof.
  unfold decode_step. destruct (decode_rlp_array bs) as [arr| |]; try discriminate.
  destruct (build arr); [|discriminate]. cbn. intros H. inversion H. reflexivity.
Qed.

(* whatever the target held: decoding the encoding of a built set makes the target that set *)
Theorem decode_into_any_target ops vs t : weights_fit ops -> Forall (fun p => fst p < two64) ops ->
  build ops = Some vs ->
  exists vs', decode_step t (encode_rlp vs) = (vs', DOk vs') /\ v_cache vs' = v_cache vs /\
              Permutation (v_values vs') (v_values vs) /\ encode_rlp vs' = encode_rlp vs.
Proof.
  intros Hf Hid Hb. destruct (roundtrip_bytes ops vs Hf Hid Hb) as [_ [vs' [H1 [H2 [H3 H4]]]]].
  exists vs'. split; [|split; [exact H2|split; [exact H3|exact H4]]].
  unfold decode_rlp in H1. unfold decode_step.
  destruct (decode_rlp_array (encode_rlp vs)) as [arr| |]; try discriminate.
  unfold decode in H1. rewrite H1. reflexivity.
Qed.

(* the in-place variant is not history independent: the second decode yields the union *)
Example decode_inplace_not_history_independent :
  let b1 := rlp_array [(1, 50); (2, 40)] in
  let b2 := rlp_array [(2, 7); (3, 9)] in
  let t1 := fst (decode_step_inplace empty_validators b1) in
  match snd (decode_step_inplace t1 b2), snd (decode_step t1 b2) with
  | DOk u, DOk v => sorted_ids u = [1; 3; 2] /\ sorted_ids v = [3; 2]
  | _, _ => False
  end.
Proof. vm_compute. split; reflexivity. Qed.
