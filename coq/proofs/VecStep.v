(* C05/C06: Engine.Add (model: add) preserves the index invariant [vinv] for every well-formed
   new event whose parents are indexed.  Part 1: fillGlobalBranchID and the structural fields. *)
From Coq Require Import List Arith NArith ZArith Bool Lia.
From Coq Require Import ZifyBool ZifyNat ZifyN.
From LV Require Import model.VecIndex spec.FcSpec lib.VecListFacts proofs.FcSpecFacts proofs.VecHb proofs.VecDfs proofs.VecInv.
Import ListNotations.
Open Scope N_scope.

(* the new event is well-formed w.r.t. the indexed DAG (facts guaranteed by eventcheck, C13, and by
   parents-first delivery) *)
Definition wf_new (n : nat) (s : vidx) (e : event) : Prop :=
  alookup (eid e) (evs s) = None /\
  (ecr e < n)%nat /\ 1 <= eseq e /\
  (forall p, In p (epar e) -> exists ep, evt s p ep) /\
  match self_parent e with
  | Some sp => exists esp, evt s sp esp /\ ecr esp = ecr e /\ eseq e = eseq esp + 1
  | None => eseq e = 1 end.

(* ---------- the two outcomes of fillGlobalBranchID ---------- *)
Definition s_cont (s : vidx) (e : event) (b : nat) : vidx :=
  {| nvals := nvals s; br_last := set_nth 0 (br_last s) b (eseq e); br_cr := br_cr s; by_cr := by_cr s;
     hb := hb s; la := la s; ebr := ebr s; evs := evs s |}.
Definition s_fork (s : vidx) (e : event) : vidx :=
  {| nvals := nvals s; br_last := br_last s ++ [eseq e]; br_cr := br_cr s ++ [ecr e];
     by_cr := set_nth [] (by_cr s) (ecr e) (nth (ecr e) (by_cr s) [] ++ [nbr s]);
     hb := hb s; la := la s; ebr := ebr s; evs := evs s |}.

Lemma fill_branch_cases s e :
  (exists b, fill_branch s e = (b, s_cont s e b) /\
     ((self_parent e = None /\ b = ecr e /\ nth b (br_last s) 0 = 0) \/
      (exists sp, self_parent e = Some sp /\ alookup sp (ebr s) = Some b /\ nth b (br_last s) 0 + 1 = eseq e))) \/
  (fill_branch s e = (nbr s, s_fork s e)).
Proof.
  unfold fill_branch. destruct (self_parent e) as [sp|] eqn:Hsp.
  - destruct (alookup sp (ebr s)) as [b|] eqn:Hb; [|right; reflexivity].
    destruct (N.eqb_spec (nth b (br_last s) 0 + 1) (eseq e)) as [Heq|]; [|right; reflexivity].
    left. exists b. split; [reflexivity|]. right. exists sp. auto.
  - destruct (N.eqb_spec (nth (ecr e) (br_last s) 0) 0) as [Heq|]; [|right; reflexivity].
    left. exists (ecr e). split; [reflexivity|]. left. auto.
Qed.

(* ---------- structural part of the invariant ---------- *)
Definition sinv (n : nat) (s : vidx) : Prop :=
  nvals s = n /\ length (br_last s) = length (br_cr s) /\ (n <= nbr s)%nat /\
  (forall c, (c < n)%nat -> crb s c = c) /\
  (forall b, (b < nbr s)%nat -> (crb s b < n)%nat) /\
  length (by_cr s) = n /\
  (forall c b, (c < n)%nat -> (In b (brs_of s c) <-> ((b < nbr s)%nat /\ crb s b = c))) /\
  (forall c, NoDup (brs_of s c)).
Lemma ginv_sinv n s : ginv n s -> sinv n s.
Proof.
  intros I. unfold sinv.
  split; [apply I|]. split; [apply I|]. split; [apply I|]. split; [apply I|]. split; [apply I|].
  split; [apply I|]. split; [intros c b Hc; apply (g_bycr n s I c b Hc)|apply I].
Qed.

Lemma sinv_cont n s e b : sinv n s -> (b < nbr s)%nat -> sinv n (s_cont s e b).
Proof.
  intros (A1 & A2 & A3 & A4 & A5 & A6 & A7 & A8) Hb.
  unfold sinv. change (nbr (s_cont s e b)) with (nbr s).
  change (by_cr (s_cont s e b)) with (by_cr s). change (nvals (s_cont s e b)) with (nvals s).
  split; [exact A1|]. split.
  { cbn [s_cont br_last br_cr]. rewrite set_nth_length_in; [exact A2|]. unfold nbr in Hb. lia. }
  split; [exact A3|]. split; [exact A4|]. split; [exact A5|]. split; [exact A6|]. split; [exact A7|exact A8].
Qed.

Lemma sinv_fork n s e : sinv n s -> (ecr e < n)%nat ->
  sinv n (s_fork s e) /\ nbr (s_fork s e) = S (nbr s) /\
  (forall b, (b < nbr s)%nat -> crb (s_fork s e) b = crb s b) /\ crb (s_fork s e) (nbr s) = ecr e.
Proof.
  intros (A1 & A2 & A3 & A4 & A5 & A6 & A7 & A8) Hc.
  assert (Hnbr : nbr (s_fork s e) = S (nbr s)).
  { unfold nbr. cbn [s_fork br_cr]. rewrite app_length. cbn [length]. lia. }
  assert (Hold : forall b, (b < nbr s)%nat -> crb (s_fork s e) b = crb s b).
  { intros b Hb. unfold crb. cbn [s_fork br_cr]. apply app_nth1. exact Hb. }
  assert (Hnew : crb (s_fork s e) (nbr s) = ecr e).
  { unfold crb, nbr. cbn [s_fork br_cr]. apply nth_app_r_one. }
  assert (Hbrs : forall c, (c < n)%nat -> brs_of (s_fork s e) c = if Nat.eqb c (ecr e) then brs_of s c ++ [nbr s] else brs_of s c).
  { intros c Hcn. unfold brs_of. cbn [s_fork by_cr]. rewrite nth_set_nth.
    destruct (Nat.eqb_spec c (ecr e)) as [->|]; reflexivity. }
  split; [|auto]. unfold sinv. rewrite Hnbr.
  split; [exact A1|]. split; [cbn [s_fork br_last br_cr]; rewrite !app_length; cbn [length]; lia|].
  split; [lia|]. split; [intros c Hcn; rewrite Hold by lia; apply A4; exact Hcn|].
  split.
  { intros b Hb. destruct (Nat.eq_dec b (nbr s)) as [->|]; [rewrite Hnew; exact Hc|rewrite Hold by lia; apply A5; lia]. }
  split; [cbn [s_fork by_cr]; rewrite set_nth_length_in by lia; exact A6|].
  split.
  - intros c b Hcn. rewrite (Hbrs c Hcn). destruct (Nat.eqb_spec c (ecr e)) as [->|Hne].
    + rewrite in_app_iff, (A7 (ecr e) b Hcn). cbn [In]. split.
      * intros [[Hb Hcb]|[<-|[]]]; [split; [lia|rewrite Hold by lia; exact Hcb]|split; [lia|exact Hnew]].
      * intros [Hb Hcb]. destruct (Nat.eq_dec b (nbr s)) as [->|]; [right; left; reflexivity|].
        left. split; [lia|]. rewrite Hold in Hcb by lia. exact Hcb.
    + rewrite (A7 c b Hcn). split.
      * intros [Hb Hcb]. split; [lia|rewrite Hold by lia; exact Hcb].
      * intros [Hb Hcb]. destruct (Nat.eq_dec b (nbr s)) as [->|]; [rewrite Hnew in Hcb; congruence|].
        split; [lia|]. rewrite Hold in Hcb by lia. exact Hcb.
  - intros c. destruct (Nat.lt_ge_cases c n) as [Hcn|Hcn].
    + rewrite (Hbrs c Hcn). destruct (Nat.eqb_spec c (ecr e)) as [->|]; [|apply A8].
      apply NoDup_app_one; [apply A8|]. intros Hin. apply (A7 (ecr e) (nbr s) Hcn) in Hin. lia.
    + unfold brs_of. cbn [s_fork by_cr]. rewrite nth_overflow; [constructor|].
      rewrite set_nth_length_in by lia. lia.
Qed.

(* ---------- what the rest of Add needs to know about fillGlobalBranchID ---------- *)
Record fb_ok (n : nat) (s : vidx) (e : event) (me : nat) (s1 : vidx) : Prop := {
  fb_sinv : sinv n s1;
  fb_evs : evs s1 = evs s; fb_hb : hb s1 = hb s; fb_la : la s1 = la s; fb_ebr : ebr s1 = ebr s;
  fb_nbr : (nbr s <= nbr s1)%nat;
  fb_me : (me < nbr s1)%nat;
  fb_crb_old : forall b, (b < nbr s)%nat -> crb s1 b = crb s b;
  fb_crb_me : crb s1 me = ecr e;
  fb_last_me : nth me (br_last s1) 0 = eseq e;
  fb_last_old : forall b, b <> me -> (b < nbr s)%nat -> nth b (br_last s1) 0 = nth b (br_last s) 0;
  fb_below : forall x ex, evt s x ex -> onbr s x me -> eseq ex < eseq e;
  fb_prev : (exists sp esp, self_parent e = Some sp /\ onbr s sp me /\ evt s sp esp /\ eseq e = eseq esp + 1) \/
            (forall x ex, evt s x ex -> ~ onbr s x me) }.

Lemma fill_branch_ok n s e : ginv n s -> wf_new n s e ->
  fb_ok n s e (fst (fill_branch s e)) (snd (fill_branch s e)).
Proof.
  intros G (Hfresh & Hcr & Hseq & Hpar & Hsp).
  pose proof (ginv_sinv n s G) as S.
  destruct (fill_branch_cases s e) as [(b & Hfb & Hcase)|Hfb]; rewrite Hfb; cbn [fst snd].
  - (* continue branch b *)
    assert (Hb : (b < nbr s)%nat).
    { destruct Hcase as [(_ & -> & _)|(sp & Hs & Hbr & _)]; [pose proof (g_nb n s G); lia|].
      rewrite Hs in Hsp. destruct Hsp as (esp & Esp & _). apply (g_br n s G sp esp b Esp Hbr). }
    assert (Hbelow : forall x ex, evt s x ex -> onbr s x b -> eseq ex < eseq e).
    { intros x ex Ex Bx. destruct (g_br n s G x ex b Ex Bx) as (_ & _ & Hle).
      destruct (g_ev n s G x ex Ex) as (_ & H1 & _).
      destruct Hcase as [(_ & _ & Hz)|(sp & _ & _ & Hl)]; lia. }
    constructor; try reflexivity; auto.
    + apply sinv_cont; assumption.
    + destruct Hcase as [(Hn & -> & _)|(sp & Hs & Hbr & Hl)]; [exact (g_brcr_init n s G (ecr e) Hcr)|].
      rewrite Hs in Hsp. destruct Hsp as (esp & Esp & Hc & _).
      destruct (g_br n s G sp esp b Esp Hbr) as (_ & Hcb & _). unfold crb in *. cbn [s_cont br_cr]. congruence.
    + cbn [s_cont br_last]. apply nth_set_nth_eq.
    + intros b' Hne _. cbn [s_cont br_last]. apply nth_set_nth_neq. lia.
    + destruct Hcase as [(Hn & _ & Hz)|(sp & Hs & Hbr & Hl)].
      * right. intros x ex Ex Bx. specialize (Hbelow x ex Ex Bx).
        destruct (g_br n s G x ex b Ex Bx) as (_ & _ & Hle). destruct (g_ev n s G x ex Ex) as (_ & H1 & _). lia.
      * left. rewrite Hs in Hsp. destruct Hsp as (esp & Esp & Hc & Hq). exists sp, esp. auto.
  - (* new branch *)
    destruct (sinv_fork n s e S Hcr) as (S' & Hn & Hold & Hnew).
    assert (Hnone : forall x ex, evt s x ex -> ~ onbr s x (nbr s)).
    { intros x ex Ex Bx. destruct (g_br n s G x ex (nbr s) Ex Bx) as (Hlt & _). lia. }
    constructor; try reflexivity; auto; try lia.
    + cbn [s_fork br_last]. destruct S as (_ & Hlen & _). unfold nbr. rewrite <- Hlen. apply nth_app_r_one.
    + intros b Hne Hb. cbn [s_fork br_last]. apply app_nth1. destruct S as (_ & Hlen & _). unfold nbr in Hb. lia.
    + intros x ex Ex Bx. exfalso. eapply Hnone; eauto.
Qed.

(* ---------- the state produced by Add ---------- *)
Definition hbv (s : vidx) (p : N) : list hbs := match alookup p (hb s) with Some v => v | None => [] end.
Definition new_before1 (s1 : vidx) (e : event) (me nb0 : nat) : list hbs :=
  fold_left (fun b pv => collect_from (nbr s1) b pv) (map (hbv s1) (epar e))
            (hb_set (repeat (0, 0) nb0) me (eseq e, eseq e)).
Definition new_before (s1 : vidx) (e : event) (me nb0 : nat) : list hbs := detect_forks s1 (new_before1 s1 e me nb0).
Definition new_lam (s1 : vidx) (e : event) (me : nat) : list (N * list N) :=
  dfs_la (dfs_fuel s1 e) s1 me (eseq e) (rev (epar e)) (la s1).
Definition mk_add (s1 : vidx) (e : event) (me nb0 : nat) : vidx :=
  {| nvals := nvals s1; br_last := br_last s1; br_cr := br_cr s1; by_cr := by_cr s1;
     hb := aput (eid e) (new_before s1 e me nb0) (hb s1);
     la := aput (eid e) (la_set (repeat 0 nb0) me (eseq e)) (new_lam s1 e me);
     ebr := aput (eid e) me (ebr s1); evs := aput (eid e) e (evs s1) |}.

Lemma fold_pvecs (f : list hbs -> list hbs -> list hbs) H P b0 :
  (forall p, In p P -> alookup p H <> None) ->
  fold_left (fun b o => match o with Some pv => f b pv | None => b end) (map (fun p => alookup p H) P) b0 =
  fold_left f (map (fun p => match alookup p H with Some v => v | None => [] end) P) b0.
Proof.
  revert b0; induction P as [|p P IH]; intros b0 Hall; cbn [map fold_left]; [reflexivity|].
  destruct (alookup p H) eqn:Hp; [|exfalso; apply (Hall p (or_introl eq_refl)); exact Hp].
  apply IH. intros q Hq. apply Hall. right. exact Hq.
Qed.

Lemma add_eq s e : (forall p, In p (epar e) -> alookup p (hb (snd (fill_branch s e))) <> None) ->
  add s e = Some (mk_add (snd (fill_branch s e)) e (fst (fill_branch s e)) (nbr s)).
Proof.
  intros Hall. unfold add. destruct (fill_branch s e) as [me s1] eqn:Hfb. cbn [fst snd] in *.
  replace (existsb _ (map (fun p => alookup p (hb s1)) (epar e))) with false.
  - unfold mk_add, new_before, new_before1, new_lam, hbv. rewrite fold_pvecs by exact Hall. reflexivity.
  - symmetry. apply not_true_is_false. intros H. apply existsb_exists in H. destruct H as (o & Ho & Hn).
    apply in_map_iff in Ho. destruct Ho as (p & <- & Hp). specialize (Hall p Hp).
    destruct (alookup p (hb s1)); [discriminate|contradiction].
Qed.

(* ---------- Part 2: the graph/branch invariant after Add ---------- *)
Section Step.
Variable n : nat.
Variable s : vidx.
Variable e : event.
Variable me : nat.
Variable s1 : vidx.
Variable nb0 : nat.
Hypothesis G : ginv n s.
Hypothesis W : wf_new n s e.
Hypothesis F : fb_ok n s e me s1.
Let s' := mk_add s1 e me nb0.
Let E := evs s.
Let E' := evs s'.

Lemma evs_new : evs s' = (eid e, e) :: evs s.
Proof. unfold s', mk_add. cbn [evs]. rewrite (fb_evs _ _ _ _ _ F). reflexivity. Qed.
Lemma evt_new x ex : evt s' x ex <-> (x = eid e /\ ex = e) \/ (x <> eid e /\ evt s x ex).
Proof.
  unfold evt. rewrite evs_new. cbn [alookup]. destruct (N.eqb_spec x (eid e)) as [->|Hne]; split.
  - intros [= <-]. left. auto.
  - intros [[_ ->]|[H _]]; [reflexivity|contradiction].
  - intros H. right. auto.
  - intros [[H _]|[_ H]]; [contradiction|exact H].
Qed.
Lemma onbr_new x b : onbr s' x b <-> (x = eid e /\ b = me) \/ (x <> eid e /\ onbr s x b).
Proof.
  unfold onbr, s', mk_add. cbn [ebr]. rewrite (fb_ebr _ _ _ _ _ F), alookup_aput.
  destruct (N.eqb_spec x (eid e)) as [->|Hne]; split.
  - intros [= <-]. left. auto.
  - intros [[_ ->]|[H _]]; [reflexivity|contradiction].
  - intros H. right. auto.
  - intros [[H _]|[_ H]]; [contradiction|exact H].
Qed.
Lemma evt_old x ex : evt s x ex -> x <> eid e.
Proof. intros H ->. destruct W as (Hf & _). unfold evt in H. congruence. Qed.
Lemma evt_old_new x ex : evt s x ex -> evt s' x ex.
Proof. intros H. apply evt_new. right. split; [eapply evt_old; eauto|exact H]. Qed.
Lemma evt_new_self : evt s' (eid e) e.
Proof. apply evt_new. left. auto. Qed.
Lemma onbr_new_self : onbr s' (eid e) me.
Proof. apply onbr_new. left. auto. Qed.
Lemma nbr_new : nbr s' = nbr s1.
Proof. reflexivity. Qed.
Lemma crb_new b : crb s' b = crb s1 b.
Proof. reflexivity. Qed.

Lemma closed_new : closed (evs s').
Proof.
  intros x ex p Hx Hp. apply evt_new in Hx. destruct Hx as [[-> ->]|[Hne Hx]].
  - destruct W as (_ & _ & _ & Hpar & _). destruct (Hpar p Hp) as [ep Hep]. exists ep. apply evt_old_new. exact Hep.
  - destruct (g_closed n s G x ex p Hx Hp) as [ep Hep]. exists ep. apply evt_old_new. exact Hep.
Qed.

Lemma ginv_new : ginv n s'.
Proof.
  destruct (fb_sinv _ _ _ _ _ F) as (A1 & A2 & A3 & A4 & A5 & A6 & A7 & A8).
  destruct W as (Hfresh & Hcr & Hseq & Hpar & Hsp).
  constructor; try assumption.
  - (* keys *)
    intros x ex Hx. apply evt_new in Hx. destruct Hx as [[-> ->]|[Hne Hx]].
    + exists me. apply onbr_new_self.
    + destruct (g_keys n s G x ex Hx) as [b Hb]. exists b. apply onbr_new. right. auto.
  - apply closed_new.
  - (* events are well formed *)
    intros x ex Hx. apply evt_new in Hx. destruct Hx as [[-> ->]|[Hne Hx]].
    + split; [exact Hcr|]. split; [exact Hseq|].
      destruct (self_parent e) as [sp|]; [|exact Hsp].
      destruct Hsp as (esp & Esp & Hc & Hq). exists esp. split; [apply evt_old_new; exact Esp|auto].
    + destruct (g_ev n s G x ex Hx) as (B1 & B2 & B3). split; [exact B1|]. split; [exact B2|].
      destruct (self_parent ex) as [sp|]; [|exact B3].
      destruct B3 as (esp & Esp & Hc & Hq). exists esp. split; [apply evt_old_new; exact Esp|auto].
  - (* branch of an event *)
    intros x ex b Hx Hb. apply evt_new in Hx. apply onbr_new in Hb.
    destruct Hx as [[-> ->]|[Hne Hx]]; destruct Hb as [[Hb1 Hb2]|[Hb1 Hb2]]; try contradiction.
    + subst b. split; [exact (fb_me _ _ _ _ _ F)|]. split; [exact (fb_crb_me _ _ _ _ _ F)|].
      change (br_last s') with (br_last s1). rewrite (fb_last_me _ _ _ _ _ F). lia.
    + destruct (g_br n s G x ex b Hx Hb2) as (B1 & B2 & B3).
      pose proof (fb_nbr _ _ _ _ _ F). split; [change (nbr s') with (nbr s1); lia|].
      split; [change (crb s' b) with (crb s1 b); rewrite (fb_crb_old _ _ _ _ _ F) by exact B1; exact B2|].
      change (br_last s') with (br_last s1). destruct (Nat.eq_dec b me) as [->|Hbm].
      * rewrite (fb_last_me _ _ _ _ _ F). pose proof (fb_below _ _ _ _ _ F x ex Hx Hb2). lia.
      * rewrite (fb_last_old _ _ _ _ _ F) by assumption. exact B3.
  - (* chains *)
    intros x ex b Hx Hb. apply evt_new in Hx. apply onbr_new in Hb.
    destruct Hx as [[-> ->]|[Hne Hx]]; destruct Hb as [[Hb1 Hb2]|[Hb1 Hb2]]; try contradiction.
    + subst b. destruct (fb_prev _ _ _ _ _ F) as [(sp & esp & Hs & Bs & Es & Hq)|Hnone].
      * left. exists sp, esp. split; [exact Hs|]. split; [apply onbr_new; right; split; [eapply evt_old; eauto|exact Bs]|].
        split; [apply evt_old_new; exact Es|exact Hq].
      * right. intros y ey Hy By. apply evt_new in Hy. apply onbr_new in By.
        destruct Hy as [[-> ->]|[Hny Hy]]; [lia|]. destruct By as [[By1 _]|[_ By2]]; [contradiction|].
        exfalso. eapply Hnone; eauto.
    + destruct (g_chain n s G x ex b Hx Hb2) as [(sp & esp & Hs & Bs & Es & Hq)|Hmin].
      * left. exists sp, esp. split; [exact Hs|]. split; [apply onbr_new; right; split; [eapply evt_old; eauto|exact Bs]|].
        split; [apply evt_old_new; exact Es|exact Hq].
      * right. intros y ey Hy By. apply evt_new in Hy. apply onbr_new in By.
        destruct Hy as [[-> ->]|[Hny Hy]]; destruct By as [[By1 By2]|[By1 By2]]; try contradiction.
        -- subst b. pose proof (fb_below _ _ _ _ _ F x ex Hx Hb2). lia.
        -- eapply Hmin; eauto.
  - (* injectivity of seq on a branch *)
    intros x y ex ey b Hx Hy Bx By Hs.
    apply evt_new in Hx, Hy. apply onbr_new in Bx, By.
    destruct Hx as [[-> ->]|[Hnx Hx]]; destruct Bx as [[Bx1 Bx2]|[Bx1 Bx2]]; try contradiction;
    destruct Hy as [[-> ->]|[Hny Hy]]; destruct By as [[By1 By2]|[By1 By2]]; try contradiction.
    + reflexivity.
    + subst b. pose proof (fb_below _ _ _ _ _ F y ey Hy By2). lia.
    + subst b. pose proof (fb_below _ _ _ _ _ F x ex Hx Bx2). lia.
    + eapply (g_inj n s G); eauto.
Qed.

(* ancestry in the extended DAG *)
Lemma reach_old a x ea : evt s a ea -> (reach E' a x <-> reach E a x).
Proof.
  intros Ha. unfold E'. rewrite evs_new. destruct W as (Hfresh & _).
  apply reach_ext_old; [exact (g_closed n s G)|exact Hfresh|exists ea; exact Ha].
Qed.
Lemma reach_self x : reach E' (eid e) x <-> x = eid e \/ exists p, In p (epar e) /\ reach E p x.
Proof.
  unfold E'. rewrite evs_new. destruct W as (Hfresh & _ & _ & Hpar & _).
  apply reach_ext_new; [exact (g_closed n s G)|exact Hfresh|exact Hpar].
Qed.
Lemma reach_old_in a x : reach E a x -> x <> eid e.
Proof. intros H. destruct (reach_in_r _ _ _ H) as [ex Hx]. eapply evt_old; eauto. Qed.
Lemma not_reach_new a ea : evt s a ea -> ~ reach E' a (eid e).
Proof. intros Ha H. apply (reach_old a _ ea Ha) in H. apply reach_old_in in H. contradiction. Qed.

Lemma fork_pair_old v x y : x <> eid e -> y <> eid e -> (fork_pair E' v x y <-> fork_pair E v x y).
Proof.
  intros Hx Hy. unfold fork_pair, E'. rewrite evs_new. cbn [alookup].
  destruct (N.eqb_spec x (eid e)); [contradiction|]. destruct (N.eqb_spec y (eid e)); [contradiction|]. reflexivity.
Qed.
Lemma SeesFork_old a ea v : evt s a ea -> (SeesFork E' a v <-> SeesFork E a v).
Proof.
  intros Ha. unfold SeesFork. split; intros (x & y & Rx & Ry & Hf).
  - apply (reach_old a x ea Ha) in Rx. apply (reach_old a y ea Ha) in Ry.
    exists x, y. split; [exact Rx|]. split; [exact Ry|].
    apply fork_pair_old; eauto using reach_old_in.
  - exists x, y. split; [apply (reach_old a x ea Ha); exact Rx|]. split; [apply (reach_old a y ea Ha); exact Ry|].
    apply fork_pair_old; eauto using reach_old_in.
Qed.
Lemma seenb_old a ea b x : evt s a ea -> (seenb s' a b x <-> seenb s a b x).
Proof.
  intros Ha. unfold seenb. fold E' E. rewrite (reach_old a x ea Ha). split; intros [R B]; (split; [exact R|]).
  - apply onbr_new in B. destruct B as [[B _]|[_ B]]; [exfalso; eapply reach_old_in; eauto|exact B].
  - apply onbr_new. right. split; [eapply reach_old_in; eauto|exact B].
Qed.
Lemma seqv_old x ex : evt s x ex -> seqv s' x = seqv s x.
Proof. intros H. rewrite (seqv_evt s' x ex (evt_old_new x ex H)), (seqv_evt s x ex H). reflexivity. Qed.

End Step.

(* ---------- Part 3: vectors of already indexed events, LowestAfter ---------- *)
Section StepVec.
Variable n : nat.
Variable s : vidx.
Variable e : event.
Variable me : nat.
Variable s1 : vidx.
Variable nb0 : nat.
Hypothesis I : vinv n s.
Hypothesis W : wf_new n s e.
Hypothesis F : fb_ok n s e me s1.
Let G := v_g n s I.
Local Notation s' := (mk_add s1 e me nb0).
Local Notation E := (evs s).
Local Notation E' := (evs (mk_add s1 e me nb0)).

Lemma HBok_old A ea b v : evt s A ea -> HBok s A b v -> HBok s' A b v.
Proof.
  intros Ha [(Hf & Hb & HS)|(Hnf & Htr & Hc)].
  - left. split; [exact Hf|]. pose proof (fb_nbr _ _ _ _ _ F). split; [change (nbr s') with (nbr s1); lia|].
    change (crb s' b) with (crb s1 b). rewrite (fb_crb_old _ _ _ _ _ F) by exact Hb.
    apply (SeesFork_old n s e me s1 nb0 G W F A ea _ Ha). exact HS.
  - right. split; [exact Hnf|]. split.
    + destruct Htr as [[Hnone Hz]|(hi & lo & Shi & Slo & Vhi & Vlo & Hr)].
      * left. split; [|exact Hz]. intros x Hx. apply (seenb_old n s e me s1 nb0 G W F A ea b x Ha) in Hx. exact (Hnone x Hx).
      * right. exists hi, lo.
        destruct (seenb_evt s A b hi Shi) as [ehi Ehi]. destruct (seenb_evt s A b lo Slo) as [elo Elo].
        split; [apply (seenb_old n s e me s1 nb0 G W F A ea b hi Ha); exact Shi|].
        split; [apply (seenb_old n s e me s1 nb0 G W F A ea b lo Ha); exact Slo|].
        split; [rewrite (seqv_old n s e me s1 nb0 W F hi ehi Ehi); exact Vhi|].
        split; [rewrite (seqv_old n s e me s1 nb0 W F lo elo Elo); exact Vlo|].
        intros z Hz. apply (seenb_old n s e me s1 nb0 G W F A ea b z Ha) in Hz.
        destruct (seenb_evt s A b z Hz) as [ez Ez]. rewrite (seqv_old n s e me s1 nb0 W F z ez Ez). apply Hr. exact Hz.
    + intros HS x Hx. apply (seenb_old n s e me s1 nb0 G W F A ea b x Ha) in Hx.
      destruct (Nat.lt_ge_cases b (nbr s)) as [Hb|Hb].
      * change (crb s' b) with (crb s1 b) in HS. rewrite (fb_crb_old _ _ _ _ _ F) in HS by exact Hb.
        apply (SeesFork_old n s e me s1 nb0 G W F A ea _ Ha) in HS. exact (Hc HS x Hx).
      * destruct Hx as [Rx Bx]. destruct (reach_in_r _ _ _ Rx) as [ex Ex].
        destruct (g_br n s G x ex b Ex Bx) as (Hlt & _). lia.
Qed.

(* LowestAfter after the DFS *)
Local Notation lam := (new_lam s1 e me).
Definition anc_e (B : N) : Prop := exists p, In p (epar e) /\ reach E p B.

Lemma seq_pos_new : eseq e <> 0.
Proof. destruct W as (_ & _ & H & _). lia. Qed.

Lemma la_marked_nonzero B eB bv b : evt s B eB -> alookup B (la s) = Some bv -> la_get bv b <> 0 ->
  exists z, descb s B b z.
Proof.
  intros HB Hl Hnz. destruct (v_la n s I B eB bv b HB Hl) as [[Hz _]|(z & Hd & _)]; [contradiction|eauto].
Qed.
Lemma la_desc_nonzero B eB bv b z : evt s B eB -> alookup B (la s) = Some bv -> descb s B b z -> la_get bv b <> 0.
Proof.
  intros HB Hl Hd. destruct (v_la n s I B eB bv b HB Hl) as [[_ Hnone]|(z' & [Rz Bz] & Sz & _)]; [exfalso; eapply Hnone; eauto|].
  destruct (reach_in_l _ _ _ Rz) as [ez Ez]. rewrite (seqv_evt s z' ez Ez) in Sz.
  destruct (g_ev n s G z' ez Ez) as (_ & H1 & _). lia.
Qed.

Lemma dfs_facts :
  samekeys s1 lam /\
  (forall B, anc_e B -> marked me lam B) /\
  (forall w i, i <> me -> lget lam w i = lget (la s) w i) /\
  (forall w, lget lam w me = lget (la s) w me \/ (lget (la s) w me = 0 /\ lget lam w me = eseq e /\ anc_e w)).
Proof.
  pose proof (fb_evs _ _ _ _ _ F) as Hevs. pose proof (fb_la _ _ _ _ _ F) as Hla.
  destruct (dfs_la_post s1 me (eseq e) seq_pos_new (dfs_fuel s1 e) (rev (epar e)) (la s1)) as (A & B & C & D & Fr & Gm).
  - unfold dfs_fuel. rewrite rev_length. pose proof (cost_la_le_total me (eseq e) seq_pos_new (evs s1) (la s1)). lia.
  - intros w. rewrite Hla, Hevs. apply (v_keys_la n s I).
  - (* gray: LowestAfter non-zero is inherited by parents *)
    intros u (v & Hv & Hnz) eu p ep Hu Hp Hep. rewrite Hla in Hv. rewrite Hevs in Hu, Hep. left.
    destruct (la_marked_nonzero u eu v me Hu Hv Hnz) as (z & Rz & Bz).
    destruct (v_keys n s I p ep Hep) as (_ & (pv & Hpv) & _).
    exists pv. rewrite Hla. split; [exact Hpv|].
    apply (la_desc_nonzero p ep pv me z Hep Hpv). split; [|exact Bz].
    eapply reach_trans; [exact Rz|]. eapply reach_parent; eauto.
  - cbn zeta in *. fold (new_lam s1 e me) in A, B, C, D, Fr, Gm. rewrite Hla in *. rewrite Hevs in *.
    split; [exact A|]. split; [|split; [exact Fr|]].
    + (* closure: every proper ancestor is marked *)
      assert (Hcl : forall p w, reach E p w -> marked me lam p -> marked me lam w).
      { intros p w Hr. induction Hr as [x ex Hx|x ex q y Hx Hq Hr IH]; intros Hm; [exact Hm|].
        apply IH. destruct (reach_in_l _ _ _ Hr) as [eq Eq].
        destruct (D x Hm ex q eq) as [H|[]]; auto; rewrite Hevs; auto. }
      intros Bv (p & Hp & Hr). apply (Hcl p Bv Hr).
      destruct (reach_in_l _ _ _ Hr) as [ep Ep]. apply (C p ep); [rewrite <- in_rev; exact Hp|exact Ep].
    + intros w. destruct (Gm w) as [H|(H1 & H2 & p & Hp & Hr)]; [left; exact H|].
      right. split; [exact H1|]. split; [exact H2|]. exists p. split; [rewrite in_rev; exact Hp|exact Hr].
Qed.

Lemma descb_new B eB b z : evt s B eB ->
  (descb s' B b z <-> descb s B b z \/ (z = eid e /\ b = me /\ anc_e B)).
Proof.
  intros HB. unfold descb. split.
  - intros [R Bz]. apply (onbr_new n s e me s1 nb0 F) in Bz. destruct Bz as [[-> ->]|[Hne Bz]].
    + right. split; [reflexivity|]. split; [reflexivity|].
      apply (reach_self n s e me s1 nb0 G W F) in R. destruct R as [R|R]; [|exact R].
      exfalso. apply (evt_old n s e W B eB HB). exact R.
    + left. split; [|exact Bz]. destruct (reach_in_l _ _ _ R) as [ez Ez].
      apply (evt_new n s e me s1 nb0 F) in Ez. destruct Ez as [[Ez _]|[_ Ez]]; [contradiction|].
      apply (reach_old n s e me s1 nb0 G W F z B ez Ez). exact R.
  - intros [[R Bz]|(-> & -> & Ha)].
    + destruct (reach_in_l _ _ _ R) as [ez Ez]. split.
      * apply (reach_old n s e me s1 nb0 G W F z B ez Ez). exact R.
      * apply (onbr_new n s e me s1 nb0 F). right. split; [eapply evt_old; eauto|exact Bz].
    + split; [apply (reach_self n s e me s1 nb0 G W F); right; exact Ha|apply (onbr_new_self n s e me s1 nb0 F)].
Qed.

Lemma LAok_old B eB bv b : evt s B eB -> alookup B lam = Some bv -> LAok s' B b (la_get bv b).
Proof.
  intros HB Hl. destruct dfs_facts as (Hk & Hmk & Hfr & Hme).
  destruct (v_keys n s I B eB HB) as (_ & (bv0 & Hl0) & _).
  pose proof (v_la n s I B eB bv0 b HB Hl0) as L0.
  assert (Hget : la_get bv b = lget lam B b) by (unfold lget; rewrite Hl; reflexivity).
  assert (Hget0 : la_get bv0 b = lget (la s) B b) by (unfold lget; rewrite Hl0; reflexivity).
  assert (Hseq_old : forall z, descb s B b z -> seqv s' z = seqv s z).
  { intros z [R _]. destruct (reach_in_l _ _ _ R) as [ez Ez]. apply (seqv_old n s e me s1 nb0 W F z ez Ez). }
  assert (Hseq_new : seqv s' (eid e) = eseq e) by (apply (seqv_evt s'); apply (evt_new_self n s e me s1 nb0 F)).
  destruct (Nat.eq_dec b me) as [->|Hbm].
  - (* the branch of the new event *)
    destruct (Hme B) as [Heq|(Hz & Hs & Ha)].
    + rewrite Hget, Heq, <- Hget0.
      destruct L0 as [[Hz Hnone]|(z & Hd & Sz & Hmin)].
      * left. split; [exact Hz|]. intros z Hd. apply (descb_new B eB me z HB) in Hd.
        destruct Hd as [Hd|(_ & _ & Ha)]; [exact (Hnone z Hd)|].
        specialize (Hmk B Ha). destruct Hmk as (v & Hv & Hnz). unfold lget in Heq. rewrite Hv, Hl0 in Heq. congruence.
      * right. exists z. split; [apply (descb_new B eB me z HB); left; exact Hd|].
        split; [rewrite (Hseq_old z Hd); exact Sz|].
        intros z' Hd'. apply (descb_new B eB me z' HB) in Hd'. destruct Hd' as [Hd'|(-> & _ & _)].
        -- rewrite (Hseq_old z' Hd'). apply Hmin. exact Hd'.
        -- rewrite Hseq_new. destruct Hd as [Rz Bz]. destruct (reach_in_l _ _ _ Rz) as [ez Ez].
           rewrite (seqv_evt s z ez Ez) in Sz. pose proof (fb_below _ _ _ _ _ F z ez Ez Bz). lia.
    + rewrite Hget, Hs. right. exists (eid e).
      split; [apply (descb_new B eB me (eid e) HB); right; auto|]. split; [exact Hseq_new|].
      intros z' Hd'. apply (descb_new B eB me z' HB) in Hd'. destruct Hd' as [Hd'|(-> & _ & _)]; [|rewrite Hseq_new; lia].
      exfalso. rewrite <- Hget0 in Hz. destruct L0 as [[_ Hnone]|(z & Hd & Sz & _)]; [eapply Hnone; eauto|].
      eapply (la_desc_nonzero B eB bv0 me z); eauto.
  - rewrite Hget, (Hfr B b Hbm), <- Hget0.
    destruct L0 as [[Hz Hnone]|(z & Hd & Sz & Hmin)].
    + left. split; [exact Hz|]. intros z Hd. apply (descb_new B eB b z HB) in Hd.
      destruct Hd as [Hd|(_ & Hb & _)]; [exact (Hnone z Hd)|contradiction].
    + right. exists z. split; [apply (descb_new B eB b z HB); left; exact Hd|].
      split; [rewrite (Hseq_old z Hd); exact Sz|].
      intros z' Hd'. apply (descb_new B eB b z' HB) in Hd'. destruct Hd' as [Hd'|(_ & Hb & _)]; [|contradiction].
      rewrite (Hseq_old z' Hd'). apply Hmin. exact Hd'.
Qed.

Lemma LAok_self b : LAok s' (eid e) b (la_get (la_set (repeat 0 nb0) me (eseq e)) b).
Proof.
  assert (Hseq_new : seqv s' (eid e) = eseq e) by (apply (seqv_evt s'); apply (evt_new_self n s e me s1 nb0 F)).
  assert (Hd : forall z b', descb s' (eid e) b' z -> z = eid e /\ b' = me).
  { intros z b' [R Bz]. destruct (reach_in_l _ _ _ R) as [ez Ez].
    apply (evt_new n s e me s1 nb0 F) in Ez. destruct Ez as [[-> _]|[Hne Ez]].
    - apply (onbr_new n s e me s1 nb0 F) in Bz. destruct Bz as [[_ ->]|[Hc _]]; [auto|contradiction].
    - exfalso. apply (not_reach_new n s e me s1 nb0 G W F z ez Ez). exact R. }
  rewrite la_get_set. destruct (Nat.eqb_spec b me) as [->|Hne].
  - right. exists (eid e). split; [split; [eapply reach_refl; apply (evt_new_self n s e me s1 nb0 F)|apply (onbr_new_self n s e me s1 nb0 F)]|].
    split; [exact Hseq_new|]. intros z' Hz'. destruct (Hd z' me Hz') as [-> _]. rewrite Hseq_new. lia.
  - left. split; [apply la_get_repeat|]. intros z Hz. destruct (Hd z b Hz) as [_ Hb]. contradiction.
Qed.

End StepVec.
