(* C02 through L1, over a whole run: on a valid single-epoch run (Build + Process per event, no sealing policy)
   the blocks of the model, in the order of emission, deliver -- without repetition -- exactly the reference's
   ancestry of their Atropos minus what the EARLIER BLOCKS delivered (delivered_graph from the empty set).
   abft's run invariants (J, good, K) are taken along by its step theorems (step_J, step_good, step_K);
   the additional invariant is  confirmed marks = union of the delivered lists so far. *)
From Coq Require Import NArith ZArith List Lia Bool ZifyBool ZifyN ZifyNat.
From LV Require Import lib.Bytes lib.VecListFacts model.Codec model.VecIndex model.Abft model.AbftRun spec.ElectionSpec
  proofs.AbftDfs proofs.AbftSeal proofs.AbftChain proofs.AbftInv proofs.AbftInvStep proofs.AbftRunInv proofs.AbftGraph proofs.AbftClosedInv
  proofs.BftCore proofs.BftGraph proofs.BftMain proofs.BftRun proofs.BftAccept proofs.BftProps
  proofs.LinkVals proofs.LinkDefs proofs.LinkSim proofs.LinkElect proofs.LinkStep proofs.LinkBuild proofs.LinkRun proofs.LinkNoise proofs.LinkDeliver.
Import ListNotations.
Local Open Scope N_scope.

Lemma delivered_graph_ext T M M' bl : (forall x, M x <-> M' x) -> delivered_graph T M bl -> delivered_graph T M' bl.
Proof.
  revert M M'. induction bl as [|b t IH]; intros M M' H D; cbn [delivered_graph] in *; [exact I|].
  destruct D as [ND [[a [Ia [Ea IN]]] D]]. split; [exact ND|]. split.
  - exists a. split; [exact Ia|]. split; [exact Ea|]. intros x. rewrite IN, H. reflexivity.
  - eapply IH; [|exact D]. intros x. cbn beta. rewrite H. reflexivity.
Qed.
Lemma delivered_graph_incl T T' M bl : incl T T' -> delivered_graph T M bl -> delivered_graph T' M bl.
Proof.
  intros Hi. revert M. induction bl as [|b t IH]; intros M D; cbn [delivered_graph] in *; [exact I|].
  destruct D as [ND [[a [Ia H]] D]]. split; [exact ND|]. split; [exists a; split; [apply Hi; exact Ia | exact H] | apply IH; exact D].
Qed.
Lemma delivered_graph_app T : forall bl1 M bl2, delivered_graph T M bl1 ->
  delivered_graph T (fun x => M x \/ exists b, In b bl1 /\ In x (b_delivered b)) bl2 -> delivered_graph T M (bl1 ++ bl2).
Proof.
  induction bl1 as [|b t IH]; intros M bl2 D1 D2; cbn [app].
  - eapply delivered_graph_ext; [|exact D2]. intros x. split; [intros [H|[b [[] _]]]; exact H | intros H; left; exact H].
  - cbn [delivered_graph] in *. destruct D1 as [ND [A D1]]. split; [exact ND|]. split; [exact A|].
    apply IH; [exact D1|]. eapply delivered_graph_ext; [|exact D2]. intros x. cbn beta. split.
    + intros [H|[b0 [[<-|Hb0] Hx]]]; [left; left; exact H | left; right; exact Hx | right; exists b0; auto].
    + intros [[H|H]|[b0 [Hb0 Hx]]]; [left; exact H | right; exists b; split; [left; reflexivity | exact H] | right; exists b0; split; [right; exact Hb0 | exact Hx]].
Qed.

Definition blocks_in (os : list AbftRun.obs) : list block :=
  flat_map (fun o => match o with ObsP None bl _ _ => bl | _ => [] end) os.

Section DRun.
Variable cap : nat.
Variable lam : fev -> N.
Variable vals : list (N * N).
Hypothesis Hvals : vals_ok vals.
Variable Kb : N.
Notation J0 := (fun _ : N => False).
Notation nv := (length vals).
Notation ae := (to_aevent 1 lam vals).
Notation SimR := (Sim 1 lam vals J0 Kb).

Lemma step_build_keeps i x : l_conf (i_st (snd (fst (step cap [] sample i (OpB x))))) = l_conf (i_st i).
Proof.
  cbn [step]. destruct (guard i x false); [reflexivity|].
  destruct (build_cache cap (i_es i) (i_st i) x) as [c' [E _]].
  destruct (build_with cap sample (i_es i) (i_st i) x) as [r st']. cbn [snd fst i_st] in *. rewrite E. reflexivity.
Qed.

Definition Inv (i : inst) (T : list node) (Dr : list fev) (Bk : list block) : Prop :=
  SimR i T Dr (map blk_obs Bk) /\ AbftInv.J i /\ good (i_st i) /\ AbftClosedInv.K i /\
  (forall x, marked (l_conf (i_st i)) x <-> exists b, In b Bk /\ In x (b_delivered b)) /\
  delivered_graph T (fun _ => False) Bk.

Lemma run_deliver : forall D i T Dr Bk, Inv i T Dr Bk -> codes_ok (snd (add_events vals T D)) ->
  (forall e, In e D -> id_fresh Kb (eid (fe e))) -> few_forkers vals (fst (add_events vals T D)) ->
  l_ctr (i_st i) + N.of_nat (length D) <= Kb -> Kb < 2 ^ 192 ->
  delivered_graph (fst (add_events vals T D)) (fun _ => False) (Bk ++ blocks_in (run cap [] sample i (abft_ops 1 lam vals D))).
Proof.
  induction D as [|e D IH]; intros i T Dr Bk (HS & HJ & HG & HKi & HM & HD) Hc Hf Hff Hctr HK.
  - cbn [abft_ops flat_map run blocks_in add_events fst]. rewrite app_nil_r. exact HD.
  - cbn [add_events] in *. destruct (add_event vals T e) as [T1 r] eqn:AE.
    pose proof (LinkRun.add_events_incl vals D T1) as Inc.
    destruct (add_events vals T1 D) as [T2 rs] eqn:AEs. cbn [fst snd] in *.
    assert (Hr : fst r = 0) by (apply Hc; left; reflexivity). destruct r as [c h]. cbn [fst] in Hr. subst c.
    destruct (add_event_accept vals T e T1 h AE) as (-> & PK & NL & CR & EW & FO).
    assert (Hff1 : few_forkers vals (mk_node nv T e :: T)) by (eapply few_forkers_sub; [exact Inc | exact Hff]).
    change (abft_ops 1 lam vals (e :: D)) with (OpB (ae e) :: OpP (ae e) :: abft_ops 1 lam vals D).
    (* Build *)
    destruct (build_step cap 1 lam vals Hvals J0 Kb (fun a (F : False) => match F with end) i T Dr _ e HS PK CR EW NL FO
                ltac:(cbn [length] in Hctr; lia) ltac:(cbn [length] in Hctr; lia)) as [i1 [EB [HS1 Ct1]]].
    pose proof (step_J cap [] sample i (OpB (ae e)) HJ (proj1 HG) I) as HJ1.
    pose proof (step_good cap [] sample i (OpB (ae e)) HG) as HG1.
    pose proof (step_K cap [] sample i (OpB (ae e)) HJ HG HKi I) as HK1.
    pose proof (step_build_keeps i (ae e)) as Ec1.
    rewrite EB in HJ1, HG1, HK1, Ec1. cbn [fst snd] in HJ1, HG1, HK1, Ec1. specialize (HJ1 eq_refl). specialize (HK1 eq_refl).
    (* Process *)
    destruct (process_step cap 1 lam vals Hvals J0 Kb i1 T Dr _ e HS1 (Hf e (or_introl eq_refl)) (fun F => F) PK NL CR EW FO Hff1)
      as [bl [i2 [EP [HS2 Ct2]]]].
    destruct (deliver_step cap 1 lam vals Hvals J0 Kb [] i1 T Dr _ e HS1 HK1 (Hf e (or_introl eq_refl)) (fun F => F) PK NL CR EW FO Hff1)
      as [bl' [i2' [ldf' [ep' [EP' [DG [MK SL]]]]]]].
    rewrite EP in EP'. inversion EP'; subst bl' i2' ldf' ep'. clear EP'.
    assert (NS : existsb is_sealed bl = false).
    { destruct (existsb is_sealed bl) eqn:X; [|reflexivity]. apply existsb_exists in X as [b [Hb X]]. unfold is_sealed in X.
      rewrite (SL b Hb) in X. discriminate. }
    assert (OW : op_wf i1 (OpP (ae e))).
    { cbn [op_wf]. intros _. destruct HS1 as [_ [S1 [[C1 _ _ _] _]] _ _ _ _ _].
      rewrite (co_vals _ _ _ _ _ _ _ _ C1), (vev_ae 1 lam vals Hvals e CR).
      apply (accepted_wf_new 1 lam vals _ _ T Dr T e C1 PK NL CR EW). }
    pose proof (step_J cap [] sample i1 (OpP (ae e)) HJ1 (proj1 HG1) OW) as HJ2.
    pose proof (step_good cap [] sample i1 (OpP (ae e)) HG1) as HG2.
    pose proof (step_K cap [] sample i1 (OpP (ae e)) HJ1 HG1 HK1 OW) as HK2.
    rewrite EP in HJ2, HG2, HK2. cbn [fst snd] in HJ2, HG2, HK2. specialize (HJ2 eq_refl). specialize (HK2 eq_refl).
    cbn [run]. rewrite EB. cbn [run]. rewrite EP. cbn [blocks_in flat_map app]. fold (blocks_in (run cap [] sample i2 (abft_ops 1 lam vals D))).
    rewrite app_assoc.
    specialize (IH i2 (mk_node nv T e :: T) (e :: Dr) (Bk ++ bl)). rewrite AEs in IH. cbn [fst snd] in IH. apply IH.
    + split; [rewrite map_app; exact HS2|]. split; [exact HJ2|]. split; [exact HG2|]. split; [exact HK2|]. split.
      * intros x. rewrite (MK NS x), Ec1, HM. split.
        -- intros [[b [Hb Hx]]|[b [Hb Hx]]]; exists b; (split; [apply in_or_app; auto | exact Hx]).
        -- intros [b [Hb Hx]]. apply in_app_or in Hb as [Hb|Hb]; [left | right]; exists b; auto.
      * apply delivered_graph_app.
        -- apply (delivered_graph_incl T); [intros y Hy; right; exact Hy | exact HD].
        -- eapply delivered_graph_ext; [|exact DG]. intros x. rewrite Ec1, HM. split; [intros H; right; exact H | intros [[]|H]; exact H].
    + intros r0 Hr0. apply Hc. right. exact Hr0.
    + intros e0 He0. apply Hf. right. exact He0.
    + exact Hff.
    + cbn [length] in Hctr. lia.
    + exact HK.
Qed.

Theorem run_delivers D : valid_run vals D -> (forall e, In e D -> id_fresh Kb (eid (fe e))) -> N.of_nat (length D) <= Kb -> Kb < 2 ^ 192 ->
  delivered_graph (table vals D) (fun _ => False) (blocks_in (run cap [] sample (start 1 vals) (abft_ops 1 lam vals D))).
Proof.
  intros [Hacc Hff] Hf Hc HK. destruct D as [|e0 D0].
  - cbn. exact I.
  - assert (Hnv : (0 < nv)%nat).
    { unfold all_accepted in Hacc. cbn [add_events] in Hacc. destruct (add_event vals [] e0) as [T1 r] eqn:AE. destruct (add_events vals T1 D0) as [T2 rs].
      cbn [snd] in Hacc. assert (Hr : fst r = 0) by (apply Hacc; left; reflexivity). destruct r as [c h]. cbn in Hr. subst c.
      destruct (add_event_accept vals [] e0 T1 h AE) as (_ & _ & _ & CR & _). lia. }
    assert (HI : Inv (start 1 vals) [] [] []).
    { split; [apply (Sim_start 1 lam vals Hvals J0 Kb (fun a (F : False) => match F with end) Hnv)|].
      split; [apply start_J|]. split; [apply start_good|]. split; [apply start_K|]. split; [|exact I].
      intros x. split; [intros M; elim M; reflexivity | intros [b [[] _]]]. }
    apply (run_deliver (e0 :: D0) (start 1 vals) [] [] [] HI Hacc Hf Hff); [cbn [start i_st genesis l_ctr]; lia | exact HK].
Qed.
End DRun.
