(* C13: the event checkers accept exactly the well-formed events, and each error value blames
   the first violated clause.  Proofs over model/EventCheck.v against spec/EventCheckSpec.v. *)
From Coq Require Import NArith ZArith List Bool Lia ZifyBool ZifyNat ZifyN.
From LV Require Import model.EventCheck spec.EventCheckSpec.
Import ListNotations.
Ltac Zify.zify_post_hook ::= Z.div_mod_to_equations.
Local Open Scope N_scope.

(* ------------------------------------------------------------------ list facts *)
Lemma existsb_eqb_In : forall x l, existsb (N.eqb x) l = true <-> In x l.
Proof.
  intros x l. rewrite existsb_exists. split.
  - intros [y [Hy He]]. apply N.eqb_eq in He. subst y. exact Hy.
  - intros H. exists x. split; [exact H | apply N.eqb_refl].
Qed.

Lemma nodup_b_spec : forall l, nodup_b l = true <-> NoDup l.
Proof.
  induction l as [|a l IH]; cbn [nodup_b].
  - split; [constructor | reflexivity].
  - rewrite andb_true_iff, negb_true_iff, IH. split.
    + intros [H1 H2]. constructor; [|exact H2].
      intro Hin. apply existsb_eqb_In in Hin. congruence.
    + intros H. inversion H as [|? ? Hn Hd]; subst. split; [|exact Hd].
      destruct (existsb (N.eqb a) l) eqn:E; [|reflexivity].
      apply existsb_eqb_In in E. contradiction.
Qed.

Lemma set_of_length_le : forall l, (length (set_of l) <= length l)%nat.
Proof.
  induction l as [|a l IH]; cbn [set_of length]; [lia|].
  destruct (existsb (N.eqb a) l); cbn [length]; lia.
Qed.

Lemma set_of_nodup : forall l, length (set_of l) = length l <-> NoDup l.
Proof.
  induction l as [|a l IH]; cbn [set_of].
  - split; [constructor | reflexivity].
  - destruct (existsb (N.eqb a) l) eqn:E.
    + apply existsb_eqb_In in E. split.
      * intros H. pose proof (set_of_length_le l) as Hle. cbn [length] in H. lia.
      * intros H. inversion H; subst. contradiction.
    + cbn [length]. split.
      * intros H. constructor.
        -- intro Hin. apply existsb_eqb_In in Hin. congruence.
        -- apply IH. lia.
      * intros H. inversion H; subst. f_equal. apply IH. assumption.
Qed.

Lemma set_of_distinct_b : forall l,
  Nat.eqb (length (set_of l)) (length l) = nodup_b l.
Proof.
  intros l. destruct (nodup_b l) eqn:E.
  - apply nodup_b_spec in E. apply set_of_nodup in E. rewrite E. apply Nat.eqb_refl.
  - destruct (Nat.eqb (length (set_of l)) (length l)) eqn:E2; [|reflexivity].
    apply Nat.eqb_eq in E2. apply set_of_nodup in E2. apply nodup_b_spec in E2. congruence.
Qed.

Lemma fold_max_lamport : forall ps a,
  fold_left (fun m p => max_lamport2 m (p_lamport p)) ps a = N.max a (list_max (map p_lamport ps)).
Proof.
  induction ps as [|p ps IH]; intros a; cbn [fold_left map list_max fold_right].
  - lia.
  - rewrite IH. unfold max_lamport2. fold (list_max (map p_lamport ps)).
    destruct (N.ltb_spec (p_lamport p) a); lia.
Qed.

Lemma list_max_u32 : forall ps,
  Forall (fun p => u32 (p_seq p) /\ u32 (p_lamport p)) ps -> list_max (map p_lamport ps) < 4294967296.
Proof.
  induction ps as [|p ps IH]; intros H; cbn [map list_max fold_right].
  - lia.
  - inversion H as [|? ? [_ Hp] Hr]; subst. specialize (IH Hr). fold (list_max (map p_lamport ps)).
    unfold u32 in Hp. lia.
Qed.

Lemma existsb_combine_false : forall (A B : Type) (f : A * B -> bool) (la : list A) (lb : list B),
  existsb f (combine la lb) = false <->
  (forall i a b, nth_error la i = Some a -> nth_error lb i = Some b -> f (a, b) = false).
Proof.
  intros A B f. induction la as [|a la IH]; intros lb.
  - cbn. split; [|reflexivity]. intros _ i a b H. destruct i; discriminate.
  - destruct lb as [|b lb].
    + cbn. split; [|reflexivity]. intros _ i a' b' _ H. destruct i; discriminate.
    + cbn [combine existsb]. rewrite orb_false_iff, IH. split.
      * intros [H0 Hr] i a' b' Ha Hb. destruct i as [|i]; cbn in Ha, Hb.
        -- inversion Ha; inversion Hb; subst. exact H0.
        -- eapply Hr; eassumption.
      * intros H. split.
        -- apply (H 0%nat); reflexivity.
        -- intros i a' b' Ha Hb. apply (H (S i)); assumption.
Qed.

(* ------------------------------------------------------------------ reflection of the clauses *)
Lemma in_range_b_spec : forall x, in_range_b x = true <-> in_range x.
Proof. intros x. unfold in_range_b, in_range. lia. Qed.

Lemma c_range_b_spec : forall e, c_range_b e = true <-> c_range e.
Proof.
  intros e. unfold c_range_b, c_range. rewrite !andb_true_iff, !in_range_b_spec. tauto.
Qed.

Lemma all_below_b_spec : forall e, all_below_b e = true <-> all_below e.
Proof. intros e. unfold all_below_b, all_below. lia. Qed.

Lemma c_range_all_below : forall e, c_range_b e = true -> all_below_b e = true.
Proof. intros e. unfold c_range_b, all_below_b, in_range_b. lia. Qed.

Lemma c_present_b_spec : forall e, c_present_b e = true <-> c_present e.
Proof.
  intros e. unfold c_present_b, c_present.
  destruct (N.ltb_spec 1 (e_seq e)) as [H|H].
  - destruct (e_parents e) as [|h r].
    + split; [discriminate|]. intros H'. exfalso. apply (H' H). reflexivity.
    + split; [intros _ _; discriminate | reflexivity].
  - split; [intros _ H'; lia | reflexivity].
Qed.

Lemma c_distinct_b_spec : forall e, c_distinct_b e = true <-> c_distinct e.
Proof. intros e. apply nodup_b_spec. Qed.

Lemma c_epoch_b_spec : forall cur e, c_epoch_b cur e = true <-> c_epoch cur e.
Proof. intros. unfold c_epoch_b, c_epoch. apply N.eqb_eq. Qed.

Lemma c_creator_b_spec : forall vals e, c_creator_b vals e = true <-> c_creator vals e.
Proof. intros. apply existsb_eqb_In. Qed.

Lemma c_lamport_b_spec : forall e ps, c_lamport_b e ps = true <-> c_lamport e ps.
Proof. intros. unfold c_lamport_b, c_lamport. apply N.eqb_eq. Qed.

Lemma selfparent_from_spec : forall e ps i,
  selfparent_from e i ps = true <->
  (forall j p, nth_error ps j = Some p ->
               (p_creator p = e_creator e <-> ((i + j)%nat = 0%nat /\ 1 < e_seq e))).
Proof.
  intros e. induction ps as [|p ps IH]; intros i; cbn [selfparent_from].
  - split; [|reflexivity]. intros _ j p H. destruct j; discriminate.
  - rewrite andb_true_iff, IH, eqb_true_iff. split.
    + intros [H0 Hr] j q Hq. destruct j as [|j]; cbn in Hq.
      * inversion Hq; subst q. rewrite Nat.add_0_r.
        rewrite <- N.eqb_eq, H0, andb_true_iff, Nat.eqb_eq, N.ltb_lt. tauto.
      * specialize (Hr j q Hq). rewrite Hr. lia.
    + intros H. split.
      * specialize (H 0%nat p eq_refl). rewrite Nat.add_0_r in H.
        apply eq_true_iff_eq. rewrite N.eqb_eq, H, andb_true_iff, Nat.eqb_eq, N.ltb_lt. tauto.
      * intros j q Hq. specialize (H (S j) q Hq). rewrite H. lia.
Qed.

Lemma c_selfparent_b_spec : forall e ps, c_selfparent_b e ps = true <-> c_selfparent e ps.
Proof.
  intros e ps. unfold c_selfparent_b, c_selfparent. rewrite selfparent_from_spec.
  split; intros H i p Hp; specialize (H i p Hp); cbn in *; exact H.
Qed.

Lemma c_seq_b_spec : forall e ps, c_seq_b e ps = true <-> c_seq e ps.
Proof.
  intros e ps. unfold c_seq_b, c_seq.
  destruct (N.ltb_spec 1 (e_seq e)) as [H|H].
  - destruct ps as [|p0 rest].
    + split; [discriminate|]. intros H'. destruct (H' H) as [p0 [rest [Hc _]]]. discriminate.
    + rewrite N.eqb_eq. split.
      * intros Hs _. exists p0, rest. split; [reflexivity | exact Hs].
      * intros H'. destruct (H' H) as [q0 [r [Hc Hs]]]. inversion Hc; subst. exact Hs.
  - split; [intros _ H'; lia | reflexivity].
Qed.

Lemma wf_event_b_spec : forall cur vals e ps, wf_event_b cur vals e ps = true <-> wf_event cur vals e ps.
Proof.
  intros. unfold wf_event_b, wf_event.
  rewrite !andb_true_iff, c_range_b_spec, c_present_b_spec, c_distinct_b_spec, c_epoch_b_spec,
    c_creator_b_spec, c_lamport_b_spec, c_selfparent_b_spec, c_seq_b_spec. tauto.
Qed.

Lemma negb_spec_iff : forall b (P : Prop), (b = true <-> P) -> (negb b = true <-> ~ P).
Proof.
  intros [|] P H; cbn; split.
  - discriminate.
  - intros HnP. exfalso. apply HnP. apply H. reflexivity.
  - intros _ HP. apply H in HP. discriminate.
  - reflexivity.
Qed.

Lemma andb_iff_compat : forall b c (P Q : Prop),
  (b = true <-> P) -> (c = true <-> Q) -> (b && c = true <-> P /\ Q).
Proof. intros b c P Q H1 H2. rewrite andb_true_iff, H1, H2. reflexivity. Qed.

Lemma blames_b_spec : forall cur vals e ps k, blames_b cur vals e ps k = true <-> blames cur vals e ps k.
Proof.
  intros cur vals e ps k.
  pose proof (negb_spec_iff _ _ (all_below_b_spec e)) as N0.
  pose proof (negb_spec_iff _ _ (c_range_b_spec e)) as N1.
  pose proof (negb_spec_iff _ _ (c_present_b_spec e)) as N2.
  pose proof (negb_spec_iff _ _ (c_distinct_b_spec e)) as N3.
  pose proof (negb_spec_iff _ _ (c_epoch_b_spec cur e)) as N4.
  pose proof (negb_spec_iff _ _ (c_creator_b_spec vals e)) as N5.
  pose proof (negb_spec_iff _ _ (c_lamport_b_spec e ps)) as N6.
  pose proof (negb_spec_iff _ _ (c_selfparent_b_spec e ps)) as N7.
  pose proof (negb_spec_iff _ _ (c_seq_b_spec e ps)) as N8.
  destruct k; cbn [blames_b blames]; rewrite <- ?andb_assoc;
    try (split; [discriminate | tauto]);
    repeat first
      [ exact N0 | exact N1 | exact N2 | exact N3 | exact N4 | exact N5 | exact N6 | exact N7 | exact N8
      | apply all_below_b_spec | apply c_range_b_spec | apply c_present_b_spec | apply c_distinct_b_spec
      | apply c_epoch_b_spec | apply c_creator_b_spec | apply c_lamport_b_spec
      | apply c_selfparent_b_spec | apply c_seq_b_spec
      | apply andb_iff_compat ].
Qed.

(* ------------------------------------------------------------------ the three checkers *)
Definition basic_cascade (e : event) : result :=
  if negb (all_below_b e) then Err HugeValue else
  if negb (c_range_b e) then Err NotInited else
  if negb (c_present_b e) then Err NoParents else
  if negb (c_distinct_b e) then Err DoubleParents else Ok.

Lemma basic_validate_cascade : forall e, basic_validate e = basic_cascade e.
Proof.
  intros e. unfold basic_validate, basic_cascade, check_limits, check_inited.
  assert (H1 : (limit <=? e_seq e) || (limit <=? e_epoch e) || (limit <=? e_frame e)
               || (limit <=? e_lamport e) = negb (all_below_b e)).
  { unfold all_below_b, limit. lia. }
  rewrite H1. destruct (all_below_b e) eqn:Eb; cbn [negb]; [|reflexivity].
  assert (H2 : (e_seq e <=? 0) || (e_epoch e <=? 0) || (e_frame e <=? 0) || (e_lamport e <=? 0)
               = negb (c_range_b e)).
  { unfold c_range_b, in_range_b. unfold all_below_b in Eb. lia. }
  rewrite H2. destruct (c_range_b e) eqn:Er; cbn [negb]; [|reflexivity].
  assert (H3 : (1 <? e_seq e) && Nat.eqb (length (e_parents e)) 0 = negb (c_present_b e)).
  { unfold c_present_b. destruct (1 <? e_seq e); [|reflexivity].
    destruct (e_parents e); reflexivity. }
  rewrite H3. destruct (c_present_b e) eqn:Ep; cbn [negb]; [|reflexivity].
  rewrite set_of_distinct_b. reflexivity.
Qed.

Definition epoch_cascade (cur : N) (vals : list N) (e : event) : result :=
  if negb (c_epoch_b cur e) then Err NotRelevant else
  if negb (c_creator_b vals e) then Err Auth else Ok.

Lemma epoch_validate_cascade : forall cur vals e, epoch_validate cur vals e = epoch_cascade cur vals e.
Proof. reflexivity. Qed.

Definition parents_cascade (e : event) (ps : list parent) : result :=
  if negb (c_lamport_b e ps) then Err WrongLamport else
  if negb (c_selfparent_b e ps) then Err WrongSelfParent else
  if negb (c_seq_b e ps) then Err WrongSeq else Ok.

(* IsSelfParent on the i-th stored id, when the ids are distinct *)
Lemma is_self_parent_nth : forall e i h,
  NoDup (e_parents e) -> nth_error (e_parents e) i = Some h ->
  is_self_parent e h = (Nat.eqb i 0 && (1 <? e_seq e)).
Proof.
  intros e i h Hnd Hi. unfold is_self_parent, self_parent.
  destruct (N.leb_spec (e_seq e) 1) as [Hs|Hs].
  - replace (1 <? e_seq e) with false by lia. rewrite andb_false_r. reflexivity.
  - replace (1 <? e_seq e) with true by lia. rewrite andb_true_r.
    destruct (e_parents e) as [|h0 r] eqn:Ep; [destruct i; discriminate|].
    destruct i as [|i]; cbn in Hi.
    + inversion Hi; subst. cbn. apply N.eqb_refl.
    + cbn. apply N.eqb_neq. intro Heq. subst h0.
      inversion Hnd as [|? ? Hn _]; subst. apply Hn. eapply nth_error_In. exact Hi.
Qed.

Lemma sp_loop_spec : forall e ps,
  NoDup (e_parents e) -> length (e_parents e) = length ps ->
  existsb (fun hp => xorb (p_creator (snd hp) =? e_creator e) (is_self_parent e (fst hp)))
          (combine (e_parents e) ps) = negb (c_selfparent_b e ps).
Proof.
  intros e ps Hnd Hlen.
  destruct (c_selfparent_b e ps) eqn:Ec; cbn [negb].
  - apply existsb_combine_false. intros i h p Hh Hp. cbn [fst snd].
    rewrite (is_self_parent_nth e i h Hnd Hh).
    unfold c_selfparent_b in Ec. rewrite selfparent_from_spec in Ec. specialize (Ec i p Hp).
    cbn in Ec.
    destruct (p_creator p =? e_creator e) eqn:E1.
    + apply N.eqb_eq in E1. apply Ec in E1. destruct E1 as [-> H1].
      replace (1 <? e_seq e) with true by lia. reflexivity.
    + destruct (Nat.eqb i 0 && (1 <? e_seq e)) eqn:E2; [|reflexivity].
      apply andb_true_iff in E2. destruct E2 as [E2 E3]. apply Nat.eqb_eq in E2. apply N.ltb_lt in E3.
      apply N.eqb_neq in E1. exfalso. apply E1. apply Ec. split; assumption.
  - destruct (existsb _ _) eqn:Ex; [reflexivity|]. exfalso.
    rewrite existsb_combine_false in Ex.
    assert (Hc : c_selfparent_b e ps = true); [|congruence].
    unfold c_selfparent_b. apply selfparent_from_spec. intros i p Hp. cbn.
    assert (Hh : exists h, nth_error (e_parents e) i = Some h).
    { destruct (nth_error (e_parents e) i) eqn:En; [eauto|].
      apply nth_error_None in En. assert (Hl : (i < length ps)%nat).
      { apply nth_error_Some. congruence. } lia. }
    destruct Hh as [h Hh]. specialize (Ex i h p Hh Hp). cbn [fst snd] in Ex.
    rewrite (is_self_parent_nth e i h Hnd Hh) in Ex.
    destruct (p_creator p =? e_creator e) eqn:E1; cbn in Ex.
    + apply N.eqb_eq in E1. apply negb_false_iff in Ex. apply andb_true_iff in Ex.
      destruct Ex as [E2 E3]. apply Nat.eqb_eq in E2. apply N.ltb_lt in E3. tauto.
    + apply N.eqb_neq in E1. split; [tauto|]. intros [H0 H1]. subst i.
      replace (1 <? e_seq e) with true in Ex by lia. discriminate.
Qed.

Lemma parents_validate_cascade : forall e ps,
  typed e ps -> parents_of e ps ->
  c_range_b e = true -> c_present_b e = true -> c_distinct_b e = true ->
  parents_validate e ps = parents_cascade e ps.
Proof.
  intros e ps [Hts [Htl Htp]] Hpo Hr Hp Hd.
  assert (Hlen : length (e_parents e) = length ps).
  { unfold parents_of in Hpo. rewrite <- Hpo. apply map_length. }
  apply c_distinct_b_spec in Hd. unfold c_distinct in Hd.
  unfold parents_validate, parents_cascade.
  rewrite Hlen, Nat.eqb_refl. cbn [negb].
  rewrite fold_max_lamport. pose proof (list_max_u32 ps Htp) as Hmax.
  assert (HL : (e_lamport e =? wrap32 (N.max 0 (list_max (map p_lamport ps)) + 1)) = c_lamport_b e ps).
  { unfold c_lamport_b, wrap32. unfold c_range_b, in_range_b in Hr.
    set (m := list_max (map p_lamport ps)) in *. lia. }
  rewrite HL. destruct (c_lamport_b e ps); cbn [negb]; [|reflexivity].
  rewrite (sp_loop_spec e ps Hd Hlen).
  destruct (c_selfparent_b e ps); cbn [negb]; [|reflexivity].
  unfold c_seq_b. unfold is_self_parent, self_parent.
  unfold c_present_b in Hp.
  destruct (N.leb_spec (e_seq e) 1) as [Hs|Hs].
  - replace (1 <? e_seq e) with false by lia.
    assert (Hs1 : e_seq e = 1). { unfold c_range_b, in_range_b in Hr. lia. }
    rewrite Hs1. reflexivity.
  - replace (1 <? e_seq e) with true in * by lia.
    replace (e_seq e =? 1) with false by lia.
    destruct (e_parents e) as [|h0 r] eqn:Ep; [discriminate|]. cbn [xorb].
    destruct ps as [|p0 rest]; [discriminate|].
    unfold parents_of in Hpo. rewrite Ep in Hpo. cbn in Hpo. inversion Hpo as [[Hid Hrest]].
    rewrite N.eqb_refl. cbn [negb].
    inversion Htp as [|? ? [Hps _] _]; subst.
    assert (HS : (e_seq e =? wrap32 (p_seq p0 + 1)) = (e_seq e =? p_seq p0 + 1)).
    { unfold wrap32. unfold u32 in Hps, Hts. lia. }
    rewrite HS. destruct (e_seq e =? p_seq p0 + 1); reflexivity.
Qed.

(* ------------------------------------------------------------------ Checkers.Validate *)
Definition cascade (cur : N) (vals : list N) (e : event) (ps : list parent) : result :=
  if negb (all_below_b e) then Err HugeValue else
  if negb (c_range_b e) then Err NotInited else
  if negb (c_present_b e) then Err NoParents else
  if negb (c_distinct_b e) then Err DoubleParents else
  if negb (c_epoch_b cur e) then Err NotRelevant else
  if negb (c_creator_b vals e) then Err Auth else
  if negb (c_lamport_b e ps) then Err WrongLamport else
  if negb (c_selfparent_b e ps) then Err WrongSelfParent else
  if negb (c_seq_b e ps) then Err WrongSeq else Ok.

Lemma validate_cascade : forall cur vals e ps,
  typed e ps -> parents_of e ps -> validate cur vals e ps = cascade cur vals e ps.
Proof.
  intros cur vals e ps Ht Hpo. unfold validate, cascade.
  rewrite basic_validate_cascade, epoch_validate_cascade. unfold basic_cascade, epoch_cascade.
  destruct (all_below_b e); cbn [negb]; [|reflexivity].
  destruct (c_range_b e) eqn:Er; cbn [negb]; [|reflexivity].
  destruct (c_present_b e) eqn:Ep; cbn [negb]; [|reflexivity].
  destruct (c_distinct_b e) eqn:Ed; cbn [negb]; [|reflexivity].
  destruct (c_epoch_b cur e); cbn [negb]; [|reflexivity].
  destruct (c_creator_b vals e); cbn [negb]; [|reflexivity].
  rewrite (parents_validate_cascade e ps Ht Hpo Er Ep Ed). reflexivity.
Qed.

Ltac case_on b := destruct b; cbn; try solve [split; intros; congruence].

Lemma cascade_ok : forall cur vals e ps,
  cascade cur vals e ps = Ok <-> wf_event_b cur vals e ps = true.
Proof.
  intros. unfold cascade, wf_event_b. pose proof (c_range_all_below e) as Hab.
  destruct (c_range_b e); [rewrite (Hab eq_refl)|]; cbn;
  case_on (all_below_b e); case_on (c_present_b e); case_on (c_distinct_b e);
  case_on (c_epoch_b cur e); case_on (c_creator_b vals e); case_on (c_lamport_b e ps);
  case_on (c_selfparent_b e ps); case_on (c_seq_b e ps).
Qed.

Lemma cascade_err : forall cur vals e ps k,
  cascade cur vals e ps = Err k <-> blames_b cur vals e ps k = true.
Proof.
  intros. unfold cascade. pose proof (c_range_all_below e) as Hab.
  destruct (c_range_b e) eqn:Er.
  - rewrite (Hab eq_refl). cbn [negb].
    destruct k; cbn [blames_b]; rewrite ?Er, ?(Hab eq_refl); cbn;
    case_on (c_present_b e); case_on (c_distinct_b e);
    case_on (c_epoch_b cur e); case_on (c_creator_b vals e); case_on (c_lamport_b e ps);
    case_on (c_selfparent_b e ps); case_on (c_seq_b e ps).
  - destruct k; cbn [blames_b]; rewrite ?Er;
    destruct (all_below_b e); cbn; split; intros; congruence.
Qed.

(* ------------------------------------------------------------------ the theorems *)
Theorem validate_ok_iff_wf : forall cur vals e ps,
  typed e ps -> parents_of e ps ->
  (validate cur vals e ps = Ok <-> wf_event cur vals e ps).
Proof.
  intros cur vals e ps Ht Hpo. rewrite (validate_cascade cur vals e ps Ht Hpo), cascade_ok.
  apply wf_event_b_spec.
Qed.

Theorem validate_err_iff_blames : forall cur vals e ps k,
  typed e ps -> parents_of e ps ->
  (validate cur vals e ps = Err k <-> blames cur vals e ps k).
Proof.
  intros cur vals e ps k Ht Hpo. rewrite (validate_cascade cur vals e ps Ht Hpo), cascade_err.
  apply blames_b_spec.
Qed.

Theorem validate_answer_ok : forall cur vals e ps,
  typed e ps -> parents_of e ps -> answer_ok cur vals e ps (validate cur vals e ps) = true.
Proof.
  intros cur vals e ps Ht Hpo. destruct (validate cur vals e ps) as [|k] eqn:E; cbn [answer_ok].
  - rewrite (validate_cascade cur vals e ps Ht Hpo) in E. apply cascade_ok. exact E.
  - rewrite (validate_cascade cur vals e ps Ht Hpo) in E. apply cascade_err. exact E.
Qed.

(* the executable verdict is exact: an answer is accepted by the spec iff it is the model's *)
Theorem answer_ok_unique : forall cur vals e ps r,
  typed e ps -> parents_of e ps ->
  (answer_ok cur vals e ps r = true <-> r = validate cur vals e ps).
Proof.
  intros cur vals e ps r Ht Hpo. split.
  - intros H. destruct r as [|k]; cbn [answer_ok] in H; symmetry.
    + rewrite (validate_cascade cur vals e ps Ht Hpo). apply cascade_ok. exact H.
    + rewrite (validate_cascade cur vals e ps Ht Hpo). apply cascade_err. exact H.
  - intros ->. apply validate_answer_ok; assumption.
Qed.

(* the individual checkers *)
Theorem basic_ok_iff : forall e,
  basic_validate e = Ok <-> c_range e /\ c_present e /\ c_distinct e.
Proof.
  intros e. rewrite basic_validate_cascade. unfold basic_cascade.
  rewrite <- c_range_b_spec, <- c_present_b_spec, <- c_distinct_b_spec.
  pose proof (c_range_all_below e) as Hab.
  destruct (c_range_b e); [rewrite (Hab eq_refl)|];
  destruct (all_below_b e), (c_present_b e), (c_distinct_b e); cbn;
    split; try congruence; try tauto; intros [? [? ?]]; congruence.
Qed.

Theorem epoch_ok_iff : forall cur vals e,
  epoch_validate cur vals e = Ok <-> c_epoch cur e /\ c_creator vals e.
Proof.
  intros. rewrite epoch_validate_cascade. unfold epoch_cascade.
  rewrite <- c_epoch_b_spec, <- c_creator_b_spec.
  destruct (c_epoch_b cur e), (c_creator_b vals e); cbn; split; try congruence; try tauto;
    intros [? ?]; congruence.
Qed.

Theorem parents_ok_iff : forall e ps,
  typed e ps -> parents_of e ps -> basic_validate e = Ok ->
  (parents_validate e ps = Ok <-> c_lamport e ps /\ c_selfparent e ps /\ c_seq e ps).
Proof.
  intros e ps Ht Hpo Hb. apply basic_ok_iff in Hb. destruct Hb as [Hr [Hp Hd]].
  apply c_range_b_spec in Hr. apply c_present_b_spec in Hp. apply c_distinct_b_spec in Hd.
  rewrite (parents_validate_cascade e ps Ht Hpo Hr Hp Hd). unfold parents_cascade.
  rewrite <- c_lamport_b_spec, <- c_selfparent_b_spec, <- c_seq_b_spec.
  destruct (c_lamport_b e ps), (c_selfparent_b e ps), (c_seq_b e ps); cbn;
    split; try congruence; try tauto; intros [? [? ?]]; congruence.
Qed.

(* the only way to reach the panic is to break the caller's contract *)
Theorem no_panic : forall cur vals e ps,
  length (e_parents e) = length ps -> validate cur vals e ps <> Err PanicLen.
Proof.
  intros cur vals e ps Hlen. unfold validate.
  rewrite basic_validate_cascade. unfold basic_cascade.
  destruct (all_below_b e); cbn [negb]; [|discriminate].
  destruct (c_range_b e); cbn [negb]; [|discriminate].
  destruct (c_present_b e); cbn [negb]; [|discriminate].
  destruct (c_distinct_b e); cbn [negb]; [|discriminate].
  unfold epoch_validate.
  destruct (negb (e_epoch e =? cur)); [discriminate|].
  destruct (negb (existsb (N.eqb (e_creator e)) vals)); [discriminate|].
  unfold parents_validate. rewrite Hlen, Nat.eqb_refl. cbn [negb].
  destruct (negb _); [discriminate|].
  destruct (existsb _ _); [discriminate|].
  destruct (xorb _ _); [discriminate|].
  unfold self_parent. destruct (e_seq e <=? 1); [discriminate|].
  destruct (e_parents e) as [|h r]; [discriminate|].
  destruct ps as [|p0 rest]; [discriminate|].
  destruct (negb _); [discriminate|]. destruct (negb _); discriminate.
Qed.

Theorem length_mismatch_panics : forall e ps,
  length (e_parents e) <> length ps -> parents_validate e ps = Err PanicLen.
Proof.
  intros e ps H. unfold parents_validate.
  destruct (Nat.eqb (length (e_parents e)) (length ps)) eqn:E; [|reflexivity].
  apply Nat.eqb_eq in E. contradiction.
Qed.
