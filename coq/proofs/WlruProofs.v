(* Proofs about model/Wlru.v: invariants, refinement to spec/LruSpec.v, eviction order,
   conservation of entries (each removed entry reported exactly once).  stdlib style. *)
From Coq Require Import NArith ZArith List Bool Lia Permutation.
From Coq Require Import ZifyBool ZifyNat ZifyN.
From LV Require Import model.Wlru spec.LruSpec.
Import ListNotations.
Local Open Scope N_scope.
Ltac Zify.zify_post_hook ::= Z.div_mod_to_equations.

(* ---------- machine arithmetic ---------- *)
Lemma wadd_exact a b : a + b < two64 -> wadd a b = a + b.
Proof. unfold wadd, two64. intros H. apply N.mod_small. exact H. Qed.

Lemma wsub_exact a b : b <= a -> a < two64 -> wsub a b = a - b.
Proof. unfold wsub, two64. intros H1 H2. lia. Qed.

Definition small (x : N) : Prop := x < 9223372036854775808.   (* 2^63 *)

Lemma z_neg_spec z : z_neg z = (z <? 0)%Z.
Proof. destruct z; reflexivity. Qed.
Lemma z_to_N_spec z : z_to_N z = Z.to_N z.
Proof. destruct z; reflexivity. Qed.

Section Proofs.
  Context {K V : Type}.
  Variable keqb : K -> K -> bool.
  Hypothesis keqb_spec : forall a b, keqb a b = true <-> a = b.

  Notation entry := (entry K V).
  Notation cache := (cache K V).

  Lemma keqb_refl a : keqb a a = true.
  Proof. apply keqb_spec; reflexivity. Qed.
  Lemma keqb_false a b : keqb a b = false <-> a <> b.
  Proof.
    split.
    - intros H E. apply keqb_spec in E. congruence.
    - intros H. destruct (keqb a b) eqn:E; [apply keqb_spec in E; contradiction | reflexivity].
  Qed.

  Definition sumw (l : list entry) : N := fold_right (fun (e : entry) a => e_weight e + a) 0 l.
  Definition ekeys (l : list entry) : list K := map e_key l.

  Lemma sumw_app (a b : list entry) : sumw (a ++ b) = sumw a + sumw b.
  Proof. induction a as [|x a IH]; cbn [sumw fold_right app] in *; [reflexivity|]. fold (sumw (a ++ b)). fold (sumw a). lia. Qed.
  Lemma sumw_cons e l : sumw (e :: l) = e_weight e + sumw l.
  Proof. reflexivity. Qed.
  Lemma sumw_rev l : sumw (rev l) = sumw l.
  Proof. induction l as [|x l IH]; [reflexivity|]. cbn [rev]. rewrite sumw_app, IH, !sumw_cons. cbn [sumw fold_right]. lia. Qed.

  (* ---------- find_entry / remove_key ---------- *)
  Lemma find_entry_some k (l : list entry) e : find_entry keqb k l = Some e -> In e l /\ e_key e = k.
  Proof.
    induction l as [|x l IH]; cbn [find_entry]; [discriminate|].
    destruct (keqb k (e_key x)) eqn:E.
    - intros [= <-]. apply keqb_spec in E. split; [left; reflexivity | congruence].
    - intros H. destruct (IH H) as [H1 H2]. split; [right; exact H1 | exact H2].
  Qed.
  Lemma find_entry_none k (l : list entry) : find_entry keqb k l = None <-> ~ In k (ekeys l).
  Proof.
    induction l as [|x l IH]; cbn [find_entry ekeys map In]; [tauto|].
    destruct (keqb k (e_key x)) eqn:E.
    - apply keqb_spec in E. split; [discriminate | intros H; exfalso; apply H; left; congruence].
    - apply keqb_false in E. fold (ekeys l). rewrite IH. split; [intros H [H1|H1]; [congruence | tauto] | tauto].
  Qed.
  Lemma find_entry_in k (l : list entry) : In k (ekeys l) -> exists e, find_entry keqb k l = Some e.
  Proof.
    intros H. destruct (find_entry keqb k l) eqn:E; [eauto|]. apply find_entry_none in E. contradiction.
  Qed.

  Lemma remove_key_notin k (l : list entry) : ~ In k (ekeys l) -> remove_key keqb k l = l.
  Proof.
    induction l as [|x l IH]; cbn [remove_key ekeys map In]; [reflexivity|]. intros H.
    destruct (keqb k (e_key x)) eqn:E; [apply keqb_spec in E; exfalso; apply H; left; congruence|].
    f_equal. apply IH. fold (ekeys l) in H. tauto.
  Qed.

  (* with distinct keys the entry found splits the list *)
  Lemma find_split k (l : list entry) e : find_entry keqb k l = Some e ->
    exists a b, l = a ++ e :: b /\ remove_key keqb k l = a ++ b /\ ~ In k (ekeys a).
  Proof.
    induction l as [|x l IH]; cbn [find_entry remove_key]; [discriminate|].
    destruct (keqb k (e_key x)) eqn:E.
    - intros [= <-]. exists [], l. repeat split; auto.
    - intros H. destruct (IH H) as (a & b & -> & Hr & Hn). exists (x :: a), b.
      cbn [app]. rewrite Hr. repeat split; auto. cbn [ekeys map In]. apply keqb_false in E.
      intros [H1|H1]; [congruence | contradiction].
  Qed.

  Lemma ekeys_app (a b : list entry) : ekeys (a ++ b) = ekeys a ++ ekeys b.
  Proof. apply map_app. Qed.

  Lemma nodup_split_notin (k : K) (a b : list K) : NoDup (a ++ k :: b) -> ~ In k a /\ ~ In k b /\ NoDup (a ++ b).
  Proof.
    intros H. pose proof (NoDup_remove_1 _ _ _ H) as H1. pose proof (NoDup_remove_2 _ _ _ H) as H2.
    rewrite in_app_iff in H2. tauto.
  Qed.

  (* ---------- the invariant ---------- *)
  Definition inv (c : cache) : Prop :=
    NoDup (ekeys (c_entries c)) /\
    c_weight c = sumw (c_entries c) /\
    sumw (c_entries c) <= c_max_weight c /\
    N.of_nat (length (c_entries c)) <= c_max_size c /\
    c_stuck c = false /\
    small (c_max_weight c).

  (* weaker: what holds between the update of an operation and its normalize *)
  Definition pre_inv (c : cache) : Prop :=
    NoDup (ekeys (c_entries c)) /\
    c_weight c = sumw (c_entries c) /\
    sumw (c_entries c) < two64 /\
    c_stuck c = false /\
    small (c_max_weight c).

  Lemma inv_pre c : inv c -> pre_inv c.
  Proof. unfold inv, pre_inv, small, two64. intros (H1 & H2 & H3 & H4 & H5 & H6). repeat split; auto. lia. Qed.

  (* ---------- the eviction loop ---------- *)
  Lemma over_false mw ms n w : over mw ms n w = false <-> w <= mw /\ N.of_nat n <= ms.
  Proof. unfold over. lia. Qed.

  Lemma evict_loop_spec mw ms (old : list entry) :
    sumw old < two64 ->
    let r := evict_loop mw ms old (sumw old) in
    ev_log r ++ ev_kept r = old /\
    ev_w r = sumw (ev_kept r) /\
    ev_stuck r = false /\
    over mw ms (length (ev_kept r)) (sumw (ev_kept r)) = false /\
    (forall pre x suf, ev_log r = pre ++ x :: suf ->
       over mw ms (length (x :: suf ++ ev_kept r)) (sumw (x :: suf ++ ev_kept r)) = true).
  Proof.
    induction old as [|e rest IH]; intros Hs; cbn zeta.
    - cbn [evict_loop ev_log ev_kept ev_w ev_stuck app sumw fold_right length].
      assert (Ho : over mw ms 0 0 = false) by (unfold over; lia).
      rewrite Ho. repeat split; auto. intros [|? ?] x suf; discriminate.
    - cbn [evict_loop]. destruct (over mw ms (length (e :: rest)) (sumw (e :: rest))) eqn:Ho.
      + assert (Hw : wsub (sumw (e :: rest)) (e_weight e) = sumw rest).
        { rewrite sumw_cons in *. rewrite wsub_exact; lia. }
        rewrite !Hw. rewrite sumw_cons in Hs.
        assert (Hs' : sumw rest < two64) by lia.
        specialize (IH Hs'). cbn zeta in IH. destruct IH as (I1 & I2 & I3 & I4 & I5).
        cbn [ev_log ev_kept ev_w ev_stuck]. repeat split; auto.
        * cbn [app]. f_equal. exact I1.
        * intros pre x suf Hl. destruct pre as [|p pre]; cbn [app] in Hl.
          -- injection Hl as <- <-. rewrite I1. exact Ho.
          -- injection Hl as _ Hl. exact (I5 _ _ _ Hl).
      + cbn [ev_log ev_kept ev_w ev_stuck app]. repeat split; auto.
        intros [|? ?] x suf; discriminate.
  Qed.

  (* normalize from a pre-invariant state establishes the invariant *)
  Lemma nodup_app_r (a b : list K) : NoDup (a ++ b) -> NoDup b.
  Proof. induction a as [|x a IH]; cbn [app]; [auto|]. intros H. inversion H; auto. Qed.

  Lemma nodup_app_l (a b : list K) : NoDup (a ++ b) -> NoDup a.
  Proof.
    induction a as [|x a IH]; cbn [app]; [constructor|]. intros H. inversion H as [|? ? Hn Hd]; subst.
    constructor; [rewrite in_app_iff in Hn; tauto | auto].
  Qed.

  Lemma normalize_spec (c c' : cache) lg n :
    pre_inv c -> normalize c = (c', lg, n) ->
    inv c' /\
    c_max_weight c' = c_max_weight c /\ c_max_size c' = c_max_size c /\
    n = N.of_nat (length lg) /\
    exists ev, lg = map kv (rev ev) /\ c_entries c = c_entries c' ++ ev /\
      (* minimality: every eviction was forced *)
      (forall pre x suf, rev ev = pre ++ x :: suf ->
         over (c_max_weight c) (c_max_size c) (length (x :: suf ++ rev (c_entries c')))
              (sumw (x :: suf ++ rev (c_entries c'))) = true).
  Proof.
    intros (P1 & P2 & P3 & P4 & P5) Hn. unfold normalize in Hn.
    pose proof (evict_loop_spec (c_max_weight c) (c_max_size c) (rev (c_entries c))) as E.
    rewrite sumw_rev in E. specialize (E P3). cbn zeta in E. rewrite <- P2 in E.
    set (r := evict_loop (c_max_weight c) (c_max_size c) (rev (c_entries c)) (c_weight c)) in *.
    destruct E as (E1 & E2 & E3 & E4 & E5).
    injection Hn as <- <- <-.
    assert (Hent : c_entries c = rev (ev_kept r) ++ rev (ev_log r)).
    { rewrite <- rev_app_distr, E1, rev_involutive. reflexivity. }
    split; [|split; [reflexivity | split; [reflexivity | split]]].
    - unfold inv. cbn [c_entries c_weight c_max_weight c_max_size c_stuck].
      apply over_false in E4. rewrite sumw_rev, rev_length.
      repeat split; try tauto; try lia.
      + rewrite Hent, ekeys_app in P1. exact (nodup_app_l _ _ P1).
      + rewrite P4, E3. reflexivity.
    - rewrite map_length. reflexivity.
    - exists (rev (ev_log r)). cbn [c_entries]. rewrite rev_involutive. repeat split; auto.
      intros pre x suf Hl. rewrite rev_involutive. exact (E5 _ _ _ Hl).
  Qed.

  (* ---------- effect of the single operations on the invariant ---------- *)
  Lemma sumw_remove_key k (l : list entry) old :
    find_entry keqb k l = Some old ->
    sumw l = e_weight old + sumw (remove_key keqb k l).
  Proof.
    intros H. destruct (find_split _ _ _ H) as (a & b & -> & -> & _).
    rewrite !sumw_app, sumw_cons. lia.
  Qed.

  Lemma nodup_remove_key k (l : list entry) :
    NoDup (ekeys l) -> NoDup (ekeys (remove_key keqb k l)) /\ ~ In k (ekeys (remove_key keqb k l)).
  Proof.
    intros H. destruct (find_entry keqb k l) as [old|] eqn:F.
    - destruct (find_split _ _ _ F) as (a & b & -> & -> & Hn).
      destruct (find_entry_some _ _ _ F) as [_ Hk].
      rewrite ekeys_app in *. cbn [ekeys map] in H. rewrite Hk in H.
      destruct (nodup_split_notin _ _ _ H) as (H1 & H2 & H3). split; [exact H3|].
      rewrite in_app_iff. tauto.
    - apply find_entry_none in F. rewrite remove_key_notin by exact F. tauto.
  Qed.

  (* the state Add builds before calling normalize *)
  Definition add_mid (k : K) (v : V) (w : N) (c : cache) : cache :=
    match find_entry keqb k (c_entries c) with
    | Some old => mkCache (mkEntry k v w :: remove_key keqb k (c_entries c))
                          (wadd (wsub (c_weight c) (e_weight old)) w)
                          (c_max_weight c) (c_max_size c) (c_stuck c)
    | None => mkCache (mkEntry k v w :: c_entries c) (wadd (c_weight c) w)
                      (c_max_weight c) (c_max_size c) (c_stuck c)
    end.
  Lemma add_unfold k v w c : add keqb k v w c = normalize (add_mid k v w c).
  Proof. unfold add, add_mid. destruct (find_entry keqb k (c_entries c)); reflexivity. Qed.

  Lemma add_mid_spec k v w c :
    inv c -> small w ->
    pre_inv (add_mid k v w c) /\
    c_entries (add_mid k v w c) = mkEntry k v w :: remove_key keqb k (c_entries c) /\
    c_max_weight (add_mid k v w c) = c_max_weight c /\ c_max_size (add_mid k v w c) = c_max_size c.
  Proof.
    intros (I1 & I2 & I3 & I4 & I5 & I6) Hw. unfold add_mid, small, two64 in *.
    destruct (nodup_remove_key k _ I1) as [N1 N2].
    destruct (find_entry keqb k (c_entries c)) as [old|] eqn:F.
    - pose proof (sumw_remove_key _ _ _ F) as Hs.
      unfold pre_inv. cbn [c_entries c_weight c_max_weight c_max_size c_stuck].
      repeat split; auto.
      + cbn [ekeys map]. constructor; assumption.
      + rewrite sumw_cons. cbn [e_weight]. rewrite I2.
        rewrite wsub_exact by (unfold two64; lia). rewrite wadd_exact by (unfold two64; lia). lia.
      + rewrite sumw_cons. cbn [e_weight]. unfold two64. lia.
    - pose proof F as F'. apply find_entry_none in F'. rewrite remove_key_notin by exact F'.
      unfold pre_inv. cbn [c_entries c_weight c_max_weight c_max_size c_stuck].
      repeat split; auto.
      + cbn [ekeys map]. constructor; assumption.
      + rewrite sumw_cons. cbn [e_weight]. rewrite I2. rewrite wadd_exact by (unfold two64; lia). lia.
      + rewrite sumw_cons. cbn [e_weight]. unfold two64. lia.
  Qed.

  Definition op_small (o : op K V) : Prop :=
    match o with
    | OAdd _ _ w | OContainsOrAdd _ _ w | OPeekOrAdd _ _ w => small w
    | OResize mw _ => small mw
    | _ => True
    end.

  Lemma get_inv k c c' r : inv c -> get keqb k c = (c', r) -> inv c'.
  Proof.
    intros I. unfold get. destruct (find_entry keqb k (c_entries c)) as [e|] eqn:F; intros [= <- <-]; [|exact I].
    destruct I as (I1 & I2 & I3 & I4 & I5 & I6).
    destruct (find_split _ _ _ F) as (a & b & Hl & Hr & Hn).
    destruct (find_entry_some _ _ _ F) as [_ Hk].
    destruct (nodup_remove_key k _ I1) as [N1 N2].
    pose proof (sumw_remove_key _ _ _ F) as Hs.
    unfold inv. cbn [c_entries c_weight c_max_weight c_max_size c_stuck].
    repeat split; auto.
    - cbn [ekeys map]. rewrite Hk. constructor; assumption.
    - rewrite sumw_cons. lia.
    - rewrite sumw_cons. lia.
    - rewrite Hl in I4. rewrite Hr. rewrite app_length in I4. cbn [length] in *. rewrite app_length. lia.
  Qed.

  Lemma remove_inv k c c' lg b : inv c -> remove keqb k c = (c', lg, b) -> inv c'.
  Proof.
    intros I. unfold remove. destruct (find_entry keqb k (c_entries c)) as [e|] eqn:F; intros [= <- <- <-]; [|exact I].
    destruct I as (I1 & I2 & I3 & I4 & I5 & I6).
    destruct (find_split _ _ _ F) as (a & b' & Hl & Hr & Hn).
    destruct (nodup_remove_key k _ I1) as [N1 N2].
    pose proof (sumw_remove_key _ _ _ F) as Hs. unfold small in *.
    unfold inv. cbn [c_entries c_weight c_max_weight c_max_size c_stuck].
    repeat split; auto.
    - rewrite I2. rewrite wsub_exact by (unfold two64; lia). lia.
    - lia.
    - rewrite Hl in I4. rewrite Hr. rewrite app_length in I4. cbn [length] in *. rewrite app_length. lia.
  Qed.

  Lemma remove_oldest_inv c c' lg r : inv c -> remove_oldest c = (c', lg, r) -> inv c'.
  Proof.
    intros I. unfold remove_oldest. destruct (rev (c_entries c)) as [|e rest] eqn:R; intros [= <- <- <-]; [exact I|].
    destruct I as (I1 & I2 & I3 & I4 & I5 & I6).
    assert (Hl : c_entries c = rev rest ++ [e]).
    { rewrite <- (rev_involutive (c_entries c)), R. reflexivity. }
    unfold inv, small in *. cbn [c_entries c_weight c_max_weight c_max_size c_stuck].
    rewrite Hl in *. rewrite ekeys_app in I1. rewrite sumw_app, sumw_cons in *. cbn [sumw fold_right] in *.
    rewrite app_length in I4. cbn [length] in I4.
    repeat split; auto.
    - exact (nodup_app_l _ _ I1).
    - rewrite I2. rewrite wsub_exact by (unfold two64; lia). lia.
    - lia.
    - lia.
  Qed.

  Lemma purge_weight (l : list entry) w :
    sumw l <= w -> w < two64 -> fold_left (fun w e => wsub w (e_weight e)) l w = w - sumw l.
  Proof.
    revert w. induction l as [|e l IH]; intros w H1 H2; cbn [fold_left sumw fold_right].
    - lia.
    - fold (sumw l) in *. rewrite sumw_cons in H1. rewrite IH; rewrite wsub_exact; lia.
  Qed.

  Lemma purge_inv c c' lg : inv c -> purge c = (c', lg) -> inv c'.
  Proof.
    intros (I1 & I2 & I3 & I4 & I5 & I6). unfold purge. intros [= <- <-].
    unfold inv, small in *. cbn [c_entries c_weight c_max_weight c_max_size c_stuck ekeys map sumw fold_right length].
    repeat split; auto; try lia; [constructor|].
    rewrite purge_weight; unfold two64; lia.
  Qed.

  Lemma resize_mid_pre mw ms c :
    inv c -> small mw -> pre_inv (mkCache (c_entries c) (c_weight c) mw ms (c_stuck c)).
  Proof.
    intros (I1 & I2 & I3 & I4 & I5 & I6) Hm. unfold pre_inv, small, two64 in *.
    cbn [c_entries c_weight c_max_weight c_max_size c_stuck]. repeat split; auto. lia.
  Qed.

  Theorem step_inv c o c' r lg :
    inv c -> op_small o -> step keqb c o = (c', r, lg) -> inv c'.
  Proof.
    intros I Hs. destruct o; cbn [step op_small] in *.
    - (* add *) rewrite add_unfold. destruct (normalize _) as [[c1 l1] n1] eqn:Hn. intros [= <- <- <-].
      destruct (add_mid_spec k v w c I Hs) as (P & _). exact (proj1 (normalize_spec _ _ _ _ P Hn)).
    - destruct (get keqb k c) as [c1 r1] eqn:G. intros [= <- <- <-]. exact (get_inv _ _ _ _ I G).
    - intros [= <- <- <-]; exact I.
    - intros [= <- <- <-]; exact I.
    - destruct (remove keqb k c) as [[c1 l1] b1] eqn:G. intros [= <- <- <-]. exact (remove_inv _ _ _ _ _ I G).
    - destruct (remove_oldest c) as [[c1 l1] b1] eqn:G. intros [= <- <- <-]. exact (remove_oldest_inv _ _ _ _ I G).
    - intros [= <- <- <-]; exact I.
    - intros [= <- <- <-]; exact I.
    - intros [= <- <- <-]; exact I.
    - intros [= <- <- <-]; exact I.
    - unfold resize.
      destruct (normalize _) as [[c1 l1] n1] eqn:Hn. intros [= <- <- <-].
      exact (proj1 (normalize_spec _ _ _ _ (resize_mid_pre mw (z_to_N ms) c I Hs) Hn)).
    - destruct (purge c) as [c1 l1] eqn:G. intros [= <- <- <-]. exact (purge_inv _ _ _ I G).
    - unfold contains_or_add. destruct (contains keqb k c); [intros [= <- <- <-]; exact I|].
      rewrite add_unfold. destruct (normalize _) as [[c1 l1] n1] eqn:Hn. intros [= <- <- <-].
      destruct (add_mid_spec k v w c I Hs) as (P & _). exact (proj1 (normalize_spec _ _ _ _ P Hn)).
    - unfold peek_or_add. destruct (peek keqb k c); [intros [= <- <- <-]; exact I|].
      rewrite add_unfold. destruct (normalize _) as [[c1 l1] n1] eqn:Hn. intros [= <- <- <-].
      destruct (add_mid_spec k v w c I Hs) as (P & _). exact (proj1 (normalize_spec _ _ _ _ P Hn)).
  Qed.

  Lemma new_inv mw ms c : small mw -> new mw ms = Some c -> inv c.
  Proof.
    intros Hm. unfold new. destruct (z_neg ms); [discriminate|]. intros [= <-].
    unfold inv. cbn [c_entries c_weight c_max_weight c_max_size c_stuck ekeys map sumw fold_right length].
    repeat split; auto; try lia. constructor.
  Qed.

  Theorem run_inv ops : forall c c' tr,
    inv c -> Forall op_small ops -> run keqb c ops = (c', tr) -> inv c'.
  Proof.
    induction ops as [|o ops IH]; intros c c' tr I Hs; cbn [run].
    - intros [= <- <-]; exact I.
    - destruct (step keqb c o) as [[c1 r1] l1] eqn:S. destruct (run keqb c1 ops) as [c2 tr2] eqn:R.
      intros [= <- <-]. inversion Hs as [|? ? H1 H2]; subst.
      exact (IH _ _ _ (step_inv _ _ _ _ _ I H1 S) H2 R).
  Qed.

  (* ---------- refinement to the recency-list specification ---------- *)
  Definition item_of (e : entry) : @item K V := (e_key e, e_val e, e_weight e).
  Definition abs (c : cache) : lru K V :=
    mkLru (map item_of (rev (c_entries c))) (c_max_weight c) (c_max_size c).

  Lemma total_items (l : list entry) : total (map item_of l) = sumw l.
  Proof. induction l as [|e l IH]; [reflexivity|]. cbn [map total fold_right]. fold (total (map item_of l)). rewrite IH. reflexivity. Qed.

  Lemma fits_over mw ms (old : list entry) :
    fits mw ms (map item_of old) = negb (over mw ms (length old) (sumw old)).
  Proof. unfold fits, over. rewrite total_items, map_length. lia. Qed.

  Lemma trim_evict mw ms (old : list entry) :
    sumw old < two64 ->
    trim mw ms (map item_of old) =
      (map item_of (ev_log (evict_loop mw ms old (sumw old))),
       map item_of (ev_kept (evict_loop mw ms old (sumw old)))).
  Proof.
    induction old as [|e rest IH]; intros Hs; [reflexivity|].
    cbn [map trim evict_loop]. change (item_of e :: map item_of rest) with (map item_of (e :: rest)).
    rewrite fits_over. destruct (over mw ms (length (e :: rest)) (sumw (e :: rest))) eqn:Ho; cbn [negb].
    - assert (Hw : wsub (sumw (e :: rest)) (e_weight e) = sumw rest).
      { rewrite sumw_cons in *. rewrite wsub_exact; lia. }
      rewrite Hw. rewrite sumw_cons in Hs. rewrite IH by lia. reflexivity.
    - reflexivity.
  Qed.

  Lemma find_all_false {A} (f : A -> bool) (l : list A) : (forall x, In x l -> f x = false) -> find f l = None.
  Proof.
    induction l as [|x l IH]; intros H; [reflexivity|]. cbn [find]. rewrite (H x (or_introl eq_refl)).
    apply IH. intros y Hy. apply H. right. exact Hy.
  Qed.
  Lemma find_app {A} (f : A -> bool) (a b : list A) :
    find f (a ++ b) = match find f a with Some x => Some x | None => find f b end.
  Proof. induction a as [|x a IH]; [reflexivity|]. cbn [app find]. destruct (f x); [reflexivity | exact IH]. Qed.
  Lemma filter_all_true {A} (f : A -> bool) (l : list A) : (forall x, In x l -> f x = true) -> filter f l = l.
  Proof.
    induction l as [|x l IH]; intros H; [reflexivity|]. cbn [filter]. rewrite (H x (or_introl eq_refl)).
    f_equal. apply IH. intros y Hy. apply H. right. exact Hy.
  Qed.

  Lemma key_test_items k (l : list entry) :
    ~ In k (ekeys l) -> forall it, In it (map item_of (rev l)) -> keqb k (i_key it) = false.
  Proof.
    intros Hn it Hi. apply in_map_iff in Hi. destruct Hi as (e & <- & He). apply in_rev in He.
    apply keqb_false. intros ->. apply Hn. unfold ekeys. apply in_map_iff. exists e. split; [reflexivity | exact He].
  Qed.

  Lemma lookup_rev k (l : list entry) :
    NoDup (ekeys l) ->
    lookup keqb k (map item_of (rev l)) = option_map item_of (find_entry keqb k l).
  Proof.
    intros Hd. unfold lookup. destruct (find_entry keqb k l) as [e|] eqn:F; cbn [option_map].
    - destruct (find_split _ _ _ F) as (a & b & -> & _ & Hn).
      destruct (find_entry_some _ _ _ F) as [_ Hk].
      rewrite ekeys_app in Hd. cbn [ekeys map] in Hd. rewrite Hk in Hd.
      destruct (nodup_split_notin _ _ _ Hd) as (H1 & H2 & _).
      rewrite rev_app_distr. cbn [rev]. rewrite <- app_assoc. cbn [app]. rewrite map_app, find_app.
      rewrite (find_all_false _ _ (key_test_items k b H2)).
      cbn [map find]. change (i_key (item_of e)) with (e_key e). rewrite Hk, keqb_refl. reflexivity.
    - apply find_entry_none in F. apply find_all_false. exact (key_test_items k l F).
  Qed.

  Lemma without_rev k (l : list entry) :
    NoDup (ekeys l) ->
    without keqb k (map item_of (rev l)) = map item_of (rev (remove_key keqb k l)).
  Proof.
    intros Hd. unfold without.
    assert (Hall : forall m : list entry, ~ In k (ekeys m) ->
              filter (fun it : item => negb (keqb k (i_key it))) (map item_of (rev m)) = map item_of (rev m)).
    { intros m Hm. apply filter_all_true. intros it Hi. rewrite (key_test_items k m Hm it Hi). reflexivity. }
    destruct (find_entry keqb k l) as [e|] eqn:F.
    - destruct (find_split _ _ _ F) as (a & b & -> & -> & Hn).
      destruct (find_entry_some _ _ _ F) as [_ Hk].
      rewrite ekeys_app in Hd. cbn [ekeys map] in Hd. rewrite Hk in Hd.
      destruct (nodup_split_notin _ _ _ Hd) as (H1 & H2 & _).
      rewrite !rev_app_distr. cbn [rev]. rewrite <- app_assoc. cbn [app].
      rewrite !map_app, !filter_app. cbn [map filter]. change (i_key (item_of e)) with (e_key e).
      rewrite Hk, keqb_refl. cbn [negb]. rewrite (Hall b H2), (Hall a H1). reflexivity.
    - apply find_entry_none in F. rewrite remove_key_notin by exact F. exact (Hall l F).
  Qed.

  Lemma normalize_abs (c c' : cache) lg n :
    pre_inv c -> normalize c = (c', lg, n) ->
    s_retrim (map item_of (rev (c_entries c))) (c_max_weight c) (c_max_size c) = (abs c', n, lg).
  Proof.
    intros (P1 & P2 & P3 & P4 & P5) Hn. unfold normalize in Hn. unfold s_retrim.
    rewrite trim_evict by (rewrite sumw_rev; exact P3). rewrite sumw_rev, <- P2.
    injection Hn as <- <- <-. unfold abs. cbn [c_entries c_max_weight c_max_size].
    rewrite rev_involutive, !map_length, map_map. reflexivity.
  Qed.

  Lemma add_abs k v w (c c' : cache) lg n :
    inv c -> small w -> add keqb k v w c = (c', lg, n) ->
    s_add keqb k v w (abs c) = (abs c', n, lg).
  Proof.
    intros I Hw Ha. rewrite add_unfold in Ha.
    destruct (add_mid_spec k v w c I Hw) as (P & He & Hmw & Hms).
    pose proof (normalize_abs _ _ _ _ P Ha) as R. rewrite He, Hmw, Hms in R.
    unfold s_add, abs at 1. cbn [s_items s_mw s_ms].
    rewrite without_rev by exact (proj1 I). cbn [rev] in R. rewrite map_app in R. exact R.
  Qed.

  Lemma contains_abs k (c : cache) :
    inv c -> lookup keqb k (s_items (abs c)) = option_map item_of (find_entry keqb k (c_entries c)).
  Proof. intros I. unfold abs. cbn [s_items]. apply lookup_rev. exact (proj1 I). Qed.

  Theorem step_refines c o c' r lg :
    inv c -> op_small o -> step keqb c o = (c', r, lg) ->
    s_step keqb (abs c) o = (abs c', r, lg).
  Proof.
    intros I Hs. pose proof (contains_abs) as CA.
    destruct o; cbn [step s_step op_small] in *.
    - destruct (add keqb k v w c) as [[c1 l1] n1] eqn:A. intros [= <- <- <-].
      rewrite (add_abs _ _ _ _ _ _ _ I Hs A). reflexivity.
    - unfold get. rewrite (CA k c I). destruct (find_entry keqb k (c_entries c)) as [e|] eqn:F; cbn [option_map].
      + intros [= <- <- <-]. unfold abs. cbn [s_items s_mw s_ms c_entries c_max_weight c_max_size].
        rewrite without_rev by exact (proj1 I). cbn [rev]. rewrite map_app. reflexivity.
      + intros [= <- <- <-]. reflexivity.
    - intros [= <- <- <-]. unfold peek. rewrite (CA k c I).
      destruct (find_entry keqb k (c_entries c)); reflexivity.
    - intros [= <- <- <-]. unfold contains. rewrite (CA k c I).
      destruct (find_entry keqb k (c_entries c)); reflexivity.
    - unfold remove. rewrite (CA k c I). destruct (find_entry keqb k (c_entries c)) as [e|] eqn:F; cbn [option_map].
      + intros [= <- <- <-]. unfold abs. cbn [s_items s_mw s_ms c_entries c_max_weight c_max_size].
        rewrite without_rev by exact (proj1 I). reflexivity.
      + intros [= <- <- <-]. reflexivity.
    - unfold remove_oldest, abs. cbn [s_items s_mw s_ms].
      destruct (rev (c_entries c)) as [|e rest] eqn:R; intros [= <- <- <-].
      + cbn [map]. rewrite R. reflexivity.
      + cbn [map c_entries c_max_weight c_max_size]. rewrite rev_involutive. reflexivity.
    - intros [= <- <- <-]. unfold get_oldest, abs. cbn [s_items].
      destruct (rev (c_entries c)); reflexivity.
    - intros [= <- <- <-]. unfold keys, abs. cbn [s_items]. rewrite map_map. reflexivity.
    - intros [= <- <- <-]. unfold len, abs. cbn [s_items]. rewrite map_length, rev_length. reflexivity.
    - intros [= <- <- <-]. unfold weight, abs. cbn [s_items]. rewrite total_items, sumw_rev.
      destruct I as (_ & -> & _). reflexivity.
    - unfold resize.
      destruct (normalize _) as [[c1 l1] n1] eqn:Hn. intros [= <- <- <-].
      pose proof (normalize_abs _ _ _ _ (resize_mid_pre mw (z_to_N ms) c I Hs) Hn) as R.
      cbn [c_entries c_max_weight c_max_size] in R. unfold abs at 1. cbn [s_items]. rewrite R. reflexivity.
    - intros [= <- <- <-]. unfold abs. cbn [s_items s_mw s_ms c_entries c_max_weight c_max_size map rev].
      rewrite map_map, <- map_rev, rev_involutive. reflexivity.
    - unfold contains_or_add, contains. rewrite (CA k c I).
      destruct (find_entry keqb k (c_entries c)); cbn [option_map]; [intros [= <- <- <-]; reflexivity|].
      destruct (add keqb k v w c) as [[c1 l1] n1] eqn:A. intros [= <- <- <-].
      rewrite (add_abs _ _ _ _ _ _ _ I Hs A). reflexivity.
    - unfold peek_or_add, peek. rewrite (CA k c I).
      destruct (find_entry keqb k (c_entries c)); cbn [option_map]; [intros [= <- <- <-]; reflexivity|].
      destruct (add keqb k v w c) as [[c1 l1] n1] eqn:A. intros [= <- <- <-].
      rewrite (add_abs _ _ _ _ _ _ _ I Hs A). reflexivity.
  Qed.

  (* the pinned tree's Resize does not return on a negative size; every other call agrees
     with the repaired one *)
  Lemma resize_old_spec mw ms (c : cache) :
    resize_old mw ms c = if z_neg ms then None else Some (resize mw ms c).
  Proof. reflexivity. Qed.

  Theorem run_refines ops : forall c c' tr,
    inv c -> Forall op_small ops -> run keqb c ops = (c', tr) ->
    s_run keqb (abs c) ops = (abs c', tr).
  Proof.
    induction ops as [|o ops IH]; intros c c' tr I Hs; cbn [run s_run].
    - intros [= <- <-]; reflexivity.
    - destruct (step keqb c o) as [[c1 r1] l1] eqn:S. destruct (run keqb c1 ops) as [c2 tr2] eqn:R.
      intros [= <- <-]. inversion Hs as [|? ? H1 H2]; subst.
      rewrite (step_refines _ _ _ _ _ I H1 S). rewrite (IH _ _ _ (step_inv _ _ _ _ _ I H1 S) H2 R). reflexivity.
  Qed.

  Lemma new_abs mw ms c : new mw ms = Some c -> s_new mw ms = Some (abs c).
  Proof. unfold new, s_new. destruct (z_neg ms); [discriminate|]. intros [= <-]. reflexivity. Qed.

  (* ---------- the property in its own words ---------- *)
  Definition pairs (c : cache) : list (K * V) := map kv (c_entries c).

  (* normalize reports exactly what it drops, oldest first, and never more than forced *)
  Lemma normalize_order (c c' : cache) lg n :
    pre_inv c -> normalize c = (c', lg, n) ->
    map fst lg ++ keys c' = keys c /\ Permutation (lg ++ pairs c') (pairs c).
  Proof.
    intros P Hn. destruct (normalize_spec _ _ _ _ P Hn) as (_ & _ & _ & _ & ev & -> & He & _).
    unfold keys, pairs. rewrite He. split.
    - rewrite rev_app_distr, map_app, map_map. f_equal.
    - rewrite map_app. rewrite map_rev. rewrite Permutation_app_comm.
      apply Permutation_app_head. symmetry. apply Permutation_rev.
  Qed.

  Lemma ekeys_remove_key k (l : list entry) :
    NoDup (ekeys l) -> ekeys (remove_key keqb k l) = filter (fun x => negb (keqb k x)) (ekeys l).
  Proof.
    intros Hd.
    assert (Hall : forall m : list entry, ~ In k (ekeys m) -> filter (fun x => negb (keqb k x)) (ekeys m) = ekeys m).
    { intros m Hm. apply filter_all_true. intros x Hx. destruct (keqb k x) eqn:E; [|reflexivity].
      apply keqb_spec in E. subst. contradiction. }
    destruct (find_entry keqb k l) as [e|] eqn:F.
    - destruct (find_split _ _ _ F) as (a & b & -> & -> & Hn).
      destruct (find_entry_some _ _ _ F) as [_ Hk].
      rewrite !ekeys_app in *. cbn [ekeys map] in *. rewrite Hk in *.
      destruct (nodup_split_notin _ _ _ Hd) as (H1 & H2 & _).
      rewrite filter_app. cbn [filter]. rewrite keqb_refl. cbn [negb].
      fold (ekeys a) (ekeys b). rewrite (Hall a H1), (Hall b H2). reflexivity.
    - apply find_entry_none in F. rewrite remove_key_notin by exact F. symmetry. exact (Hall l F).
  Qed.

  Lemma filter_rev {A} (f : A -> bool) (l : list A) : filter f (rev l) = rev (filter f l).
  Proof.
    induction l as [|x l IH]; [reflexivity|]. cbn [rev filter]. rewrite filter_app, IH. cbn [filter].
    destruct (f x); cbn [rev]; [reflexivity | rewrite app_nil_r; reflexivity].
  Qed.

  Lemma keys_refresh k (l : list entry) (e : entry) :
    NoDup (ekeys l) -> e_key e = k ->
    map e_key (rev (e :: remove_key keqb k l)) = filter (fun x => negb (keqb k x)) (map e_key (rev l)) ++ [k].
  Proof.
    intros Hd Hk. cbn [rev]. rewrite map_app. cbn [map]. rewrite Hk. f_equal.
    rewrite !map_rev. fold (ekeys (remove_key keqb k l)) (ekeys l).
    rewrite ekeys_remove_key by exact Hd. rewrite filter_rev. reflexivity.
  Qed.

  (* Add: the key becomes the newest; what is evicted are the oldest keys, in order; the
     cache afterwards plus the callback log is exactly the old content (minus an overwritten
     value of k) plus the new pair: nothing is lost, nothing reported twice. *)
  Theorem add_lru k v w (c c' : cache) lg n :
    inv c -> small w -> add keqb k v w c = (c', lg, n) ->
    map fst lg ++ keys c' = filter (fun x => negb (keqb k x)) (keys c) ++ [k] /\
    Permutation (lg ++ pairs c') ((k, v) :: map kv (remove_key keqb k (c_entries c))) /\
    n = N.of_nat (length lg).
  Proof.
    intros I Hw Ha. rewrite add_unfold in Ha.
    destruct (add_mid_spec k v w c I Hw) as (P & He & _ & _).
    destruct (normalize_order _ _ _ _ P Ha) as [O1 O2].
    destruct (normalize_spec _ _ _ _ P Ha) as (_ & _ & _ & Hn & _).
    unfold keys at 2 in O1. unfold pairs at 2 in O2. rewrite He in O1, O2.
    rewrite (keys_refresh k _ (mkEntry k v w) (proj1 I) eq_refl) in O1. cbn [map kv e_key e_val] in O2.
    repeat split; assumption.
  Qed.

  (* an entry heavier than the weight bound is evicted by the very Add that inserts it *)
  Theorem add_heavy k v w (c c' : cache) lg n :
    inv c -> small w -> c_max_weight c < w -> add keqb k v w c = (c', lg, n) ->
    In (k, v) lg /\ c_entries c' = [] /\ contains keqb k c' = false.
  Proof.
    intros I Hw Hh Ha. rewrite add_unfold in Ha.
    destruct (add_mid_spec k v w c I Hw) as (P & He & Hmw & _).
    destruct (normalize_spec _ _ _ _ P Ha) as (I' & Hmw' & _ & _ & ev & -> & Hev & _).
    rewrite He in Hev.
    assert (Hnil : c_entries c' = []).
    { destruct (c_entries c') as [|x rest] eqn:E; [reflexivity|exfalso].
      cbn [app] in Hev. injection Hev as <- _.
      destruct I' as (_ & _ & I3 & _). rewrite E, sumw_cons in I3. cbn [e_weight] in I3. lia. }
    split; [|split; [exact Hnil | unfold contains; rewrite Hnil; reflexivity]].
    rewrite Hnil in Hev. cbn [app] in Hev. rewrite <- Hev. cbn [rev]. rewrite map_app. apply in_or_app. right. left. reflexivity.
  Qed.

  (* Get on a present key: value of the entry, key becomes the newest, nothing else moves *)
  Theorem get_lru k (c c' : cache) r :
    inv c -> get keqb k c = (c', r) ->
    match r with
    | Some v => In (k, v) (pairs c) /\ keys c' = filter (fun x => negb (keqb k x)) (keys c) ++ [k] /\
                Permutation (pairs c') (pairs c)
    | None => c' = c /\ ~ In k (keys c)
    end.
  Proof.
    intros I. unfold get. destruct (find_entry keqb k (c_entries c)) as [e|] eqn:F; intros [= <- <-].
    - destruct (find_entry_some _ _ _ F) as [Hi Hk]. repeat split.
      + unfold pairs. apply in_map_iff. exists e. split; [unfold kv; rewrite Hk; reflexivity | exact Hi].
      + unfold keys. cbn [c_entries]. exact (keys_refresh k _ e (proj1 I) Hk).
      + unfold pairs. cbn [c_entries map]. destruct (find_split _ _ _ F) as (a & b & -> & -> & _).
        rewrite !map_app. cbn [map]. apply Permutation_middle.
    - split; [reflexivity|]. apply find_entry_none in F. unfold keys. rewrite map_rev. intros H. apply in_rev in H. contradiction.
  Qed.

  (* the read-only operations leave the cache as it is *)
  Theorem readonly_ops (c : cache) o c' r lg :
    match o with OPeek _ | OContains _ | OGetOldest | OKeys | OLen | OWeight => True | _ => False end ->
    step keqb c o = (c', r, lg) -> c' = c /\ lg = [].
  Proof. destruct o; cbn [step]; intros []; intros [= <- <- <-]; split; reflexivity. Qed.

  Theorem remove_reports k (c c' : cache) lg b :
    inv c -> remove keqb k c = (c', lg, b) ->
    Permutation (lg ++ pairs c') (pairs c) /\
    keys c' = filter (fun x => negb (keqb k x)) (keys c) /\
    (b = true <-> In k (keys c)) /\ (b = false -> lg = []) /\ (b = true -> exists v, lg = [(k, v)]).
  Proof.
    intros I. unfold remove. destruct (find_entry keqb k (c_entries c)) as [e|] eqn:F; intros [= <- <- <-].
    - destruct (find_entry_some _ _ _ F) as [Hi Hk]. repeat split; try discriminate; auto.
      + unfold pairs. cbn [c_entries app]. destruct (find_split _ _ _ F) as (a & b' & -> & -> & _).
        rewrite !map_app. cbn [map]. apply Permutation_middle.
      + unfold keys. cbn [c_entries]. rewrite !map_rev. fold (ekeys (remove_key keqb k (c_entries c))) (ekeys (c_entries c)).
        rewrite ekeys_remove_key by exact (proj1 I). rewrite filter_rev. reflexivity.
      + intros _. unfold keys. rewrite map_rev. apply -> in_rev. apply in_map_iff. exists e. split; assumption.
      + intros _. exists (e_val e). unfold kv. rewrite Hk. reflexivity.
    - apply find_entry_none in F. repeat split; try discriminate; auto.
      + symmetry. unfold keys. rewrite map_rev. fold (ekeys (c_entries c)). rewrite filter_rev. f_equal.
        apply filter_all_true. intros x Hx. destruct (keqb k x) eqn:E; [|reflexivity]. apply keqb_spec in E. subst. contradiction.
      + intros H. exfalso. unfold keys in H. rewrite map_rev in H. apply in_rev in H. contradiction.
  Qed.

  Theorem remove_oldest_reports (c c' : cache) lg r :
    remove_oldest c = (c', lg, r) ->
    match r with
    | Some p => lg = [p] /\ map fst lg ++ keys c' = keys c /\ Permutation (lg ++ pairs c') (pairs c)
    | None => lg = [] /\ c' = c /\ keys c = []
    end.
  Proof.
    unfold remove_oldest, keys, pairs. destruct (rev (c_entries c)) as [|e rest] eqn:R; intros [= <- <- <-].
    - repeat split. 
    - assert (Hl : c_entries c = rev rest ++ [e]).
      { rewrite <- (rev_involutive (c_entries c)), R. reflexivity. }
      repeat split.
      + cbn [c_entries map fst app kv]. rewrite rev_involutive. reflexivity.
      + cbn [c_entries app]. rewrite Hl, map_app. cbn [map]. apply Permutation_cons_append.
  Qed.

  Theorem purge_reports (c c' : cache) lg :
    purge c = (c', lg) -> c_entries c' = [] /\ lg = pairs c.
  Proof. unfold purge. intros [= <- <-]. split; reflexivity. Qed.

  Theorem resize_lru mw ms (c c' : cache) lg n :
    inv c -> small mw -> resize mw ms c = (c', lg, n) ->
    map fst lg ++ keys c' = keys c /\ Permutation (lg ++ pairs c') (pairs c) /\
    n = N.of_nat (length lg) /\ c_max_weight c' = mw /\ c_max_size c' = z_to_N ms.
  Proof.
    intros I Hm. unfold resize. intros Hn.
    pose proof (resize_mid_pre mw (z_to_N ms) c I Hm) as P.
    destruct (normalize_order _ _ _ _ P Hn) as [O1 O2].
    destruct (normalize_spec _ _ _ _ P Hn) as (_ & H1 & H2 & H3 & _).
    repeat split; auto.
  Qed.

  (* every eviction is forced: just before an entry was dropped the cache was over a bound *)
  Theorem add_minimal k v w (c c' : cache) lg n :
    inv c -> small w -> add keqb k v w c = (c', lg, n) ->
    exists ev, lg = map kv (rev ev) /\
      mkEntry k v w :: remove_key keqb k (c_entries c) = c_entries c' ++ ev /\
      forall pre x suf, rev ev = pre ++ x :: suf ->
        over (c_max_weight c) (c_max_size c) (length (x :: suf ++ rev (c_entries c')))
             (sumw (x :: suf ++ rev (c_entries c'))) = true.
  Proof.
    intros I Hw Ha. rewrite add_unfold in Ha.
    destruct (add_mid_spec k v w c I Hw) as (P & He & Hmw & Hms).
    destruct (normalize_spec _ _ _ _ P Ha) as (_ & _ & _ & _ & ev & H1 & H2 & H3).
    exists ev. rewrite He, Hmw, Hms in *. repeat split; assumption.
  Qed.

  (* presence is decided by the KEY, never by the value: whatever value is stored under k (Go's
     nil included -- V is arbitrary), Peek / Contains / PeekOrAdd / ContainsOrAdd find it *)
  Theorem presence_by_key k v w (c : cache) :
    (In k (keys c) ->
       exists v0, In (k, v0) (pairs c) /\ peek keqb k c = Some v0 /\ contains keqb k c = true /\
                  peek_or_add keqb k v w c = (c, [], Some v0, 0) /\
                  contains_or_add keqb k v w c = (c, [], true, 0)) /\
    (~ In k (keys c) ->
       peek keqb k c = None /\ contains keqb k c = false /\
       peek_or_add keqb k v w c = (let '(c', lg, n) := add keqb k v w c in (c', lg, None, n)) /\
       contains_or_add keqb k v w c = (let '(c', lg, n) := add keqb k v w c in (c', lg, false, n))).
  Proof.
    unfold keys, peek_or_add, contains_or_add, contains, peek. rewrite map_rev. split; intros H.
    - apply in_rev in H. destruct (find_entry_in k _ H) as [e F]. rewrite F.
      destruct (find_entry_some _ _ _ F) as [Hi Hk]. exists (e_val e). repeat split; auto.
      unfold pairs. apply in_map_iff. exists e. split; [unfold kv; rewrite Hk; reflexivity | exact Hi].
    - assert (F : find_entry keqb k (c_entries c) = None).
      { apply find_entry_none. intros Hin. apply H. apply -> in_rev. exact Hin. }
      rewrite F. repeat split; reflexivity.
  Qed.

  (* ---------- histories ---------- *)
  (* states reachable from the constructor by any sequence of operations with small weights *)
  Definition reachable (c : cache) : Prop :=
    exists mw ms ops c0 tr, small mw /\ Forall op_small ops /\
      new mw ms = Some c0 /\ run keqb c0 ops = (c, tr).

  Theorem reach_inv c : reachable c -> inv c.
  Proof.
    intros (mw & ms & ops & c0 & tr & Hm & Hs & Hn & Hr).
    exact (run_inv ops _ _ _ (new_inv _ _ _ Hm Hn) Hs Hr).
  Qed.

  (* the bounds in force after a history: those of the last terminating Resize, else the constructor's *)
  Fixpoint bounds_after (b : N * N) (ops : list (op K V)) : N * N :=
    match ops with
    | [] => b
    | OResize mw ms :: r => bounds_after (mw, z_to_N ms) r
    | _ :: r => bounds_after b r
    end.

  Lemma step_bounds c o c' r lg :
    inv c -> op_small o -> step keqb c o = (c', r, lg) ->
    (c_max_weight c', c_max_size c') =
      match o with
      | OResize mw ms => (mw, z_to_N ms)
      | _ => (c_max_weight c, c_max_size c)
      end.
  Proof.
    intros I Hs. destruct o; cbn [step op_small] in *;
      try (intros [= <- <- <-]; reflexivity).
    - rewrite add_unfold. destruct (normalize _) as [[c1 l1] n1] eqn:Hn. intros [= <- <- <-].
      destruct (add_mid_spec k v w c I Hs) as (P & _ & H1 & H2).
      destruct (normalize_spec _ _ _ _ P Hn) as (_ & -> & -> & _). rewrite H1, H2. reflexivity.
    - unfold get. destruct (find_entry keqb k (c_entries c)); intros [= <- <- <-]; reflexivity.
    - unfold remove. destruct (find_entry keqb k (c_entries c)); intros [= <- <- <-]; reflexivity.
    - unfold remove_oldest. destruct (rev (c_entries c)); intros [= <- <- <-]; reflexivity.
    - unfold contains_or_add. destruct (contains keqb k c); [intros [= <- <- <-]; reflexivity|].
      rewrite add_unfold. destruct (normalize _) as [[c1 l1] n1] eqn:Hn. intros [= <- <- <-].
      destruct (add_mid_spec k v w c I Hs) as (P & _ & H1 & H2).
      destruct (normalize_spec _ _ _ _ P Hn) as (_ & -> & -> & _). rewrite H1, H2. reflexivity.
    - unfold peek_or_add. destruct (peek keqb k c); [intros [= <- <- <-]; reflexivity|].
      rewrite add_unfold. destruct (normalize _) as [[c1 l1] n1] eqn:Hn. intros [= <- <- <-].
      destruct (add_mid_spec k v w c I Hs) as (P & _ & H1 & H2).
      destruct (normalize_spec _ _ _ _ P Hn) as (_ & -> & -> & _). rewrite H1, H2. reflexivity.
  Qed.

  Lemma run_bounds_after ops : forall c c' tr,
    inv c -> Forall op_small ops -> run keqb c ops = (c', tr) ->
    (c_max_weight c', c_max_size c') = bounds_after (c_max_weight c, c_max_size c) ops.
  Proof.
    induction ops as [|o ops IH]; intros c c' tr I Hs; cbn [run bounds_after].
    - intros [= <- <-]; reflexivity.
    - destruct (step keqb c o) as [[c1 r1] l1] eqn:S. destruct (run keqb c1 ops) as [c2 tr2] eqn:R.
      intros [= <- <-]. inversion Hs as [|? ? H1 H2]; subst.
      rewrite (IH _ _ _ (step_inv _ _ _ _ _ I H1 S) H2 R). rewrite (step_bounds _ _ _ _ _ I H1 S).
      destruct o; reflexivity.
  Qed.

  (* C29, first sentence: after every operation of every history, for all bounds *)
  Theorem run_bounds mw ms ops c0 c tr :
    small mw -> Forall op_small ops -> new mw ms = Some c0 -> run keqb c0 ops = (c, tr) ->
    let b := bounds_after (mw, z_to_N ms) ops in
    len c <= snd b /\ sumw (c_entries c) <= fst b /\ NoDup (keys c) /\
    weight c = sumw (c_entries c) /\ c_stuck c = false.
  Proof.
    intros Hm Hs Hn Hr. pose proof (new_inv _ _ _ Hm Hn) as I0.
    pose proof (run_inv ops _ _ _ I0 Hs Hr) as (I1 & I2 & I3 & I4 & I5 & I6).
    pose proof (run_bounds_after ops _ _ _ I0 Hs Hr) as Hb.
    assert (Hc0 : (c_max_weight c0, c_max_size c0) = (mw, z_to_N ms)).
    { unfold new in Hn. destruct (z_neg ms); [discriminate|]. injection Hn as <-. reflexivity. }
    rewrite Hc0 in Hb. cbn zeta. rewrite <- Hb. cbn [fst snd]. unfold len, weight, keys.
    repeat split; auto. rewrite map_rev. apply NoDup_rev. exact I1.
  Qed.

  (* refinement, from the constructor *)
  Theorem run_refines_new mw ms ops c0 c tr :
    small mw -> Forall op_small ops -> new mw ms = Some c0 -> run keqb c0 ops = (c, tr) ->
    exists s0, s_new mw ms = Some s0 /\ s_run keqb s0 ops = (abs c, tr).
  Proof.
    intros Hm Hs Hn Hr. exists (abs c0). split; [exact (new_abs _ _ _ Hn)|].
    exact (run_refines ops _ _ _ (new_inv _ _ _ Hm Hn) Hs Hr).
  Qed.

  (* the per-operation theorems, stated for every reachable cache *)
  Corollary add_lru_reach k v w c c' lg n :
    reachable c -> small w -> add keqb k v w c = (c', lg, n) ->
    map fst lg ++ keys c' = filter (fun x => negb (keqb k x)) (keys c) ++ [k] /\
    Permutation (lg ++ pairs c') ((k, v) :: map kv (remove_key keqb k (c_entries c))) /\
    n = N.of_nat (length lg).
  Proof. intros R. exact (add_lru k v w c c' lg n (reach_inv c R)). Qed.
  Corollary add_heavy_reach k v w c c' lg n :
    reachable c -> small w -> c_max_weight c < w -> add keqb k v w c = (c', lg, n) ->
    In (k, v) lg /\ c_entries c' = [] /\ contains keqb k c' = false.
  Proof. intros R. exact (add_heavy k v w c c' lg n (reach_inv c R)). Qed.
  Corollary add_minimal_reach k v w c c' lg n :
    reachable c -> small w -> add keqb k v w c = (c', lg, n) ->
    exists ev, lg = map kv (rev ev) /\
      mkEntry k v w :: remove_key keqb k (c_entries c) = c_entries c' ++ ev /\
      forall pre x suf, rev ev = pre ++ x :: suf ->
        over (c_max_weight c) (c_max_size c) (length (x :: suf ++ rev (c_entries c')))
             (sumw (x :: suf ++ rev (c_entries c'))) = true.
  Proof. intros R. exact (add_minimal k v w c c' lg n (reach_inv c R)). Qed.
  Corollary get_lru_reach k c c' r :
    reachable c -> get keqb k c = (c', r) ->
    match r with
    | Some v => In (k, v) (pairs c) /\ keys c' = filter (fun x => negb (keqb k x)) (keys c) ++ [k] /\
                Permutation (pairs c') (pairs c)
    | None => c' = c /\ ~ In k (keys c)
    end.
  Proof. intros R. exact (get_lru k c c' r (reach_inv c R)). Qed.
  Corollary remove_reports_reach k c c' lg b :
    reachable c -> remove keqb k c = (c', lg, b) ->
    Permutation (lg ++ pairs c') (pairs c) /\
    keys c' = filter (fun x => negb (keqb k x)) (keys c) /\
    (b = true <-> In k (keys c)) /\ (b = false -> lg = []) /\ (b = true -> exists v, lg = [(k, v)]).
  Proof. intros R. exact (remove_reports k c c' lg b (reach_inv c R)). Qed.
  Corollary resize_lru_reach mw ms c c' lg n :
    reachable c -> small mw -> resize mw ms c = (c', lg, n) ->
    map fst lg ++ keys c' = keys c /\ Permutation (lg ++ pairs c') (pairs c) /\
    n = N.of_nat (length lg) /\ c_max_weight c' = mw /\ c_max_size c' = z_to_N ms.
  Proof. intros R. exact (resize_lru mw ms c c' lg n (reach_inv c R)). Qed.
  Corollary step_refines_reach c o c' r lg :
    reachable c -> op_small o -> step keqb c o = (c', r, lg) ->
    s_step keqb (abs c) o = (abs c', r, lg) /\ reachable c'.
  Proof.
    intros R Hs S. split; [exact (step_refines c o c' r lg (reach_inv c R) Hs S)|].
    destruct R as (mw & ms & ops & c0 & tr & Hm & Ho & Hn & Hr).
    exists mw, ms, (ops ++ [o]), c0, (tr ++ [(r, lg)]). repeat split; auto.
    - apply Forall_app. split; [exact Ho | constructor; [exact Hs | constructor]].
    - clear Hn Ho. revert c0 tr Hr. induction ops as [|o' ops IH]; intros c0 tr; cbn [run app].
      + intros [= <- <-]. rewrite S. reflexivity.
      + destruct (step keqb c0 o') as [[c1 r1] l1]. destruct (run keqb c1 ops) as [c2 tr2] eqn:E.
        intros [= <- <-]. rewrite (IH _ _ E). reflexivity.
  Qed.
End Proofs.

(* ---------- the specification read on its own: trim keeps the longest fitting suffix ---------- *)
Section SpecFacts.
  Context {K V : Type}.
  Notation item := (@item K V).

  Lemma trim_split mw ms (l : list item) ev kp : trim mw ms l = (ev, kp) -> ev ++ kp = l.
  Proof.
    revert ev kp. induction l as [|it r IH]; intros ev kp; cbn [trim].
    - intros [= <- <-]; reflexivity.
    - destruct (fits mw ms (it :: r)); [intros [= <- <-]; reflexivity|].
      destruct (trim mw ms r) as [ev' kp'] eqn:T. intros [= <- <-]. cbn [app]. f_equal. apply IH. reflexivity.
  Qed.

  Lemma trim_fits mw ms (l : list item) ev kp : trim mw ms l = (ev, kp) -> fits mw ms kp = true.
  Proof.
    revert ev kp. induction l as [|it r IH]; intros ev kp; cbn [trim].
    - intros [= <- <-]. unfold fits. cbn [total fold_right length]. lia.
    - destruct (fits mw ms (it :: r)) eqn:F; [intros [= <- <-]; exact F|].
      destruct (trim mw ms r) as [ev' kp'] eqn:T. intros [= <- <-]. exact (IH _ _ eq_refl).
  Qed.

  Theorem trim_longest mw ms (l : list item) ev kp :
    trim mw ms l = (ev, kp) ->
    forall ev' kp', ev' ++ kp' = l -> fits mw ms kp' = true -> (length kp' <= length kp)%nat.
  Proof.
    revert ev kp. induction l as [|it r IH]; intros ev kp; cbn [trim].
    - intros [= <- <-] ev' kp' H _. apply app_eq_nil in H. destruct H as [_ ->]. cbn [length]. lia.
    - destruct (fits mw ms (it :: r)) eqn:F.
      + intros [= <- <-] ev' kp' H _. apply (f_equal (@length _)) in H. rewrite app_length in H. lia.
      + destruct (trim mw ms r) as [ev0 kp0] eqn:T. intros [= <- <-] ev' kp' H Hf.
        destruct ev' as [|x ev']; cbn [app] in H.
        * subst kp'. congruence.
        * injection H as _ H. exact (IH _ _ eq_refl _ _ H Hf).
  Qed.
End SpecFacts.

(* ---------- the pinned tree: Resize with a negative size never returns ---------- *)
Example resize_old_refuted :
  forall c : cache N N, resize_old 10 (-1)%Z c = None.
Proof. intros c. reflexivity. Qed.
