(* C30, round 7: the three presentations of the replay scheduler are one.  [sim_script_s] (the stream
   scheduler of C30_model_meets_spec) goes through the same states and event traces as [sim_script]
   (C30_scheduler_is_run, and what the driver renders), and its records are the per-instant slices of
   [sim_script]'s observation buffer (returns with their instants). *)
From Coq Require Import NArith ZArith List Bool Lia.
From LV Require Import model.Semaphore spec.SemaphoreSpec model.SemaphoreStream.
Import ListNotations.

(* returns of an observation buffer, with their instants *)
Definition rets_t (ob : list sobs) : list (Z * (N * bool)) :=
  flat_map (fun o => match o with BRet id ok t => [(t, (id, ok))] | _ => [] end) ob.
Definition rec_rets_t (r : irec) : list (Z * (N * bool)) := map (fun x => (ir_t r, x)) (ir_rets r).

Lemma rets_t_app a b : rets_t (a ++ b) = rets_t a ++ rets_t b.
Proof. unfold rets_t. apply flat_map_app. Qed.

(* ---------- the observation buffer is only ever extended on top ---------- *)
Definition frame (s : sim) (ob0 : list sobs) : sim := (fst s, snd s ++ ob0).

Lemma sim_step_frame fx s now ev ob0 : sim_step fx (frame s ob0) now ev = frame (sim_step fx s now ev) ob0.
Proof.
  destruct s as [[st tr] ob]. unfold frame, sim_step. cbn [fst snd].
  destruct (step fx st now ev) as [st' o]. cbn [fst snd]. now rewrite app_assoc.
Qed.

Lemma drain_frame fx prefer now fuel : forall s ob0,
  drain fx prefer fuel (frame s ob0) now = frame (drain fx prefer fuel s now) ob0.
Proof.
  induction fuel as [|f IH]; intros s ob0; cbn [drain]; [reflexivity|].
  change (fst (fst (frame s ob0))) with (fst (fst s)).
  destruct (pick prefer (woken (fst (fst s)))); [|reflexivity].
  rewrite sim_step_frame. apply IH.
Qed.

Lemma drain_all_frame fx prefer now s ob0 :
  drain_all fx prefer (frame s ob0) now = frame (drain_all fx prefer s now) ob0.
Proof. unfold drain_all. change (fst (fst (frame s ob0))) with (fst (fst s)). apply drain_frame. Qed.

Lemma frame_of s : s = frame (clear_ob s) (snd s).
Proof. destruct s as [[st tr] ob]. reflexivity. Qed.

(* ---------- all returns recorded during an instant carry that instant ---------- *)
Definition at_time (t : Z) (o : sobs) : Prop := match o with BRet _ _ t' => t' = t | _ => True end.

Lemma sim_step_times fx s now ev : Forall (at_time now) (snd s) -> Forall (at_time now) (snd (sim_step fx s now ev)).
Proof.
  destruct s as [[st tr] ob]. unfold sim_step. cbn [fst snd]. destruct (step fx st now ev) as [st' o]. cbn [snd].
  intros H. apply Forall_app. split; [|exact H]. apply Forall_rev.
  induction o as [|x o IH]; cbn [flat_map]; [constructor|]. apply Forall_app. split; [|exact IH].
  destruct x; cbn; repeat constructor.
Qed.

Lemma drain_times fx prefer now fuel : forall s,
  Forall (at_time now) (snd s) -> Forall (at_time now) (snd (drain fx prefer fuel s now)).
Proof.
  induction fuel as [|f IH]; intros s H; cbn [drain]; [exact H|].
  destruct (pick prefer (woken (fst (fst s)))); [|exact H]. apply IH, sim_step_times, H.
Qed.

Lemma rets_t_at ob t : Forall (at_time t) ob -> rets_t ob = map (fun x => (t, x)) (rets_of ob).
Proof.
  induction 1 as [|o ob Ho _ IH]; [reflexivity|]. unfold rets_t, rets_of in *. cbn [flat_map].
  rewrite map_app, IH. f_equal. destruct o; cbn in *; try reflexivity. now subst.
Qed.

(* one instant: first event, optional extra (non-return) observations, drain - old buffer versus emptied buffer *)
Lemma instant_same fx prefer s s' now ev extra :
  fst s = fst s' -> rets_t extra = [] ->
  let mid := sim_step fx s now ev in
  let old := drain_all fx prefer (fst mid, extra ++ snd mid) now in
  let new := drain_all fx prefer (sim_step fx (clear_ob s') now ev) now in
  fst old = fst new /\ rets_t (snd old) = map (fun x => (now, x)) (rets_of (snd new)) ++ rets_t (snd s).
Proof.
  intros E Hx. cbn zeta.
  assert (Es : s = frame (clear_ob s') (snd s)) by (rewrite (frame_of s) at 1; unfold clear_ob; now rewrite E).
  set (m' := sim_step fx (clear_ob s') now ev).
  assert (Em : sim_step fx s now ev = frame m' (snd s)) by (rewrite Es at 1; apply sim_step_frame).
  rewrite Em. cbn [fst snd frame].
  (* the extra observations sit between the instant's own and the old ones: handle by two frames *)
  set (new := drain_all fx prefer m' now).
  assert (Hdr : forall ob1, drain_all fx prefer (fst m', snd m' ++ ob1) now = frame new ob1)
    by (intros ob1; exact (drain_all_frame fx prefer now m' ob1)).
  (* old = drain_all (fst m', extra ++ snd m' ++ snd s): not literally a frame of m' (extra is on top), but
     drain only looks at the state; use the frame lemma on the cleared middle *)
  assert (Hold : drain_all fx prefer (fst m', extra ++ snd m' ++ snd s) now
                 = frame (drain_all fx prefer (clear_ob m') now) (extra ++ snd m' ++ snd s)).
  { exact (drain_all_frame fx prefer now (clear_ob m') (extra ++ snd m' ++ snd s)). }
  assert (Hnew : new = frame (drain_all fx prefer (clear_ob m') now) (snd m')).
  { unfold new. rewrite (frame_of m') at 1. apply drain_all_frame. }
  rewrite Hold, Hnew. cbn [fst snd frame]. split; [reflexivity|].
  set (d := snd (drain_all fx prefer (clear_ob m') now)).
  assert (Ht : Forall (at_time now) (d ++ snd m')).
  { change (d ++ snd m') with (snd (frame (drain_all fx prefer (clear_ob m') now) (snd m'))). rewrite <- Hnew.
    unfold new, drain_all. apply drain_times. unfold m'. apply sim_step_times. constructor. }
  rewrite !rets_t_app, Hx. cbn [app]. rewrite app_assoc, <- rets_t_app, (rets_t_at _ now Ht). reflexivity.
Qed.

Lemma flat_rev_cons (r : irec) l : flat_map rec_rets_t (rev (r :: l)) = flat_map rec_rets_t (rev l) ++ rec_rets_t r.
Proof. cbn [rev]. rewrite flat_map_app. cbn [flat_map]. now rewrite app_nil_r. Qed.

Lemma sim_eta (s : sim) : (fst s, snd s) = s.
Proof. destruct s. reflexivity. Qed.

Lemma timers_same prefer upto fuel : forall s s',
  fst s = fst s' ->
  let sf := fire_timers true prefer fuel s upto in
  let '(s2, l) := fire_timers_s prefer fuel s' upto in
  fst sf = fst s2 /\ rets_t (snd sf) = flat_map rec_rets_t (rev l) ++ rets_t (snd s).
Proof.
  induction fuel as [|f IH]; intros s s' E; cbn [fire_timers fire_timers_s]; [split; [exact E | reflexivity]|].
  rewrite <- E. destruct (min_waiter (waiting (fst (fst s)))) as [x|]; [|split; [exact E | reflexivity]].
  destruct (match upto with Some T => (wdl x <=? T)%Z | None => true end); [|split; [exact E | reflexivity]].
  pose proof (instant_same true prefer s s' (wdl x) (ETimer (wid x)) [] E eq_refl) as H. cbn zeta in H.
  cbn [app] in H. rewrite sim_eta in H.
  set (s1o := drain_all true prefer (sim_step true s (wdl x) (ETimer (wid x))) (wdl x)) in *.
  set (s1n := drain_all true prefer (sim_step true (clear_ob s') (wdl x) (ETimer (wid x))) (wdl x)) in *.
  destruct H as [H1 H2]. specialize (IH s1o s1n H1). cbn zeta in IH.
  destruct (fire_timers_s prefer f s1n upto) as [s2 l]. destruct IH as [I1 I2].
  split; [exact I1|]. rewrite I2, H2, flat_rev_cons. unfold rec_rets_t at 2. cbn [ir_t ir_rets].
  now rewrite app_assoc.
Qed.

Lemma instant_s_same prefer s s' now op :
  fst s = fst s' ->
  let old := sim_op true prefer (timers true prefer s (Some now)) now op in
  let '(s2, l) := sim_instant_s prefer s' now op in
  fst old = fst s2 /\ rets_t (snd old) = flat_map rec_rets_t (rev l) ++ rets_t (snd s).
Proof.
  intros E. cbn zeta. unfold sim_instant_s, timers.
  assert (Efuel : length (waiting (fst (fst s))) = length (waiting (fst (fst s')))) by now rewrite E.
  rewrite <- Efuel.
  pose proof (timers_same prefer (Some now) (S (length (waiting (fst (fst s))))) s s' E) as HT. cbn zeta in HT.
  set (s0 := fire_timers true prefer (S (length (waiting (fst (fst s))))) s (Some now)) in *.
  destruct (fire_timers_s prefer (S (length (waiting (fst (fst s))))) s' (Some now)) as [s1 l].
  destruct HT as [T1 T2].
  assert (Hgen : forall ev extra, rets_t extra = [] ->
            let mid := sim_step true s0 now ev in
            let old := drain_all true prefer (fst mid, extra ++ snd mid) now in
            forall opo,
            fst old = fst (drain_all true prefer (sim_step true (clear_ob s1) now ev) now) /\
            rets_t (snd old) =
            flat_map rec_rets_t (rev (l ++ [mkIR now opo (rets_of (snd (drain_all true prefer (sim_step true (clear_ob s1) now ev) now)))]))
            ++ rets_t (snd s)).
  { intros ev extra Hx mid old opo.
    destruct (instant_same true prefer s0 s1 now ev extra T1 Hx) as [H1 H2]. split; [exact H1|].
    fold mid old in H2. rewrite H2, T2, rev_app_distr. cbn [rev app flat_map]. unfold rec_rets_t at 1. cbn [ir_t ir_rets].
    now rewrite app_assoc. }
  destruct op as [id w timeout | w | w | | ]; cbn [sim_op op_event].
  - specialize (Hgen (ECall id w now timeout) [] eq_refl). cbn zeta in Hgen. cbn [app] in Hgen. rewrite sim_eta in Hgen. apply Hgen.
  - specialize (Hgen (ETry w) [] eq_refl). cbn zeta in Hgen. cbn [app] in Hgen. rewrite sim_eta in Hgen. apply Hgen.
  - specialize (Hgen (ERelease w) [BRelDone] eq_refl). cbn zeta in Hgen.
    destruct (sim_step true s0 now (ERelease w)) as [[st tr] ob]. cbn [fst snd app] in Hgen. apply Hgen.
  - specialize (Hgen ETerminate [] eq_refl). cbn zeta in Hgen. cbn [app] in Hgen. rewrite sim_eta in Hgen. apply Hgen.
  - destruct s0 as [[st tr] ob]. cbn [fst snd] in *. split; [exact T1|].
    change (rets_t (BProc (held st) :: ob)) with (rets_t ob). rewrite T2, rev_app_distr. cbn [rev app flat_map].
    unfold rec_rets_t at 1. cbn [ir_rets map app]. reflexivity.
Qed.

Lemma script_same prefer sc : forall s s',
  fst s = fst s' ->
  rets_t (snd (sim_script true prefer s sc)) = flat_map rec_rets_t (rev (sim_script_s prefer s' sc)) ++ rets_t (snd s).
Proof.
  induction sc as [|[now op] sc IH]; intros s s' E; cbn [sim_script sim_script_s].
  - assert (Efuel : length (waiting (fst (fst s))) = length (waiting (fst (fst s')))) by now rewrite E.
    unfold timers. rewrite <- Efuel.
    pose proof (timers_same prefer None (S (length (waiting (fst (fst s))))) s s' E) as HT. cbn zeta in HT.
    destruct (fire_timers_s prefer (S (length (waiting (fst (fst s))))) s' None) as [s2 l]. cbn [snd]. apply HT.
  - pose proof (instant_s_same prefer s s' now op E) as HI. cbn zeta in HI.
    destruct (sim_instant_s prefer s' now op) as [s1 l]. destruct HI as [H1 H2].
    rewrite (IH _ s1 H1), H2, rev_app_distr, flat_map_app. now rewrite app_assoc.
Qed.

(* The records of [simulate_stream] (C30_model_meets_spec), read as (instant, id, result) triples in
   reverse order, are exactly the returns in the observation buffer of [sim_script] - the scheduler of
   C30_scheduler_is_run whose output the driver renders and compares with the Go semaphore. *)
Theorem stream_is_sim_script c prefer sc :
  let '(st, tr, ob) := sim_script true prefer (init c, [], []) sc in
  rets_t ob = flat_map rec_rets_t (rev (simulate_stream c prefer sc)).
Proof.
  pose proof (script_same prefer sc (init c, [], []) (init c, [], []) eq_refl) as H.
  destruct (sim_script true prefer (init c, [], []) sc) as [[st tr] ob]. cbn [snd] in H.
  unfold simulate_stream. rewrite H. cbn. now rewrite app_nil_r.
Qed.
