(* C12: ValidatorsBigBuilder.  One common shift s = max 0 (bitlen(total) - 31); every scaled
   stake fits (so the uint64/uint32 truncations are the identity and Build never panics),
   order of stakes is kept, and s is the least shift that brings the total below 2^31. *)
From Coq Require Import NArith PeanoNat List Lia Bool Permutation.
From Coq Require Import ZifyBool ZifyNat ZifyN.
From LV Require Import lib.WordArith model.Pos spec.PosSpec.
From LV Require Import proofs.PosMapProofs proofs.PosSortProofs proofs.PosBuildProofs.
Import ListNotations.
Local Open Scope N_scope.

Definition shift_of (T : N) : N := if 31 <? N.size T then N.size T - 31 else 0.

Lemma big_shift_eq m : big_shift m = shift_of (big_total m).
Proof. reflexivity. Qed.

Lemma pow2_31 : 2 ^ 31 = 2147483648. Proof. reflexivity. Qed.

Lemma shift_of_bound T : N.shiftr T (shift_of T) < 2147483648.
Proof.
  rewrite N.shiftr_div_pow2. unfold shift_of. pose proof (N.size_gt T) as Hs.
  destruct (31 <? N.size T) eqn:E.
  - apply N.ltb_lt in E. apply N.div_lt_upper_bound; [apply N.pow_nonzero; discriminate|].
    rewrite <- pow2_31, <- N.pow_add_r. replace (N.size T - 31 + 31) with (N.size T) by lia. exact Hs.
  - apply N.ltb_ge in E. rewrite N.pow_0_r, N.div_1_r. rewrite <- pow2_31.
    eapply N.lt_le_trans; [exact Hs|]. apply N.pow_le_mono_r; [discriminate|exact E].
Qed.

Lemma shift_of_minimal T : 0 < shift_of T -> 2147483648 <= N.shiftr T (shift_of T - 1).
Proof.
  unfold shift_of. destruct (31 <? N.size T) eqn:E; [|lia]. apply N.ltb_lt in E. intros _.
  rewrite N.shiftr_div_pow2.
  assert (HT : T <> 0) by (intros H; subst T; cbn in E; lia).
  assert (Hsz : N.size T = N.succ (N.log2 T)) by (apply N.size_log2; exact HT).
  assert (Hlo : 2 ^ N.log2 T <= T) by (apply N.log2_spec; lia).
  apply N.div_le_lower_bound; [apply N.pow_nonzero; discriminate|].
  rewrite <- pow2_31, <- N.pow_add_r.
  replace (N.size T - 31 - 1 + 31) with (N.log2 T) by lia. exact Hlo.
Qed.

Lemma shift_ok_shift_of T : shift_ok T (shift_of T) = true.
Proof.
  unfold shift_ok. rewrite andb_true_iff, orb_true_iff, N.ltb_lt, N.eqb_eq, N.leb_le.
  split; [apply shift_of_bound|]. destruct (N.eq_dec (shift_of T) 0) as [E|E]; [left; exact E|right].
  apply shift_of_minimal. lia.
Qed.

(* the specification pins the shift: at most one s is acceptable *)
Lemma shift_ok_unique T s1 s2 : shift_ok T s1 = true -> shift_ok T s2 = true -> s1 = s2.
Proof.
  assert (G : forall a b, shift_ok T a = true -> shift_ok T b = true -> a < b -> False).
  { intros a b Ha Hb L. unfold shift_ok in *. rewrite andb_true_iff, orb_true_iff, N.ltb_lt, N.eqb_eq, N.leb_le in *.
    destruct Ha as [Ha _]. destruct Hb as [_ [Hb|Hb]]; [lia|].
    rewrite !N.shiftr_div_pow2 in *.
    assert (Hm : T / 2 ^ (b - 1) <= T / 2 ^ a).
    { apply N.div_le_compat_l. split; [assert (2 ^ a <> 0) by (apply N.pow_nonzero; discriminate); lia|].
      apply N.pow_le_mono_r; [discriminate|lia]. }
    lia. }
  intros H1 H2. destruct (N.lt_trichotomy s1 s2) as [L|[L|L]]; [exfalso; exact (G s1 s2 H1 H2 L)|exact L|exfalso; exact (G s2 s1 H2 H1 L)].
Qed.

Lemma shiftr_mono a b s : a <= b -> N.shiftr a s <= N.shiftr b s.
Proof. intros H. rewrite !N.shiftr_div_pow2. apply N.div_le_mono; [apply N.pow_nonzero; discriminate|exact H]. Qed.

Lemma div_add_le a b d : d <> 0 -> a / d + b / d <= (a + b) / d.
Proof.
  intros Hd. apply N.div_le_lower_bound; [exact Hd|].
  pose proof (N.mul_div_le a d Hd). pose proof (N.mul_div_le b d Hd). lia.
Qed.

Definition shifted (s : N) (m : vmap) : vmap := map (fun p => (fst p, N.shiftr (snd p) s)) m.

Lemma sum_shifted_le s m : sum_weights (shifted s m) <= N.shiftr (sum_weights m) s.
Proof.
  unfold sum_weights, shifted. induction m as [|p m IH]; cbn [map fold_right snd]; [rewrite N.shiftr_0_l; lia|].
  rewrite !N.shiftr_div_pow2 in *.
  pose proof (div_add_le (snd p) (fold_right (fun p acc => snd p + acc) 0 m) (2 ^ s)) as H.
  assert (Hnz : 2 ^ s <> 0) by (apply N.pow_nonzero; discriminate). specialize (H Hnz). lia.
Qed.

Lemma member_le_sum p m : In p m -> snd p <= sum_weights m.
Proof.
  unfold sum_weights. induction m as [|q m IH]; cbn [In fold_right]; [tauto|].
  intros [E|H]; [subst; lia|specialize (IH H); lia].
Qed.

(* the truncations Uint64() and Weight() are the identity on every scaled stake *)
Lemma big_weight_exact m p : In p m -> big_weight (big_shift m) (snd p) = N.shiftr (snd p) (big_shift m).
Proof.
  intros Hin. unfold big_weight. rewrite big_shift_eq.
  pose proof (shift_of_bound (big_total m)) as Hb.
  pose proof (shiftr_mono (snd p) (big_total m) (shift_of (big_total m)) (member_le_sum p m Hin)) as Hm.
  rewrite wrap64_small by (unfold two64; lia). apply wrap32_small. unfold two32. lia.
Qed.

Lemma big_sets_shifted m : big_sets m = shifted (big_shift m) m.
Proof.
  unfold big_sets, shifted. apply map_ext_in. intros p Hp. rewrite (big_weight_exact m p Hp). reflexivity.
Qed.

Lemma big_fits m :
  sum_weights (big_sets m) <= max_total /\ Forall (fun p => snd p < 2147483648) (big_sets m).
Proof.
  rewrite big_sets_shifted. pose proof (shift_of_bound (big_total m)) as Hb.
  pose proof (sum_shifted_le (big_shift m) m) as Hs. rewrite big_shift_eq in *.
  change (big_total m) with (sum_weights m) in *.
  split; [unfold max_total; lia|]. rewrite Forall_forall. intros q Hq.
  pose proof (member_le_sum q _ Hq). lia.
Qed.

(* ---- a list with distinct keys (zeros allowed) through Set calls ---- *)
Definition nz (p : N * N) : bool := negb (snd p =? 0).

Lemma keys_filter_incl f (m : vmap) k : In k (keys (filter f m)) -> In k (keys m).
Proof.
  unfold keys. rewrite !in_map_iff. intros [p [Hp Hin]]. apply filter_In in Hin. exists p. tauto.
Qed.

Lemma apply_sets_nodup l acc : NoDup (keys (l ++ acc)) ->
  apply_sets l acc = rev (filter nz l) ++ acc.
Proof.
  revert acc. induction l as [|[i w] l IH]; intros acc H; [reflexivity|].
  cbn [apply_sets fold_left fst snd filter]. unfold nz at 1. cbn [snd].
  assert (Hni : ~ In i (keys acc)).
  { cbn [app keys map fst] in H. inversion H as [|? ? Hn _]; subst.
    intros Hin. apply Hn. unfold keys in *. rewrite map_app. apply in_or_app. right. exact Hin. }
  assert (Hnd : NoDup (keys (l ++ acc))) by (cbn [app keys map fst] in H; inversion H; assumption).
  unfold vset. destruct (N.eqb_spec w 0) as [E|E]; cbn [negb].
  - rewrite (vremove_notin i acc Hni). apply IH. exact Hnd.
  - rewrite (vremove_notin i acc Hni). cbn [rev]. rewrite <- app_assoc. cbn [app]. unfold apply_sets in IH. apply IH.
    apply (Permutation_NoDup (l := keys (((i, w) :: l) ++ acc))); [|exact H].
    unfold keys. rewrite !map_app. cbn [map fst app]. apply Permutation_middle.
Qed.

Lemma filter_nz_ok m : NoDup (keys m) -> vmap_ok (filter nz m).
Proof.
  intros H. split.
  - unfold keys in *. induction m as [|p m IH]; cbn [filter map]; [constructor|].
    inversion H as [|? ? Hn Hd]; subst. destruct (nz p); [|apply IH; exact Hd].
    cbn [map]. constructor; [|apply IH; exact Hd]. intros Hin. apply Hn.
    apply (keys_filter_incl nz m). exact Hin.
  - rewrite Forall_forall. intros p Hp. apply filter_In in Hp. destruct Hp as [_ Hp].
    unfold nz in Hp. apply negb_true_iff, N.eqb_neq in Hp. exact Hp.
Qed.

Lemma eff_pairs_nodup_keys m : NoDup (keys m) -> Permutation (eff_pairs m) (filter nz m).
Proof.
  intros H. eapply Permutation_trans; [apply Permutation_sym, apply_sets_eff_pairs|].
  rewrite apply_sets_nodup by (rewrite app_nil_r; exact H). rewrite app_nil_r.
  apply Permutation_sym, Permutation_rev.
Qed.

Lemma sum_weights_filter_nz m : sum_weights (filter nz m) = sum_weights m.
Proof.
  unfold sum_weights. induction m as [|p m IH]; cbn [filter fold_right]; [reflexivity|].
  unfold nz at 1. destruct (N.eqb_spec (snd p) 0) as [E|E]; cbn [negb fold_right]; lia.
Qed.

Lemma shifted_keys s m : keys (shifted s m) = keys m.
Proof. unfold keys, shifted. rewrite map_map. reflexivity. Qed.

Lemma filter_perm {A} (f : A -> bool) l1 l2 : Permutation l1 l2 -> Permutation (filter f l1) (filter f l2).
Proof.
  induction 1 as [|x l l' _ IH|x y l|l l' l'' _ IH1 _ IH2]; cbn [filter].
  - constructor.
  - destruct (f x); [apply perm_skip|]; exact IH.
  - destruct (f x), (f y); try apply Permutation_refl. apply perm_swap.
  - eapply Permutation_trans; eassumption.
Qed.

(* ---- the big builder against the specification ---- *)
Theorem big_build_spec ops :
  let s := shift_of (spec_total ops) in
  shift_ok (spec_total ops) s = true /\
  exists vs, big_build ops = Some vs /\
             v_cache vs = cache_of (vsort (big_spec_pairs ops s)) /\
             Permutation (v_values vs) (big_spec_pairs ops s).
Proof.
  intros s. split; [apply shift_ok_shift_of|].
  set (m := apply_sets ops []).
  assert (Hm : vmap_ok m) by (apply apply_sets_ok, vmap_ok_nil).
  assert (HPm : Permutation m (eff_pairs ops)) by apply apply_sets_eff_pairs.
  assert (HT : big_total m = spec_total ops) by (apply sum_weights_perm; exact HPm).
  assert (Hs : big_shift m = s) by (rewrite big_shift_eq, HT; reflexivity).
  unfold big_build. fold m.
  assert (Hkeys : NoDup (keys (big_sets m))) by (rewrite big_sets_shifted, shifted_keys; apply Hm).
  assert (Hfit : weights_fit (big_sets m)).
  { destruct (big_fits m) as [_ Hf]. unfold weights_fit. rewrite Forall_forall in *. intros p Hp.
    specialize (Hf p Hp). unfold two32. lia. }
  assert (HPe : Permutation (eff_pairs (big_sets m)) (big_spec_pairs ops s)).
  { eapply Permutation_trans; [apply eff_pairs_nodup_keys; exact Hkeys|].
    rewrite big_sets_shifted, Hs. unfold big_spec_pairs, shifted. apply filter_perm. apply Permutation_map. exact HPm. }
  pose proof (build_spec (big_sets m) Hfit) as Hb.
  destruct (build (big_sets m)) as [vs|].
  - destruct Hb as [_ [Hc Hv]]. exists vs. split; [reflexivity|]. split.
    + rewrite Hc. rewrite (vsort_perm_eq _ _ HPe). reflexivity.
    + eapply Permutation_trans; [exact Hv|exact HPe].
  - exfalso. unfold spec_total in Hb.
    rewrite (sum_weights_perm _ _ (eff_pairs_nodup_keys _ Hkeys)), sum_weights_filter_nz in Hb.
    destruct (big_fits m) as [Hle _]. lia.
Qed.

Corollary big_never_panics ops : big_build ops <> None.
Proof. destruct (big_build_spec ops) as [_ [vs [H _]]]. congruence. Qed.

(* stated on the scaled weights themselves *)
Theorem big_weights ops : let s := shift_of (spec_total ops) in
  sum_weights (shifted s (eff_pairs ops)) <= max_total /\
  (forall p, In p (eff_pairs ops) -> N.shiftr (snd p) s < 2147483648) /\
  (forall p q, In p (eff_pairs ops) -> In q (eff_pairs ops) -> snd p <= snd q ->
               N.shiftr (snd p) s <= N.shiftr (snd q) s) /\
  (0 < s -> 2147483648 <= N.shiftr (spec_total ops) (s - 1)).
Proof.
  intros s. pose proof (shift_of_bound (spec_total ops)) as Hb. fold s in Hb.
  split; [|split; [|split]].
  - pose proof (sum_shifted_le s (eff_pairs ops)) as H. unfold spec_total in Hb. unfold max_total. lia.
  - intros p Hp. pose proof (shiftr_mono _ _ s (member_le_sum p _ Hp)). unfold spec_total in Hb. lia.
  - intros p q _ _ H. apply shiftr_mono. exact H.
  - apply shift_of_minimal.
Qed.

(* ---- Go map iteration order is irrelevant ---- *)
(* newValidators / sortedArray / ValidatorsBigBuilder.Build range over Go maps in an unspecified
   order; the model ranges over the association list front to back.  Any other order of the
   same entries gives the same result. *)
Lemma eff_nodup_perm l1 l2 id : NoDup (keys l1) -> Permutation l1 l2 -> eff l1 id = eff l2 id.
Proof.
  intros Hnd HP.
  assert (Hnd2 : NoDup (keys l2)).
  { unfold keys in *. apply (Permutation_NoDup (l := map fst l1)); [apply Permutation_map; exact HP|exact Hnd]. }
  rewrite <- !vget_eff.
  rewrite (apply_sets_nodup l1 []) by (rewrite app_nil_r; exact Hnd).
  rewrite (apply_sets_nodup l2 []) by (rewrite app_nil_r; exact Hnd2).
  rewrite !app_nil_r. apply vget_perm.
  - apply (vmap_ok_perm (filter nz l1)); [apply filter_nz_ok; exact Hnd|apply Permutation_rev].
  - eapply Permutation_trans; [apply Permutation_sym, Permutation_rev|].
    eapply Permutation_trans; [apply filter_perm; exact HP|apply Permutation_rev].
Qed.

Theorem big_map_order_irrelevant m m' : vmap_ok m -> Permutation m m' ->
  option_map v_cache (build (big_sets m)) = option_map v_cache (build (big_sets m')).
Proof.
  intros Hok HP. apply build_canonical. intros id.
  assert (Hs : big_shift m = big_shift m').
  { rewrite !big_shift_eq. f_equal. apply sum_weights_perm. exact HP. }
  apply eff_nodup_perm.
  - unfold big_sets, keys. rewrite map_map. cbn [fst]. apply Hok.
  - unfold big_sets. rewrite Hs. apply Permutation_map. exact HP.
Qed.
