(* Non-vacuity of L1: a concrete valid run inside the side conditions of link_full — the 48-event,
   4-validator DAG of proofs/BftProps.v (one forking validator, two decided blocks), with the
   validators listed in canonical order and ids outside the temporary-id range.  The equality that
   link_full proves for ALL such runs is also confirmed here by evaluation. *)
From Coq Require Import NArith List Bool Lia.
From LV Require Import model.VecIndex model.Abft model.AbftRun spec.ElectionSpec
  proofs.BftGraph proofs.BftRun proofs.BftMain proofs.BftAccept proofs.BftProps proofs.LinkVals proofs.LinkDefs proofs.LinkFresh proofs.LinkRun.
Import ListNotations.
Local Open Scope N_scope.

Definition ex2_vals : list (N * N) := [(5, 4); (9, 4); (37094, 4); (2805340295, 4)].
Definition ex2_perm (c : nat) : nat := match c with 0 => 1 | 1 => 3 | 2 => 0 | _ => 2 end%nat.
Definition ex2_D : list fev :=
  map (fun e => mkev (eid (fe e) + 1000) (ex2_perm (ecr (fe e))) (eseq (fe e)) (ffr e) (map (N.add 1000) (epar (fe e)))) ex_D.

Example ex2_vals_ok : vals_ok ex2_vals.
Proof. split; [vm_compute; reflexivity | vm_compute; reflexivity]. Qed.
Example ex2_valid : valid_run ex2_vals ex2_D.
Proof. split; [apply codes_ok_dec; vm_compute; reflexivity | unfold few_forkers; vm_compute; reflexivity]. Qed.
Example ex2_fresh : ids_fresh ex2_D.
Proof. apply ids_fresh_b. vm_compute. reflexivity. Qed.
Example ex2_side : link_side ex2_vals ex2_D.
Proof. split; [exact ex2_vals_ok|]. split; [exact ex2_fresh | vm_compute; reflexivity]. Qed.
Example ex2_blocks : snd (reference ex2_vals ex2_D) = [(1, 1000, []); (2, 1015, [37094])].
Proof. vm_compute. reflexivity. Qed.
Example ex2_has_forker : existsb (forker (table ex2_vals ex2_D)) (seq 0 4) = true.
Proof. vm_compute. reflexivity. Qed.
(* the instance of the theorem, and the same equality by running the model *)
Example ex2_refines : abft_run 200 (fun _ => 0) ex2_vals ex2_D = reference ex2_vals ex2_D.
Proof. exact (link_full 200 (fun _ => 0) ex2_vals ex2_D ex2_side ex2_valid). Qed.
Example ex2_refines_by_evaluation : abft_run 200 (fun _ => 0) ex2_vals ex2_D = reference ex2_vals ex2_D.
Proof. vm_compute. reflexivity. Qed.

(* the hypotheses of C01 for the model: a reordering and an ancestor-closed subset of the run *)
Definition ex2_map (D : list fev) : list fev :=
  map (fun e => mkev (eid (fe e) + 1000) (ex2_perm (ecr (fe e))) (eseq (fe e)) (ffr e) (map (N.add 1000) (epar (fe e)))) D.
Example ex2_reordered : incl (ex2_map ex_D') ex2_D /\ incl ex2_D (ex2_map ex_D') /\
  NoDup (ids_of (ex2_map ex_D')) /\ parents_first (ex2_map ex_D').
Proof.
  split; [apply (incl_dec fev_eqb fev_eqb_eq); vm_compute; reflexivity|].
  split; [apply (incl_dec fev_eqb fev_eqb_eq); vm_compute; reflexivity|].
  split; [apply nodup_dec; vm_compute; reflexivity | apply parents_first_dec; vm_compute; reflexivity].
Qed.
Example ex2_subset : incl (ex2_map ex_Dsub) ex2_D /\ NoDup (ids_of (ex2_map ex_Dsub)) /\ parents_first (ex2_map ex_Dsub) /\
  snd (abft_run 200 (fun _ => 0) ex2_vals (ex2_map ex_Dsub)) = [(1, 1000, [])].
Proof.
  split; [apply (incl_dec fev_eqb fev_eqb_eq); vm_compute; reflexivity|].
  split; [apply nodup_dec; vm_compute; reflexivity|].
  split; [apply parents_first_dec; vm_compute; reflexivity | vm_compute; reflexivity].
Qed.

(* ---------- the same DAG with the validators listed in a non-canonical order (the list of
   proofs/BftProps.v): inside the side conditions of link_full_raw ---------- *)
From LV Require Import proofs.LinkPerm proofs.LinkRaw.
Definition ex3_D : list fev :=
  map (fun e => mkev (eid (fe e) + 1000) (ecr (fe e)) (eseq (fe e)) (ffr e) (map (N.add 1000) (epar (fe e)))) ex_D.
Example ex3_not_canonical : mk_vals ex_vals <> ex_vals.
Proof. vm_compute. discriminate. Qed.
Example ex3_side : link_side_raw ex_vals ex3_D.
Proof.
  split; [split; [repeat constructor; cbn; intuition discriminate | intros p Hp; cbn in Hp; intuition (subst; discriminate)]|].
  split; [vm_compute; reflexivity|]. split; [apply ids_fresh_b; vm_compute; reflexivity | vm_compute; reflexivity].
Qed.
Example ex3_valid : valid_run ex_vals ex3_D.
Proof. split; [apply codes_ok_dec; vm_compute; reflexivity | unfold few_forkers; vm_compute; reflexivity]. Qed.
Example ex3_blocks : snd (reference ex_vals ex3_D) = [(1, 1000, []); (2, 1015, [37094])].
Proof. vm_compute. reflexivity. Qed.
Example ex3_refines_by_evaluation : abft_run 200 (fun _ => 0) ex_vals ex3_D = reference ex_vals ex3_D.
Proof. vm_compute. reflexivity. Qed.
