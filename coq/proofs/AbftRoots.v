(* C02: the Atropos of a block is a stored root of the decided frame.
   Invariant: every yes-vote of the election that names a root (observedRoot <> zero hash) names a
   root stored for the frame being decided. *)
From Coq Require Import NArith ZArith List Lia Bool ZifyBool ZifyN ZifyNat.
From LV Require Import model.VecIndex model.Abft proofs.AbftStruct proofs.AbftSeal.
Import ListNotations.
Local Open Scope N_scope.

Definition names_root (roots : list root) (f : N) (h : N) : Prop :=
  exists r, In r roots /\ r_frame r = f /\ r_id r = h.
Definition goodv (roots : list root) (f : N) (vt : vote) : Prop := vt_yes vt = true -> names_root roots f (vt_obs vt).
Definition V (st : lstate) : Prop :=
  (forall k vt, In (k, vt) (el_votes (l_el st)) -> goodv (l_roots st) (el_frame (l_el st)) vt) /\
  (forall s vt, In (s, vt) (el_decided (l_el st)) -> goodv (l_roots st) (el_frame (l_el st)) vt).
Definition Vel (roots : list root) (el : election) : Prop :=
  (forall k vt, In (k, vt) (el_votes el) -> goodv roots (el_frame el) vt) /\
  (forall s vt, In (s, vt) (el_decided el) -> goodv roots (el_frame el) vt).

Lemma votes_get_in k l vt : votes_get k l = Some vt -> exists k', In (k', vt) l.
Proof.
  induction l as [|[k2 v] t IH]; cbn [votes_get]; [discriminate|].
  destruct (root_eqb (fst k) (fst k2) && (snd k =? snd k2)).
  - intros H; inversion H; subst. exists k2. left. reflexivity.
  - intros H. destruct (IH H) as [k' Hin]. exists k'. right. exact Hin.
Qed.
Lemma alookup_in {A} k (l : list (N * A)) v : alookup k l = Some v -> In (k, v) l.
Proof.
  induction l as [|[k2 v2] t IH]; cbn [alookup]; [discriminate|].
  destruct (k =? k2) eqn:E.
  - apply N.eqb_eq in E. subst. intros H; inversion H; subst. left. reflexivity.
  - intros H. right. apply IH. exact H.
Qed.

Lemma tally_names ev votes subj roots f : (forall k vt, In (k, vt) votes -> goodv roots f vt) ->
  forall obs sh yes no all sh' yes' no' all',
  (forall h, sh = Some h -> names_root roots f h) ->
  tally ev votes subj obs sh yes no all = Ok (sh', yes', no', all') ->
  forall h, sh' = Some h -> names_root roots f h.
Proof.
  intros HV. induction obs as [|r t IH]; intros sh yes no all sh' yes' no' all' Hsh E; cbn [tally] in E.
  - inversion E; subst. exact Hsh.
  - destruct (votes_get (r, subj) votes) as [vt|] eqn:G; [|discriminate].
    destruct (vt_yes vt && _); [discriminate|].
    destruct (count_id ev all (r_val r)) as [fresh allx]. destruct (negb fresh); [discriminate|].
    eapply IH; [|exact E]. intros h Hh. destruct (vt_yes vt) eqn:Y.
    + inversion Hh; subst. destruct (votes_get_in _ _ _ G) as [k' Hin]. exact (HV _ _ Hin Y).
    + apply Hsh. exact Hh.
Qed.

(* the three counters of the tally: a validator is counted in "all" whenever it is counted in yes or no,
   the sums add up, and the yes counter stays at zero until some yes-vote set the subject hash *)
Lemma count_idx_sum ev c i : c_sum (snd (count_idx ev c i)) =
  c_sum c + (if nth i (c_already c) false then 0 else nth i (v_weights ev) 0).
Proof. unfold count_idx. destruct (nth i (c_already c) false); cbn; lia. Qed.
Lemma nth_set_true : forall i l, nth i (set_nth false l i true) false = true.
Proof. induction i as [|i IH]; intros [|y t]; cbn [set_nth nth]; auto. Qed.
Lemma nth_set_other : forall i l j, i <> j -> nth j (set_nth false l i true) false = nth j l false.
Proof.
  induction i as [|i IH]; intros l j H; destruct l as [|y t]; destruct j as [|j]; cbn [set_nth nth]; try congruence; auto;
    try (destruct j; reflexivity); try (rewrite IH by congruence; destruct j; reflexivity); try (apply IH; congruence).
Qed.
Lemma count_idx_al ev c i j : nth j (c_already (snd (count_idx ev c i))) false =
  (Nat.eqb i j || nth j (c_already c) false).
Proof.
  unfold count_idx. destruct (nth i (c_already c) false) eqn:A; cbn [snd c_already].
  - destruct (Nat.eqb_spec i j); subst; cbn; auto.
  - destruct (Nat.eqb_spec i j); subst; cbn; [apply nth_set_true | apply nth_set_other; auto].
Qed.
Lemma count_idx_fresh ev c i : fst (count_idx ev c i) = negb (nth i (c_already c) false).
Proof. unfold count_idx. destruct (nth i (c_already c) false); reflexivity. Qed.

Definition tally_inv (sh : option N) (yes no all : counter) : Prop :=
  (sh = None -> c_sum yes = 0) /\ c_sum all = c_sum yes + c_sum no /\
  (forall j, nth j (c_already yes) false = true \/ nth j (c_already no) false = true -> nth j (c_already all) false = true).
Lemma tally_sums ev votes subj : forall obs sh yes no all sh' yes' no' all',
  tally_inv sh yes no all ->
  tally ev votes subj obs sh yes no all = Ok (sh', yes', no', all') -> tally_inv sh' yes' no' all'.
Proof.
  induction obs as [|r t IH]; intros sh yes no all sh' yes' no' all' Hi E; cbn [tally] in E.
  - inversion E; subst. exact Hi.
  - destruct (votes_get (r, subj) votes) as [vt|]; [|discriminate].
    destruct (vt_yes vt && _); [discriminate|].
    pose proof (count_idx_fresh ev all (v_idx ev (r_val r))) as Fr.
    pose proof (count_idx_sum ev all (v_idx ev (r_val r))) as Sa.
    pose proof (count_idx_al ev all (v_idx ev (r_val r))) as Aa.
    unfold count_id in E. destruct (count_idx ev all (v_idx ev (r_val r))) as [fresh allx]. cbn [fst snd] in *.
    destruct fresh; cbn [negb] in E; [|discriminate].
    symmetry in Fr. apply negb_true_iff in Fr. rewrite Fr in Sa.
    destruct Hi as (H1 & H2 & H3).
    assert (Hy : nth (v_idx ev (r_val r)) (c_already yes) false = false).
    { destruct (nth (v_idx ev (r_val r)) (c_already yes) false) eqn:X; auto. rewrite (H3 _ (or_introl X)) in Fr. discriminate. }
    assert (Hn : nth (v_idx ev (r_val r)) (c_already no) false = false).
    { destruct (nth (v_idx ev (r_val r)) (c_already no) false) eqn:X; auto. rewrite (H3 _ (or_intror X)) in Fr. discriminate. }
    eapply IH; [|exact E]. unfold tally_inv. destruct (vt_yes vt).
    + split; [discriminate|]. rewrite count_idx_sum, Hy, Sa. split; [lia|].
      intros j. rewrite count_idx_al, Aa. intros [H|H]; [apply orb_true_iff in H as [H|H]; [rewrite H; reflexivity|] |];
        (rewrite (H3 j) by auto; apply orb_true_r).
    + split; [exact H1|]. rewrite count_idx_sum, Hn, Sa. split; [lia|].
      intros j. rewrite count_idx_al, Aa. intros [H|H]; [|apply orb_true_iff in H as [H|H]; [rewrite H; reflexivity|]];
        (rewrite (H3 j) by auto; apply orb_true_r).
Qed.
Lemma new_counter_al ev j : nth j (c_already (new_counter ev)) false = false.
Proof. unfold new_counter. cbn. destruct (Nat.lt_ge_cases j (length ev)); [apply nth_repeat | apply nth_overflow; rewrite repeat_length; lia]. Qed.
Lemma tally_inv_init ev : tally_inv None (new_counter ev) (new_counter ev) (new_counter ev).
Proof. unfold tally_inv. cbn [c_sum new_counter]. repeat split; auto. intros j [H|H]; rewrite new_counter_al in H; discriminate. Qed.

Lemma observed_map_get_in obs s r : observed_map_get obs s = Some r -> In r obs.
Proof. unfold observed_map_get. intros H. apply find_some in H as [H _]. apply in_rev. exact H. Qed.

Lemma vote_subjects_V r1 obs nr roots : forall subjects el,
  Vel roots el ->
  (r1 = true -> forall r, In r obs -> In r roots /\ r_frame r = el_frame el) ->
  Vel roots (snd (vote_subjects r1 obs nr subjects el)).
Proof.
  induction subjects as [|s t IH]; intros el HV Hobs; cbn [vote_subjects snd]; [exact HV|].
  match goal with |- context [match ?X with Ok _ => _ | Err _ => _ end] => destruct X as [[vt dec]|x] eqn:RV end;
    cbn [snd]; [|exact HV].
  assert (Gv : goodv roots (el_frame el) vt).
  { destruct r1.
    - destruct (observed_map_get obs s) as [r|] eqn:O; inversion RV; subst; intros Y; cbn in *; [|discriminate].
      destruct (Hobs eq_refl r (observed_map_get_in _ _ _ O)) as [Hin Hf]. exists r. auto.
    - destruct (tally _ _ _ _ _ _ _ _) as [[[[sh yes] no] all]|x] eqn:T; [|discriminate].
      destruct (has_quorum (el_vals el) all) eqn:QA; cbn [negb] in RV; [|discriminate]. inversion RV; subst. clear RV.
      intros Y. cbn [vt_yes vt_obs] in *. rewrite Y.
      destruct (tally_sums _ _ _ _ _ _ _ _ _ _ _ _ (tally_inv_init (el_vals el)) T) as (S1 & S2 & _).
      destruct sh as [h|].
      + eapply (tally_names _ _ _ roots (el_frame el) (proj1 HV)); [|exact T|reflexivity]. intros h0 H0. discriminate.
      + exfalso. specialize (S1 eq_refl). unfold has_quorum, v_quorum in QA. lia. }
  apply IH.
  - destruct HV as [HV1 HV2]. split; cbn [el_votes el_decided el_frame].
    + intros k v [H|H]; [inversion H; subst; exact Gv | eapply HV1; eauto].
    + intros s0 v H. destruct dec; [destruct H as [H|H]; [inversion H; subst; exact Gv|]|]; eapply HV2; eauto.
  - exact Hobs.
Qed.

Lemma choose_atropos_names ids dec f df atr roots :
  (forall s vt, In (s, vt) dec -> goodv roots f vt) ->
  choose_atropos_loop ids dec f = Ok (Some (df, atr)) -> names_root roots f atr.
Proof.
  intros HV. induction ids as [|v t IH]; cbn [choose_atropos_loop]; [discriminate|].
  destruct (alookup v dec) as [vt|] eqn:A; [|discriminate].
  destruct (vt_yes vt) eqn:Y; [|exact IH].
  intros H; inversion H; subst. exact (HV _ _ (alookup_in _ _ _ A) Y).
Qed.

Section Roots.
Variable cap : nat.

Lemma observed_loop_sub rid : forall frs st acc r,
  In r (fst (observed_loop cap st rid frs acc)) -> In r frs \/ In r acc.
Proof.
  induction frs as [|fr t IH]; intros st acc r H; cbn [observed_loop fst] in H.
  - right. apply in_rev. exact H.
  - destruct (fc_cached cap st rid (r_id fr)) as [b st1].
    destruct (IH _ _ _ H) as [H1|H1]; [left; right; exact H1|].
    destruct b; [destruct H1 as [<-|H1]; [left; left; reflexivity | right; exact H1] | right; exact H1].
Qed.

(* ProcessRoot keeps the invariant, and a decision it reports names a stored root of the decided frame *)
Lemma process_root_V st nr : V st ->
  V (snd (process_root cap st nr)) /\
  (forall df atr, fst (process_root cap st nr) = Ok (Some (df, atr)) ->
                  names_root (l_roots st) (el_frame (l_el st)) atr).
Proof.
  intros HV. unfold process_root.
  destruct (choose_atropos (l_el st)) as [[[df0 atr0]|]|x] eqn:CA; cbn [fst snd].
  - split; [exact HV|]. intros df atr H. inversion H; subst. eapply choose_atropos_names; [exact (proj2 HV)|exact CA].
  - destruct (r_frame nr <=? el_frame (l_el st)) eqn:LE; cbn [fst snd]; [split; [exact HV | discriminate]|].
    pose proof (observed_loop_core cap (r_id nr) (get_frame_roots st (r_frame nr - 1)) st []) as HO.
    pose proof (observed_loop_sub (r_id nr) (get_frame_roots st (r_frame nr - 1)) st []) as HS.
    unfold observed_roots.
    destruct (observed_loop cap st (r_id nr) (get_frame_roots st (r_frame nr - 1)) []) as [obs st1]. cbn [fst snd] in *.
    pose proof (vote_subjects_V (r_frame nr - el_frame (l_el st) =? 1) obs nr (l_roots st) (not_decided (l_el st)) (l_el st) HV) as HVS.
    destruct (vote_subjects (r_frame nr - el_frame (l_el st) =? 1) obs nr (not_decided (l_el st)) (l_el st)) as [e el'] eqn:VS.
    cbn [snd] in HVS.
    assert (Hobs : (r_frame nr - el_frame (l_el st) =? 1) = true ->
                   forall r, In r obs -> In r (l_roots st) /\ r_frame r = el_frame (l_el st)).
    { intros R1 r Hr. destruct (HS r Hr) as [H|[]]. unfold get_frame_roots in H. apply filter_In in H as [H1 H2].
      split; auto. lia. }
    specialize (HVS Hobs).
    pose proof (vote_subjects_el (r_frame nr - el_frame (l_el st) =? 1) obs nr (not_decided (l_el st)) (l_el st)) as HF.
    rewrite VS in HF. cbn [snd] in HF. destruct HF as [HF1 HF2].
    destruct HO as (A1&A2&A3&A4&A5&A6&A7&A8&A9).
    assert (V2 : V (set_el st1 el')).
    { unfold V, Vel in *. cbn [l_el l_roots set_el]. rewrite A4. exact HVS. }
    destruct e as [x|]; cbn [fst snd]; split; auto; try discriminate.
    intros df atr H. unfold choose_atropos in H. rewrite <- HF1.
    eapply choose_atropos_names; [|exact H]. exact (proj2 HVS).
  - split; [exact HV | discriminate].
Qed.

End Roots.

Lemma V_core st st' : same_core st st' -> l_el st' = l_el st -> V st -> V st'.
Proof. intros (A1&A2&A3&A4&A5&A6&A7&A8&A9) E H. unfold V in *. rewrite E, A4. exact H. Qed.

Lemma V_reset v f roots : Vel roots (el_reset v f).
Proof. split; intros ? ? []. Qed.

Lemma root_insert_in r x l : In r l -> In r (root_insert x l).
Proof.
  induction l as [|y t IH]; intros H; [destruct H|]. cbn [root_insert].
  destruct (root_eqb x y); [exact H|]. destruct (root_lt x y); [right; exact H|].
  destruct H as [<-|H]; [left; reflexivity | right; apply IH; exact H].
Qed.
Lemma add_roots_loop_in r e : forall fuel rs f, In r rs -> In r (add_roots_loop fuel rs e f).
Proof.
  induction fuel as [|fu IH]; intros rs f H; cbn [add_roots_loop]; auto.
  destruct (a_frame e <? f); auto. apply IH. apply root_insert_in. exact H.
Qed.
Lemma V_more_roots st roots' : (forall r, In r (l_roots st) -> In r roots') -> V st -> V (set_roots st roots').
Proof.
  intros Hsub [H1 H2]. unfold V, goodv, names_root in *. cbn [l_el l_roots set_roots].
  split; intros k vt Hin Y; [destruct (H1 _ _ Hin Y) as [r [A B]] | destruct (H2 _ _ Hin Y) as [r [A B]]];
    exists r; split; auto.
Qed.
