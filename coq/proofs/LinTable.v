(* C28 — from the regenerated lock table to the premise of the generic theorem.

   [method_ok r = true] (checked by computation on the table regenerated from the Go source) means:
   every guarded access of the method happens inside a critical section of the guarding mutex, writes
   only under the exclusive mode, one critical section for the method's own object, no re-acquisition.
   A method whose row is ok is therefore an operation of the machine of model/Lin.v of kind
     KExcl    if it takes the mutex exclusively,
     KShared  if it takes it shared              (and the row reports no write),
     KNone    if it takes no mutex               (and the row reports no guarded access at all).
   What remains TRUSTED is that the translator's report is true of the code: a row without writes
   belongs to a body that does not change the guarded state, a row without accesses to a body that
   does not touch it.  These are the two [sound_*] hypotheses of [table_linearizable]. *)
From Coq Require Import String List NArith Bool Lia.
From LV Require Import model.LockDiscipline model.Lin proofs.Lin.
Import ListNotations.
Local Open Scope N_scope.

Definition kind_of_row (r : lock_row) : lkind :=
  match classify r with
  | ClsExcl => KExcl
  | ClsSharedRO => KShared
  | ClsStateless => KNone
  | ClsQuiescent => KExcl
  end.

Lemma lmode_eqb_eq : forall a b, lmode_eqb a b = true <-> a = b.
Proof. intros a b; destruct a, b; simpl; split; intro H; try reflexivity; discriminate. Qed.

(* what an ok row of a live (non-teardown) method guarantees *)
Lemma method_ok_sound : forall r, method_ok r = true -> r_quiescent r = false ->
  r_unlocked_reads r = 0 /\ r_unlocked_writes r = 0 /\ r_shared_writes r = 0 /\ r_reacquire r = false /\
  (is_self r = true -> (r_sections r <= 1) \/ (r_condwait r = true /\ r_mode r = LExcl)) /\
  (kind_of_row r = KShared -> r_writes r = 0) /\
  (kind_of_row r = KNone -> accesses r = 0) /\
  (kind_of_row r = KExcl -> r_mode r = LExcl) /\
  (r_condwait r = true -> kind_of_row r = KExcl).
Proof.
  intros r Hok Hq. unfold method_ok in Hok. rewrite Hq in Hok; simpl in Hok.
  apply andb_true_iff in Hok; destruct Hok as [Hok H8].
  apply andb_true_iff in Hok; destruct Hok as [Hok H7].
  apply andb_true_iff in Hok; destruct Hok as [Hok H6].
  apply andb_true_iff in Hok; destruct Hok as [Hok H5].
  apply andb_true_iff in Hok; destruct Hok as [Hok H4].
  apply andb_true_iff in Hok; destruct Hok as [Hok H3].
  apply andb_true_iff in Hok; destruct Hok as [H1 H2].
  apply N.eqb_eq in H1, H2, H3. apply negb_true_iff in H4.
  split; [assumption|]. split; [assumption|]. split; [assumption|]. split; [assumption|].
  split.
  { intro Hs. rewrite Hs in H5. apply orb_true_iff in H5. destruct H5 as [H5|H5].
    - left. now apply N.leb_le.
    - right. apply andb_true_iff in H5. destruct H5 as [Hc Hm]. apply lmode_eqb_eq in Hm. auto. }
  unfold kind_of_row, classify. rewrite Hq.
  destruct (accesses r =? 0) eqn:Ea.
  - apply N.eqb_eq in Ea. split; [intros; discriminate|]. split; [auto|]. split; [intros; discriminate|].
    intro Hc. rewrite Hc in H8. apply andb_true_iff in H8. destruct H8 as [_ H8].
    apply N.ltb_lt in H8. lia.
  - apply N.eqb_neq in Ea.
    assert (Hpos : (0 <? accesses r) = true) by (apply N.ltb_lt; lia).
    rewrite Hpos in H7. apply negb_true_iff in H7.
    destruct (r_mode r) eqn:Em; simpl in H7; try discriminate.
    + (* shared *) split; [|split; [intros; discriminate|split; [intros; discriminate|]]].
      * intros _. destruct (0 <? r_writes r) eqn:Ew.
        -- simpl in H6. discriminate.
        -- apply N.ltb_ge in Ew. lia.
      * intro Hc. rewrite Hc in H8. simpl in H8. discriminate.
    + (* exclusive *) split; [intros; discriminate|]. split; [intros; discriminate|auto].
Qed.

Section Instantiate.
  Variables state op ret local : Type.
  Variable linit : op -> local.
  Variable mstep : op -> local -> state -> local * state.
  Variable fin : op -> local -> option ret.
  Variable waits : op -> local -> bool.
  Variable wstep : op -> local -> local.
  Variable s0 : state.
  Variable tbl : list lock_row.
  Variable row_of : op -> lock_row.           (* which method an operation invokes *)

  Hypothesis tbl_ok : forallb method_ok tbl = true.
  Hypothesis row_in_tbl : forall o, In (row_of o) tbl.
  Hypothesis live : forall o, r_quiescent (row_of o) = false.
  (* the translator's report is true of the implementation (trusted) *)
  Hypothesis sound_no_writes : forall o, r_writes (row_of o) = 0 -> forall l s, snd (mstep o l s) = s.
  Hypothesis sound_no_access : forall o, accesses (row_of o) = 0 ->
    forall l s s', mstep o l s = (fst (mstep o l s'), s).
  Hypothesis sound_waits : forall o l, waits o l = true -> r_condwait (row_of o) = true.
  (* the wait loops of the bodies (only DataSemaphore.Acquire has one) re-validate after waking up *)
  Variable resumable : op -> local -> Prop.
  Hypothesis Hres : resumable_inv state op ret local linit mstep fin waits wstep resumable.

  Definition kind_of_op (o : op) : lkind := kind_of_row (row_of o).

  Lemma row_ok : forall o, method_ok (row_of o) = true.
  Proof. intro o. eapply forallb_forall in tbl_ok; eauto. Qed.

  Lemma table_shared_readonly : shared_readonly state op local mstep kind_of_op.
  Proof.
    intros o Hk. apply sound_no_writes.
    destruct (method_ok_sound _ (row_ok o) (live o)) as (_ & _ & _ & _ & _ & Hs & _). auto.
  Qed.

  Lemma table_none_stateless : none_stateless state op local mstep kind_of_op.
  Proof.
    intros o Hk. apply sound_no_access.
    destruct (method_ok_sound _ (row_ok o) (live o)) as (_ & _ & _ & _ & _ & _ & Hn & _). auto.
  Qed.

  Lemma table_wait_excl : wait_excl op local waits kind_of_op.
  Proof.
    intros o l Hw.
    destruct (method_ok_sound _ (row_ok o) (live o)) as (_ & _ & _ & _ & _ & _ & _ & _ & Hc).
    apply Hc. eapply sound_waits; eauto.
  Qed.

  Theorem table_linearizable : forall tr c,
    exec state op ret local linit mstep fin waits wstep kind_of_op s0 tr c ->
    linearizable state op ret local linit mstep fin waits wstep s0 (hist op ret tr).
  Proof.
    exact (locked_atomic_linearizable_w _ _ _ _ _ _ _ _ _ _ _ table_shared_readonly table_none_stateless
             table_wait_excl _ Hres).
  Qed.

  Theorem table_race_free : forall tr c,
    exec state op ret local linit mstep fin waits wstep kind_of_op s0 tr c ->
    ~ race state op ret local fin waits kind_of_op c.
  Proof.
    exact (locked_race_free_w _ _ _ _ _ _ _ _ _ _ _ table_shared_readonly table_none_stateless
             table_wait_excl _ Hres).
  Qed.
End Instantiate.

(* lookup of a row by (type, method); the first self row *)
Definition find_row (tbl : list lock_row) (t m : string) : option lock_row :=
  find (fun r => key_eqb (row_key r) (t, m) && is_self r) tbl.

Lemma find_row_in : forall tbl t m r, find_row tbl t m = Some r -> In r tbl.
Proof. intros tbl t m r H. unfold find_row in H. apply find_some in H. tauto. Qed.
