(* C15: semaphore bookkeeping.  [Sem s]: no warning so far and the semaphore holds exactly the
   metric of the accepted events that have not been released.  A Released for an accepted,
   not-yet-released event keeps it (no clamp), and so does replaying a list of buffer callbacks. *)
From Coq Require Import NArith ZArith List Bool Lia Arith Permutation ZifyBool ZifyNat ZifyN.
From LV Require Import model.Buffer model.Processor spec.ProcessorSpec
  proofs.BufferInv proofs.ProcessorFrame proofs.ProcessorOrder.
Import ListNotations.
Local Open Scope N_scope.

Definition relg (l : list pout) : list N :=
  flat_map (fun o => match o with PReleased g _ _ => [g] | _ => [] end) l.
Definition wsum (w : N -> N) (l : list N) : N := fold_right (fun g a => w g + a) 0 l.
Definition g_of (pu : list N) (c : N) : N := nth (N.to_nat c) pu 0.
Definition pgs (s : pst) : list N := map pg (tab s).

Lemma wsum_app : forall w a b, wsum w (a ++ b) = wsum w a + wsum w b.
Proof. intros w a b; induction a as [|x a IH]; simpl; [reflexivity | rewrite IH; lia]. Qed.
Lemma wsum_incl : forall w l L, NoDup l -> incl l L -> wsum w l <= wsum w L.
Proof.
  intros w; induction l as [|a l IH]; intros L Nd Hi; simpl; [lia|].
  inversion Nd; subst. assert (Ha : In a L) by (apply Hi; left; auto).
  apply in_split in Ha. destruct Ha as [c1 [c2 E]]. subst L.
  assert (Hi' : incl l (c1 ++ c2)).
  { intros y Hy. assert (In y (c1 ++ a :: c2)) by (apply Hi; right; auto).
    apply in_app_or in H. apply in_or_app. destruct H as [H|[H|H]]; auto. subst; contradiction. }
  specialize (IH (c1 ++ c2) H2 Hi'). rewrite wsum_app in *. simpl. lia.
Qed.
Lemma wsum_perm : forall w a b, Permutation a b -> wsum w a = wsum w b.
Proof. intros w a b P; induction P; simpl; lia. Qed.
Lemma wsum_ext : forall w w' l, (forall g, In g l -> w g = w' g) -> wsum w l = wsum w' l.
Proof.
  intros w w' l; induction l as [|a l IH]; simpl; intros H; [reflexivity|].
  rewrite (H a (or_introl eq_refl)), IH; auto.
Qed.

Lemma NoDup_app_insert : forall {A} (l r : list A) a, ~ In a (l ++ r) -> NoDup (l ++ r) -> NoDup (l ++ a :: r).
Proof.
  intros A l r a; induction l as [|x l IH]; simpl; intros N D.
  - constructor; auto.
  - inversion D; subst. constructor.
    + intros H. apply in_app_or in H. destruct H as [H|[H|H]].
      * apply H1. apply in_or_app; auto.
      * subst. apply N. left; auto.
      * apply H1. apply in_or_app; auto.
    + apply IH; auto.
Qed.

Record Sem (s : pst) : Prop := mkSem {
  sem_warn : warned s = false;
  sem_n : held_n s + N.of_nat (length (relg (plog s))) = N.of_nat (length (tab s));
  sem_s : held_s s + wsum (size_of_g s) (relg (plog s)) = wsum (size_of_g s) (pgs s);
  sem_in : incl (relg (plog s)) (pgs s);
  sem_nd : NoDup (relg (plog s))
}.

Lemma released_cb_fields : forall s g e err,
  tab (released_cb s g e err) = tab s /\ pushed (released_cb s g e err) = pushed s
  /\ buf (released_cb s g e err) = buf s /\ highest (released_cb s g e err) = highest s
  /\ plog (released_cb s g e err) = PReleased g e err :: plog s.
Proof.
  intros. unfold released_cb, sem_release.
  destruct ((held_n s <? 1) || (held_s s <? size_of_g s g)); simpl; auto.
Qed.

Lemma Sem_released : forall s g e err,
  Sem s -> In g (pgs s) -> ~ In g (relg (plog s)) -> Sem (released_cb s g e err).
Proof.
  intros s g e err [Sw Sn Ss Si Sd] Hg Ng.
  assert (Nd' : NoDup (g :: relg (plog s))) by (constructor; auto).
  assert (In' : incl (g :: relg (plog s)) (pgs s)) by (intros y [Hy|Hy]; [subst; auto | auto]).
  assert (L1 : (length (g :: relg (plog s)) <= length (pgs s))%nat) by (apply NoDup_incl_length; auto).
  assert (L2 : wsum (size_of_g s) (g :: relg (plog s)) <= wsum (size_of_g s) (pgs s)) by (apply wsum_incl; auto).
  unfold pgs in L1. rewrite map_length in L1.
  change (S (length (relg (plog s))) <= length (tab s))%nat in L1.
  change (size_of_g s g + wsum (size_of_g s) (relg (plog s)) <= wsum (size_of_g s) (pgs s)) in L2.
  assert (C : (held_n s <? 1) || (held_s s <? size_of_g s g) = false).
  { apply orb_false_iff. split; apply N.ltb_ge; lia. }
  unfold released_cb, sem_release. rewrite C.
  match goal with |- Sem ?sx => set (s' := sx) end.
  assert (Esz : size_of_g s' = size_of_g s) by reflexivity.
  assert (Epg : pgs s' = pgs s) by reflexivity.
  assert (Erl : relg (plog s') = g :: relg (plog s)) by reflexivity.
  constructor; rewrite ?Esz, ?Epg, ?Erl; auto.
  - change (held_n s') with (held_n s - 1). change (tab s') with (tab s). simpl length. lia.
  - change (held_s s') with (held_s s - size_of_g s g).
    change (wsum (size_of_g s) (g :: relg (plog s))) with (size_of_g s g + wsum (size_of_g s) (relg (plog s))). lia.
Qed.

(* replaying buffer callbacks (oldest first) *)
Lemma apply_out_fields : forall s o,
  tab (apply_out s o) = tab s /\ pushed (apply_out s o) = pushed s /\ buf (apply_out s o) = buf s
  /\ Hd (apply_out s o) = Hd s
  /\ relg (plog (apply_out s o)) =
     match o with OReleased c _ _ => [g_of (pushed s) c] | _ => [] end ++ relg (plog s).
Proof.
  intros s o. destruct o; try (simpl; auto 10; fail).
  - simpl. destruct ok; simpl; auto 10.
  - cbv beta iota delta [apply_out].
    destruct (released_cb_fields s (g_of_cid s c) e err) as [A [B [C [_ D]]]].
    unfold Hd. rewrite A, B, C, D. simpl. auto 10.
Qed.

Lemma highest_ge_apply : forall s o, highest s <= highest (apply_out s o).
Proof.
  intros s o. destruct o; try (simpl; lia).
  - simpl. destruct ok; simpl; lia.
  - cbv beta iota delta [apply_out].
    destruct (released_cb_fields s (g_of_cid s c) e err) as [_ [_ [_ [H _]]]]. rewrite H. lia.
Qed.

Lemma fold_apply_fields : forall L s,
  let s' := fold_left apply_out L s in
  tab s' = tab s /\ pushed s' = pushed s /\ buf s' = buf s /\ Hd s' = Hd s
  /\ relg (plog s') = rev (map (g_of (pushed s)) (rel_cids L)) ++ relg (plog s).
Proof.
  induction L as [|o L IH]; intros s; simpl.
  - auto 10.
  - destruct (apply_out_fields s o) as [A [B [C [D E]]]].
    destruct (IH (apply_out s o)) as [A' [B' [C' [D' E']]]].
    rewrite A', B', C', D', E', A, B, C, D, E.
    repeat split; auto.
    destruct o; simpl; auto. rewrite <- app_assoc. reflexivity.
Qed.

Lemma fold_apply_sem : forall L s,
  Sem s -> NoDup (map (g_of (pushed s)) (rel_cids L) ++ relg (plog s)) ->
  incl (map (g_of (pushed s)) (rel_cids L)) (pgs s) ->
  Sem (fold_left apply_out L s).
Proof.
  induction L as [|o L IH]; intros s S Nd Hi; simpl; auto.
  destruct (apply_out_fields s o) as [A [B [C [D E]]]].
  assert (S1 : Sem (apply_out s o) /\ pgs (apply_out s o) = pgs s).
  { split; [|unfold pgs; rewrite A; reflexivity].
    destruct o; simpl; auto.
    - destruct S; constructor; auto.
    - destruct ok; destruct S; constructor; auto.
    - simpl in Nd, Hi. apply Sem_released; auto.
      + apply Hi. left. reflexivity.
      + inversion Nd; subst. intros H. apply H1. apply in_or_app; right; exact H. }
  destruct S1 as [S1 P1].
  apply IH; auto.
  - rewrite B, E. destruct o; simpl in *; auto.
    (* a :: (l ++ r)  ~>  l ++ a :: r *)
    apply NoDup_cons_iff in Nd. destruct Nd as [N1 N2].
    apply NoDup_app_insert; auto.
  - rewrite B, P1. intros y Hy. apply Hi. destruct o; simpl in *; auto.
Qed.
