(* C13 without the caller's contract [parents_of]: an exact characterisation of
   eventcheck.Checkers.Validate on EVERY call with uint32 fields, including the length panic and the
   "sanity check" that the first event passed is the one named first. *)
From Coq Require Import NArith ZArith List Bool Lia ZifyBool ZifyNat ZifyN.
From LV Require Import model.EventCheck spec.EventCheckSpec proofs.EventCheckProofs.
Import ListNotations.
Ltac Zify.zify_post_hook ::= Z.div_mod_to_equations.
Local Open Scope N_scope.

Definition parents_cascade_gen (e : event) (ps : list parent) : result :=
  if negb (len_eq_b e ps) then Err PanicLen else
  if negb (c_lamport_b e ps) then Err WrongLamport else
  if negb (c_selfparent_b e ps) then Err WrongSelfParent else
  if negb (c_firstid_b e ps) then Err WrongSelfParent else
  if negb (c_seq_b e ps) then Err WrongSeq else Ok.

Lemma parents_validate_cascade_gen : forall e ps,
  typed e ps ->
  c_range_b e = true -> c_present_b e = true -> c_distinct_b e = true ->
  parents_validate e ps = parents_cascade_gen e ps.
Proof.
  intros e ps [Hts [Htl Htp]] Hr Hp Hd.
  unfold parents_validate, parents_cascade_gen, len_eq_b.
  destruct (Nat.eqb (length (e_parents e)) (length ps)) eqn:Hlen; cbn [negb]; [|reflexivity].
  apply Nat.eqb_eq in Hlen.
  apply c_distinct_b_spec in Hd. unfold c_distinct in Hd.
  rewrite fold_max_lamport. pose proof (list_max_u32 ps Htp) as Hmax.
  assert (HL : (e_lamport e =? wrap32 (N.max 0 (list_max (map p_lamport ps)) + 1)) = c_lamport_b e ps).
  { unfold c_lamport_b, wrap32. unfold c_range_b, in_range_b in Hr.
    set (m := list_max (map p_lamport ps)) in *. lia. }
  rewrite HL. destruct (c_lamport_b e ps); cbn [negb]; [|reflexivity].
  rewrite (sp_loop_spec e ps Hd Hlen).
  destruct (c_selfparent_b e ps); cbn [negb]; [|reflexivity].
  unfold c_seq_b, c_firstid_b. unfold is_self_parent, self_parent.
  unfold c_present_b in Hp.
  destruct (N.leb_spec (e_seq e) 1) as [Hs|Hs].
  - replace (1 <? e_seq e) with false by lia.
    assert (Hs1 : e_seq e = 1). { unfold c_range_b, in_range_b in Hr. lia. }
    rewrite Hs1. reflexivity.
  - replace (1 <? e_seq e) with true in * by lia.
    replace (e_seq e =? 1) with false by lia.
    destruct (e_parents e) as [|h0 r] eqn:Ep; [discriminate|]. cbn [xorb].
    destruct ps as [|p0 rest]; [discriminate|].
    rewrite (N.eqb_sym h0 (p_id p0)).
    destruct (p_id p0 =? h0); cbn [negb]; [|reflexivity].
    inversion Htp as [|? ? [Hps _] _]; subst.
    assert (HS : (e_seq e =? wrap32 (p_seq p0 + 1)) = (e_seq e =? p_seq p0 + 1)).
    { unfold wrap32. unfold u32 in Hps, Hts. lia. }
    rewrite HS. destruct (e_seq e =? p_seq p0 + 1); reflexivity.
Qed.

Definition cascade_gen (cur : N) (vals : list N) (e : event) (ps : list parent) : result :=
  if negb (all_below_b e) then Err HugeValue else
  if negb (c_range_b e) then Err NotInited else
  if negb (c_present_b e) then Err NoParents else
  if negb (c_distinct_b e) then Err DoubleParents else
  if negb (c_epoch_b cur e) then Err NotRelevant else
  if negb (c_creator_b vals e) then Err Auth else
  parents_cascade_gen e ps.

Lemma validate_cascade_gen : forall cur vals e ps,
  typed e ps -> validate cur vals e ps = cascade_gen cur vals e ps.
Proof.
  intros cur vals e ps Ht. unfold validate, cascade_gen.
  rewrite basic_validate_cascade, epoch_validate_cascade. unfold basic_cascade, epoch_cascade.
  destruct (all_below_b e); cbn [negb]; [|reflexivity].
  destruct (c_range_b e) eqn:Er; cbn [negb]; [|reflexivity].
  destruct (c_present_b e) eqn:Ep; cbn [negb]; [|reflexivity].
  destruct (c_distinct_b e) eqn:Ed; cbn [negb]; [|reflexivity].
  destruct (c_epoch_b cur e); cbn [negb]; [|reflexivity].
  destruct (c_creator_b vals e); cbn [negb]; [|reflexivity].
  apply (parents_validate_cascade_gen e ps Ht Er Ep Ed).
Qed.

Lemma cascade_gen_answer : forall cur vals e ps r,
  answer_ok_gen cur vals e ps r = true <-> r = cascade_gen cur vals e ps.
Proof.
  intros. unfold cascade_gen, parents_cascade_gen, answer_ok_gen, wf_event_b.
  pose proof (c_range_all_below e) as Hab.
  destruct (c_range_b e) eqn:Er.
  - rewrite (Hab eq_refl). cbn [negb].
    destruct r as [|k]; [|destruct k]; cbn [blames_b]; rewrite ?Er, ?(Hab eq_refl); cbn;
    case_on (c_present_b e); case_on (c_distinct_b e); case_on (c_epoch_b cur e);
    case_on (c_creator_b vals e); case_on (len_eq_b e ps); case_on (c_lamport_b e ps);
    case_on (c_selfparent_b e ps); case_on (c_firstid_b e ps); case_on (c_seq_b e ps).
  - destruct r as [|k]; [|destruct k]; cbn [blames_b]; rewrite ?Er;
    destruct (all_below_b e); cbn; rewrite ?andb_false_r; cbn; split; intros; congruence.
Qed.

(* exact characterisation of every answer on every call *)
Theorem answer_ok_gen_unique : forall cur vals e ps r,
  typed e ps -> (answer_ok_gen cur vals e ps r = true <-> r = validate cur vals e ps).
Proof.
  intros cur vals e ps r Ht. rewrite (validate_cascade_gen cur vals e ps Ht). apply cascade_gen_answer.
Qed.

Lemma c_firstid_b_spec : forall e ps, c_firstid_b e ps = true <-> c_firstid e ps.
Proof.
  intros e ps. unfold c_firstid_b, c_firstid.
  destruct (N.ltb_spec 1 (e_seq e)) as [H|H].
  - destruct (e_parents e) as [|h0 r].
    + split; [discriminate|]. intros H'. destruct (H' H) as [? [? [? [? [Hc _]]]]]. discriminate.
    + destruct ps as [|p0 r'].
      * split; [discriminate|]. intros H'. destruct (H' H) as [? [? [? [? [_ [Hc _]]]]]]. discriminate.
      * rewrite N.eqb_eq. split.
        -- intros E _. exists h0, r, p0, r'. repeat split. exact E.
        -- intros H'. destruct (H' H) as [h [rr [p [rr' [E1 [E2 E3]]]]]].
           inversion E1; inversion E2; subst. reflexivity.
  - split; [intros _ H'; lia | reflexivity].
Qed.

Theorem validate_ok_iff_general : forall cur vals e ps,
  typed e ps ->
  (validate cur vals e ps = Ok <->
   length (e_parents e) = length ps /\ wf_event cur vals e ps /\ c_firstid e ps).
Proof.
  intros cur vals e ps Ht.
  rewrite <- wf_event_b_spec, <- c_firstid_b_spec, <- Nat.eqb_eq.
  fold (len_eq_b e ps).
  pose proof (answer_ok_gen_unique cur vals e ps Ok Ht) as H. cbn [answer_ok_gen] in H.
  rewrite !andb_true_iff in H. split.
  - intros E. symmetry in E. apply H in E. tauto.
  - intros E. symmetry. apply H. tauto.
Qed.

(* under the contract the extra clause is implied: the contract version is a corollary *)
Lemma parents_of_firstid : forall e ps,
  parents_of e ps -> c_present e -> c_firstid e ps.
Proof.
  intros e ps Hpo Hp Hs. unfold parents_of in Hpo. specialize (Hp Hs).
  destruct (e_parents e) as [|h0 r] eqn:Ep; [congruence|].
  destruct ps as [|p0 r']; [discriminate|]. cbn in Hpo. inversion Hpo; subst.
  exists (p_id p0), (map p_id r'), p0, r'. repeat split.
Qed.

(* a Reader returning nil validators: same answers up to the creator lookup, which is a nil dereference *)
Theorem validate_opt_some : forall cur vals e ps,
  validate_opt cur (Some vals) e ps = Some (validate cur vals e ps).
Proof.
  intros. unfold validate_opt, validate, epoch_validate_opt.
  destruct (basic_validate e); [|reflexivity]. destruct (epoch_validate cur vals e); reflexivity.
Qed.

Theorem validate_opt_none : forall cur e ps,
  validate_opt cur None e ps =
    match basic_validate e with
    | Err k => Some (Err k)
    | Ok => if e_epoch e =? cur then None else Some (Err NotRelevant)
    end.
Proof.
  intros. unfold validate_opt, epoch_validate_opt.
  destruct (basic_validate e); [|reflexivity]. destruct (e_epoch e =? cur); reflexivity.
Qed.

(* histories over one Checkers object with a Reader whose answer changes between calls: every answer is
   [validate] under the Reader state current at THAT call; nothing is remembered from earlier calls *)
Theorem history_pointwise : forall h st i,
  nth_error (run_history st h) i =
  option_map (fun x => validate (r_epoch (fst (fst x))) (r_vals (fst (fst x))) (snd (fst x)) (snd x))
             (nth_error h i).
Proof.
  induction h as [|[[rs e] ps] rest IH]; intros st i.
  - destruct i; reflexivity.
  - cbn [run_history checkers_step]. destruct i as [|i]; [reflexivity|]. cbn [nth_error]. apply IH.
Qed.

(* in particular: an event accepted while its epoch was current is refused once the Reader has moved on *)
Theorem history_late_event : forall st rs rs' e ps,
  e_epoch e = r_epoch rs -> r_epoch rs' <> r_epoch rs -> basic_validate e = Ok ->
  nth_error (run_history st [(rs, e, ps); (rs', e, ps)]) 1 = Some (Err NotRelevant).
Proof.
  intros st rs rs' e ps He Hne Hb. cbn. unfold validate. rewrite Hb. unfold epoch_validate.
  rewrite He. destruct (N.eqb_spec (r_epoch rs) (r_epoch rs')) as [E|E]; [congruence | reflexivity].
Qed.
