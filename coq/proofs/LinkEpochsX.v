(* L1, extended statement: validator lists in any order, and the induction over the epochs.
   Part 1: the reference walk ref_x and the input conditions are invariant under the renaming of creator
   positions (vals -> canonical order).  Part 2: one epoch for a validator list in any order (epoch_x_raw).
   Part 3: runs over several epochs with an arbitrary policy (link_x). *)
From Coq Require Import NArith ZArith List Lia Bool ZifyBool ZifyN ZifyNat Permutation.
From LV Require Import lib.Bytes lib.VecListFacts model.Codec model.VecIndex model.Abft model.AbftRun spec.ElectionSpec
  proofs.AbftBuild
  proofs.BftCore proofs.BftElection proofs.BftMono proofs.BftGraph proofs.BftMain proofs.BftRun proofs.BftAccept proofs.BftProps
  proofs.LinkVals proofs.LinkDefs proofs.LinkSim proofs.LinkVote proofs.LinkElect proofs.LinkStep proofs.LinkBuild
  proofs.LinkRun proofs.LinkRestart proofs.LinkPerm proofs.LinkEquiv proofs.LinkRaw proofs.LinkNoise proofs.LinkEpoch proofs.LinkSeal proofs.LinkEpochs
  proofs.LinkReject proofs.LinkX proofs.LinkEpochX.
Import ListNotations.
Local Open Scope N_scope.

(* render_x looks at the shape of the schedule only *)
Definition same_shape (s1 s2 : xslot) : Prop := x_pre s1 = x_pre s2 /\ x_build s1 = x_build s2 /\ x_mid s1 = x_mid s2.
Lemma render_x_shape : forall sc1 sc2 tn os, Forall2 same_shape sc1 sc2 -> render_x sc1 tn os = render_x sc2 tn os.
Proof.
  induction sc1 as [|s1 sc1 IH]; intros sc2 tn os H; inversion H as [|s1' s2 sc1' sc2' (E1 & E2 & E3) Ht]; subst; [reflexivity|].
  cbn [render_x]. rewrite E1, E2, E3.
  destruct (skipn (length (x_mid s2)) (if x_build s2 then tl (skipn (length (x_pre s2)) os) else skipn (length (x_pre s2)) os)) as [|o rest]; [reflexivity|].
  rewrite (IH sc2' tn rest Ht). reflexivity.
Qed.

(* ================= Part 1: renaming of the creator positions ================= *)
Section Transfer.
Variable ep : N.
Variable lam : fev -> N.
Variable vals : list (N * N).
Hypothesis Raw : raw_ok vals.
Variable sfr : N -> option (list (N * N)).

Notation nv := (length vals).
Notation V := (vals' vals).
Notation pn := (pn vals).
Notation pe := (pe vals).
Let Hperm := canon_order_perm vals.

Lemma EV : mk_vals vals = V. Proof. apply mk_vals_canon; exact Raw. Qed.
Lemma Can : canonical V. Proof. rewrite <- EV. apply mk_vals_canonical. exact Raw. Qed.
Lemma Hcanon : canon_order V = seq 0 nv.
Proof. rewrite (canon_order_canonical _ Can), (vals'_len vals). reflexivity. Qed.

Definition pes (s : xslot) : xslot := {| x_pre := x_pre s; x_ev := pe (x_ev s); x_build := x_build s; x_mid := x_mid s |}.
Definition lam1 : fev -> N := fun e' => lam (upe vals e').

Lemma to_aevent_pe e : (ecr (fe e) < nv)%nat -> to_aevent ep lam1 V (pe e) = to_aevent ep lam vals e.
Proof.
  intros He. unfold to_aevent, lam1. cbn [LinkEquiv.pe fe ffr eid ecr eseq epar]. fold (pe e). rewrite (upe_pe vals e He). f_equal. unfold vid.
  rewrite (vid_vals' vals _ (pos_lt _ _ Hperm _ He)), (unpos_pos _ _ Hperm _ He). reflexivity.
Qed.
Lemma xsched_ops_pe sc tn : (forall e, In e (map x_ev sc) -> (ecr (fe e) < nv)%nat) ->
  xsched_ops ep lam1 V (map pes sc) tn = xsched_ops ep lam vals sc tn.
Proof.
  intros H. unfold xsched_ops. f_equal. induction sc as [|s sc IH]; [reflexivity|]. cbn [map flat_map].
  rewrite IH by (intros e He; apply H; right; exact He). f_equal.
  unfold xs_ops, pes. cbn [x_pre x_ev x_build x_mid]. rewrite (to_aevent_pe (x_ev s)) by (apply H; left; reflexivity). reflexivity.
Qed.
Lemma pes_shape sc : Forall2 same_shape (map pes sc) sc.
Proof. induction sc as [|s sc IH]; constructor; [repeat split | exact IH]. Qed.

Lemma v_exists_V c : v_exists V c = v_exists vals c.
Proof. rewrite <- EV. apply v_exists_mk_vals. exact Raw. Qed.

(* tables reached through accepted events *)
Definition tbl (T : list node) : Prop := exists Da, all_accepted vals Da /\ T = table vals Da.
Lemma tbl_nil : tbl [].
Proof. exists []. split; [intros r [] | reflexivity]. Qed.
Lemma tbl_step T e T1 h : tbl T -> add_event vals T e = (T1, (0, h)) -> tbl T1.
Proof.
  intros [Da [Ha ->]] AE. exists (Da ++ [e]). unfold all_accepted, table in *. rewrite add_events_app. cbn [add_events fst snd].
  rewrite AE. cbn [fst snd]. split; [|reflexivity].
  intros r Hr. apply in_app_or in Hr as [Hr|[<-|[]]]; [apply Ha; exact Hr | reflexivity].
Qed.
Lemma tbl_facts T : tbl T -> few_forkers vals T ->
  crs_ok vals T /\ wfT vals T /\ wfT V (map pn T) /\ few_forkers V (map pn T) /\ r_blocks V (map pn T) = r_blocks vals T.
Proof.
  intros [Da [Ha ->]] Hff.
  assert (HT0 : crs_ok vals []) by (intros n []).
  destruct (add_events_pn vals Da [] HT0) as [E HT]. cbn [map] in E.
  assert (W : wfT vals (table vals Da)) by (eapply wfTD_wfT; apply table_wfTD; exact Ha).
  assert (Ha' : all_accepted V (map pe Da)) by (unfold all_accepted; rewrite E; exact Ha).
  assert (ET : map pn (table vals Da) = table V (map pe Da)) by (unfold table; rewrite E; reflexivity).
  assert (W' : wfT V (map pn (table vals Da))) by (rewrite ET; eapply wfTD_wfT; apply table_wfTD; exact Ha').
  assert (Hff' : few_forkers V (map pn (table vals Da))) by (apply few_forkers_pn; assumption).
  split; [exact HT|]. split; [exact W|]. split; [exact W'|]. split; [exact Hff'|].
  apply (blocks_pn vals Hcanon); assumption.
Qed.

Lemma seal_of_pn T : tbl T -> few_forkers vals T -> seal_of V sfr (map pn T) = seal_of vals sfr T.
Proof. intros HT Hff. unfold seal_of. destruct (tbl_facts T HT Hff) as (_ & _ & _ & _ & ->). reflexivity. Qed.
Lemma st_of_pn T : tbl T -> few_forkers vals T -> st_of ep V (map pn T) = st_of ep vals T.
Proof. intros HT Hff. unfold st_of. destruct (tbl_facts T HT Hff) as (_ & _ & _ & _ & ->). reflexivity. Qed.
Lemma blocks_x_pn T bs : blocks_x V sfr (map pn T) bs = blocks_x vals sfr T bs.
Proof. unfold blocks_x. apply map_ext. intros b. rewrite (cheaters_pn vals Hcanon). reflexivity. Qed.

Lemma noise_in_V ep0 ids o : noise_in ep0 vals ids o -> noise_in ep0 V ids o.
Proof. apply noise_in_vals. intros c. symmetry. apply v_exists_V. Qed.

Lemma transfer K : forall sc T ids Jl tn, tbl T ->
  few_forkers vals (fst (add_events vals T (map x_ev sc))) ->
  ref_x ep V sfr (map pn T) (map pes sc) tn = ref_x ep vals sfr T sc tn /\
  (sched_in ep vals sfr T ids sc tn -> sched_in ep V sfr (map pn T) ids (map pes sc) tn) /\
  (ids_ok vals K T Jl (map x_ev sc) -> ids_ok V K (map pn T) Jl (map x_ev (map pes sc))) /\
  snd (add_events V (map pn T) (map x_ev (map pes sc))) = snd (add_events vals T (map x_ev sc)) /\
  few_forkers V (fst (add_events V (map pn T) (map x_ev (map pes sc)))).
Proof.
  induction sc as [|s sc IH]; intros T ids Jl tn HT Hff.
  - cbn [map add_events fst snd ref_x sched_in ids_ok] in *.
    destruct (tbl_facts T HT Hff) as (Cr & W & W' & Hff' & EB).
    rewrite (st_of_pn T HT Hff), EB, blocks_x_pn. split; [reflexivity|]. split; [|split; [auto | split; [reflexivity | exact Hff']]].
    apply Forall_impl. intros o. apply noise_in_V.
  - cbn [map add_events] in Hff |- *. cbn [pes x_ev] in *. fold (pes s).
    pose proof (LinkRun.add_events_incl vals (map x_ev sc)) as Inc2.
    destruct (add_event vals T (x_ev s)) as [T1 [c h]] eqn:AE.
    assert (Hff1 : few_forkers vals T1).
    { specialize (Inc2 T1). destruct (add_events vals T1 (map x_ev sc)) as [T2 rs]. cbn [fst] in *. eapply few_forkers_sub; [exact Inc2 | exact Hff]. }
    assert (HffT : few_forkers vals T).
    { pose proof (add_event_incl vals T (x_ev s)) as Inc1. rewrite AE in Inc1. eapply few_forkers_sub; [exact Inc1 | exact Hff1]. }
    destruct (tbl_facts T HT HffT) as (Cr & W & W' & HffT' & EB).
    destruct (add_event_pn vals T (x_ev s) Cr) as [AE' Cr1]. rewrite AE in AE'. cbn [fst snd] in AE'.
    assert (HT1 : tbl T1).
    { destruct (N.eq_dec c 0) as [->|Nc]; [apply (tbl_step T (x_ev s) T1 h HT AE)|].
      rewrite (add_event_keep vals T (x_ev s) T1 c h AE Nc). exact HT. }
    assert (Hff' : few_forkers vals (fst (add_events vals T1 (map x_ev sc)))).
    { destruct (add_events vals T1 (map x_ev sc)) as [T2 rs]. exact Hff. }
    assert (ES : seal_of V sfr (map pn T1) = seal_of vals sfr T1) by (apply seal_of_pn; assumption).
    destruct (IH T1 (if c =? 0 then eid (fe (x_ev s)) :: ids else ids) (if c =? 1 then eid (fe (x_ev s)) :: Jl else Jl) tn HT1 Hff')
      as (IH1 & IH2 & IH3 & IH4 & IH5).
    split; [|split; [|split; [|split]]].
    + cbn [ref_x]. cbn [pes x_ev x_pre x_mid x_build]. rewrite AE', AE, ES, (st_of_pn T HT HffT).
      destruct (seal_of vals sfr T1) as [nvals|].
      * rewrite blocks_x_pn. destruct (tbl_facts T1 HT1 Hff1) as (_ & _ & _ & _ & ->).
        f_equal. f_equal. f_equal. f_equal. clear. induction sc as [|s0 sc IHs]; [reflexivity|]. cbn [map post_x pes x_pre x_mid]. rewrite IHs. reflexivity.
      * rewrite IH1, (st_of_pn T1 HT1 Hff1). reflexivity.
    + cbn [sched_in]. cbn [pes x_ev x_pre x_mid]. rewrite AE', AE, ES. intros (A1 & A2 & A3).
      split; [revert A1; apply Forall_impl; intros o; apply noise_in_V|].
      split; [revert A2; apply Forall_impl; intros o; apply noise_in_V|].
      destruct (seal_of vals sfr T1) as [nvals|]; [|apply IH2; exact A3].
      clear - A3. revert A3. induction sc as [|s0 sc IHs]; cbn [map post_in pes x_pre x_mid]; [auto|].
      intros (B1 & B2 & B3). auto.
    + cbn [ids_ok]. rewrite AE', AE. cbn [LinkEquiv.pe fe eid]. intros [A1 A2]. split; [exact A1 | apply IH3; exact A2].
    + rewrite AE'. destruct (add_events V (map pn T1) (map x_ev (map pes sc))) as [T2' rs'].
      destruct (add_events vals T1 (map x_ev sc)) as [T2 rs]. cbn [fst snd] in *. rewrite IH4. reflexivity.
    + rewrite AE'. destruct (add_events V (map pn T1) (map x_ev (map pes sc))) as [T2' rs']. cbn [fst] in *. exact IH5.
Qed.
End Transfer.

(* ================= Part 2: one epoch, validators in any order ================= *)
Lemma Sim_nil_lam ep lam lam' vals J K i : Sim ep lam vals J K i [] [] [] -> Sim ep lam' vals J K i [] [] [].
Proof.
  intros [W [S [[C CI I0 N0] AV]] FR CT PR SG CH]. constructor; auto.
  exists S. split; [|exact AV]. constructor; auto.
  destruct C as [A Bv Cc D E F G H Ir]. constructor; auto. intros e [].
Qed.

Lemma fold_add_ge l : forall a, a <= fold_left N.add l a.
Proof. induction l as [|x l IH]; intros a; cbn [fold_left]; [lia|]. specialize (IH (a + x)). lia. Qed.
Lemma few_forkers_nil (x : list (N * N)) : x <> [] -> (forall p, In p x -> snd p <> 0) -> few_forkers x [].
Proof.
  intros Hne NZ. unfold few_forkers. rewrite (WSumBft.wsP_zero (map snd x) (forker [])) by (intros v _; reflexivity).
  rewrite WSumBft.totalW_fold. destruct x as [|[a w] t]; [congruence|]. cbn [map snd fold_left].
  pose proof (fold_add_ge (map snd t) (0 + w)). pose proof (NZ (a, w) (or_introl eq_refl)). cbn [snd] in *. lia.
Qed.

Lemma next_vals_ok (x : list (N * N)) : raw_ok x -> v_total x < 2 ^ 31 -> x <> [] ->
  (forall c, v_exists (mk_vals x) c = v_exists x c) /\ vals_ok (mk_vals x) /\ few_forkers (mk_vals x) [] /\ (0 < length (mk_vals x))%nat.
Proof.
  intros R Tt Ne.
  assert (P : Permutation (mk_vals x) x) by (rewrite (mk_vals_vsort x R); apply vsort_perm).
  assert (R' : raw_ok (mk_vals x)) by (eapply raw_ok_perm; [symmetry; exact P | exact R]).
  assert (Ne' : mk_vals x <> []) by (intros E; rewrite E in P; apply Permutation_nil in P; congruence).
  split; [intros c; apply v_exists_mk_vals; exact R|]. split.
  - split; [apply mk_vals_canonical; exact R|]. rewrite (EV x R), v_total_total.
    change VecIndex.total_weight with ElectionSpec.total_weight. rewrite (total_same x). exact Tt.
  - split; [apply few_forkers_nil; [exact Ne' | apply R']|]. destruct (mk_vals x); [congruence | cbn; lia].
Qed.

Section EpochXRaw.
Variable cap : nat.
Variable pol : policy.
Variable K : N.
Hypothesis HK : K < 2 ^ 192.
Variable ep : N.
Variable lam : fev -> N.
Variable vals : list (N * N).            (* the validators of the epoch, in any order *)
Hypothesis Raw : raw_ok vals.
Hypothesis Tot : v_total vals < 2 ^ 31.
Variable sfr : N -> option (list (N * N)).
Hypothesis Hsfr : forall f, policy_fn pol ep f 0 [] [] = option_map mk_vals (sfr f).
Hypothesis Hnx : forall f x, sfr f = Some x -> raw_ok x /\ v_total x < 2 ^ 31 /\ x <> [].

Theorem epoch_x_raw sc tn i lam0 :
  Sim ep lam0 (mk_vals vals) (fun _ => False) K i [] [] [] ->
  stream_ok vals (map x_ev sc) -> ids_ok vals K [] [] (map x_ev sc) -> sched_in ep vals sfr [] [] sc tn ->
  l_ctr (i_st i) + N.of_nat (count_builds (xsched_ops ep lam vals sc tn)) <= K ->
  let r := ref_x ep vals sfr [] sc tn in
  let i' := run_inst cap pol sample i (xsched_ops ep lam vals sc tn) in
  render_x sc tn (run cap pol sample i (xsched_ops ep lam vals sc tn)) = fst r /\
  l_ctr (i_st i') <= l_ctr (i_st i) + N.of_nat (count_builds (xsched_ops ep lam vals sc tn)) /\
  match snd r with
  | None => l_epoch (i_st i') = ep
  | Some nvals => Sim (ep + 1) lam (mk_vals nvals) (fun _ => False) K i' [] [] []
  end.
Proof.
  intros HS (Hcr & Hc & Hff) Hid Hin Hctr. cbn zeta.
  assert (Vok : vals_ok (vals' vals)).
  { split; [apply Can; exact Raw|]. rewrite v_total_total. change VecIndex.total_weight with ElectionSpec.total_weight.
    rewrite (total_same vals). exact Tot. }
  unfold table in Hff.
  destruct (transfer ep vals Raw sfr K sc [] [] [] tn (tbl_nil vals) Hff) as (TR & TS & TI & TC & TF). cbn [map] in *.
  rewrite <- (xsched_ops_pe ep lam vals sc tn Hcr) in *.
  rewrite (EV vals Raw) in HS.
  assert (HS0 : Sim ep (lam1 lam vals) (vals' vals) (fun a => In a []) K i [] [] []).
  { apply (Sim_J_mono ep (lam1 lam vals) (vals' vals) K (fun _ => False) (fun a => In a []) i [] [] []); [intros a [] | intros e [] |].
    apply (Sim_nil_lam ep lam0). exact HS. }
  destruct (epoch_x cap pol K HK ep (lam1 lam vals) (vals' vals) Vok sfr Hsfr
              (fun f x Hx => match Hnx f x Hx with conj R (conj Tt Ne) => next_vals_ok x R Tt Ne end)
              (map (pes vals) sc) i [] [] [] [] tn HS0 (fun a (F : In a []) => match F with end))
    as [Bx [RX [BX [CX MX]]]].
  - rewrite TC. exact Hc.
  - intros e He. rewrite map_map in He. apply in_map_iff in He as [s [<- Hs]]. cbn [pes x_ev LinkEquiv.pe fe ecr].
    rewrite (vals'_len vals). apply (pos_lt _ _ (canon_order_perm vals)). apply Hcr. apply in_map. exact Hs.
  - exact TF.
  - apply TI. exact Hid.
  - apply TS. exact Hin.
  - exact Hctr.
  - intros f Hf. cbn [length] in Hf. lia.
  - rewrite TR in RX, BX, MX. cbn [map app] in BX. subst Bx.
    rewrite <- (render_x_shape _ _ tn _ (pes_shape vals sc)). rewrite RX.
    split; [destruct (ref_x ep vals sfr [] sc tn) as [[a b] c]; reflexivity|]. split; [exact CX|].
    destruct (snd (ref_x ep vals sfr [] sc tn)); [apply (Sim_nil_lam (ep + 1) (lam1 lam vals)); exact MX | exact MX].
Qed.
End EpochXRaw.

(* ================= Part 3: several epochs, arbitrary policy ================= *)
(* the policy as the reference reads it: epoch, frame -> validators as handed over *)
Definition praw (pol : policy) (ep f : N) : option (list (N * N)) :=
  match find (fun x : N * N * list (N * N) => (fst (fst x) =? ep) && (snd (fst x) =? f)) pol with
  | Some x => Some (snd x) | None => None end.
Lemma policy_fn_praw pol ep f a ch dl : policy_fn pol ep f a ch dl = option_map mk_vals (praw pol ep f).
Proof. unfold policy_fn, praw. destruct (find _ pol); reflexivity. Qed.

Fixpoint ref_epochs_x (pol : policy) (vals : list (N * N)) (ep : N) (Ss : list (list xslot * list op))
  : list (list ev_x * list blk_x * option (list (N * N))) :=
  match Ss with
  | [] => []
  | Sx :: rest =>
    let r := ref_x ep vals (praw pol ep) [] (fst Sx) (snd Sx) in
    r :: match snd r with Some nvals => ref_epochs_x pol nvals (ep + 1) rest | None => [] end
  end.

(* the frame of the first sealing block that was reported *)
Definition sealing_frame (bs : list blk_x) : option N :=
  first_some (fun b : blk_x => match snd b with Some _ => Some (fst (fst (fst b))) | None => None end) bs.

(* the driver: the next epoch's events are encoded against the validator list that the application's
   policy returned for the sealing block *)
Fixpoint model_epochs_x (cap : nat) (lam : fev -> N) (pol : policy) (i : inst) (vals : list (N * N)) (ep : N)
  (Ss : list (list xslot * list op)) : list (list ev_x * list blk_x * option Abft.vals) :=
  match Ss with
  | [] => []
  | Sx :: rest =>
    let ops := xsched_ops ep lam vals (fst Sx) (snd Sx) in
    let r := render_x (fst Sx) (snd Sx) (run cap pol sample i ops) in
    let i' := run_inst cap pol sample i ops in
    let sealed := negb (l_epoch (i_st i') =? ep) in
    (fst r, snd r, if sealed then Some (l_vals (i_st i')) else None) ::
    (if sealed then
       match sealing_frame (snd r) with
       | Some f => match praw pol ep f with
                   | Some nvals => model_epochs_x cap lam pol i' nvals (ep + 1) rest
                   | None => [] end
       | None => [] end
     else [])
  end.

Definition slot_builds (s : xslot) : nat := (count_builds (x_pre s) + ((if x_build s then 1 else 0) + count_builds (x_mid s)))%nat.
Definition sched_builds (sc : list xslot) (tn : list op) : nat := fold_right (fun s n => (slot_builds s + n)%nat) (count_builds tn) sc.
Definition total_builds (Ss : list (list xslot * list op)) : nat := fold_right (fun Sx n => (sched_builds (fst Sx) (snd Sx) + n)%nat) 0%nat Ss.
Lemma count_builds_xsched ep lam vals sc tn : count_builds (xsched_ops ep lam vals sc tn) = sched_builds sc tn.
Proof.
  unfold xsched_ops. induction sc as [|s sc IH]; [reflexivity|]. cbn [flat_map sched_builds fold_right]. rewrite <- app_assoc, count_builds_app, IH.
  f_equal. unfold xs_ops, slot_builds. rewrite !count_builds_app. destruct (x_build s); cbn; lia.
Qed.

(* what is asked of the input, epoch by epoch (only the epochs that the reference reaches) *)
Fixpoint epochs_ok_x (pol : policy) (K : N) (vals : list (N * N)) (ep : N) (Ss : list (list xslot * list op)) : Prop :=
  match Ss with
  | [] => True
  | Sx :: rest =>
    raw_ok vals /\ v_total vals < 2 ^ 31 /\
    stream_ok vals (map x_ev (fst Sx)) /\ ids_ok vals K [] [] (map x_ev (fst Sx)) /\
    sched_in ep vals (praw pol ep) [] [] (fst Sx) (snd Sx) /\
    (forall f x, praw pol ep f = Some x -> raw_ok x /\ v_total x < 2 ^ 31 /\ x <> []) /\
    match snd (ref_x ep vals (praw pol ep) [] (fst Sx) (snd Sx)) with
    | Some nvals => epochs_ok_x pol K nvals (ep + 1) rest
    | None => True
    end
  end.

Lemma sealing_frame_cut vals sfr T : forall bs nvals, first_some (fun b => sfr (fst b)) bs = Some nvals ->
  exists f, sealing_frame (blocks_x vals sfr T (cut_seal sfr bs)) = Some f /\ sfr f = Some nvals.
Proof.
  induction bs as [|b t IH]; intros nvals H; cbn [first_some] in H; [discriminate|]. cbn [cut_seal].
  destruct (sfr (fst b)) as [x|] eqn:E.
  - inversion H; subst x. exists (fst b). unfold sealing_frame, blocks_x. cbn [map first_some snd fst]. rewrite E. cbn [option_map]. auto.
  - destruct (IH nvals H) as [f [F1 F2]]. exists f. split; [|exact F2].
    unfold sealing_frame, blocks_x in *. cbn [map first_some snd fst]. rewrite E. cbn [option_map]. exact F1.
Qed.
Lemma ref_x_sealed ep vals sfr : forall sc T tn nvals, snd (ref_x ep vals sfr T sc tn) = Some nvals ->
  exists f, sealing_frame (snd (fst (ref_x ep vals sfr T sc tn))) = Some f /\ sfr f = Some nvals.
Proof.
  induction sc as [|s sc IH]; intros T tn nvals H; cbn [ref_x] in *; [discriminate|].
  destruct (add_event vals T (x_ev s)) as [T1 [c h]].
  destruct (seal_of vals sfr T1) as [nv0|] eqn:SO.
  - cbn [fst snd] in *. inversion H; subst nv0. apply sealing_frame_cut. exact SO.
  - specialize (IH T1 tn nvals). destruct (ref_x ep vals sfr T1 sc tn) as [[cs bl] nx]. cbn [fst snd] in *. apply IH. exact H.
Qed.

Theorem model_epochs_x_sim cap lam pol K : K < 2 ^ 192 -> forall Ss vals ep i lam0,
  Sim ep lam0 (mk_vals vals) (fun _ => False) K i [] [] [] -> epochs_ok_x pol K vals ep Ss ->
  l_ctr (i_st i) + N.of_nat (total_builds Ss) <= K ->
  model_epochs_x cap lam pol i vals ep Ss =
  map (fun r => (fst (fst r), snd (fst r), option_map mk_vals (snd r))) (ref_epochs_x pol vals ep Ss).
Proof.
  intros HK. induction Ss as [|[sc tn] rest IH]; intros vals ep i lam0 HS OK Hc; [reflexivity|].
  cbn [epochs_ok_x fst snd] in OK. destruct OK as (Raw & Tot & Str & Ids & Sin & Pok & OKn).
  cbn [total_builds fold_right fst snd] in Hc. fold (total_builds rest) in Hc.
  destruct (epoch_x_raw cap pol K HK ep lam vals Raw Tot (praw pol ep) (fun f => policy_fn_praw pol ep f 0 [] []) Pok sc tn i lam0 HS Str Ids Sin)
    as (RX & CX & MX).
  { rewrite count_builds_xsched. lia. }
  rewrite count_builds_xsched in CX.
  cbn [model_epochs_x ref_epochs_x map fst snd]. rewrite RX.
  pose proof (ref_x_sealed ep vals (praw pol ep) sc [] tn) as SF.
  destruct (ref_x ep vals (praw pol ep) [] sc tn) as [[evs bls] nx] eqn:ER. cbn [fst snd] in *.
  destruct nx as [nvals|].
  - destruct (Sim_ldf K HK (ep + 1) lam (mk_vals nvals) _ (fun a (F : False) => match F with end) _ _ _ _ MX) as [_ Ee].
    pose proof MX as [_ [S0 [[C0 _ _ _] _]] _ _ _ _ _]. pose proof (co_vals _ _ _ _ _ _ _ _ C0) as Ev.
    rewrite Ee, Ev. replace (ep + 1 =? ep) with false by (symmetry; apply N.eqb_neq; lia). cbn [negb option_map].
    destruct (SF nvals eq_refl) as [f [F1 F2]]. rewrite F1, F2. f_equal.
    apply (IH nvals (ep + 1) _ lam MX OKn). lia.
  - rewrite MX, N.eqb_refl. reflexivity.
Qed.

(* ================= L1, extended, over several epochs ================= *)
Theorem link_x cap lam pol vals Ss K :
  vals <> [] -> epochs_ok_x pol K vals 1 Ss -> N.of_nat (total_builds Ss) <= K -> K < 2 ^ 192 ->
  model_epochs_x cap lam pol (start 1 vals) vals 1 Ss =
  map (fun r => (fst (fst r), snd (fst r), option_map mk_vals (snd r))) (ref_epochs_x pol vals 1 Ss).
Proof.
  intros Ne OK Hc HK. destruct Ss as [|S0 rest]; [reflexivity|].
  pose proof OK as (Raw & Tot & _).
  destruct (next_vals_ok vals Raw Tot Ne) as (_ & Vok & _ & Hnv).
  apply (model_epochs_x_sim cap lam pol K HK (S0 :: rest) vals 1 (start 1 vals) lam); [|exact OK | cbn [start i_st genesis l_ctr]; lia].
  apply (Sim_fresh 1 lam (mk_vals vals) Vok (fun _ => False) K (fun a (F : False) => match F with end) [] 0 []); [lia | exact Hnv].
Qed.
