(* C22/C23/C24: the abstract content [view] of a stack of stores and the read side:
   get / has / iterate of every stack read its view.  Also the "last write wins" function
   [lastw] used to relate overlays, write logs and batches. *)
From Coq Require Import NArith List Lia Bool.
From LV Require Import lib.Bytes lib.BytesFacts lib.Lex lib.SortedMap spec.KvSpec spec.KvOps
  model.PrefixRange model.Table model.Flushable model.KvStack
  proofs.FlushableIter proofs.TableView proofs.PrefixRangeProofs.
Import ListNotations.

Definition kwf {V} (m : smap V) : Prop := Forall (fun kv => wf_bytes (fst kv) = true) m.

(* ---------- last write wins ---------- *)

Definition wop_entry (w : wop) : option val := match w with WPut _ v => Some v | WDel _ => None end.

Fixpoint lastw (ops : list wop) (k : key) : option (option val) :=
  match ops with
  | [] => None
  | w :: r =>
      match lastw r k with
      | Some e => Some e
      | None => if bytes_eqb k (wop_key w) then Some (wop_entry w) else None
      end
  end.

Lemma lastw_app a b k :
  lastw (a ++ b) k = match lastw b k with Some e => Some e | None => lastw a k end.
Proof.
  induction a as [|w a IH]; cbn.
  - now destruct (lastw b k).
  - rewrite IH. destruct (lastw b k); auto.
Qed.

Lemma bytes_eqb_refl k : bytes_eqb k k = true.
Proof. now apply bytes_eqb_eq. Qed.

Lemma bytes_eqb_neq a b : a <> b -> bytes_eqb a b = false.
Proof. intros H. destruct (bytes_eqb a b) eqn:E; auto. apply bytes_eqb_eq in E. contradiction. Qed.

Lemma kv_write_sorted m ops : sm_sorted m -> sm_sorted (kv_write m ops).
Proof.
  unfold kv_write. revert m. induction ops as [|w ops IH]; cbn [fold_left]; intros m S; auto.
  apply IH. destruct w; cbn; auto using sm_put_sorted, sm_del_sorted.
Qed.

Lemma kv_apply_get m w k : sm_sorted m ->
  sm_get (kv_apply m w) k = if bytes_eqb k (wop_key w) then wop_entry w else sm_get m k.
Proof. intros S. destruct w; cbn; [apply sm_get_put | now apply sm_get_del]. Qed.

Lemma kv_write_get m ops k : sm_sorted m ->
  sm_get (kv_write m ops) k =
  match lastw ops k with Some (Some v) => Some v | Some None => None | None => sm_get m k end.
Proof.
  unfold kv_write. revert m. induction ops as [|w ops IH]; cbn [fold_left lastw]; intros m S; auto.
  rewrite IH by (destruct w; cbn; auto using sm_put_sorted, sm_del_sorted).
  destruct (lastw ops k) as [[v|]|]; auto.
  rewrite kv_apply_get by auto. destruct (bytes_eqb k (wop_key w)); auto. now destruct (wop_entry w).
Qed.

Lemma flu_apply_get o w k :
  sm_get (flu_apply o w) k = if bytes_eqb k (wop_key w) then Some (wop_entry w) else sm_get o k.
Proof. destruct w; cbn; apply sm_get_put. Qed.

Lemma flu_write_get o ops k :
  sm_get (flu_write o ops) k = match lastw ops k with Some e => Some e | None => sm_get o k end.
Proof.
  unfold flu_write. revert o. induction ops as [|w ops IH]; cbn; intros o; auto.
  rewrite IH. destruct (lastw ops k); auto. rewrite flu_apply_get.
  now destruct (bytes_eqb k (wop_key w)).
Qed.

Lemma flu_apply_sorted o w : sm_sorted o -> sm_sorted (flu_apply o w).
Proof. destruct w; cbn; apply sm_put_sorted. Qed.

Lemma flu_write_sorted o ops : sm_sorted o -> sm_sorted (flu_write o ops).
Proof.
  unfold flu_write. revert o. induction ops as [|w ops IH]; cbn; intros o S; auto.
  apply IH, flu_apply_sorted, S.
Qed.

Lemma kwf_put {V} (o : smap V) k e : kwf o -> wf_bytes k = true -> kwf (sm_put o k e).
Proof.
  intros W Wk. unfold kwf in *. rewrite Forall_forall in *. intros kv H.
  apply sm_put_In in H as [->|H]; cbn; auto.
Qed.

Lemma kwf_del {V} (o : smap V) k : kwf o -> kwf (sm_del o k).
Proof.
  intros W. unfold kwf in *. rewrite Forall_forall in *. intros kv H.
  apply sm_del_In in H. auto.
Qed.

Definition wop_wf (w : wop) : Prop := wf_bytes (wop_key w) = true.

Lemma flu_write_kwf o ops : kwf o -> Forall wop_wf ops -> kwf (flu_write o ops).
Proof.
  unfold flu_write. revert o. induction ops as [|w ops IH]; cbn; intros o W F; auto.
  inversion F; subst. apply IH; auto. destruct w; cbn; apply kwf_put; auto.
Qed.

Lemma kv_write_kwf m ops : kwf m -> Forall wop_wf ops -> kwf (kv_write m ops).
Proof.
  unfold kv_write. revert m. induction ops as [|w ops IH]; cbn; intros m W F; auto.
  inversion F; subst. apply IH; auto. destruct w; cbn; [apply kwf_put | apply kwf_del]; auto.
Qed.

(* the overlay applied to a map, through lookups *)
Lemma merge_flu_write (o : tree) (m : kvmap) ops : sm_sorted o -> sm_sorted m ->
  merge_overlay (flu_write o ops) m = kv_write (merge_overlay o m) ops.
Proof.
  intros So Sm. apply sm_ext.
  - apply merge_overlay_sorted, Sm.
  - apply kv_write_sorted, merge_overlay_sorted, Sm.
  - intros k. rewrite sm_get_merge_overlay by auto using flu_write_sorted.
    rewrite kv_write_get by (apply merge_overlay_sorted, Sm).
    rewrite sm_get_merge_overlay by auto. unfold ov_lookup. rewrite flu_write_get.
    destruct (lastw ops k) as [[v|]|]; auto.
Qed.

(* flushing: the operations of the tree, in tree order, act as the tree *)
Lemma lastw_flu_ops (o : tree) k : sm_sorted o -> lastw (flu_ops o) k = sm_get o k.
Proof.
  induction o as [|[k' e] o IH]; intros S; [reflexivity|].
  destruct S as [G S]. cbn [flu_ops map lastw]. fold (flu_ops o). rewrite IH by auto.
  cbn [sm_get].
  assert (K : wop_key (match snd (k', e) with Some v => WPut (fst (k', e)) v | None => WDel (fst (k', e)) end) = k')
    by (destruct e; reflexivity).
  assert (En : wop_entry (match snd (k', e) with Some v => WPut (fst (k', e)) v | None => WDel (fst (k', e)) end) = e)
    by (destruct e; reflexivity).
  rewrite K, En.
  destruct (lex_compare k k') eqn:E.
  - apply lex_compare_eq in E. subst k'.
    rewrite (sm_get_none_le _ k o k) by auto using lex_le_refl. now rewrite bytes_eqb_refl.
  - rewrite (sm_get_none_le _ k' o k) by (auto; apply lex_lt_le; exact E).
    rewrite bytes_eqb_neq; auto. intros ->. rewrite lex_compare_refl in E. discriminate.
  - destruct (sm_get o k); auto.
    rewrite bytes_eqb_neq; auto. intros ->. rewrite lex_compare_refl in E. discriminate.
Qed.

Lemma kv_write_flu_ops (o : tree) (m : kvmap) : sm_sorted o -> sm_sorted m ->
  kv_write m (flu_ops o) = merge_overlay o m.
Proof.
  intros So Sm. apply sm_ext; auto using kv_write_sorted, merge_overlay_sorted.
  intros k. rewrite kv_write_get, sm_get_merge_overlay by auto. unfold ov_lookup.
  now rewrite lastw_flu_ops.
Qed.

(* ---------- view and well-formedness ---------- *)

Fixpoint view (s : st) : kvmap :=
  match s with
  | Eng _ m => m
  | Mem o => merge_overlay o []
  | Flu o u => merge_overlay o (view u)
  | Tab p u => kv_table_view p (view u)
  | Syn u => view u
  | Lzy o i u => merge_overlay o (if i then view u else [])
  end.

Fixpoint wf_st (s : st) : Prop :=
  match s with
  | Eng _ m => sm_sorted m /\ kwf m
  | Mem o => sm_sorted o
  | Flu o u => sm_sorted o /\ kwf o /\ wf_st u
  | Tab p u => wf_bytes p = true /\ wf_st u
  | Syn u => wf_st u
  | Lzy o _ u => sm_sorted o /\ kwf o /\ wf_st u
  end.

Lemma view_sorted s : wf_st s -> sm_sorted (view s).
Proof.
  induction s as [e m|o|o u IH|p u IH|u IH|o i u IH]; cbn; intros W.
  - tauto.
  - now apply merge_overlay_sorted.
  - apply merge_overlay_sorted, IH. tauto.
  - apply tv_sorted, IH. tauto.
  - auto.
  - apply merge_overlay_sorted. destruct i; [apply IH; tauto|exact I].
Qed.

Theorem st_get_view s k : wf_st s -> st_get s k = kv_get (view s) k.
Proof.
  unfold kv_get. revert k. induction s as [e m|o|o u IH|p u IH|u IH|o i u IH]; cbn; intros k W.
  - reflexivity.
  - rewrite sm_get_merge_overlay by (cbn; auto). reflexivity.
  - destruct W as (So & _ & Wu). rewrite sm_get_merge_overlay by auto using view_sorted.
    unfold flu_get, ov_lookup. now rewrite IH.
  - destruct W as (_ & Wu). rewrite tv_get by auto using view_sorted. now apply IH.
  - auto.
  - destruct W as (So & _ & Wu). destruct i.
    + rewrite sm_get_merge_overlay by auto using view_sorted.
      unfold flu_get, ov_lookup. now rewrite IH.
    + rewrite sm_get_merge_overlay by (cbn; auto). reflexivity.
Qed.

Theorem st_has_view s k : wf_st s -> st_has s k = kv_has (view s) k.
Proof.
  unfold kv_has. revert k. induction s as [e m|o|o u IH|p u IH|u IH|o i u IH]; cbn; intros k W.
  - reflexivity.
  - rewrite sm_get_merge_overlay by (cbn; auto). unfold flu_has, ov_lookup.
    destruct (sm_get o k) as [[v|]|]; reflexivity.
  - destruct W as (So & _ & Wu). rewrite sm_get_merge_overlay by auto using view_sorted.
    unfold flu_has, ov_lookup. rewrite IH by auto.
    destruct (sm_get o k) as [[v|]|]; reflexivity.
  - destruct W as (_ & Wu). rewrite tv_get by auto using view_sorted. now apply IH.
  - auto.
  - destruct W as (So & _ & Wu). destruct i.
    + rewrite sm_get_merge_overlay by auto using view_sorted.
      unfold flu_has, ov_lookup. rewrite IH by auto.
      destruct (sm_get o k) as [[v|]|]; reflexivity.
    + rewrite sm_get_merge_overlay by (cbn; auto). unfold flu_has, ov_lookup.
      destruct (sm_get o k) as [[v|]|]; reflexivity.
Qed.

Theorem st_iter_view s P S : wf_st s -> wf_bytes (ob P) = true ->
  st_iter s P S = kv_iterate (view s) (ob P) (ob S).
Proof.
  revert P S. induction s as [e m|o|o u IH|p u IH|u IH|o i u IH]; cbn [st_iter view wf_st]; intros P S W WP.
  - destruct W as [Sm Wm]. now apply eng_iter_spec.
  - change (@nil (key * val)) with (kv_iterate [] (ob P) (ob S)) at 1.
    apply flu_iterate_spec; cbn; auto.
  - destruct W as (So & _ & Wu). rewrite IH by auto.
    apply flu_iterate_spec; auto using view_sorted.
  - destruct W as (Wp & Wu). rewrite IH; auto.
    + cbn [ob]. unfold prefixed. apply tv_iterate.
    + cbn [ob]. unfold prefixed. rewrite wf_bytes_app, Wp, WP. reflexivity.
  - auto.
  - destruct W as (So & _ & Wu). destruct i.
    + rewrite IH by auto. apply flu_iterate_spec; auto using view_sorted.
    + change (@nil (key * val)) with (kv_iterate [] (ob P) (ob S)) at 1.
      apply flu_iterate_spec; cbn; auto.
Qed.
