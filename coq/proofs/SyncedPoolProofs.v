(* C25 — SyncedPool: every crash point of every history is consistent (see props/C25.v). *)
From Coq Require Import NArith List Bool Lia Permutation PeanoNat Compare_dec.
From LV Require Import lib.Bytes lib.BytesFacts model.CrashBase model.SyncedPool proofs.CrashBaseProofs.
Import ListNotations.
Local Open Scope N_scope.

(* ------------------------------------------------------------------ the cache (sorted association list) *)
Fixpoint lt_all (k : bytes) (c : cache) : Prop :=
  match c with [] => True | (k', _) :: t => lex_lt k k' /\ lt_all k t end.
Fixpoint csorted (c : cache) : Prop :=
  match c with [] => True | (k, _) :: t => lt_all k t /\ csorted t end.

Lemma lex_lt_irrefl k : ~ lex_lt k k.
Proof. unfold lex_lt. rewrite lex_compare_refl. discriminate. Qed.
Lemma lex_gt_lt a b : lex_compare a b = Gt -> lex_lt b a.
Proof. unfold lex_lt. intros H. rewrite lex_compare_antisym, H. reflexivity. Qed.

Lemma lt_all_trans k k' c : lex_lt k k' -> lt_all k' c -> lt_all k c.
Proof.
  intros H. induction c as [|[k0 v] t IH]; cbn; auto.
  intros [A B]. split; auto. eapply lex_lt_trans; eauto.
Qed.
Lemma lt_all_cput k0 k ov c : lex_lt k0 k -> lt_all k0 c -> lt_all k0 (cput k ov c).
Proof.
  intros H. induction c as [|[k' v] t IH]; cbn; auto.
  intros [A B]. destruct (lex_compare k k'); cbn; auto.
Qed.
Lemma csorted_cput k ov c : csorted c -> csorted (cput k ov c).
Proof.
  induction c as [|[k' v] t IH]; cbn; auto.
  intros [A B]. destruct (lex_compare k k') eqn:E; cbn.
  - apply lex_compare_eq in E; subst. auto.
  - split; [split; [exact E|eapply lt_all_trans; eauto]|auto].
  - split; [apply lt_all_cput; auto; apply lex_gt_lt; auto|auto].
Qed.
Lemma cget_lt_all k c : lt_all k c -> cget k c = None.
Proof.
  induction c as [|[k' v] t IH]; cbn; auto. intros [A B].
  rewrite beqb_neq; auto. intros ->. eapply lex_lt_irrefl; eauto.
Qed.
Lemma cget_cput_eq k ov c : cget k (cput k ov c) = Some ov.
Proof.
  induction c as [|[k' v] t IH]; cbn; [rewrite beqb_refl; auto|].
  destruct (lex_compare k k') eqn:E; cbn; try (rewrite beqb_refl; auto).
  rewrite beqb_neq; auto. intros ->. rewrite lex_compare_refl in E; discriminate.
Qed.
Lemma cget_cput_neq k k1 ov c : k <> k1 -> cget k1 (cput k ov c) = cget k1 c.
Proof.
  intros H. induction c as [|[k' v] t IH]; cbn; [rewrite beqb_neq; auto|].
  destruct (lex_compare k k') eqn:E; cbn.
  - apply lex_compare_eq in E; subst. rewrite !beqb_neq; auto.
  - rewrite (beqb_neq k k1); auto.
  - destruct (bytes_eqb k' k1); auto.
Qed.
Lemma writes_avoid_cput fk k ov c :
  k <> fk -> writes_avoid fk c = true -> writes_avoid fk (cput k ov c) = true.
Proof.
  intros H. induction c as [|[k' v] t IH]; cbn; [rewrite beqb_neq; auto|].
  intros A. apply andb_true_iff in A. destruct A as [A1 A2].
  destruct (lex_compare k k'); cbn; rewrite ?A1, ?A2, ?IH, ?(beqb_neq k fk); auto.
Qed.
Lemma cget_avoid fk c : writes_avoid fk c = true -> cget fk c = None.
Proof.
  induction c as [|[k' v] t IH]; cbn; auto. intros A. apply andb_true_iff in A. destruct A as [A1 A2].
  apply negb_true_iff in A1. rewrite A1. auto.
Qed.

(* writing a sorted cache over a database gives the overlay *)
Lemma apply_writes_view c d key :
  csorted c -> dget key (apply_writes c d) = match cget key c with Some ov => ov | None => dget key d end.
Proof.
  revert d; induction c as [|[k ov] t IH]; intros d S; cbn; auto.
  destruct S as [A B]. unfold apply_writes in *. cbn. rewrite IH; auto.
  destruct (bytes_eqb k key) eqn:E.
  - apply bytes_eqb_eq in E; subst. rewrite (cget_lt_all _ _ A).
    apply (dget_apply_write_eq d (key, ov)).
  - destruct (cget key t); auto. apply (dget_apply_write_neq d (k, ov)). cbn. apply beqb_false; auto.
Qed.

(* ------------------------------------------------------------------ wrapper maps *)
Lemma pget_pset_eq n x l : pget n (pset n x l) = Some x.
Proof.
  induction l as [|[n' x'] t IH]; cbn; [rewrite N.eqb_refl; auto|].
  destruct (n' =? n) eqn:E; cbn; [rewrite N.eqb_refl; auto|rewrite E; auto].
Qed.
Lemma pget_pset_neq n n' x l : n <> n' -> pget n' (pset n x l) = pget n' l.
Proof.
  intros H. induction l as [|[n0 x0] t IH]; cbn.
  - destruct (n =? n') eqn:E; auto. apply N.eqb_eq in E; contradiction.
  - destruct (n0 =? n) eqn:E; cbn.
    + apply N.eqb_eq in E; subst. destruct (n =? n') eqn:E'; auto. apply N.eqb_eq in E'; contradiction.
    + destruct (n0 =? n'); auto.
Qed.
Lemma pget_pdel_eq n l : pget n (pdel n l) = None.
Proof.
  induction l as [|[n' x'] t IH]; cbn; auto.
  destruct (n' =? n) eqn:E; cbn; auto. rewrite E; auto.
Qed.
Lemma pget_pdel_neq n n' l : n <> n' -> pget n' (pdel n l) = pget n' l.
Proof.
  intros H. induction l as [|[n0 x0] t IH]; cbn; auto.
  destruct (n0 =? n) eqn:E; cbn.
  - apply N.eqb_eq in E; subst. destruct (n =? n') eqn:E'; auto. apply N.eqb_eq in E'; contradiction.
  - destruct (n0 =? n'); auto.
Qed.
Lemma pget_in_names n l : In n (map fst l) <-> pget n l <> None.
Proof.
  induction l as [|[n' x'] t IH]; cbn; [tauto|].
  destruct (n' =? n) eqn:E.
  - apply N.eqb_eq in E; subst. split; [discriminate|auto].
  - rewrite <- IH. split; [intros [X|X]; auto; subst; rewrite N.eqb_refl in E; discriminate|auto].
Qed.
Lemma pset_names_nodup n x l : NoDup (map fst l) -> NoDup (map fst (pset n x l)).
Proof.
  induction l as [|[n' x'] t IH]; cbn; intros ND; [repeat constructor; auto|].
  inversion ND as [|? ? Hn ND']; subst.
  destruct (n' =? n) eqn:E; cbn.
  - apply N.eqb_eq in E; subst. constructor; auto.
  - constructor; auto. intros H. apply pget_in_names in H.
    rewrite pget_pset_neq in H; [apply Hn; apply pget_in_names; auto|].
    intros ->. rewrite N.eqb_refl in E; discriminate.
Qed.
Lemma pdel_names_nodup n l : NoDup (map fst l) -> NoDup (map fst (pdel n l)).
Proof.
  induction l as [|[n' x'] t IH]; cbn; intros ND; [constructor|].
  inversion ND as [|? ? Hn ND']; subst.
  destruct (n' =? n) eqn:E; cbn; auto.
  constructor; auto. intros H. apply pget_in_names in H.
  rewrite pget_pdel_neq in H; [apply Hn; apply pget_in_names; auto|].
  intros ->. rewrite N.eqb_refl in E; discriminate.
Qed.

Lemma nmem_notin_false n t : ~ In n t -> nmem n t = false.
Proof. apply nmem_false. Qed.

(* ------------------------------------------------------------------ Flushable.flush as batches *)
Lemma batches_names scale n c cur size o : In o (batches scale n c cur size) -> dop_name o = n.
Proof.
  revert cur size; induction c as [|w t IH]; intros cur size; cbn.
  - intros [<-|[]]; reflexivity.
  - destruct (IDEAL <? (size + wsize w) * scale); [intros [<-|H]; [reflexivity|eauto]|eauto].
Qed.

Lemma batches_apply scale n c cur size w d :
  wget n w = Some d ->
  wget n (apply_dops (batches scale n c cur size) w) = Some (apply_writes (rev cur ++ c) d).
Proof.
  revert cur size w d; induction c as [|x t IH]; intros cur size w d G; cbn.
  - rewrite app_nil_r. rewrite wget_on_db_eq, G. reflexivity.
  - destruct (IDEAL <? (size + wsize x) * scale).
    + unfold apply_dops; cbn. fold (apply_dops (batches scale n t [] 0) (on_db n (apply_writes (rev cur ++ [x])) w)).
      rewrite (IH [] 0 _ (apply_writes (rev cur ++ [x]) d)).
      * cbn. rewrite <- apply_writes_app, <- app_assoc. reflexivity.
      * rewrite wget_on_db_eq, G. reflexivity.
    + rewrite (IH (x :: cur) _ w d G). cbn. rewrite <- app_assoc. reflexivity.
Qed.

Lemma writes_avoid_app fk a b : writes_avoid fk (a ++ b) = writes_avoid fk a && writes_avoid fk b.
Proof. unfold writes_avoid. apply forallb_app. Qed.
Lemma forallb_rev {A} (f : A -> bool) l : forallb f (rev l) = forallb f l.
Proof.
  induction l as [|x t IH]; cbn; auto. rewrite forallb_app, IH. cbn. rewrite andb_true_r, andb_comm. reflexivity.
Qed.
Lemma writes_avoid_rev fk a : writes_avoid fk (rev a) = writes_avoid fk a.
Proof. unfold writes_avoid. apply forallb_rev. Qed.

Lemma batches_avoid fk scale n c cur size o :
  writes_avoid fk cur = true -> writes_avoid fk c = true ->
  In o (batches scale n c cur size) -> exists ws, o = DBatch n ws /\ writes_avoid fk ws = true.
Proof.
  revert cur size; induction c as [|w t IH]; intros cur size Hc Ht; cbn.
  - intros [<-|[]]. eexists; split; [reflexivity|]. rewrite writes_avoid_rev; auto.
  - cbn in Ht. apply andb_true_iff in Ht. destruct Ht as [Hw Ht].
    assert (Hwc : writes_avoid fk (w :: cur) = true) by (unfold writes_avoid in *; cbn [forallb]; rewrite Hw; exact Hc).
    destruct (IDEAL <? (size + wsize w) * scale).
    + intros [<-|H]; [eexists; split; [reflexivity|rewrite <- Hwc; apply (writes_avoid_rev fk (w :: cur))]|].
      eapply (IH [] 0); eauto.
    + eapply (IH (w :: cur)); eauto.
Qed.

(* ------------------------------------------------------------------ the phases, database by database *)
Definition f1 (wr : list (name * wrapper)) (n : name) : list dop :=
  match pget n wr with Some x => if w_inited x then [DDrop n] else [] | None => [] end.
Definition f2 (fk id : bytes) (wr : list (name * wrapper)) (n : name) : list dop :=
  match pget n wr with
  | Some x => (if w_inited x then [] else [DOpen n]) ++ [DPut n fk (mark_of DIRTY id)]
  | None => []
  end.
Definition f3 (scale : N) (wr : list (name * wrapper)) (n : name) : list dop :=
  match pget n wr with
  | Some x => (if w_inited x then [] else [DOpen n]) ++ batches scale n (w_cache x) [] 0
  | None => []
  end.
Definition f4 (fk id : bytes) (n : name) : list dop := [DPut n fk (mark_of CLEAN id)].

Lemma map_ext_notin {A} (f g : name -> A) n t :
  ~ In n t -> (forall m, m <> n -> f m = g m) -> map f t = map g t.
Proof. intros H E. apply map_ext_in. intros m Hm. apply E. intros ->; contradiction. Qed.

Lemma phase1_decomp ns : forall wr, NoDup ns -> NoDup (map fst wr) ->
  exists wr', phase1 ns wr = (wr', concat (map (f1 wr) ns)) /\ NoDup (map fst wr') /\
              forall n, pget n wr' = if nmem n ns then None else pget n wr.
Proof.
  induction ns as [|n t IH]; intros wr ND NW; cbn.
  - exists wr. auto.
  - inversion ND as [|? ? Hn ND']; subst. unfold f1 at 1.
    destruct (pget n wr) as [x|] eqn:G.
    + destruct (IH (pdel n wr) ND' (pdel_names_nodup _ _ NW)) as [wr' [E [NW' C]]].
      rewrite E. exists wr'. split; [|split; auto].
      * rewrite (map_ext_notin (f1 (pdel n wr)) (f1 wr) n t Hn); [reflexivity|].
        intros m Hm. unfold f1. rewrite pget_pdel_neq; auto.
      * intros m. rewrite C. destruct (n =? m) eqn:Em; cbn.
        -- apply N.eqb_eq in Em; subst. destruct (nmem m t); auto. apply pget_pdel_eq.
        -- destruct (nmem m t); auto. apply pget_pdel_neq. intros ->. rewrite N.eqb_refl in Em; discriminate.
    + destruct (IH wr ND' NW) as [wr' [E [NW' C]]]. rewrite E. exists wr'. split; [reflexivity|split; auto].
      intros m. rewrite C. destruct (n =? m) eqn:Em; cbn; auto.
      apply N.eqb_eq in Em; subst. destruct (nmem m t); auto.
Qed.

Lemma phase2_decomp fk id ns : forall wr, NoDup ns -> NoDup (map fst wr) ->
  exists wr', phase2 fk id ns wr = (wr', concat (map (f2 fk id wr) ns)) /\ NoDup (map fst wr') /\
              forall n, pget n wr' = if nmem n ns then option_map (fun x => mkWr true (w_cache x)) (pget n wr)
                                     else pget n wr.
Proof.
  induction ns as [|n t IH]; intros wr ND NW; cbn.
  - exists wr. auto.
  - inversion ND as [|? ? Hn ND']; subst. unfold f2 at 1.
    destruct (pget n wr) as [x|] eqn:G.
    + destruct (IH (pset n (mkWr true (w_cache x)) wr) ND' (pset_names_nodup _ _ _ NW)) as [wr' [E [NW' C]]].
      rewrite E. exists wr'. split; [|split; auto].
      * rewrite (map_ext_notin (f2 fk id (pset n (mkWr true (w_cache x)) wr)) (f2 fk id wr) n t Hn).
        { rewrite <- app_assoc. reflexivity. }
        intros m Hm. unfold f2. rewrite pget_pset_neq; auto.
      * intros m. rewrite C. destruct (n =? m) eqn:Em; cbn.
        -- apply N.eqb_eq in Em; subst. rewrite (nmem_notin_false _ _ Hn), pget_pset_eq, G. reflexivity.
        -- rewrite pget_pset_neq; auto. intros ->. rewrite N.eqb_refl in Em; discriminate.
    + destruct (IH wr ND' NW) as [wr' [E [NW' C]]]. rewrite E. exists wr'. split; [reflexivity|split; auto].
      intros m. rewrite C. destruct (n =? m) eqn:Em; cbn; auto.
      apply N.eqb_eq in Em; subst. rewrite G. destruct (nmem m t); auto.
Qed.

Lemma phase3_decomp scale ns : forall wr, NoDup ns -> NoDup (map fst wr) ->
  exists wr', phase3 scale ns wr = (wr', concat (map (f3 scale wr) ns)) /\ NoDup (map fst wr') /\
              forall n, pget n wr' = if nmem n ns then option_map (fun _ => mkWr true []) (pget n wr)
                                     else pget n wr.
Proof.
  induction ns as [|n t IH]; intros wr ND NW; cbn.
  - exists wr. auto.
  - inversion ND as [|? ? Hn ND']; subst. unfold f3 at 1.
    destruct (pget n wr) as [x|] eqn:G.
    + destruct (IH (pset n (mkWr true []) wr) ND' (pset_names_nodup _ _ _ NW)) as [wr' [E [NW' C]]].
      rewrite E. exists wr'. split; [|split; auto].
      * rewrite (map_ext_notin (f3 scale (pset n (mkWr true []) wr)) (f3 scale wr) n t Hn).
        { rewrite <- app_assoc. reflexivity. }
        intros m Hm. unfold f3. rewrite pget_pset_neq; auto.
      * intros m. rewrite C. destruct (n =? m) eqn:Em; cbn.
        -- apply N.eqb_eq in Em; subst. rewrite (nmem_notin_false _ _ Hn), pget_pset_eq, G. reflexivity.
        -- rewrite pget_pset_neq; auto. intros ->. rewrite N.eqb_refl in Em; discriminate.
    + destruct (IH wr ND' NW) as [wr' [E [NW' C]]]. rewrite E. exists wr'. split; [reflexivity|split; auto].
      intros m. rewrite C. destruct (n =? m) eqn:Em; cbn; auto.
      apply N.eqb_eq in Em; subst. rewrite G. destruct (nmem m t); auto.
Qed.

Lemma phase4_decomp fk id ns : phase4 fk id ns = concat (map (f4 fk id) ns).
Proof. induction ns as [|n t IH]; cbn; auto. rewrite IH; reflexivity. Qed.

Lemma f1_names wr m o : In o (f1 wr m) -> dop_name o = m.
Proof. unfold f1. destruct (pget m wr) as [x|]; [destruct (w_inited x)|]; cbn; intuition; subst; auto. Qed.
Lemma f2_names fk id wr m o : In o (f2 fk id wr m) -> dop_name o = m.
Proof.
  unfold f2. destruct (pget m wr) as [x|]; [|intros []].
  rewrite in_app_iff. destruct (w_inited x); cbn; intuition; subst; auto.
Qed.
Lemma f3_names scale wr m o : In o (f3 scale wr m) -> dop_name o = m.
Proof.
  unfold f3. destruct (pget m wr) as [x|]; [|intros []].
  rewrite in_app_iff. intros [H|H]; [destruct (w_inited x); cbn in H; intuition; subst; auto|].
  eapply batches_names; eauto.
Qed.
Lemma f4_names fk id m o : In o (f4 fk id m) -> dop_name o = m.
Proof. cbn. intuition; subst; auto. Qed.

Lemma in_concat_map {A B} (f : A -> list B) l y : In y (concat (map f l)) -> exists x, In x l /\ In y (f x).
Proof.
  induction l as [|a t IH]; cbn; [tauto|]. rewrite in_app_iff. intros [H|H]; eauto.
  destruct (IH H) as [x [A1 A2]]. eauto.
Qed.

(* ------------------------------------------------------------------ properties of worlds under single operations *)
Section Worlds.
  Variable fk : bytes.

  Definition nomark_empty (w : world) : Prop :=
    forall n c, wget n w = Some c -> dget fk c = None -> db_empty c.
  Definition marked_at (w : world) (n : name) : Prop :=
    exists c m, wget n w = Some c /\ dget fk c = Some m.

  Lemma agrees_nomark orc w : agrees fk orc w -> nomark_empty w.
  Proof. intros A n c G E. destruct (A _ _ G) as [H|[rc [s [_ [M _]]]]]; auto. congruence. Qed.

  (* case analysis helper: the database an operation acts on, or another one *)
  Lemma wget_apply_cases w o n :
    dop_name o = n \/ wget n (apply_dop w o) = wget n w.
  Proof. destruct (N.eq_dec (dop_name o) n); [left; auto|right; apply apply_dop_other; auto]. Qed.

  Lemma ne_drop w n : nomark_empty w -> nomark_empty (apply_dop w (DDrop n)).
  Proof.
    intros H n' c G. cbn [apply_dop] in G. destruct (N.eq_dec n n') as [->|Hne].
    - rewrite wget_wdel_eq in G; discriminate.
    - rewrite wget_wdel_neq in G; auto. eapply H; eauto.
  Qed.
  Lemma ne_open w n : nomark_empty w -> nomark_empty (apply_dop w (DOpen n)).
  Proof.
    intros H n' c G. cbn [apply_dop] in G. destruct (wget n w) eqn:E; [eapply H; eauto|].
    destruct (N.eq_dec n n') as [->|Hne].
    - rewrite wget_wset_eq in G. inversion G; subst. intros _. apply db_empty_nil.
    - rewrite wget_wset_neq in G; auto. eapply H; eauto.
  Qed.
  Lemma ne_putmark w n m : nomark_empty w -> nomark_empty (apply_dop w (DPut n fk m)).
  Proof.
    intros H n' c G. cbn [apply_dop] in G. destruct (N.eq_dec n n') as [->|Hne].
    - rewrite wget_on_db_eq in G. destruct (wget n' w); [|discriminate]. inversion G; subst.
      rewrite dget_dput_eq. discriminate.
    - rewrite wget_on_db_neq in G; auto. eapply H; eauto.
  Qed.
  Lemma ne_batch w n ws :
    nomark_empty w -> (wget n w <> None -> marked_at w n) -> writes_avoid fk ws = true ->
    nomark_empty (apply_dop w (DBatch n ws)).
  Proof.
    intros H Hm Ha n' c G. cbn [apply_dop] in G. destruct (N.eq_dec n n') as [->|Hne].
    - rewrite wget_on_db_eq in G. destruct (wget n' w) as [d|] eqn:E; [|discriminate]. inversion G; subst.
      rewrite dget_apply_writes_avoid; auto.
      destruct Hm as [c [m [G' M]]]; [discriminate|]. inversion G'; subst. congruence.
    - rewrite wget_on_db_neq in G; auto. eapply H; eauto.
  Qed.

  Lemma dirty_other w o n : dirty_at fk w n -> dop_name o <> n -> dirty_at fk (apply_dop w o) n.
  Proof. intros [c [m [G X]]] H. exists c, m. rewrite apply_dop_other; auto. Qed.
  Lemma dirty_open w n n' : dirty_at fk w n -> dirty_at fk (apply_dop w (DOpen n')) n.
  Proof.
    intros [c [m [G X]]]. exists c, m. split; auto. cbn [apply_dop].
    destruct (wget n' w) eqn:E; auto. rewrite wget_wset_neq; auto. intros ->. congruence.
  Qed.
  Lemma dirty_putdirty w n id :
    wget n w <> None -> dirty_at fk (apply_dop w (DPut n fk (mark_of DIRTY id))) n.
  Proof.
    intros H. destruct (wget n w) as [c|] eqn:E; [|contradiction].
    exists (dput fk (mark_of DIRTY id) c), (mark_of DIRTY id). cbn [apply_dop].
    rewrite wget_on_db_eq, E. cbn [option_map]. rewrite dget_dput_eq. repeat split; auto.
  Qed.
  Lemma dirty_batch w n n' ws :
    dirty_at fk w n -> writes_avoid fk ws = true -> dirty_at fk (apply_dop w (DBatch n' ws)) n.
  Proof.
    intros [c [m [G [M D]]]] Ha. destruct (N.eq_dec n' n) as [->|Hne].
    - exists (apply_writes ws c), m. cbn [apply_dop]. rewrite wget_on_db_eq, G. cbn [option_map].
      rewrite dget_apply_writes_avoid; auto.
    - exists c, m. cbn [apply_dop]. rewrite wget_on_db_neq; auto.
  Qed.
  Lemma marked_batch w n n' ws :
    marked_at w n -> writes_avoid fk ws = true -> marked_at (apply_dop w (DBatch n' ws)) n.
  Proof.
    intros [c [m [G M]]] Ha. destruct (N.eq_dec n' n) as [->|Hne].
    - exists (apply_writes ws c), m. cbn [apply_dop]. rewrite wget_on_db_eq, G. cbn [option_map].
      rewrite dget_apply_writes_avoid; auto.
    - exists c, m. cbn [apply_dop]. rewrite wget_on_db_neq; auto.
  Qed.

  Lemma agrees_drop orc w n : agrees fk orc w -> agrees fk orc (apply_dop w (DDrop n)).
  Proof.
    intros A n' c G. cbn [apply_dop] in G. destruct (N.eq_dec n n') as [->|Hne].
    - rewrite wget_wdel_eq in G; discriminate.
    - rewrite wget_wdel_neq in G; auto.
  Qed.
  Lemma agrees_open orc w n : agrees fk orc w -> agrees fk orc (apply_dop w (DOpen n)).
  Proof.
    intros A n' c G. cbn [apply_dop] in G. destruct (wget n w) eqn:E; [auto|].
    destruct (N.eq_dec n n') as [->|Hne].
    - rewrite wget_wset_eq in G. inversion G; subst. left. apply db_empty_nil.
    - rewrite wget_wset_neq in G; auto.
  Qed.
End Worlds.

(* ------------------------------------------------------------------ the invariant between flushes *)
Section Inv.
  Variable fk : bytes.
  Variable scale : N.

  (* what a read through the wrapper returns: the cache over the underlying database *)
  Definition view (x : wrapper) (od : option db) (key : bytes) : option bytes :=
    match cget key (w_cache x) with
    | Some ov => ov
    | None => match od with Some c => dget key c | None => None end
    end.

  Record pool_inv (p : pool) (sp : spec_state) (W : world) : Prop := mkInv {
    inv_nodup : NoDup (map fst (p_wr p));
    inv_durable : forall n, wget n W <> None <-> exists x, pget n (p_wr p) = Some x /\ w_inited x = true;
    inv_names : forall n, pget n (p_wr p) = None <-> wget n (sp_dbs sp) = None;
    inv_refine : forall n x s, pget n (p_wr p) = Some x -> wget n (sp_dbs sp) = Some s ->
                 forall key, view x (wget n W) key = dget key s;
    inv_cache : forall n x, pget n (p_wr p) = Some x ->
                csorted (w_cache x) /\ writes_avoid fk (w_cache x) = true;
    inv_queued : p_queued p = sp_doomed sp
  }.

  Lemma pool_inv_ext p sp1 sp2 W :
    (forall n, wget n (sp_dbs sp1) = wget n (sp_dbs sp2)) -> sp_doomed sp1 = sp_doomed sp2 ->
    pool_inv p sp1 W -> pool_inv p sp2 W.
  Proof.
    intros E D [A B C R K Q]. constructor; auto.
    - intros n. rewrite <- E. apply C.
    - intros n x s G1 G2. rewrite <- E in G2. eapply R; eauto.
    - congruence.
  Qed.

  Lemma get_db_inv p sp W n :
    pool_inv p sp W ->
    pool_inv (fst (get_db n p)) (sp_open n sp) W /\
    pget n (p_wr (fst (get_db n p))) = Some (snd (get_db n p)) /\
    wget n (sp_dbs (sp_open n sp)) <> None.
  Proof.
    intros I. destruct I as [A B C R K Q]. unfold get_db, sp_open.
    destruct (pget n (p_wr p)) as [x|] eqn:G.
    - assert (X : wget n (sp_dbs sp) <> None) by (intros H; apply C in H; congruence).
      destruct (wget n (sp_dbs sp)) eqn:E; [|contradiction]. cbn.
      split; [constructor; auto|]. split; [auto|congruence].
    - assert (X : wget n (sp_dbs sp) = None) by (apply C; auto). rewrite X. cbn.
      split; [|split; [apply pget_pset_eq|rewrite wget_wset_eq; discriminate]].
      constructor; cbn.
      + apply pset_names_nodup; auto.
      + intros m. rewrite B. destruct (N.eq_dec n m) as [->|Hne].
        * rewrite pget_pset_eq, G. split; intros [x [H1 H2]]; [discriminate|]. inversion H1; subst. discriminate.
        * rewrite pget_pset_neq; auto. tauto.
      + intros m. destruct (N.eq_dec n m) as [->|Hne].
        * rewrite pget_pset_eq, wget_wset_eq. split; discriminate.
        * rewrite pget_pset_neq, wget_wset_neq; auto.
      + intros m x s G1 G2 key. destruct (N.eq_dec n m) as [->|Hne].
        * rewrite pget_pset_eq in G1. rewrite wget_wset_eq in G2. inversion G1; inversion G2; subst.
          unfold view; cbn. destruct (wget m W) eqn:E; auto.
          exfalso. assert (Y : wget m W <> None) by congruence. apply B in Y.
          destruct Y as [x [Y _]]. congruence.
        * rewrite pget_pset_neq in G1; auto. rewrite wget_wset_neq in G2; auto. all: try (eapply R; eauto).
      + intros m x G1. destruct (N.eq_dec n m) as [->|Hne].
        * rewrite pget_pset_eq in G1. inversion G1; subst. cbn. auto.
        * rewrite pget_pset_neq in G1; auto. all: try (eapply K; eauto).
      + auto.
  Qed.

  Lemma cache_write_inv p sp W n k ov (f : db -> db) :
    pool_inv p sp W -> k <> fk ->
    (forall c key, dget key (f c) = if bytes_eqb k key then ov else dget key c) ->
    pool_inv (cache_write n k ov p) (sp_write n f sp) W.
  Proof.
    intros I Hk Hf. destruct (get_db_inv p sp W n I) as [I1 [G X]].
    unfold cache_write, sp_write. destruct (get_db n p) as [p1 x] eqn:Eg. cbn in I1, G.
    destruct I1 as [A B C R K Q].
    destruct (wget n (sp_dbs (sp_open n sp))) as [s1|] eqn:Es; [|contradiction].
    constructor; cbn.
    - apply pset_names_nodup; auto.
    - intros m. rewrite B. destruct (N.eq_dec n m) as [->|Hne].
      + rewrite pget_pset_eq, G. split; intros [y [H1 H2]]; inversion H1; subst; eexists; split; eauto.
      + rewrite pget_pset_neq; auto. tauto.
    - intros m. destruct (N.eq_dec n m) as [->|Hne].
      + rewrite pget_pset_eq, wget_on_db_eq, Es. cbn. split; discriminate.
      + rewrite pget_pset_neq, wget_on_db_neq; auto.
    - intros m y s G1 G2 key. destruct (N.eq_dec n m) as [->|Hne].
      + rewrite pget_pset_eq in G1. rewrite wget_on_db_eq, Es in G2. cbn in G2.
        inversion G1; inversion G2; subst. rewrite Hf. unfold view; cbn.
        destruct (bytes_eqb k key) eqn:E.
        * apply bytes_eqb_eq in E; subst. rewrite cget_cput_eq. reflexivity.
        * rewrite cget_cput_neq; [|apply beqb_false; auto]. apply (R m x s1 G Es key).
      + rewrite pget_pset_neq in G1; auto. rewrite wget_on_db_neq in G2; auto. all: try (eapply R; eauto).
    - intros m y G1. destruct (N.eq_dec n m) as [->|Hne].
      + rewrite pget_pset_eq in G1. inversion G1; subst. cbn. destruct (K _ _ G) as [K1 K2].
        split; [apply csorted_cput; auto|apply writes_avoid_cput; auto].
      + rewrite pget_pset_neq in G1; auto. all: try (eapply K; eauto).
    - auto.
  Qed.

  Lemma sp_open_present n sp : wget n (sp_dbs sp) <> None -> sp_open n sp = sp.
  Proof. unfold sp_open. destruct (wget n (sp_dbs sp)); [auto|contradiction]. Qed.

  (* a batch through the pool = its writes one by one *)
  Lemma cache_writes_inv n ws : forall p sp W,
    pool_inv p sp W -> wget n (sp_dbs sp) <> None -> writes_avoid fk ws = true ->
    pool_inv (cache_writes n ws p) (mkSpec (on_db n (apply_writes ws) (sp_dbs sp)) (sp_doomed sp)) W.
  Proof.
    induction ws as [|w t IH]; intros p sp W I X Ha.
    - cbn [cache_writes]. eapply pool_inv_ext; [| |exact I]; cbn; auto.
      intros m. destruct (N.eq_dec n m) as [->|Hne].
      + rewrite wget_on_db_eq. destruct (wget m (sp_dbs sp)); reflexivity.
      + rewrite wget_on_db_neq; auto.
    - cbn [cache_writes]. cbn in Ha. apply andb_true_iff in Ha. destruct Ha as [Ha1 Ha2].
      assert (I1 : pool_inv (cache_write n (fst w) (snd w) p) (sp_write n (fun c => apply_write c w) sp) W).
      { apply cache_write_inv; auto.
        - apply negb_true_iff in Ha1. apply beqb_false; auto.
        - intros c key. destruct (bytes_eqb (fst w) key) eqn:E.
          + apply bytes_eqb_eq in E; subst. apply dget_apply_write_eq.
          + apply dget_apply_write_neq. apply beqb_false; auto. }
      unfold sp_write in I1. rewrite (sp_open_present _ _ X) in I1.
      eapply pool_inv_ext; [| |apply (IH _ _ _ I1)]; cbn; auto.
      + intros m. destruct (N.eq_dec n m) as [->|Hne].
        * rewrite !wget_on_db_eq. destruct (wget m (sp_dbs sp)); reflexivity.
        * rewrite !wget_on_db_neq; auto.
      + rewrite wget_on_db_eq. destruct (wget n (sp_dbs sp)); [discriminate|contradiction].
  Qed.
End Inv.

(* ------------------------------------------------------------------ flush *)
Lemma dedup_in n l : In n (dedup l) <-> In n l.
Proof.
  induction l as [|x t IH]; cbn; [tauto|].
  destruct (nmem x t) eqn:E.
  - rewrite IH. split; auto. intros [->|H]; auto. apply nmem_in; auto.
  - cbn. rewrite IH. tauto.
Qed.
Lemma dedup_nodup l : NoDup (dedup l).
Proof.
  induction l as [|x t IH]; cbn; [constructor|].
  destruct (nmem x t) eqn:E; auto. constructor; auto.
  rewrite dedup_in. apply nmem_false; auto.
Qed.

Lemma wget_remove_all ns : forall w n, wget n (remove_all ns w) = if nmem n ns then None else wget n w.
Proof.
  induction ns as [|m t IH]; intros w n; cbn; auto.
  unfold remove_all in *. cbn. rewrite IH.
  destruct (m =? n) eqn:E; cbn.
  - apply N.eqb_eq in E; subst. destruct (nmem n t); auto. apply wget_wdel_eq.
  - destruct (nmem n t); auto. apply wget_wdel_neq. intros ->. rewrite N.eqb_refl in E; discriminate.
Qed.
Lemma wget_with_marks fk id w n :
  wget n (with_marks fk id w) = option_map (dput fk (mark_of CLEAN id)) (wget n w).
Proof.
  induction w as [|[m c] t IH]; cbn; auto. destruct (m =? n); auto.
Qed.

Lemma is_dirty_mark id : is_dirty (mark_of DIRTY id) = true.
Proof. unfold is_dirty, mark_of. cbn. reflexivity. Qed.

Lemma nil_if_none (l : list name) (P : name -> Prop) :
  (forall n, In n l <-> P n) -> (forall n, ~ P n) -> l = [].
Proof. intros H N. destruct l as [|m t]; auto. exfalso. apply (N m). apply H. left; auto. Qed.

Section Flush.
  Variable fk : bytes.
  Variable scale : N.

  Definition Pid (orc : option flush_rec) (w : world) : Prop :=
    nomark_empty fk w /\ (agrees fk orc w \/ dirtyw fk w).

  Lemma Pid_open orc w n : Pid orc w -> Pid orc (apply_dop w (DOpen n)).
  Proof.
    intros [A [B|[m B]]]; split; try (apply ne_open; auto).
    - left. apply agrees_open; auto.
    - right. exists m. apply dirty_open; auto.
  Qed.
  Lemma Pid_putdirty orc w n id : Pid orc w -> Pid orc (apply_dop w (DPut n fk (mark_of DIRTY id))).
  Proof.
    intros [A B]. split; [apply ne_putmark; auto|].
    destruct (wget n w) eqn:E.
    - right. exists n. apply dirty_putdirty. congruence.
    - cbn. unfold on_db. rewrite E. exact B.
  Qed.

  Lemma phase4_strict id ns : forall w, NoDup ns -> (forall n, In n ns -> dirty_at fk w n) -> nomark_empty fk w ->
    strict_prefixes (fun w => nomark_empty fk w /\ dirtyw fk w) (concat (map (f4 fk id) ns)) w.
  Proof.
    induction ns as [|n t IH]; intros w ND Hd Hn; cbn; auto.
    inversion ND as [|? ? Hnt ND']; subst.
    split; [split; auto; exists n; apply Hd; left; auto|].
    apply IH; auto.
    - intros m Hm. apply (dirty_other fk w (DPut n fk (mark_of CLEAN id)) m); [apply Hd; right; auto|].
      cbn. intros ->; contradiction.
    - apply (ne_putmark fk w n (mark_of CLEAN id)); auto.
  Qed.

  Lemma flush_correct p sp W id os orc k0 :
    pool_inv fk p sp W -> agrees fk orc W ->
    let dbs' := with_marks fk id (remove_all (sp_doomed sp) (sp_dbs sp)) in
    let W' := apply_dops (snd (flush fk scale id os p)) W in
    pool_inv fk (fst (flush fk scale id os p)) (mkSpec dbs' []) W' /\
    strict_prefixes (Pid orc) (snd (flush fk scale id os p)) W /\
    agrees_all fk (mkRec k0 id dbs') W'.
  Proof.
    intros I Ag. destruct I as [A B C R K Q]. unfold flush.
    set (ns1 := arrange (nth_order os 0) (dedup (p_queued p))).
    assert (ND1 : NoDup ns1) by (apply arrange_nodup, dedup_nodup).
    assert (In1 : forall n, In n ns1 <-> In n (sp_doomed sp)).
    { intros n. unfold ns1. rewrite arrange_in, dedup_in, Q. tauto. }
    destruct (phase1_decomp ns1 (p_wr p) ND1 A) as [wr1 [E1 [NW1 C1]]]. rewrite E1.
    set (ns2 := arrange (nth_order os 1) (map fst wr1)).
    assert (ND2 : NoDup ns2) by (apply arrange_nodup; auto).
    assert (In2 : forall n, In n ns2 <-> pget n wr1 <> None).
    { intros n. unfold ns2. rewrite arrange_in. apply pget_in_names. }
    destruct (phase2_decomp fk id ns2 wr1 ND2 NW1) as [wr2 [E2 [NW2 C2]]]. rewrite E2.
    assert (C2' : forall n, pget n wr2 = option_map (fun x => mkWr true (w_cache x)) (pget n wr1)).
    { intros n. rewrite C2. destruct (nmem n ns2) eqn:En; auto.
      apply nmem_false in En. rewrite In2 in En. destruct (pget n wr1); [exfalso; apply En; discriminate|auto]. }
    set (ns3 := arrange (nth_order os 2) (map fst wr2)).
    assert (ND3 : NoDup ns3) by (apply arrange_nodup; auto).
    assert (In3 : forall n, In n ns3 <-> pget n wr1 <> None).
    { intros n. unfold ns3. rewrite arrange_in, pget_in_names, C2'. destruct (pget n wr1); cbn; split; congruence. }
    destruct (phase3_decomp scale ns3 wr2 ND3 NW2) as [wr3 [E3 [NW3 C3]]]. rewrite E3.
    assert (C3' : forall n, pget n wr3 = option_map (fun _ => mkWr true []) (pget n wr1)).
    { intros n. rewrite C3, C2'. destruct (nmem n ns3) eqn:En; [destruct (pget n wr1); auto|].
      apply nmem_false in En. rewrite In3 in En. destruct (pget n wr1); [exfalso; apply En; discriminate|auto]. }
    set (ns4 := arrange (nth_order os 3) (map fst wr3)).
    assert (ND4 : NoDup ns4) by (apply arrange_nodup; auto).
    assert (In4 : forall n, In n ns4 <-> pget n wr1 <> None).
    { intros n. unfold ns4. rewrite arrange_in, pget_in_names, C3'. destruct (pget n wr1); cbn; split; congruence. }
    rewrite phase4_decomp. cbn [fst snd].
    set (ops1 := concat (map (f1 (p_wr p)) ns1)).
    set (ops2 := concat (map (f2 fk id wr1) ns2)).
    set (ops3 := concat (map (f3 scale wr2) ns3)).
    set (ops4 := concat (map (f4 fk id) ns4)).
    set (W1 := apply_dops ops1 W).
    set (W2 := apply_dops ops2 W1).
    set (W3 := apply_dops ops3 W2).
    (* wrappers of wr1 *)
    assert (Wr1 : forall n x, pget n wr1 = Some x <-> pget n (p_wr p) = Some x /\ ~ In n ns1).
    { intros n x. rewrite C1. destruct (nmem n ns1) eqn:En.
      - apply nmem_in in En. split; [discriminate|tauto].
      - apply nmem_false in En. tauto. }
    (* ---- worlds, database by database *)
    assert (G1 : forall n, wget n W1 = if nmem n ns1 then None else wget n W).
    { intros n. unfold W1, ops1. rewrite (apply_concat_get (f1 (p_wr p)) ns1 n W ND1 (f1_names _)).
      destruct (nmem n ns1) eqn:En; auto. unfold f1.
      destruct (pget n (p_wr p)) as [x|] eqn:G.
      - destruct (w_inited x) eqn:Ei; cbn; [apply wget_wdel_eq|].
        destruct (wget n W) eqn:Ew; auto. exfalso.
        assert (Y : wget n W <> None) by congruence. apply B in Y. destruct Y as [y [Y1 Y2]]. congruence.
      - cbn. destruct (wget n W) eqn:Ew; auto. exfalso.
        assert (Y : wget n W <> None) by congruence. apply B in Y. destruct Y as [y [Y1 Y2]]. congruence. }
    assert (G1n : forall n, pget n wr1 = None -> wget n W1 = None).
    { intros n Hn. rewrite G1. destruct (nmem n ns1) eqn:En; auto.
      destruct (wget n W) eqn:Ew; auto. exfalso.
      assert (Y : wget n W <> None) by congruence. apply B in Y. destruct Y as [y [Y1 Y2]].
      apply nmem_false in En. assert (Z : pget n wr1 = Some y) by (apply Wr1; auto). congruence. }
    assert (G1i : forall n x, pget n wr1 = Some x -> w_inited x = true -> wget n W1 <> None).
    { intros n x Hx Hi. apply Wr1 in Hx. destruct Hx as [Hx Hn]. rewrite G1.
      rewrite (nmem_notin_false _ _ Hn). apply B. eauto. }
    assert (G1u : forall n x, pget n wr1 = Some x -> w_inited x = false -> wget n W1 = None).
    { intros n x Hx Hi. apply Wr1 in Hx. destruct Hx as [Hx Hn]. rewrite G1.
      rewrite (nmem_notin_false _ _ Hn). destruct (wget n W) eqn:Ew; auto. exfalso.
      assert (Y : wget n W <> None) by congruence. apply B in Y. destruct Y as [y [Y1 Y2]]. congruence. }
    set (base := fun n => match wget n W1 with Some c => c | None => [] end).
    assert (G2 : forall n, wget n W2 =
                 match pget n wr1 with Some _ => Some (dput fk (mark_of DIRTY id) (base n)) | None => None end).
    { intros n. unfold W2, ops2. rewrite (apply_concat_get (f2 fk id wr1) ns2 n W1 ND2 (f2_names _ _ _)).
      destruct (pget n wr1) as [x|] eqn:G.
      - assert (En : nmem n ns2 = true) by (apply nmem_in, In2; congruence). rewrite En.
        unfold f2. rewrite G. unfold base. destruct (w_inited x) eqn:Ei; cbn [app].
        + pose proof (G1i _ _ G Ei) as Y. destruct (wget n W1) as [c|] eqn:Ew; [|contradiction].
          unfold apply_dops; cbn [fold_left apply_dop]. rewrite wget_on_db_eq, Ew. reflexivity.
        + pose proof (G1u _ _ G Ei) as Y. rewrite Y.
          unfold apply_dops; cbn [fold_left apply_dop]. rewrite Y.
          rewrite wget_on_db_eq, wget_wset_eq. reflexivity.
      - assert (En : nmem n ns2 = false) by (apply nmem_false; rewrite In2; intros H; apply H; auto).
        rewrite En. apply G1n; auto. }
    assert (G3 : forall n, wget n W3 =
                 match pget n wr1 with
                 | Some x => Some (apply_writes (w_cache x) (dput fk (mark_of DIRTY id) (base n)))
                 | None => None end).
    { intros n. unfold W3, ops3. rewrite (apply_concat_get (f3 scale wr2) ns3 n W2 ND3 (f3_names _ _)).
      destruct (pget n wr1) as [x|] eqn:G.
      - assert (En : nmem n ns3 = true) by (apply nmem_in, In3; congruence). rewrite En.
        unfold f3. rewrite C2', G. cbn [option_map w_inited w_cache app].
        rewrite (batches_apply scale n (w_cache x) [] 0 W2 _ (eq_trans (G2 n) ltac:(rewrite G; reflexivity))).
        reflexivity.
      - assert (En : nmem n ns3 = false) by (apply nmem_false; rewrite In3; intros H; apply H; auto).
        rewrite En, G2, G. reflexivity. }
    assert (G4 : forall n, wget n (apply_dops ops4 W3) =
                 match pget n wr1 with
                 | Some x => Some (dput fk (mark_of CLEAN id)
                                     (apply_writes (w_cache x) (dput fk (mark_of DIRTY id) (base n))))
                 | None => None end).
    { intros n. unfold ops4. rewrite (apply_concat_get (f4 fk id) ns4 n W3 ND4 (f4_names _ _)).
      destruct (pget n wr1) as [x|] eqn:G.
      - assert (En : nmem n ns4 = true) by (apply nmem_in, In4; congruence). rewrite En.
        unfold f4, apply_dops; cbn [fold_left apply_dop]. rewrite wget_on_db_eq, G3, G. reflexivity.
      - assert (En : nmem n ns4 = false) by (apply nmem_false; rewrite In4; intros H; apply H; auto).
        rewrite En, G3, G. reflexivity. }
    assert (Wfin : apply_dops (ops1 ++ ops2 ++ ops3 ++ ops4) W = apply_dops ops4 W3).
    { rewrite !apply_dops_app. reflexivity. }
    rewrite Wfin.
    (* caches avoid the flush-ID key *)
    assert (Kc : forall n x, pget n wr1 = Some x -> csorted (w_cache x) /\ writes_avoid fk (w_cache x) = true).
    { intros n x Hx. apply Wr1 in Hx. destruct Hx as [Hx _]. eapply K; eauto. }
    assert (Eqv : forall n x s0, pget n wr1 = Some x -> wget n (sp_dbs sp) = Some s0 -> forall key,
              dget key (dput fk (mark_of CLEAN id)
                          (apply_writes (w_cache x) (dput fk (mark_of DIRTY id) (base n))))
              = dget key (dput fk (mark_of CLEAN id) s0)).
    { intros n x s G Es key. pose proof G as G'. apply Wr1 in G'. destruct G' as [Gp Hn1].
      destruct (Kc _ _ G) as [Ks Ka].
      destruct (bytes_eqb fk key) eqn:Ek.
      - apply bytes_eqb_eq in Ek; subst key. rewrite !dget_dput_eq. reflexivity.
      - apply beqb_false in Ek. rewrite !dget_dput_neq; auto.
        rewrite apply_writes_view; auto. rewrite dget_dput_neq; auto.
        rewrite <- (R n x s Gp Es key). unfold view, base.
        rewrite G1, (nmem_notin_false _ _ Hn1).
        destruct (cget key (w_cache x)); auto. destruct (wget n W); auto. }
    split; [|split].
    - (* the invariant after the flush *)
      constructor; cbn [p_wr p_queued sp_dbs sp_doomed].
      + exact NW3.
      + intros n. rewrite G4, C3'. destruct (pget n wr1) as [x|]; cbn.
        * split; [intros _; eexists; split; reflexivity|discriminate].
        * split; [contradiction|intros [y [Y _]]; discriminate].
      + intros n. rewrite C3', wget_with_marks, wget_remove_all.
        destruct (nmem n (sp_doomed sp)) eqn:En.
        * apply nmem_in in En. apply In1 in En.
          assert (X : pget n wr1 = None).
          { destruct (pget n wr1) eqn:G; auto. apply Wr1 in G. tauto. }
          rewrite X. cbn. tauto.
        * apply nmem_false in En. rewrite <- In1 in En.
          destruct (pget n wr1) as [x|] eqn:G; cbn.
          -- apply Wr1 in G. destruct G as [G _].
             destruct (wget n (sp_dbs sp)) eqn:Es; cbn; [split; discriminate|].
             apply C in Es. congruence.
          -- assert (X : pget n (p_wr p) = None).
             { destruct (pget n (p_wr p)) eqn:G'; auto. assert (Z : pget n wr1 = Some w) by (apply Wr1; auto). congruence. }
             apply C in X. rewrite X. cbn. tauto.
      + intros n x3 s3 G3' Gs key. rewrite C3' in G3'. rewrite wget_with_marks, wget_remove_all in Gs.
        destruct (pget n wr1) as [x|] eqn:G; [|discriminate]. cbn in G3'. inversion G3'; subst x3.
        pose proof G as G'. apply Wr1 in G'. destruct G' as [Gp Hn1].
        assert (En : nmem n (sp_doomed sp) = false) by (apply nmem_false; rewrite <- In1; auto).
        rewrite En in Gs. destruct (wget n (sp_dbs sp)) as [s|] eqn:Es; [|discriminate].
        cbn in Gs. inversion Gs; subst s3.
        rewrite G4, G. unfold view; cbn [w_cache cget]. apply (Eqv n x s G Es key).
      + intros n x3 G3'. rewrite C3' in G3'. destruct (pget n wr1); [|discriminate].
        cbn in G3'. inversion G3'; subst. cbn. auto.
      + reflexivity.
    - (* every strict prefix *)
      assert (P1 : all_prefixes (agrees fk orc) ops1 W).
      { apply all_prefixes_preserved; auto. intros o w Ho Hw.
        apply in_concat_map in Ho. destruct Ho as [n [_ Ho]]. unfold f1 in Ho.
        destruct (pget n (p_wr p)) as [x|]; [|destruct Ho]. destruct (w_inited x); [|destruct Ho].
        destruct Ho as [<-|[]]. apply agrees_drop; auto. }
      assert (P2 : all_prefixes (Pid orc) ops2 W1).
      { apply all_prefixes_preserved.
        - apply all_prefixes_split in P1. destruct P1 as [_ P1]. split; [eapply agrees_nomark; eauto|left; auto].
        - intros o w Ho Hw. apply in_concat_map in Ho. destruct Ho as [n [_ Ho]]. unfold f2 in Ho.
          destruct (pget n wr1) as [x|]; [|destruct Ho]. apply in_app_iff in Ho.
          destruct Ho as [Ho|[<-|[]]]; [|apply Pid_putdirty; auto].
          destruct (w_inited x); [destruct Ho|]. destruct Ho as [<-|[]]. apply Pid_open; auto. }
      apply strict_prefixes_app. split.
      { eapply strict_prefixes_impl; [|apply all_prefixes_strict; exact P1].
        intros w Hw. split; [eapply agrees_nomark; eauto|left; auto]. }
      apply strict_prefixes_app. split; [apply all_prefixes_strict; exact P2|].
      fold W1. fold W2.
      assert (Hcase : ns2 = [] \/ exists n0, In n0 ns2)
        by (generalize ns2; intros [|m t]; [left|right; exists m; left]; reflexivity).
      destruct Hcase as [Ens2|[n0 Hn0]].
      { (* no wrappers: nothing else happens *)
        assert (X : forall n, pget n wr1 = None).
        { intros n. destruct (pget n wr1) eqn:G; auto. exfalso.
          assert (Y : In n ns2) by (apply In2; congruence). rewrite Ens2 in Y. destruct Y. }
        assert (N3 : ns3 = []) by (apply (nil_if_none ns3 _ In3); intros n H; apply H; apply X).
        assert (N4 : ns4 = []) by (apply (nil_if_none ns4 _ In4); intros n H; apply H; apply X).
        unfold ops3, ops4. rewrite N3, N4. cbn. auto. }
      apply In2 in Hn0.
      set (P3 := fun w => nomark_empty fk w /\ dirtyw fk w /\ forall n, wget n w <> None -> marked_at fk w n).
      assert (D2 : forall n x, pget n wr1 = Some x -> dirty_at fk W2 n).
      { intros n x G. eexists _, _. rewrite G2, G. split; [reflexivity|].
        rewrite dget_dput_eq. split; [reflexivity|apply is_dirty_mark]. }
      assert (P3s : all_prefixes P3 ops3 W2).
      { apply all_prefixes_preserved.
        - split; [|split].
          + apply all_prefixes_split in P2. destruct P2 as [_ [P2 _]]. exact P2.
          + destruct (pget n0 wr1) as [x0|] eqn:G0; [|contradiction]. exists n0. eapply D2; eauto.
          + intros n Hn. rewrite G2 in Hn. destruct (pget n wr1) as [x|] eqn:G; [|contradiction].
            destruct (D2 _ _ G) as [c [m [Y1 [Y2 _]]]]. exists c, m. auto.
        - intros o w Ho [Q1 [[m Q2] Q3]].
          apply in_concat_map in Ho. destruct Ho as [n [_ Ho]]. unfold f3 in Ho.
          rewrite C2' in Ho. destruct (pget n wr1) as [x|] eqn:G; [|destruct Ho].
          cbn [option_map w_inited w_cache app] in Ho.
          destruct (Kc _ _ G) as [_ Ka].
          destruct (batches_avoid fk scale n (w_cache x) [] 0 o eq_refl Ka Ho) as [ws [-> Hws]].
          split; [|split].
          + apply ne_batch; auto.
          + exists m. apply dirty_batch; auto.
          + intros n' Hn'. apply marked_batch; auto. apply Q3. intros Z. apply Hn'.
            cbn [apply_dop]. destruct (N.eq_dec n n') as [->|Hne].
            * rewrite wget_on_db_eq, Z. reflexivity.
            * rewrite wget_on_db_neq; auto. }
      apply strict_prefixes_app. split.
      { eapply strict_prefixes_impl; [|apply all_prefixes_strict; exact P3s].
        intros w [Q1 [Q2 _]]. split; auto. }
      fold W3.
      eapply strict_prefixes_impl; [|apply (phase4_strict id ns4 W3 ND4)].
      + intros w [Q1 Q2]. split; auto.
      + intros n Hn. apply In4 in Hn. destruct (pget n wr1) as [x|] eqn:G; [|contradiction].
        destruct (Kc _ _ G) as [_ Ka].
        eexists _, _. rewrite G3, G. split; [reflexivity|].
        rewrite dget_apply_writes_avoid; auto. rewrite dget_dput_eq. split; [reflexivity|apply is_dirty_mark].
      + apply all_prefixes_split in P3s. destruct P3s as [_ [Q1 _]]. exact Q1.
    - (* the final world agrees with the new record *)
      intros n c Gc. rewrite G4 in Gc. destruct (pget n wr1) as [x|] eqn:G; [|discriminate].
      inversion Gc; subst c. clear Gc.
      pose proof G as G'. apply Wr1 in G'. destruct G' as [Gp Hn1].
      destruct (wget n (sp_dbs sp)) as [s0|] eqn:Es; [|apply C in Es; congruence].
      exists (dput fk (mark_of CLEAN id) s0).
      cbn [r_id r_snap]. split; [apply dget_dput_eq|]. split.
      + rewrite wget_with_marks, wget_remove_all.
        assert (En : nmem n (sp_doomed sp) = false) by (apply nmem_false; rewrite <- In1; auto).
        rewrite En, Es. reflexivity.
      + intros key. apply (Eqv n x s0 G Es key).
  Qed.
End Flush.

(* ------------------------------------------------------------------ histories *)
Lemma firstn_app_le {A} (a b : list A) j : (j <= length a)%nat -> firstn j (a ++ b) = firstn j a.
Proof.
  intros H. rewrite firstn_app. replace (j - length a)%nat with 0%nat by lia. cbn. apply app_nil_r.
Qed.
Lemma firstn_app_ge {A} (a b : list A) j :
  (length a <= j)%nat -> firstn j (a ++ b) = a ++ firstn (j - length a) b.
Proof. intros H. rewrite firstn_app. rewrite firstn_all2; auto. Qed.

Lemma crash_app_le log ops k : (k <= length log)%nat -> crash (log ++ ops) k = crash log k.
Proof. intros H. unfold crash. rewrite firstn_app_le; auto. Qed.
Lemma crash_all log : crash log (length log) = apply_dops log [].
Proof. unfold crash. rewrite firstn_all. reflexivity. Qed.

Section Run.
  Variable fk : bytes.
  Variable scale : N.

  Lemma Pid_safe recs k orc w :
    (forall rc, orc = Some rc -> In rc recs /\ (r_pos rc <= k)%nat) -> Pid fk orc w -> safe fk recs k w.
  Proof.
    intros Ho [A [B|B]]; [eapply safe_of_agrees; eauto|apply safe_of_dirty; auto].
  Qed.

  (* appending the durable operations of one user operation *)
  Lemma extend_safe log ops recs recs' orc orc' :
    (forall j, safe fk recs j (crash log j)) ->
    (forall rc, In rc recs -> In rc recs') ->
    (forall rc, orc = Some rc -> In rc recs /\ (r_pos rc <= length log)%nat) ->
    strict_prefixes (Pid fk orc) ops (apply_dops log []) ->
    (forall rc, orc' = Some rc -> In rc recs' /\ (r_pos rc <= length (log ++ ops))%nat) ->
    agrees fk orc' (apply_dops (log ++ ops) []) ->
    forall j, safe fk recs' j (crash (log ++ ops) j).
  Proof.
    intros H0 Hsub Ho Hs Ho' Ha j. unfold crash.
    destruct (le_lt_dec j (length log)) as [Hj|Hj].
    - rewrite firstn_app_le; auto. eapply safe_mono; [exact Hsub|apply Nat.le_refl|apply H0].
    - rewrite firstn_app_ge by lia. rewrite apply_dops_app.
      destruct (le_lt_dec (length ops) (j - length log)) as [Hk|Hk].
      + rewrite firstn_all2 by lia. rewrite <- apply_dops_app.
        apply (safe_of_agrees fk recs' j _ orc'); auto.
        intros rc E. destruct (Ho' _ E) as [X Y]. split; auto. rewrite app_length in Y. lia.
      + apply (Pid_safe recs' j orc).
        * intros rc E. destruct (Ho _ E). split; auto. lia.
        * apply (strict_prefixes_firstn _ _ _ _ Hs Hk).
  Qed.

  Definition run_inv (s : run_state) : Prop :=
    pool_inv fk (rs_pool s) (rs_spec s) (apply_dops (rs_log s) []) /\
    (exists orc, (forall rc, orc = Some rc -> In rc (rs_recs s)) /\
                 agrees fk orc (apply_dops (rs_log s) [])) /\
    (forall rc, In rc (rs_recs s) -> (r_pos rc <= length (rs_log s))%nat) /\
    (forall j, safe fk (rs_recs s) j (crash (rs_log s) j)) /\
    (forall rc, In rc (rs_recs s) -> agrees_all fk rc (crash (rs_log s) (r_pos rc))).

  Lemma run_inv_init : run_inv run_init.
  Proof.
    unfold run_inv, run_init; cbn. split; [|split; [|split; [|split]]].
    - constructor; cbn; auto.
      + constructor.
      + intros n. split; [intros H; contradiction|intros [x [H _]]; discriminate].
      + intros n; tauto.
      + intros n x s H; discriminate.
      + intros n x H; discriminate.
    - exists None. split; [intros rc H; discriminate|]. intros n c H; discriminate.
    - intros rc [].
    - intros j. unfold crash. rewrite firstn_nil. cbn. split.
      + intros n c H; discriminate.
      + intros m [n [c H]]; discriminate.
    - intros rc [].
  Qed.

  (* user operations that perform no durable operation and leave the records alone *)
  Lemma run_inv_quiet s p' sp' :
    run_inv s -> pool_inv fk p' sp' (apply_dops (rs_log s) []) ->
    run_inv (mkRun p' sp' (rs_log s ++ []) (rs_recs s)).
  Proof.
    intros [I [Ho [Hp [Hs Hl]]]] I'. unfold run_inv; cbn. rewrite app_nil_r. auto.
  Qed.

  Lemma under_inv p sp W n x :
    pool_inv fk p sp W -> pget n (p_wr p) = Some x -> w_inited x = false ->
    pool_inv fk (mkPool (pset n (mkWr true (w_cache x)) (p_wr p)) (p_queued p)) sp (apply_dop W (DOpen n)).
  Proof.
    intros [A B C R K Q] G Hi.
    assert (Wn : wget n W = None).
    { destruct (wget n W) eqn:E; auto. exfalso.
      assert (Y : wget n W <> None) by congruence. apply B in Y. destruct Y as [y [Y1 Y2]]. congruence. }
    cbn [apply_dop]. rewrite Wn.
    constructor; cbn [p_wr p_queued]; auto.
    - apply pset_names_nodup; auto.
    - intros m. destruct (N.eq_dec n m) as [->|Hne].
      + rewrite wget_wset_eq, pget_pset_eq. split; [intros _; eexists; split; reflexivity|discriminate].
      + rewrite wget_wset_neq, pget_pset_neq; auto.
    - intros m. destruct (N.eq_dec n m) as [->|Hne].
      + rewrite pget_pset_eq. split; [discriminate|]. intros H. apply C in H. congruence.
      + rewrite pget_pset_neq; auto.
    - intros m y s G1 G2 key. destruct (N.eq_dec n m) as [->|Hne].
      + rewrite pget_pset_eq in G1. inversion G1; subst y. rewrite wget_wset_eq.
        rewrite <- (R m x s G G2 key). unfold view; cbn [w_cache]. rewrite Wn.
        destruct (cget key (w_cache x)); auto.
      + rewrite pget_pset_neq in G1; auto. rewrite wget_wset_neq; auto. all: try (eapply R; eauto).
    - intros m y G1. destruct (N.eq_dec n m) as [->|Hne].
      + rewrite pget_pset_eq in G1. inversion G1; subst y. cbn. eapply K; eauto.
      + rewrite pget_pset_neq in G1; auto. all: try (eapply K; eauto).
  Qed.

  Lemma run_step_inv s o : run_inv s -> hop_avoids fk o = true -> run_inv (run_step fk scale s o).
  Proof.
    intros Inv Ha. pose proof Inv as [I [[orc [Ho Hag]] [Hp [Hs Hl]]]].
    unfold run_step. destruct o as [n|n|n k v|n k|n ws|n|id os]; cbn [pool_step spec_step].
    - (* HOpen *)
      destruct (get_db_inv fk _ _ _ n I) as [I1 _]. apply (run_inv_quiet s _ _ Inv I1).
    - (* HUnder *)
      destruct (get_db_inv fk _ _ _ n I) as [I1 [G1 _]].
      destruct (get_db n (rs_pool s)) as [p1 x] eqn:Eg. cbn [fst snd] in I1, G1.
      destruct (w_inited x) eqn:Ei.
      + apply (run_inv_quiet s _ _ Inv I1).
      + unfold run_inv; cbn [rs_pool rs_spec rs_log rs_recs].
        split; [|split; [|split; [|split]]].
        5:{ intros rc Hr. rewrite crash_app_le; auto. }
        * rewrite apply_dops_app. apply under_inv; auto.
        * exists orc. split; auto. rewrite apply_dops_app. apply agrees_open; auto.
        * intros rc Hr. rewrite app_length. specialize (Hp _ Hr). lia.
        * apply (extend_safe (rs_log s) [DOpen n] (rs_recs s) (rs_recs s) orc orc).
          -- exact Hs.
          -- auto.
          -- intros rc E. split; auto. all: try (apply Hp; auto).
          -- cbn. split; auto. all: try (split; [eapply agrees_nomark; eauto|left; auto]).
          -- intros rc E. split; auto. rewrite app_length. specialize (Hp _ (Ho _ E)). lia.
          -- rewrite apply_dops_app. apply agrees_open; auto.
    - (* HPut *)
      cbn in Ha. apply (run_inv_quiet s _ _ Inv).
      apply cache_write_inv; auto.
      + apply negb_true_iff in Ha. apply beqb_false; auto.
      + intros c key. destruct (bytes_eqb k key) eqn:E.
        * apply bytes_eqb_eq in E; subst. apply dget_dput_eq.
        * apply dget_dput_neq. apply beqb_false; auto.
    - (* HDel *)
      cbn in Ha. apply (run_inv_quiet s _ _ Inv).
      apply cache_write_inv; auto.
      + apply negb_true_iff in Ha. apply beqb_false; auto.
      + intros c key. destruct (bytes_eqb k key) eqn:E.
        * apply bytes_eqb_eq in E; subst. apply dget_ddel_eq.
        * apply dget_ddel_neq. apply beqb_false; auto.
    - (* HBatch *)
      cbn in Ha. destruct (get_db_inv fk _ _ _ n I) as [I1 [_ X]].
      apply (run_inv_quiet s _ _ Inv).
      apply (cache_writes_inv fk n ws _ _ _ I1 X Ha).
    - (* HDrop *)
      destruct (get_db_inv fk _ _ _ n I) as [I1 _].
      apply (run_inv_quiet s _ _ Inv).
      destruct I1 as [A B C R K Q]. constructor; cbn [p_wr p_queued sp_dbs sp_doomed]; auto. congruence.
    - (* HFlush *)
      set (log' := rs_log s ++ snd (flush fk scale id os (rs_pool s))).
      destruct (flush_correct fk scale _ _ _ id os orc (length log') I Hag) as [I' [Hst Hag']].
      destruct (flush fk scale id os (rs_pool s)) as [p' ops] eqn:Ef. cbn [fst snd] in *.
      unfold run_inv; cbn [rs_pool rs_spec rs_log rs_recs].
      set (rc' := mkRec (length log') id (with_marks fk id (remove_all (sp_doomed (rs_spec s)) (sp_dbs (rs_spec s))))) in *.
      split; [|split; [|split; [|split]]].
      5:{ intros rc Hr. apply in_app_iff in Hr. destruct Hr as [Hr|[<-|[]]].
          - rewrite crash_app_le; auto.
          - cbn [r_pos]. unfold log'. rewrite crash_all, apply_dops_app. exact Hag'. }
      + rewrite apply_dops_app. exact I'.
      + exists (Some rc'). split; [intros rc E; inversion E; subst; apply in_app_iff; right; left; auto|].
        rewrite apply_dops_app. apply agrees_all_agrees. exact Hag'.
      + intros rc Hr. apply in_app_iff in Hr. destruct Hr as [Hr|[<-|[]]].
        * specialize (Hp _ Hr). unfold log'. rewrite app_length. lia.
        * cbn. unfold log'. lia.
      + apply (extend_safe (rs_log s) ops (rs_recs s) (rs_recs s ++ [rc']) orc (Some rc')).
        * exact Hs.
        * intros rc Hr. apply in_app_iff; auto.
        * intros rc E. split; auto. all: try (apply Hp; auto).
        * exact Hst.
        * intros rc E. inversion E; subst. split; [apply in_app_iff; right; left; auto|]. cbn. unfold log'. lia.
        * rewrite apply_dops_app. apply agrees_all_agrees. exact Hag'.
  Qed.

  Lemma run_pool_inv h : history_avoids fk h = true -> run_inv (run_pool fk scale h).
  Proof.
    unfold run_pool. generalize run_inv_init. generalize run_init.
    induction h as [|o t IH]; intros s Hs Ha; cbn; auto.
    cbn in Ha. apply andb_true_iff in Ha. destruct Ha as [Ha1 Ha2].
    apply IH; auto. apply run_step_inv; auto.
  Qed.

  Theorem pool_crash_consistent h k l :
    history_avoids fk h = true ->
    lists_world l (crash (rs_log (run_pool fk scale h)) k) ->
    crash_consistent fk (rs_recs (run_pool fk scale h)) k (crash (rs_log (run_pool fk scale h)) k) l.
  Proof.
    intros Ha L. destruct (run_pool_inv h Ha) as [_ [_ [_ [Hs _]]]].
    apply safe_consistent; auto.
  Qed.

  Theorem pool_crash_consistent_expected h k l f m :
    history_avoids fk h = true ->
    lists_world l (crash (rs_log (run_pool fk scale h)) k) -> l <> [] ->
    check_loop fk l (Some f) false = COk (Some m) ->
    m = f /\
    exists rc, In rc (rs_recs (run_pool fk scale h)) /\ (r_pos rc <= k)%nat /\ m = mark_of CLEAN (r_id rc) /\
      forall n c, wget n (crash (rs_log (run_pool fk scale h)) k) = Some c ->
        match wget n (r_snap rc) with Some s => db_eq c s | None => db_empty c end.
  Proof.
    intros Ha L Hne E. destruct (run_pool_inv h Ha) as [_ [_ [_ [Hs _]]]].
    eapply safe_consistent_expected; eauto.
  Qed.

  (* the other direction: right after a completed flush the recovery reports exactly that flush *)
  Theorem pool_flush_reported h rc l :
    history_avoids fk h = true -> In rc (rs_recs (run_pool fk scale h)) ->
    lists_world l (crash (rs_log (run_pool fk scale h)) (r_pos rc)) -> l <> [] ->
    check_synced fk l = COk (Some (mark_of CLEAN (r_id rc))).
  Proof.
    intros Ha Hr L Hne. destruct (run_pool_inv h Ha) as [_ [_ [_ [_ Hl]]]].
    eapply agrees_all_verdict; eauto.
  Qed.
End Run.
