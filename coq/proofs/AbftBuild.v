(* C04/C07, model level: Build after ANY history of earlier Builds is the pure frame computation
   on the flushed state; the only trace of the history is the value of the counter, i.e. the id
   of the temporary event.  The proof is the coherence argument of DESIGN 5 C04: keys of the
   forkless-cause cache start with a processed id or with an OLDER temporary id, and the repaired
   sampler never repeats an id.  (With the pinned sampler this is false: proofs/AbftOld.v.) *)
From Coq Require Import NArith ZArith List Lia Bool ZifyBool ZifyN ZifyNat.
From LV Require Import lib.Bytes model.Codec model.VecIndex model.Abft proofs.AbftIds proofs.AbftFrame.
Import ListNotations.
Local Open Scope N_scope.

Section Build.
Variable cap : nat.

(* every key of c' is a key of c or starts with a0 *)
Definition keys_sub (a0 : N) (c c' : fccache) : Prop :=
  forall a b r, cache_get (a, b) c' = Some r -> a = a0 \/ exists r', cache_get (a, b) c = Some r'.
Lemma keys_sub_refl a0 c : keys_sub a0 c c.
Proof. intros a b r H. right. eauto. Qed.
Lemma keys_sub_trans a0 c1 c2 c3 : keys_sub a0 c1 c2 -> keys_sub a0 c2 c3 -> keys_sub a0 c1 c3.
Proof.
  intros H12 H23 a b r H. destruct (H23 _ _ _ H) as [->|[r' H']]; auto. exact (H12 _ _ _ H').
Qed.

Lemma fc_cached_keys a0 st b : keys_sub a0 (l_fcc st) (l_fcc (snd (fc_cached cap st a0 b))).
Proof.
  unfold fc_cached. destruct (cache_get (a0, b) (l_fcc st)) as [r|] eqn:E; cbn [snd l_fcc set_fcc];
    intros a b' r' H; [|unfold cache_add in H; apply cache_get_firstn in H];
    rewrite cache_get_touch in H;
    (destruct (pair_eqb (a, b') (a0, b)) eqn:E2;
     [apply pair_eqb_eq in E2; inversion E2; auto | right; eauto]).
Qed.
Lemma fc_cached_shape a0 st b : exists c', snd (fc_cached cap st a0 b) = set_fcc st c'.
Proof. unfold fc_cached. destruct (cache_get _ _); eexists; reflexivity. Qed.

Lemma fcq_loop_keys a0 : forall frs st c,
  exists c', snd (fcq_loop cap st a0 frs c) = set_fcc st c' /\ keys_sub a0 (l_fcc st) c'.
Proof.
  induction frs as [|r t IH]; intros st c; cbn [fcq_loop].
  - exists (l_fcc st). split; [destruct st; reflexivity | apply keys_sub_refl].
  - pose proof (fc_cached_keys a0 st (r_id r)) as K. destruct (fc_cached_shape a0 st (r_id r)) as [c1 S1].
    destruct (fc_cached cap st a0 (r_id r)) as [bb st1] eqn:E. cbn [snd] in *. subst st1.
    cbn [l_fcc set_fcc] in K. cbn [l_vals set_fcc].
    destruct (has_quorum _ _).
    + exists c1. split; auto.
    + destruct (IH (set_fcc st c1) (if bb then snd (count_id (l_vals st) c (r_val r)) else c)) as [c2 [S2 K2]].
      cbn [l_vals set_fcc] in *. exists c2. split; [rewrite S2; reflexivity|].
      cbn [l_fcc set_fcc] in K2. eapply keys_sub_trans; eauto.
Qed.

Lemma calc_loop_keys e maxf : forall fuel st f,
  exists c', snd (calc_loop cap fuel st e f maxf) = set_fcc st c' /\ keys_sub (a_id e) (l_fcc st) c'.
Proof.
  induction fuel as [|fu IH]; intros st f; cbn [calc_loop].
  - exists (l_fcc st). split; [destruct st; reflexivity | apply keys_sub_refl].
  - destruct (negb (f <? maxf)).
    + exists (l_fcc st). split; [destruct st; reflexivity | apply keys_sub_refl].
    + unfold fc_by_quorum_on.
      destruct (fcq_loop_keys (a_id e) (get_frame_roots st f) st (new_counter (l_vals st))) as [c1 [S1 K1]].
      destruct (fcq_loop cap st (a_id e) (get_frame_roots st f) (new_counter (l_vals st))) as [bb st1]. cbn [snd] in S1. subst st1.
      destruct bb.
      * destruct (IH (set_fcc st c1) (f + 1)) as [c2 [S2 K2]]. exists c2. split; [rewrite S2; reflexivity|].
        cbn [l_fcc set_fcc] in K2. eapply keys_sub_trans; eauto.
      * exists c1. split; auto.
Qed.

Lemma calc_frame_keys es st e co :
  exists c', snd (calc_frame cap es st e co) = set_fcc st c' /\ keys_sub (a_id e) (l_fcc st) c'.
Proof.
  unfold calc_frame.
  assert (D : exists c', st = set_fcc st c' /\ keys_sub (a_id e) (l_fcc st) c').
  { exists (l_fcc st). split; [destruct st; reflexivity | apply keys_sub_refl]. }
  destruct (match a_self_parent e with
            | Some sp => match get_event es sp with Some pe => Ok (a_frame pe) | None => Err EPanic end
            | None => Ok 0 end) as [spf|x]; [|exact D].
  destruct (calc_loop_keys e (if co then a_frame e else spf + 100) (roots_fuel st) st spf) as [c1 [S1 K1]].
  destruct (calc_loop cap (roots_fuel st) st e spf (if co then a_frame e else spf + 100)) as [o st1]. cbn [snd] in S1. subst st1.
  destruct o; exists c1; split; auto.
Qed.

(* ---------- Build as a pure function of the flushed state and the counter ---------- *)
Definition build_pure (es : estore) (v : vals) (s : vidx) (roots : list root) (epoch : N) (c : N) (e0 : aevent) : result N :=
  match sample c with
  | None => Err EPanic
  | Some tail =>
    let e := set_id e0 (mk_id_bytes (a_epoch e0) (a_lamport e0) tail) in
    match add s (vev v e) with
    | None => Err ECrit
    | Some s' =>
      if negb (a_epoch e =? epoch) || negb (v_exists v (a_creator e)) then Err ECrit else
      match frame_pure es v s' roots e false with
      | Err x => Err x
      | Ok (_, fr) => Ok fr end
    end
  end.

(* ids of temporary events of builds 1..n *)
Definition is_temp (n : N) (a : N) : Prop :=
  exists ep lam c t, 1 <= c <= n /\ sample c = Some t /\ a = mk_id_bytes ep lam t.
(* what the property cannot cover: a processed event whose id has the shape of a temporary id *)
Variable real : N -> Prop.
Variable bound : N.          (* builds considered: the counter stays <= bound *)
Hypothesis real_not_temp : forall a, real a -> ~ is_temp bound a.

Definition keys_inv (st : lstate) : Prop :=
  forall a b r, cache_get (a, b) (l_fcc st) = Some r -> real a \/ is_temp (l_ctr st) a.

Lemma is_temp_mono n m a : n <= m -> is_temp n a -> is_temp m a.
Proof. intros L [ep [lam [c [t [B [S E]]]]]]. exists ep, lam, c, t. split; [lia|auto]. Qed.

Lemma fresh_cache_ok st a0 : (forall b, cache_get (a0, b) (l_fcc st) = None) -> cache_ok a0 st.
Proof. intros F b r H. rewrite F in H. discriminate. Qed.

Theorem build_is_pure es st e0 : keys_inv st -> l_ctr st + 1 <= bound ->
  exists c', build cap es st e0 =
               (build_pure es (l_vals st) (l_idx st) (l_roots st) (l_epoch st) (l_ctr st + 1) e0,
                set_fcc (set_ctr st (l_ctr st + 1)) c') /\
             keys_inv (set_fcc (set_ctr st (l_ctr st + 1)) c').
Proof.
  intros Hinv Hb. unfold build, build_with, build_pure. cbn [l_vals l_idx l_epoch set_ctr].
  set (c := l_ctr st + 1).
  assert (Hbase : keys_inv (set_fcc (set_ctr st c) (l_fcc st))).
  { intros a b r H. cbn [l_fcc set_fcc l_ctr set_ctr] in *. destruct (Hinv _ _ _ H) as [R|T]; auto.
    right. eapply is_temp_mono; [|exact T]. unfold c. lia. }
  destruct (sample c) as [tail|] eqn:S.
  2:{ exists (l_fcc st). split; [destruct st; reflexivity | exact Hbase]. }
  set (e := set_id e0 (mk_id_bytes (a_epoch e0) (a_lamport e0) tail)).
  destruct (add (l_idx st) (vev (l_vals st) e)) as [s'|] eqn:A.
  2:{ exists (l_fcc st). split; [destruct st; reflexivity | exact Hbase]. }
  destruct (negb (a_epoch e =? l_epoch st) || negb (v_exists (l_vals st) (a_creator e))).
  { exists (l_fcc st). split; [destruct st; reflexivity | exact Hbase]. }
  (* the temporary id is fresh in the cache *)
  assert (Fresh : forall b, cache_get (a_id e, b) (l_fcc st) = None).
  { intros b. destruct (cache_get (a_id e, b) (l_fcc st)) as [r|] eqn:G; auto. exfalso.
    destruct (Hinv _ _ _ G) as [R|[ep [lam [c2 [t2 [B [S2 E2]]]]]]].
    - apply (real_not_temp _ R). exists (a_epoch e0), (a_lamport e0), c, tail. split; [unfold c in *; lia|]. split; auto.
    - cbn [a_id e set_id] in E2. apply (temp_id_inj _ _ _ _ _ _ _ _ S S2) in E2. unfold c in E2. lia. }
  set (stw := set_idx (set_ctr st c) s').
  assert (Hok : cache_ok (a_id e) stw).
  { intros b r H. cbn [l_fcc stw set_idx set_ctr] in H. rewrite Fresh in H. discriminate. }
  destruct (calc_frame_pure cap es stw e false Hok) as [c1 [E1 _]].
  destruct (calc_frame_keys es stw e false) as [c1' [S1 K1]].
  rewrite E1 in S1. cbn [snd] in S1.
  assert (c1' = c1). { unfold stw in S1. destruct st. cbn in S1. inversion S1. reflexivity. }
  subst c1'. rewrite E1. cbn [l_vals l_idx l_roots stw set_idx set_ctr].
  exists c1. split.
  - destruct (frame_pure es (l_vals st) s' (l_roots st) e false) as [[spf fr]|x]; destruct st; reflexivity.
  - intros a b r H. cbn [l_fcc set_fcc l_ctr set_ctr] in *.
    destruct (K1 _ _ _ H) as [->|[r' H']].
    + right. exists (a_epoch e0), (a_lamport e0), c, tail. split; [unfold c; lia|]. split; auto.
    + cbn [l_fcc stw set_idx set_ctr] in H'. destruct (Hinv _ _ _ H') as [R|T]; auto.
      right. eapply is_temp_mono; [|exact T]. unfold c. lia.
Qed.

(* any history of Builds *)
Fixpoint builds (es : estore) (st : lstate) (hist : list aevent) : lstate :=
  match hist with [] => st | e :: t => builds es (snd (build cap es st e)) t end.

Lemma builds_inv es : forall hist st, keys_inv st -> l_ctr st + N.of_nat (length hist) <= bound ->
  let st' := builds es st hist in
  keys_inv st' /\ l_vals st' = l_vals st /\ l_idx st' = l_idx st /\ l_roots st' = l_roots st /\
  l_epoch st' = l_epoch st /\ l_ldf st' = l_ldf st /\ l_conf st' = l_conf st /\ l_el st' = l_el st /\
  l_ctr st' = l_ctr st + N.of_nat (length hist).
Proof.
  induction hist as [|e t IH]; intros st Hinv Hb; cbn [builds length] in *.
  - repeat split; auto. lia.
  - destruct (build_is_pure es st e Hinv ltac:(lia)) as [c' [E K]]. rewrite E. cbn [snd].
    destruct (IH _ K) as [K' [A1 [A2 [A3 [A4 [A5 [A6 [A7 A8]]]]]]]].
    { cbn [l_ctr set_fcc set_ctr]. lia. }
    cbn [l_vals l_idx l_roots l_epoch l_ldf l_conf l_el l_ctr set_fcc set_ctr] in *.
    repeat split; auto. lia.
Qed.

(* Build returns the same frame whatever was built before: only the counter value enters *)
Theorem build_any_history es st hist e : keys_inv st -> l_ctr st + N.of_nat (length hist) + 1 <= bound ->
  fst (build cap es (builds es st hist) e) =
  build_pure es (l_vals st) (l_idx st) (l_roots st) (l_epoch st) (l_ctr st + N.of_nat (length hist) + 1) e.
Proof.
  intros Hinv Hb. destruct (builds_inv es hist st Hinv ltac:(lia)) as [K [A1 [A2 [A3 [A4 [_ [_ [_ A8]]]]]]]].
  destruct (build_is_pure es _ e K ltac:(lia)) as [c' [E _]]. rewrite E. cbn [fst].
  rewrite A1, A2, A3, A4, A8. reflexivity.
Qed.

(* C07 for Build: nothing but the cache and the counter changes *)
Theorem build_leaves_no_trace es st e : keys_inv st -> l_ctr st + 1 <= bound ->
  exists c', snd (build cap es st e) = set_fcc (set_ctr st (l_ctr st + 1)) c'.
Proof. intros Hinv Hb. destruct (build_is_pure es st e Hinv Hb) as [c' [E _]]. exists c'. rewrite E. reflexivity. Qed.

End Build.
