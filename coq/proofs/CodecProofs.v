From Coq Require Import NArith ZArith List Lia Bool ZifyN ZifyNat.
From LV Require Import lib.Bytes lib.BytesFacts model.Codec.
Import ListNotations.
Local Open Scope N_scope.
Ltac Zify.zify_post_hook ::= Z.div_mod_to_equations.

Definition pow256 (k : nat) : N := 256 ^ N.of_nat k.

Lemma pow256_S k : pow256 (S k) = 256 * pow256 k.
Proof. unfold pow256. rewrite Nat2N.inj_succ, N.pow_succ_r'. reflexivity. Qed.
Lemma pow256_0 : pow256 0 = 1. Proof. reflexivity. Qed.
Lemma pow256_pos k : 0 < pow256 k.
Proof. unfold pow256. apply N.neq_0_lt_0, N.pow_nonzero. discriminate. Qed.

Lemma le_length k n : length (le k n) = k.
Proof. revert n; induction k as [|k IH]; intros n; cbn [le length]; auto. Qed.

Lemma be_length k n : length (be k n) = k.
Proof. unfold be. rewrite rev_length. apply le_length. Qed.

Lemma le_wf k n : wf_bytes (le k n) = true.
Proof.
  revert n; induction k as [|k IH]; intros n; cbn [le wf_bytes forallb]; auto.
  apply andb_true_intro; split; [|apply IH].
  unfold byte_ok. apply N.ltb_lt. apply N.mod_lt. discriminate.
Qed.

Lemma wf_bytes_rev l : wf_bytes (rev l) = wf_bytes l.
Proof.
  unfold wf_bytes. induction l as [|x l IH]; cbn; auto.
  rewrite forallb_app, IH. cbn. rewrite andb_true_r, andb_comm. reflexivity.
Qed.

Lemma be_wf k n : wf_bytes (be k n) = true.
Proof. unfold be. rewrite wf_bytes_rev. apply le_wf. Qed.

Lemma unle_le k n : n < pow256 k -> unle (le k n) = n.
Proof.
  revert n; induction k as [|k IH]; intros n H.
  - rewrite pow256_0 in H. cbn. lia.
  - rewrite pow256_S in H. cbn [le unle]. rewrite IH.
    + pose proof (N.div_mod n 256). lia.
    + pose proof (pow256_pos k). apply N.div_lt_upper_bound; lia.
Qed.

Lemma unbe_be k n : n < pow256 k -> unbe (be k n) = n.
Proof. intros H. unfold unbe, be. rewrite rev_involutive. apply unle_le, H. Qed.

Lemma unbe_k_be k n rest : n < pow256 k -> unbe_k k (be k n ++ rest) = n.
Proof.
  intros H. unfold unbe_k.
  rewrite firstn_app, be_length, Nat.sub_diag, firstn_O, app_nil_r.
  rewrite <- (be_length k n) at 1. rewrite firstn_all. apply unbe_be, H.
Qed.

Lemma unle_k_le k n rest : n < pow256 k -> unle_k k (le k n ++ rest) = n.
Proof.
  intros H. unfold unle_k.
  rewrite firstn_app, le_length, Nat.sub_diag, firstn_O, app_nil_r.
  rewrite <- (le_length k n) at 1. rewrite firstn_all. apply unle_le, H.
Qed.

Lemma be_snoc k n : be (S k) n = be k (n / 256) ++ [n mod 256].
Proof. unfold be. cbn [le rev]. reflexivity. Qed.

Lemma lex_compare_snoc x y a b :
  length x = length y ->
  lex_compare (x ++ [a]) (y ++ [b]) =
  match lex_compare x y with Eq => N.compare a b | c => c end.
Proof.
  revert y; induction x as [|u x IH]; intros [|v y] HL; cbn in HL; try discriminate.
  - cbn. destruct (N.compare a b); reflexivity.
  - cbn [app lex_compare]. destruct (N.compare u v); auto.
Qed.

Lemma be_order k a b :
  a < pow256 k -> b < pow256 k ->
  lex_compare (be k a) (be k b) = N.compare a b.
Proof.
  revert a b; induction k as [|k IH]; intros a b Ha Hb.
  - rewrite pow256_0 in *. assert (a = 0) by lia. assert (b = 0) by lia. subst. reflexivity.
  - rewrite pow256_S in *. pose proof (pow256_pos k) as Hp.
    rewrite !be_snoc, lex_compare_snoc by (rewrite !be_length; reflexivity).
    rewrite IH by (apply N.div_lt_upper_bound; lia).
    pose proof (N.div_mod a 256). pose proof (N.div_mod b 256).
    pose proof (N.mod_lt a 256). pose proof (N.mod_lt b 256).
    destruct (N.compare_spec (a / 256) (b / 256)) as [E|L|G].
    + destruct (N.compare_spec (a mod 256) (b mod 256));
      destruct (N.compare_spec a b); auto; lia.
    + destruct (N.compare_spec a b); auto; lia.
    + destruct (N.compare_spec a b); auto; lia.
Qed.

Lemma be_inj k a b : a < pow256 k -> b < pow256 k -> be k a = be k b -> a = b.
Proof.
  intros Ha Hb E. apply N.compare_eq. rewrite <- (be_order k) by assumption.
  rewrite E. apply lex_compare_refl.
Qed.

(* ---- event ids ---- *)

Lemma id_epoch_event_id e l t : e < pow256 4 -> id_epoch (event_id e l t) = e.
Proof. intros H. unfold id_epoch, event_id. apply (unbe_k_be 4 e (be 4 l ++ t) H). Qed.

Lemma skipn_app_exact {A} (x y : list A) n : length x = n -> skipn n (x ++ y) = y.
Proof. intros <-. rewrite skipn_app, Nat.sub_diag, skipn_all. reflexivity. Qed.

Lemma id_lamport_event_id e l t : l < pow256 4 -> id_lamport (event_id e l t) = l.
Proof.
  intros H. unfold id_lamport, event_id.
  rewrite skipn_app_exact by apply be_length. apply (unbe_k_be 4 l t H).
Qed.

Lemma lex_compare_app_eqlen x y u v :
  length x = length y ->
  lex_compare (x ++ u) (y ++ v) =
  match lex_compare x y with Eq => lex_compare u v | c => c end.
Proof.
  revert y; induction x as [|a x IH]; intros [|b y] HL; cbn in HL; try discriminate.
  - reflexivity.
  - cbn [app lex_compare]. destruct (N.compare a b); auto.
Qed.

Lemma event_id_order e1 l1 t1 e2 l2 t2 :
  e1 < pow256 4 -> e2 < pow256 4 -> l1 < pow256 4 -> l2 < pow256 4 ->
  lex_compare (event_id e1 l1 t1) (event_id e2 l2 t2) =
  triple_compare (e1, l1, t1) (e2, l2, t2).
Proof.
  intros He1 He2 Hl1 Hl2. unfold event_id, triple_compare.
  rewrite lex_compare_app_eqlen by (rewrite !be_length; reflexivity).
  rewrite be_order by assumption.
  destruct (N.compare e1 e2); auto.
  rewrite lex_compare_app_eqlen by (rewrite !be_length; reflexivity).
  rewrite be_order by assumption. reflexivity.
Qed.

Lemma event_id_length e l t : length (event_id e l t) = (8 + length t)%nat.
Proof. unfold event_id. rewrite !app_length, !be_length. reflexivity. Qed.

(* ---- builder: every id produced carries the epoch/lamport current at that moment ---- *)
Fixpoint bops_ok (ops : list bop) : Prop :=
  match ops with
  | [] => True
  | BSetEpoch e :: r => e < pow256 4 /\ bops_ok r
  | BSetLamport l :: r => l < pow256 4 /\ bops_ok r
  | _ :: r => bops_ok r
  end.

Lemma brun_carries b ops :
  b_epoch b < pow256 4 -> b_lamport b < pow256 4 -> bops_ok ops ->
  map (fun id => (id_epoch id, id_lamport id)) (brun b ops) = bspec (b_epoch b) (b_lamport b) ops.
Proof.
  revert b; induction ops as [|o r IH]; intros b He Hl Hok; [reflexivity|].
  destruct o as [e|l|t|t]; cbn [brun bstep bspec bops_ok] in *.
  - destruct Hok as [H1 H2]. apply (IH {| b_epoch := e; b_lamport := b_lamport b; b_id := b_id b |}); assumption.
  - destruct Hok as [H1 H2]. apply (IH {| b_epoch := b_epoch b; b_lamport := l; b_id := b_id b |}); assumption.
  - cbn [map]. rewrite id_epoch_event_id, id_lamport_event_id by assumption. f_equal.
    apply (IH {| b_epoch := b_epoch b; b_lamport := b_lamport b; b_id := _ |}); assumption.
  - cbn [map]. rewrite id_epoch_event_id, id_lamport_event_id by assumption. f_equal.
    apply IH; assumption.
Qed.
