(* L1, extended statement (round 3).  Schedules in which the Build of an event is optional (Process-only
   instances), the event stream may contain events that the reference rejects (code 1: frame not
   allowed) or does not offer (code 2), noise sits before / between / after the calls of every event,
   the application has a sealing policy, and MORE is observed:

     per event   (code, frame returned by Build if there was one, (decided frame, epoch) reported by Process)
     per restart (8, -, (decided frame, epoch) reported by the restarted instance)
     per block   (frame, Atropos, cheaters, validators of the next epoch if the block seals)

   This file: the schedule, the rendering of a model run (render_x; unexpected shapes give the error
   codes 97 / 98 / 99 instead of a silent truncation), and the reference side (ref_x): the reference's
   add_event / r_blocks / cheaters_of walked event by event -- after the first table whose blocks contain
   a sealing frame the remaining events of the epoch are not fed (code 7).  LinkSealX.v shows that ref_x
   is ElectionSpec.reference_epochs' treatment of an epoch (bisection) plus the bookkeeping. *)
From Coq Require Import NArith ZArith List Lia Bool ZifyBool ZifyN ZifyNat.
From LV Require Import lib.Bytes model.Codec model.VecIndex model.Abft model.AbftRun spec.ElectionSpec
  proofs.BftRun proofs.BftMain proofs.BftAccept proofs.BftProps
  proofs.LinkVals proofs.LinkDefs proofs.LinkNoise proofs.LinkReject.
Import ListNotations.
Local Open Scope N_scope.

(* ================= schedules ================= *)
Record xslot := { x_pre : list op; x_ev : fev; x_build : bool; x_mid : list op }.

Definition xs_ops (ep : N) (lam : fev -> N) (vals : list (N * N)) (s : xslot) : list op :=
  x_pre s ++ (if x_build s then [OpB (to_aevent ep lam vals (x_ev s))] else []) ++ x_mid s ++ [OpP (to_aevent ep lam vals (x_ev s))].
Definition xsched_ops (ep : N) (lam : fev -> N) (vals : list (N * N)) (sc : list xslot) (tl : list op) : list op :=
  flat_map (xs_ops ep lam vals) sc ++ tl.

(* ================= observations ================= *)
Definition ev_x : Type := N * option N * option (N * N).
Definition blk_x : Type := N * N * list N * option Abft.vals.

Definition blk_of (b : block) : blk_x := (blk_obs b, b_seal b).
Definition is_restart (o : op) : bool := match o with OpR => true | _ => false end.

(* noise: the restarts are rendered (code 8) *)
Fixpoint render_noise (ns : list op) (os : list AbftRun.obs) : list ev_x :=
  match ns, os with
  | [], _ => []
  | _ :: _, [] => [(99, None, None)]
  | OpR :: t, ObsR None [] ldf ep :: os' => (8, None, Some (ldf, ep)) :: render_noise t os'
  | OpR :: t, _ :: os' => (97, None, None) :: render_noise t os'
  | _ :: t, _ :: os' => render_noise t os'
  end.

Definition ev_of (built : bool) (bo : option AbftRun.obs) (o : AbftRun.obs) : ev_x :=
  match o with
  | ObsP r _ ldf ep =>
    (code_of r, (if built then match bo with Some (ObsB (Ok f)) => Some f | _ => None end else None), Some (ldf, ep))
  | ObsSkip w => (if w =? 2 then 7 else 2, None, None)
  | _ => (98, None, None)
  end.
Definition blocks_of (o : AbftRun.obs) : list blk_x :=
  match o with ObsP _ bl _ _ => map blk_of bl | _ => [] end.

Fixpoint render_x (sc : list xslot) (tn : list op) (os : list AbftRun.obs) : list ev_x * list blk_x :=
  match sc with
  | [] => (render_noise tn os, [])
  | s :: sc' =>
    let n1 := length (x_pre s) in
    let r1 := render_noise (x_pre s) (firstn n1 os) in
    let os1 := skipn n1 os in
    let bo := if x_build s then hd_error os1 else None in
    let os2 := if x_build s then tl os1 else os1 in
    let n2 := length (x_mid s) in
    let r2 := render_noise (x_mid s) (firstn n2 os2) in
    match skipn n2 os2 with
    | [] => (r1 ++ r2 ++ [(99, None, None)], [])
    | o :: rest => let '(cs, bl) := render_x sc' tn rest in
                   (r1 ++ r2 ++ ev_of (x_build s) bo o :: cs, blocks_of o ++ bl)
    end
  end.

Lemma render_x_cons s sc tn os0 (bo : option AbftRun.obs) os2 o rest :
  length os0 = length (x_pre s) -> length os2 = length (x_mid s) ->
  (if x_build s then bo <> None else bo = None) ->
  render_x (s :: sc) tn (os0 ++ (match bo with Some b => [b] | None => [] end) ++ os2 ++ o :: rest) =
  (render_noise (x_pre s) os0 ++ render_noise (x_mid s) os2 ++ ev_of (x_build s) bo o :: fst (render_x sc tn rest),
   blocks_of o ++ snd (render_x sc tn rest)).
Proof.
  intros L0 L2 Hb. cbn [render_x]. rewrite <- L0, firstn_app, firstn_all, Nat.sub_diag, skipn_app, skipn_all, Nat.sub_diag.
  cbn [firstn skipn app]. rewrite app_nil_r.
  destruct (x_build s).
  - destruct bo as [b|]; [|congruence]. cbn [app hd_error tl].
    rewrite <- L2, firstn_app, firstn_all, Nat.sub_diag, skipn_app, skipn_all, Nat.sub_diag. cbn [firstn skipn app]. rewrite app_nil_r.
    destruct (render_x sc tn rest). reflexivity.
  - subst bo. cbn [app].
    rewrite <- L2, firstn_app, firstn_all, Nat.sub_diag, skipn_app, skipn_all, Nat.sub_diag. cbn [firstn skipn app]. rewrite app_nil_r.
    destruct (render_x sc tn rest). reflexivity.
Qed.

(* ================= the reference side ================= *)
Fixpoint first_some {A B} (g : A -> option B) (l : list A) : option B :=
  match l with
  | [] => None
  | a :: t => match g a with Some x => Some x | None => first_some g t end
  end.
Lemma first_some_none {A B} (g : A -> option B) l : (forall a, In a l -> g a = None) -> first_some g l = None.
Proof. induction l as [|a t IH]; intros H; cbn [first_some]; [reflexivity|]. rewrite (H a (or_introl eq_refl)). apply IH. intros b Hb. apply H. right. exact Hb. Qed.
Lemma first_some_app {A B} (g : A -> option B) l a t : (forall b, In b l -> g b = None) ->
  first_some g (l ++ a :: t) = match g a with Some x => Some x | None => first_some g t end.
Proof. induction l as [|b l IH]; intros H; cbn [app first_some]; [reflexivity|]. rewrite (H b (or_introl eq_refl)). apply IH. intros c Hc. apply H. right. exact Hc. Qed.

Section RefX.
Variable ep : N.
Variable vals : list (N * N).
(* the application's policy in this epoch: frame -> validators of the next epoch (as the application
   hands them over, in any order) if the block of that frame seals the epoch *)
Variable sfr : N -> option (list (N * N)).

(* the validators that the first sealing block among the blocks of a table switches to *)
Definition seal_of (T : list node) : option (list (N * N)) := first_some (fun b => sfr (fst b)) (r_blocks vals T).
(* decided frame and epoch of an instance that has processed the events of T and is not sealed *)
Definition st_of (T : list node) : N * N := (N.of_nat (length (r_blocks vals T)), ep).
Definition restarts (st : N * N) (ns : list op) : list ev_x := map (fun _ => (8, None, Some st)) (filter is_restart ns).
Definition blocks_x (T : list node) (bs : list (N * N)) : list blk_x :=
  map (fun b => (fst b, snd b, ElectionSpec.cheaters_of vals T (snd b), option_map mk_vals (sfr (fst b)))) bs.
(* up to and including the first sealing block *)
Fixpoint cut_seal (bs : list (N * N)) : list (N * N) :=
  match bs with
  | [] => []
  | b :: t => match sfr (fst b) with Some _ => [b] | None => b :: cut_seal t end
  end.

(* after the sealing block: nothing of this epoch is fed any more *)
Fixpoint post_x (sc : list xslot) (tn : list op) : list ev_x :=
  match sc with
  | [] => restarts (0, ep + 1) tn
  | s :: sc' => restarts (0, ep + 1) (x_pre s) ++ restarts (0, ep + 1) (x_mid s) ++ (7, None, None) :: post_x sc' tn
  end.

Fixpoint ref_x (T : list node) (sc : list xslot) (tn : list op) : list ev_x * list blk_x * option (list (N * N)) :=
  match sc with
  | [] => (restarts (st_of T) tn, blocks_x T (r_blocks vals T), None)
  | s :: sc' =>
    let '(T1, (c, h)) := add_event vals T (x_ev s) in
    let hi := if x_build s && (c <? 2) then Some h else None in
    let pre := restarts (st_of T) (x_pre s) ++ restarts (st_of T) (x_mid s) in
    match seal_of T1 with
    | Some nvals => (pre ++ (c, hi, Some (0, ep + 1)) :: post_x sc' tn, blocks_x T1 (cut_seal (r_blocks vals T1)), Some nvals)
    | None => let '(cs, bl, nx) := ref_x T1 sc' tn in
              (pre ++ (c, hi, if c <? 2 then Some (st_of T1) else None) :: cs, bl, nx)
    end
  end.


Lemma ref_x_cont T s sc tn T1 c h : add_event vals T (x_ev s) = (T1, (c, h)) -> seal_of T1 = None ->
  ref_x T (s :: sc) tn =
  (restarts (st_of T) (x_pre s) ++ restarts (st_of T) (x_mid s) ++
     (c, (if x_build s && (c <? 2) then Some h else None), (if c <? 2 then Some (st_of T1) else None)) :: fst (fst (ref_x T1 sc tn)),
   snd (fst (ref_x T1 sc tn)), snd (ref_x T1 sc tn)).
Proof.
  intros AE SO. cbn [ref_x]. rewrite AE, SO. destruct (ref_x T1 sc tn) as [[cs bl] nx]. cbn [fst snd]. rewrite <- app_assoc. reflexivity.
Qed.
Lemma ref_x_seal T s sc tn T1 c h nvals : add_event vals T (x_ev s) = (T1, (c, h)) -> seal_of T1 = Some nvals ->
  ref_x T (s :: sc) tn =
  (restarts (st_of T) (x_pre s) ++ restarts (st_of T) (x_mid s) ++
     (c, (if x_build s && (c <? 2) then Some h else None), Some (0, ep + 1)) :: post_x sc tn,
   blocks_x T1 (cut_seal (r_blocks vals T1)), Some nvals).
Proof. intros AE SO. cbn [ref_x]. rewrite AE, SO. rewrite <- app_assoc. reflexivity. Qed.

(* ---------- what is asked of the input ---------- *)
(* the noise of one epoch, judged by the input alone (LinkReject.noise_in) in the context in which it is
   executed: the ids processed so far; after the sealing block the next epoch's empty instance *)
Fixpoint post_in (nvals : list (N * N)) (sc : list xslot) (tn : list op) : Prop :=
  match sc with
  | [] => Forall (noise_in (ep + 1) nvals []) tn
  | s :: sc' => Forall (noise_in (ep + 1) nvals []) (x_pre s) /\ Forall (noise_in (ep + 1) nvals []) (x_mid s) /\ post_in nvals sc' tn
  end.
Fixpoint sched_in (T : list node) (ids : list N) (sc : list xslot) (tn : list op) : Prop :=
  match sc with
  | [] => Forall (noise_in ep vals ids) tn
  | s :: sc' =>
    Forall (noise_in ep vals ids) (x_pre s) /\ Forall (noise_in ep vals ids) (x_mid s) /\
    let '(T1, (c, _)) := add_event vals T (x_ev s) in
    match seal_of T1 with
    | Some nvals => post_in nvals sc' tn
    | None => sched_in T1 (if c =? 0 then eid (fe (x_ev s)) :: ids else ids) sc' tn
    end
  end.

(* ids: an event that reaches the frame check (code 0 or 1) has an id that is not a temporary id and is
   not the id of an event rejected earlier in the epoch (Jl) *)
Fixpoint ids_ok (K : N) (T : list node) (Jl : list N) (D : list fev) : Prop :=
  match D with
  | [] => True
  | e :: D' =>
    let '(T1, (c, _)) := add_event vals T e in
    (c < 2 -> id_fresh K (eid (fe e)) /\ ~ In (eid (fe e)) Jl) /\
    ids_ok K T1 (if c =? 1 then eid (fe e) :: Jl else Jl) D'
  end.
End RefX.

(* one epoch's stream: creators are positions in the validator list, every event is accepted (0),
   rejected for its frame (1) or not offered (2: known id / unknown parent); few forkers *)
Definition stream_ok (vals : list (N * N)) (D : list fev) : Prop :=
  (forall e, In e D -> (ecr (fe e) < length vals)%nat) /\
  (forall r, In r (snd (add_events vals [] D)) -> fst r < 3) /\
  few_forkers vals (table vals D).
