(* C08: what a restart is in the model, and what it provably keeps. *)
From Coq Require Import NArith ZArith List Lia Bool ZifyBool ZifyN ZifyNat.
From LV Require Import model.VecIndex model.Abft model.AbftRun proofs.AbftStruct proofs.AbftSeal proofs.AbftProcess
  proofs.AbftChain proofs.AbftSealWitness proofs.AbftForkWitness.
Import ListNotations.
Local Open Scope N_scope.

Section Restart.
Variable cap : nat.
Variable end_block : N -> N -> N -> list N -> list N -> option vals.

(* the state Bootstrap starts from: the persisted fields, an empty forkless-cause cache, a zero build
   counter and a fresh election for frame LastDecidedFrame+1 *)
Definition restarted (st : lstate) : lstate :=
  {| l_epoch := l_epoch st; l_vals := l_vals st; l_ldf := l_ldf st; l_roots := l_roots st; l_conf := l_conf st;
     l_idx := l_idx st; l_fcc := []; l_el := el_reset (l_vals st) (l_ldf st + 1); l_ctr := 0 |}.

Theorem bootstrap_is_revote es st :
  bootstrap cap end_block es (persist st) =
  bootstrap_election cap end_block (roots_fuel (restarted st)) es (restarted st) [].
Proof. reflexivity. Qed.

(* if the re-vote emits no block, every persisted field is what it was *)
Theorem restart_keeps_databases es st r st' :
  bootstrap cap end_block es (persist st) = (r, [], st') ->
  l_epoch st' = l_epoch st /\ l_vals st' = l_vals st /\ l_ldf st' = l_ldf st /\ l_roots st' = l_roots st /\
  l_conf st' = l_conf st /\ l_idx st' = l_idx st /\ elinv st'.
Proof.
  rewrite bootstrap_is_revote. intros E.
  assert (I0 : elinv (restarted st)) by (unfold elinv; cbn; reflexivity).
  destruct (bootstrap_election_post cap end_block es _ _ _ _ _ I0 E) as [[F [I P]] _].
  pose proof (bootstrap_election_chain cap end_block es _ _ _ _ _ I0 E) as C.
  cbn in P. destruct P as (P1&P2&P3&P4&P5&P6).
  inversion C; subst. unfold same_conf in *. cbn in *.
  repeat split; auto. lia.
Qed.

(* ... more precisely: the restarted instance IS the old one up to the forkless-cause cache, the build
   counter and the votes / decisions of the election (same frame to decide, same validators) *)
Theorem restart_state_shape es st r st' :
  bootstrap cap end_block es (persist st) = (r, [], st') ->
  exists c n el, st' = set_el (set_fcc (set_ctr st n) c) el /\
                 el_frame el = l_ldf st + 1 /\ el_vals el = l_vals st.
Proof.
  intros E. destruct (restart_keeps_databases es st r st' E) as (A1&A2&A3&A4&A5&A6&I).
  assert (Hv : el_vals (l_el st') = l_vals st).
  { rewrite bootstrap_is_revote in E.
    assert (G : forall fuel s0 r0 s1, bootstrap_election cap end_block fuel es s0 [] = (r0, [], s1) -> same_core s0 s1).
    { induction fuel as [|fu IH]; intros s0 r0 s1 H; cbn [bootstrap_election] in H; [inversion H; apply same_core_refl|].
      destruct (process_known_roots_core cap (roots_fuel s0) s0 (l_ldf s0 + 1)) as [SC _].
      destruct (process_known_roots cap (roots_fuel s0) s0 (l_ldf s0 + 1)) as [[[[df atr]|]|x] s2]; cbn [fst snd] in *;
        try (inversion H; subst; exact SC).
      destruct (on_frame_decided end_block es s2 df atr) as [[[sealed blk]|x] s3] eqn:OF.
      - destruct sealed; [inversion H|]. rewrite bootstrap_election_app in H.
        destruct (bootstrap_election cap end_block fu es s3 []) as [[r2 new] s4]. inversion H.
      - inversion H; subst. apply on_frame_decided_err in OF. subst. exact SC. }
    destruct (G _ _ _ _ E) as (_&_&_&_&_&_&_&_&B9). rewrite B9. reflexivity. }
  exists (l_fcc st'), (l_ctr st'), (l_el st'). split; [|split; [unfold elinv in I; congruence | exact Hv]].
  destruct st, st'. cbn in *. subst. reflexivity.
Qed.

End Restart.

(* the full statement of C08 over the model (NOT proved here: its election part is L1 of C01/C10,
   "votes are a function of the processed set", worker bft): restarting between any two operations
   does not change any later observation *)
Definition drop_restarts (ops : list op) : list op :=
  filter (fun o => match o with OpR => false | _ => true end) ops.
Definition keep_non_restart (tr : list (op * obs)) : list obs :=
  map snd (filter (fun p => match fst p with OpR => false | _ => true end) tr).
Definition C08_full : Prop :=
  forall cap pol epoch raw ops,
    keep_non_restart (combine ops (run cap pol sample (start epoch raw) ops)) =
    run cap pol sample (start epoch raw) (drop_restarts ops).

(* the statement evaluated on two concrete runs with a restart after EVERY operation *)
Fixpoint with_restarts (ops : list op) : list op := match ops with [] => [] | o :: t => o :: OpR :: with_restarts t end.
Example restart_everywhere_witness :
  keep_non_restart (combine (with_restarts s_ops) (run 200 s_pol sample (start 1 s_vals) (with_restarts s_ops))) = s_run /\
  keep_non_restart (combine (with_restarts f_ops) (run 200 [] sample (start 2 f_vals) (with_restarts f_ops))) = f_run.
Proof. vm_compute. split; reflexivity. Qed.
