(* utils/workers: every accepted task is queued, started or drained, exactly once; tasks are
   started in the order in which Enqueue accepted them; the channel never exceeds its capacity;
   with one worker (what the seeder uses per sender thread) tasks are executed in that order. *)
From Coq Require Import NArith List Bool Lia Arith Permutation.
From LV Require Import model.WorkersFifo.
Import ListNotations.

(* order-preserving sub-sequence *)
Inductive Sublist : list N -> list N -> Prop :=
| sl_nil : forall l, Sublist [] l
| sl_keep : forall x a b, Sublist a b -> Sublist (x :: a) (x :: b)
| sl_skip : forall x a b, Sublist a b -> Sublist a (x :: b).

Lemma sublist_snoc : forall a b t, Sublist a b -> Sublist (a ++ [t]) (b ++ [t]).
Proof.
  intros a b t H. induction H; simpl.
  - induction l; simpl; [repeat constructor|constructor; assumption].
  - constructor. assumption.
  - constructor. assumption.
Qed.

Lemma sublist_prefix : forall a q b, Sublist (a ++ q) b -> Sublist a b.
Proof.
  intros a q b H. remember (a ++ q) as l. revert a q Heql. induction H; intros a0 q Heq.
  - symmetry in Heq. apply app_eq_nil in Heq. destruct Heq; subst. constructor.
  - destruct a0 as [|y a0]; [constructor|]. simpl in Heq. inversion Heq; subst. constructor. eapply IHSublist; eauto.
  - constructor. eapply IHSublist; eauto.
Qed.

Lemma flat_set_nth_idle_busy : forall ws i t, nth i ws WGone = WIdle ->
  Permutation (flat_map (fun w => match w with WBusy t => [t] | _ => [] end) (set_nth i (WBusy t) ws))
              (t :: flat_map (fun w => match w with WBusy t => [t] | _ => [] end) ws).
Proof.
  induction ws as [|w ws IH]; intros i t H; destruct i; simpl in *; try discriminate.
  - subst w. simpl. reflexivity.
  - rewrite (IH _ _ H). destruct w; simpl; auto. apply perm_swap.
Qed.

Lemma flat_set_nth_busy_idle : forall ws i t, nth i ws WGone = WBusy t ->
  Permutation (flat_map (fun w => match w with WBusy t => [t] | _ => [] end) ws)
              (t :: flat_map (fun w => match w with WBusy t => [t] | _ => [] end) (set_nth i WIdle ws)).
Proof.
  induction ws as [|w ws IH]; intros i t H; destruct i; simpl in *; try discriminate.
  - subst w. simpl. reflexivity.
  - rewrite (IH _ _ H). destruct w; simpl; auto. apply perm_swap.
Qed.

Lemma flat_set_nth_idle_gone : forall ws i, nth i ws WGone = WIdle ->
  flat_map (fun w => match w with WBusy t => [t] | _ => [] end) (set_nth i WGone ws) =
  flat_map (fun w => match w with WBusy t => [t] | _ => [] end) ws.
Proof.
  induction ws as [|w ws IH]; intros i H; destruct i; simpl in *; try discriminate; auto.
  - subst w. reflexivity.
  - rewrite (IH _ H). reflexivity.
Qed.

Record winv (s : wstate) : Prop := mkWinv {
  wi_order : Sublist (w_started s ++ w_tasks s) (w_accepted s);
  wi_all : Permutation (w_accepted s) (w_started s ++ w_tasks s ++ w_drained s);
  wi_exec : Permutation (w_started s) (w_executed s ++ w_running s);
  wi_cap : (length (w_tasks s) <= Nat.max (w_cap s) 1)%nat
}.

Lemma wstep_inv : forall s o s', winv s -> wstep s o = Some s' -> winv s'.
Proof.
  intros s o s' [H1 H2 H3 H4] H. destruct o as [t|t|i|i|i| |]; simpl in H.
  - match type of H with (if ?c then _ else _) = _ => destruct c eqn:Er end; [|discriminate].
    inversion H; subst; clear H. constructor; simpl; auto.
    + rewrite app_assoc. apply sublist_snoc. exact H1.
    + rewrite H2. rewrite <- !app_assoc. apply Permutation_app_head.
      apply Permutation_app_head. apply Permutation_app_comm.
    + rewrite app_length. simpl.
      destruct (Nat.ltb (length (w_tasks s)) (w_cap s)) eqn:El.
      * apply Nat.ltb_lt in El. lia.
      * apply andb_prop in Er. destruct Er as [Er _]. apply andb_prop in Er. destruct Er as [_ E0].
        apply Nat.eqb_eq in E0. lia.
  - destruct (w_quit s); inversion H; subst. constructor; auto.
  - destruct (nth i (w_workers s) WGone) eqn:En; try discriminate.
    destruct (w_tasks s) as [|t rest] eqn:Et; [discriminate|].
    inversion H; subst; clear H. constructor; simpl.
    + rewrite <- app_assoc. simpl. exact H1.
    + rewrite <- app_assoc. simpl. exact H2.
    + unfold w_running. simpl. rewrite (flat_set_nth_idle_busy _ _ _ En).
      rewrite H3. unfold w_running. rewrite <- app_assoc. apply Permutation_app_head.
      apply Permutation_sym. apply Permutation_cons_append.
    + simpl in H4. lia.
  - destruct (nth i (w_workers s) WGone) eqn:En; try discriminate.
    inversion H; subst; clear H. constructor; simpl; auto.
    unfold w_running in *. simpl. rewrite H3. rewrite <- app_assoc. apply Permutation_app_head.
    rewrite (flat_set_nth_busy_idle _ _ _ En). simpl. reflexivity.
  - destruct (nth i (w_workers s) WGone) eqn:En; try discriminate.
    destruct (w_quit s); [|discriminate]. inversion H; subst; clear H. constructor; simpl; auto.
    unfold w_running in *. simpl. rewrite (flat_set_nth_idle_gone _ _ En). exact H3.
  - inversion H; subst; clear H. constructor; simpl; auto.
    + rewrite app_nil_r. eapply sublist_prefix. exact H1.
    + rewrite H2. apply Permutation_app_head. apply Permutation_app_comm.
    + lia.
  - inversion H; subst; clear H. constructor; simpl; auto.
Qed.

Lemma winv_init : forall cap n, winv (w_init cap n).
Proof.
  intros cap n. constructor; simpl; try constructor.
  - unfold w_running. simpl. induction n; simpl; auto.
  - lia.
Qed.

Lemma wrun_inv : forall ops s, winv s -> winv (wrun s ops).
Proof.
  induction ops as [|o ops IH]; intros s H; simpl; [exact H|].
  destruct (wstep s o) as [s'|] eqn:E; [apply IH; eapply wstep_inv; eauto|apply IH; exact H].
Qed.

(* all schedules of Enqueue callers, workers, Drain and quit *)
Lemma workers_safe : forall cap n ops,
  let s := wrun (w_init cap n) ops in
  Sublist (w_started s ++ w_tasks s) (w_accepted s) /\
  Permutation (w_accepted s) (w_started s ++ w_tasks s ++ w_drained s) /\
  Permutation (w_started s) (w_executed s ++ w_running s) /\
  (length (w_tasks s) <= Nat.max cap 1)%nat.
Proof.
  intros cap n ops. destruct (wrun_inv ops _ (winv_init cap n)) as [H1 H2 H3 H4].
  assert (Hc : forall ops s, w_cap (wrun s ops) = w_cap s).
  { clear. induction ops as [|o ops IH]; intros s; simpl; [reflexivity|].
    destruct (wstep s o) as [s'|] eqn:E; [|apply IH]. rewrite IH.
    destruct o; simpl in E;
      repeat match type of E with
             | (if ?c then _ else _) = _ => destruct c
             | match ?x with _ => _ end = _ => destruct x
             end; try discriminate; inversion E; reflexivity. }
  rewrite Hc in H4. simpl in H4. auto.
Qed.

Lemma set_nth_length : forall (A : Type) (l : list A) i x, length (set_nth i x l) = length l.
Proof. intros A l. induction l as [|y l IH]; intros i x; destruct i; simpl; auto. Qed.

Lemma wstep_workers_len : forall s o s', wstep s o = Some s' -> length (w_workers s') = length (w_workers s).
Proof.
  intros s o s' E. destruct o as [t|t|i|i|i| |]; simpl in E.
  - match type of E with (if ?c then _ else _) = _ => destruct c end; [|discriminate]. inversion E; reflexivity.
  - destruct (w_quit s); inversion E; reflexivity.
  - destruct (nth i (w_workers s) WGone); try discriminate. destruct (w_tasks s); [discriminate|].
    inversion E; simpl. apply set_nth_length.
  - destruct (nth i (w_workers s) WGone); try discriminate. inversion E; simpl. apply set_nth_length.
  - destruct (nth i (w_workers s) WGone); try discriminate. destruct (w_quit s); [|discriminate].
    inversion E; simpl. apply set_nth_length.
  - inversion E; reflexivity.
  - inversion E; reflexivity.
Qed.

(* one worker (Start(1)): tasks are executed in the order in which they were started, i.e. in
   the order in which Enqueue accepted them *)
Lemma one_worker_fifo : forall cap ops,
  let s := wrun (w_init cap 1) ops in
  w_started s = w_executed s ++ w_running s /\ Sublist (w_executed s) (w_accepted s).
Proof.
  intros cap ops.
  assert (Hinv : forall ops s, length (w_workers s) = 1%nat -> w_started s = w_executed s ++ w_running s ->
                 w_started (wrun s ops) = w_executed (wrun s ops) ++ w_running (wrun s ops)).
  { clear. induction ops as [|o ops IH]; intros s Hw He; simpl; [auto|].
    destruct (wstep s o) as [s'|] eqn:E; [|apply IH; auto].
    apply IH; [rewrite (wstep_workers_len _ _ _ E); exact Hw|].
    destruct (w_workers s) as [|w [|w2 ws]] eqn:Ews; simpl in Hw; try discriminate.
    unfold w_running in *. rewrite Ews in He.
    destruct o as [t|t|i|i|i| |]; simpl in E.
    - match type of E with (if ?c then _ else _) = _ => destruct c end; [|discriminate].
      inversion E; subst; simpl. rewrite Ews. exact He.
    - destruct (w_quit s); inversion E; subst. rewrite Ews. exact He.
    - rewrite Ews in E. destruct i as [|i]; simpl in E; [|destruct i; discriminate].
      destruct w; try discriminate. destruct (w_tasks s) as [|t rest]; [discriminate|].
      inversion E; subst; simpl. simpl in He. rewrite app_nil_r in He. rewrite He. reflexivity.
    - rewrite Ews in E. destruct i as [|i]; simpl in E; [|destruct i; discriminate].
      destruct w; try discriminate. inversion E; subst; simpl. simpl in He. rewrite app_nil_r. exact He.
    - rewrite Ews in E. destruct i as [|i]; simpl in E; [|destruct i; discriminate].
      destruct w; try discriminate. destruct (w_quit s); [|discriminate].
      inversion E; subst; simpl. simpl in He. exact He.
    - inversion E; subst; simpl. rewrite Ews. exact He.
    - inversion E; subst; simpl. rewrite Ews. exact He. }
  pose proof (Hinv ops (w_init cap 1) eq_refl eq_refl) as He.
  split; [exact He|].
  destruct (wrun_inv ops _ (winv_init cap 1)) as [H1 _ _ _].
  apply sublist_prefix in H1. simpl in *. rewrite He in H1. eapply sublist_prefix. exact H1.
Qed.
