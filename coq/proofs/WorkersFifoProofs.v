(* utils/workers: every accepted task is queued, started or drained, exactly once; tasks are
   started in the order in which Enqueue accepted them; the channel never exceeds its capacity;
   with one worker (what the seeder uses per sender thread) tasks are executed in that order. *)
From Coq Require Import NArith List Bool Lia Arith Permutation.
From LV Require Import model.WorkersFifo.
Import ListNotations.

(* order-preserving sub-sequence *)
Inductive Sublist : list N -> list N -> Prop :=
| sl_nil : forall l, Sublist [] l
| sl_keep : forall x a b, Sublist a b -> Sublist (x :: a) (x :: b)
| sl_skip : forall x a b, Sublist a b -> Sublist a (x :: b).

Lemma sublist_snoc : forall a b t, Sublist a b -> Sublist (a ++ [t]) (b ++ [t]).
Proof.
  intros a b t H. induction H; simpl.
  - induction l; simpl; [repeat constructor|constructor; assumption].
  - constructor. assumption.
  - constructor. assumption.
Qed.

Lemma sublist_skip_end : forall a b t, Sublist a b -> Sublist a (b ++ [t]).
Proof.
  intros a b t H. induction H; simpl.
  - constructor.
  - constructor. assumption.
  - constructor. assumption.
Qed.

Lemma sublist_prefix : forall a q b, Sublist (a ++ q) b -> Sublist a b.
Proof.
  intros a q b H. remember (a ++ q) as l. revert a q Heql. induction H; intros a0 q Heq.
  - symmetry in Heq. apply app_eq_nil in Heq. destruct Heq; subst. constructor.
  - destruct a0 as [|y a0]; [constructor|]. simpl in Heq. inversion Heq; subst. constructor. eapply IHSublist; eauto.
  - constructor. eapply IHSublist; eauto.
Qed.

Lemma flat_set_nth_idle_busy : forall ws i t, nth i ws WGone = WIdle ->
  Permutation (flat_map (fun w => match w with WBusy t => [t] | _ => [] end) (set_nth i (WBusy t) ws))
              (t :: flat_map (fun w => match w with WBusy t => [t] | _ => [] end) ws).
Proof.
  induction ws as [|w ws IH]; intros i t H; destruct i; simpl in *; try discriminate.
  - subst w. simpl. reflexivity.
  - rewrite (IH _ _ H). destruct w; simpl; auto. apply perm_swap.
Qed.

Lemma flat_set_nth_busy_idle : forall ws i t, nth i ws WGone = WBusy t ->
  Permutation (flat_map (fun w => match w with WBusy t => [t] | _ => [] end) ws)
              (t :: flat_map (fun w => match w with WBusy t => [t] | _ => [] end) (set_nth i WIdle ws)).
Proof.
  induction ws as [|w ws IH]; intros i t H; destruct i; simpl in *; try discriminate.
  - subst w. simpl. reflexivity.
  - rewrite (IH _ _ H). destruct w; simpl; auto. apply perm_swap.
Qed.

Lemma flat_set_nth_idle_gone : forall ws i, nth i ws WGone = WIdle ->
  flat_map (fun w => match w with WBusy t => [t] | _ => [] end) (set_nth i WGone ws) =
  flat_map (fun w => match w with WBusy t => [t] | _ => [] end) ws.
Proof.
  induction ws as [|w ws IH]; intros i H; destruct i; simpl in *; try discriminate; auto.
  - subst w. reflexivity.
  - rewrite (IH _ H). reflexivity.
Qed.

Record winv (s : wstate) : Prop := mkWinv {
  wi_order : Sublist (w_started s ++ w_tasks s) (w_accepted s);
  wi_all : Permutation (w_accepted s) (w_started s ++ w_tasks s ++ w_drained s);
  wi_exec : Permutation (w_started s) (w_executed s ++ w_running s);
  wi_cap : (length (w_tasks s) <= w_cap s)%nat
}.

Lemma wstep_inv : forall s o s', winv s -> wstep s o = Some s' -> winv s'.
Proof.
  intros s o s' [H1 H2 H3 H4] H. destruct o as [t|t i|t|t|i|i|i| |]; simpl in H.
  - destruct (Nat.ltb (length (w_tasks s)) (w_cap s)) eqn:Er; [|discriminate].
    inversion H; subst; clear H. apply Nat.ltb_lt in Er. constructor; simpl; auto.
    + rewrite app_assoc. apply sublist_snoc. exact H1.
    + rewrite H2. rewrite <- !app_assoc. apply Permutation_app_head.
      apply Permutation_app_head. apply Permutation_app_comm.
    + rewrite app_length. simpl. lia.
  - (* rendezvous with worker i *)
    destruct (w_tasks s) as [|t0 rest] eqn:Et; [|discriminate].
    destruct (nth i (w_workers s) WGone) eqn:En; try discriminate.
    inversion H; subst; clear H. rewrite app_nil_r in *. simpl in *. constructor; simpl.
    + rewrite app_nil_r. apply sublist_snoc. exact H1.
    + rewrite H2. rewrite <- !app_assoc. apply Permutation_app_head. simpl.
      apply Permutation_sym. apply Permutation_cons_append.
    + unfold w_running. simpl. rewrite (flat_set_nth_idle_busy _ _ _ En).
      rewrite H3. unfold w_running. rewrite <- app_assoc. apply Permutation_app_head.
      apply Permutation_sym. apply Permutation_cons_append.
    + lia.
  - (* rendezvous with Drain *)
    destruct (w_tasks s) as [|t0 rest] eqn:Et; [|discriminate].
    destruct (Nat.eqb (w_cap s) 0); [|discriminate].
    inversion H; subst; clear H. rewrite app_nil_r in *. simpl in *. constructor; simpl; auto.
    + rewrite app_nil_r. apply sublist_skip_end. exact H1.
    + rewrite H2. rewrite <- !app_assoc. apply Permutation_app_head. reflexivity.
  - destruct (w_quit s); inversion H; subst. constructor; auto.
  - destruct (nth i (w_workers s) WGone) eqn:En; try discriminate.
    destruct (w_tasks s) as [|t rest] eqn:Et; [discriminate|].
    inversion H; subst; clear H. constructor; simpl.
    + rewrite <- app_assoc. simpl. exact H1.
    + rewrite <- app_assoc. simpl. exact H2.
    + unfold w_running. simpl. rewrite (flat_set_nth_idle_busy _ _ _ En).
      rewrite H3. unfold w_running. rewrite <- app_assoc. apply Permutation_app_head.
      apply Permutation_sym. apply Permutation_cons_append.
    + simpl in H4. lia.
  - destruct (nth i (w_workers s) WGone) eqn:En; try discriminate.
    inversion H; subst; clear H. constructor; simpl; auto.
    unfold w_running in *. simpl. rewrite H3. rewrite <- app_assoc. apply Permutation_app_head.
    rewrite (flat_set_nth_busy_idle _ _ _ En). simpl. reflexivity.
  - destruct (nth i (w_workers s) WGone) eqn:En; try discriminate.
    destruct (w_quit s); [|discriminate]. inversion H; subst; clear H. constructor; simpl; auto.
    unfold w_running in *. simpl. rewrite (flat_set_nth_idle_gone _ _ En). exact H3.
  - inversion H; subst; clear H. constructor; simpl; auto.
    + rewrite app_nil_r. eapply sublist_prefix. exact H1.
    + rewrite H2. apply Permutation_app_head. apply Permutation_app_comm.
    + lia.
  - inversion H; subst; clear H. constructor; simpl; auto.
Qed.

Lemma winv_init : forall cap n, winv (w_init cap n).
Proof.
  intros cap n. constructor; simpl; try constructor.
  - unfold w_running. simpl. induction n; simpl; auto.
  - lia.
Qed.

Lemma wrun_inv : forall ops s, winv s -> winv (wrun s ops).
Proof.
  induction ops as [|o ops IH]; intros s H; simpl; [exact H|].
  destruct (wstep s o) as [s'|] eqn:E; [apply IH; eapply wstep_inv; eauto|apply IH; exact H].
Qed.

Lemma wstep_cap : forall s o s', wstep s o = Some s' -> w_cap s' = w_cap s.
Proof.
  intros s o s' E. destruct o as [t|t i|t|t|i|i|i| |]; simpl in E;
    repeat match type of E with
           | (if ?c then _ else _) = _ => destruct c
           | match ?x with _ => _ end = _ => destruct x
           end; try discriminate; inversion E; reflexivity.
Qed.

(* all schedules of Enqueue callers, workers, Drain and quit *)
Lemma workers_safe : forall cap n ops,
  let s := wrun (w_init cap n) ops in
  Sublist (w_started s ++ w_tasks s) (w_accepted s) /\
  Permutation (w_accepted s) (w_started s ++ w_tasks s ++ w_drained s) /\
  Permutation (w_started s) (w_executed s ++ w_running s) /\
  (length (w_tasks s) <= cap)%nat.
Proof.
  intros cap n ops. destruct (wrun_inv ops _ (winv_init cap n)) as [H1 H2 H3 H4].
  assert (Hc : forall ops s, w_cap (wrun s ops) = w_cap s).
  { clear. induction ops as [|o ops IH]; intros s; simpl; [reflexivity|].
    destruct (wstep s o) as [s'|] eqn:E; [|apply IH]. rewrite IH. eapply wstep_cap; eauto. }
  rewrite Hc in H4. simpl in H4. auto.
Qed.

Lemma set_nth_length : forall (A : Type) (l : list A) i x, length (set_nth i x l) = length l.
Proof. intros A l. induction l as [|y l IH]; intros i x; destruct i; simpl; auto. Qed.

Lemma wstep_workers_len : forall s o s', wstep s o = Some s' -> length (w_workers s') = length (w_workers s).
Proof.
  intros s o s' E. destruct o as [t|t i|t|t|i|i|i| |]; simpl in E;
    repeat match type of E with
           | (if ?c then _ else _) = _ => destruct c
           | match ?x with _ => _ end = _ => destruct x
           end; try discriminate; inversion E; simpl; try reflexivity; apply set_nth_length.
Qed.

(* one worker (Start(1)): tasks are executed in the order in which they were started, i.e. in
   the order in which Enqueue accepted them *)
Lemma one_worker_fifo : forall cap ops,
  let s := wrun (w_init cap 1) ops in
  w_started s = w_executed s ++ w_running s /\ Sublist (w_executed s) (w_accepted s).
Proof.
  intros cap ops.
  assert (Hinv : forall ops s, length (w_workers s) = 1%nat -> w_started s = w_executed s ++ w_running s ->
                 w_started (wrun s ops) = w_executed (wrun s ops) ++ w_running (wrun s ops)).
  { clear. induction ops as [|o ops IH]; intros s Hw He; simpl; [auto|].
    destruct (wstep s o) as [s'|] eqn:E; [|apply IH; auto].
    apply IH; [rewrite (wstep_workers_len _ _ _ E); exact Hw|].
    destruct (w_workers s) as [|w [|w2 ws]] eqn:Ews; simpl in Hw; try discriminate.
    unfold w_running in *. rewrite Ews in He.
    destruct o as [t|t i|t|t|i|i|i| |]; simpl in E.
    - match type of E with (if ?c then _ else _) = _ => destruct c end; [|discriminate].
      inversion E; subst; simpl. rewrite Ews. exact He.
    - destruct (w_tasks s); [|discriminate]. rewrite Ews in E.
      destruct i as [|i]; simpl in E; [|destruct i; discriminate].
      destruct w; try discriminate. inversion E; subst; simpl. simpl in He. rewrite app_nil_r in He.
      rewrite He. reflexivity.
    - destruct (w_tasks s); [|discriminate]. destruct (Nat.eqb (w_cap s) 0); [|discriminate].
      inversion E; subst; simpl. rewrite Ews. exact He.
    - destruct (w_quit s); inversion E; subst. rewrite Ews. exact He.
    - rewrite Ews in E. destruct i as [|i]; simpl in E; [|destruct i; discriminate].
      destruct w; try discriminate. destruct (w_tasks s) as [|t rest]; [discriminate|].
      inversion E; subst; simpl. simpl in He. rewrite app_nil_r in He. rewrite He. reflexivity.
    - rewrite Ews in E. destruct i as [|i]; simpl in E; [|destruct i; discriminate].
      destruct w; try discriminate. inversion E; subst; simpl. simpl in He. rewrite app_nil_r. exact He.
    - rewrite Ews in E. destruct i as [|i]; simpl in E; [|destruct i; discriminate].
      destruct w; try discriminate. destruct (w_quit s); [|discriminate].
      inversion E; subst; simpl. simpl in He. exact He.
    - inversion E; subst; simpl. rewrite Ews. exact He.
    - inversion E; subst; simpl. rewrite Ews. exact He. }
  pose proof (Hinv ops (w_init cap 1) eq_refl eq_refl) as He.
  split; [exact He|].
  destruct (wrun_inv ops _ (winv_init cap 1)) as [H1 _ _ _].
  apply sublist_prefix in H1. simpl in *. rewrite He in H1. eapply sublist_prefix. exact H1.
Qed.

(* an unbuffered pool never holds a task in its channel (so no worker can exit and strand one) *)
Lemma unbuffered_never_holds : forall n ops, w_tasks (wrun (w_init 0 n) ops) = [].
Proof.
  intros n ops. destruct (workers_safe 0 n ops) as [_ [_ [_ H]]].
  destruct (w_tasks (wrun (w_init 0 n) ops)); [reflexivity|simpl in H; lia].
Qed.

(* ---------------------------------------------------------------------------------- *)
(* The seeder model's "sender queue" (running task at the head, queued tasks behind) is a   *)
(* one-worker pool whose idle worker takes the next task at once.                           *)
(* ---------------------------------------------------------------------------------- *)
Definition shape (s : wstate) : list N * list wslot := (w_tasks s, w_workers s).

Definition pool_of (q : list N) : list N * list wslot :=
  match q with [] => ([], [WIdle]) | t :: r => (r, [WBusy t]) end.

(* Enqueue on the queue view: possible exactly when length q <= cap (what the seeder model's
   REnq step requires with cap = MaxSenderTasks) *)
Lemma pool_enqueue : forall s q t,
  shape s = pool_of q -> (length q <= w_cap s)%nat ->
  exists ops, (forall o, In o ops -> o = WEnqueue t \/ o = WHandoff t 0) /\
    shape (wrun s ops) = pool_of (q ++ [t]) /\
    w_accepted (wrun s ops) = w_accepted s ++ [t] /\ w_executed (wrun s ops) = w_executed s.
Proof.
  intros s q t Hs Hl. unfold shape in Hs. destruct q as [|h r]; simpl in Hs; inversion Hs as [[Ht Hw]].
  - exists [WHandoff t 0]. split; [intros o [<-|[]]; auto|]. simpl. rewrite Ht, Hw. simpl. auto.
  - exists [WEnqueue t]. split; [intros o [<-|[]]; auto|]. simpl in *.
    assert (E : Nat.ltb (length (w_tasks s)) (w_cap s) = true) by (apply Nat.ltb_lt; rewrite Ht; lia).
    rewrite E. simpl. unfold shape. simpl. rewrite Ht, Hw. auto.
Qed.

Lemma pool_enqueue_blocked : forall s q t,
  shape s = pool_of q -> (w_cap s < length q)%nat ->
  wstep s (WEnqueue t) = None /\ forall i, wstep s (WHandoff t i) = None.
Proof.
  intros s q t Hs Hl. unfold shape in Hs. destruct q as [|h r]; simpl in *; [lia|]. inversion Hs as [[Ht Hw]].
  split.
  - assert (E : Nat.ltb (length (w_tasks s)) (w_cap s) = false) by (apply Nat.ltb_ge; rewrite Ht; lia).
    rewrite E. reflexivity.
  - intros i. rewrite Hw. destruct (w_tasks s); [|reflexivity].
    destruct i as [|[|i]]; reflexivity.
Qed.

(* the running task returns: the worker takes the next one *)
Lemma pool_deliver : forall s h r,
  shape s = pool_of (h :: r) ->
  exists ops, (forall o, In o ops -> o = WFinish 0 \/ o = WTake 0) /\
    shape (wrun s ops) = pool_of r /\ w_executed (wrun s ops) = w_executed s ++ [h].
Proof.
  intros s h r Hs. unfold shape in Hs. simpl in Hs. inversion Hs as [[Ht Hw]].
  destruct r as [|t' r'].
  - exists [WFinish 0]. split; [intros o [<-|[]]; auto|]. simpl. rewrite Hw. simpl.
    unfold shape. simpl. rewrite Ht. auto.
  - exists [WFinish 0; WTake 0]. split; [intros o [<-|[<-|[]]]; auto|]. simpl. rewrite Hw. simpl.
    rewrite Ht. simpl. unfold shape. simpl. auto.
Qed.
