(* A concrete sealing run (non-vacuity for C09/C02): one validator, three events, the policy
   seals at frame 1 with a new validator set; then the first events of the new epoch. *)
From Coq Require Import NArith List Bool.
From LV Require Import model.VecIndex model.Abft model.AbftRun spec.AbftSpec.
Import ListNotations.
Local Open Scope N_scope.

Definition s_vals : list (N * N) := [(7, 1)].
Definition s_new : list (N * N) := [(9, 0); (8, 2)].
Definition s_pol : policy := [((1, 1), s_new)].
Definition s_ev (ep i cr seq lam fr : N) (ps : list N) : aevent :=
  {| a_id := mk_id ep lam (2 ^ 191 + i); a_epoch := ep; a_creator := cr; a_seq := seq; a_lamport := lam; a_frame := fr; a_parents := ps |}.
Definition s1 := s_ev 1 0 7 1 1 1 [].
Definition s2 := s_ev 1 1 7 2 2 2 [a_id s1].
Definition s3 := s_ev 1 2 7 3 3 3 [a_id s2].
Definition n1 := s_ev 2 3 8 1 1 1 [].
Definition n2 := s_ev 2 4 8 2 2 2 [a_id n1].
Definition n3 := s_ev 2 5 8 3 3 3 [a_id n2].
Definition s_ops : list op := map OpP [s1; s2; s3; n1; n2; n3].
Definition s_run : list obs := run 200 s_pol sample (start 1 s_vals) s_ops.

Example seal_witness :
  s_run = [ ObsP None [] 0 1; ObsP None [] 0 1;
            ObsP None [{| b_frame := 1; b_atropos := a_id s1; b_cheaters := []; b_delivered := [a_id s1];
                          b_seal := Some (mk_vals s_new) |}] 0 2;
            ObsP None [] 0 2; ObsP None [] 0 2;
            ObsP None [{| b_frame := 1; b_atropos := a_id n1; b_cheaters := []; b_delivered := [a_id n1];
                          b_seal := None |}] 1 2 ] /\
  c02_trace (chk_start 1 s_vals) (combine s_ops s_run) = true /\
  mk_vals s_new = [(8, 2)].
Proof. vm_compute. repeat split. Qed.
