(* Proofs for C33: for every history and every cache configuration GetFrameRoots returns
   exactly the registered roots.  Invariant: the table holds exactly the keys of the
   registered roots, and every cached frame's slice is, as a set, the registered roots of
   that frame.  Uses the codec lemmas of C32 (CodecProofs) and the arithmetic-free LRU facts
   (WlruStruct): nothing here depends on the cache bounds. *)
From Coq Require Import NArith ZArith List Bool Lia.
From Coq Require Import ZifyBool ZifyNat ZifyN.
From LV Require Import lib.Bytes lib.BytesFacts model.Codec proofs.CodecProofs.
From LV Require Import model.Wlru proofs.WlruProofs proofs.WlruStruct model.Roots spec.RootsSpec.
Import ListNotations.
Local Open Scope N_scope.

Lemma neqb_spec : forall a b : N, N.eqb a b = true <-> a = b.
Proof. exact N.eqb_eq. Qed.

(* ---------- keys ---------- *)
Definition wf_root (r : root) : Prop :=
  r_frame r < pow256 4 /\ r_val r < pow256 4 /\ length (r_id r) = 32%nat.

Lemma app_eq_len {A} (a b x y : list A) : length a = length b -> a ++ x = b ++ y -> a = b /\ x = y.
Proof.
  revert b. induction a as [|h a IH]; intros [|h' b] Hl E; cbn [length app] in *; try discriminate.
  - split; [reflexivity | exact E].
  - injection E as -> E. injection Hl as Hl. destruct (IH _ Hl E) as [-> ->]. split; reflexivity.
Qed.

Lemma decode_root_key r : wf_root r -> decode_key (root_key r) = r.
Proof.
  intros (Hf & Hv & Hi). destruct r as [f v id]. cbn [r_frame r_val r_id] in *. unfold decode_key, root_key. cbn [r_frame r_val r_id].
  f_equal.
  - change (unbe (firstn 4 (be 4 f ++ be 4 v ++ id))) with (unbe_k 4 (be 4 f ++ be 4 v ++ id)). apply unbe_k_be. exact Hf.
  - rewrite (skipn_app_exact (be 4 f) (be 4 v ++ id) 4) by apply be_length.
    change (unbe (firstn 4 (be 4 v ++ id))) with (unbe_k 4 (be 4 v ++ id)). apply unbe_k_be. exact Hv.
Qed.

Lemma root_key_length r : wf_root r -> length (root_key r) = 40%nat.
Proof. intros (_ & _ & Hi). unfold root_key. rewrite !app_length, !be_length, Hi. reflexivity. Qed.

Lemma root_key_prefix f r :
  f < pow256 4 -> wf_root r -> (has_prefix (be 4 f) (root_key r) = true <-> r_frame r = f).
Proof.
  intros Hf (Hrf & _ & _). rewrite has_prefix_spec. unfold root_key. split.
  - intros [s E]. apply app_eq_len in E; [|rewrite !be_length; reflexivity]. destruct E as [E _].
    exact (be_inj 4 _ _ Hrf Hf E).
  - intros <-. eexists. reflexivity.
Qed.

(* ---------- the table ---------- *)
Lemma db_put_in k key db : In key (db_put k db) <-> key = k \/ In key db.
Proof.
  induction db as [|x r IH]; cbn [db_put In]; [split; [intros [H|[]]; left; congruence | intros [H|[]]; left; congruence]|].
  destruct (lex_compare k x) eqn:E; cbn [In].
  - apply lex_compare_eq in E. subst x. split; [tauto | intros [->|H]; [left; reflexivity | exact H]].
  - split; [intros [H|H]; [left; congruence | tauto] | intros [H|H]; [left; congruence | tauto]].
  - rewrite IH. tauto.
Qed.

Definition dbok (reg : list root) (db : list (list N)) : Prop :=
  forall key, In key db <-> exists r, In r reg /\ key = root_key r.
Definition wfreg (reg : list root) : Prop := forall r, In r reg -> wf_root r.

Lemma scan_spec reg db f :
  dbok reg db -> wfreg reg -> f < pow256 4 ->
  forall r, In r (map decode_key (db_scan (be 4 f) db)) <-> In r reg /\ r_frame r = f.
Proof.
  intros Hdb Hwf Hf r. unfold db_scan. rewrite in_map_iff. split.
  - intros (key & <- & Hk). apply filter_In in Hk. destruct Hk as [Hk Hp].
    apply Hdb in Hk. destruct Hk as (r' & Hr' & ->). rewrite (decode_root_key _ (Hwf _ Hr')).
    split; [exact Hr' | apply (root_key_prefix f r' Hf (Hwf _ Hr')); exact Hp].
  - intros [Hr Hfr]. exists (root_key r). split; [apply decode_root_key; exact (Hwf _ Hr)|].
    apply filter_In. split; [apply Hdb; exists r; tauto | apply (root_key_prefix f r Hf (Hwf _ Hr)); exact Hfr].
Qed.

Lemma scan_no_crit reg db f :
  dbok reg db -> wfreg reg -> f < pow256 4 -> existsb (key_bad f) (db_scan (be 4 f) db) = false.
Proof.
  intros Hdb Hwf Hf. destruct (existsb (key_bad f) (db_scan (be 4 f) db)) eqn:E; [exfalso | reflexivity].
  apply existsb_exists in E. destruct E as (key & Hk & Hb). unfold db_scan in Hk. apply filter_In in Hk.
  destruct Hk as [Hk Hp]. apply Hdb in Hk. destruct Hk as (r & Hr & ->).
  unfold key_bad in Hb. rewrite (root_key_length _ (Hwf _ Hr)), (decode_root_key _ (Hwf _ Hr)) in Hb.
  apply (root_key_prefix f r Hf (Hwf _ Hr)) in Hp. rewrite Hp, N.eqb_refl in Hb. discriminate.
Qed.

(* ---------- cache coherence ---------- *)
Definition coh (reg : list root) (c : rcache) : Prop :=
  nodup_keys c /\
  forall e, In e (c_entries c) -> forall r, In r (e_val e) <-> (In r reg /\ r_frame r = e_key e).

Definition RInv (reg : list root) (st : rstate) : Prop :=
  dbok reg (r_db st) /\ coh reg (r_cache st) /\ wfreg reg.

Lemma add_root1_inv reg st creator id f :
  RInv reg st -> wf_root (mkRoot f creator id) ->
  RInv (reg ++ [mkRoot f creator id]) (add_root1 creator id st f).
Proof.
  intros (Hdb & (Hnd & Hco) & Hwf) Hw. set (r0 := mkRoot f creator id) in *.
  assert (Hdb' : dbok (reg ++ [r0]) (db_put (root_key r0) (r_db st))).
  { intros key. rewrite db_put_in, (Hdb key). split.
    - intros [->|(r & Hr & ->)]; [exists r0; split; [apply in_or_app; right; left; reflexivity | reflexivity]
                                  | exists r; split; [apply in_or_app; left; exact Hr | reflexivity]].
    - intros (r & Hr & ->). apply in_app_iff in Hr. destruct Hr as [Hr|[<-|[]]]; [right; exists r; tauto | left; reflexivity]. }
  assert (Hwf' : wfreg (reg ++ [r0])).
  { intros r Hr. apply in_app_iff in Hr. destruct Hr as [Hr|[<-|[]]]; [exact (Hwf _ Hr) | exact Hw]. }
  (* entries under another key stay coherent when a root of frame f is registered *)
  assert (Hother : forall e, e_key e <> f ->
            (forall r, In r (e_val e) <-> In r reg /\ r_frame r = e_key e) ->
            forall r, In r (e_val e) <-> In r (reg ++ [r0]) /\ r_frame r = e_key e).
  { intros e Hk H r. rewrite (H r), in_app_iff. cbn [In]. split; [tauto|].
    intros [[Hr|[<-|[]]] Hfr]; [tauto|]. exfalso. apply Hk. rewrite <- Hfr. reflexivity. }
  unfold add_root1. fold r0.
  destruct (get N.eqb f (r_cache st)) as [c' [rr|]] eqn:G.
  - destruct (get_struct N.eqb neqb_spec _ _ _ _ G Hnd) as (Hnd' & Hsame & (e0 & He0 & Hk0 & Hv0)).
    destruct (add N.eqb f (rr ++ [r0]) (N.of_nat (length (rr ++ [r0]))) c') as [[c'' lg] n] eqn:A.
    destruct (add_struct N.eqb neqb_spec _ _ _ _ _ _ _ A Hnd') as (Hnd'' & Hents).
    split; [exact Hdb' | split; [|exact Hwf']]. cbn [r_cache]. split; [exact Hnd''|].
    intros e He. destruct (Hents e He) as [->|[Hin Hk]].
    + cbn [e_val e_key]. intros r. rewrite !in_app_iff. cbn [In]. subst rr. rewrite (Hco e0 He0 r), Hk0.
      split; [intros [[H1 H2]|[<-|[]]]; [tauto | split; [right; left; reflexivity | reflexivity]]
             | intros [[H1|[<-|[]]] H2]; [left; tauto | right; left; reflexivity]].
    + apply Hsame in Hin. exact (Hother e Hk (Hco e Hin)).
  - destruct (get_struct N.eqb neqb_spec _ _ _ _ G Hnd) as (Hnd' & Hsame & Hnone).
    split; [exact Hdb' | split; [|exact Hwf']]. cbn [r_cache]. split; [exact Hnd'|].
    intros e He. apply Hsame in He. exact (Hother e (Hnone e He) (Hco e He)).
Qed.

Lemma add_root_fold_inv creator id fl : forall reg st,
  RInv reg st -> (forall f, In f fl -> wf_root (mkRoot f creator id)) ->
  RInv (reg ++ map (fun f => mkRoot f creator id) fl) (fold_left (add_root1 creator id) fl st).
Proof.
  induction fl as [|f fl IH]; intros reg st I Hw; cbn [fold_left map].
  - rewrite app_nil_r. exact I.
  - replace (reg ++ mkRoot f creator id :: map (fun f0 => mkRoot f0 creator id) fl)
      with ((reg ++ [mkRoot f creator id]) ++ map (fun f0 => mkRoot f0 creator id) fl)
      by (rewrite <- app_assoc; reflexivity).
    apply IH; [apply add_root1_inv; [exact I | apply Hw; left; reflexivity] | intros f' Hf'; apply Hw; right; exact Hf'].
Qed.

Lemma frames_between_in spf frame f : In f (frames_between spf frame) <-> spf < f /\ f <= frame.
Proof.
  unfold frames_between. rewrite in_map_iff. split.
  - intros (i & <- & Hi). apply in_seq in Hi. lia.
  - intros [H1 H2]. exists (N.to_nat (f - spf - 1)). split; [lia | apply in_seq; lia].
Qed.

Lemma get_frame_roots_spec reg st f st' rr cr :
  RInv reg st -> f < pow256 4 -> get_frame_roots f st = (st', rr, cr) ->
  cr = false /\ (forall r, In r rr <-> In r reg /\ r_frame r = f) /\ RInv reg st'.
Proof.
  intros (Hdb & (Hnd & Hco) & Hwf) Hf. unfold get_frame_roots.
  destruct (get N.eqb f (r_cache st)) as [c' [v|]] eqn:G.
  - intros [= <- <- <-].
    destruct (get_struct N.eqb neqb_spec _ _ _ _ G Hnd) as (Hnd' & Hsame & (e0 & He0 & Hk0 & Hv0)).
    split; [reflexivity | split].
    + intros r. subst v. rewrite (Hco e0 He0 r), Hk0. tauto.
    + split; [exact Hdb | split; [|exact Hwf]]. cbn [r_cache]. split; [exact Hnd'|].
      intros e He. apply Hsame in He. exact (Hco e He).
  - destruct (get_struct N.eqb neqb_spec _ _ _ _ G Hnd) as (_ & _ & Hnone).
    set (ks := db_scan (be 4 f) (r_db st)). set (v := map decode_key ks).
    destruct (add N.eqb f v (N.of_nat (length v)) (r_cache st)) as [[c'' lg] n] eqn:A.
    intros [= <- <- <-].
    destruct (add_struct N.eqb neqb_spec _ _ _ _ _ _ _ A Hnd) as (Hnd'' & Hents).
    pose proof (scan_spec reg (r_db st) f Hdb Hwf Hf) as Hscan. fold ks v in Hscan.
    split; [exact (scan_no_crit reg (r_db st) f Hdb Hwf Hf) | split; [exact Hscan|]].
    split; [exact Hdb | split; [|exact Hwf]]. cbn [r_cache]. split; [exact Hnd''|].
    intros e He. destruct (Hents e He) as [->|[Hin Hk]]; [cbn [e_val e_key]; exact Hscan | exact (Hco e Hin)].
Qed.

Lemma empty_cache_coh reg (c : rcache) : c_entries c = [] -> coh reg c.
Proof. intros E. unfold coh, nodup_keys. rewrite E. split; [constructor | intros e []]. Qed.

Lemma open_epoch_inv st : RInv [] (open_epoch st).
Proof.
  unfold open_epoch, RInv. cbn [r_db r_cache]. split; [|split].
  - intros key. split; [intros [] | intros (r & [] & _)].
  - apply empty_cache_coh. reflexivity.
  - intros r [].
Qed.

Lemma pow256_4_gt1 : 1 < pow256 4.
Proof. vm_compute. reflexivity. Qed.

Lemma gfr_inv reg st f : RInv reg st -> f < pow256 4 -> RInv reg (gfr f st).
Proof.
  intros I Hf. unfold gfr. destruct (get_frame_roots f st) as [[st' rr] cr] eqn:G. cbn [fst].
  exact (proj2 (proj2 (get_frame_roots_spec reg st f _ _ _ I Hf G))).
Qed.

Lemma small_frames : 1 < pow256 4 /\ 2 < pow256 4 /\ 3 < pow256 4.
Proof. repeat split; vm_compute; reflexivity. Qed.

Lemma boot_reads_inv reg st : RInv reg st -> RInv reg (boot_reads st).
Proof.
  intros I. destruct small_frames as (F1 & F2 & F3). unfold boot_reads.
  destruct (get_frame_roots 1 st) as [[st1 r1] c1] eqn:G1.
  pose proof (proj2 (proj2 (get_frame_roots_spec reg st 1 _ _ _ I F1 G1))) as I1.
  destruct r1 as [|x1 r1]; [exact I1|].
  destruct (get_frame_roots 2 st1) as [[st2 r2] c2] eqn:G2.
  pose proof (proj2 (proj2 (get_frame_roots_spec reg st1 2 _ _ _ I1 F2 G2))) as I2.
  destruct r2 as [|x2 r2]; [exact I2|].
  assert (I2' : RInv reg (fold_left (fun s _ => gfr 1 s) (x2 :: r2) st2)).
  { clear G2. generalize (x2 :: r2) as l. intros l. revert st2 I2. induction l as [|y l IH]; intros st2 I2; cbn [fold_left]; [exact I2|].
    apply IH. apply gfr_inv; [exact I2 | exact F1]. }
  destruct (get_frame_roots 3 _) as [[st3 r3] c3] eqn:G3.
  pose proof (proj2 (proj2 (get_frame_roots_spec reg _ 3 _ _ _ I2' F3 G3))) as I3.
  destruct r3 as [|x3 r3]; [exact I3 | apply gfr_inv; [exact I3 | exact F2]].
Qed.

Lemma init_inv num frames st : init num frames = Some st -> RInv [] st.
Proof.
  unfold init. destruct (new num frames) as [c|] eqn:E; [|discriminate]. intros [= <-].
  apply boot_reads_inv. apply open_epoch_inv.
Qed.

Lemma restart_inv reg st : RInv reg st -> RInv reg (restart st).
Proof.
  intros (Hdb & _ & Hwf). unfold restart. apply boot_reads_inv.
  split; [exact Hdb | split; [apply empty_cache_coh; reflexivity | exact Hwf]].
Qed.

(* ---------- histories ---------- *)
Definition wf_op (o : rop) : Prop :=
  match o with
  | RAdd spf frame creator id =>
      (* idx.Frame is uint32 and AddRoot counts `for f := spf+1; f <= frame; f++`: with
         frame = MaxUint32 the loop never ends, with spf = MaxUint32 spf+1 wraps to 0 *)
      spf < pow256 4 - 1 /\ frame < pow256 4 - 1 /\ creator < pow256 4 /\ length id = 32%nat
  | RGet f => f < pow256 4
  | RReset | RRestart => True
  end.

Lemma rstep_inv reg st o :
  RInv reg st -> wf_op o -> RInv (registered_from reg [o]) (fst (rstep st o)).
Proof.
  intros I Hw. destruct o as [spf frame creator id|f| |]; cbn [rstep registered_from fst].
  - unfold add_root. apply add_root_fold_inv; [exact I|]. intros f Hf. apply frames_between_in in Hf.
    destruct Hw as (_ & H1 & H2 & H3). unfold wf_root. cbn [r_frame r_val r_id]. repeat split; [lia | exact H2 | exact H3].
  - destruct (get_frame_roots f st) as [[st' rr] cr] eqn:G. cbn [fst].
    exact (proj2 (proj2 (get_frame_roots_spec reg st f _ _ _ I Hw G))).
  - apply open_epoch_inv.
  - apply restart_inv. exact I.
Qed.

Lemma registered_from_cons acc o ops : registered_from acc (o :: ops) = registered_from (registered_from acc [o]) ops.
Proof. destruct o; reflexivity. Qed.

Lemma rrun_inv ops : forall reg st,
  RInv reg st -> Forall wf_op ops -> RInv (registered_from reg ops) (fst (rrun st ops)).
Proof.
  induction ops as [|o ops IH]; intros reg st I Hw; [exact I|].
  inversion Hw as [|? ? H1 H2]; subst. cbn [rrun].
  destruct (rstep st o) as [st1 r1] eqn:S. destruct (rrun st1 ops) as [st2 tr] eqn:R. cbn [fst].
  rewrite registered_from_cons. pose proof (rstep_inv reg st o I H1) as I1. rewrite S in I1. cbn [fst] in I1.
  specialize (IH _ _ I1 H2). rewrite R in IH. exact IH.
Qed.

Lemma registered_in ops f r : In r (registered ops f) <-> In r (registered_all ops) /\ r_frame r = f.
Proof. unfold registered. rewrite filter_In, N.eqb_eq. tauto. Qed.

(* C33, main statement: any history, any cache configuration, then a query *)
Theorem roots_exact num frames st0 ops f st' rr cr :
  init num frames = Some st0 -> Forall wf_op ops -> f < pow256 4 ->
  get_frame_roots f (fst (rrun st0 ops)) = (st', rr, cr) ->
  cr = false /\ forall r, In r rr <-> In r (registered ops f).
Proof.
  intros Hi Hw Hf G. pose proof (rrun_inv ops [] st0 (init_inv _ _ _ Hi) Hw) as I.
  destruct (get_frame_roots_spec _ _ _ _ _ _ I Hf G) as (H1 & H2 & _).
  split; [exact H1|]. intros r. rewrite registered_in. exact (H2 r).
Qed.

(* ... and for every query inside a history *)
Theorem roots_exact_in_trace num frames st0 pre f post :
  init num frames = Some st0 -> Forall wf_op (pre ++ RGet f :: post) ->
  exists rr, nth_error (snd (rrun st0 (pre ++ RGet f :: post))) (length pre) = Some (Some (rr, false)) /\
             forall r, In r rr <-> In r (registered pre f).
Proof.
  intros Hi Hw. apply Forall_app in Hw. destruct Hw as [Hw1 Hw2]. inversion Hw2 as [|? ? Hf _]; subst.
  cbn [wf_op] in Hf.
  assert (Hrun : forall ops st ops2, rrun st (ops ++ ops2) =
            (fst (rrun (fst (rrun st ops)) ops2), snd (rrun st ops) ++ snd (rrun (fst (rrun st ops)) ops2))).
  { induction ops as [|o ops IH]; intros st ops2; cbn [app rrun].
    - cbn [fst snd app]. destruct (rrun st ops2); reflexivity.
    - destruct (rstep st o) as [st1 r1]. rewrite IH. destruct (rrun st1 ops) as [st2 tr2]. cbn [fst snd app].
      destruct (rrun st2 ops2); reflexivity. }
  assert (Hlen : forall ops st, length (snd (rrun st ops)) = length ops).
  { induction ops as [|o ops IH]; intros st; cbn [rrun]; [reflexivity|].
    destruct (rstep st o) as [st1 r1]. specialize (IH st1). destruct (rrun st1 ops). cbn [snd length] in *. lia. }
  rewrite Hrun. cbn [snd]. rewrite nth_error_app2 by (rewrite Hlen; lia). rewrite Hlen, Nat.sub_diag.
  cbn [rrun rstep]. destruct (get_frame_roots f (fst (rrun st0 pre))) as [[st' rr] cr] eqn:G.
  destruct (rrun st' post) as [st'' tr'']. cbn [snd nth_error].
  destruct (roots_exact _ _ _ _ _ _ _ _ Hi Hw1 Hf G) as [-> H]. exists rr. split; [reflexivity | exact H].
Qed.

(* each registered root carries the frame and creator it was added under *)
Lemma registered_from_origin ops : forall acc r,
  In r (registered_from acc ops) ->
  In r acc \/ exists spf frame creator id, In (RAdd spf frame creator id) ops /\
                r = mkRoot (r_frame r) creator id /\ spf < r_frame r /\ r_frame r <= frame.
Proof.
  induction ops as [|o ops IH]; intros acc r H; [left; exact H|].
  destruct o as [spf frame creator id|f| |]; cbn [registered_from] in H.
  - destruct (IH _ _ H) as [Ha|(s & fr & c & i & Hin & Hr)].
    + apply in_app_iff in Ha. destruct Ha as [Ha|Ha]; [left; exact Ha | right].
      apply in_map_iff in Ha. destruct Ha as (f & <- & Hf). apply frames_between_in in Hf.
      exists spf, frame, creator, id. cbn [r_frame]. repeat split; [left; reflexivity | tauto | tauto].
    + right. exists s, fr, c, i. split; [right; exact Hin | exact Hr].
  - destruct (IH _ _ H) as [Ha|(s & fr & c & i & Hin & Hr)]; [left; exact Ha | right].
    exists s, fr, c, i. split; [right; exact Hin | exact Hr].
  - destruct (IH _ _ H) as [[]|(s & fr & c & i & Hin & Hr)]. right.
    exists s, fr, c, i. split; [right; exact Hin | exact Hr].
  - destruct (IH _ _ H) as [Ha|(s & fr & c & i & Hin & Hr)]; [left; exact Ha | right].
    exists s, fr, c, i. split; [right; exact Hin | exact Hr].
Qed.

(* what is registered, said without frames_between: a root (f, creator, id) is registered for
   frame f iff some AddRoot(spf, event{frame, creator, id}) of the CURRENT epoch has
   spf < f <= frame *)
Definition added_in (l : list rop) (r : root) : Prop :=
  exists spf frame, In (RAdd spf frame (r_val r) (r_id r)) l /\ spf < r_frame r /\ r_frame r <= frame.

Lemma root_eta r f c i : r = mkRoot f c i <-> r_frame r = f /\ r_val r = c /\ r_id r = i.
Proof. destruct r as [f' c' i']. cbn [r_frame r_val r_id]. split; [intros [= -> -> ->]; tauto | intros (-> & -> & ->); reflexivity]. Qed.

Lemma registered_from_current ops : forall acc accops,
  (forall r, In r acc <-> added_in accops r) ->
  forall r, In r (registered_from acc ops) <-> added_in (current_epoch_from accops ops) r.
Proof.
  induction ops as [|o ops IH]; intros acc accops H r; [exact (H r)|].
  assert (Hsame : forall o', (forall s f c i, o' <> RAdd s f c i) ->
            forall r0, In r0 acc <-> added_in (accops ++ [o']) r0).
  { intros o' Hno r0. rewrite (H r0). unfold added_in. split; intros (s & f & Hin & Hlt).
    - exists s, f. split; [apply in_or_app; left; exact Hin | exact Hlt].
    - exists s, f. split; [|exact Hlt]. apply in_app_iff in Hin. destruct Hin as [Hin|[E|[]]]; [exact Hin | exfalso; exact (Hno _ _ _ _ E)]. }
  destruct o as [spf frame creator id|f| |]; cbn [registered_from current_epoch_from].
  - apply IH. intros r0. rewrite in_app_iff, (H r0), in_map_iff. unfold added_in. split.
    + intros [(s & f & Hin & Hlt)|(f & E & Hf)].
      * exists s, f. split; [apply in_or_app; left; exact Hin | exact Hlt].
      * apply frames_between_in in Hf. symmetry in E. apply root_eta in E. destruct E as (E1 & E2 & E3).
        exists spf, frame. rewrite E1, E2, E3. split; [apply in_or_app; right; left; reflexivity | exact Hf].
    + intros (s & f & Hin & Hlt). apply in_app_iff in Hin. destruct Hin as [Hin|[E|[]]].
      * left. exists s, f. tauto.
      * injection E as -> -> E2 E3. right. exists (r_frame r0). split; [|apply frames_between_in; exact Hlt].
        symmetry. apply root_eta. repeat split; congruence.
  - apply IH. apply Hsame. discriminate.
  - apply IH. intros r0. split; [intros [] | intros (s & f & [] & _)].
  - apply IH. apply Hsame. discriminate.
Qed.

Theorem registered_frames ops f creator id :
  In (mkRoot f creator id) (registered ops f) <->
  exists spf frame, In (RAdd spf frame creator id) (current_epoch ops) /\ spf < f /\ f <= frame.
Proof.
  rewrite registered_in. unfold registered_all, current_epoch.
  rewrite (registered_from_current ops [] [] (fun r => conj (fun H : In r [] => match H with end)
             (fun H : added_in [] r => match H with ex_intro _ _ (ex_intro _ _ (conj Hin _)) => match Hin with end end))).
  unfold added_in. cbn [r_frame r_val r_id]. split; [intros [H _]; exact H | intros H; split; [exact H | reflexivity]].
Qed.

Theorem roots_carry_slot num frames st0 ops f st' rr cr :
  init num frames = Some st0 -> Forall wf_op ops -> f < pow256 4 ->
  get_frame_roots f (fst (rrun st0 ops)) = (st', rr, cr) ->
  forall r, In r rr -> r_frame r = f /\
    exists spf frame creator id, In (RAdd spf frame creator id) ops /\
      r = mkRoot f creator id /\ spf < f /\ f <= frame.
Proof.
  intros Hi Hw Hf G r Hr. apply (proj2 (roots_exact _ _ _ _ _ _ _ _ Hi Hw Hf G) r) in Hr.
  apply registered_in in Hr. destruct Hr as [Hr Hfr]. split; [exact Hfr|].
  destruct (registered_from_origin ops [] r Hr) as [[]|(s & fr & c & i & Hin & Hr' & H1 & H2)].
  exists s, fr, c, i. rewrite Hfr in *. repeat split; assumption.
Qed.

(* a new epoch starts with no roots *)
Lemma registered_after_reset ops : forall acc, registered_from acc (ops ++ [RReset]) = [].
Proof. induction ops as [|o ops IH]; intros acc; [reflexivity|]. destruct o; cbn [app registered_from]; apply IH. Qed.

Theorem new_epoch_empty num frames st0 ops f st' rr cr :
  init num frames = Some st0 -> Forall wf_op ops -> f < pow256 4 ->
  get_frame_roots f (fst (rrun st0 (ops ++ [RReset]))) = (st', rr, cr) ->
  rr = [] /\ cr = false.
Proof.
  intros Hi Hw Hf G.
  assert (Hw' : Forall wf_op (ops ++ [RReset])) by (apply Forall_app; split; [exact Hw | repeat constructor]).
  destruct (roots_exact _ _ _ _ _ _ _ _ Hi Hw' Hf G) as [H1 H2]. split; [|exact H1].
  destruct rr as [|r rr]; [reflexivity|exfalso]. specialize (H2 r).
  unfold registered, registered_all in H2. rewrite registered_after_reset in H2. cbn [filter] in H2.
  apply H2. left. reflexivity.
Qed.

(* the executable set comparison used by the driver means set equality *)
Lemma root_eqb_eq a b : root_eqb a b = true <-> a = b.
Proof.
  destruct a as [f v i], b as [f' v' i']. unfold root_eqb, ids_eqb. cbn [r_frame r_val r_id].
  rewrite !andb_true_iff, !N.eqb_eq, bytes_eqb_eq. split; [intros [[-> ->] ->]; reflexivity | intros [= -> -> ->]; tauto].
Qed.
Lemma same_set_spec a b : same_set a b = true <-> forall r, In r a <-> In r b.
Proof.
  unfold same_set, subset. rewrite andb_true_iff, !forallb_forall. split.
  - intros [H1 H2] r. split; intros H.
    + specialize (H1 r H). apply existsb_exists in H1. destruct H1 as (y & Hy & E). apply root_eqb_eq in E. subst. exact Hy.
    + specialize (H2 r H). apply existsb_exists in H2. destruct H2 as (y & Hy & E). apply root_eqb_eq in E. subst. exact Hy.
  - intros H. split; intros x Hx; apply existsb_exists; exists x; (split; [apply H; exact Hx | apply root_eqb_eq; reflexivity]).
Qed.
