(* C15: the far-future rule.  An event copy is handed to Process only if, when it entered
   process(), its Lamport time was at most highest-known + 1 + limit.Num, where highest-known is
   recomputed from the log (initial value, Lamport times of the successfully processed events). *)
From Coq Require Import NArith ZArith List Bool Lia Arith Permutation ZifyBool ZifyNat ZifyN.
From LV Require Import model.Buffer model.Processor spec.BufferSpec spec.ProcessorSpec
  proofs.BufferInv proofs.BufferPush proofs.BufferRun proofs.BufferExt proofs.BufferTheorems
  proofs.ProcessorFrame proofs.ProcessorOrder proofs.ProcessorSem proofs.ProcessorRel
  proofs.ProcessorUnord proofs.ProcessorRun.
Import ListNotations.
Local Open Scope N_scope.
Ltac Zify.zify_post_hook ::= Z.div_mod_to_equations.

Definition lam (t : list pevent) (g : N) : N :=
  match find (fun e => pg e =? g) t with Some e => p_lamport e | None => 0 end.
(* highest known Lamport time according to a log (NEWEST FIRST) *)
Fixpoint hlN (t : list pevent) (h0 : N) (l : list pout) : N :=
  match l with
  | [] => h0
  | PProcess g _ true :: r => N.max (hlN t h0 r) (lam t g)
  | _ :: r => hlN t h0 r
  end.

Lemma hlN_app_inner_free : forall t h0 a l, (forall g e ok, ~ In (PProcess g e ok) a) -> hlN t h0 (a ++ l) = hlN t h0 l.
Proof.
  intros t h0 a l; induction a as [|o a IH]; simpl; intros H; auto.
  assert (IH' : hlN t h0 (a ++ l) = hlN t h0 l) by (apply IH; intros g e ok Hi; apply (H g e ok); right; exact Hi).
  destruct o; auto. destruct ok; auto. exfalso. apply (H g e true). left; reflexivity.
Qed.
Lemma lam_app : forall t t' g, In g (map pg t) -> lam (t ++ t') g = lam t g.
Proof.
  intros t t' g H. unfold lam. destruct (find_pg_in t g H) as [e F]. rewrite (find_app_l _ _ _ _ F), F. reflexivity.
Qed.
Lemma hlN_tab_app : forall t t' h0 l, (forall g e ok, In (PProcess g e ok) l -> In g (map pg t)) ->
  hlN (t ++ t') h0 l = hlN t h0 l.
Proof.
  intros t t' h0 l; induction l as [|o l IH]; simpl; intros H; auto.
  assert (IH' : hlN (t ++ t') h0 l = hlN t h0 l) by (apply IH; intros g e ok Hi; apply (H g e ok); right; exact Hi).
  destruct o; auto. destruct ok; auto. rewrite IH', lam_app; auto. apply (H g e true). left; reflexivity.
Qed.

Lemma split_app_mid : forall {A} (l1 l2 a b : list A) x, l1 ++ l2 = a ++ x :: b ->
  (exists m, l1 = a ++ x :: m /\ b = m ++ l2) \/ (exists m, a = l1 ++ m /\ l2 = m ++ x :: b).
Proof.
  intros A l1; induction l1 as [|y l1 IH]; intros l2 a b x H; simpl in H.
  - right. exists a. auto.
  - destruct a as [|z a]; simpl in H; inversion H; subst.
    + left. exists l1. auto.
    + destruct (IH _ _ _ _ H2) as [[m [E1 E2]]|[m [E1 E2]]].
      * left. exists m. subst. auto.
      * right. exists m. subst. auto.
Qed.

Lemma w32_le : forall x, w32 x <= x.
Proof. intros x. unfold w32. apply N.mod_le. discriminate. Qed.

Ltac npp := let Hi := fresh in intros ? ? ? Hi; simpl in Hi; intuition discriminate.

Section F.
  Variable fc fp : list out -> entry -> bool.
  Variable cap_n cap_s lim_n lim_s : N.
  Variable h0 : N.

  Notation process := (Processor.process fc fp lim_n lim_s).
  Notation pstep_run := (Processor.pstep_run fc fp cap_n cap_s lim_n lim_s).
  Notation prun := (Processor.prun fc fp cap_n cap_s lim_n lim_s).
  Notation PB := (PB fc fp lim_n lim_s).

  (* in the (newest-first) log [l], copy g entered process() at a moment when it passed the test *)
  Definition handled_ok (t : list pevent) (l : list pout) (g : N) : Prop :=
    exists a b, l = a ++ PHandle g :: b /\ lam t g <= hlN t h0 b + 1 + lim_n.
  Lemma handled_ok_mono : forall t l new g, handled_ok t l g -> handled_ok t (new ++ l) g.
  Proof. intros t l new g [a [b [E H]]]. exists (new ++ a), b. split; [rewrite E, app_assoc; reflexivity | exact H]. Qed.

  Record FI (s : pst) : Prop := mkFI {
    fi_hl : highest s = hlN (tab s) h0 (plog s);
    fi_pushed : forall g, In g (pushed s) -> handled_ok (tab s) (plog s) g;
    fi_proc : forall a g e ok b, plog s = a ++ PProcess g e ok :: b ->
                In g (pushed s) /\ handled_ok (tab s) b g;
    fi_in : incl (pushed s) (pgs s)
  }.

  (* replaying buffer callbacks *)
  Lemma fold_apply_far : forall L s1,
    let s2 := fold_left apply_out L s1 in
    exists applied, plog s2 = applied ++ plog s1
      /\ (forall g e ok, In (PProcess g e ok) applied -> exists c, In c (proc_cids L) /\ g = g_of (pushed s1) c)
      /\ (forall g, ~ In (PHandle g) applied)
      /\ (highest s1 = hlN (tab s1) h0 (plog s1) -> highest s2 = hlN (tab s1) h0 (plog s2)).
  Proof.
    induction L as [|o L IH]; intros s1; simpl.
    - exists []. repeat split; auto. intros g e ok [].
    - destruct (apply_out_fields s1 o) as [A [B _]].
      destruct (IH (apply_out s1 o)) as [ap [E1 [E2 [E3 E4]]]]. rewrite A, B in *.
      destruct o as [c e ok | c e ok | c e err | e | c ok n z | n z].
      + exists (ap ++ [PCheck (g_of_cid s1 c) e ok]). simpl in *.
        split; [rewrite E1, <- app_assoc; reflexivity|]. split; [|split].
        * intros g e' ok' Hi. apply in_app_or in Hi. destruct Hi as [Hi|[Hi|[]]]; [exact (E2 _ _ _ Hi) | discriminate].
        * intros g Hi. apply in_app_or in Hi. destruct Hi as [Hi|[Hi|[]]]; [exact (E3 g Hi) | discriminate].
        * intros H. apply E4. simpl. exact H.
      + exists (ap ++ [PProcess (g_of_cid s1 c) e ok]).
        assert (Epl : plog (apply_out s1 (OProcess c e ok)) = PProcess (g_of_cid s1 c) e ok :: plog s1) by (simpl; destruct ok; reflexivity).
        rewrite Epl in *.
        split; [rewrite E1, <- app_assoc; reflexivity|]. split; [|split].
        * intros g e' ok' Hi. apply in_app_or in Hi. destruct Hi as [Hi|[Hi|[]]].
          -- destruct (E2 g e' ok' Hi) as [c' [H1 H2]]. exists c'. split; [right; exact H1 | exact H2].
          -- inversion Hi; subst. exists c. split; [left; reflexivity | reflexivity].
        * intros g Hi. apply in_app_or in Hi. destruct Hi as [Hi|[Hi|[]]]; [exact (E3 g Hi) | discriminate].
        * intros H. apply E4. simpl. destruct ok; simpl; [|exact H].
          rewrite H. reflexivity.
      + exists (ap ++ [PReleased (g_of_cid s1 c) e err]).
        destruct (released_cb_fields s1 (g_of_cid s1 c) e err) as [_ [_ [_ [Hh Hp]]]].
        cbv beta iota delta [apply_out] in *. rewrite Hp in *.
        split; [rewrite E1, <- app_assoc; reflexivity|]. split; [|split].
        * intros g e' ok' Hi. apply in_app_or in Hi. destruct Hi as [Hi|[Hi|[]]]; [exact (E2 _ _ _ Hi) | discriminate].
        * intros g Hi. apply in_app_or in Hi. destruct Hi as [Hi|[Hi|[]]]; [exact (E3 g Hi) | discriminate].
        * intros H. apply E4. rewrite Hh. simpl. exact H.
      + exists ap. simpl in *. split; [exact E1|]. split; [exact E2|]. split; [exact E3 | exact E4].
      + exists ap. simpl in *. split; [exact E1|]. split; [exact E2|]. split; [exact E3 | exact E4].
      + exists ap. simpl in *. split; [exact E1|]. split; [exact E2|]. split; [exact E3 | exact E4].
  Qed.

  Lemma FI_ext : forall s s' new, tab s' = tab s -> pushed s' = pushed s -> highest s' = highest s ->
    plog s' = new ++ plog s -> (forall g e ok, ~ In (PProcess g e ok) new) -> FI s -> FI s'.
  Proof.
    intros s s' new Et Ep Eh El Hn [F1 F2 F3 F4].
    assert (Epg : pgs s' = pgs s) by (unfold pgs; rewrite Et; reflexivity).
    constructor; rewrite ?Et, ?Ep, ?Eh, ?El, ?Epg; auto.
    - rewrite hlN_app_inner_free; auto.
    - intros g Hg. apply handled_ok_mono. apply F2; exact Hg.
    - intros a g e ok b H. destruct (split_app_mid _ _ _ _ _ H) as [[m [E1 E2]]|[m [E1 E2]]].
      + exfalso. apply (Hn g e ok). rewrite E1. apply in_or_app; right; left; reflexivity.
      + apply (F3 m g e ok b). exact E2.
  Qed.

  Lemma proc_cid_valid : forall cs b c, RunInv lim_n lim_s cs b -> In c (proc_cids (log b)) ->
    (N.to_nat c < length cs)%nat.
  Proof.
    intros cs b c R H. eapply released_valid; [exact R|]. destruct R as [_ [I _]]. apply (inv_proc_rel _ _ _ I). exact H.
  Qed.

  Lemma FI_process : forall s ev, PB s -> FI s -> In ev (tab s) -> FI (fst (process s ev)).
  Proof.
    intros s ev P F Hev. unfold Processor.process. destruct (p_bad ev).
    - cbn [fst]. destruct (released_cb_fields (pemit s (PHandle (pg ev))) (pg ev) (p_eid ev) 6) as [A [B [_ [C D]]]].
      apply (FI_ext s _ [PReleased (pg ev) (p_eid ev) 6; PHandle (pg ev)]); auto.
      intros g e ok [H|[H|[]]]; discriminate.
    - match goal with |- context [if ?c then _ else _] => destruct c eqn:Far end.
      + cbn [fst]. destruct (released_cb_fields (pemit (pemit s PHighest) (PHandle (pg ev))) (pg ev) (p_eid ev) 4) as [A [B [_ [C D]]]].
        apply (FI_ext s _ [PReleased (pg ev) (p_eid ev) 4; PHandle (pg ev); PHighest]); auto.
        intros g e ok [H|[H|[H|[]]]]; discriminate.
      + set (s0 := pemit (pemit s PHighest) (PHandle (pg ev))) in *.
        set (b1 := push_event fc fp true lim_n lim_s (buf s0) (p_eid ev) (p_pars ev) (p_size ev)).
        assert (G : FI (fold_left apply_out (delta (log (buf s0)) (log b1)) (set_buf s0 b1 (pushed s0 ++ [pg ev])))).
        { destruct F as [F1 F2 F3 F4]. destruct P as [[ops [Eb Elen]] Nt Nh Hh _ _].
          assert (Hg0 : In (pg ev) (pgs s)) by (unfold pgs; apply in_map; exact Hev).
          assert (Elam : lam (tab s) (pg ev) = p_lamport ev).
          { unfold lam. rewrite (find_pg_nodup (tab s) ev Nt Hev). reflexivity. }
          (* the far-future test was passed *)
          change (highest s0) with (highest s) in Far. apply N.ltb_ge in Far.
          assert (Pass : lam (tab s) (pg ev) <= hlN (tab s) h0 (PHighest :: plog s) + 1 + lim_n).
          { simpl. rewrite Elam, <- F1.
            pose proof (w32_le (highest s + w32 (1 + w32 lim_n))). pose proof (w32_le (1 + w32 lim_n)). pose proof (w32_le lim_n). lia. }
          set (ops' := ops ++ [OpPush (p_eid ev) (p_pars ev) (p_size ev)]).
          assert (Eb1 : b1 = run fc fp true lim_n lim_s ops').
          { unfold ops'. rewrite run_snoc. simpl step. unfold b1. change (buf s0) with (buf s). rewrite Eb. reflexivity. }
          pose proof (run_inv fc fp lim_n lim_s ops') as R1. rewrite <- Eb1 in R1.
          assert (Ecs : length (copies_of ops') = S (length (pushed s))).
          { unfold ops'. rewrite copies_of_snoc, app_length, Elen. simpl. lia. }
          destruct (push_event_ext fc fp true lim_n lim_s (buf s0) (p_eid ev) (p_pars ev) (p_size ev))
            as [c0 [ok0 [n0 [z0 [new [EL FL]]]]]]. fold b1 in EL.
          set (L := delta (log (buf s0)) (log b1)).
          assert (HL : forall c, In c (proc_cids L) -> (N.to_nat c < S (length (pushed s)))%nat).
          { intros c Hc. rewrite <- Ecs. apply (proc_cid_valid _ b1 c R1).
            unfold L, delta in Hc. unfold proc_cids in *. apply in_flat_map in Hc. destruct Hc as [o [Ho Hc]].
            apply in_flat_map. exists o. split; [|exact Hc].
            apply in_rev in Ho. eapply firstn_In. exact Ho. }
          set (s1 := set_buf s0 b1 (pushed s0 ++ [pg ev])).
          destruct (fold_apply_far L s1) as [ap [E1 [E2 [E3 E4]]]].
          destruct (fold_apply_fields L s1) as [A [B _]].
          change (tab s1) with (tab s) in *. change (pushed s1) with (pushed s ++ [pg ev]) in *.
          change (plog s1) with (PHandle (pg ev) :: PHighest :: plog s) in *.
          change (highest s1) with (highest s) in *.
          assert (Epg : pgs (fold_left apply_out L s1) = pgs s) by (unfold pgs; rewrite A; reflexivity).
          assert (Hin : forall g e ok, In (PProcess g e ok) ap -> In g (pushed s ++ [pg ev])).
          { intros g e ok Hi. destruct (E2 g e ok Hi) as [c [Hc Eg]]. subst g. apply g_of_in.
            rewrite app_length. simpl. specialize (HL c Hc). lia. }
          constructor; rewrite ?A, ?B, ?E1, ?Epg.
          - rewrite <- E1. apply E4. simpl. exact F1.
          - intros g Hg. apply in_app_or in Hg. destruct Hg as [Hg|[Hg|[]]].
            + change (ap ++ PHandle (pg ev) :: PHighest :: plog s) with (ap ++ [PHandle (pg ev); PHighest] ++ plog s).
              rewrite app_assoc. apply handled_ok_mono. apply F2; exact Hg.
            + subst g. exists ap, (PHighest :: plog s). split; [reflexivity | exact Pass].
          - intros a g e ok b H.
            destruct (split_app_mid _ _ _ _ _ H) as [[m [Ea Eb']]|[m [Ea Eb']]].
            + (* a Process made by this push *)
              assert (Hg : In g (pushed s ++ [pg ev])).
              { apply (Hin g e ok). rewrite Ea. apply in_or_app; right; left; reflexivity. }
              split; [exact Hg|]. subst b. apply in_app_or in Hg. destruct Hg as [Hg|[Hg|[]]].
              * change (m ++ PHandle (pg ev) :: PHighest :: plog s) with (m ++ [PHandle (pg ev); PHighest] ++ plog s).
                rewrite app_assoc. apply handled_ok_mono. apply F2; exact Hg.
              * subst g. exists m, (PHighest :: plog s). split; [reflexivity | exact Pass].
            + (* an older one *)
              destruct m as [|x m]; simpl in Eb'; [discriminate|]. inversion Eb' as [[Ex Em]]. clear Eb'.
              destruct m as [|y m]; simpl in Em; [discriminate|]. inversion Em as [[Ey Em']]. clear Em.
              destruct (F3 m g e ok b Em') as [Hg Hh']. split; [apply in_or_app; left; exact Hg | exact Hh'].
          - intros g Hg. apply in_app_or in Hg. destruct Hg as [Hg|[Hg|[]]]; [apply F4; exact Hg | subst; exact Hg0]. }
        match goal with |- context [if ?c then _ else _] => destruct c end; cbn [fst]; exact G.
  Qed.

  Lemma FI_fold : forall L s1, FI s1 ->
    (forall c, In c (proc_cids L) -> (N.to_nat c < length (pushed s1))%nat) ->
    FI (fold_left apply_out L s1).
  Proof.
    intros L s1 [F1 F2 F3 F4] HL.
    destruct (fold_apply_far L s1) as [ap [E1 [E2 [E3 E4]]]].
    destruct (fold_apply_fields L s1) as [A [B _]].
    assert (Epg : pgs (fold_left apply_out L s1) = pgs s1) by (unfold pgs; rewrite A; reflexivity).
    constructor; rewrite ?A, ?B, ?Epg.
    - apply E4. exact F1.
    - intros g Hg. rewrite E1. apply handled_ok_mono. apply F2; exact Hg.
    - intros a g e ok b H. rewrite E1 in H.
      destruct (split_app_mid _ _ _ _ _ H) as [[m [Ea Eb']]|[m [Ea Eb']]].
      + assert (Hg : In g (pushed s1)).
        { destruct (E2 g e ok) as [c [Hc Eg]]; [rewrite Ea; apply in_or_app; right; left; reflexivity|].
          subst g. apply g_of_in. apply HL; exact Hc. }
        split; [exact Hg|]. subst b. apply handled_ok_mono. apply F2; exact Hg.
      + apply (F3 m g e ok b). exact Eb'.
    - exact F4.
  Qed.

  Lemma FIPB_flush : forall fuel s bs i, i = bs_processed bs -> PB s -> FI s ->
    incl (b_events (bs_batch bs)) (tab s) -> NoDup (gs (bs_batch bs)) ->
    (forall j ev, (bs_processed bs <= j)%nat -> nth_error (b_events (bs_batch bs)) j = Some ev ->
                  ~ In (pg ev) (Hd s)) ->
    FI (fst (Processor.flush fc fp lim_n lim_s fuel s bs i)).
  Proof.
    induction fuel as [|f IH]; intros s bs i Hi P F Hin Nd Fr; simpl.
    { destruct (Nat.ltb (bs_processed bs) (length (bs_results bs)) && nth i (bs_results bs) false); simpl; auto.
      apply (FI_ext s _ []); auto. }
    destruct (Nat.ltb (bs_processed bs) (length (bs_results bs)) && nth i (bs_results bs) false); auto.
    destruct (nth_error (b_events (bs_batch bs)) i) as [ev|] eqn:En; auto.
    assert (Hev : In ev (tab s)) by (apply Hin; eapply nth_error_In; eauto).
    destruct (PB_process fc fp lim_n lim_s s ev P Hev) as [P1 [T1 H1]].
    { apply (Fr i ev); [lia | exact En]. }
    pose proof (FI_process s ev P F Hev) as F1.
    destruct (process s ev) as [s1 rq]. cbn [fst] in *.
    apply IH; auto.
    - simpl. lia.
    - simpl. rewrite T1. exact Hin.
    - simpl. intros j ev' Hj En'. rewrite H1. intros [Hx|Hx].
      + assert (j = i).
        { unfold gs in Nd. eapply NoDup_nth_error with (l := map pg (b_events (bs_batch bs))); eauto.
          - apply nth_error_Some. rewrite nth_error_map, En'. discriminate.
          - rewrite !nth_error_map, En, En'. simpl. congruence. }
        lia.
      + apply (Fr j ev'); [lia | exact En' | exact Hx].
  Qed.

  Lemma handled_ok_tab_app : forall t t' l g,
    (forall g' e ok, In (PProcess g' e ok) l -> In g' (map pg t)) -> In g (map pg t) ->
    handled_ok t l g -> handled_ok (t ++ t') l g.
  Proof.
    intros t t' l g Hl Hg [a [b [E H]]]. exists a, b. split; auto.
    rewrite lam_app by exact Hg. rewrite hlN_tab_app; auto.
    intros g' e ok Hi. apply (Hl g' e ok). rewrite E. apply in_or_app; right; right; exact Hi.
  Qed.

  Lemma FI_step : forall pre x s, NoDup (all_g (pre ++ [x])) -> ALL fc fp lim_n lim_s pre s -> FI s ->
    FI (pstep_run s x).
  Proof.
    intros pre x s Nd [[Ihd Iqin Iqnd Iord] [Uarr Uun] P [Qev Qpg] St] F.
    destruct x as [b0 | bid pos | | | | ]; simpl.
    - (* SEnq *)
      unfold Processor.enqueue. destruct (quitf s || stopped s); [exact F|].
      destruct (_ || _).
      + apply (FI_ext s _ [PBusy (b_id b0)]); auto; try npp.
      + set (sm := mkPst (buf s) (pushed s) (tab s ++ b_events b0) (highest s) (held_n s + batch_num b0)
                         (held_s s + batch_size b0) (warned s) (queue s ++ [mkBs b0 [] [] (map (fun _ => false) (b_events b0)) 0 []])
                         (plog s) (stopped s) (poof s) (quitf s)).
        assert (Fm : FI sm).
        { destruct F as [F1 F2 F3 F4].
          assert (Hpp : forall g e ok, In (PProcess g e ok) (plog s) -> In g (map pg (tab s))).
          { intros g e ok Hi. apply in_split in Hi. destruct Hi as [a [b E]]. apply F4. apply (F3 a g e ok b E). }
          constructor; simpl.
          - rewrite hlN_tab_app; auto.
          - intros g Hg. apply handled_ok_tab_app; auto; try (apply F4; exact Hg).
          - intros a g e ok b H. destruct (F3 a g e ok b H) as [A B]. split; auto.
            apply handled_ok_tab_app; auto; try (apply F4; exact A).
            intros g' e' ok' Hi. apply (Hpp g' e' ok'). rewrite H. apply in_or_app; right; right; exact Hi.
          - unfold pgs. simpl. rewrite map_app. intros g Hg. apply in_or_app; left. apply F4; exact Hg. }
        apply (FI_ext sm _ [PAccepted (b_id b0)]); auto; try npp.
    - unfold arrive. destruct (stopped s); [exact F|]. apply (FI_ext s _ []); auto.
    - (* SConsume *)
      unfold Processor.consume. destruct (stopped s) eqn:Es; [exact F|].
      destruct (queue s) as [|bs rest] eqn:Q; [exact F|].
      assert (Hbs : In (SEnq (bs_batch bs)) pre) by (apply Iqin; left; auto).
      assert (Hev : incl (b_events (bs_batch bs)) (tab s)) by (apply Qev; left; auto).
      assert (Ngs : NoDup (gs (bs_batch bs))).
      { clear -Iqnd. simpl in Iqnd. eapply NoDup_app_l; eauto. }
      destruct (Nat.leb (length (b_events (bs_batch bs))) (bs_processed bs)).
      { destruct (bs_request bs) eqn:Rq.
        - apply (FI_ext s _ [PDone (b_id (bs_batch bs))]); auto; try npp.
        - apply (FI_ext s _ [PDone (b_id (bs_batch bs)); PAnnounce (b_id (bs_batch bs)) (n :: l)]); auto; try npp. }
      destruct (bs_chan bs) as [|pos ch] eqn:Ch; [exact F|].
      destruct (b_ordered (bs_batch bs)) eqn:Ord.
      + destruct (Iord (bs_batch bs) Hbs Ord) as [A _]. specialize (A bs (or_introl eq_refl) eq_refl).
        match goal with |- context [Processor.flush ?a ?b ?c ?d ?f ?s0 ?bs0 ?i] =>
          pose proof (FIPB_flush f s0 bs0 i eq_refl P F) as F2;
          destruct (Processor.flush a b c d f s0 bs0 i) as [s1 bs1] end.
        cbn [fst] in F2. simpl bs_batch in F2. simpl bs_processed in F2.
        apply (FI_ext s1 _ []); auto. apply F2; auto.
        intros j ev Hj En Hin.
        assert (Hf : In (pg ev) (filt (bs_batch bs) (Hd s))).
        { unfold filt. apply filter_In. split; auto. apply memN_In. unfold gs. apply in_map. eapply nth_error_In; eauto. }
        rewrite A in Hf. apply in_rev in Hf. apply In_nth_error in Hf. destruct Hf as [k Hk].
        assert (Lk : (k < bs_processed bs)%nat).
        { assert (k < length (firstn (bs_processed bs) (gs (bs_batch bs))))%nat by (apply nth_error_Some; congruence).
          rewrite firstn_length in H. lia. }
        rewrite nth_error_firstn_lt in Hk by exact Lk.
        assert (j = k); [|lia].
        eapply NoDup_nth_error with (l := gs (bs_batch bs)); eauto.
        * apply nth_error_Some. unfold gs. rewrite nth_error_map, En. discriminate.
        * unfold gs in *. rewrite nth_error_map, En. simpl. rewrite Hk. reflexivity.
      + destruct (nth_error (b_events (bs_batch bs)) pos) as [ev|] eqn:En; [|apply (FI_ext s _ []); auto].
        pose proof (FI_process s ev P F) as F2.
        destruct (process s ev) as [s1 rq]. cbn [fst] in F2.
        apply (FI_ext s1 _ []); auto. apply F2. apply Hev. eapply nth_error_In; eauto.
    - (* SStop *)
      unfold Processor.stop. destruct (stopped s); [exact F|].
      set (s0 := match queue s with bs :: _ => if quitf s then s else pemit s (PAborted (b_id (bs_batch bs))) | [] => s end).
      assert (F0 : FI s0 /\ buf s0 = buf s /\ pushed s0 = pushed s).
      { unfold s0. destruct (queue s); [auto|]. destruct (quitf s); [auto|]. split; [|auto].
        apply (FI_ext s _ [PAborted (b_id (bs_batch b))]); auto; try npp. }
      destruct F0 as [F0 [B0 Pu0]].
      destruct P as [[ops [Eb Elen]] _ _ _ _ _].
      set (b1 := clear_buf (buf s0)).
      set (s1 := set_buf s0 b1 (pushed s0)).
      assert (F1 : FI s1) by (apply (FI_ext s0 _ []); auto).
      assert (R1 : RunInv lim_n lim_s (copies_of ops) b1).
      { unfold b1. rewrite B0, Eb. apply clear_buf_ok. apply run_inv. }
      assert (F2 : FI (fold_left apply_out (delta (log (buf s0)) (log b1)) s1)).
      { apply FI_fold; auto. intros c Hc. change (pushed s1) with (pushed s0). rewrite Pu0, Elen.
        apply (proc_cid_valid _ b1 c R1).
        unfold delta in Hc. unfold proc_cids in *. apply in_flat_map in Hc. destruct Hc as [o [Ho Hc]].
        apply in_flat_map. exists o. split; [|exact Hc]. apply in_rev in Ho. eapply firstn_In. exact Ho. }
      match goal with |- FI (pemit ?sx PStopped) => apply (FI_ext (fold_left apply_out (delta (log (buf s0)) (log b1)) s1) _ [PStopped]); auto end;
      try npp.
    - unfold quit. destruct (stopped s); [exact F|]. apply (FI_ext s _ []); auto.
    - unfold abort. destruct (stopped s || negb (quitf s)); [exact F|]. destruct (queue s); [exact F|].
      apply (FI_ext s _ [PAborted (b_id (bs_batch b))]); auto; try npp.
  Qed.

  Lemma FI_run : forall steps, NoDup (all_g steps) -> FI (prun h0 steps).
  Proof.
    intros steps. induction steps as [|x steps IH] using rev_ind; intros Nd.
    - constructor; simpl; auto.
      + intros g [].
      + intros a g e ok b H. destruct a; discriminate.
      + intros g [].
    - assert (Nd0 : NoDup (all_g steps)).
      { unfold all_g in *. rewrite flat_map_app in Nd. eapply NoDup_app_l; eauto. }
      rewrite (prun_snoc fc fp cap_n cap_s lim_n lim_s).
      eapply FI_step; eauto. apply ALL_run; auto.
  Qed.

  (* highest known Lamport time according to a history prefix (oldest first) *)
  Definition hl_of (t : list pevent) (pre : list pout) : N := hlN t h0 (rev pre).

  Theorem far_future : forall steps, NoDup (all_g steps) ->
    let s := prun h0 steps in
    forall pre g e ok post, phist fc fp cap_n cap_s lim_n lim_s h0 steps = pre ++ PProcess g e ok :: post ->
      exists pre1 pre2, pre = pre1 ++ PHandle g :: pre2
                        /\ lam (tab s) g <= hl_of (tab s) pre1 + 1 + lim_n.
  Proof.
    intros steps Nd. cbv zeta. intros pre g e ok post H.
    destruct (FI_run steps Nd) as [_ _ F3 _]. unfold phist in H.
    assert (E : plog (prun h0 steps) = rev post ++ PProcess g e ok :: rev pre).
    { rewrite <- (rev_involutive (plog (prun h0 steps))), H, rev_app_distr. simpl. rewrite <- app_assoc. reflexivity. }
    destruct (F3 _ _ _ _ _ E) as [_ [a [b [Eb Hp]]]].
    exists (rev b), (rev a). split.
    - rewrite <- (rev_involutive pre), Eb, rev_app_distr. simpl. rewrite <- app_assoc. reflexivity.
    - unfold hl_of. rewrite rev_involutive. exact Hp.
  Qed.
End F.
