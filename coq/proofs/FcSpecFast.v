(* The table-driven evaluation of the graph specification (spec/FcSpec.v: fc_spec_row,
   merged_spec_t — what the check driver runs) equals the plain definitions fc_spec / merged_spec,
   unconditionally. *)
From Coq Require Import List Arith NArith Bool Lia.
From LV Require Import model.VecIndex spec.FcSpec.
Import ListNotations.
Open Scope N_scope.

Lemma alookup_map_key {A B} (f : N -> B) (E : list (N * A)) x :
  alookup x (map (fun p => (fst p, f (fst p))) E) =
  match alookup x E with Some _ => Some (f x) | None => None end.
Proof.
  induction E as [|[k v] E IH]; cbn [map alookup fst]; [reflexivity|].
  destruct (N.eqb_spec x k) as [->|Hne]; [reflexivity|exact IH].
Qed.

Lemma anc_absent E x : alookup x E = None -> anc E x = [].
Proof.
  intros H. unfold anc. cbn [anc_list existsb]. rewrite H.
  destruct (total_parents E); reflexivity.
Qed.

Lemma anc_of_table E x : anc_of (anc_table E) x = anc E x.
Proof.
  unfold anc_of, anc_table. rewrite (alookup_map_key (anc E) E x).
  destruct (alookup x E) eqn:H; [reflexivity|]. symmetry; apply anc_absent; exact H.
Qed.

Lemma existsb_flat_map {A B} (f : B -> bool) (g : A -> list B) l :
  existsb f (flat_map g l) = existsb (fun x => existsb f (g x)) l.
Proof.
  induction l as [|a l IH]; cbn [flat_map existsb]; [reflexivity|].
  rewrite existsb_app, IH. reflexivity.
Qed.

Lemma existsb_false {A} (l : list A) : existsb (fun _ => false) l = false.
Proof. induction l; cbn; auto. Qed.

Lemma existsb_ext' {A} (f g : A -> bool) l : (forall x, f x = g x) -> existsb f l = existsb g l.
Proof. intros H; induction l as [|a l IH]; cbn; [reflexivity|]. rewrite H, IH; reflexivity. Qed.

Lemma fold_left_flat_map {A B C} (f : C -> B -> C) (g : A -> list B) l c :
  fold_left f (flat_map g l) c = fold_left (fun c x => fold_left f (g x) c) l c.
Proof.
  revert c; induction l as [|a l IH]; intros c; cbn [flat_map fold_left]; [reflexivity|].
  rewrite fold_left_app, IH. reflexivity.
Qed.

Lemma sees_fork_res_eq E A v : sees_fork_res (resolve E A) v = sees_fork E A v.
Proof.
  unfold sees_fork_res, sees_fork, resolve.
  rewrite existsb_flat_map. apply existsb_ext'; intros x.
  destruct (alookup x E) as [ex|] eqn:Hx.
  - cbn [existsb]. rewrite orb_false_r. rewrite existsb_flat_map.
    apply existsb_ext'; intros y.
    destruct (alookup y E) as [ey|] eqn:Hy; cbn [existsb fst snd].
    + rewrite orb_false_r. reflexivity.
    + rewrite andb_false_r. reflexivity.
  - cbn [existsb]. symmetry.
    rewrite (existsb_ext' _ (fun _ => false)); [apply existsb_false|].
    intros y. apply andb_false_r.
Qed.

Lemma nth_map_seq {B} (f : nat -> B) n v d : (v < n)%nat -> nth v (map f (List.seq 0 n)) d = f v.
Proof.
  intros H. rewrite (nth_indep _ d (f 0%nat)) by (rewrite map_length, seq_length; exact H).
  rewrite map_nth. rewrite seq_nth by exact H. reflexivity.
Qed.

Theorem fc_spec_row_eq ws q n E a bs :
  fc_spec_row ws q n E (anc_table E) a bs = map (fc_spec ws q n E a) bs.
Proof.
  unfold fc_spec_row. apply map_ext; intros b. unfold fc_spec.
  rewrite anc_of_table.
  destruct (alookup b E) as [eb|]; [|reflexivity].
  rewrite sees_fork_res_eq. f_equal. f_equal. f_equal.
  apply map_ext_in; intros v Hv. apply in_seq in Hv.
  rewrite nth_map_seq by lia. rewrite sees_fork_res_eq. f_equal.
  unfold resolve. rewrite existsb_flat_map. apply existsb_ext'; intros x.
  destruct (alookup x E) as [ex|]; cbn [existsb fst snd]; [|reflexivity].
  rewrite orb_false_r, anc_of_table. reflexivity.
Qed.

Theorem merged_spec_t_eq n E a : merged_spec_t n E (anc_table E) a = merged_spec n E a.
Proof.
  unfold merged_spec_t, merged_spec. rewrite anc_of_table.
  apply map_ext; intros v. rewrite sees_fork_res_eq.
  destruct (sees_fork E (anc E a) v); [reflexivity|]. f_equal.
  unfold resolve. rewrite fold_left_flat_map.
  generalize 0 as m. induction (anc E a) as [|x l IH]; intros m; cbn [fold_left]; [reflexivity|].
  rewrite <- IH. destruct (alookup x E) as [ex|]; cbn [fold_left fst snd]; reflexivity.
Qed.
