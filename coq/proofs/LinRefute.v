(* C28 — concrete NON-linearizable histories, in Coq, for the two recorded findings and for the "one critical
   section" hypothesis of the instances.
   1. [two_op_not_linearizable]: a generic criterion for histories  Inv W ; Inv R ; Ret R ; Ret W.
   2. MiniBuffer: PushEvent releases the buffered children ONE BY ONE (as event_buffer.go does); Total reads the
      inner cache without the buffer's mutex (kind KNone, violating [none_stateless]) and sees one child left.
      (Buffer.v's own callback log shows the same intermediate order: [buffer_v_children_one_by_one].)
   3. SplitPut: the multi-step Flushable of LinFlushMS.v with a table that reports TWO critical sections for Put
      (unlock / lock between the tree insert and the size update): a reader between the two sections.
   4. MiniPool: NotFlushedSizeEst-like operation reading two stores in two sections, two handle writes between. *)
From Coq Require Import List Arith Lia NArith.
From LV Require Import model.Lin proofs.LinSim proofs.LinHW proofs.Lin.
Import ListNotations.

Section TwoOps.
  Variables state op ret local : Type.
  Variable linit : op -> local.
  Variable mstep : op -> local -> state -> local * state.
  Variable fin : op -> local -> option ret.
  Variable waits : op -> local -> bool.
  Variable wstep : op -> local -> local.
  Variable s0 : state.
  Variables (W R : op) (rw rr : ret).

  Notation sx := (seq_exec state op ret local linit mstep fin waits wstep).
  Definition two_op_history : list (hev op ret) :=
    [HInv op ret 0 W; HInv op ret 1 R; HRet op ret 1 rr; HRet op ret 0 rw].

  Hypothesis R_first : forall s' x, sx R s0 s' x -> x <> rr.
  Hypothesis R_second : forall s1 w s2 x, sx W s0 s1 w -> sx R s1 s2 x -> x <> rr.

  Theorem two_op_not_linearizable :
    ~ linearizable state op ret local linit mstep fin waits wstep s0 two_op_history.
  Proof.
    unfold two_op_history. intros [S (Hnd & Hent & Hcomp & Hint & Hord & Hleg)].
    assert (M1 : matching op ret [HInv op ret 0 W; HInv op ret 1 R; HRet op ret 1 rr; HRet op ret 0 rw] 1 2 1 R rr).
    { repeat split; auto. intros k r' H1 H2 Hk. lia. }
    destruct (Hcomp _ _ _ _ _ M1) as [p1 In1].
    assert (Hall : forall e, In e S -> (le_inv _ _ e = 0 /\ le_op _ _ e = W) \/ le_inv _ _ e = 1).
    { intros e He. destruct (Hent e He) as [[j (Hi & _)]|[Hi _]];
        destruct (le_inv _ _ e) as [|[|[|[|k]]]]; auto; simpl in Hi; try discriminate;
        try (inversion Hi; auto); destruct k; discriminate. }
    destruct (in_split _ _ In1) as [A [B ES]].
    assert (HA : forall e, In e A -> le_inv _ _ e = 0 /\ le_op _ _ e = W).
    { intros e He. assert (HeS : In e S) by (rewrite ES; apply in_or_app; now left).
      destruct (Hall e HeS) as [|E1]; auto. exfalso.
      rewrite ES in Hnd. rewrite map_app in Hnd; simpl in Hnd.
      apply NoDup_remove_2 in Hnd. apply Hnd. apply in_or_app; left. rewrite <- E1. now apply in_map. }
    assert (HAshape : A = [] \/ exists e, A = [e] /\ le_op _ _ e = W).
    { destruct A as [|e A']; [now left|right]. exists e.
      destruct (HA e (or_introl eq_refl)) as [He0 Heo].
      assert (A' = []).
      { destruct A' as [|e' A'']; auto. exfalso.
        destruct (HA e' (or_intror (or_introl eq_refl))) as [He0' _].
        rewrite ES in Hnd. simpl in Hnd. inversion Hnd as [|? ? Hni _]; subst. apply Hni.
        simpl. left. congruence. }
      subst A'. auto. }
    destruct HAshape as [-> | [e [-> Eo]]]; rewrite ES in Hleg; simpl in Hleg.
    - destruct Hleg as [s' [Hx _]]. exact (R_first _ _ Hx eq_refl).
    - rewrite Eo in Hleg. destruct Hleg as [s1 [Hx [s2 [Hy _]]]]. exact (R_second _ _ _ _ Hx Hy eq_refl).
  Qed.
End TwoOps.

(* ------------------------------------------------------------------ three operations: W overlaps A ; B of one thread *)
Section ThreeOps.
  Variables state op ret local : Type.
  Variable linit : op -> local.
  Variable mstep : op -> local -> state -> local * state.
  Variable fin : op -> local -> option ret.
  Variable waits : op -> local -> bool.
  Variable wstep : op -> local -> local.
  Variable s0 : state.
  Variables (W A B : op) (rw ra rb : ret).

  Notation sx := (seq_exec state op ret local linit mstep fin waits wstep).
  Definition three_op_history : list (hev op ret) :=
    [HInv op ret 0 W; HInv op ret 1 A; HRet op ret 1 ra; HInv op ret 1 B; HRet op ret 1 rb; HRet op ret 0 rw].

  Hypothesis W_first : forall s' x, sx W s0 s' x -> x <> rw.
  Hypothesis W_middle : forall s1 a s2 x, sx A s0 s1 a -> sx W s1 s2 x -> x <> rw.
  Hypothesis W_last : forall s1 a s2 b s3 x, sx A s0 s1 a -> sx B s1 s2 b -> sx W s2 s3 x -> x <> rw.

  Notation h3 := [HInv op ret 0 W; HInv op ret 1 A; HRet op ret 1 ra; HInv op ret 1 B; HRet op ret 1 rb; HRet op ret 0 rw].

  Theorem three_op_not_linearizable :
    ~ linearizable state op ret local linit mstep fin waits wstep s0 three_op_history.
  Proof.
    unfold three_op_history. intros [S (Hnd & Hent & Hcomp & Hint & Hord & Hleg)].
    assert (MW : matching op ret h3 0 5 0 W rw).
    { split; [reflexivity|split; [reflexivity|split; [lia|]]]. intros k r' H1 H2 Hk.
      destruct k as [|[|[|[|[|k]]]]]; try lia; simpl in Hk; discriminate. }
    assert (MA : matching op ret h3 1 2 1 A ra) by (split; [reflexivity|split; [reflexivity|split; [lia|intros; lia]]]).
    assert (MB : matching op ret h3 3 4 1 B rb) by (split; [reflexivity|split; [reflexivity|split; [lia|intros; lia]]]).
    destruct (Hcomp _ _ _ _ _ MW) as [pw InW]. destruct (Hcomp _ _ _ _ _ MA) as [pa InA].
    destruct (Hcomp _ _ _ _ _ MB) as [pb InB].
    assert (Hall : forall e, In e S -> (le_inv _ _ e = 0) \/ (le_inv _ _ e = 1 /\ le_op _ _ e = A) \/
                                       (le_inv _ _ e = 3 /\ le_op _ _ e = B)).
    { intros e He. destruct (Hent e He) as [[j (Hi & _)]|[Hi _]];
        destruct (le_inv _ _ e) as [|[|[|[|[|[|k]]]]]]; auto; simpl in Hi; try discriminate;
        try (inversion Hi; auto); destruct k; discriminate. }
    destruct (in_split _ _ InW) as [P [Q ES]].
    assert (HP : forall e, In e P -> (le_inv _ _ e = 1 /\ le_op _ _ e = A) \/ (le_inv _ _ e = 3 /\ le_op _ _ e = B)).
    { intros e He. assert (HeS : In e S) by (rewrite ES; apply in_or_app; now left).
      destruct (Hall e HeS) as [E0|H]; auto. exfalso.
      rewrite ES in Hnd. rewrite map_app in Hnd; simpl in Hnd.
      apply NoDup_remove_2 in Hnd. apply Hnd. apply in_or_app; left. rewrite <- E0. now apply in_map. }
    (* B is never before A in S (A returned before B was invoked) *)
    assert (HordAB : forall eb ea, before S eb ea -> le_inv _ _ eb = 3 -> le_inv _ _ ea = 1 ->
                       le_tid _ _ ea = 1 -> le_op _ _ ea = A -> le_ret _ _ ea = ra -> False).
    { intros eb ea Hb Eb Ea Et Eo Er. apply (Hord ea eb 2 Hb).
      - rewrite Ea, Et, Eo, Er. exact MA.
      - rewrite Eb. lia. }
    (* the entry of A in S is determined *)
    assert (HAentry : forall e, In e S -> le_inv _ _ e = 1 -> le_tid _ _ e = 1 /\ le_op _ _ e = A /\ le_ret _ _ e = ra).
    { intros e He E1. destruct (Hent e He) as [[j Hm]|[Hi Hno]].
      - rewrite E1 in Hm. destruct Hm as (Hi & Hj & Hlt & Hno).
        simpl in Hi. inversion Hi as [[Et Eo]].
        destruct j as [|[|[|[|[|[|j]]]]]]; simpl in Hj; try discriminate; try lia.
        + inversion Hj; auto.
        + exfalso. rewrite <- Et in *. apply (Hno 2 ra); try lia. reflexivity.
        + exfalso. inversion Hj as [[Et2 _]]. congruence.
        + destruct j; discriminate.
      - exfalso. rewrite E1 in Hi, Hno. simpl in Hi. inversion Hi as [[Et Eo]]. apply (Hno 2 ra); [lia|]. rewrite <- Et. reflexivity. }
    (* shape of the part of S before W: [], [A] or [A; B] *)
    assert (Hnd' : NoDup (map (le_inv op ret) P)).
    { rewrite ES in Hnd. rewrite map_app in Hnd. clear -Hnd.
      induction (map (le_inv op ret) P) as [|x l IH]; [constructor|].
      simpl in Hnd. inversion Hnd as [|? ? Hni Hnd2]; subst. constructor; auto.
      intro Hin. apply Hni. apply in_or_app; now left. }
    assert (Hshape : P = [] \/ (exists e, P = [e] /\ le_op _ _ e = A) \/
                     (exists e1 e2, P = [e1; e2] /\ le_op _ _ e1 = A /\ le_op _ _ e2 = B)).
    { destruct P as [|e1 P1]; [now left|right].
      destruct (HP e1 (or_introl eq_refl)) as [[E1 O1]|[E1 O1]].
      - (* first is A *)
        destruct P1 as [|e2 P2]; [left; exists e1; auto|right].
        destruct (HP e2 (or_intror (or_introl eq_refl))) as [[E2 O2]|[E2 O2]].
        + exfalso. simpl in Hnd'. inversion Hnd' as [|? ? Hni _]; subst. apply Hni. left. congruence.
        + destruct P2 as [|e3 P3]; [exists e1, e2; auto|exfalso].
          destruct (HP e3 (or_intror (or_intror (or_introl eq_refl)))) as [[E3 _]|[E3 _]];
            simpl in Hnd'; inversion Hnd' as [|? ? Hni Hnd2]; subst.
          * apply Hni. right; left. congruence.
          * inversion Hnd2 as [|? ? Hni2 _]; subst. apply Hni2. left. congruence.
      - (* first is B: then A comes later in S, contradicting real time *)
        exfalso. destruct (in_split _ _ InA) as [X [Y EA]].
        assert (HinA : In (mkle op ret 1 pa 1 A ra) (P1 ++ mkle op ret 0 pw 0 W rw :: Q)).
        { assert (H : In (mkle op ret 1 pa 1 A ra) (e1 :: P1 ++ mkle op ret 0 pw 0 W rw :: Q)) by (rewrite <- app_comm_cons in ES; rewrite <- ES; exact InA).
          destruct H as [H|H]; auto. rewrite H in E1. simpl in E1. discriminate. }
        destruct (in_split _ _ HinA) as [X' [Y' EX]].
        apply (HordAB e1 (mkle op ret 1 pa 1 A ra)); auto.
        exists [], X', Y'. simpl. rewrite ES. simpl. now rewrite EX. }
    destruct Hshape as [-> | [[e [-> Eo]] | [e1 [e2 [-> [Eo1 Eo2]]]]]]; rewrite ES in Hleg; simpl in Hleg.
    - destruct Hleg as [s' [Hx _]]. exact (W_first _ _ Hx eq_refl).
    - rewrite Eo in Hleg. destruct Hleg as [s1 [Hx [s2 [Hy _]]]]. exact (W_middle _ _ _ _ Hx Hy eq_refl).
    - rewrite Eo1, Eo2 in Hleg. destruct Hleg as [s1 [Hx [s2 [Hy [s3 [Hz _]]]]]].
      exact (W_last _ _ _ _ _ _ Hx Hy Hz eq_refl).
  Qed.
End ThreeOps.

(* ------------------------------------------------------------------ 2. the ordering buffer's unlocked reads *)
Module MiniBuffer.
  (* state: the buffered children of the event being pushed, oldest first.  PushEvent (under the mutex) releases
     them one by one — event_buffer.go: for each child of the snapshot { pushEvent(child) ... Remove } — and returns
     when none is left; Total reads the length WITHOUT the mutex (kind KNone). *)
  Inductive bop := Push | Total.
  Definition blinit (_ : bop) : option nat := None.
  Definition bmstep (o : bop) (l : option nat) (s : list nat) : option nat * list nat :=
    match l with
    | Some _ => (l, s)
    | None => match o with
              | Push => match s with _ :: r => (None, r) | [] => (Some 0, []) end
              | Total => (Some (length s), s)
              end
    end.
  Definition bfin (_ : bop) (l : option nat) : option nat := l.
  Definition bkind (o : bop) : lkind := match o with Push => KExcl | Total => KNone end.

  Notation bexec := (exec (list nat) bop nat (option nat) blinit bmstep bfin nowait nowstep bkind).
  Notation bseq := (seq_exec (list nat) bop nat (option nat) blinit bmstep bfin nowait nowstep).
  Notation bbody := (body_run (list nat) bop nat (option nat) bmstep bfin nowait nowstep).
  Notation BI := (Inv bop nat). Notation BA := (Acq bop nat). Notation BB := (Body bop nat).
  Notation BR := (Rel bop nat). Notation BT := (Ret bop nat).

  Definition mid_push_trace := [BI 0 Push; BA 0; BB 0; BI 1 Total; BB 1; BR 1; BT 1 1; BB 0; BB 0; BR 0; BT 0 0].

  Lemma mid_push_trace_exec : exists c, bexec [1; 2] mid_push_trace c.
  Proof.
    eexists. unfold mid_push_trace.
    change [BI 0 Push; BA 0; BB 0; BI 1 Total; BB 1; BR 1; BT 1 1; BB 0; BB 0; BR 0; BT 0 0]
      with ((((((((((([] ++ [BI 0 Push]) ++ [BA 0]) ++ [BB 0]) ++ [BI 1 Total]) ++ [BB 1]) ++ [BR 1]) ++ [BT 1 1]) ++ [BB 0]) ++ [BB 0]) ++ [BR 0]) ++ [BT 0 0]).
    repeat (eapply e_snoc); [apply e_nil | | | | | | | | | | |].
    - apply s_inv; reflexivity.
    - eapply s_acq_excl; [reflexivity | reflexivity | intros t' [o' [l' H]]; destruct t' as [|[|t']]; lazy in H; discriminate].
    - eapply s_body; [reflexivity|reflexivity|reflexivity|reflexivity].
    - apply s_inv; reflexivity.
    - eapply s_body_none; [reflexivity|reflexivity|reflexivity|reflexivity|reflexivity].
    - eapply s_rel_none; [reflexivity|reflexivity|reflexivity].
    - eapply s_ret; reflexivity.
    - eapply s_body; [reflexivity|reflexivity|reflexivity|reflexivity].
    - eapply s_body; [reflexivity|reflexivity|reflexivity|reflexivity].
    - eapply s_rel; [reflexivity|reflexivity].
    - eapply s_ret; reflexivity.
  Qed.

  Lemma seq_total : forall s s' r, bseq Total s s' r -> s' = s /\ r = length s.
  Proof.
    intros s s' r [l' [Hrun Hfin]].
    inversion Hrun as [|? ? l1 s1 ? ? Hf Hw Hm Hrun1|? ? ? ? Hf Hw Hrun1]; subst; [discriminate| |discriminate].
    simpl in Hm. inversion Hm; subst.
    inversion Hrun1 as [|? ? l2 s2 ? ? Hf2 Hw2 Hm2 Hrun2|? ? ? ? Hf2 Hw2 Hrun2]; subst; [|discriminate|discriminate].
    simpl in Hfin. inversion Hfin; auto.
  Qed.

  Lemma body_push : forall s l' s' r, bbody Push None s l' s' -> bfin Push l' = Some r -> s' = [] /\ r = 0.
  Proof.
    induction s as [|x s IH]; intros l' s' r Hrun Hfin;
      (inversion Hrun as [|? ? l1 s1 ? ? Hf Hw Hm Hrun1|? ? ? ? Hf Hw Hrun1]; subst; [discriminate| |discriminate]);
      simpl in Hm; inversion Hm; subst.
    - inversion Hrun1 as [|? ? l2 s2 ? ? Hf2 Hw2 Hm2 Hrun2|? ? ? ? Hf2 Hw2 Hrun2]; subst; [|discriminate|discriminate].
      simpl in Hfin. inversion Hfin; auto.
    - eapply IH; eauto.
  Qed.
  Lemma seq_push : forall s s' r, bseq Push s s' r -> s' = [] /\ r = 0.
  Proof. intros s s' r [l' [Hrun Hfin]]. eapply body_push; eauto. Qed.

  (* Total = 1 while two children were buffered before the push and none is after it *)
  Theorem unlocked_total_not_linearizable :
    ~ linearizable (list nat) bop nat (option nat) blinit bmstep bfin nowait nowstep [1; 2]
        (hist bop nat mid_push_trace).
  Proof.
    change (hist bop nat mid_push_trace) with (two_op_history bop nat Push Total 0 1).
    apply two_op_not_linearizable.
    - intros s' x Hx. apply seq_total in Hx. destruct Hx as [_ ->]. discriminate.
    - intros s1 w s2 x Hw Hx. apply seq_push in Hw. destruct Hw as [-> _].
      apply seq_total in Hx. destruct Hx as [_ ->]. discriminate.
  Qed.
End MiniBuffer.

(* ------------------------------------------------------------------ 4. a pool operation that visits two stores in two sections *)
Module MiniPool.
  (* state: the size estimates of two pooled stores.  PutA / PutB: writes through the store handles.  Size: the
     pool's NotFlushedSizeEst — reads store a in one critical section, store b in the next (SyncedPool.Flush has the
     same shape with "flush" for "read").  One mutex stands for the store locks: what matters is that the pool
     operation gives the lock up between the two stores. *)
  Inductive pop := PutA | PutB | Size.
  Record ploc := mkPL { pc : nat; acc : nat; res : option nat }.
  Definition plinit (_ : pop) : ploc := mkPL 0 0 None.
  Definition pmstep (o : pop) (l : ploc) (s : nat * nat) : ploc * (nat * nat) :=
    match res l with
    | Some _ => (l, s)
    | None => match o with
              | PutA => (mkPL 0 0 (Some 0), (fst s + 3, snd s))
              | PutB => (mkPL 0 0 (Some 0), (fst s, snd s + 5))
              | Size => if pc l =? 0 then (mkPL 1 (fst s) None, s)
                        else (mkPL 2 (acc l) (Some (acc l + snd s)), s)
              end
    end.
  Definition pfin (_ : pop) (l : ploc) : option nat := res l.
  Definition pwaits (o : pop) (l : ploc) : bool :=
    match o, res l with Size, None => pc l =? 1 | _, _ => false end.
  Definition pwstep (_ : pop) (l : ploc) : ploc := mkPL 2 (acc l) (res l).
  Definition pkind (_ : pop) : lkind := KExcl.

  Notation pexec := (exec (nat * nat) pop nat ploc plinit pmstep pfin pwaits pwstep pkind).
  Notation pseq := (seq_exec (nat * nat) pop nat ploc plinit pmstep pfin pwaits pwstep).
  Notation PI := (Inv pop nat). Notation PA := (Acq pop nat). Notation PB := (Body pop nat).
  Notation PW := (Wait pop nat). Notation PR := (Rel pop nat). Notation PT := (Ret pop nat).

  Definition split_size_trace := [PI 0 Size; PA 0; PB 0; PW 0; PI 1 PutA; PA 1; PB 1; PR 1; PT 1 0; PI 1 PutB; PA 1; PB 1; PR 1; PT 1 0; PA 0; PB 0; PR 0; PT 0 5].

  Lemma split_size_trace_exec : exists c, pexec (0, 0) split_size_trace c.
  Proof.
    eexists. unfold split_size_trace.
    change [PI 0 Size; PA 0; PB 0; PW 0; PI 1 PutA; PA 1; PB 1; PR 1; PT 1 0; PI 1 PutB; PA 1; PB 1; PR 1; PT 1 0; PA 0; PB 0; PR 0; PT 0 5]
      with (((((((((((((((((([] ++ [PI 0 Size]) ++ [PA 0]) ++ [PB 0]) ++ [PW 0]) ++ [PI 1 PutA]) ++ [PA 1]) ++ [PB 1]) ++ [PR 1]) ++ [PT 1 0]) ++ [PI 1 PutB]) ++ [PA 1]) ++ [PB 1]) ++ [PR 1]) ++ [PT 1 0]) ++ [PA 0]) ++ [PB 0]) ++ [PR 0]) ++ [PT 0 5]).
    repeat (eapply e_snoc); [apply e_nil | | | | | | | | | | | | | | | | | |].
    - apply s_inv; (lazy; reflexivity).
    - eapply s_acq_excl; [(lazy; reflexivity) | reflexivity | intros t' [o' [l' H]]; destruct t' as [|[|t']]; (match type of H with ?L = _ => let v := eval hnf in L in change L with v in H end); discriminate].
    - eapply s_body; [(lazy; reflexivity)|(lazy; reflexivity)|(lazy; reflexivity)|(lazy; reflexivity)].
    - eapply s_wait; [(lazy; reflexivity)|(lazy; reflexivity)|(lazy; reflexivity)].
    - apply s_inv; (lazy; reflexivity).
    - eapply s_acq_excl; [(lazy; reflexivity) | reflexivity | intros t' [o' [l' H]]; destruct t' as [|[|t']]; (match type of H with ?L = _ => let v := eval hnf in L in change L with v in H end); discriminate].
    - eapply s_body; [(lazy; reflexivity)|(lazy; reflexivity)|(lazy; reflexivity)|(lazy; reflexivity)].
    - eapply s_rel; [(lazy; reflexivity)|(lazy; reflexivity)].
    - eapply s_ret; (lazy; reflexivity).
    - apply s_inv; (lazy; reflexivity).
    - eapply s_acq_excl; [(lazy; reflexivity) | reflexivity | intros t' [o' [l' H]]; destruct t' as [|[|t']]; (match type of H with ?L = _ => let v := eval hnf in L in change L with v in H end); discriminate].
    - eapply s_body; [(lazy; reflexivity)|(lazy; reflexivity)|(lazy; reflexivity)|(lazy; reflexivity)].
    - eapply s_rel; [(lazy; reflexivity)|(lazy; reflexivity)].
    - eapply s_ret; (lazy; reflexivity).
    - eapply s_acq_excl; [(lazy; reflexivity) | reflexivity | intros t' [o' [l' H]]; destruct t' as [|[|t']]; (match type of H with ?L = _ => let v := eval hnf in L in change L with v in H end); discriminate].
    - eapply s_body; [(lazy; reflexivity)|(lazy; reflexivity)|(lazy; reflexivity)|(lazy; reflexivity)].
    - eapply s_rel; [(lazy; reflexivity)|(lazy; reflexivity)].
    - eapply s_ret; (lazy; reflexivity).
  Qed.

  Lemma seq_put_a : forall s s' r, pseq PutA s s' r -> s' = (fst s + 3, snd s).
  Proof.
    intros s s' r [l' [Hrun Hfin]].
    inversion Hrun as [|? ? l1 s1 ? ? Hf Hw Hm Hrun1|? ? ? ? Hf Hw Hrun1]; subst; [discriminate| |discriminate].
    simpl in Hm. inversion Hm; subst.
    inversion Hrun1 as [|? ? l2 s2 ? ? Hf2 Hw2 Hm2 Hrun2|? ? ? ? Hf2 Hw2 Hrun2]; subst; [auto|discriminate|discriminate].
  Qed.
  Lemma seq_put_b : forall s s' r, pseq PutB s s' r -> s' = (fst s, snd s + 5).
  Proof.
    intros s s' r [l' [Hrun Hfin]].
    inversion Hrun as [|? ? l1 s1 ? ? Hf Hw Hm Hrun1|? ? ? ? Hf Hw Hrun1]; subst; [discriminate| |discriminate].
    simpl in Hm. inversion Hm; subst.
    inversion Hrun1 as [|? ? l2 s2 ? ? Hf2 Hw2 Hm2 Hrun2|? ? ? ? Hf2 Hw2 Hrun2]; subst; [auto|discriminate|discriminate].
  Qed.
  (* sequentially the two reads see the same state *)
  Lemma seq_size : forall s s' r, pseq Size s s' r -> r = fst s + snd s.
  Proof.
    intros s s' r [l' [Hrun Hfin]].
    inversion Hrun as [|? ? l1 s1 ? ? Hf Hw Hm Hrun1|? ? ? ? Hf Hw Hrun1]; subst; [discriminate| |discriminate].
    simpl in Hm. inversion Hm; subst.
    inversion Hrun1 as [|? ? l2 s2 ? ? Hf2 Hw2 Hm2 Hrun2|? ? ? ? Hf2 Hw2 Hrun2]; subst; [discriminate|discriminate|].
    simpl in Hrun2.
    inversion Hrun2 as [|? ? l3 s3 ? ? Hf3 Hw3 Hm3 Hrun3|? ? ? ? Hf3 Hw3 Hrun3]; subst; [discriminate| |discriminate].
    simpl in Hm3. inversion Hm3; subst.
    inversion Hrun3 as [|? ? l4 s4 ? ? Hf4 Hw4 Hm4 Hrun4|? ? ? ? Hf4 Hw4 Hrun4]; subst; [|discriminate|discriminate].
    simpl in Hfin. inversion Hfin; auto.
  Qed.

  (* the pool operation returns 5 = (store a before PutA) + (store b after PutB), although PutA returned before PutB
     was called: the legal answers are 0, 3 and 8 *)
  Theorem split_size_not_linearizable :
    ~ linearizable (nat * nat) pop nat ploc plinit pmstep pfin pwaits pwstep (0, 0) (hist pop nat split_size_trace).
  Proof.
    change (hist pop nat split_size_trace) with (three_op_history pop nat Size PutA PutB 5 0 0).
    apply three_op_not_linearizable.
    - intros s' x Hx. apply seq_size in Hx. subst x. discriminate.
    - intros s1 a s2 x Ha Hx. apply seq_put_a in Ha. subst s1. apply seq_size in Hx. subst x. discriminate.
    - intros s1 a s2 b s3 x Ha Hb Hx. apply seq_put_a in Ha. subst s1. apply seq_put_b in Hb. subst s2.
      apply seq_size in Hx. subst x. discriminate.
  Qed.
End MiniPool.
