(* C04, model level: the forkless-cause cache is transparent for an event id whose cached
   answers are coherent; calcFrameIdx is then a pure function of (validators, index, roots);
   Process rejects with ErrWrongFrame exactly when the claimed frame differs from it; the claimed
   frame passes exactly when it is allowed by the frame rule over the index' forkless cause. *)
From Coq Require Import NArith ZArith List Lia Bool ZifyBool ZifyN ZifyNat.
From LV Require Import model.VecIndex model.Abft.
Import ListNotations.
Local Open Scope N_scope.

(* ---------- the LRU as a map ---------- *)
Lemma pair_eqb_eq x y : pair_eqb x y = true <-> x = y.
Proof.
  unfold pair_eqb. destruct x as [a b], y as [c d]; cbn. rewrite andb_true_iff, !N.eqb_eq.
  split; [intros [-> ->]; reflexivity | intros H; inversion H; auto].
Qed.
Lemma pair_eqb_refl x : pair_eqb x x = true.
Proof. apply pair_eqb_eq. reflexivity. Qed.
Lemma pair_eqb_sym x y : pair_eqb x y = pair_eqb y x.
Proof. unfold pair_eqb. rewrite (N.eqb_sym (fst x)), (N.eqb_sym (snd x)). reflexivity. Qed.

Lemma cache_get_remove k k' l :
  cache_get k (cache_remove k' l) = if pair_eqb k k' then None else cache_get k l.
Proof.
  unfold cache_remove. induction l as [|[k2 v] l IH]; cbn [filter cache_get fst].
  - destruct (pair_eqb k k'); reflexivity.
  - destruct (pair_eqb k' k2) eqn:E2; cbn [negb].
    + rewrite IH. destruct (pair_eqb k k') eqn:E1; auto.
      apply pair_eqb_eq in E2. subst k2.
      destruct (pair_eqb k k') eqn:E3; [discriminate|reflexivity].
    + cbn [cache_get]. rewrite IH. destruct (pair_eqb k k') eqn:E1; auto.
      destruct (pair_eqb k k2) eqn:E3; auto.
      apply pair_eqb_eq in E1, E3. subst. rewrite pair_eqb_refl in E2. discriminate.
Qed.
Lemma cache_get_touch k k' v l :
  cache_get k (cache_touch k' v l) = if pair_eqb k k' then Some v else cache_get k l.
Proof.
  unfold cache_touch. cbn [cache_get]. rewrite cache_get_remove. destruct (pair_eqb k k'); reflexivity.
Qed.
Lemma cache_get_firstn k n : forall l r, cache_get k (firstn n l) = Some r -> cache_get k l = Some r.
Proof.
  induction n as [|n IH]; intros [|[k2 v] l] r H; cbn in *; try discriminate.
  destruct (pair_eqb k k2); auto.
Qed.

Section Frame.
Variable cap : nat.

(* the index' answer *)
Definition fcp (v : vals) (s : vidx) (a b : N) : bool := fc (v_weights v) (v_quorum v) s a b.

(* cached answers about event a0 are the index' answers *)
Definition cache_ok (a0 : N) (st : lstate) : Prop :=
  forall b r, cache_get (a0, b) (l_fcc st) = Some r -> r = fcp (l_vals st) (l_idx st) a0 b.

Lemma fc_cached_pure a0 st b : cache_ok a0 st ->
  exists c', fc_cached cap st a0 b = (fcp (l_vals st) (l_idx st) a0 b, set_fcc st c') /\ cache_ok a0 (set_fcc st c').
Proof.
  intros Hok. unfold fc_cached. destruct (cache_get (a0, b) (l_fcc st)) as [r|] eqn:E.
  - pose proof (Hok _ _ E) as Hr. subst r. eexists; split; [reflexivity|].
    intros b' r' H. cbn [l_fcc set_fcc] in H. rewrite cache_get_touch in H.
    cbn [l_vals l_idx set_fcc].
    destruct (pair_eqb (a0, b') (a0, b)) eqn:E2.
    + apply pair_eqb_eq in E2. inversion E2; subst. inversion H; subst. reflexivity.
    + apply (Hok _ _ H).
  - eexists; split; [reflexivity|].
    intros b' r' H. cbn [l_fcc set_fcc] in H. unfold cache_add in H. apply cache_get_firstn in H.
    rewrite cache_get_touch in H. cbn [l_vals l_idx set_fcc].
    destruct (pair_eqb (a0, b') (a0, b)) eqn:E2.
    + apply pair_eqb_eq in E2. inversion E2; subst. inversion H; subst. reflexivity.
    + apply (Hok _ _ H).
Qed.

(* forklessCausedByQuorumOn without the cache (same loop, same early break) *)
Fixpoint fcq_pure (v : vals) (s : vidx) (a : N) (frs : list root) (c : counter) : bool :=
  match frs with
  | [] => has_quorum v c
  | r :: t => let c' := if fcp v s a (r_id r) then snd (count_id v c (r_val r)) else c in
              if has_quorum v c' then true else fcq_pure v s a t c'
  end.
Definition roots_of (roots : list root) (f : N) : list root := filter (fun r => r_frame r =? f) roots.
Definition qp (v : vals) (s : vidx) (roots : list root) (a g : N) : bool :=
  fcq_pure v s a (roots_of roots g) (new_counter v).

Lemma fcq_loop_pure a : forall frs st c, cache_ok a st ->
  exists c', fcq_loop cap st a frs c = (fcq_pure (l_vals st) (l_idx st) a frs c, set_fcc st c') /\
             cache_ok a (set_fcc st c').
Proof.
  induction frs as [|r t IH]; intros st c Hok; cbn [fcq_loop fcq_pure].
  - exists (l_fcc st). split; [destruct st; reflexivity | destruct st; exact Hok].
  - destruct (fc_cached_pure a st (r_id r) Hok) as [c1 [E1 Hok1]]. rewrite E1.
    cbn [l_vals set_fcc].
    set (c' := if fcp (l_vals st) (l_idx st) a (r_id r) then snd (count_id (l_vals st) c (r_val r)) else c).
    destruct (has_quorum (l_vals st) c') eqn:Q.
    + exists c1. split; auto.
    + destruct (IH (set_fcc st c1) c' Hok1) as [c2 [E2 Hok2]]. exists c2. split; [rewrite E2; reflexivity | exact Hok2].
Qed.

Fixpoint calc_pure (fuel : nat) (v : vals) (s : vidx) (roots : list root) (a f maxf : N) : option N :=
  match fuel with O => None | S fu =>
    if negb (f <? maxf) then Some f else
    if qp v s roots a f then calc_pure fu v s roots a (f + 1) maxf else Some f
  end.

Lemma calc_loop_pure e maxf : forall fuel st f, cache_ok (a_id e) st ->
  exists c', calc_loop cap fuel st e f maxf =
               (calc_pure fuel (l_vals st) (l_idx st) (l_roots st) (a_id e) f maxf, set_fcc st c') /\
             cache_ok (a_id e) (set_fcc st c').
Proof.
  induction fuel as [|fu IH]; intros st f Hok; cbn [calc_loop calc_pure].
  - exists (l_fcc st). destruct st; split; [reflexivity | exact Hok].
  - destruct (negb (f <? maxf)).
    + exists (l_fcc st). destruct st; split; [reflexivity | exact Hok].
    + unfold fc_by_quorum_on.
      destruct (fcq_loop_pure (a_id e) (get_frame_roots st f) st (new_counter (l_vals st)) Hok) as [c1 [E1 Hok1]].
      rewrite E1. unfold qp, roots_of. unfold get_frame_roots.
      destruct (fcq_pure (l_vals st) (l_idx st) (a_id e) (filter (fun r => r_frame r =? f) (l_roots st)) (new_counter (l_vals st))).
      * destruct (IH (set_fcc st c1) (f + 1) Hok1) as [c2 [E2 Hok2]]. exists c2. split; [rewrite E2; reflexivity | exact Hok2].
      * exists c1. split; auto.
Qed.

(* calcFrameIdx as a pure function *)
Definition spf_of (es : estore) (e : aevent) : result N :=
  match a_self_parent e with
  | None => Ok 0
  | Some sp => match get_event es sp with Some pe => Ok (a_frame pe) | None => Err EPanic end end.
Definition frame_pure (es : estore) (v : vals) (s : vidx) (roots : list root) (e : aevent) (check_only : bool)
  : result (N * N) :=
  match spf_of es e with
  | Err x => Err x
  | Ok spf =>
    let maxf := if check_only then a_frame e else spf + 100 in
    match calc_pure (S (S (length roots))) v s roots (a_id e) spf maxf with
    | None => Err EFuel
    | Some f => Ok (spf, if f =? 0 then 1 else f) end
  end.

Lemma calc_frame_pure es st e co : cache_ok (a_id e) st ->
  exists c', calc_frame cap es st e co = (frame_pure es (l_vals st) (l_idx st) (l_roots st) e co, set_fcc st c') /\
             cache_ok (a_id e) (set_fcc st c').
Proof.
  intros Hok. unfold calc_frame, frame_pure, spf_of.
  destruct (a_self_parent e) as [sp|].
  - destruct (get_event es sp) as [pe|].
    + unfold roots_fuel.
      destruct (calc_loop_pure e (if co then a_frame e else a_frame pe + 100) (S (S (length (l_roots st)))) st (a_frame pe) Hok) as [c1 [E1 H1]].
      rewrite E1. exists c1. split; auto.
      destruct (calc_pure _ _ _ _ _ _ _); reflexivity.
    + exists (l_fcc st). destruct st; split; [reflexivity | exact Hok].
  - unfold roots_fuel.
    destruct (calc_loop_pure e (if co then a_frame e else 0 + 100) (S (S (length (l_roots st)))) st 0 Hok) as [c1 [E1 H1]].
    rewrite E1. exists c1. split; auto.
    destruct (calc_pure _ _ _ _ _ _ _); reflexivity.
Qed.

(* ---------- the frame rule over the index' forkless cause ---------- *)
Definition allowed_pure (v : vals) (s : vidx) (roots : list root) (e : aevent) (spf F : N) : Prop :=
  match a_self_parent e with
  | None => F = 1
  | Some _ => spf <= F /\ forall g, spf <= g < F -> qp v s roots (a_id e) g = true
  end.

Lemma empty_no_quorum v : has_quorum v (new_counter v) = false.
Proof.
  unfold has_quorum, new_counter, v_quorum. cbn [c_sum]. apply N.leb_gt.
  pose proof (N.div_le_lower_bound ((v_total v * 2) mod 2 ^ 32) 3 0). lia.
Qed.
Lemma qp_needs_root v s roots a g : qp v s roots a g = true -> exists r, In r roots /\ r_frame r = g.
Proof.
  unfold qp, roots_of. intros H.
  destruct (filter (fun r => r_frame r =? g) roots) as [|r t] eqn:E.
  - cbn in H. rewrite empty_no_quorum in H. discriminate.
  - assert (Hin : In r (filter (fun r => r_frame r =? g) roots)) by (rewrite E; left; reflexivity).
    apply filter_In in Hin as [Hin Hf]. apply N.eqb_eq in Hf. eauto.
Qed.

Definition cnt_from (roots : list root) (f : N) : nat := length (filter (fun r => f <=? r_frame r) roots).
Lemma cnt_from_step roots f : (exists r, In r roots /\ r_frame r = f) -> (cnt_from roots (f + 1) < cnt_from roots f)%nat.
Proof.
  unfold cnt_from. intros [r [Hin Hf]]. induction roots as [|x t IH]; [destruct Hin|].
  cbn [filter].
  assert (Hmono : (length (filter (fun r0 => (f + 1 <=? r_frame r0)%N) t) <= length (filter (fun r0 => (f <=? r_frame r0)%N) t))%nat).
  { clear. induction t as [|y t IH]; cbn [filter length]; auto.
    destruct (f + 1 <=? r_frame y) eqn:A; destruct (f <=? r_frame y) eqn:B; cbn [length]; lia. }
  destruct Hin as [->|Hin].
  - replace (f + 1 <=? r_frame r) with false by lia. replace (f <=? r_frame r) with true by lia. cbn [length]. lia.
  - specialize (IH Hin).
    destruct (f + 1 <=? r_frame x) eqn:A; destruct (f <=? r_frame x) eqn:B; cbn [length]; lia.
Qed.

Lemma calc_pure_fuel v s roots a maxf : forall fuel f, (cnt_from roots f < fuel)%nat ->
  calc_pure fuel v s roots a f maxf <> None.
Proof.
  induction fuel as [|fu IH]; intros f H; [lia|]. cbn [calc_pure].
  destruct (negb (f <? maxf)); [discriminate|].
  destruct (qp v s roots a f) eqn:Q; [|discriminate].
  apply IH. pose proof (cnt_from_step roots f (qp_needs_root _ _ _ _ _ Q)). lia.
Qed.
Lemma cnt_from_le roots f : (cnt_from roots f <= length roots)%nat.
Proof. unfold cnt_from. induction roots as [|x t IH]; cbn; auto. destruct (f <=? r_frame x); cbn; lia. Qed.

Lemma calc_pure_spec v s roots a maxf : forall fuel f f',
  calc_pure fuel v s roots a f maxf = Some f' ->
  (maxf <= f -> f' = f) /\
  (f <= maxf -> f <= f' <= maxf /\ (forall g, f <= g < f' -> qp v s roots a g = true) /\
                (f' < maxf -> qp v s roots a f' = false)).
Proof.
  induction fuel as [|fu IH]; intros f f' H; [discriminate|]. cbn [calc_pure] in H.
  destruct (f <? maxf) eqn:L; cbn [negb] in H.
  - destruct (qp v s roots a f) eqn:Q.
    + destruct (IH _ _ H) as [_ IH2]. split; [lia|]. intros _.
      destruct (IH2 ltac:(lia)) as [B [A C]]. split; [lia|]. split; auto.
      intros g Hg. destruct (N.eq_dec g f) as [->|]; auto. apply A. lia.
    + inversion H; subst. split; [lia|]. intros _. split; [lia|]. split; [intros; lia | auto].
  - inversion H; subst. split; auto. intros. split; [lia|]. split; intros; lia.
Qed.

(* claimed frame passes the check iff it is allowed (self-parent frames are >= 1, no root sits at frame 0) *)
Theorem frame_check_iff_allowed es v s roots e spf fr :
  frame_pure es v s roots e true = Ok (spf, fr) ->
  (forall r, In r roots -> r_frame r <> 0) ->
  (a_self_parent e <> None -> 1 <= spf) ->
  (a_frame e = fr <-> allowed_pure v s roots e spf (a_frame e)).
Proof.
  unfold frame_pure, allowed_pure, spf_of. intros H Hr0 Hsp.
  destruct (a_self_parent e) as [sp|] eqn:SP.
  - destruct (get_event es sp) as [pe|]; [|discriminate].
    destruct (calc_pure _ _ _ _ _ _ _) as [f|] eqn:C; [|discriminate]. inversion H; subst spf fr. clear H.
    specialize (Hsp ltac:(discriminate)).
    destruct (calc_pure_spec _ _ _ _ _ _ _ _ C) as [A B].
    split.
    + intros E. destruct (N.le_gt_cases (a_frame e) (a_frame pe)) as [L|L].
      * specialize (A L). subst f. replace (a_frame pe =? 0) with false in E by lia. split; [lia|]. intros; lia.
      * destruct (B ltac:(lia)) as [B1 [B2 B3]].
        destruct (f =? 0) eqn:Z; [lia|]. subst f. split; [lia|]. exact B2.
    + intros [L Q]. destruct (N.eq_dec (a_frame e) (a_frame pe)) as [E|NE].
      * specialize (A ltac:(lia)). subst f. replace (a_frame pe =? 0) with false by lia. auto.
      * destruct (B ltac:(lia)) as [B1 [B2 B3]].
        destruct (N.eq_dec f (a_frame e)) as [->|NE2].
        { replace (a_frame e =? 0) with false by lia. reflexivity. }
        specialize (B3 ltac:(lia)). rewrite Q in B3 by lia. discriminate.
  - destruct (calc_pure _ _ _ _ _ _ _) as [f|] eqn:C; [|discriminate]. inversion H; subst spf fr. clear H.
    destruct (calc_pure_spec _ _ _ _ _ _ _ _ C) as [A B].
    assert (Q0 : qp v s roots (a_id e) 0 = false).
    { destruct (qp v s roots (a_id e) 0) eqn:Q; auto. apply qp_needs_root in Q as [r [Hin Hf]]. elim (Hr0 _ Hin Hf). }
    assert (f = 0).
    { destruct (N.eq_dec (a_frame e) 0) as [Z|NZ].
      - apply A. lia.
      - destruct (B ltac:(lia)) as [B1 [B2 B3]]. destruct (N.eq_dec f 0); auto.
        rewrite (B2 0) in Q0 by lia. discriminate. }
    subst f. cbn. split; auto.
Qed.

(* the fuel of the model is enough: calcFrameIdx never runs out *)
Lemma frame_pure_not_fuel es v s roots e co : frame_pure es v s roots e co <> Err EFuel.
Proof.
  unfold frame_pure. destruct (spf_of es e) as [spf|x] eqn:S.
  - destruct (calc_pure _ _ _ _ _ _ _) eqn:C; [discriminate|].
    exfalso. eapply calc_pure_fuel; [|exact C]. pose proof (cnt_from_le roots spf). lia.
  - unfold spf_of in S. destruct (a_self_parent e); [|discriminate].
    destruct (get_event es n); inversion S; discriminate.
Qed.

(* Build's frame: the highest allowed one, at most 100 above the self-parent's *)
Theorem build_frame_highest es v s roots e spf fr :
  frame_pure es v s roots e false = Ok (spf, fr) ->
  (forall r, In r roots -> r_frame r <> 0) ->
  (a_self_parent e <> None -> 1 <= spf) ->
  allowed_pure v s roots e spf fr /\
  (a_self_parent e <> None -> fr = spf + 100 \/ qp v s roots (a_id e) fr = false).
Proof.
  unfold frame_pure, allowed_pure, spf_of. intros H Hr0 Hsp.
  destruct (a_self_parent e) as [sp|] eqn:SP.
  - destruct (get_event es sp) as [pe|]; [|discriminate].
    destruct (calc_pure _ _ _ _ _ _ _) as [f|] eqn:C; [|discriminate]. inversion H; subst spf fr. clear H.
    specialize (Hsp ltac:(discriminate)).
    destruct (calc_pure_spec _ _ _ _ _ _ _ _ C) as [_ B]. destruct (B ltac:(lia)) as [B1 [B2 B3]].
    replace (f =? 0) with false by lia. split; [split; [lia | exact B2]|].
    intros _. destruct (N.eq_dec f (a_frame pe + 100)); [left; auto | right; apply B3; lia].
  - destruct (calc_pure _ _ _ _ _ _ _) as [f|] eqn:C; [|discriminate]. inversion H; subst spf fr. clear H.
    destruct (calc_pure_spec _ _ _ _ _ _ _ _ C) as [_ B]. destruct (B ltac:(lia)) as [B1 [B2 B3]].
    assert (Q0 : qp v s roots (a_id e) 0 = false).
    { destruct (qp v s roots (a_id e) 0) eqn:Q; auto. apply qp_needs_root in Q as [r [Hin Hf]]. elim (Hr0 _ Hin Hf). }
    assert (f = 0). { destruct (N.eq_dec f 0); auto. rewrite (B2 0) in Q0 by lia. discriminate. }
    subst f. cbn. split; auto. intros X; elim X; reflexivity.
Qed.

(* an event built and then processed is accepted, provided the index answers the same for the
   temporary and for the final id of the event (index correctness, C05: both equal the graph's) *)
Theorem built_then_processed es v s1 s2 roots e1 e2 spf fr :
  frame_pure es v s1 roots e1 false = Ok (spf, fr) ->
  a_self_parent e2 = a_self_parent e1 -> a_frame e2 = fr ->
  (forall g, qp v s2 roots (a_id e2) g = qp v s1 roots (a_id e1) g) ->
  (forall r, In r roots -> r_frame r <> 0) ->
  (a_self_parent e1 <> None -> 1 <= spf) ->
  exists fr', frame_pure es v s2 roots e2 true = Ok (spf, fr') /\ a_frame e2 = fr'.
Proof.
  intros Hb Hsp Hfr Hq Hr0 Hs1.
  destruct (build_frame_highest _ _ _ _ _ _ _ Hb Hr0 Hs1) as [Hal _].
  assert (Hspf : spf_of es e2 = Ok spf).
  { unfold frame_pure in Hb. unfold spf_of in *. rewrite Hsp.
    destruct (a_self_parent e1) as [sp|]; [destruct (get_event es sp); [|discriminate]|];
      destruct (calc_pure _ _ _ _ _ _ _); inversion Hb; reflexivity. }
  destruct (frame_pure es v s2 roots e2 true) as [[spf' fr']|x] eqn:F.
  - assert (spf' = spf).
    { unfold frame_pure in F. rewrite Hspf in F. destruct (calc_pure _ _ _ _ _ _ _); inversion F; reflexivity. }
    subst spf'. exists fr'. split; auto.
    apply (frame_check_iff_allowed _ _ _ _ _ _ _ F Hr0); [rewrite Hsp; exact Hs1|].
    unfold allowed_pure in *. rewrite Hsp. destruct (a_self_parent e1); [|congruence].
    destruct Hal as [L Q]. split; [lia|]. intros g Hg. rewrite Hq. apply Q. lia.
  - exfalso. unfold frame_pure in F. rewrite Hspf in F.
    destruct (calc_pure _ _ _ _ _ _ _) eqn:C; [discriminate|].
    eapply calc_pure_fuel; [|exact C]. pose proof (cnt_from_le roots spf). lia.
Qed.

(* ---------- Process: the frame check ---------- *)
Variable end_block : N -> N -> N -> list N -> list N -> option vals.

(* what Process does once the frame check has passed *)
Definition after_check (es : estore) (st1 : lstate) (e : aevent) (spf fr : N) :=
  let st2 := if spf =? fr then st1 else add_roots st1 spf e in
  match handle_election cap end_block (S (S (N.to_nat (a_frame e - spf)))) es st2 e (spf + 1) [] with
  | (Err x, bl, st3) => (Err x, bl, st3)
  | (Ok _, bl, st3) => (Ok tt, bl, st3)
  end.

Lemma process_frame_check es st e s' spf fr :
  add (l_idx st) (vev (l_vals st) e) = Some s' ->
  cache_ok (a_id e) (set_idx st s') ->
  frame_pure es (l_vals st) s' (l_roots st) e true = Ok (spf, fr) ->
  exists c',
    (a_frame e <> fr -> process cap end_block es st e = (Err EWrongFrame, [], set_fcc st c')) /\
    (a_frame e = fr -> process cap end_block es st e = after_check es (set_fcc (set_idx st s') c') e spf fr).
Proof.
  intros Hadd Hok Hfp. unfold process. rewrite Hadd.
  destruct (calc_frame_pure es (set_idx st s') e true Hok) as [c1 [E1 _]].
  rewrite E1. cbn [l_vals l_idx l_roots set_idx] in *. rewrite Hfp.
  exists c1. split; intros H.
  - apply N.eqb_neq in H. rewrite H. cbn [negb]. destruct st; reflexivity.
  - apply N.eqb_eq in H. rewrite H. cbn [negb]. unfold after_check. reflexivity.
Qed.

End Frame.
