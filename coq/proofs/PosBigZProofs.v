(* C12: the big-stake builder with stakes as *big.Int (signed or nil, model/PosBig.v).
   On the property's domain (every written stake >= 0 or nil) it coincides with the
   non-negative development (model/Pos.v big_build, proofs/PosBigProofs.v); outside of it
   Build can panic (witness below), so the hypothesis is necessary. *)
From Coq Require Import NArith ZArith PeanoNat List Lia Bool Permutation Sorted.
From Coq Require Import ZifyBool ZifyNat ZifyN.
From LV Require Import lib.WordArith model.Pos model.PosBig spec.PosSpec.
From LV Require Import proofs.PosMapProofs proofs.PosSortProofs proofs.PosBuildProofs proofs.PosBigProofs.
Import ListNotations.
Local Open Scope N_scope.

Definition toN (w : option Z) : N := match w with None => 0 | Some z => Z.to_N z end.
Definition opsN (ops : list (N * option Z)) : list (N * N) := map (fun p => (fst p, toN (snd p))) ops.
Definition stake_nonneg (w : option Z) : Prop := match w with None => True | Some z => (0 <= z)%Z end.
(* the domain of the property: every stake handed to Set is nil or >= 0 *)
Definition nonneg_ops (ops : list (N * option Z)) : Prop := Forall (fun p => stake_nonneg (snd p)) ops.
Definition mapN (m : bmap) : vmap := map (fun p => (fst p, Z.to_N (snd p))) m.
Definition nonneg_map (m : bmap) : Prop := Forall (fun p => (0 <= snd p)%Z) m.

Lemma bremove_mapN id m : mapN (bremove id m) = vremove id (mapN m).
Proof.
  induction m as [|[i w] m IH]; [reflexivity|]. cbn [bremove mapN map vremove fst snd].
  destruct (i =? id); [exact IH|]. cbn [map fst snd]. f_equal. exact IH.
Qed.

Lemma bremove_nonneg id m : nonneg_map m -> nonneg_map (bremove id m).
Proof.
  unfold nonneg_map. induction m as [|[i w] m IH]; intros H; [constructor|].
  inversion H; subst. cbn [bremove]. destruct (i =? id); [apply IH; assumption|].
  constructor; [assumption|apply IH; assumption].
Qed.

Lemma bset_mapN m id w : stake_nonneg w -> mapN (bset m id w) = vset (mapN m) id (toN w).
Proof.
  intros H. unfold bset, vset. destruct w as [z|]; cbn [toN stake_nonneg] in *.
  - destruct (Z.eqb_spec z 0) as [E|E].
    + subst. cbn. apply bremove_mapN.
    + destruct (N.eqb_spec (Z.to_N z) 0) as [E2|E2]; [lia|].
      cbn [mapN map fst snd]. f_equal. apply bremove_mapN.
  - cbn. apply bremove_mapN.
Qed.

Lemma bset_nonneg m id w : stake_nonneg w -> nonneg_map m -> nonneg_map (bset m id w).
Proof.
  intros Hw Hm. unfold bset. destruct w as [z|]; [|apply bremove_nonneg; exact Hm].
  destruct (z =? 0)%Z; [apply bremove_nonneg; exact Hm|].
  constructor; [exact Hw|apply bremove_nonneg; exact Hm].
Qed.

Lemma apply_bsets_mapN ops : forall m, nonneg_ops ops -> nonneg_map m ->
  mapN (apply_bsets ops m) = apply_sets (opsN ops) (mapN m) /\ nonneg_map (apply_bsets ops m).
Proof.
  induction ops as [|[i w] ops IH]; intros m Ho Hm; [split; [reflexivity|exact Hm]|].
  inversion Ho as [|? ? Hw Ho']; subst. cbn [snd] in Hw.
  cbn [apply_bsets fold_left opsN map apply_sets fst snd].
  destruct (IH (bset m i w) Ho' (bset_nonneg m i w Hw Hm)) as [H1 H2].
  split; [|exact H2]. unfold apply_bsets, apply_sets, opsN in *. rewrite H1, bset_mapN by exact Hw. reflexivity.
Qed.

Lemma zbig_total_N m : nonneg_map m -> zbig_total m = Z.of_N (big_total (mapN m)).
Proof.
  unfold nonneg_map, zbig_total, big_total, mapN.
  induction 1 as [|p m Hp _ IH]; [reflexivity|]. cbn [fold_right map snd]. rewrite IH. lia.
Qed.

Lemma zbig_shift_N m : nonneg_map m -> zbig_shift m = big_shift (mapN m).
Proof.
  intros H. unfold zbig_shift, big_shift, zbitlen, bitlen. rewrite (zbig_total_N m H), Zabs2N.id. reflexivity.
Qed.

Lemma zbig_weight_N s w : (0 <= w)%Z -> zbig_weight s w = big_weight s (Z.to_N w).
Proof.
  intros H. unfold zbig_weight, big_weight. f_equal. f_equal.
  rewrite Z.shiftr_div_pow2 by lia. rewrite N.shiftr_div_pow2.
  rewrite <- (Z2N.id w H) at 1. change 2%Z with (Z.of_N 2). rewrite <- N2Z.inj_pow, <- N2Z.inj_div. apply Zabs2N.id.
Qed.

Lemma zbig_sets_N m : nonneg_map m -> zbig_sets m = big_sets (mapN m).
Proof.
  intros H. unfold zbig_sets, big_sets. cbv zeta. rewrite (zbig_shift_N m H).
  set (s := big_shift (mapN m)). unfold mapN. rewrite map_map.
  apply map_ext_in. intros p Hp. cbn [fst snd]. f_equal. apply zbig_weight_N.
  unfold nonneg_map in H. rewrite Forall_forall in H. apply H. exact Hp.
Qed.

(* on the property's domain the *big.Int model is the non-negative model *)
Theorem zbig_build_nonneg ops : nonneg_ops ops -> zbig_build ops = big_build (opsN ops).
Proof.
  intros H. unfold zbig_build, big_build.
  destruct (apply_bsets_mapN ops [] H (Forall_nil _)) as [H1 H2]. cbn [mapN map] in H1.
  rewrite (zbig_sets_N _ H2), H1. reflexivity.
Qed.

Theorem zbig_build_spec ops : nonneg_ops ops ->
  let s := shift_of (spec_total (opsN ops)) in
  shift_ok (spec_total (opsN ops)) s = true /\
  exists vs, zbig_build ops = Some vs /\
             v_cache vs = cache_of (vsort (big_spec_pairs (opsN ops) s)) /\
             Permutation (v_values vs) (big_spec_pairs (opsN ops) s).
Proof. intros H. rewrite (zbig_build_nonneg ops H). apply big_build_spec. Qed.

Theorem zbig_never_panics ops : nonneg_ops ops -> zbig_build ops <> None.
Proof. intros H. rewrite (zbig_build_nonneg ops H). apply big_never_panics. Qed.

(* rank-based form: the arrays are the canonical arrangement of the scaled stakes *)
Lemma big_spec_pairs_nodup ops s : NoDup (big_spec_pairs ops s).
Proof.
  unfold big_spec_pairs. apply NoDup_filter. apply (NoDup_map_inv fst). rewrite map_map. cbn [fst].
  apply (proj1 (eff_pairs_ok ops)).
Qed.

Theorem zbig_canon_ok ops vs : nonneg_ops ops -> zbig_build ops = Some vs ->
  canon_ok (big_spec_pairs (opsN ops) (shift_of (spec_total (opsN ops))))
           (combine (sorted_ids vs) (sorted_weights vs)) = true /\
  total_weight vs = sum_weights (big_spec_pairs (opsN ops) (shift_of (spec_total (opsN ops)))).
Proof.
  intros H Hb. destruct (zbig_build_spec ops H) as [_ [vs' [Hb' [Hc _]]]].
  rewrite Hb in Hb'. inversion Hb'; subst vs'.
  unfold sorted_ids, sorted_weights, total_weight. rewrite Hc. unfold cache_of. cbn [c_ids c_weights c_total].
  rewrite combine_fst_snd. split.
  - apply canon_ok_sorted; [apply vsort_perm|apply vsort_sorted|].
    apply (Permutation_NoDup (Permutation_sym (vsort_perm _))). apply big_spec_pairs_nodup.
  - apply sum_weights_perm, vsort_perm.
Qed.

(* outside the domain: a negative stake makes Build panic (Uint64() of -1 is 1: total 2^31-1,
   shift 0, scaled sum 2^31+1).  Replays on the real code: harness case  G 1 -1 2 2147483648 *)
Example zbig_negative_panics :
  zbig_build [(1, Some (-1)%Z); (2, Some 2147483648%Z)] = None /\
  zbig_build [(1, Some (-1099511627776)%Z); (2, Some 7%Z)] = None /\
  (exists vs, zbig_build [(1, Some (-5)%Z); (2, Some 7%Z)] = Some vs /\ sorted_weights vs = [7; 5]).
Proof. split; [vm_compute; reflexivity|]. split; [vm_compute; reflexivity|]. eexists. split; vm_compute; reflexivity. Qed.

(* "just enough": the shift is the least s with (total >> s) <= 2^31-1.  It is NOT always the least
   s for which the sum of the individually scaled stakes fits: for {2^31+1, 2^31-1} the total 2^32
   needs s = 2, although the scaled stakes would already fit with s = 1. *)
Example just_enough_reading :
  let ops := [(1, 2147483649); (2, 2147483647)] in
  shift_of (spec_total ops) = 2 /\ N.shiftr (spec_total ops) 1 = 2147483648 /\
  sum_weights (shifted 1 (eff_pairs ops)) = 2147483647.
Proof. repeat split; vm_compute; reflexivity. Qed.
