(* L1, brick 2: the frame rule.  calcFrameIdx of the model (forklessCausedByQuorumOn with its weight
   counter and early break, through the LRU) computes the reference's quorum_on / climb:
     - Process' frame check passes whenever the reference's frame_ok holds,
     - Build's frame is the reference's frame_high.
   Counter-to-weighted-sum: proofs/AbftCount.v (qp_is_weight) + LinkVals.vsum_wsP. *)
From Coq Require Import NArith ZArith List Lia Bool ZifyBool ZifyN ZifyNat.
From LV Require Import lib.Bytes model.Codec model.VecIndex spec.FcSpec model.Abft model.AbftRun spec.ElectionSpec
  lib.WSumBft proofs.FcSpecFacts proofs.VecInv proofs.VecStep proofs.VecMain
  proofs.AbftFrame proofs.AbftCount proofs.AbftIds proofs.AbftBuild
  proofs.BftGraph proofs.BftMain proofs.BftRun proofs.BftFcSpec proofs.BftAccept
  proofs.LinkVals proofs.LinkDefs proofs.LinkSim proofs.LinkRename.
Import ListNotations.
Local Open Scope N_scope.

Section Frame.
Variable cap : nat.
Variable ep : N.
Variable lam : fev -> N.
Variable vals : list (N * N).
Hypothesis Hvals : vals_ok vals.

Notation ws := (map snd vals).
Notation nv := (length vals).
Notation q := (ElectionSpec.quorum_of ws).
Notation fcn := (fc_n ws q).
Notation ae := (to_aevent ep lam vals).
Notation rts := (roots_at node nd_fr nd_spf).
Notation qon := (quorum_on node nd_cr nd_fr nd_spf fcn ws q).
Notation Core := (Core ep lam vals).
Notation cache_inv := (cache_inv vals).
Notation slot := (slot vals).

Lemma root_val_exists st es T Dr R r : Core st es T Dr R -> In r (l_roots st) -> v_exists vals (r_val r) = true.
Proof.
  intros C Hr. apply (co_roots _ _ _ _ _ _ _ _ C) in Hr as [n [f [Hn [_ ->]]]].
  rewrite slot_val. apply v_exists_vid; [apply (vals_nodup vals Hvals)|].
  apply (cr_lt vals T n (Core_wfT _ _ _ _ _ _ _ _ C)). apply (co_sub _ _ _ _ _ _ _ _ C). exact Hn.
Qed.

(* forklessCausedByQuorumOn(e, g) over the stored roots = the reference's quorum_on over the nodes R *)
Lemma qp_sim st es T Dr R na g : Core st es T Dr R -> In na T ->
  qp vals (l_idx st) (l_roots st) (nd_id na) g = qon R na g.
Proof.
  intros C Ha.
  rewrite (qp_is_weight vals (vals_nodup vals Hvals) (l_idx st) (l_roots st) (nd_id na) g
             (fun r Hr => root_val_exists _ _ _ _ _ r C Hr)).
  rewrite (vq_eq vals Hvals), vsum_wsP. unfold quorum_on. f_equal.
  change (wsumP ws ?P) with (wsP ws P). apply wsP_ext. intros i Hi. rewrite map_length in Hi.
  destruct (frame_roots_for ep lam vals st es T Dr R g C) as [ms [RF [IM [EM _]]]].
  unfold roots_of. change (filter (fun r => r_frame r =? g) (l_roots st)) with (get_frame_roots st g). rewrite EM.
  pose proof (Core_wfT _ _ _ _ _ _ _ _ C) as W. pose proof (co_sub _ _ _ _ _ _ _ _ C) as Sub.
  apply eq_true_iff_eq. unfold ElectionSpec.by_cr. rewrite !existsb_exists. split.
  - intros [r [Hr H]]. apply in_map_iff in Hr as [m [<- Hm]]. apply andb_prop in H as [Hv Hf].
    rewrite slot_val in Hv. rewrite slot_id in Hf. apply N.eqb_eq in Hv.
    apply IM in Hm. assert (HmT : In m T) by (apply Sub; unfold roots_at in Hm; apply filter_In in Hm; apply Hm).
    rewrite (fcp_sim ep lam vals Hvals st es T Dr R na m C Ha HmT) in Hf.
    exists m. split; [unfold obs; apply filter_In; auto|]. rewrite andb_true_r. apply Nat.eqb_eq.
    apply (vid_inj vals); auto; [apply (vals_nodup vals Hvals) | apply (cr_lt vals T m W HmT)].
  - intros [m [Hm H]]. unfold obs in Hm. apply filter_In in Hm as [Hm Hf]. apply andb_prop in H as [Hc _].
    apply Nat.eqb_eq in Hc. assert (HmT : In m T) by (apply Sub; unfold roots_at in Hm; apply filter_In in Hm; apply Hm).
    exists (slot m g). split; [apply in_map_iff; exists m; split; [reflexivity | apply IM; exact Hm]|].
    rewrite slot_val, slot_id, Hc, N.eqb_refl. cbn [andb].
    rewrite (fcp_sim ep lam vals Hvals st es T Dr R na m C Ha HmT). exact Hf.
Qed.

(* ---------- calcFrameIdx through the LRU = the pure computation; the cache stays sound ---------- *)
Lemma get_frame_roots_fcc st c f : get_frame_roots (set_fcc st c) f = get_frame_roots st f.
Proof. reflexivity. Qed.

Lemma calc_loop_sim st es T Dr R k Ta na e maxf : Core st es T Dr R -> incl Ta T -> In na Ta ->
  ~ k (nd_id na) -> a_id e = nd_id na ->
  forall fuel st0 f, (exists c0, st0 = set_fcc st c0) -> cache_inv k st0 Ta R ->
  exists c', calc_loop cap fuel st0 e f maxf =
               (calc_pure fuel vals (l_idx st) (l_roots st) (nd_id na) f maxf, set_fcc st c') /\
             cache_inv k (set_fcc st c') Ta R.
Proof.
  intros C Sa Ha NT Eid. induction fuel as [|fu IH]; intros st0 f [c0 ->] CI; cbn [calc_loop calc_pure].
  - exists c0. split; [reflexivity | exact CI].
  - destruct (negb (f <? maxf)).
    + exists c0. split; [reflexivity | exact CI].
    + unfold fc_by_quorum_on. rewrite Eid. rewrite get_frame_roots_fcc. cbn [l_vals set_fcc].
      rewrite (co_vals _ _ _ _ _ _ _ _ C).
      destruct (frame_roots_for ep lam vals st es T Dr R f C) as [ms [RF _]].
      destruct (fcq_loop_sim cap ep lam vals Hvals st es T Dr R k Ta R na C Sa (co_sub _ _ _ _ _ _ _ _ C) Ha NT
                  (get_frame_roots st f) ms RF (set_fcc st c0) (new_counter vals) (ex_intro _ c0 eq_refl) CI) as [c1 [E1 CI1]].
      rewrite E1. unfold qp, roots_of. change (filter (fun r => r_frame r =? f) (l_roots st)) with (get_frame_roots st f).
      destruct (fcq_pure vals (l_idx st) (nd_id na) (get_frame_roots st f) (new_counter vals)).
      * apply (IH (set_fcc st c1) (f + 1) (ex_intro _ c1 eq_refl) CI1).
      * exists c1. split; [reflexivity | exact CI1].
Qed.

Lemma calc_frame_sim st es T Dr R k Ta na e co : Core st es T Dr R -> incl Ta T -> In na Ta ->
  ~ k (nd_id na) -> a_id e = nd_id na -> cache_inv k st Ta R ->
  exists c', calc_frame cap es st e co = (frame_pure es vals (l_idx st) (l_roots st) e co, set_fcc st c') /\
             cache_inv k (set_fcc st c') Ta R.
Proof.
  intros C Sa Ha NT Eid CI. unfold calc_frame, frame_pure, spf_of.
  assert (D : exists c', st = set_fcc st c' /\ cache_inv k (set_fcc st c') Ta R).
  { exists (l_fcc st). destruct st; split; [reflexivity | exact CI]. }
  destruct (a_self_parent e) as [sp|].
  - destruct (get_event es sp) as [pe|].
    + unfold roots_fuel.
      destruct (calc_loop_sim st es T Dr R k Ta na e (if co then a_frame e else a_frame pe + 100) C Sa Ha NT Eid
                  (S (S (length (l_roots st)))) st (a_frame pe)) as [c1 [E1 CI1]].
      { exists (l_fcc st). destruct st; reflexivity. } { exact CI. }
      rewrite E1, Eid. exists c1. split; [|exact CI1].
      destruct (calc_pure _ _ _ _ _ _ _); reflexivity.
    + destruct D as [c' [E CI']]. exists c'. split; [rewrite <- E; reflexivity | exact CI'].
  - unfold roots_fuel.
    destruct (calc_loop_sim st es T Dr R k Ta na e (if co then a_frame e else 0 + 100) C Sa Ha NT Eid
                (S (S (length (l_roots st)))) st 0) as [c1 [E1 CI1]].
    { exists (l_fcc st). destruct st; reflexivity. } { exact CI. }
    rewrite E1, Eid. exists c1. split; [|exact CI1].
    destruct (calc_pure _ _ _ _ _ _ _); reflexivity.
Qed.

(* ---------- the reference's climb ---------- *)
Lemma climb_char (Tr : list node) n : forall fuel g F,
  g <= F -> (forall h, g <= h < F -> qon Tr n h = true) ->
  (F = g + N.of_nat fuel \/ (F < g + N.of_nat fuel /\ qon Tr n F = false)) ->
  climb node nd_cr nd_fr nd_spf fcn ws q Tr fuel n g = F.
Proof.
  induction fuel as [|fu IH]; intros g F L Q E; cbn [climb].
  - destruct E as [E|[E _]]; lia.
  - destruct (N.eq_dec g F) as [->|NE].
    + destruct E as [E|[_ E]]; [lia|]. rewrite E. reflexivity.
    + rewrite (Q g) by lia. apply IH; [lia | intros h Hh; apply Q; lia|].
      destruct E as [E|[E1 E2]]; [left; lia | right; split; [lia | exact E2]].
Qed.
Lemma climb_ge_start (Tr : list node) n : forall fuel g, g <= climb node nd_cr nd_fr nd_spf fcn ws q Tr fuel n g.
Proof.
  induction fuel as [|fu IH]; intros g; cbn [climb]; [lia|].
  destruct (qon Tr n g); [specialize (IH (g + 1)); lia | lia].
Qed.


(* ---------- frames are >= 1; the self-parent's frame ---------- *)
Lemma fr_pos T : wfT vals T -> forall n, In n T -> 1 <= nd_fr n.
Proof.
  induction 1 as [|T e W IH PK NL CR [S1 S2] FO]; intros n Hn; [destruct Hn|].
  destruct Hn as [<-|Hn]; [|apply IH; exact Hn].
  unfold r_frame_ok, frame_ok in FO. cbn [mk_node nd_hassp nd_spf nd_fr] in FO |- *.
  destruct (self_parent (fe e)) as [sp|] eqn:SP.
  - assert (Hs : 1 < eseq (fe e)).
    { unfold self_parent in SP. destruct (eseq (fe e) <=? 1) eqn:L; [discriminate|]. lia. }
    destruct (S2 Hs) as [sp' [m [SP' [L _]]]]. assert (sp' = sp) by congruence. subst sp'. rewrite L in FO.
    apply andb_prop in FO as [F1 _]. apply N.leb_le in F1.
    apply nlookup_some in L as [Hm _]. specialize (IH m Hm). lia.
  - apply N.eqb_eq in FO. lia.
Qed.

Lemma spf_of_sim es T Dr e x : wfTD vals T Dr ->
  (forall e0, In e0 Dr -> get_event es (eid (fe e0)) = Some (ae e0)) ->
  parents_known T e -> a_self_parent x = self_parent (fe e) ->
  spf_of es x = Ok (nd_spf (mk_node nv T e)).
Proof.
  intros W ES PK SPx. unfold spf_of. rewrite SPx. cbn [mk_node nd_spf].
  destruct (self_parent (fe e)) as [sp|] eqn:SP; [|reflexivity].
  destruct (PK sp (self_parent_in _ _ SP)) as [m L]. rewrite L.
  apply nlookup_some in L as [Hm Eid].
  destruct (node_event vals T Dr m W Hm) as [e0 [He0 [E0 [_ [_ F0]]]]].
  rewrite <- Eid, <- E0, (ES e0 He0). cbn [to_aevent a_frame]. rewrite F0. reflexivity.
Qed.

Lemma no_root_at_zero st es T Dr R r : Core st es T Dr R -> In r (l_roots st) -> r_frame r <> 0.
Proof.
  intros C Hr. apply (co_roots _ _ _ _ _ _ _ _ C) in Hr as [n [f [_ [Hr ->]]]]. rewrite slot_frame.
  unfold is_root_at in Hr. apply andb_prop in Hr as [Hr _]. lia.
Qed.

(* the state in which calcFrameIdx runs: the index holds the new event (node n = mk_node T0 e, possibly
   under a temporary id), the root table does not yet *)
Section NewEvent.
Variables (st : lstate) (es : estore) (T0 : list node) (Dr0 : list fev) (e : fev) (x : aevent).
Let n := mk_node nv T0 e.
Hypothesis HC : Core st es (n :: T0) (e :: Dr0) T0.
Hypothesis Hid : a_id x = eid (fe e).
Hypothesis Hsp : a_self_parent x = self_parent (fe e).

Lemma new_event_facts : wfTD vals T0 Dr0 /\ parents_known T0 e /\ ev_wf T0 e /\ r_frame_ok vals T0 n = true.
Proof. pose proof (co_wf _ _ _ _ _ _ _ _ HC) as W. inversion W; subst. auto. Qed.

Lemma new_spf : spf_of es x = Ok (nd_spf n) /\ (a_self_parent x <> None -> 1 <= nd_spf n).
Proof.
  destruct new_event_facts as (W0 & PK & [S1 S2] & FO). split.
  - apply (spf_of_sim es T0 Dr0 e x W0); auto.
    intros e0 He0. apply (co_es _ _ _ _ _ _ _ _ HC); [right; exact He0|].
    destruct (event_node vals T0 Dr0 e0 W0 He0) as [m [Hm [Em _]]]. exists m. auto.
  - rewrite Hsp. unfold n. cbn [mk_node nd_spf]. destruct (self_parent (fe e)) as [sp|] eqn:SP; [|congruence]. intros _.
    assert (Hs : 1 < eseq (fe e)).
    { unfold self_parent in SP. destruct (eseq (fe e) <=? 1) eqn:L; [discriminate|]. lia. }
    destruct (S2 Hs) as [sp' [m [SP' [L _]]]]. assert (sp' = sp) by congruence. subst sp'. rewrite L.
    apply nlookup_some in L as [Hm _]. apply (fr_pos T0 (wfTD_wfT vals T0 Dr0 W0) m Hm).
Qed.

Lemma new_qp g : qp vals (l_idx st) (l_roots st) (a_id x) g = qon T0 n g.
Proof. rewrite Hid. change (eid (fe e)) with (nd_id n). apply (qp_sim st es _ _ T0 n g HC). left. reflexivity. Qed.

Lemma hassp_iff : nd_hassp n = match self_parent (fe e) with Some _ => true | None => false end.
Proof. reflexivity. Qed.

(* Process: the claimed frame passes the check *)
Lemma frame_check_sim : a_frame x = ffr e ->
  frame_pure es vals (l_idx st) (l_roots st) x true = Ok (nd_spf n, ffr e).
Proof.
  intros Hfr. destruct new_spf as [SPF SP1]. destruct new_event_facts as (W0 & PK & EW & FO).
  destruct (frame_pure es vals (l_idx st) (l_roots st) x true) as [[spf fr]|err] eqn:FP.
  2:{ exfalso. unfold frame_pure in FP. rewrite SPF in FP.
      destruct (calc_pure _ _ _ _ _ _ _) eqn:CP; [discriminate|].
      eapply calc_pure_fuel; [|exact CP]. pose proof (cnt_from_le (l_roots st) (nd_spf n)). lia. }
  assert (spf = nd_spf n).
  { unfold frame_pure in FP. rewrite SPF in FP. destruct (calc_pure _ _ _ _ _ _ _); inversion FP; reflexivity. }
  subst spf. f_equal. f_equal. rewrite <- Hfr. symmetry.
  apply (frame_check_iff_allowed es vals (l_idx st) (l_roots st) x (nd_spf n) fr FP
           (fun r Hr => no_root_at_zero _ _ _ _ _ r HC Hr) SP1).
  unfold allowed_pure. rewrite Hsp, Hfr.
  unfold r_frame_ok, frame_ok in FO. rewrite hassp_iff in FO. change (nd_fr n) with (ffr e) in FO.
  destruct (self_parent (fe e)) as [sp|].
  - apply andb_prop in FO as [F1 F2]. apply N.leb_le in F1, F2. split; [exact F1|].
    intros g Hg. rewrite new_qp. eapply (climb_ge vals); [exact F2 | exact Hg].
  - apply N.eqb_eq in FO. exact FO.
Qed.

(* Build: the computed frame is the reference's highest allowed frame *)
Lemma frame_build_sim :
  frame_pure es vals (l_idx st) (l_roots st) x false = Ok (nd_spf n, r_frame_high vals T0 n).
Proof.
  destruct new_spf as [SPF SP1]. unfold frame_pure. rewrite SPF.
  destruct (calc_pure (S (S (length (l_roots st)))) vals (l_idx st) (l_roots st) (a_id x) (nd_spf n) (nd_spf n + 100)) as [f|] eqn:CP.
  2:{ exfalso. eapply calc_pure_fuel; [|exact CP]. pose proof (cnt_from_le (l_roots st) (nd_spf n)). lia. }
  f_equal. f_equal.
  destruct (calc_pure_spec _ _ _ _ _ _ _ _ CP) as [_ B]. destruct (B ltac:(lia)) as [B1 [B2 B3]].
  unfold r_frame_high, frame_high. rewrite hassp_iff.
  rewrite Hsp in SP1. destruct (self_parent (fe e)) as [sp|] eqn:SP.
  - specialize (SP1 ltac:(discriminate)). replace (f =? 0) with false by lia. symmetry.
    apply (climb_char (T0) n 100 (nd_spf n) f); [lia | intros h Hh; rewrite <- new_qp; apply B2; exact Hh|].
    destruct (N.eq_dec f (nd_spf n + 100)) as [->|NE]; [left; lia|].
    right. split; [lia|]. rewrite <- new_qp. apply B3. lia.
  - assert (Z : nd_spf n = 0) by (unfold n; cbn [mk_node nd_spf]; rewrite SP; reflexivity).
    assert (Q0 : qp vals (l_idx st) (l_roots st) (a_id x) 0 = false).
    { destruct (qp vals (l_idx st) (l_roots st) (a_id x) 0) eqn:Q; auto. apply qp_needs_root in Q as [r [Hin Hf]].
      elim (no_root_at_zero _ _ _ _ _ r HC Hin Hf). }
    assert (f = 0). { destruct (N.eq_dec f 0); auto. rewrite (B2 0) in Q0 by lia. discriminate. }
    subst f. reflexivity.
Qed.

(* Process: a claimed frame that the reference does not allow fails the check.  eR = the event as it was
   offered (claimed frame a_frame x); the index holds the same event under an allowed frame (e) *)
Lemma frame_check_rej (eR : fev) : fe eR = fe e -> a_frame x = ffr eR ->
  r_frame_ok vals T0 (mk_node nv T0 eR) = false ->
  exists fr, frame_pure es vals (l_idx st) (l_roots st) x true = Ok (nd_spf n, fr) /\ fr <> a_frame x.
Proof.
  intros Hfe Hfr FO. destruct new_spf as [SPF SP1]. destruct new_event_facts as (W0 & PK & EW & _).
  destruct (frame_pure es vals (l_idx st) (l_roots st) x true) as [[spf fr]|err] eqn:FP.
  2:{ exfalso. unfold frame_pure in FP. rewrite SPF in FP.
      destruct (calc_pure _ _ _ _ _ _ _) eqn:CP; [discriminate|].
      eapply calc_pure_fuel; [|exact CP]. pose proof (cnt_from_le (l_roots st) (nd_spf n)). lia. }
  assert (spf = nd_spf n).
  { unfold frame_pure in FP. rewrite SPF in FP. destruct (calc_pure _ _ _ _ _ _ _); inversion FP; reflexivity. }
  subst spf. exists fr. split; [reflexivity|]. intros E. symmetry in E.
  apply (frame_check_iff_allowed es vals (l_idx st) (l_roots st) x (nd_spf n) fr FP
           (fun r Hr => no_root_at_zero _ _ _ _ _ r HC Hr) SP1) in E.
  unfold allowed_pure in E. rewrite Hsp, Hfr in E.
  destruct (fields_fr vals T0 e eR Hfe) as (_ & _ & Esp & Eh & Ef). fold n in Esp, Eh.
  unfold r_frame_ok, frame_ok in FO. rewrite Eh, Esp, Ef, hassp_iff in FO.
  destruct (self_parent (fe e)) as [sp|].
  - destruct E as [L Q].
    rewrite (climb_char T0 (mk_node nv T0 eR) (N.to_nat (ffr eR - nd_spf n)) (nd_spf n) (ffr eR)) in FO.
    + apply andb_false_iff in FO as [F|F]; apply N.leb_gt in F; lia.
    + exact L.
    + intros h Hh. rewrite (qon_fr vals T0 e eR Hfe). fold n. rewrite <- new_qp. apply Q. exact Hh.
    + left. lia.
  - rewrite E in FO. discriminate.
Qed.
End NewEvent.

End Frame.
