(* C17: sessions.  Per incarnation, what the reader produces is the items of [start, stop) in
   key order, without gaps or repeats, with the done flag on the last response only and only
   when the range is exhausted (repaired code, variant v_fixed). *)
From Coq Require Import NArith List Bool Lia Arith.
From Coq Require Import ZifyBool ZifyNat ZifyN.
From LV Require Import model.Seeder spec.SeederSpec proofs.SeederProofs proofs.SeederQueues.
Import ListNotations.
Local Open Scope N_scope.

(* ---------------------------------------------------------------------------------- *)
(* key-sorted item lists                                                               *)
(* ---------------------------------------------------------------------------------- *)
Fixpoint sorted_keys (l : list item) : Prop :=
  match l with
  | [] => True
  | x :: r => (forall y, In y r -> it_key x < it_key y) /\ sorted_keys r
  end.

Lemma filter_none : forall (A : Type) (f : A -> bool) (l : list A),
  (forall x, In x l -> f x = false) -> filter f l = [].
Proof.
  intros A f l. induction l as [|x l IH]; intros H; simpl; [reflexivity|].
  rewrite (H x (or_introl eq_refl)). apply IH. intros y Hy. apply H. right. exact Hy.
Qed.

(* a sorted list splits at any key threshold *)
Lemma split_sorted : forall (P : item -> bool) n l, sorted_keys l ->
  filter (fun x => P x && (it_key x <? n)) l ++ filter (fun x => P x && (n <=? it_key x)) l = filter P l.
Proof.
  intros P n l. induction l as [|x l IH]; intros Hs; simpl; [reflexivity|].
  destruct Hs as [Hx Hs]. destruct (it_key x <? n) eqn:E.
  - assert (E' : (n <=? it_key x) = false) by lia. rewrite E'. rewrite !andb_true_r, andb_false_r.
    destruct (P x); simpl; rewrite (IH Hs); reflexivity.
  - assert (E' : (n <=? it_key x) = true) by lia. rewrite E'. rewrite andb_false_r, andb_true_r.
    assert (H1 : filter (fun y => P y && (it_key y <? n)) l = []).
    { apply filter_none. intros y Hy. specialize (Hx y Hy). assert ((it_key y <? n) = false) by lia.
      rewrite H. apply andb_false_r. }
    assert (H2 : filter (fun y => P y && (n <=? it_key y)) l = filter P l).
    { apply filter_ext_in. intros y Hy. specialize (Hx y Hy). assert ((n <=? it_key y) = true) by lia.
      rewrite H. apply andb_true_r. }
    rewrite H1, H2. simpl. reflexivity.
Qed.

(* items of [a, b) below the cursor n *)
Definition pre (a b n : N) (x : item) : bool := in_range a b x && (it_key x <? n).

Lemma pre_prefix : forall a b n db, sorted_keys db ->
  exists rest, filter (pre a b n) db ++ rest = range_items db a b.
Proof.
  intros a b n db Hs. exists (filter (fun x => in_range a b x && (n <=? it_key x)) db).
  unfold range_items. rewrite <- (split_sorted (in_range a b) n db Hs). reflexivity.
Qed.

Lemma pre_empty : forall a b db, filter (pre a b a) db = [].
Proof.
  intros a b db. apply filter_none. intros x _. unfold pre, in_range.
  destruct (a <=? it_key x) eqn:E1; simpl; [|reflexivity].
  destruct (it_key x <? b); simpl; lia.
Qed.

(* ---------------------------------------------------------------------------------- *)
(* ForEachItem with the seeder's closures, on a sorted list                            *)
(* ---------------------------------------------------------------------------------- *)
Lemma foreach_sorted : forall l n b mn ms acc last0 items last c,
  sorted_keys l ->
  foreach l n b mn ms acc last0 = (items, last, c) ->
  items = acc ++ filter (fun x => (n <=? it_key x) && (it_key x <=? last) && (it_key x <? b)) l /\
  (last = last0 \/ exists y, In y l /\ n <= it_key y /\ last = it_key y) /\
  (c = true -> items = acc ++ filter (fun x => (n <=? it_key x) && (it_key x <? b)) l).
Proof.
  induction l as [|x l IH]; intros n b mn ms acc last0 items last c Hs H; simpl in H.
  - inversion H; subst. simpl. rewrite app_nil_r. auto.
  - destruct Hs as [Hx Hs]. simpl.
    destruct (it_key x <? n) eqn:E1.
    + assert (E1' : (n <=? it_key x) = false) by lia. rewrite E1'. simpl.
      destruct (IH _ _ _ _ _ _ _ _ _ Hs H) as [Hi [Hl Hc]]. split; [exact Hi|]. split; [|exact Hc].
      destruct Hl as [Hl|[y [Hy1 [Hy2 Hy3]]]]; [left; exact Hl|right; exists y; auto].
    + assert (E1' : (n <=? it_key x) = true) by lia. rewrite E1'. simpl.
      destruct (b <=? it_key x) eqn:E2.
      * inversion H; subst. assert (E2' : (it_key x <? b) = false) by lia. rewrite E2'.
        rewrite andb_false_r.
        assert (H1 : filter (fun y => (n <=? it_key y) && (it_key y <=? last) && (it_key y <? b)) l = []).
        { apply filter_none. intros y Hy. specialize (Hx y Hy). assert (Hf : (it_key y <? b) = false) by lia.
          rewrite Hf. apply andb_false_r. }
        assert (H2 : filter (fun y => (n <=? it_key y) && (it_key y <? b)) l = []).
        { apply filter_none. intros y Hy. specialize (Hx y Hy). assert (Hf : (it_key y <? b) = false) by lia.
          rewrite Hf. apply andb_false_r. }
        rewrite H1, H2, app_nil_r. auto.
      * assert (E2' : (it_key x <? b) = true) by lia. rewrite E2'. rewrite andb_true_r.
        destruct ((mn <=? N.of_nat (length (acc ++ [x]))) || (ms <=? sum_size (acc ++ [x]))) eqn:E3.
        -- inversion H; subst. rewrite N.leb_refl. simpl.
           assert (H1 : filter (fun y => (n <=? it_key y) && (it_key y <=? it_key x) && (it_key y <? b)) l = []).
           { apply filter_none. intros y Hy. specialize (Hx y Hy).
             assert (Hf : (it_key y <=? it_key x) = false) by lia. rewrite Hf. rewrite andb_false_r. reflexivity. }
           rewrite H1. split; [reflexivity|].
           split; [right; exists x; split; [left; reflexivity|split; [lia|reflexivity]]|discriminate].
        -- destruct (IH _ _ _ _ _ _ _ _ _ Hs H) as [Hi [Hl Hc]].
           assert (E4 : (it_key x <=? last) = true).
           { destruct Hl as [Hl|[y [Hy1 [Hy2 Hy3]]]]; [lia|]. specialize (Hx y Hy1). lia. }
           rewrite E4. simpl. split; [|split].
           ++ rewrite Hi. rewrite <- app_assoc. reflexivity.
           ++ right. destruct Hl as [Hl|[y [Hy1 [Hy2 Hy3]]]].
              ** exists x. split; [left; reflexivity|split; [lia|exact Hl]].
              ** exists y. split; [right; exact Hy1|split; [exact Hy2|exact Hy3]].
           ++ intros Hc'. rewrite (Hc Hc'). rewrite <- app_assoc. reflexivity.
Qed.

(* one chunk extends the items served so far (those of [a, b) below the cursor n) to those
   below the new cursor last + 1; when allConsumed it completes the range *)
Lemma foreach_extends : forall db a b n mn ms items last c,
  sorted_keys db -> a <= n ->
  foreach db n b mn ms [] n = (items, last, c) ->
  n <= last /\
  filter (pre a b (last + 1)) db = filter (pre a b n) db ++ items /\
  (c = true -> filter (pre a b (last + 1)) db = range_items db a b).
Proof.
  intros db a b n mn ms items last c Hs Han H.
  destruct (foreach_sorted _ _ _ _ _ _ _ _ _ _ Hs H) as [Hi [Hl Hc]]. simpl in Hi, Hc.
  assert (Hnl : n <= last) by (destruct Hl as [Hl|[y [_ [Hy2 Hy3]]]]; lia).
  split; [exact Hnl|].
  assert (Hsplit : filter (pre a b (last + 1)) db = filter (pre a b n) db ++ items).
  { rewrite <- (split_sorted (pre a b (last + 1)) n db Hs). f_equal.
    - apply filter_ext. intros x. unfold pre, in_range. lia.
    - rewrite Hi. apply filter_ext. intros x. unfold pre, in_range. lia. }
  split; [exact Hsplit|].
  intros Hc'. rewrite Hsplit. unfold range_items.
  rewrite <- (split_sorted (in_range a b) n db Hs). f_equal.
  rewrite (Hc Hc'). apply filter_ext. intros x. unfold in_range. lia.
Qed.

(* ---------------------------------------------------------------------------------- *)
(* the session table                                                                   *)
(* ---------------------------------------------------------------------------------- *)
Lemma key_eqb_eq : forall a b, key_eqb a b = true <-> a = b.
Proof.
  intros [a1 a2] [b1 b2]. unfold key_eqb. simpl. rewrite andb_true_iff, !N.eqb_eq.
  split; [intros [-> ->]; reflexivity|intros E; inversion E; auto].
Qed.
Lemma key_eqb_refl : forall a, key_eqb a a = true.
Proof. intros a. apply key_eqb_eq. reflexivity. Qed.
Lemma key_eqb_neq : forall a b, a <> b -> key_eqb a b = false.
Proof. intros a b H. destruct (key_eqb a b) eqn:E; [apply key_eqb_eq in E; congruence|reflexivity]. Qed.

Lemma get_app : forall k m1 m2,
  sess_get k (m1 ++ m2) = match sess_get k m1 with Some v => Some v | None => sess_get k m2 end.
Proof.
  intros k m1 m2. induction m1 as [|[k' v] m1 IH]; simpl; [reflexivity|].
  destruct (key_eqb k k'); [reflexivity|exact IH].
Qed.

Lemma get_del_same : forall k m, sess_get k (sess_del k m) = None.
Proof.
  intros k m. induction m as [|[k' v] m IH]; simpl; [reflexivity|].
  destruct (key_eqb k k') eqn:E; simpl; [exact IH|]. rewrite E. exact IH.
Qed.

Lemma get_del_other : forall k k' m, k <> k' -> sess_get k' (sess_del k m) = sess_get k' m.
Proof.
  intros k k' m H. induction m as [|[k'' v] m IH]; simpl; [reflexivity|].
  destruct (key_eqb k k'') eqn:E; simpl.
  - apply key_eqb_eq in E. subst k''. rewrite (key_eqb_neq k' k) by congruence. exact IH.
  - destruct (key_eqb k' k''); [reflexivity|exact IH].
Qed.

Lemma get_del_some : forall k k' m ss,
  sess_get k' (sess_del k m) = Some ss -> sess_get k' m = Some ss /\ k' <> k.
Proof.
  intros k k' m ss H. destruct (key_eqb k k') eqn:E.
  - apply key_eqb_eq in E. subst k'. rewrite get_del_same in H. discriminate.
  - assert (Hne : k <> k') by (intros ->; rewrite key_eqb_refl in E; discriminate).
    rewrite (get_del_other _ _ _ Hne) in H. split; [exact H|congruence].
Qed.

Lemma get_put_same : forall k v m, sess_get k (sess_put k v m) = Some v.
Proof.
  intros k v m. unfold sess_put. rewrite get_app, get_del_same. simpl. rewrite key_eqb_refl. reflexivity.
Qed.

Lemma get_put_other : forall k k' v m, k <> k' -> sess_get k' (sess_put k v m) = sess_get k' m.
Proof.
  intros k k' v m H. unfold sess_put. rewrite get_app, (get_del_other _ _ _ H).
  destruct (sess_get k' m); [reflexivity|]. simpl. rewrite (key_eqb_neq k' k) by congruence. reflexivity.
Qed.

Lemma get_del_all_some : forall p sids k m ss,
  sess_get k (del_all p sids m) = Some ss -> sess_get k m = Some ss.
Proof.
  intros p sids. induction sids as [|s sids IH]; intros k m ss H; simpl in H; [exact H|].
  apply IH in H. apply get_del_some in H. tauto.
Qed.

Lemma get_prune_some : forall p l k m ss,
  sess_get k (snd (prune p l m)) = Some ss -> sess_get k m = Some ss.
Proof.
  intros p l k m ss H. unfold prune in H. destruct l as [|o rest]; [exact H|].
  destruct (2 <? N.of_nat (length (o :: rest))); simpl in H; [|exact H].
  apply get_del_some in H. tauto.
Qed.

(* ---------------------------------------------------------------------------------- *)
(* what the reader has produced per incarnation                                        *)
(* ---------------------------------------------------------------------------------- *)
Definition items_of (l : list resp) : list item := flat_map rs_items l.

Lemma items_of_app : forall a b, items_of (a ++ b) = items_of a ++ items_of b.
Proof. intros. unfold items_of. apply flat_map_app. Qed.

Definition produced (st : state) (tr : list event) : list resp := enqs tr ++ pc_resps (st_reader st).
Definition prod (k : N) (st : state) (tr : list event) : list resp := sel k (produced st tr).

Definition undone (l : list resp) : Prop := Forall (fun r => rs_done r = false) l.

(* done flag d of the session against the flags of its responses: no response is marked done
   except the last one, and that one iff d *)
Definition flags_ok (l : list resp) (d : bool) : Prop :=
  (d = false /\ undone l) \/
  (d = true /\ exists l' r, l = l' ++ [r] /\ undone l' /\ rs_done r = true).

Definition owned (p sid : N) (l : list resp) : Prop :=
  Forall (fun r => rs_peer r = p /\ rs_sid r = sid) l.

Record live_ok (db : list item) (st : state) (tr : list event) (key : N * N) (ss : sess) : Prop := mkLive {
  lo_created : In (ECreated (s_inc ss) (fst key) (snd key) (s_orig ss) (s_stop ss) (s_creator ss)) tr;
  lo_le : s_orig ss <= s_next ss;
  lo_items : items_of (prod (s_inc ss) st tr) = filter (pre (s_orig ss) (s_stop ss) (s_next ss)) db;
  lo_done : s_done ss = true ->
            items_of (prod (s_inc ss) st tr) = range_items db (s_orig ss) (s_stop ss);
  lo_flags : flags_ok (prod (s_inc ss) st tr) (s_done ss);
  lo_owned : owned (fst key) (snd key) (prod (s_inc ss) st tr)
}.

Definition created_ok (db : list item) (st : state) (tr : list event) (k p sid a b : N) : Prop :=
  exists n d,
    items_of (prod k st tr) = filter (pre a b n) db /\
    flags_ok (prod k st tr) d /\
    (d = true -> items_of (prod k st tr) = range_items db a b) /\
    owned p sid (prod k st tr).

Definition pc_ok (st : state) : Prop :=
  match st_reader st with
  | RChunk rq _ ss => sess_get (r_peer rq, r_sid rq) (st_sessions st) = Some ss
  | RSend rq _ ss r | REnq rq _ ss r =>
      sess_get (r_peer rq, r_sid rq) (st_sessions st) = Some ss /\ rs_inc r = s_inc ss
  | _ => True
  end.

Record sinv (db : list item) (st : state) (tr : list event) : Prop := mkSinv {
  si_live : forall key ss, sess_get key (st_sessions st) = Some ss -> live_ok db st tr key ss;
  si_fresh_t : forall key ss, sess_get key (st_sessions st) = Some ss -> s_inc ss < st_counter st;
  si_fresh_r : forall r, In r (produced st tr) -> rs_inc r < st_counter st;
  si_fresh_e : forall k p sid a b c, In (ECreated k p sid a b c) tr -> k < st_counter st;
  si_uniq_e : forall k p sid a b c p' sid' a' b' c',
      In (ECreated k p sid a b c) tr -> In (ECreated k p' sid' a' b' c') tr ->
      p = p' /\ sid = sid' /\ a = a' /\ b = b' /\ c = c';
  si_inj : forall key1 key2 ss1 ss2,
      sess_get key1 (st_sessions st) = Some ss1 -> sess_get key2 (st_sessions st) = Some ss2 ->
      s_inc ss1 = s_inc ss2 -> key1 = key2;
  si_pc : pc_ok st;
  si_created : forall k p sid a b c, In (ECreated k p sid a b c) tr -> created_ok db st tr k p sid a b
}.

Lemma live_created : forall db st tr key ss,
  live_ok db st tr key ss ->
  created_ok db st tr (s_inc ss) (fst key) (snd key) (s_orig ss) (s_stop ss).
Proof.
  intros db st tr key ss [Hc Hle Hi Hd Hf Ho]. exists (s_next ss), (s_done ss). auto.
Qed.

(* steps that neither create a session nor produce a response *)
Lemma sinv_frame : forall db st tr st' tr',
  sinv db st tr ->
  (forall key ss, sess_get key (st_sessions st') = Some ss -> sess_get key (st_sessions st) = Some ss) ->
  st_counter st' = st_counter st ->
  produced st' tr' = produced st tr ->
  (forall e, In e tr -> In e tr') ->
  (forall k p sid a b c, In (ECreated k p sid a b c) tr' -> In (ECreated k p sid a b c) tr) ->
  pc_ok st' ->
  sinv db st' tr'.
Proof.
  intros db st tr st' tr' [Hl Hft Hfr Hfe Hu Hi Hpc Hc] Htab Hcnt Hprod Htr Hcr Hpc'.
  assert (Hp : forall k, prod k st' tr' = prod k st tr) by (intros k; unfold prod; rewrite Hprod; reflexivity).
  constructor.
  - intros key ss Hg. destruct (Hl key ss (Htab _ _ Hg)) as [H1 H2 H3 H4 H5 H6].
    constructor; rewrite ?Hp; auto.
  - intros key ss Hg. rewrite Hcnt. eapply Hft. eauto.
  - intros r Hr. rewrite Hprod in Hr. rewrite Hcnt. auto.
  - intros k p sid a b c He. rewrite Hcnt. eapply Hfe. eauto.
  - intros k p sid a b c p' sid' a' b' c' H1 H2. eapply Hu; eauto.
  - intros key1 key2 ss1 ss2 H1 H2. eapply Hi; eauto.
  - exact Hpc'.
  - intros k p sid a b c He. destruct (Hc _ _ _ _ _ _ (Hcr _ _ _ _ _ _ He)) as [n [d [H1 [H2 [H3 H4]]]]].
    exists n, d. rewrite !Hp. auto.
Qed.

Lemma sel_none : forall k l, (forall r, In r l -> rs_inc r <> k) -> sel k l = [].
Proof.
  intros k l H. unfold sel. apply filter_none. intros r Hr. specialize (H r Hr).
  destruct (rs_inc r =? k) eqn:E; [apply N.eqb_eq in E; congruence|reflexivity].
Qed.

Lemma live_ok_frame : forall db st tr st' tr' key ss,
  live_ok db st tr key ss ->
  prod (s_inc ss) st' tr' = prod (s_inc ss) st tr ->
  (forall e, In e tr -> In e tr') ->
  live_ok db st' tr' key ss.
Proof.
  intros db st tr st' tr' key ss [H1 H2 H3 H4 H5 H6] Hp Htr. constructor; rewrite ?Hp; auto.
Qed.

Lemma created_ok_frame : forall db st tr st' tr' k p sid a b,
  created_ok db st tr k p sid a b -> prod k st' tr' = prod k st tr -> created_ok db st' tr' k p sid a b.
Proof.
  intros db st tr st' tr' k p sid a b [n [d [H1 [H2 [H3 H4]]]]] Hp. exists n, d. rewrite !Hp. auto.
Qed.

Lemma In_created_app : forall tr evs k p sid a b c,
  (forall k' p' sid' a' b' c', ~ In (ECreated k' p' sid' a' b' c') evs) ->
  In (ECreated k p sid a b c) (tr ++ evs) -> In (ECreated k p sid a b c) tr.
Proof.
  intros tr evs k p sid a b c H Hin. apply in_app_or in Hin. destruct Hin as [Hin|Hin]; [exact Hin|].
  exfalso. eapply H; eauto.
Qed.

Lemma undone_snoc : forall l r, undone l -> rs_done r = false -> undone (l ++ [r]).
Proof. intros l r H Hr. apply Forall_app. split; [exact H|]. constructor; [exact Hr|constructor]. Qed.

Ltac no_created :=
  let k := fresh in let p := fresh in let sid := fresh in let a := fresh in let b := fresh in let c := fresh in
  intros k p sid a b c; apply In_created_app;
  let k' := fresh in let p' := fresh in let sid' := fresh in let a' := fresh in let b' := fresh in
  let c' := fresh in let E := fresh in
  intros k' p' sid' a' b' c' [E|[]]; discriminate.
Ltac same_table := let key := fresh in let ss := fresh in let Hg := fresh in
  simpl; intros key ss Hg; exact Hg.

Lemma step_sinv : forall cfg db st tr o st' evs,
  sorted_keys db -> sinv db st tr -> step v_fixed cfg db st o = Some (st', evs) ->
  sinv db st' (tr ++ evs).
Proof.
  intros cfg db st tr o st' evs Hsorted HI H.
  assert (Hmono : forall e, In e tr -> In e (tr ++ evs)) by (intros e He; apply in_or_app; left; exact He).
  destruct o as [rq|p| | | |i]; simpl in H.
  - (* NotifyRequestReceived *)
    destruct (c_maxchunks cfg <? r_chunks rq).
    + inversion H; subst. apply (sinv_frame db st tr);
        [exact HI|same_table|reflexivity| |exact Hmono|no_created|exact (si_pc _ _ _ HI)].
      unfold produced. rewrite enqs_app. simpl. rewrite app_nil_r. reflexivity.
    + destruct (16 <=? N.of_nat (length (st_chreq st))); [discriminate|].
      inversion H; subst. rewrite app_nil_r. apply (sinv_frame db st tr);
        [exact HI|same_table|reflexivity|reflexivity|auto|auto|exact (si_pc _ _ _ HI)].
  - (* UnregisterPeer *)
    destruct (128 <=? N.of_nat (length (st_chunreg st))); [discriminate|].
    inversion H; subst. rewrite app_nil_r. apply (sinv_frame db st tr);
      [exact HI|same_table|reflexivity|reflexivity|auto|auto|exact (si_pc _ _ _ HI)].
  - (* reader receives a request *)
    destruct (st_reader st) eqn:Epc; try discriminate. destruct (st_chreq st) as [|rq0 rest0]; [discriminate|].
    inversion H; subst. rewrite app_nil_r. apply (sinv_frame db st tr);
      [exact HI|same_table|reflexivity| |auto|auto|exact I].
    unfold produced. simpl. rewrite Epc. reflexivity.
  - (* reader receives an unregistration *)
    destruct (st_reader st) eqn:Epc; try discriminate. destruct (st_chunreg st) as [|p0 rest0]; [discriminate|].
    inversion H; subst. apply (sinv_frame db st tr);
      [exact HI| |reflexivity| |exact Hmono|no_created|exact I].
    + simpl. intros key ss Hg. eapply get_del_all_some. exact Hg.
    + unfold produced. simpl. rewrite Epc, enqs_app. simpl. rewrite app_nil_r. reflexivity.
  - (* reader continues *)
    destruct (st_reader st) as [|rq|rq i ss|rq i ss r0|rq i ss r0] eqn:Epc; try discriminate.
    + (* at the top: session lookup / creation *)
      destruct (st_pending st <? c_limit cfg); [|discriminate].
      unfold reader_top in H. simpl in H.
      set (key := (r_peer rq, r_sid rq)) in *.
      destruct (sess_get key (st_sessions st)) as [ss|] eqn:Eg.
      * destruct (s_orig ss =? r_start rq); inversion H; subst.
        -- rewrite app_nil_r. apply (sinv_frame db st tr);
             [exact HI|same_table|reflexivity| |auto|auto|unfold pc_ok; simpl; exact Eg].
           unfold produced. simpl. rewrite Epc. reflexivity.
        -- apply (sinv_frame db st tr);
             [exact HI|same_table|reflexivity| |exact Hmono|no_created|exact I].
           unfold produced. simpl. rewrite Epc, enqs_app. simpl. rewrite app_nil_r. reflexivity.
      * (* a new session *)
        destruct (prune (r_peer rq) (ps_get (r_peer rq) (st_peersess st)) (st_sessions st)) as [s2 t2] eqn:Epr.
        assert (Ht2 : forall k ss, sess_get k t2 = Some ss -> sess_get k (st_sessions st) = Some ss).
        { intros k ss Hg. apply (get_prune_some (r_peer rq) (ps_get (r_peer rq) (st_peersess st))).
          rewrite Epr. exact Hg. }
        inversion H; subst st' evs. clear H.
        set (ssn := mkSess (r_start rq) (r_start rq) (r_stop rq) false
                           (sender_of cfg (st_counter st)) (st_counter st) (r_serial rq)) in *.
        set (ev := ECreated (st_counter st) (r_peer rq) (r_sid rq) (r_start rq) (r_stop rq) (r_serial rq)) in *.
        set (st' := mkSt (sess_put key ssn t2) (ps_put (r_peer rq) (s2 ++ [r_sid rq]) (st_peersess st))
                         (st_counter st + 1) (st_chreq st) (st_chunreg st) (RChunk rq 0 ssn)
                         (st_senders st) (st_pending st) (st_serial st)).
        destruct HI as [Hl Hft Hfr Hfe Hu Hi Hpc Hc].
        assert (Hprod : produced st' (tr ++ [ev]) = produced st tr).
        { unfold produced. simpl. rewrite Epc, enqs_app. simpl. rewrite app_nil_r. reflexivity. }
        assert (Hp : forall k, prod k st' (tr ++ [ev]) = prod k st tr)
          by (intros k; unfold prod; rewrite Hprod; reflexivity).
        assert (Hnew : prod (st_counter st) st tr = []).
        { unfold prod. apply sel_none. intros r Hr. specialize (Hfr r Hr). lia. }
        assert (Hlive_new : live_ok db st' (tr ++ [ev]) key ssn).
        { constructor; simpl; rewrite ?Hp, ?Hnew; simpl.
          - apply in_or_app. right. left. reflexivity.
          - lia.
          - symmetry. apply pre_empty.
          - discriminate.
          - left. split; [reflexivity|constructor].
          - constructor. }
        assert (Hget : forall k ss, sess_get k (sess_put key ssn t2) = Some ss ->
                       (k = key /\ ss = ssn) \/ (k <> key /\ sess_get k (st_sessions st) = Some ss)).
        { intros k ss Hg. destruct (key_eqb key k) eqn:E.
          - apply key_eqb_eq in E. subst k. rewrite get_put_same in Hg. inversion Hg. auto.
          - assert (Hne : key <> k) by (intros ->; rewrite key_eqb_refl in E; discriminate).
            rewrite (get_put_other _ _ _ _ Hne) in Hg. right. split; [congruence|auto]. }
        constructor.
        -- intros k ss Hg. simpl in Hg. destruct (Hget _ _ Hg) as [[-> ->]|[Hne Hold]]; [exact Hlive_new|].
           eapply live_ok_frame; [apply Hl; exact Hold|apply Hp|exact Hmono].
        -- intros k ss Hg. simpl in Hg. simpl. destruct (Hget _ _ Hg) as [[-> ->]|[Hne Hold]]; [simpl; lia|].
           specialize (Hft _ _ Hold). lia.
        -- intros r Hr. rewrite Hprod in Hr. specialize (Hfr r Hr). simpl. lia.
        -- intros k p sid a b c Hin. simpl. apply in_app_or in Hin. destruct Hin as [Hin|[E|[]]].
           ++ specialize (Hfe _ _ _ _ _ _ Hin). lia.
           ++ inversion E; subst. lia.
        -- intros k p sid a b c p' sid' a' b' c' H1 H2.
           apply in_app_or in H1. apply in_app_or in H2.
           destruct H1 as [H1|[E1|[]]]; destruct H2 as [H2|[E2|[]]].
           ++ eapply Hu; eauto.
           ++ inversion E2; subst. specialize (Hfe _ _ _ _ _ _ H1). lia.
           ++ inversion E1; subst. specialize (Hfe _ _ _ _ _ _ H2). lia.
           ++ inversion E1; inversion E2; subst. auto.
        -- intros k1 k2 ss1 ss2 H1 H2 Hinc. simpl in H1, H2.
           destruct (Hget _ _ H1) as [[-> ->]|[Hne1 Ho1]]; destruct (Hget _ _ H2) as [[-> ->]|[Hne2 Ho2]].
           ++ reflexivity.
           ++ specialize (Hft _ _ Ho2). simpl in Hinc. lia.
           ++ specialize (Hft _ _ Ho1). simpl in Hinc. lia.
           ++ eapply Hi; eauto.
        -- unfold pc_ok. simpl. apply get_put_same.
        -- intros k p sid a b c Hin. apply in_app_or in Hin. destruct Hin as [Hin|[E|[]]].
           ++ eapply created_ok_frame; [apply (Hc _ _ _ _ _ _ Hin)|apply Hp].
           ++ inversion E; subst. exact (live_created _ _ _ _ _ Hlive_new).
    + (* at the loop head *)
      inversion H; subst st' evs. clear H. rewrite app_nil_r.
      pose proof (si_pc _ _ _ HI) as Hpc. unfold pc_ok in Hpc. rewrite Epc in Hpc.
      set (key := (r_peer rq, r_sid rq)) in *.
      unfold reader_chunk.
      destruct ((i <? r_chunks rq) && negb (s_done ss)) eqn:Eguard.
      * apply andb_prop in Eguard. destruct Eguard as [_ Ednd]. apply negb_true_iff in Ednd.
        destruct (foreach db (s_next ss) (s_stop ss) (r_num rq) (r_size rq) [] (s_next ss)) as [[items last] c] eqn:Ef.
        fold key.
        set (ss' := mkSess (s_orig ss) (last + 1) (s_stop ss) c (s_sender ss) (s_inc ss) (s_creator ss)).
        set (r := mkResp (r_peer rq) (r_sid rq) c items (s_inc ss) (s_creator ss) rq).
        set (st' := mkSt (sess_put key ss' (st_sessions st)) (st_peersess st) (st_counter st) (st_chreq st)
                         (st_chunreg st) (RSend rq i ss' r) (st_senders st) (st_pending st) (st_serial st)).
        destruct HI as [Hl Hft Hfr Hfe Hu Hi _ Hc].
        destruct (Hl _ _ Hpc) as [L1 L2 L3 L4 L5 L6].
        destruct (foreach_extends _ (s_orig ss) _ _ _ _ _ _ _ Hsorted L2 Ef) as [F1 [F2 F3]].
        assert (Hprod : produced st' tr = produced st tr ++ [r]).
        { unfold produced. simpl. rewrite Epc. simpl. rewrite app_nil_r. reflexivity. }
        assert (Hp0 : prod (s_inc ss) st' tr = prod (s_inc ss) st tr ++ [r]).
        { unfold prod. rewrite Hprod. apply sel_snoc_same. reflexivity. }
        assert (Hpo : forall k, k <> s_inc ss -> prod k st' tr = prod k st tr).
        { intros k Hk. unfold prod. rewrite Hprod. apply sel_snoc_other. simpl. congruence. }
        assert (Hund : undone (prod (s_inc ss) st tr)).
        { destruct L5 as [[_ Hu']|[Hd _]]; [exact Hu'|congruence]. }
        assert (Hlive_new : live_ok db st' tr key ss').
        { constructor; simpl; rewrite ?Hp0.
          - exact L1.
          - lia.
          - rewrite items_of_app, L3. simpl. rewrite app_nil_r. symmetry. exact F2.
          - intros Hcd. rewrite items_of_app, L3. simpl. rewrite app_nil_r. rewrite <- F2. apply F3. exact Hcd.
          - destruct c.
            + right. split; [reflexivity|]. exists (prod (s_inc ss) st tr), r. auto.
            + left. split; [reflexivity|]. apply undone_snoc; [exact Hund|reflexivity].
          - apply Forall_app. split; [exact L6|]. constructor; [simpl; auto|constructor]. }
        assert (Hget : forall k s0, sess_get k (sess_put key ss' (st_sessions st)) = Some s0 ->
                       (k = key /\ s0 = ss') \/ (k <> key /\ sess_get k (st_sessions st) = Some s0)).
        { intros k s0 Hg. destruct (key_eqb key k) eqn:E.
          - apply key_eqb_eq in E. subst k. rewrite get_put_same in Hg. inversion Hg. auto.
          - assert (Hne : key <> k) by (intros ->; rewrite key_eqb_refl in E; discriminate).
            rewrite (get_put_other _ _ _ _ Hne) in Hg. right. split; [congruence|auto]. }
        constructor.
        -- intros k s0 Hg. simpl in Hg. destruct (Hget _ _ Hg) as [[-> ->]|[Hne Hold]]; [exact Hlive_new|].
           assert (Hk : s_inc s0 <> s_inc ss).
           { intros E. apply Hne. eapply Hi; eauto. }
           eapply live_ok_frame; [apply Hl; exact Hold|apply Hpo; exact Hk|auto].
        -- intros k s0 Hg. simpl in Hg. simpl. destruct (Hget _ _ Hg) as [[-> ->]|[Hne Hold]]; [simpl|]; eauto.
        -- intros r1 Hr1. rewrite Hprod in Hr1. simpl. apply in_app_or in Hr1.
           destruct Hr1 as [Hr1|[<-|[]]]; [auto|]. simpl. eauto.
        -- exact Hfe.
        -- exact Hu.
        -- intros k1 k2 ss1 ss2 H1 H2 Hinc. simpl in H1, H2.
           destruct (Hget _ _ H1) as [[-> ->]|[Hne1 Ho1]]; destruct (Hget _ _ H2) as [[-> ->]|[Hne2 Ho2]].
           ++ reflexivity.
           ++ simpl in Hinc. symmetry. eapply Hi; eauto.
           ++ simpl in Hinc. eapply Hi; eauto.
           ++ eapply Hi; eauto.
        -- unfold pc_ok. simpl. split; [apply get_put_same|reflexivity].
        -- intros k p sid a b c0 Hin.
           destruct (N.eq_dec k (s_inc ss)) as [E|E].
           ++ subst k. destruct (Hu _ _ _ _ _ _ _ _ _ _ _ Hin L1) as [-> [-> [-> [-> ->]]]].
              exact (live_created _ _ _ _ _ Hlive_new).
           ++ eapply created_ok_frame; [apply (Hc _ _ _ _ _ _ Hin)|apply Hpo; exact E].
      * apply (sinv_frame db st tr);
          [exact HI|same_table|reflexivity| |auto|auto|exact I].
        unfold produced. simpl. rewrite Epc. reflexivity.
    + (* at the second wait: the addition to the pending size *)
      unfold reader_add in H. destruct (st_pending st <? c_limit cfg); [|discriminate].
      inversion H; subst st' evs. clear H. rewrite app_nil_r.
      pose proof (si_pc _ _ _ HI) as Hpc. unfold pc_ok in Hpc. rewrite Epc in Hpc.
      apply (sinv_frame db st tr);
        [exact HI|same_table|reflexivity| |auto|auto|unfold pc_ok; simpl; exact Hpc].
      unfold produced. simpl. rewrite Epc. reflexivity.
    + (* at Enqueue *)
      unfold reader_send in H.
      destruct ((N.of_nat (length (nth (s_sender ss) (st_senders st) [])) <=? c_maxtasks cfg) &&
                (Nat.ltb (s_sender ss) (length (st_senders st)))); [|discriminate].
      inversion H; subst st' evs. clear H.
      pose proof (si_pc _ _ _ HI) as Hpc. unfold pc_ok in Hpc. rewrite Epc in Hpc. destruct Hpc as [Hpc1 Hpc2].
      apply (sinv_frame db st tr);
        [exact HI|same_table|reflexivity| |exact Hmono|no_created|unfold pc_ok; simpl; exact Hpc1].
      unfold produced. simpl. rewrite Epc, enqs_app. simpl. rewrite app_nil_r. reflexivity.
  - (* a sender worker sends *)
    destruct (nth i (st_senders st) []) as [|r0 q] eqn:En; [discriminate|].
    inversion H; subst. apply (sinv_frame db st tr);
      [exact HI|same_table|reflexivity| |exact Hmono|no_created|exact (si_pc _ _ _ HI)].
    unfold produced. simpl. rewrite enqs_app. simpl. rewrite app_nil_r. reflexivity.
Qed.

Lemma run_sinv : forall cfg db ops st tr st' evs,
  sorted_keys db -> sinv db st tr -> run v_fixed cfg db st ops = (st', evs) -> sinv db st' (tr ++ evs).
Proof.
  intros cfg db ops. induction ops as [|o ops IH]; intros st tr st' evs Hs HI H; simpl in H.
  - inversion H; subst. rewrite app_nil_r. exact HI.
  - destruct (step v_fixed cfg db st o) as [[st1 e1]|] eqn:Es.
    + destruct (run v_fixed cfg db st1 ops) as [st2 e2] eqn:Er. inversion H; subst.
      rewrite app_assoc. eapply IH; eauto. eapply step_sinv; eauto.
    + eapply IH; eauto.
Qed.

Lemma sinv_init : forall cfg db, sinv db (init cfg) [].
Proof.
  intros cfg db. constructor; simpl; try (intros; discriminate); try (intros; contradiction); auto.
  exact I.
Qed.

Lemma app_eq_cases : forall (A : Type) (a b c d : list A),
  a ++ b = c ++ d ->
  (exists k, c = a ++ k /\ b = k ++ d) \/ (exists k, a = c ++ k /\ d = k ++ b).
Proof.
  intros A a. induction a as [|x a IH]; intros b c d H; simpl in *.
  - left. exists c. auto.
  - destruct c as [|y c]; simpl in *.
    + right. exists (x :: a). auto.
    + inversion H; subst. destruct (IH _ _ _ H2) as [[k [H3 H4]]|[k [H3 H4]]].
      * left. exists k. subst. auto.
      * right. exists k. subst. auto.
Qed.

Lemma done_is_last : forall l1 (r : resp) t l' r',
  l1 ++ r :: t = l' ++ [r'] -> undone l' -> rs_done r = true -> t = [].
Proof.
  intros l1 r t l' r' H Hu Hr.
  destruct (app_eq_cases _ _ _ _ _ H) as [[k [H1 H2]]|[k [H1 H2]]].
  - destruct k as [|x k]; simpl in H2.
    + inversion H2. reflexivity.
    + inversion H2; subst. exfalso. unfold undone in Hu. rewrite Forall_forall in Hu.
      assert (Hin : In x (l1 ++ x :: k)) by (apply in_or_app; right; left; reflexivity).
      specialize (Hu _ Hin). congruence.
  - destruct k as [|x k]; simpl in H2.
    + inversion H2. reflexivity.
    + inversion H2. destruct k; discriminate.
Qed.

(* T1 + T2.  For every incarnation created (by a request with selector [a, b) of peer p for
   session id sid), under every schedule:
     - the items sent so far, concatenated in sending order, are an initial segment of the
       items with a <= key < b in key order: in order, no gaps, no repeats;
     - every response carries the peer's session id;
     - a response marked done is the last response of the incarnation and then the whole range
       has been sent. *)
Lemma session_content : forall cfg db ops,
  sorted_keys db ->
  let tr := snd (run v_fixed cfg db (init cfg) ops) in
  forall k p sid a b c, In (ECreated k p sid a b c) tr ->
    let sent := sel k (sents tr) in
    (exists rest, items_of sent ++ rest = range_items db a b) /\
    owned p sid sent /\
    (forall l1 r l2, sent = l1 ++ r :: l2 -> rs_done r = true ->
       l2 = [] /\ items_of sent = range_items db a b).
Proof.
  intros cfg db ops Hs. destruct (run v_fixed cfg db (init cfg) ops) as [st' tr] eqn:Er. simpl.
  intros k p sid a b c Hin.
  pose proof (run_sinv _ _ _ _ _ _ _ Hs (sinv_init cfg db) Er) as HI. simpl in HI.
  destruct (run_fifo _ _ _ _ _ _ _ _ (qinv_init cfg) (fifo_init cfg) Er) as [_ HF]. simpl in HF.
  destruct (si_created _ _ _ HI _ _ _ _ _ _ Hin) as [n [d [Hit [Hfl [Hdn Hown]]]]].
  set (sent := sel k (sents tr)) in *.
  set (R := queued cfg k st' ++ sel k (pc_resps (st_reader st'))).
  assert (Hprod : prod k st' tr = sent ++ R).
  { unfold prod, produced. rewrite sel_app, HF. unfold R, sent. rewrite app_assoc. reflexivity. }
  rewrite Hprod in *.
  split; [|split].
  - destruct (pre_prefix a b n db Hs) as [rest0 Hrest0].
    exists (items_of R ++ rest0). rewrite app_assoc, <- items_of_app, Hit. exact Hrest0.
  - unfold owned in *. apply Forall_app in Hown. tauto.
  - intros l1 r l2 Hsent Hr.
    destruct Hfl as [[_ Hu]|[Hd [l' [r' [Hl' [Hu Hr']]]]]].
    + exfalso. unfold undone in Hu. rewrite Forall_forall in Hu.
      assert (Hin' : In r (sent ++ R)).
      { apply in_or_app. left. rewrite Hsent. apply in_or_app. right. left. reflexivity. }
      specialize (Hu _ Hin'). congruence.
    + assert (Ht : l2 ++ R = []).
      { apply (done_is_last l1 r (l2 ++ R) l' r'); auto.
        rewrite <- Hl', Hsent. rewrite <- app_assoc. reflexivity. }
      apply app_eq_nil in Ht. destruct Ht as [Hl2 HR]. split; [exact Hl2|].
      rewrite HR, app_nil_r in Hdn. apply Hdn. exact Hd.
Qed.

(* non-vacuity material *)
Lemma w_db_sorted : sorted_keys w_db.
Proof.
  unfold w_db. simpl. repeat split; intros y Hy;
    repeat (destruct Hy as [Hy|Hy]; [subst y; simpl; lia|]); destruct Hy.
Qed.

Lemma w_session_example :
  let tr := w_trace v_fixed [w_req 1 1; w_req 1 4] in
  In (ECreated 1 1 1 0 9 1) tr /\
  map it_key (items_of (sel 1 (sents tr))) = [0; 1; 2; 3; 4; 5] /\
  map rs_done (sel 1 (sents tr)) = [false; false; true].
Proof. vm_compute. split; [|split; reflexivity]. repeat ((left; reflexivity) || right). Qed.

(* the executable checks of spec/SeederSpec.v decide the statements used in the theorems *)
Lemma item_eqb_eq : forall x y, item_eqb x y = true <-> x = y.
Proof.
  intros [k1 s1 m1] [k2 s2 m2]. unfold item_eqb. simpl.
  rewrite !andb_true_iff, !N.eqb_eq. split; [intros [[-> ->] ->]; reflexivity|intros E; inversion E; auto].
Qed.

Lemma is_prefix_spec : forall l m, is_prefix l m = true <-> exists rest, l ++ rest = m.
Proof.
  induction l as [|x l IH]; intros m; simpl.
  - split; [intros _; exists m; reflexivity|auto].
  - destruct m as [|y m].
    + split; [discriminate|intros [rest H]; discriminate].
    + rewrite andb_true_iff, item_eqb_eq, IH. split.
      * intros [-> [rest H]]. exists rest. rewrite H. reflexivity.
      * intros [rest H]. inversion H; subst. split; [reflexivity|exists rest; reflexivity].
Qed.

Lemma items_eqb_spec : forall l m, items_eqb l m = true <-> l = m.
Proof.
  induction l as [|x l IH]; intros [|y m]; simpl; try (split; [discriminate|discriminate]); [tauto|].
  rewrite andb_true_iff, item_eqb_eq, IH. split; [intros [-> ->]; reflexivity|intros E; inversion E; auto].
Qed.
