(* C17 round 2: the specification's lifetime rule (SeederSpec.life_step) simulates the model's
   session handling on every run: at every reachable state there is a lifetime-spec state
   related to the model state, and the reader's processing of a request / an unregistration
   moves both in lockstep (reader_top_refines, below unreg_refines). *)
From Coq Require Import NArith List Bool Lia Arith.
From Coq Require Import ZifyBool ZifyNat ZifyN.
From LV Require Import model.Seeder spec.SeederSpec proofs.SeederProofs proofs.SeederQueues
  proofs.SeederSessions proofs.SeederLifetime proofs.SeederCounts.
Import ListNotations.
Local Open Scope N_scope.

Definition chunks_ok (cfg : config) (st : state) : Prop :=
  forall rq, In rq (st_chreq st ++ pc_req (st_reader st)) -> r_chunks rq <= c_maxchunks cfg.

Lemma life_rel_same : forall m st st',
  life_rel m st -> st_peersess st' = st_peersess st ->
  (forall k ss, sess_get k (st_sessions st) = Some ss ->
     exists ss', sess_get k (st_sessions st') = Some ss' /\ s_creator ss' = s_creator ss /\ s_orig ss' = s_orig ss) ->
  life_rel m st'.
Proof.
  intros m st st' HR Hps Ht p. destruct (HR p) as [Hm Ha]. rewrite Hps. split; [exact Hm|].
  intros x Hx. destruct (Ha x Hx) as [ss [H1 [H2 H3]]]. destruct (Ht _ _ H1) as [ss' [H4 [H5 H6]]].
  exists ss'. split; [exact H4|]. split; congruence.
Qed.

Lemma unreg_refines : forall mc m st p,
  life_rel m st ->
  life_rel (fst (life_step mc m (SUnreg p)))
           (mkSt (del_all p (ps_get p (st_peersess st)) (st_sessions st)) (ps_del p (st_peersess st))
                 (st_counter st) (st_chreq st) (tl (st_chunreg st)) RIdle (st_senders st) (st_pending st)
                 (st_serial st)).
Proof.
  intros mc m st p HR q. change (fst (life_step mc m (SUnreg p))) with (set_peer_live p [] m).
  cbn [st_peersess st_sessions]. destruct (N.eq_dec p q) as [E|E].
  - subst q. rewrite peer_live_set_same, ps_get_del_same. split; [reflexivity|intros x []].
  - rewrite (peer_live_set_other _ _ _ _ E), (ps_get_del_other _ _ _ E).
    destruct (HR q) as [Hm Ha]. split; [exact Hm|]. intros x Hx. destruct (Ha x Hx) as [ss [H1 H2]].
    exists ss. split; [|exact H2]. rewrite get_del_all_other by (simpl; congruence). exact H1.
Qed.

Lemma step_life : forall cfg db st tr o st' evs,
  sinv db st tr -> psinv st -> chunks_ok cfg st -> (exists m, life_rel m st) ->
  step v_fixed cfg db st o = Some (st', evs) ->
  chunks_ok cfg st' /\ exists m', life_rel m' st'.
Proof.
  intros cfg db st tr o st' evs HS HP HCk [m HR] H. unfold chunks_ok in *.
  assert (Hsame : forall st1, st_peersess st1 = st_peersess st -> st_sessions st1 = st_sessions st ->
                  exists m', life_rel m' st1).
  { intros st1 E1 E2. exists m. apply (life_rel_same m st); auto. intros k ss Hg. exists ss. rewrite E2. auto. }
  destruct o as [rq|p| | | |i]; simpl in H.
  - destruct (c_maxchunks cfg <? r_chunks rq) eqn:Emax.
    + inversion H; subst. split; [exact HCk|apply Hsame; reflexivity].
    + destruct (16 <=? N.of_nat (length (st_chreq st))); [discriminate|].
      inversion H; subst. split; [|apply Hsame; reflexivity].
      intros rq0 Hin. simpl in Hin. rewrite <- app_assoc in Hin. apply in_app_or in Hin.
      destruct Hin as [Hin|[<-|Hin]].
      * apply HCk. apply in_or_app. left. exact Hin.
      * simpl. lia.
      * apply HCk. apply in_or_app. right. exact Hin.
  - destruct (128 <=? N.of_nat (length (st_chunreg st))); [discriminate|].
    inversion H; subst. split; [exact HCk|apply Hsame; reflexivity].
  - destruct (st_reader st) eqn:Epc; try discriminate. destruct (st_chreq st) as [|rq0 rest0] eqn:Ech; [discriminate|].
    inversion H; subst. split; [|apply Hsame; reflexivity].
    intros rq Hin. simpl in Hin. apply HCk. simpl. rewrite ?app_nil_r.
    apply in_app_or in Hin. destruct Hin as [Hin|[Hin|[]]]; [right; exact Hin|left; exact Hin].
  - destruct (st_reader st) eqn:Epc; try discriminate. destruct (st_chunreg st) as [|p0 rest0] eqn:Eun; [discriminate|].
    inversion H; subst. split.
    + intros rq Hin. simpl in Hin. apply HCk. exact Hin.
    + exists (fst (life_step (c_maxchunks cfg) m (SUnreg p0))).
      pose proof (unreg_refines (c_maxchunks cfg) m st p0 HR) as Hu. rewrite Eun in Hu. simpl in Hu. exact Hu.
  - destruct (st_reader st) as [|rq|rq i ss|rq i ss r0|rq i ss r0] eqn:Epc; try discriminate.
    + destruct (st_pending st <? c_limit cfg); [|discriminate].
      assert (Hch : r_chunks rq <= c_maxchunks cfg).
      { apply HCk. apply in_or_app. right. left. reflexivity. }
      pose proof (reader_top_refines cfg m st rq HR HP Hch) as Hrt.
      destruct (reader_top v_fixed cfg st rq) as [st1 e1] eqn:Et.
      destruct (life_step (c_maxchunks cfg) m (SReq rq)) as [m' e] eqn:El.
      inversion H; subst st1 e1. destruct Hrt as [HR' Hout]. split; [|exists m'; exact HR'].
      assert (Hshape : st_chreq st' = st_chreq st /\ (st_reader st' = RIdle \/ exists ss, st_reader st' = RChunk rq 0 ss)).
      { unfold reader_top in Et. simpl in Et.
        destruct (sess_get (r_peer rq, r_sid rq) (st_sessions st)) as [ss|].
        - destruct (s_orig ss =? r_start rq); inversion Et; subst; simpl; eauto.
        - destruct (prune (r_peer rq) (ps_get (r_peer rq) (st_peersess st)) (st_sessions st)) as [s2 t2].
          inversion Et; subst; simpl; eauto. }
      destruct Hshape as [Hc Hpc]. intros rq0 Hin. rewrite Hc in Hin. apply HCk.
      apply in_app_or in Hin. apply in_or_app. destruct Hin as [Hin|Hin]; [left; exact Hin|right].
      destruct Hpc as [E|[ss E]]; rewrite E in Hin; simpl in Hin; [destruct Hin|exact Hin].
    + inversion H; subst st' evs. clear H.
      pose proof (si_pc _ _ _ HS) as Hpc. unfold pc_ok in Hpc. rewrite Epc in Hpc.
      unfold reader_chunk. destruct ((i <? r_chunks rq) && negb (s_done ss)).
      * destruct (foreach db (s_next ss) (s_stop ss) (r_num rq) (r_size rq) [] (s_next ss)) as [[items last] c].
        split; [intros rq0 Hin; simpl in Hin; apply HCk; exact Hin|].
        exists m. apply (life_rel_same m st); [exact HR|reflexivity|]. simpl. intros k s0 Hg.
        destruct (key_eqb (r_peer rq, r_sid rq) k) eqn:E.
        -- apply key_eqb_eq in E. subst k. rewrite get_put_same. eexists. split; [reflexivity|].
           rewrite Hpc in Hg. inversion Hg; subst. simpl. auto.
        -- exists s0. rewrite get_put_other; [auto|]. intros E'. subst k. rewrite key_eqb_refl in E. discriminate.
      * split; [|apply Hsame; reflexivity]. intros rq0 Hin. simpl in Hin. apply HCk.
        rewrite app_nil_r in Hin. apply in_or_app. left. exact Hin.
    + unfold reader_add in H. destruct (st_pending st <? c_limit cfg); [|discriminate].
      inversion H; subst. split; [|apply Hsame; reflexivity]. intros rq0 Hin. apply HCk. exact Hin.
    + unfold reader_send in H.
      destruct ((N.of_nat (length (nth (s_sender ss) (st_senders st) [])) <=? c_maxtasks cfg) &&
                (Nat.ltb (s_sender ss) (length (st_senders st)))); [|discriminate].
      inversion H; subst. split; [|apply Hsame; reflexivity]. intros rq0 Hin. apply HCk. exact Hin.
  - destruct (nth i (st_senders st) []) as [|r0 q] eqn:En; [discriminate|].
    inversion H; subst. split; [exact HCk|apply Hsame; reflexivity].
Qed.

Lemma run_life : forall cfg db ops st tr st' evs,
  sorted_keys db -> sinv db st tr -> psinv st -> chunks_ok cfg st -> (exists m, life_rel m st) ->
  run v_fixed cfg db st ops = (st', evs) ->
  psinv st' /\ chunks_ok cfg st' /\ exists m', life_rel m' st'.
Proof.
  intros cfg db ops. induction ops as [|o ops IH]; intros st tr st' evs Hs HI HP HC HL H; simpl in H.
  - inversion H; subst. auto.
  - destruct (step v_fixed cfg db st o) as [[st1 e1]|] eqn:Es.
    + destruct (run v_fixed cfg db st1 ops) as [st2 e2] eqn:Er. inversion H; subst.
      destruct (step_life _ _ _ _ _ _ _ HI HP HC HL Es) as [HC1 HL1].
      apply (IH st1 (tr ++ e1) st' e2 Hs);
        [exact (step_sinv _ _ _ _ _ _ _ Hs HI Es)|exact (step_psinv _ _ _ _ _ _ _ HI HP Es)|exact HC1|exact HL1|exact Er].
    + eapply IH; eauto.
Qed.

(* At every reachable state: a lifetime-spec state is related to the model state (per peer the
   same session ids in the same order, each with the same creator and selector start); whenever
   the reader is about to process a request the rule's prediction (mismatch / served by which
   incarnation / new incarnation, dropping the oldest of three) is what the model does, and the
   relation holds again afterwards; likewise for an unregistration. *)
Lemma lifetime_simulation : forall cfg db ops,
  sorted_keys db ->
  let st := fst (run v_fixed cfg db (init cfg) ops) in
  exists m, life_rel m st /\
    (forall rq, st_reader st = RTop rq ->
       let '(st', evs) := reader_top v_fixed cfg st rq in
       let '(m', e) := life_step (c_maxchunks cfg) m (SReq rq) in
       life_rel m' st' /\ outcome_agrees e rq st' evs) /\
    (forall p rest, st_reader st = RIdle -> st_chunreg st = p :: rest ->
       exists st' evs, step v_fixed cfg db st OReadUnreg = Some (st', evs) /\
                       life_rel (fst (life_step (c_maxchunks cfg) m (SUnreg p))) st').
Proof.
  intros cfg db ops Hs. destruct (run v_fixed cfg db (init cfg) ops) as [st tr] eqn:Er. simpl.
  assert (H0 : exists m, life_rel m (init cfg)).
  { exists []. intros p. simpl. split; [reflexivity|intros x []]. }
  assert (HC0 : chunks_ok cfg (init cfg)) by (intros rq []).
  destruct (run_life _ _ _ _ _ _ _ Hs (sinv_init cfg db) (psinv_init cfg) HC0 H0 Er) as [HP [HC [m HR]]].
  exists m. split; [exact HR|]. split.
  - intros rq Hpc. apply reader_top_refines; auto. apply HC. rewrite Hpc. apply in_or_app. right. left. reflexivity.
  - intros p rest Hpc Hun. simpl. rewrite Hpc, Hun. eexists. eexists. split; [reflexivity|].
    pose proof (unreg_refines (c_maxchunks cfg) m st p HR) as Hu. rewrite Hun in Hu. exact Hu.
Qed.
