(* L1: the line-by-line model of abft (model/Abft.v + model/AbftRun.v) REFINES the independent
   reference (spec/ElectionSpec.v).  This file: the adapter between the two artefacts and the
   statement.  Proofs: proofs/Link*.v; notes: design-notes/Link.md.

   The adapter is the one the C10 driver uses (coq/extract/C10/refrunabft.ml, c10_tokens): an input
   event of the reference (FcSpec event + claimed frame; creator = POSITION in the validator list)
   becomes an abft event (creator = validator ID at that position, epoch 1); every event is first
   offered to Build (speculative frame) and then to Process; the observations of the run are
   rendered as the reference's output: per event (result code, frame assigned by Build), and the
   blocks (frame, Atropos, cheaters). *)
From Coq Require Import NArith List Bool Lia ZifyN ZifyNat.
From LV Require Import lib.Bytes model.Codec model.VecIndex model.Abft model.AbftRun spec.ElectionSpec
  proofs.AbftBuild proofs.BftMono proofs.BftRun proofs.BftMain proofs.BftAccept proofs.BftProps proofs.LinkVals.
Import ListNotations.
Local Open Scope N_scope.

Section Adapter.
Variable ep : N.               (* the epoch the events belong to *)
Variable lam : fev -> N.       (* Lamport time given to an event; consensus does not look at it *)

Definition to_aevent (vals : list (N * N)) (e : fev) : aevent :=
  {| a_id := eid (fe e); a_epoch := ep; a_creator := vid vals (ecr (fe e)); a_seq := eseq (fe e);
     a_lamport := lam e; a_frame := ffr e; a_parents := epar (fe e) |}.

Definition abft_ops (vals : list (N * N)) (D : list fev) : list op :=
  flat_map (fun e => [OpB (to_aevent vals e); OpP (to_aevent vals e)]) D.
End Adapter.

(* result codes of the reference: 0 accepted, 1 wrong frame, 2 not offered (guard), 9 = crit/panic *)
Definition code_of (r : option err) : N :=
  match r with None => 0 | Some EWrongFrame => 1 | Some _ => 9 end.
Definition blk_obs (b : block) : N * N * list N := (b_frame b, b_atropos b, b_cheaters b).

Fixpoint render (os : list AbftRun.obs) : obs_t :=
  match os with
  | ObsB b :: ObsP r bl _ _ :: rest =>
    let '(cs, bs) := render rest in
    ((code_of r, match b with Ok f => f | Err _ => 0 end) :: cs, map blk_obs bl ++ bs)
  | ObsB _ :: ObsSkip _ :: rest | ObsSkip _ :: ObsSkip _ :: rest =>
    let '(cs, bs) := render rest in ((2, 0) :: cs, bs)
  | _ => ([], [])
  end.

(* the model of the implementation as an [impl_model] (no sealing policy: one epoch, numbered 1;
   cap = capacity of the forkless-cause LRU, IndexCacheConfig.ForklessCausePairs) *)
Definition abft_run (cap : nat) (lam : fev -> N) : impl_model :=
  fun vals D => render (run cap [] sample (start 1 vals) (abft_ops 1 lam vals D)).

(* ---------- side conditions of the refinement ---------- *)
(* Event ids are hashes in the implementation; IndexedLachesis.Build gives the speculative event a
   temporary id (epoch | lamport | build counter in the 24 tail bytes).  An input event whose id has that
   shape for one of the counters used during the run (1 .. number of events: one Build per event) could
   meet a stale forkless-cause cache entry of an earlier Build: outside the property (and outside what
   the abft worker's C07 theorems cover: proofs/AbftBuild.v, real_not_temp).
   is_temp K x: x = mk_id_bytes ep lam (be 24 c) for some epoch, Lamport time and counter 1 <= c <= K,
   i.e. the low 192 bits of x are a number between 1 and K. *)
Definition id_fresh (K x : N) : Prop := ~ is_temp K x.
Definition ids_fresh (D : list fev) : Prop := forall e, In e D -> id_fresh (N.of_nat (length D)) (eid (fe e)).

(* the statement: on validator lists in canonical form with total weight < 2^31 (LinkVals.vals_ok)
   and inputs whose ids are not temporary ids (and fewer than 2^192 events: Build's counter is written
   into 24 bytes, the repaired FillBytes panics beyond), the model run equals the reference on every
   valid run *)
Definition link_side (vals : list (N * N)) (D : list fev) : Prop :=
  vals_ok vals /\ ids_fresh D /\ N.of_nat (length D) < 2 ^ 192.

Definition impl_refines_spec_on (side : list (N * N) -> list fev -> Prop) (run : impl_model) : Prop :=
  forall vals D, side vals D -> valid_run vals D -> run vals D = reference vals D.

Definition Link_full (cap : nat) (lam : fev -> N) : Prop :=
  impl_refines_spec_on link_side (abft_run cap lam).

(* C01 / C10 at full strength for a model that refines the reference under a side condition that is
   inherited by sub-runs *)
Definition C10_full_on (side : list (N * N) -> list fev -> Prop) (run : impl_model) : Prop :=
  forall vals D, side vals D -> valid_run vals D -> run vals D = reference vals D.
Definition C01_full_on (side : list (N * N) -> list fev -> Prop) (run : impl_model) : Prop :=
  forall vals D1 D2, side vals D2 -> valid_run vals D2 -> incl D1 D2 -> NoDup (ids_of D1) -> parents_first D1 ->
    codes_ok (fst (run vals D1)) /\
    prefix (snd (run vals D1)) (snd (run vals D2)) /\
    (incl D2 D1 -> snd (run vals D1) = snd (run vals D2)).

Lemma link_side_sub vals D1 D2 : link_side vals D2 -> incl D1 D2 -> NoDup (ids_of D1) -> link_side vals D1.
Proof.
  intros [V [F L]] I ND.
  assert (NDD : NoDup D1) by (apply (NoDup_map_inv (fun e => eid (fe e))); exact ND).
  pose proof (NoDup_incl_length NDD I) as Len.
  split; [exact V|]. split; [|lia].
  intros e He (ep0 & lm & c & t & Bc & S & E). apply (F e (I e He)). exists ep0, lm, c, t. split; [lia | auto].
Qed.

Theorem C01_on_from_refinement (side : list (N * N) -> list fev -> Prop) (run : impl_model) :
  (forall vals D1 D2, side vals D2 -> incl D1 D2 -> NoDup (ids_of D1) -> side vals D1) ->
  impl_refines_spec_on side run -> C01_full_on side run.
Proof.
  intros Hsub Href vals D1 D2 S2 V2 Hincl Hnd Hpf.
  pose proof V2 as [A2 Hff].
  pose proof (acceptance_order_independent vals D2 D1 A2 Hincl Hnd Hpf) as A1.
  pose proof (valid_run_sub vals D1 D2 V2 A1 Hincl) as V1.
  pose proof (Hsub vals D1 D2 S2 Hincl Hnd) as S1.
  rewrite (Href vals D1 S1 V1), (Href vals D2 S2 V2).
  split; [rewrite reference_codes; exact A1|].
  split; [apply reference_prefix; assumption|].
  intros Hincl2. apply reference_same_set; assumption.
Qed.
